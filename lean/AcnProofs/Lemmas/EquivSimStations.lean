/-
  Helper lemmas for C10 (Sim level, 2/2): the whole simulator under a permutation `σ` of the station
  table.  `StEquiv σ s s'`: `s'` is `s` with every per-station array read in the order `σ`
  (pilot / rate matrix rows, `evsePilot`, occupancy snapshots); core, EV records, peak and draw
  counter are equal.
-/
import AcnProofs.Lemmas.EquivSimPilots
import AcnProofs.Lemmas.EquivShift

set_option linter.unusedSectionVars false
set_option linter.unusedSimpArgs false

namespace Acn.SimEquiv
open Acn Acn.Sim Acn.EventCore Acn.Evse Acn.Ledger

variable {K : Type} [Field K] [LinearOrder K] [IsStrictOrderedRing K] [HasExp K]

/-! ### re-indexed lists -/

theorem getD_reidx {α : Type} (σ : List Nat) (l : List α) (d : α) (j : Nat) (hj : j < σ.length) :
    (reidx σ l d).getD j d = l.getD (σ.getD j 0) d := by
  unfold reidx
  simp [List.getD_eq_getElem?_getD, hj]

theorem reidx_set {α : Type} (σ : List Nat) (l : List α) (d v : α) (j i : Nat) (hnd : σ.Nodup)
    (hj : j < σ.length) (hσ : σ.getD j 0 = i) (hi : i < l.length) :
    reidx σ (l.set i v) d = (reidx σ l d).set j v := by
  have hσj : σ[j] = i := by rw [← hσ]; simp [List.getD_eq_getElem?_getD, hj]
  apply List.ext_getElem?
  intro k
  simp only [reidx, List.getElem?_map, List.getElem?_set, List.length_map]
  by_cases hk : k < σ.length
  · have hσk : σ[k]? = some σ[k] := List.getElem?_eq_getElem hk
    rw [hσk]
    simp only [Option.map_some]
    by_cases hjk : j = k
    · subst hjk
      simp [hj, hσj, List.getD_eq_getElem?_getD, hi]
    · have hne : i ≠ σ[k] := by
        intro h
        exact hjk ((hnd.getElem_inj_iff).1 (hσj.trans h))
      simp [hjk, List.getD_eq_getElem?_getD, List.getElem?_set, hne]
  · have hσk : σ[k]? = none := by simp; omega
    have hjk : ¬ j = k := by omega
    simp [hσk, hjk]

theorem reidx_map {α β : Type} (f : α → β) (σ : List Nat) (l : List α) (da : α) (db : β)
    (h : ∀ i ∈ σ, i < l.length) : reidx σ (l.map f) db = (reidx σ l da).map f := by
  unfold reidx
  rw [List.map_map]
  apply List.map_congr_left
  intro i hi
  exact Pilots.map_getD_lt f l i da db (h i hi)

theorem perm_lt {σ : List Nat} {n : Nat} (h : σ.Perm (List.range n)) : ∀ i ∈ σ, i < n :=
  fun i hi => List.mem_range.1 (h.mem_iff.1 hi)

theorem perm_nodup {σ : List Nat} {n : Nat} (h : σ.Perm (List.range n)) : σ.Nodup :=
  h.nodup_iff.2 List.nodup_range

theorem perm_length {σ : List Nat} {n : Nat} (h : σ.Perm (List.range n)) : σ.length = n := by
  simpa using h.length_eq

theorem getD_mem {σ : List Nat} {j : Nat} (hj : j < σ.length) : σ.getD j 0 ∈ σ := by
  simp [List.getD_eq_getElem?_getD, hj]

/-! ### the permuted scenario -/

/-- the same scenario with the stations registered in the order `σ` -/
def permCfg (σ : List Nat) (d : Station K) (cfg : Cfg K) : Cfg K :=
  { cfg with stations := reidx σ cfg.stations d }

structure StEquiv (σ : List Nat) (s s' : State K) : Prop where
  core : s'.core = s.core
  pilots : s'.pilots = s.pilots.reidx σ
  rates : s'.rates = s.rates.reidx σ
  peak : s'.peak = s.peak
  evs : s'.evs = s.evs
  evsePilot : s'.evsePilot = reidx σ s.evsePilot 0
  noiseIdx : s'.noiseIdx = s.noiseIdx
  occLog : s'.occLog = s.occLog.map (fun row => reidx σ row none)

/-- every per-station array has one entry per station -/
structure Shape (n : Nat) (s : State K) : Prop where
  pilots : s.pilots.rows.length = n
  rates : s.rates.rows.length = n
  evsePilot : s.evsePilot.length = n

/-- the hypotheses on the permutation and the scenario -/
structure PermOK (σ : List Nat) (cfg : Cfg K) : Prop where
  perm : σ.Perm (List.range cfg.stations.length)
  nodup : StationsNodup cfg
  noise : ConstNoise cfg

section
variable {σ : List Nat} {d : Station K} {cfg : Cfg K}

theorem permCfg_ids (h : PermOK σ cfg) :
    (permCfg σ d cfg).stations.map (·.id) = reidx σ (cfg.stations.map (·.id)) "" :=
  (reidx_map (·.id) σ cfg.stations d "" (perm_lt h.perm)).symm

theorem permCfg_stations_perm (h : PermOK σ cfg) : (permCfg σ d cfg).stations.Perm cfg.stations :=
  reidx_perm d h.perm

theorem mem_ids_iff (h : PermOK σ cfg) (st : String) :
    st ∈ (permCfg σ d cfg).core.stations ↔ st ∈ cfg.core.stations :=
  ((permCfg_stations_perm (d := d) h).map (·.id)).mem_iff

/-- position of a registered station in the permuted table -/
theorem stationIndex_perm (h : PermOK σ cfg) {st : String} (hst : st ∈ cfg.stations.map (·.id)) :
    stationIndex (permCfg σ d cfg) st < σ.length ∧
    σ.getD (stationIndex (permCfg σ d cfg) st) 0 = stationIndex cfg st := by
  have hn := perm_length h.perm
  -- the position in the original table
  obtain ⟨a, ha, hida⟩ := List.mem_map.1 hst
  have hex : ∃ x ∈ cfg.stations, (fun s : Station K => s.id == st) x = true := ⟨a, ha, by simp [hida]⟩
  have hi0 : stationIndex cfg st < cfg.stations.length := List.findIdx_lt_length_of_exists hex
  have hp0 : (cfg.stations[stationIndex cfg st]).id = st := by
    have := List.findIdx_getElem (w := hi0) (p := fun s : Station K => s.id == st)
    simp only [beq_iff_eq] at this
    exact this
  -- the position in the permuted table
  have hex' : ∃ x ∈ (permCfg σ d cfg).stations, (fun s : Station K => s.id == st) x = true :=
    ⟨a, (permCfg_stations_perm (d := d) h).mem_iff.2 ha, by simp [hida]⟩
  have hj : stationIndex (permCfg σ d cfg) st < (permCfg σ d cfg).stations.length :=
    List.findIdx_lt_length_of_exists hex'
  have hlen : (permCfg σ d cfg).stations.length = σ.length := by simp [permCfg, reidx]
  have hjσ : stationIndex (permCfg σ d cfg) st < σ.length := hlen ▸ hj
  refine ⟨hjσ, ?_⟩
  have hpj : ((permCfg σ d cfg).stations[stationIndex (permCfg σ d cfg) st]).id = st := by
    have := List.findIdx_getElem (w := hj) (p := fun s : Station K => s.id == st)
    simp only [beq_iff_eq] at this
    exact this
  -- that entry is the original station number σ[j]
  set j := stationIndex (permCfg σ d cfg) st with hjdef
  have hσj : σ.getD j 0 < cfg.stations.length := by
    have := perm_lt h.perm _ (getD_mem hjσ); exact this
  have hentry : (permCfg σ d cfg).stations[j] = cfg.stations[σ.getD j 0] := by
    have e1 : (permCfg σ d cfg).stations[j] = cfg.stations.getD (σ[j]) d := by simp [permCfg, reidx]
    have e2 : σ[j] = σ.getD j 0 := by simp [List.getD_eq_getElem?_getD, hjσ]
    rw [e1, e2, List.getD_eq_getElem?_getD, List.getElem?_eq_getElem hσj]
    rfl
  rw [hentry] at hpj
  -- ids are pairwise different
  have hnd : (cfg.stations.map (·.id)).Nodup := h.nodup
  have h1 : (cfg.stations.map (·.id))[σ.getD j 0]'(by simpa using hσj) =
      (cfg.stations.map (·.id))[stationIndex cfg st]'(by simpa using hi0) := by
    simp only [List.getElem_map]
    rw [hpj, hp0]
  exact (hnd.getElem_inj_iff).1 h1

/-! ### events -/

theorem process_stations (h : PermOK σ cfg) (e : Event) (c : Core) :
    process (permCfg σ d cfg).core e c = process cfg.core e c := by
  have hc : ∀ s, (permCfg σ d cfg).core.stations.contains s = cfg.core.stations.contains s := by
    intro s
    rw [Bool.eq_iff_iff]
    simp only [List.contains_iff_mem]
    exact mem_ids_iff h s
  unfold process findSession
  have hs : (permCfg σ d cfg).core.sessions = cfg.core.sessions := rfl
  simp only [hc, hs]

theorem step_stations (h : PermOK σ cfg) (e : Event) (c : Core) :
    EventCore.step (permCfg σ d cfg).core e c = EventCore.step cfg.core e c := by
  unfold EventCore.step
  exact process_stations h e _

/-- an unplug that is processed without error refers to a registered station -/
theorem unplug_ok_registered {c0 : EventCore.Cfg} {e : Event} {c : Core} {x : Session}
    (hk : e.kind = .unplug) (hf : findSession c0 e.sess = some x) (hr : (EventCore.step c0 e c).2 = none) :
    x.station ∈ c0.stations := by
  unfold EventCore.step process at hr
  simp only [hk, hf] at hr
  by_contra hne
  simp [hne] at hr

theorem stepEv_equiv (h : PermOK σ cfg) (e : Event) {s s' : State K} (he : StEquiv σ s s')
    (hs : Shape cfg.stations.length s) :
    (stepEv (permCfg σ d cfg) e s').2 = (stepEv cfg e s).2 ∧
    StEquiv σ (stepEv cfg e s).1 (stepEv (permCfg σ d cfg) e s').1 ∧
    Shape cfg.stations.length (stepEv cfg e s).1 := by
  have hfs : ∀ id, findSession (permCfg σ d cfg).core id = findSession cfg.core id := fun _ => rfl
  unfold stepEv
  simp only [he.core, step_stations h, hfs]
  refine ⟨trivial, ?_, ?_⟩
  · refine ⟨rfl, he.pilots, he.rates, he.peak, he.evs, ?_, he.noiseIdx, he.occLog⟩
    simp only
    cases hk : e.kind with
    | plugin => simpa using he.evsePilot
    | recompute => simpa using he.evsePilot
    | unplug =>
      cases hr : (EventCore.step cfg.core e s.core).2 with
      | some err => simpa using he.evsePilot
      | none =>
        cases hf : findSession cfg.core e.sess with
        | none => simpa using he.evsePilot
        | some x =>
          simp only
          by_cases hu : unplugHits s.core x = true
          · simp only [hu, if_true]
            have hreg : x.station ∈ cfg.stations.map (·.id) := unplug_ok_registered hk hf hr
            obtain ⟨hj, hσ⟩ := stationIndex_perm (d := d) h hreg
            rw [he.evsePilot, ← hσ]
            refine (reidx_set σ s.evsePilot 0 0 _ _ (perm_nodup h.perm) hj rfl ?_).symm
            rw [hs.evsePilot]
            exact perm_lt h.perm _ (getD_mem hj)
          · simp only [hu, Bool.false_eq_true, if_false]
            exact he.evsePilot
  · refine ⟨hs.pilots, hs.rates, ?_⟩
    simp only
    split <;> simp [hs.evsePilot]

theorem processAll_equiv (h : PermOK σ cfg) : ∀ (es : List Event) {s s' : State K}, StEquiv σ s s' →
    Shape cfg.stations.length s →
    (Sim.processAll (permCfg σ d cfg) es s').2 = (Sim.processAll cfg es s).2 ∧
    StEquiv σ (Sim.processAll cfg es s).1 (Sim.processAll (permCfg σ d cfg) es s').1 ∧
    Shape cfg.stations.length (Sim.processAll cfg es s).1 := by
  intro es
  induction es with
  | nil => intro s s' he hs; exact ⟨rfl, he, hs⟩
  | cons e es ih =>
    intro s s' he hs
    obtain ⟨h1, h2, h3⟩ := stepEv_equiv (d := d) h e he hs
    unfold Sim.processAll
    cases hst : stepEv cfg e s with
    | mk s2 err =>
      cases hst' : stepEv (permCfg σ d cfg) e s' with
      | mk s2' err' =>
        rw [hst, hst'] at h1 h2
        rw [hst] at h3
        simp only at h1 h2 h3
        subst h1
        cases err' with
        | some x => exact ⟨rfl, h2, h3⟩
        | none => exact ih h2 h3

theorem eventsStage_equiv_st (h : PermOK σ cfg) {s s' : State K} (he : StEquiv σ s s')
    (hs : Shape cfg.stations.length s) :
    (Sim.eventsStage (permCfg σ d cfg) s').2 = (Sim.eventsStage cfg s).2 ∧
    StEquiv σ (Sim.eventsStage cfg s).1 (Sim.eventsStage (permCfg σ d cfg) s').1 ∧
    Shape cfg.stations.length (Sim.eventsStage cfg s).1 := by
  unfold Sim.eventsStage
  rw [he.core]
  exact processAll_equiv h _
    ⟨rfl, he.pilots, he.rates, he.peak, he.evs, he.evsePilot, he.noiseIdx, he.occLog⟩
    ⟨hs.pilots, hs.rates, hs.evsePilot⟩

/-! ### `update_pilots` -/

theorem get_reidx (m : Pilots.Mat K) (j t : Nat) (hj : j < σ.length) :
    (m.reidx σ).get j t = m.get (σ.getD j 0) t := by
  unfold Pilots.Mat.get Pilots.Mat.reidx
  simp only
  rw [getD_reidx σ m.rows [] j hj]

theorem occupantEv_equiv {s s' : State K} (he : StEquiv σ s s') (st : String) :
    occupantEv s' st = occupantEv s st := by
  simp only [occupantEv, evOf, he.core, he.evs]

/-- one `set_pilot`: station number `j` of the permuted table is station number `σ[j]` of the original -/
theorem setPilotAt_sim (h : PermOK σ cfg) {s s' : State K} (he : StEquiv σ s s')
    (hs : Shape cfg.stations.length s) (j : Nat) (hj : j < σ.length) (st : Station K) :
    (setPilotAt (permCfg σ d cfg) s' j st).2 = (setPilotAt cfg s (σ.getD j 0) st).2 ∧
    StEquiv σ (setPilotAt cfg s (σ.getD j 0) st).1 (setPilotAt (permCfg σ d cfg) s' j st).1 ∧
    Shape cfg.stations.length (setPilotAt cfg s (σ.getD j 0) st).1 := by
  rw [setPilotAt_plan, setPilotAt_plan]
  have hp : ∀ p o ν, plan (permCfg σ d cfg) st p o ν = plan cfg st p o ν := fun _ _ _ => rfl
  have hnz : ∀ k, noiseAt (permCfg σ d cfg) k = noiseAt cfg k := fun _ => rfl
  rw [hp, hnz, he.pilots, he.core, get_reidx _ _ _ hj, occupantEv_equiv he, he.noiseIdx]
  cases plan cfg st (s.pilots.get (σ.getD j 0) s.core.iter) (occupantEv s st.id) (noiseAt cfg s.noiseIdx) with
  | error e => exact ⟨rfl, he, hs⟩
  | ok u =>
    simp only
    have hi : σ.getD j 0 < s.evsePilot.length := by
      rw [hs.evsePilot]; exact perm_lt h.perm _ (getD_mem hj)
    refine ⟨trivial, ⟨he.core, he.pilots, he.rates, he.peak, ?_, ?_, ?_, he.occLog⟩, ⟨hs.pilots, hs.rates, ?_⟩⟩
    · simp only [eff, he.evs]
    · simp only [eff, he.evsePilot]
      exact (reidx_set σ s.evsePilot 0 _ j _ (perm_nodup h.perm) hj rfl hi).symm
    · simp only [eff, he.noiseIdx]
    · simp [eff, hs.evsePilot]

theorem updList_sim (h : PermOK σ cfg) : ∀ (js : List Nat), (∀ j ∈ js, j < σ.length) →
    ∀ {s s' : State K}, StEquiv σ s s' → Shape cfg.stations.length s →
    (updList (permCfg σ d cfg) (js.map fun j => (j, cfg.stations.getD (σ.getD j 0) d)) s').2 =
      (updList cfg (js.map fun j => (σ.getD j 0, cfg.stations.getD (σ.getD j 0) d)) s).2 ∧
    StEquiv σ (updList cfg (js.map fun j => (σ.getD j 0, cfg.stations.getD (σ.getD j 0) d)) s).1
      (updList (permCfg σ d cfg) (js.map fun j => (j, cfg.stations.getD (σ.getD j 0) d)) s').1 ∧
    Shape cfg.stations.length (updList cfg (js.map fun j => (σ.getD j 0, cfg.stations.getD (σ.getD j 0) d)) s).1 := by
  intro js
  induction js with
  | nil => intro _ s s' he hs; exact ⟨rfl, he, hs⟩
  | cons j js ih =>
    intro hjs s s' he hs
    have hj : j < σ.length := hjs j List.mem_cons_self
    obtain ⟨h1, h2, h3⟩ := setPilotAt_sim (d := d) h he hs j hj (cfg.stations.getD (σ.getD j 0) d)
    simp only [List.map_cons, updList]
    cases hst : setPilotAt cfg s (σ.getD j 0) (cfg.stations.getD (σ.getD j 0) d) with
    | mk s2 err =>
      cases hst' : setPilotAt (permCfg σ d cfg) s' j (cfg.stations.getD (σ.getD j 0) d) with
      | mk s2' err' =>
        rw [hst, hst'] at h1 h2
        rw [hst] at h3
        simp only at h1 h2 h3
        subst h1
        cases err' with
        | some x => exact ⟨rfl, h2, h3⟩
        | none => exact ih (fun k hk => hjs k (List.mem_cons_of_mem _ hk)) h2 h3

/-- occupants of different stations are different sessions -/
theorem apart_of_occSound (h : PermOK σ cfg) {occ : String → Option Session} (ho : OccSound cfg.core occ)
    {k k' : Nat} (hk : k < cfg.stations.length) (hk' : k' < cfg.stations.length) (hne : k ≠ k') :
    Apart occ (k, cfg.stations.getD k d) (k', cfg.stations.getD k' d) := by
  refine ⟨hne, ?_⟩
  intro x y hx hy hid
  simp only at hx hy
  obtain ⟨fx, sx⟩ := ho _ x hx
  obtain ⟨fy, sy⟩ := ho _ y hy
  have hxy : x = y := by
    rw [hid] at fx
    exact Option.some.inj (fx.symm.trans fy)
  have hids : (cfg.stations.getD k d).id = (cfg.stations.getD k' d).id := by
    rw [← sx, ← sy, hxy]
  have hnd : (cfg.stations.map (·.id)).Nodup := h.nodup
  have h1 : (cfg.stations.map (·.id))[k]'(by simpa using hk) = (cfg.stations.map (·.id))[k']'(by simpa using hk') := by
    simp only [List.getElem_map]
    simpa [List.getD_eq_getElem?_getD, hk, hk'] using hids
  exact hne ((hnd.getElem_inj_iff).1 h1)

theorem updatePilots_equiv (h : PermOK σ cfg) {s s' r : State K} (he : StEquiv σ s s')
    (hs : Shape cfg.stations.length s) (ho : OccSound cfg.core s.core.occ)
    (hr : updatePilots cfg s = (r, none)) :
    ∃ r', updatePilots (permCfg σ d cfg) s' = (r', none) ∧ StEquiv σ r r' ∧ Shape cfg.stations.length r := by
  have hn := perm_length h.perm
  -- the original loop, as a loop over (number, station) pairs
  unfold updatePilots at hr
  rw [updatePilotsFrom_eq cfg d] at hr
  simp only [Nat.zero_add] at hr
  -- … in the order σ
  have hperm : ((List.range cfg.stations.length).map fun k => (k, cfg.stations.getD k d)).Perm
      (σ.map fun k => (k, cfg.stations.getD k d)) := (h.perm.symm.map _)
  have hpw : ((List.range cfg.stations.length).map fun k => (k, cfg.stations.getD k d)).Pairwise
      (Apart s.core.occ) := by
    rw [List.pairwise_map]
    refine List.Pairwise.imp_of_mem ?_ (List.nodup_range (n := cfg.stations.length))
    intro a b ha hb hab
    exact apart_of_occSound (d := d) h ho (List.mem_range.1 ha) (List.mem_range.1 hb) hab
  have hr2 := updList_perm cfg h.noise hperm s r hpw hr
  -- … simulated on the permuted state
  have hσl : (σ.map fun k => (k, cfg.stations.getD k d)) =
      ((List.range σ.length).map fun j => (σ.getD j 0, cfg.stations.getD (σ.getD j 0) d)) := by
    conv_lhs => rw [← range_map_getD σ 0]
    rw [List.map_map]
    rfl
  rw [hσl] at hr2
  obtain ⟨h1, h2, h3⟩ := updList_sim (d := d) h (List.range σ.length) (fun j hj => List.mem_range.1 hj) he hs
  rw [hr2] at h1 h2 h3
  simp only at h1 h2 h3
  refine ⟨_, ?_, h2, h3⟩
  unfold updatePilots
  rw [updatePilotsFrom_eq (permCfg σ d cfg) d]
  have hlen : (permCfg σ d cfg).stations.length = σ.length := by simp [permCfg, reidx]
  have hl : ((List.range (permCfg σ d cfg).stations.length).map fun k => (0 + k, (permCfg σ d cfg).stations.getD k d)) =
      ((List.range σ.length).map fun j => (j, cfg.stations.getD (σ.getD j 0) d)) := by
    rw [hlen]
    apply List.map_congr_left
    intro j hj
    have hj' : j < σ.length := List.mem_range.1 hj
    simp only [Nat.zero_add, Prod.mk.injEq, true_and]
    exact getD_reidx σ cfg.stations d j hj'
  rw [hl]
  exact Prod.ext rfl h1

/-! ### `_store_actual_charging_rates` -/

theorem writeCol_reidx (m : Pilots.Mat K) (t : Nat) (col : List K)
    (hm : ∀ i ∈ σ, i < m.rows.length) (hc : ∀ i ∈ σ, i < col.length) :
    writeCol (m.reidx σ) t (reidx σ col 0) = (writeCol m t col).reidx σ := by
  unfold writeCol Pilots.Mat.reidx
  simp only
  congr 1
  rw [zipWith_reidx]
  unfold reidx
  apply List.map_congr_left
  intro i hi
  rw [Pilots.zipWith_getD_lt _ m.rows col i [] 0 [] (hm i hi) (hc i hi)]

theorem currentRates_equiv (h : PermOK σ cfg) {s s' : State K} (he : StEquiv σ s s') :
    currentRates (permCfg σ d cfg) s' = reidx σ (currentRates cfg s) 0 := by
  unfold currentRates
  refine Eq.trans (List.map_congr_left (fun st _ => ?_)) (reidx_map _ σ cfg.stations d 0 (perm_lt h.perm)).symm
  rw [occupantEv_equiv he]

theorem sumK_reidx (h : PermOK σ cfg) (l : List K) (hl : l.length = cfg.stations.length) :
    sumK (reidx σ l 0) = sumK l := by
  rw [Feas.sumK_eq_sum, Feas.sumK_eq_sum]
  exact (reidx_perm 0 (by rw [hl]; exact h.perm)).sum_eq

theorem storeRates_equiv (h : PermOK σ cfg) (w : Nat) {s s' : State K} (he : StEquiv σ s s')
    (hs : Shape cfg.stations.length s) :
    (storeRates (permCfg σ d cfg) w s').2 = (storeRates cfg w s).2 ∧
    StEquiv σ (storeRates cfg w s).1 (storeRates (permCfg σ d cfg) w s').1 ∧
    Shape cfg.stations.length (storeRates cfg w s).1 := by
  have hlt := perm_lt h.perm
  have hcl : (currentRates cfg s).length = cfg.stations.length := by simp [currentRates]
  unfold storeRates
  simp only
  rw [currentRates_equiv h he, sumK_reidx h _ hcl, he.core, he.rates, he.peak]
  have hwid : (s.rates.reidx σ).width = s.rates.width := rfl
  have hiw : (Pilots.increaseWidth (s.rates.reidx σ) w) = (Pilots.increaseWidth s.rates w).reidx σ :=
    Pilots.increaseWidth_reidx σ s.rates w (fun i hi => hs.rates ▸ hlt i hi)
  have hiwl : (Pilots.increaseWidth s.rates w).rows.length = cfg.stations.length := by
    rw [Pilots.increaseWidth_rows_length]; exact hs.rates
  have hwid3 : ((Pilots.increaseWidth s.rates w).reidx σ).width = (Pilots.increaseWidth s.rates w).width := rfl
  by_cases h1 : s.core.iter < s.rates.width
  · simp only [hwid, h1, if_true]
    refine ⟨trivial, ⟨rfl, he.pilots, ?_, rfl, he.evs, he.evsePilot, he.noiseIdx, he.occLog⟩, ⟨hs.pilots, ?_, hs.evsePilot⟩⟩
    · exact writeCol_reidx _ _ _ (fun i hi => hs.rates ▸ hlt i hi) (fun i hi => hcl ▸ hlt i hi)
    · simp only [writeCol, List.length_zipWith, hs.rates, hcl, Nat.min_self]
  · simp only [hwid, h1, if_false, hiw, hwid3]
    by_cases h2 : s.core.iter < (Pilots.increaseWidth s.rates w).width
    · simp only [h2, if_true]
      refine ⟨trivial, ⟨rfl, he.pilots, ?_, rfl, he.evs, he.evsePilot, he.noiseIdx, he.occLog⟩, ⟨hs.pilots, ?_, hs.evsePilot⟩⟩
      · exact writeCol_reidx _ _ _ (fun i hi => hiwl ▸ hlt i hi) (fun i hi => hcl ▸ hlt i hi)
      · simp only [writeCol, List.length_zipWith, hiwl, hcl, Nat.min_self]
    · simp only [h2, if_false]
      exact ⟨trivial, ⟨rfl, he.pilots, rfl, rfl, he.evs, he.evsePilot, he.noiseIdx, he.occLog⟩,
        ⟨hs.pilots, hiwl, hs.evsePilot⟩⟩

end
end Acn.SimEquiv
