/-
  C19: the simulator's protocol (sessions with distinct ids, arrival < departure, events in a
  key-sorted order) yields a well-formed history in the sense of `WFHist`; the steps generated
  by `simSteps` contain the history's events in order.
-/
import AcnProofs.Lemmas.StochasticRun

namespace Acn.Stoch

theorem mem_expected {ss : List Session} {e : Event} (h : e ∈ expected ss) :
    ∃ s ∈ ss, e = s.plugEv ∨ e = s.unplugEv := by
  simp only [expected, List.mem_flatMap, List.mem_cons, List.not_mem_nil, or_false] at h
  exact h

theorem expected_pairwise : ∀ ss : List Session, (ss.map (·.id)).Nodup →
    (expected ss).Pairwise (fun a b => a.kind ≠ b.kind ∨ a.sess ≠ b.sess) := by
  intro ss
  induction ss with
  | nil => intro _; simp [expected]
  | cons s r ih =>
    intro hn
    simp only [List.map_cons, List.nodup_cons] at hn
    have : expected (s :: r) = [s.plugEv, s.unplugEv] ++ expected r := by simp [expected]
    rw [this, List.pairwise_append]
    refine ⟨by simp [Session.plugEv, Session.unplugEv], ih hn.2, ?_⟩
    intro a ha b hb
    obtain ⟨s', hs', hb'⟩ := mem_expected hb
    have hne : s.id ≠ s'.id := fun e => hn.1 (by rw [e]; exact List.mem_map.2 ⟨s', hs', rfl⟩)
    right
    simp only [List.mem_cons, List.not_mem_nil, or_false] at ha
    rcases ha with rfl | rfl <;> rcases hb' with rfl | rfl <;>
      simpa [Session.plugEv, Session.unplugEv] using hne

/-- the simulator's protocol gives a well-formed history -/
theorem wellFormedB_WFHist {ss : List Session} {h : List Event} (hw : wellFormedB ss h = true) :
    WFHist h := by
  simp only [wellFormedB, Bool.and_eq_true, decide_eq_true_eq, List.all_eq_true] at hw
  obtain ⟨⟨⟨hn, had⟩, hsorted⟩, hperm⟩ := hw
  have hperm : h.Perm (expected ss) := List.isPerm_iff.1 hperm
  constructor
  · have h1 := expected_pairwise ss hn
    have h2 : h.Pairwise (fun a b => a.kind ≠ b.kind ∨ a.sess ≠ b.sess) :=
      (hperm.pairwise_iff (by intro a b hab; rcases hab with hab | hab
                              · exact Or.inl (Ne.symm hab)
                              · exact Or.inr (Ne.symm hab))).2 h1
    exact h2.imp (fun hab => Or.inr hab)
  · intro pre e post he hk
    have hmem : e ∈ h := by rw [he]; simp
    obtain ⟨s, hs, hes⟩ := mem_expected (hperm.mem_iff.1 hmem)
    have heu : e = s.unplugEv := by
      rcases hes with rfl | rfl
      · simp [Session.plugEv] at hk
      · rfl
    have hp : s.plugEv ∈ h := hperm.mem_iff.2 (by
      simp only [expected, List.mem_flatMap]; exact ⟨s, hs, by simp⟩)
    rw [he] at hp
    rcases List.mem_append.1 hp with hp | hp
    · exact ⟨s.plugEv, hp, rfl, by rw [heu]; rfl⟩
    · rcases List.mem_cons.1 hp with hp | hp
      · rw [heu] at hp; simp [Session.plugEv, Session.unplugEv] at hp
      · exfalso
        rw [he] at hsorted
        have h3 := (List.pairwise_append.1 hsorted).2.1
        have h4 := (List.pairwise_cons.1 h3).1 _ hp
        have hlt := had s hs
        rw [heu] at h4
        simp [Event.keyLe, Event.keyLt, Session.plugEv, Session.unplugEv, hlt] at h4

/-- well-formedness is prefix closed -/
theorem WFHist.of_append {a b : List Event} (h : WFHist (a ++ b)) : WFHist a := by
  refine ⟨(List.pairwise_append.1 h.1).1, ?_⟩
  intro pre e post he hk
  exact h.2 pre e (post ++ b) (by rw [he]; simp) hk

/-- `simSteps` processes a prefix of the history, in order … -/
theorem evProj_simSteps_prefix (full : Nat → Sess → Bool) : ∀ (n t : Nat) (evs : List Event),
    ∃ rest, evs = evProj (simSteps full t n evs) ++ rest := by
  intro n
  induction n with
  | zero => intro t evs; exact ⟨evs, by simp [simSteps, evProj]⟩
  | succ n ih =>
    intro t evs
    obtain ⟨rest, hr⟩ := ih (t + 1) (evs.dropWhile (fun e => decide (e.ts ≤ (t : Int))))
    refine ⟨rest, ?_⟩
    have hproj : ∀ (l : List Event) (r : List Step), evProj (l.map Step.ev ++ r) = l ++ evProj r := by
      intro l r; induction l with
      | nil => simp
      | cons a l ihl => simp [evProj, ihl]
    simp only [simSteps]
    rw [hproj]
    simp only [evProj]
    rw [List.append_assoc, ← hr, List.takeWhile_append_dropWhile]

theorem dropWhile_all {α : Type} (p : α → Bool) : ∀ l : List α, (∀ e ∈ l, p e = true) →
    l.dropWhile p = [] := by
  intro l
  induction l with
  | nil => simp
  | cons a l ih =>
    intro h
    rw [List.dropWhile_cons, if_pos (h a (by simp))]
    exact ih (fun e he => h e (by simp [he]))

/-- … and all of it when the number of periods covers the last timestamp -/
theorem evProj_simSteps (full : Nat → Sess → Bool) : ∀ (n t : Nat) (evs : List Event),
    (evs = [] ∨ 0 < n) → (∀ e ∈ evs, e.ts < (t : Int) + n) →
    evProj (simSteps full t n evs) = evs := by
  intro n
  induction n with
  | zero =>
    intro t evs h0 _
    rcases h0 with rfl | h0
    · simp [simSteps, evProj]
    · omega
  | succ n ih =>
    intro t evs _ hts
    have hproj : ∀ (l : List Event) (r : List Step), evProj (l.map Step.ev ++ r) = l ++ evProj r := by
      intro l r; induction l with
      | nil => simp
      | cons a l ihl => simp [evProj, ihl]
    simp only [simSteps]
    rw [hproj]
    simp only [evProj]
    rw [ih (t + 1)]
    · exact List.takeWhile_append_dropWhile
    · by_cases hn : 0 < n
      · exact Or.inr hn
      · left
        have hn0 : n = 0 := by omega
        subst hn0
        apply dropWhile_all
        intro e he
        have := hts e he
        simp only [decide_eq_true_eq]; omega
    · intro e he
      have := hts e ((List.dropWhile_sublist _).subset he)
      push_cast; omega

/-- every plugged-in session of a protocol history is also unplugged in it -/
theorem wellFormedB_complete {ss : List Session} {h : List Event} (hw : wellFormedB ss h = true) :
    ∀ e ∈ h, e.kind = .plugin → ∃ u ∈ h, u.kind = .unplug ∧ u.sess = e.sess := by
  simp only [wellFormedB, Bool.and_eq_true, decide_eq_true_eq, List.all_eq_true] at hw
  have hperm : h.Perm (expected ss) := List.isPerm_iff.1 hw.2
  intro e he hk
  obtain ⟨s, hs, hes⟩ := mem_expected (hperm.mem_iff.1 he)
  have hep : e = s.plugEv := by
    rcases hes with rfl | rfl
    · rfl
    · simp [Session.unplugEv] at hk
  refine ⟨s.unplugEv, hperm.mem_iff.2 ?_, rfl, by rw [hep]; rfl⟩
  simp only [expected, List.mem_flatMap]
  exact ⟨s, hs, by simp⟩

theorem foldl_max_spec : ∀ (l : List Event) (init : Int),
    init ≤ l.foldl (fun (m : Int) (e : Event) => max m (e.ts + 1)) init ∧
    ∀ e ∈ l, e.ts + 1 ≤ l.foldl (fun (m : Int) (e : Event) => max m (e.ts + 1)) init := by
  intro l
  induction l with
  | nil => intro init; simp
  | cons a t ih =>
    intro init
    simp only [List.foldl_cons]
    obtain ⟨h1, h2⟩ := ih (max init (a.ts + 1))
    refine ⟨le_trans (le_max_left _ _) h1, ?_⟩
    intro e he
    rcases List.mem_cons.1 he with rfl | he
    · exact le_trans (le_max_right _ _) h1
    · exact h2 e he

/-- every timestamp lies below the horizon (the loop runs through the period of the last event) -/
theorem ts_lt_horizon (h : List Event) : ∀ e ∈ h, e.ts < (horizon h : Int) := by
  intro e he
  have := (foldl_max_spec h 0).2 e he
  unfold horizon
  have h2 := Int.self_le_toNat (h.foldl (fun (m : Int) (e : Event) => max m (e.ts + 1)) 0)
  omega

end Acn.Stoch
