/-
  The run-loop invariant does not care HOW the events reached the queue (`AcnModel/SimAssemble.lean`).

  `assembled ops cfg first later` is the core of a simulator that was constructed on a queue holding `first` and
  whose queue object received `later` (through any reference to it) before `run()` — in whatever order, split
  anywhere (`first = []`: the queue was empty at construction).  If together these are the events of the scenario
  (`(first ++ later).Perm (initPending cfg)`), the state satisfies the same loop invariant `Inv cfg 0` as the
  state of `initQ` and the queue's representation invariant, so everything proved from `Inv` applies.

  Also: `runQ` on a state whose guard is false (a finished simulator) is the identity, for any fuel.
-/
import AcnModel.SimAssemble
import AcnProofs.Lemmas.EventCoreQueue
import AcnProofs.Lemmas.EventCoreSimQ

set_option linter.unusedSectionVars false

namespace Acn.EventCore
open Acn

section
variable {cfg : Cfg} {ops : QOps} {good : List Event → Prop}

/-- `add_events` on a queue that meets the specification: the same multiset plus the events, invariant kept -/
theorem foldl_push_ok (hq : ops.Ok good) : ∀ (es q : List Event), good q →
    (es.foldl ops.push q).Perm (q ++ es) ∧ good (es.foldl ops.push q) := by
  intro es
  induction es with
  | nil => intro q hg; simpa using hg
  | cons e es ih =>
    intro q hg
    obtain ⟨hp, hg'⟩ := hq.push q e hg
    obtain ⟨hp2, hg2⟩ := ih (ops.push q e) hg'
    refine ⟨?_, hg2⟩
    simp only [List.foldl_cons]
    refine hp2.trans ?_
    have := hp.append_right es
    simpa [List.append_assoc] using this

/-- core state of `Simulator(…, EventQueue(first), …)` followed by `add_events(later)` on that queue -/
def assembled (ops : QOps) (cfg : Cfg) (first later : List Event) : Core :=
  { init cfg with pending := later.foldl ops.push (ops.build first) }

theorem assembled_perm (hq : ops.Ok good) (first later : List Event) :
    (assembled ops cfg first later).pending.Perm (first ++ later) ∧ good (assembled ops cfg first later).pending := by
  obtain ⟨hb, hg⟩ := hq.build first
  obtain ⟨hp, hg2⟩ := foldl_push_ok hq later (ops.build first) hg
  exact ⟨hp.trans (hb.append_right later), hg2⟩

theorem assembled_inv (hv : Valid cfg) (hq : ops.Ok good) {first later : List Event}
    (hp : (first ++ later).Perm (initPending cfg)) :
    Inv cfg 0 (assembled ops cfg first later) ∧ good (assembled ops cfg first later).pending := by
  have h0 := init_inv hv
  obtain ⟨hpa, hg⟩ := assembled_perm (cfg := cfg) hq first later
  have hpp : (assembled ops cfg first later).pending.Perm (initPending cfg) := hpa.trans hp
  refine ⟨⟨rfl, ?_, ?_, h0.occ, rfl, h0.hist_nodup, h0.hist_mem, h0.hist_sorted, h0.evh⟩, hg⟩
  · exact hpp.nodup_iff.2 h0.pend_nodup
  · intro e
    rw [hpp.mem_iff]; exact h0.pend_mem e

/-- `run()` on a simulator whose queue is empty and that has no recompute pending returns at once -/
theorem runQ_of_guard_false (sched apply : Core → Option Err) (n : Nat) {c : Core} (h : guard c = false) :
    runQ ops cfg sched apply n c = (c, none) := by
  cases n with
  | zero => rfl
  | succ n => simp [runQ, h]

end
end Acn.EventCore

namespace Acn.Sim
open Acn Acn.EventCore

variable {K : Type} [Add K] [Sub K] [Mul K] [Div K] [Neg K] [LT K] [LE K]
  [DecidableLT K] [DecidableLE K] [OfNat K 0] [OfNat K 1] [NatCast K] [HasExp K]

theorem addEvents_initOn_core (ops : QOps) (cfg : Cfg K) (first later : List Event) :
    (addEvents ops later (initOn ops cfg first)).core = assembled ops cfg.core first later := rfl

theorem runQ_of_guard_false (ops : QOps) (cfg : Cfg K) (sched : View K → Except Err (Schedule K)) (n : Nat)
    {s : State K} (h : guard s.core = false) : runQ ops cfg sched n s = (s, none) := by
  cases n with
  | zero => rfl
  | succ n => simp [runQ, h]

theorem addEvents_nil (ops : QOps) (s : State K) : addEvents ops [] s = s := rfl

/-- `run()` called `k` more times on a finished simulator (nothing added) changes nothing -/
theorem runStages_replicate_nil (ops : QOps) (cfg : Cfg K) (sched : View K → Except Err (Schedule K)) (n : Nat)
    {s : State K} (h : guard s.core = false) (k : Nat) :
    runStages ops cfg sched n (List.replicate k []) s = (s, none) := by
  induction k with
  | zero => rfl
  | succ k ih =>
    simp only [List.replicate_succ, runStages, addEvents_nil, runQ_of_guard_false ops cfg sched n h]
    exact ih

end Acn.Sim
