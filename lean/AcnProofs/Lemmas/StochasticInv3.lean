/-
  Preservation of the StochasticNetwork invariant (C19) by post_charging_update (early
  departure), and progress: on invariant states the operations never raise.
-/
import AcnProofs.Lemmas.StochasticInv2
import AcnProofs.Lemmas.StochasticFlags

namespace Acn.Stoch

/-- unplugging the occupant of a station while somebody waits: explicit result -/
theorem Inv.unplug_swap {s : Net} (h : Inv s) (x y : Sess) (w : List Sess) (st : Station)
    (ho : s.occ st = some x) (hwq : s.waiting = y :: w) :
    s.unplug (s.ev x).station x = .ok { s with
      occ := fun t => if t = st then some y else if t = st then none else s.occ t,
      waiting := w,
      ev := fun z => if z = y then { s.ev y with station := some st, plugged := true } else s.ev z,
      swaps := s.swaps + 1 } := by
  have hx := (h.occ_iff st x).1 ho
  have hxw : x ∉ s.waiting := by rw [h.mem_waiting]; simp [hx.2.1]
  unfold Net.unplug
  rw [if_neg hxw, hx.2.1]
  simp only [if_pos hx.1, ho, ↓reduceIte]
  rw [admitNext_cons (s.setOcc st none) st y w (by simp [Net.setOcc, hwq]) hx.1 (by simp [Net.setOcc])]
  simp [Net.setOcc]

/-- one iteration of the early-departure loop, for an EV that sits on a station -/
theorem Inv.earlyStep {s s1 : Net} (h : Inv s) (x : Sess) (st : Station) (ho : s.occ st = some x)
    (hs : s.earlyStep x = .ok s1) :
    Inv s1 ∧ (∀ u, (s1.ev u).arrived = (s.ev u).arrived ∧ (s1.ev u).departed = (s.ev u).departed) ∧
      (∀ t z, z ≠ x → s.occ t = some z → s1.occ t = some z) ∧ s1.stations = s.stations ∧
      s1.earlyDeparture = s.earlyDeparture := by
  have hw := h.mem_waiting
  have hnd := h.waiting_nodup
  have hfifo := h.fifo
  have hx := (h.occ_iff st x).1 ho
  obtain ⟨hmem, hst, ha, hd, hxe⟩ := hx
  have hxa := (h.arr_iff x).2 ha
  cases hwq : s.waiting with
  | nil =>
    simp [Net.earlyStep, hwq, pure, Except.pure] at hs; cases hs
    exact ⟨h, fun _ => ⟨rfl, rfl⟩, fun _ _ _ h' => h', rfl, rfl⟩
  | cons y w =>
    have hu := h.unplug_swap x y w st ho hwq
    simp only [Net.earlyStep, hwq, List.isEmpty_cons, hu, bind, Except.bind, pure, Except.pure,
      Bool.false_eq_true, ↓reduceIte] at hs
    cases hs
    have hyw : y ∈ s.waiting := by rw [hwq]; simp
    have hy := (hw y).1 hyw
    have hyx : y ≠ x := by intro e; rw [e] at hy; rw [hy.2.2] at hst; cases hst
    have hya := (h.arr_iff y).2 hy.1
    have hwer : w = s.waiting.erase y := by rw [hwq]; simp
    refine ⟨⟨h.st_nodup, ?_, ?_, h.arr_nodup, ?_, ?_, ?_, ?_, ?_, ?_, ?_, ?_, ?_, ?_, ?_, ?_⟩,
      ?_, ?_, rfl, rfl⟩
    all_goals simp only [Net.modEv]
    · intro t u; have := h.occ_iff t u; have := h.occ_iff st u; have := h.early_imp u
      by_cases h1 : u = x <;> by_cases h2 : u = y <;> by_cases h3 : t = st <;>
        simp only [h1, h2, h3, hyx, hyx.symm, ↓reduceIte] <;> grind
    · rw [hwer, hfifo]; symm
      apply filter_update_erase _ _ _ y h.arr_nodup
      · simp [Net.waits, hyx]
      · intro u hu hne
        by_cases h1 : u = x <;> simp only [Net.waits, h1, hne, hyx, hyx.symm, ↓reduceIte] <;> grind
    · intro u; have := h.arr_iff u
      by_cases h1 : u = x <;> by_cases h2 : u = y <;>
        simp only [h1, h2, hyx, hyx.symm, ↓reduceIte] <;> grind
    · intro u; have := h.dep_arr u
      by_cases h1 : u = x <;> by_cases h2 : u = y <;>
        simp only [h1, h2, hyx, hyx.symm, ↓reduceIte] <;> grind
    · intro _ t ht
      have := h.no_wait_free (by rw [hwq]; simp) t ht
      by_cases h3 : t = st <;> simp only [h3, ↓reduceIte] <;> grind
    · intro u t; have := h.st_mem u t
      by_cases h1 : u = x <;> by_cases h2 : u = y <;>
        simp only [h1, h2, hyx, hyx.symm, ↓reduceIte] <;> grind
    · intro u; have := h.plugged_iff u
      by_cases h1 : u = x <;> by_cases h2 : u = y <;>
        simp only [h1, h2, hyx, hyx.symm, ↓reduceIte] <;> grind
    · intro u; have := h.early_imp u
      by_cases h1 : u = x <;> by_cases h2 : u = y <;>
        simp only [h1, h2, hyx, hyx.symm, ↓reduceIte] <;> grind
    · intro u; have := h.queued_imp u
      by_cases h1 : u = x <;> by_cases h2 : u = y <;>
        simp only [h1, h2, hyx, hyx.symm, ↓reduceIte] <;> grind
    · intro u; have := h.queued_none u
      by_cases h1 : u = x <;> by_cases h2 : u = y <;>
        simp only [h1, h2, hyx, hyx.symm, ↓reduceIte] <;> grind
    · rw [h.never_eq]; apply countP_same; intro u hu
      have := h.plugged_iff u
      by_cases h1 : u = x <;> by_cases h2 : u = y <;>
        simp only [h1, h2, hyx, hyx.symm, ↓reduceIte] <;> grind
    · rw [h.swaps_eq]; symm
      apply countP_update_inc _ _ _ y h.arr_nodup hya
      · have := h.plugged_iff y; grind
      · have := h.queued_none y hy.1 hy.2.2; simp [this, hyx]
      · intro u hu hne
        by_cases h1 : u = x <;> simp only [h1, hne, hyx, hyx.symm, ↓reduceIte]
    · rw [h.early_eq]; symm
      apply countP_update_inc _ _ _ x h.arr_nodup hxa
      · exact hxe
      · simp
      · intro u hu hne
        have := h.early_imp u
        by_cases h2 : u = y <;> simp only [h2, hne, hyx, ↓reduceIte]
    · rw [h.draws_eq]; apply countP_same; intro u hu
      by_cases h1 : u = x <;> by_cases h2 : u = y <;>
        simp only [h1, h2, hyx, hyx.symm, ↓reduceIte]
    · intro u
      by_cases h1 : u = x <;> by_cases h2 : u = y <;>
        simp only [h1, h2, hyx, hyx.symm, ↓reduceIte] <;> simp
    · intro t z hzx hz
      have := h.occ_iff t z; have := h.occ_iff st z
      by_cases h3 : t = st <;> simp only [h3, ↓reduceIte] <;> grind

end Acn.Stoch
