/-
  Helper lemmas for C10 (stations × the sorting-based algorithms, 1/2): `Sorted.scheduleCall` under a
  re-indexing of the stations.  `σ` is a permutation of `0..n-1` (new position `j` holds old station
  `σ[j]`), `pos σ i` the new position of old station `i`, `reInfra σ infra` the infrastructure arrays
  read in the order `σ`, `mv σ s` the session with its station index moved.  The allocation functions
  touch the rate vector only through `replicate`, `set idx`, and the feasibility oracle, so with
  `feas' (reidx σ x) = feas x` every one of them commutes with the re-indexing.
-/
import AcnModel.Sorted
import AcnProofs.Lemmas.EquivSimStations
import AcnProofs.Lemmas.SortedBasic

set_option linter.unusedSectionVars false
set_option linter.unusedSimpArgs false
set_option linter.unusedVariables false

namespace Acn.Sorted
open Acn Acn.SimEquiv

variable {K : Type} [Field K] [LinearOrder K] [IsStrictOrderedRing K]

/-! ### positions -/

/-- new position of old station `i` -/
def pos (σ : List Nat) (i : Nat) : Nat := σ.idxOf i

theorem pos_spec {σ : List Nat} {n : Nat} (hσ : σ.Perm (List.range n)) {i : Nat} (hi : i < n) :
    pos σ i < σ.length ∧ σ.getD (pos σ i) 0 = i := by
  have hm : i ∈ σ := hσ.mem_iff.2 (List.mem_range.2 hi)
  have h1 : σ.idxOf i < σ.length := List.idxOf_lt_length_iff.2 hm
  refine ⟨h1, ?_⟩
  unfold pos
  rw [List.getD_eq_getElem?_getD, List.getElem?_eq_getElem h1]
  simp

theorem getD_reidx_pos {α : Type} {σ : List Nat} {n : Nat} (hσ : σ.Perm (List.range n)) (l : List α) (d : α)
    {i : Nat} (hi : i < n) : (reidx σ l d).getD (pos σ i) d = l.getD i d := by
  obtain ⟨h1, h2⟩ := pos_spec hσ hi
  rw [getD_reidx σ l d _ h1, h2]

theorem reidx_set_pos {α : Type} {σ : List Nat} {n : Nat} (hσ : σ.Perm (List.range n)) (l : List α) (d v : α)
    {i : Nat} (hi : i < n) (hl : l.length = n) : (reidx σ l d).set (pos σ i) v = reidx σ (l.set i v) d := by
  obtain ⟨h1, h2⟩ := pos_spec hσ hi
  exact (reidx_set σ l d v (pos σ i) i (perm_nodup hσ) h1 h2 (by omega)).symm

theorem reidx_length' {α : Type} {σ : List Nat} {n : Nat} (hσ : σ.Perm (List.range n)) (l : List α) (d : α) :
    (reidx σ l d).length = n := by
  rw [reidx_length, perm_length hσ]

/-! ### the re-indexed infrastructure and sessions -/

def reInfra (σ : List Nat) (infra : Infra K) : Infra K :=
  { ids := reidx σ infra.ids "", maxPilot := reidx σ infra.maxPilot 0, minPilot := reidx σ infra.minPilot 0,
    volt := reidx σ infra.volt 0, cont := reidx σ infra.cont true, allow := reidx σ infra.allow [] }

def mv (σ : List Nat) (s : Session K) : Session K := { s with idx := pos σ s.idx }

section
variable {σ : List Nat} {n : Nat} (hσ : σ.Perm (List.range n)) (infra : Infra K)
include hσ

theorem rap_mv (period : K) {s : Session K} (hs : s.idx < n) :
    rap (reInfra σ infra) period (mv σ s) = rap infra period s := by
  unfold rap
  show _ / (reidx σ infra.volt 0).getD (pos σ s.idx) 0 * _ / _ = _
  rw [getD_reidx_pos hσ _ _ hs]
  rfl

theorem ubOf_mv (period : K) {s : Session K} (hs : s.idx < n) :
    ubOf (reInfra σ infra) period (mv σ s) = ubOf infra period s := by
  unfold ubOf
  rw [rap_mv hσ infra period hs]
  rfl

theorem lbOf_mv (s : Session K) : lbOf (mv σ s) = lbOf s := rfl

theorem maxPilot_mv {s : Session K} (hs : s.idx < n) :
    (reInfra σ infra).maxPilot.getD (mv σ s).idx 0 = infra.maxPilot.getD s.idx 0 :=
  getD_reidx_pos hσ _ _ hs

theorem sortLt_mv (kind : SortKind) (period : K) (time : Int) {a b : Session K} (ha : a.idx < n) (hb : b.idx < n) :
    sortLt kind (reInfra σ infra) period time (mv σ a) (mv σ b) = sortLt kind infra period time a b := by
  cases kind
  · rfl
  · rfl
  · rfl
  · simp only [sortLt, laxity, rap_mv hσ infra period ha, rap_mv hσ infra period hb, maxPilot_mv hσ infra ha,
      maxPilot_mv hσ infra hb]
    rfl
  · simp only [sortLt, processingTime, rap_mv hσ infra period ha, rap_mv hσ infra period hb,
      maxPilot_mv hσ infra ha, maxPilot_mv hσ infra hb]
    rfl

/-! ### preprocessing and the sort -/

theorem removeFinished_mv (period : K) (l : List (Session K)) (hl : ∀ s ∈ l, s.idx < n) :
    removeFinished (reInfra σ infra) period (l.map (mv σ)) = (removeFinished infra period l).map (mv σ) := by
  unfold removeFinished
  rw [List.filter_map]
  congr 1
  apply List.filter_congr
  intro s hs
  have h1 : (reInfra σ infra).minPilot.getD (mv σ s).idx 0 = infra.minPilot.getD s.idx 0 :=
    getD_reidx_pos hσ _ _ (hl s hs)
  have h2 : (reInfra σ infra).volt.getD (mv σ s).idx 0 = infra.volt.getD s.idx 0 :=
    getD_reidx_pos hσ _ _ (hl s hs)
  simp only [Function.comp, h1, h2]
  rfl

theorem enforcePilotLimit_mv (l : List (Session K)) (hl : ∀ s ∈ l, s.idx < n) :
    enforcePilotLimit (reInfra σ infra) (l.map (mv σ)) = (enforcePilotLimit infra l).map (mv σ) := by
  unfold enforcePilotLimit
  rw [List.map_map, List.map_map]
  apply List.map_congr_left
  intro s hs
  simp only [Function.comp]
  rw [maxPilot_mv hσ infra (hl s hs)]
  rfl

omit hσ in
theorem insertBy_map {α β : Type} (lt : α → α → Bool) (lt' : β → β → Bool) (f : α → β) (x : α) (l : List α)
    (h : ∀ y ∈ l, lt' (f y) (f x) = lt y x) :
    insertBy lt' (f x) (l.map f) = (insertBy lt x l).map f := by
  induction l with
  | nil => rfl
  | cons y ys ih =>
    simp only [List.map_cons, insertBy, h y List.mem_cons_self]
    split
    · simp only [List.map_cons]
      rw [ih (fun z hz => h z (List.mem_cons_of_mem _ hz))]
    · rfl

omit hσ in
theorem sortBy_map {α β : Type} (lt : α → α → Bool) (lt' : β → β → Bool) (f : α → β) (l : List α)
    (h : ∀ x ∈ l, ∀ y ∈ l, lt' (f y) (f x) = lt y x) :
    sortBy lt' (l.map f) = (sortBy lt l).map f := by
  induction l with
  | nil => rfl
  | cons x xs ih =>
    have ih' := ih (fun a ha b hb => h a (List.mem_cons_of_mem _ ha) b (List.mem_cons_of_mem _ hb))
    simp only [sortBy, List.map_cons, List.foldr_cons] at ih' ⊢
    rw [ih']
    apply insertBy_map
    intro y hy
    have hy' : y ∈ xs := (sortBy_perm lt xs).mem_iff.1 hy
    exact h x List.mem_cons_self y (List.mem_cons_of_mem _ hy')

theorem sortSessions_mv (kind : SortKind) (period : K) (time : Int) (l : List (Session K))
    (hl : ∀ s ∈ l, s.idx < n) :
    sortSessions kind (reInfra σ infra) period time (l.map (mv σ)) =
      (sortSessions kind infra period time l).map (mv σ) := by
  unfold sortSessions
  apply sortBy_map
  intro x hx y hy
  exact sortLt_mv hσ infra kind period time (hl y hy) (hl x hx)

end
end Acn.Sorted
