/-
  Helper lemmas for C11: the executable instance of the specification (`QSpec.step`, which
  picks the first inserted among the key-minimal events) is a run of the relation `QSpec.Step`.
-/
import AcnModel.Queue
import AcnProofs.Lemmas.QueueSpec
import AcnProofs.Lemmas.QueueRefine
import Mathlib.Tactic

namespace Acn.QSpec

theorem pick_fold (xs : List Event) (best : Event) :
    (xs.foldl (fun best y => if y.keyLt best then y else best) best = best ∨
      xs.foldl (fun best y => if y.keyLt best then y else best) best ∈ xs) ∧
    KeyLe (xs.foldl (fun best y => if y.keyLt best then y else best) best) best ∧
    ∀ y ∈ xs, KeyLe (xs.foldl (fun best y => if y.keyLt best then y else best) best) y := by
  induction xs generalizing best with
  | nil => simp [KeyLe, keyLt_irrefl]
  | cons y ys ih =>
    simp only [List.foldl_cons]
    obtain ⟨h1, h2, h3⟩ := ih (if y.keyLt best then y else best)
    have hb : KeyLe (if y.keyLt best then y else best) best ∧
        KeyLe (if y.keyLt best then y else best) y := by
      by_cases hc : y.keyLt best = true
      · rw [if_pos hc]; exact ⟨keyLt_swo.asymm hc, keyLt_irrefl _⟩
      · rw [if_neg hc]; exact ⟨keyLt_irrefl _, by simpa using hc⟩
    refine ⟨?_, keyLe_trans _ _ _ h2 hb.1, ?_⟩
    · rcases h1 with h1 | h1
      · by_cases hc : y.keyLt best = true
        · right; rw [h1, if_pos hc]; simp
        · left; rw [h1, if_neg hc]
      · right; exact List.mem_cons_of_mem _ h1
    · intro z hz
      rcases List.mem_cons.mp hz with rfl | hz
      · exact keyLe_trans _ _ _ h2 hb.2
      · exact h3 z hz

/-- the first-inserted minimal element is key-minimal -/
theorem pickFirst_isMin (x : Event) (xs : List Event) : IsMin (x :: xs) (pickFirst x xs) := by
  obtain ⟨h1, h2, h3⟩ := pick_fold xs x
  constructor
  · rcases h1 with h1 | h1
    · unfold pickFirst; rw [h1]; simp
    · exact List.mem_cons_of_mem _ h1
  · intro y hy
    rcases List.mem_cons.mp hy with rfl | hy
    · exact h2
    · exact h3 y hy

theorem curLoop_sound (t : Int) : ∀ (fuel : Nat) (q acc : List Event), q.length ≤ fuel →
    ∃ es, Cur t q es (getCurrentLoop t fuel q acc).1 ∧ (getCurrentLoop t fuel q acc).2 = acc ++ es := by
  intro fuel
  induction fuel with
  | zero =>
    intro q acc hf
    have : q = [] := List.length_eq_zero_iff.mp (by omega)
    subst this
    exact ⟨[], Cur.stopEmpty, by simp [getCurrentLoop]⟩
  | succ fuel ih =>
    intro q acc hf
    cases q with
    | nil => exact ⟨[], Cur.stopEmpty, by simp [getCurrentLoop]⟩
    | cons x xs =>
      have hmin := pickFirst_isMin x xs
      simp only [getCurrentLoop]
      by_cases hle : (pickFirst x xs).ts ≤ t
      · rw [if_pos hle]
        have hlen : ((x :: xs).erase (pickFirst x xs)).length ≤ fuel := by
          rw [List.length_erase_of_mem hmin.1]; simp at hf ⊢; omega
        obtain ⟨es, h1, h2⟩ := ih _ (acc ++ [pickFirst x xs]) hlen
        exact ⟨pickFirst x xs :: es, Cur.pop hmin hle h1, by rw [h2]; simp⟩
      · rw [if_neg hle]
        exact ⟨[], Cur.stopLater hmin (by omega), by simp⟩

/-- one operation of the executable instance is allowed by the specification -/
theorem step_sound (s : State) (op : QOp) : Step s op (step s op).2 (step s op).1 := by
  cases op with
  | add e => exact Step.add s e
  | addAll es => exact Step.addAll s es
  | getEvent =>
    cases hp : s.pending with
    | nil =>
      have : step s .getEvent = (s, .err .indexError) := by simp [step, getEvent, hp]
      rw [this]; exact Step.getEmpty s hp
    | cons x xs =>
      have : step s .getEvent =
          ({ s with pending := s.pending.erase (pickFirst x xs) }, .event (pickFirst x xs)) := by
        simp [step, getEvent, hp]
      rw [this]
      exact Step.get s _ (by rw [hp]; exact pickFirst_isMin x xs)
  | getCurrent t =>
    obtain ⟨es, h1, h2⟩ := curLoop_sound t s.pending.length s.pending [] le_rfl
    simp only [step, getCurrent]
    simp only [List.nil_append] at h2
    rw [h2]
    exact Step.cur s t es _ h1
  | len => exact Step.len s
  | empty => exact Step.empty s
  | last => exact Step.last s
  | roundtrip =>
    simp only [step, fromWire_toWire]
    refine Step.roundtrip s _ (by rw [fromWire_toWire]) ?_
    intro p hp
    simp only [toWire, List.mem_map] at hp
    obtain ⟨e, _, rfl⟩ := hp; rfl

theorem run_sound (s : State) (ops : List QOp) : Run s (run s ops).2 (run s ops).1 := by
  induction ops generalizing s with
  | nil => exact Run.nil s
  | cons op ops ih => exact Run.cons (step_sound s op) (ih _)

end Acn.QSpec
