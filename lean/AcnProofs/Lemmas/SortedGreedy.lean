/-
  Greedy allocation loop (`sorting_algorithm`): the feasible-schedule invariant for an arbitrary
  feasibility predicate, and where every entry of the result comes from.
-/
import AcnProofs.Lemmas.SortedBasic

set_option linter.unusedSectionVars false

namespace Acn.Sorted
open Acn

variable {K : Type} [Field K] [LinearOrder K] [IsStrictOrderedRing K]

/-- What the discrete branch needs of a session's lower bound: a finite-rate station's `lb` is 0
    (so the untested fallback `0` re-assigns the value already there) or one of its own levels within
    `[lb, ub]` (so the walk reaches the incoming, feasible value before it can fall back). -/
def LbOk (infra : Infra K) (period : K) (s : Session K) : Prop :=
  infra.cont.getD s.idx true = true ∨ lbOf s = 0 ∨
    lbOf s ∈ levelsIn infra s.idx (lbOf s) (ubOf infra period s)

/-- one assignment of the greedy loop keeps the schedule feasible -/
theorem greedyRate_safe (feas : List K → Bool) (fuel : Nat) (eps : K) (infra : Infra K) (period : K)
    (sched : List K) (s : Session K) (r : K)
    (hf : feas sched = true) (hlb : sched.set s.idx (lbOf s) = sched) (hok : LbOk infra period s)
    (h : greedyRate feas fuel eps infra period sched s = .ok r) :
    feas (sched.set s.idx r) = true := by
  unfold greedyRate at h
  simp only at h
  split at h
  · -- continuous: max_feasible_rate
    unfold maxFeasibleRate at h
    simp only [hf, Bool.not_true, Bool.false_eq_true, if_false] at h
    split at h
    · rename_i hub
      cases h; exact hub
    · cases h
      rcases bisect_cases feas sched s.idx eps fuel (lbOf s) (ubOf infra period s) with hb | hb
      · rw [hb, hlb]; exact hf
      · exact hb
  · rename_i hcont
    split at h
    · -- no level in [lb, ub]: rate 0, untested
      rename_i hemp
      cases h
      rcases hok with hc | h0 | hmem
      · exact absurd hc hcont
      · rw [← h0, hlb]; exact hf
      · simp only [List.isEmpty_iff] at hemp
        rw [hemp] at hmem; exact absurd hmem (by simp)
    · unfold discreteMax at h
      simp only [hf, Bool.not_true, Bool.false_eq_true, if_false] at h
      cases h
      rcases walkDown_cases feas sched s.idx
          (levelsIn infra s.idx (lbOf s) (ubOf infra period s)).reverse with ⟨_, h2⟩ | ⟨h1, h2⟩
      · exact h2
      · rw [h1]
        rcases hok with hc | h0 | hmem
        · exact absurd hc hcont
        · rw [← h0, hlb]; exact hf
        · have := h2 (lbOf s) (List.mem_reverse.mpr hmem)
          rw [hlb, hf] at this; exact absurd this (by simp)

/-- the value granted lies where the source says: continuous — `ub` itself or a point of
    `[lb, max lb ub]`; finite — 0 or one of the station's levels within `[lb, ub]` -/
theorem greedyRate_range (feas : List K → Bool) (fuel : Nat) (eps : K) (heps : 0 ≤ eps)
    (infra : Infra K) (period : K) (sched : List K) (s : Session K) (r : K)
    (h : greedyRate feas fuel eps infra period sched s = .ok r) :
    (infra.cont.getD s.idx true = true →
        (r = ubOf infra period s ∨ lbOf s ≤ r) ∧ r ≤ max (lbOf s) (ubOf infra period s)) ∧
    (infra.cont.getD s.idx true = false →
        r = 0 ∨ r ∈ levelsIn infra s.idx (lbOf s) (ubOf infra period s)) := by
  unfold greedyRate at h
  simp only at h
  split at h
  · rename_i hc
    refine ⟨fun _ => ?_, fun hn => by rw [hc] at hn; exact absurd hn (by simp)⟩
    unfold maxFeasibleRate at h
    split at h
    · cases h
    · split at h
      · cases h; exact ⟨Or.inl rfl, le_max_right _ _⟩
      · cases h
        have := bisect_range feas sched s.idx eps heps fuel (lbOf s) (ubOf infra period s)
        exact ⟨Or.inr this.1, this.2⟩
  · rename_i hc
    refine ⟨fun hn => absurd hn hc, fun _ => ?_⟩
    split at h
    · cases h; left; rfl
    · unfold discreteMax at h
      split at h
      · cases h
      · cases h
        rcases walkDown_cases feas sched s.idx
            (levelsIn infra s.idx (lbOf s) (ubOf infra period s)).reverse with ⟨h1, _⟩ | ⟨h1, _⟩
        · right; exact List.mem_reverse.mp h1
        · left; exact h1

/-- the feasible-schedule invariant of the second loop of `sorting_algorithm` -/
theorem greedyLoop_inv (feas : List K → Bool) (fuel : Nat) (eps : K) (infra : Infra K) (period : K) :
    ∀ (q : List (Session K)) (sch final : List K),
      feas sch = true →
      (q.map (·.idx)).Nodup →
      (∀ s ∈ q, sch.set s.idx (lbOf s) = sch) →
      (∀ s ∈ q, LbOk infra period s) →
      greedyLoop feas fuel eps infra period q sch = .ok final → feas final = true := by
  intro q
  induction q with
  | nil =>
    intro sch final hf _ _ _ h
    simp only [greedyLoop] at h
    cases h; exact hf
  | cons s rest ih =>
    intro sch final hf hnd hlb hok h
    cases hgr : greedyRate feas fuel eps infra period sch s with
    | error e => simp [greedyLoop, hgr] at h
    | ok r =>
      simp only [greedyLoop, hgr] at h
      rw [List.map_cons, List.nodup_cons] at hnd
      apply ih (sch.set s.idx r) final _ hnd.2 _ _ h
      · exact greedyRate_safe feas fuel eps infra period sch s r hf (hlb s List.mem_cons_self)
          (hok s List.mem_cons_self) hgr
      · intro t ht
        have hne : s.idx ≠ t.idx := by
          intro heq
          exact hnd.1 (List.mem_map.mpr ⟨t, ht, heq.symm⟩)
        exact set_noop_of_comm sch s.idx t.idx r (lbOf t) hne (hlb t (List.mem_cons_of_mem _ ht))
      · intro t ht; exact hok t (List.mem_cons_of_mem _ ht)

/-- where the entries of the result come from -/
theorem greedyLoop_values (feas : List K → Bool) (fuel : Nat) (eps : K) (infra : Infra K) (period : K) :
    ∀ (q : List (Session K)) (sch final : List K),
      (q.map (·.idx)).Nodup →
      greedyLoop feas fuel eps infra period q sch = .ok final →
      final.length = sch.length ∧
      (∀ j, (∀ t ∈ q, t.idx ≠ j) → final[j]? = sch[j]?) ∧
      (∀ s ∈ q, s.idx < sch.length →
        ∃ cur r, greedyRate feas fuel eps infra period cur s = .ok r ∧ final[s.idx]? = some r) := by
  intro q
  induction q with
  | nil =>
    intro sch final _ h
    simp only [greedyLoop] at h
    cases h
    exact ⟨rfl, fun _ _ => rfl, fun s hs => absurd hs (by simp)⟩
  | cons s rest ih =>
    intro sch final hnd h
    cases hgr : greedyRate feas fuel eps infra period sch s with
    | error e => simp [greedyLoop, hgr] at h
    | ok r =>
      simp only [greedyLoop, hgr] at h
      rw [List.map_cons, List.nodup_cons] at hnd
      obtain ⟨hl, hout, hin⟩ := ih (sch.set s.idx r) final hnd.2 h
      have hnotin : ∀ t ∈ rest, t.idx ≠ s.idx := by
        intro t ht heq
        exact hnd.1 (List.mem_map.mpr ⟨t, ht, heq⟩)
      refine ⟨by rw [hl, List.length_set], ?_, ?_⟩
      · intro j hj
        rw [hout j (fun t ht => hj t (List.mem_cons_of_mem _ ht))]
        have : s.idx ≠ j := hj s List.mem_cons_self
        rw [List.getElem?_set_ne this]
      · intro t ht hlt
        rcases List.mem_cons.mp ht with rfl | ht
        · refine ⟨sch, r, hgr, ?_⟩
          rw [hout t.idx hnotin]
          simp [hlt]
        · exact hin t ht (by rw [List.length_set]; exact hlt)

/-- `initSchedule` commutes with an assignment at an index no session uses -/
theorem fold_set_comm (q : List (Session K)) :
    ∀ (acc : List K) (i : Nat) (v : K), (∀ s ∈ q, s.idx ≠ i) →
      (q.foldl (fun sch s => sch.set s.idx (lbOf s)) acc).set i v =
        q.foldl (fun sch s => sch.set s.idx (lbOf s)) (acc.set i v) := by
  induction q with
  | nil => intro acc i v _; rfl
  | cons h t ih =>
    intro acc i v hne
    simp only [List.foldl_cons]
    rw [ih (acc.set h.idx (lbOf h)) i v (fun s hs => hne s (List.mem_cons_of_mem _ hs))]
    rw [List.set_comm _ _ (hne h List.mem_cons_self)]

theorem fold_lb_noop (q : List (Session K)) :
    ∀ (acc : List K), (q.map (·.idx)).Nodup →
      ∀ s ∈ q, (q.foldl (fun sch s => sch.set s.idx (lbOf s)) acc).set s.idx (lbOf s) =
        q.foldl (fun sch s => sch.set s.idx (lbOf s)) acc := by
  induction q with
  | nil => intro acc _ s hs; exact absurd hs (by simp)
  | cons h t ih =>
    intro acc hnd s hs
    rw [List.map_cons, List.nodup_cons] at hnd
    simp only [List.foldl_cons]
    rcases List.mem_cons.mp hs with rfl | hs
    · rw [fold_set_comm t _ _ _ (fun u hu heq => hnd.1 (List.mem_map.mpr ⟨u, hu, heq⟩))]
      simp
    · exact ih _ hnd.2 s hs

/-- after "Start each EV at its lower bound" every queued station holds its lower bound -/
theorem initSchedule_lb (n : Nat) (q : List (Session K)) (hnd : (q.map (·.idx)).Nodup) :
    ∀ s ∈ q, (initSchedule n q).set s.idx (lbOf s) = initSchedule n q :=
  fold_lb_noop q _ hnd

theorem fold_lb_length (q : List (Session K)) :
    ∀ (acc : List K), (q.foldl (fun sch s => sch.set s.idx (lbOf s)) acc).length = acc.length := by
  induction q with
  | nil => intro acc; rfl
  | cons h t ih => intro acc; simp only [List.foldl_cons]; rw [ih]; simp

theorem fold_lb_other (q : List (Session K)) :
    ∀ (acc : List K) (j : Nat), (∀ s ∈ q, s.idx ≠ j) →
      (q.foldl (fun sch s => sch.set s.idx (lbOf s)) acc)[j]? = acc[j]? := by
  induction q with
  | nil => intro acc j _; rfl
  | cons h t ih =>
    intro acc j hne
    simp only [List.foldl_cons]
    rw [ih _ j (fun s hs => hne s (List.mem_cons_of_mem _ hs))]
    rw [List.getElem?_set_ne (hne h List.mem_cons_self)]

end Acn.Sorted

namespace Acn.Sorted
open Acn
variable {K : Type} [Field K] [LinearOrder K] [IsStrictOrderedRing K]

/-- the schedule on which session `s` of `pre ++ s :: post` is served: sessions of `pre` already at
    their FINAL values, everything else as in the incoming schedule -/
theorem greedyLoop_sequential (feas : List K → Bool) (fuel : Nat) (eps : K) (infra : Infra K) (period : K)
    (s : Session K) (post : List (Session K)) :
    ∀ (pre : List (Session K)) (sch final : List K),
      ((pre ++ s :: post).map (·.idx)).Nodup →
      (∀ t ∈ pre ++ s :: post, t.idx < sch.length) →
      greedyLoop feas fuel eps infra period (pre ++ s :: post) sch = .ok final →
      ∃ cur r, greedyRate feas fuel eps infra period cur s = .ok r ∧ final[s.idx]? = some r ∧
        cur.length = sch.length ∧ (∀ t ∈ pre, cur[t.idx]? = final[t.idx]?) ∧
        (∀ j, (∀ t ∈ pre, t.idx ≠ j) → cur[j]? = sch[j]?) := by
  intro pre
  induction pre with
  | nil =>
    intro sch final hnd hidx h
    simp only [List.nil_append] at hnd hidx h
    cases hgr : greedyRate feas fuel eps infra period sch s with
    | error e => simp [greedyLoop, hgr] at h
    | ok r =>
      simp only [greedyLoop, hgr] at h
      rw [List.map_cons, List.nodup_cons] at hnd
      obtain ⟨_, hout, _⟩ := greedyLoop_values feas fuel eps infra period post _ final hnd.2 h
      refine ⟨sch, r, hgr, ?_, rfl, fun t ht => absurd ht (by simp), fun _ _ => rfl⟩
      rw [hout s.idx (fun t ht heq => hnd.1 (List.mem_map.mpr ⟨t, ht, heq⟩))]
      simp [hidx s List.mem_cons_self]
  | cons hd pre' ih =>
    intro sch final hnd hidx h
    simp only [List.cons_append] at hnd hidx h
    cases hgr : greedyRate feas fuel eps infra period sch hd with
    | error e => simp [greedyLoop, hgr] at h
    | ok rh =>
      simp only [greedyLoop, hgr] at h
      rw [List.map_cons, List.nodup_cons] at hnd
      have hidx' : ∀ t ∈ pre' ++ s :: post, t.idx < (sch.set hd.idx rh).length := by
        intro t ht; rw [List.length_set]; exact hidx t (List.mem_cons_of_mem _ ht)
      obtain ⟨cur, r, h1, h2, h3, h4, h5⟩ := ih (sch.set hd.idx rh) final hnd.2 hidx' h
      obtain ⟨_, hout, _⟩ := greedyLoop_values feas fuel eps infra period _ _ final hnd.2 h
      have hhd : ∀ t ∈ pre' ++ s :: post, t.idx ≠ hd.idx :=
        fun t ht heq => hnd.1 (List.mem_map.mpr ⟨t, ht, heq⟩)
      refine ⟨cur, r, h1, h2, by rw [h3, List.length_set], ?_, ?_⟩
      · intro t ht
        rcases List.mem_cons.mp ht with rfl | ht
        · rw [h5 t.idx (fun u hu => hhd u (List.mem_append_left _ hu)), hout t.idx hhd]
        · exact h4 t ht
      · intro j hj
        rw [h5 j (fun t ht => hj t (List.mem_cons_of_mem _ ht))]
        exact List.getElem?_set_ne (hj hd List.mem_cons_self)

end Acn.Sorted
