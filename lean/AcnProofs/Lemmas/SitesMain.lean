/-
  Generic C16 theorems: for ANY topology accepted by `topoOk`, every schedule the network accepts
  keeps each line triple's three squared line currents below the squared bound; transformers then
  obey the power bound for every capacity.
-/
import AcnProofs.Lemmas.SitesTopo

namespace Acn.SitesMain
open Acn Acn.Feas Acn.Sites Acn.Gen.Sites Acn.SitesFeas Acn.SitesTopo
variable {K : Type} [Field K] [LinearOrder K] [IsStrictOrderedRing K]
set_option linter.unusedSectionVars false

structure TripleFacts (T : Topo) (tr : Triple) : Prop where
  lt : ∀ j ∈ tr.evses, j < nStations T
  nodup : tr.evses.Nodup
  ha : tr.a < T.rows.length
  hb : tr.b < T.rows.length
  hc : tr.c < T.rows.length
  ca : ∀ j, j < nStations T →
    coeff (rowOf T tr.a) j = ((if tr.evses.contains j then 1 else 0) * sgnA (angleOf T j), 1)
  cb : ∀ j, j < nStations T →
    coeff (rowOf T tr.b) j = ((if tr.evses.contains j then 1 else 0) * sgnB (angleOf T j), 1)
  cc : ∀ j, j < nStations T →
    coeff (rowOf T tr.c) j = ((if tr.evses.contains j then 1 else 0) * sgnC (angleOf T j), 1)

theorem tripleFacts_of (T : Topo) (tr : Triple) (h : tripleOk T tr = true) : TripleFacts T tr := by
  unfold tripleOk at h
  simp only [Bool.and_eq_true, List.all_eq_true, decide_eq_true_eq, List.mem_range, beq_iff_eq] at h
  obtain ⟨⟨⟨⟨⟨h1, h2⟩, h3⟩, h4⟩, h5⟩, h6⟩ := h
  exact ⟨h1, h2, h3, h4, h5, fun j hj => (h6 j hj).1.1, fun j hj => (h6 j hj).1.2, fun j hj => (h6 j hj).2⟩

structure TopoFacts (T : Topo) : Prop where
  angLen : T.angles.length = nStations T
  limLen : T.lims.length = T.rows.length
  rowsPos : 0 < T.rows.length
  ang : ∀ j, j < nStations T → lineAngle (angleOf T j) = true
  xf : ∀ x ∈ T.xfmrs, xfmrOk T x = true
  pn : ∀ p ∈ T.panels, panelOk T p = true
  pd : ∀ p ∈ T.pods, podOk T p = true

theorem angleOf_eq (T : Topo) (j : Nat) (hj : j < T.angles.length) : angleOf T j = T.angles[j] := by
  unfold angleOf; exact getD_of_lt _ _ _ hj

theorem topoFacts_of (T : Topo) (h : topoOk T = true) : TopoFacts T := by
  unfold topoOk at h
  simp only [Bool.and_eq_true, List.all_eq_true, decide_eq_true_eq] at h
  obtain ⟨⟨⟨⟨⟨⟨⟨⟨⟨⟨⟨⟨⟨h1, _⟩, _⟩, _⟩, h5⟩, h6⟩, h7⟩, _⟩, _⟩, h10⟩, h11⟩, h12⟩, _⟩, _⟩ := h
  refine ⟨h1, h5, h6, ?_, h10, h11, h12⟩
  intro j hj
  have hj' : j < T.angles.length := by omega
  have := h7 (T.angles[j]) (List.getElem_mem hj')
  rw [angleOf_eq T j hj']; exact this

/-- the angle lists of `netOf` read back -/
theorem angleOf_eq' (T : Topo) (j : Nat) (hj : j < T.angles.length) : angleOf T j = T.angles[j] :=
  angleOf_eq T j hj

theorem getD_cos (T : Topo) (r : K) (j : Nat) (hj : j < T.angles.length) :
    (T.angles.map (cosK r)).getD j 0 = cosK r (angleOf T j) := by
  rw [getD_of_lt _ _ _ (by simpa using hj), angleOf_eq T j hj]
  simp

theorem getD_sin (T : Topo) (j : Nat) (hj : j < T.angles.length) :
    (T.angles.map (sinK (K := K))).getD j 0 = sinK (angleOf T j) := by
  rw [getD_of_lt _ _ _ (by simpa using hj), angleOf_eq T j hj]
  simp

section agg
variable (T : Topo) (tr : Triple) (F : TripleFacts T tr) (G : TopoFacts T) (r : K) (x : List K)
  (hx : x.length = nStations T)
include F G hx

theorem aggA_re : aggRe (denseRow (nStations T) (rowOf T tr.a)) x (T.angles.map (cosK r))
    = r / 2 * (gsum T tr.evses angAB x + gsum T tr.evses angCA x) := by
  rw [aggRe_eq _ _ _ _ hx (by simp [G.angLen])]
  unfold gsum
  rw [← Finset.sum_add_distrib, Finset.mul_sum]
  apply Finset.sum_congr rfl
  intro j hj
  have hj := Finset.mem_range.mp hj
  rw [F.ca j hj, getD_cos T r j (by rw [G.angLen]; exact hj)]
  exact ptA_re r _ _ _ (lineAngle_cases _ (G.ang j hj))

theorem aggA_im : aggIm (denseRow (nStations T) (rowOf T tr.a)) x (T.angles.map sinK)
    = (gsum T tr.evses angAB x - gsum T tr.evses angCA x) / 2 := by
  rw [aggIm_eq _ _ _ _ hx (by simp [G.angLen])]
  unfold gsum
  rw [← Finset.sum_sub_distrib, Finset.sum_div]
  apply Finset.sum_congr rfl
  intro j hj
  have hj := Finset.mem_range.mp hj
  rw [F.ca j hj, getD_sin T j (by rw [G.angLen]; exact hj)]
  exact ptA_im _ _ _ (lineAngle_cases _ (G.ang j hj))

theorem aggB_re : aggRe (denseRow (nStations T) (rowOf T tr.b)) x (T.angles.map (cosK r))
    = -(r / 2 * gsum T tr.evses angAB x) := by
  rw [aggRe_eq _ _ _ _ hx (by simp [G.angLen])]
  unfold gsum
  rw [Finset.mul_sum, ← Finset.sum_neg_distrib]
  apply Finset.sum_congr rfl
  intro j hj
  have hj := Finset.mem_range.mp hj
  rw [F.cb j hj, getD_cos T r j (by rw [G.angLen]; exact hj)]
  exact ptB_re r _ _ _ (lineAngle_cases _ (G.ang j hj))

theorem aggB_im : aggIm (denseRow (nStations T) (rowOf T tr.b)) x (T.angles.map sinK)
    = -(gsum T tr.evses angBC x + gsum T tr.evses angAB x / 2) := by
  rw [aggIm_eq _ _ _ _ hx (by simp [G.angLen])]
  unfold gsum
  rw [Finset.sum_div, ← Finset.sum_add_distrib, ← Finset.sum_neg_distrib]
  apply Finset.sum_congr rfl
  intro j hj
  have hj := Finset.mem_range.mp hj
  rw [F.cb j hj, getD_sin T j (by rw [G.angLen]; exact hj)]
  exact ptB_im _ _ _ (lineAngle_cases _ (G.ang j hj))

theorem aggC_re : aggRe (denseRow (nStations T) (rowOf T tr.c)) x (T.angles.map (cosK r))
    = -(r / 2 * gsum T tr.evses angCA x) := by
  rw [aggRe_eq _ _ _ _ hx (by simp [G.angLen])]
  unfold gsum
  rw [Finset.mul_sum, ← Finset.sum_neg_distrib]
  apply Finset.sum_congr rfl
  intro j hj
  have hj := Finset.mem_range.mp hj
  rw [F.cc j hj, getD_cos T r j (by rw [G.angLen]; exact hj)]
  exact ptC_re r _ _ _ (lineAngle_cases _ (G.ang j hj))

theorem aggC_im : aggIm (denseRow (nStations T) (rowOf T tr.c)) x (T.angles.map sinK)
    = gsum T tr.evses angCA x / 2 + gsum T tr.evses angBC x := by
  rw [aggIm_eq _ _ _ _ hx (by simp [G.angLen])]
  unfold gsum
  rw [Finset.sum_div, ← Finset.sum_add_distrib]
  apply Finset.sum_congr rfl
  intro j hj
  have hj := Finset.mem_range.mp hj
  rw [F.cc j hj, getD_sin T j (by rw [G.angLen]; exact hj)]
  exact ptC_im _ _ _ (lineAngle_cases _ (G.ang j hj))

/-- Σ_{j∈E} x_j is the sum of the three line-pair sums -/
theorem groupSum_split : groupSum tr.evses x
    = gsum T tr.evses angAB x + gsum T tr.evses angBC x + gsum T tr.evses angCA x := by
  rw [groupSum_eq tr.evses (nStations T) x F.nodup F.lt]
  unfold gsum
  rw [← Finset.sum_add_distrib, ← Finset.sum_add_distrib]
  apply Finset.sum_congr rfl
  intro j hj
  have hj := Finset.mem_range.mp hj
  rcases lineAngle_cases _ (G.ang j hj) with h | h | h <;> rw [h] <;>
    cases tr.evses.contains j <;> simp [angAB, angBC, angCA]

end agg

theorem gsum_nonneg (T : Topo) (E : List Nat) (a : Int × Nat) (x : List K)
    (hx : ∀ j, 0 ≤ x.getD j 0) : 0 ≤ gsum T E a x := by
  unfold gsum
  apply Finset.sum_nonneg
  intro j _
  split
  · exact hx j
  · exact le_refl 0

/-- what feasibility says about constraint row `i` in period `t` -/
theorem row_bound (T : Topo) (G : TopoFacts T) (r vt rt : K) (caps : List K) (S : List (List K))
    (hfeas : feasible T r vt rt caps S = true) (t : Nat) (ht : t < periods S)
    (i : Nat) (hi : i < T.rows.length) :
    0 ≤ boundOf T r vt rt caps i ∧
    aggRe (denseRow (nStations T) (rowOf T i)) (col S t) (T.angles.map (cosK r)) *
      aggRe (denseRow (nStations T) (rowOf T i)) (col S t) (T.angles.map (cosK r)) +
    aggIm (denseRow (nStations T) (rowOf T i)) (col S t) (T.angles.map sinK) *
      aggIm (denseRow (nStations T) (rowOf T i)) (col S t) (T.angles.map sinK)
      ≤ boundOf T r vt rt caps i * boundOf T r vt rt caps i := by
  have hfeas' : netFeasible (List.map (denseRow (K := K) (nStations T)) T.rows) (List.map (limK r caps) T.lims)
      (List.map (cosK r) T.angles) (List.map sinK T.angles) vt rt S = true := hfeas
  have hi' : i < T.lims.length := by rw [G.limLen]; exact hi
  have h := rowOk_of_netFeasible _ _ _ _ vt rt S hfeas' t ht i (by simpa using hi) (by simpa using hi')
  unfold rowOk at h
  rw [magLe_iff] at h
  have e1 : (List.map (denseRow (K := K) (nStations T)) T.rows)[i]'(by simpa using hi)
      = denseRow (nStations T) (rowOf T i) := by
    rw [List.getElem_map]; unfold rowOf; rw [getD_of_lt _ _ _ hi]
  have e2 : (List.map (limK r caps) T.lims)[i]'(by simpa using hi') = limK r caps (limOf T i) := by
    rw [List.getElem_map]; unfold limOf; rw [getD_of_lt _ _ _ hi']
  rw [e1, e2] at h
  exact h

/-- the three squared line currents of a line triple, for an accepted schedule -/
theorem triple_bounds (T : Topo) (G : TopoFacts T) (tr : Triple) (F : TripleFacts T tr)
    (r vt rt : K) (hr : r * r = 3) (caps : List K) (S : List (List K))
    (hlen : S.length = nStations T)
    (hfeas : feasible T r vt rt caps S = true) (t : Nat) (ht : t < periods S) :
    let X := gsum T tr.evses angAB (col S t)
    let Y := gsum T tr.evses angBC (col S t)
    let Z := gsum T tr.evses angCA (col S t)
    (0 ≤ boundOf T r vt rt caps tr.a ∧
      X * X + X * Z + Z * Z ≤ boundOf T r vt rt caps tr.a * boundOf T r vt rt caps tr.a) ∧
    (0 ≤ boundOf T r vt rt caps tr.b ∧
      X * X + X * Y + Y * Y ≤ boundOf T r vt rt caps tr.b * boundOf T r vt rt caps tr.b) ∧
    (0 ≤ boundOf T r vt rt caps tr.c ∧
      Y * Y + Y * Z + Z * Z ≤ boundOf T r vt rt caps tr.c * boundOf T r vt rt caps tr.c) := by
  intro X Y Z
  have hx : (col S t).length = nStations T := by rw [length_col]; exact hlen
  have ba := row_bound T G r vt rt caps S hfeas t ht tr.a F.ha
  have bb := row_bound T G r vt rt caps S hfeas t ht tr.b F.hb
  have bc := row_bound T G r vt rt caps S hfeas t ht tr.c F.hc
  rw [aggA_re T tr F G r _ hx, aggA_im T tr F G _ hx, SitesAlg.lineA_sq r _ _ hr] at ba
  rw [aggB_re T tr F G r _ hx, aggB_im T tr F G _ hx, SitesAlg.lineB_sq r _ _ hr] at bb
  rw [aggC_re T tr F G r _ hx, aggC_im T tr F G _ hx, SitesAlg.lineC_sq r _ _ hr] at bc
  exact ⟨ba, bb, bc⟩

/-- `aggSq` (what the driver reports as |aggregate|²) in terms of the dense row -/
theorem aggSq_eq (T : Topo) (r : K) (caps x : List K) (i : Nat) (hi : i < T.rows.length) :
    aggSq T r caps i x =
      aggRe (denseRow (nStations T) (rowOf T i)) x (T.angles.map (cosK r)) *
        aggRe (denseRow (nStations T) (rowOf T i)) x (T.angles.map (cosK r)) +
      aggIm (denseRow (nStations T) (rowOf T i)) x (T.angles.map sinK) *
        aggIm (denseRow (nStations T) (rowOf T i)) x (T.angles.map sinK) := by
  have e : (netOf T r caps).M.getD i [] = denseRow (nStations T) (rowOf T i) := by
    show (List.map (denseRow (K := K) (nStations T)) T.rows).getD i [] = _
    rw [getD_of_lt _ _ _ (by simpa using hi), List.getElem_map]
    unfold rowOf; rw [getD_of_lt _ _ _ hi]
  unfold aggSq; simp only []; rw [e]; rfl

/-- **feasibility is exactly the conjunction over rows and periods** of `|aggregate|² ≤ bound²` -/
theorem feasible_iff_rows (T : Topo) (G : TopoFacts T) (r vt rt : K) (caps : List K) (S : List (List K)) :
    feasible T r vt rt caps S = true ↔
      ∀ t, t < periods S → ∀ i, i < T.rows.length →
        0 ≤ boundOf T r vt rt caps i ∧
        aggSq T r caps i (col S t) ≤ boundOf T r vt rt caps i * boundOf T r vt rt caps i := by
  constructor
  · intro h t ht i hi
    rw [aggSq_eq T r caps _ i hi]
    exact row_bound T G r vt rt caps S h t ht i hi
  · intro h
    show netFeasible (List.map (denseRow (K := K) (nStations T)) T.rows) (List.map (limK r caps) T.lims)
      (List.map (cosK r) T.angles) (List.map sinK T.angles) vt rt S = true
    rw [netFeasible_iff _ _ _ _ _ _ _ (by simp [G.limLen, G.rowsPos]) (by simp [G.limLen])]
    intro t ht i hi hi'
    have hi1 : i < T.rows.length := by simpa using hi
    have hi2 : i < T.lims.length := by simpa using hi'
    have e1 : (List.map (denseRow (K := K) (nStations T)) T.rows)[i]'hi
        = denseRow (nStations T) (rowOf T i) := by
      rw [List.getElem_map]; unfold rowOf; rw [getD_of_lt _ _ _ hi1]
    have e2 : (List.map (limK r caps) T.lims)[i]'hi' = limK r caps (limOf T i) := by
      rw [List.getElem_map]; unfold limOf; rw [getD_of_lt _ _ _ hi2]
    rw [e1, e2]
    unfold rowOk
    rw [magLe_iff]
    have := h t ht i hi1
    rw [aggSq_eq T r caps _ i hi1] at this
    exact this

end Acn.SitesMain
