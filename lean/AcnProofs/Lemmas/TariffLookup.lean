/-
  Helper lemmas for C17: the (time, rate) sort is the identity on a strictly increasing
  breakpoint list, and the descending search returns the greatest breakpoint ≤ the target.
-/
import AcnModel.Tariff
import Mathlib.Tactic

namespace Acn.C17
open Acn.Tariff

variable {K : Type} [LT K] [DecidableLT K]

/-- strictly increasing breakpoint times -/
def StrictTimes (l : List (Rat × K)) : Prop := l.Pairwise (fun a b => a.1 < b.1)

theorem sortPairs_of_strict (l : List (Rat × K)) (h : StrictTimes l) : sortPairs l = l := by
  induction l with
  | nil => rfl
  | cons a l ih =>
    have h' := List.pairwise_cons.mp h
    have : sortPairs (a :: l) = insertPair a (sortPairs l) := rfl
    rw [this, ih h'.2]
    cases l with
    | nil => rfl
    | cons q qs =>
      have hlt : a.1 < q.1 := h'.1 q (List.mem_cons_self)
      simp [insertPair, pairLt, hlt]

omit [LT K] [DecidableLT K] in
/-- searching the reversed strictly increasing list finds the greatest time ≤ x -/
theorem find_rev_spec (l : List (Rat × K)) (h : StrictTimes l) (x : Rat) (p : Rat × K)
    (hf : l.reverse.find? (fun p => decide (p.1 ≤ x)) = some p) :
    p ∈ l ∧ p.1 ≤ x ∧ ∀ q ∈ l, q.1 ≤ x → q.1 ≤ p.1 := by
  rw [List.find?_eq_some_iff_append] at hf
  obtain ⟨hp, as, bs, hl, hnot⟩ := hf
  have hp' : p.1 ≤ x := by simpa using hp
  have hl' : l = bs.reverse ++ p :: as.reverse := by
    have := congrArg List.reverse hl
    simpa using this
  refine ⟨by rw [hl']; simp, hp', ?_⟩
  intro q hq hqx
  rw [hl'] at hq h
  rcases List.mem_append.mp hq with hq | hq
  · have := (List.pairwise_append.mp h).2.2 q hq p (List.mem_cons_self)
    exact le_of_lt this
  · rcases List.mem_cons.mp hq with rfl | hq
    · exact le_refl _
    · have := hnot q (List.mem_reverse.mp hq)
      simp at this
      exact absurd hqx (not_le.mpr this)

omit [LT K] [DecidableLT K] in
theorem find_rev_exists (l : List (Rat × K)) (x : Rat) (p0 : Rat × K) (hmem : p0 ∈ l) (h0 : p0.1 ≤ x) :
    ∃ p, l.reverse.find? (fun p => decide (p.1 ≤ x)) = some p := by
  cases hf : l.reverse.find? (fun p => decide (p.1 ≤ x)) with
  | some p => exact ⟨p, rfl⟩
  | none =>
    rw [List.find?_eq_none] at hf
    have := hf p0 (List.mem_reverse.mpr hmem)
    simp at this
    exact absurd h0 (not_le.mpr this)

end Acn.C17
