/-
  T1c — the hand-written numeric kernels ARE the code, by proof (Net group, property C06).

  `AcnModel/Gen/CodeNet.lean` is regenerated on every run from the Python ASTs of /repo's working tree
  (harness/translate_code.py).  Translated here is the SCALAR FORM — one constraint with limit `lim`,
  one period, aggregate-current magnitude `mag` — of the comparison that decides feasibility:

  * `ChargingNetwork.is_feasible` (charging_network.py): the final
    `np.all(np.tile(self.magnitudes + np.maximum(violation_tolerance, rel_magnitude_tol), …).T
            >= np.abs(aggregate_currents))`
    over the assignments before it (the `None` defaults of the two tolerances, `rel_magnitude_tol`);
  * `infrastructure_constraints_feasible` (algorithms/utils.py): `line_currents <= limits[j] + tol[j]`
    in the loop of each branch, over `tol = np.maximum(violation_tolerance, relative_tolerance * limits)`.

  Each equals `decide (mag ≤ lim + Feas.tolOf vt rt lim)`: the bound `lim + tolOf vt rt lim` is what
  `Feas.rowOk` / `Feas.algFeasible` hand to `magLe` (the phase-aware comparison `|z| ≤ b` without a
  square root, `C06.net_feasible_iff_phasor`) and what `Feas.netFeasibleLinear` / `Feas.algLinear`
  compare the linear aggregate with.  A change of the comparison (`>` for `>=`), of the tolerance rule
  (`max` dropped, `+` for `max`), of an operand or of a default in one of these Python expressions
  changes `Gen.Code.*` and the theorems below stop compiling.

  Not covered by this tie (T2 only): how `aggregate_currents` / `line_currents` are computed, the
  empty-`magnitudes` guard, the loops.  `is_feasible` multiplies `magnitudes * relative_tolerance`, the
  model (and utils.py) `relative_tolerance * limit`: the tie for `is_feasible` carries commutativity of
  that one product as a hypothesis (it holds for IEEE doubles and in every field).
-/
import AcnModel.Gen.CodeNet
import AcnModel.Feas

set_option linter.unusedSectionVars false

namespace Acn.CodeTie
open Acn Acn.Feas

section
variable {K : Type} [Add K] [Sub K] [Mul K] [Div K] [Neg K] [LT K] [LE K]
  [DecidableLT K] [DecidableLE K] [OfNat K 0] [OfNat K 1] [NatCast K] [HasExp K]

/-- utils.py, phase-aware branch: the per-constraint test is `mag ≤ lim + tolOf vt rt lim` -/
theorem alg_limit_test_tie (lim mag vt rt : K) :
    Gen.Code.alg_limit_test lim mag vt rt = decide (mag ≤ lim + tolOf vt rt lim) := rfl

/-- utils.py, linear branch: the same test -/
theorem alg_limit_test_linear_tie (lim mag vt rt : K) :
    Gen.Code.alg_limit_test_linear lim mag vt rt = decide (mag ≤ lim + tolOf vt rt lim) := rfl

/-- `Feas.algLinear` is, constraint by constraint, the translated test on `|Σ_j |a_j| x_j|` -/
theorem algLinear_is_code (M : List (List K)) (lims : List K) (vt rt : K) (x : List K) :
    algLinear M lims vt rt x
      = (List.zip M lims).all fun (row, lim) =>
          Gen.Code.alg_limit_test_linear lim (absK (dotK (row.map absK) x)) vt rt := rfl

/-- `ChargingNetwork.is_feasible`: with `vt`, `rt` the tolerances after their `None` defaults
    (`Feas.Net.isFeasible` computes them as `vt?.getD net.vt`, `rt?.getD net.rt`), the final comparison
    is `mag ≤ lim + tolOf vt rt lim`. -/
theorem net_limit_test_tie (lim nvt nrt mag : K) (vt? rt? : Option K)
    (hc : lim * rt?.getD nrt = rt?.getD nrt * lim) :
    Gen.Code.net_limit_test lim nvt nrt mag vt? rt?
      = decide (mag ≤ lim + tolOf (vt?.getD nvt) (rt?.getD nrt) lim) := by
  unfold Gen.Code.net_limit_test tolOf
  cases vt? <;> cases rt? <;> simp only [Option.getD] at hc ⊢ <;> rw [hc]

/-- `Feas.netFeasibleLinear` (hence `Feas.netLinear`, the `linear=True` path of `Net.isFeasible`) is,
    constraint by constraint and period by period, the translated comparison of `is_feasible`. -/
theorem netFeasibleLinear_is_code (hmul : ∀ a b : K, a * b = b * a) (agg : List K → List K → K)
    (M : List (List K)) (lims : List K) (nvt nrt : K) (vt? rt? : Option K) (S : List (List K)) :
    netFeasibleLinear agg M lims (vt?.getD nvt) (rt?.getD nrt) S
      = (if lims.isEmpty then true
         else (List.range (periods S)).all fun t =>
           (List.zip M lims).all fun (row, lim) =>
             Gen.Code.net_limit_test lim nvt nrt (agg row (col S t)) vt? rt?) := by
  unfold netFeasibleLinear
  simp only [fun lim mag => net_limit_test_tie lim nvt nrt mag vt? rt? (hmul _ _)]

/-- the phase-aware row test of the network model compares (through `magLe`, i.e. squared) with the
    bound `b` of the translated comparison: `net_limit_test … mag = decide (mag ≤ b)` for every `mag` -/
theorem rowOk_bound_is_code (hmul : ∀ a b : K, a * b = b * a) (row : List K) (lim nvt nrt : K)
    (vt? rt? : Option K) (c s x : List K) :
    ∃ b : K, rowOk row lim (vt?.getD nvt) (rt?.getD nrt) c s x = magLe (aggRe row x c) (aggIm row x s) b ∧
      ∀ mag, Gen.Code.net_limit_test lim nvt nrt mag vt? rt? = decide (mag ≤ b) :=
  ⟨lim + tolOf (vt?.getD nvt) (rt?.getD nrt) lim, rfl,
   fun mag => net_limit_test_tie lim nvt nrt mag vt? rt? (hmul _ _)⟩

end

/-- every target of this group was translated in this run -/
theorem all_translated_net : Gen.Code.translatedNet
    = ["net_limit_test", "alg_limit_test", "alg_limit_test_linear"] := by decide

end Acn.CodeTie
