/-
  Helper lemmas for C09 (registry, 2/2): `dump` of an acyclic heap = the reachable sub-store, each
  object once; `load (dump st root) = dump st root`.
-/
import AcnProofs.Lemmas.RegistryWalk

namespace Acn.Registry

/-- what `to_json` writes for the object `root` of an acyclic heap -/
structure DumpSpec (st : Store) (root : Id) (ctx : Store) : Prop where
  ok : CtxOK st ctx
  root_mem : root ∈ ctx.keys
  reach : ∀ j, j ∈ ctx.keys ↔ Reach st root j
  same : ∀ j, Reach st root j → ctx.get j = st.get j

theorem reach_mem_keys {st ctx : Store} (hc : CtxOK st ctx) {a b : Id} (ha : a ∈ ctx.keys) (h : Reach st a b) :
    b ∈ ctx.keys := by
  induction h with
  | refl _ => exact ha
  | @step i j k o hg hj _ ih =>
    obtain ⟨q, hq⟩ := exists_of_key ha
    have : st.get i = some q := hc.sub i q hq
    rw [hg] at this
    cases this
    exact ih (hc.closed i o hq j hj)

theorem dump_spec {st : Store} {root : Id} (hac : Acyclic st) (hcl : Closed st root) :
    ∃ ctx, dump st root = .ok ctx ∧ DumpSpec st root ctx := by
  have hS : ∀ j, Reach st root j → j ∈ st.keys.dedup := by
    intro j hj
    obtain ⟨o, ho⟩ := Option.isSome_iff_exists.1 (hcl j hj)
    exact List.mem_dedup.2 (key_of_get ho)
  have hlen : st.keys.dedup.length < st.length + 1 := by
    have h1 := (List.dedup_sublist st.keys).length_le
    have h2 : st.keys.length = st.length := by simp [Store.keys]
    omega
  obtain ⟨new, h1, hc, hr, hre⟩ := visit_spec st hac (st.length + 1) root [] st.keys.dedup (CtxOK.nil st)
    (List.nodup_dedup _) hS hlen hcl
  simp only [List.nil_append] at h1 hc hr hre
  refine ⟨new, h1, hc, hr, ?_, ?_⟩
  · intro j
    exact ⟨hre j, fun h => reach_mem_keys hc hr h⟩
  · intro j hj
    obtain ⟨q, hq⟩ := exists_of_key (reach_mem_keys hc hr hj)
    rw [get_of_mem_nodup hc.nodup hq, hc.sub j q hq]

/-- reachability inside the dumped context stays inside it -/
theorem reach_ctx_mem {st ctx : Store} (hc : CtxOK st ctx) {a b : Id} (ha : a ∈ ctx.keys) (h : Reach ctx a b) :
    b ∈ ctx.keys := by
  induction h with
  | refl _ => exact ha
  | step hg hj _ ih => exact ih (hc.closed _ _ (mem_of_get hg) _ hj)

theorem ctx_get_eq {st ctx : Store} (hc : CtxOK st ctx) {j : Id} (hj : j ∈ ctx.keys) : ctx.get j = st.get j := by
  obtain ⟨q, hq⟩ := exists_of_key hj
  rw [get_of_mem_nodup hc.nodup hq, hc.sub j q hq]

theorem length_le_of_ctxOK {st ctx : Store} (hc : CtxOK st ctx) : ctx.length ≤ st.length := by
  have hsub : ctx.keys ⊆ st.keys := by
    intro j hj
    obtain ⟨q, hq⟩ := exists_of_key hj
    exact key_of_get (hc.sub j q hq)
  have := (List.subperm_of_subset hc.nodup hsub).length_le
  simpa [Store.keys] using this

/-- `load (dump st root) = dump st root`: the same objects, under the same ids, in the same order -/
theorem load_dump {st : Store} {root : Id} (hac : Acyclic st) {ctx : Store}
    (hd : dump st root = .ok ctx) (hs : DumpSpec st root ctx) : load ctx root = .ok ctx := by
  have hc := hs.ok
  -- the context is itself an acyclic, closed store
  have hac' : Acyclic ctx := by
    obtain ⟨rank, hr⟩ := hac
    exact ⟨rank, fun i o hg j hj => hr i o (hc.sub i o (mem_of_get hg)) j hj⟩
  have hcl' : ∀ j, Reach ctx root j → (ctx.get j).isSome = true := by
    intro j hj
    obtain ⟨q, hq⟩ := exists_of_key (reach_ctx_mem hc hs.root_mem hj)
    rw [get_of_mem_nodup hc.nodup hq]
    rfl
  obtain ⟨new, h1, _, _, _⟩ := visit_spec ctx hac' (ctx.length + 1) root [] ctx.keys (CtxOK.nil ctx) hc.nodup
    (fun j hj => reach_ctx_mem hc hs.root_mem hj) (by simp [Store.keys]) hcl'
  simp only [List.nil_append] at h1
  -- the walk over the context is the walk over the heap
  have h2 : visit ctx (ctx.length + 1) root [] = visit st (ctx.length + 1) root [] :=
    visit_congr ctx st _ root [] (fun j hj => ctx_get_eq hc (reach_ctx_mem hc hs.root_mem hj))
  have h3 : visit st (st.length + 1) root [] = .ok new :=
    visit_mono st (ctx.length + 1) (st.length + 1) (by have := length_le_of_ctxOK hc; omega) root [] new
      (by rw [← h2]; exact h1)
  unfold dump at hd
  rw [h3] at hd
  cases hd
  exact h1

/-- an id that is entered once sits at exactly one position -/
theorem position_unique {l : List Id} (hn : l.Nodup) {a : Id} {k1 k2 : Nat} (h1 : l[k1]? = some a) (h2 : l[k2]? = some a) :
    k1 = k2 := by
  obtain ⟨hk1, e1⟩ := List.getElem?_eq_some_iff.1 h1
  obtain ⟨hk2, e2⟩ := List.getElem?_eq_some_iff.1 h2
  exact (List.Nodup.getElem_inj_iff hn).1 (e1.trans e2.symm)

theorem addr_eq_iff {loaded : Store} {a b : Id} (ha : a ∈ loaded.keys) (hb : b ∈ loaded.keys) :
    addr loaded a = addr loaded b ↔ a = b := by
  unfold addr
  have la : loaded.keys.idxOf a < loaded.length := by
    have := List.idxOf_lt_length_of_mem ha; simpa [Store.keys] using this
  have lb : loaded.keys.idxOf b < loaded.length := by
    have := List.idxOf_lt_length_of_mem hb; simpa [Store.keys] using this
  simp only [la, lb, if_true, Option.some.injEq]
  exact List.idxOf_inj ha

end Acn.Registry
