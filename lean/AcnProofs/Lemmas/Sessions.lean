/-
  Helper lemmas for C15, algebraic part: Python's `int()` as a lawful truncation on a floor ring,
  the structure of `convertDoc` / `convertDocs` / `convertSample`, the `max_len` cap.
-/
import AcnModel.Sessions
import AcnProofs.Lemmas.Basic
import Mathlib.Algebra.Order.Floor.Ring
import Mathlib.Tactic

set_option linter.unusedSectionVars false

namespace Acn.SessionsL
open Acn Acn.Sessions Acn.Battery Acn.Evse

variable {K : Type} [Field K] [LinearOrder K] [IsStrictOrderedRing K] [FloorRing K]

/-- Python's `int(x)`: floor for `x ≥ 0`, ceiling below zero. -/
def pyTrunc (x : K) : Int := if 0 ≤ x then ⌊x⌋ else ⌈x⌉

/-- the truncation every floor ring carries (used by all C15 theorems) -/
instance instTrunc : HasTrunc K := ⟨pyTrunc⟩

theorem trunc_def (x : K) : HasTrunc.trunc x = pyTrunc x := rfl

theorem pyTrunc_nonneg {x : K} (h : 0 ≤ x) : pyTrunc x = ⌊x⌋ := by simp [pyTrunc, h]

theorem pyTrunc_neg {x : K} (h : x < 0) : pyTrunc x = ⌈x⌉ := by simp [pyTrunc, not_le.mpr h]

theorem pyTrunc_mono {x y : K} (h : x ≤ y) : pyTrunc x ≤ pyTrunc y := by
  unfold pyTrunc
  split <;> split
  · exact Int.floor_le_floor h
  · exact absurd (le_trans ‹0 ≤ x› h) ‹_›
  · have hx : x ≤ 0 := le_of_lt (not_le.mp ‹_›)
    have h1 : ⌈x⌉ ≤ 0 := Int.ceil_le.mpr (by simpa using hx)
    have h2 : (0 : Int) ≤ ⌊y⌋ := Int.floor_nonneg.mpr ‹_›
    exact le_trans h1 h2
  · exact Int.ceil_le_ceil h

/-- a whole unit further on, the index has advanced — for non-negative arguments only -/
theorem pyTrunc_add_one {x : K} (h : 0 ≤ x) : pyTrunc (x + 1) = pyTrunc x + 1 := by
  rw [pyTrunc_nonneg h, pyTrunc_nonneg (by linarith)]
  exact Int.floor_add_one x

theorem periodIndex_pos {secs period : K} (hp : 0 < period) :
    periodIndex secs period = .ok (pyTrunc (secs / (60 * period))) := by
  unfold periodIndex
  have : ¬ (¬ (period < 0) ∧ ¬ (0 < period)) := by
    intro h; exact h.2 hp
  rw [if_neg this]
  simp [trunc_def]

theorem periodIndex_zero (secs : K) : periodIndex secs (0 : K) = .error .zeroDivision := by
  unfold periodIndex
  simp

/-! ### the `max_len` cap -/

theorem capDeparture_le (a d : Int) (L : Int) : capDeparture a d (some L) - a ≤ L := by
  simp only [capDeparture]
  split <;> omega

theorem capDeparture_ge (a d : Int) (m : Option Int) (hL : ∀ L, m = some L → 0 ≤ L) (h : a ≤ d) :
    a ≤ capDeparture a d m := by
  cases m with
  | none => simpa [capDeparture] using h
  | some L =>
    have := hL L rfl
    simp only [capDeparture]
    split <;> omega

theorem capDeparture_none (a d : Int) : capDeparture a d none = d := rfl

/-! ### structure of `convertDoc` -/

theorem convertDoc_ok {d : Doc K} {offset : Int} {period V mp : K} {maxLen : Option Int}
    {bp : BattParams K} {ff : Bool} {e : Ev K} (hp : 0 < period)
    (h : convertDoc d offset period V mp maxLen bp ff = .ok e) :
    e.arrival = pyTrunc (d.connect / (60 * period)) - offset ∧
    e.departure = capDeparture e.arrival (pyTrunc (d.disconnect / (60 * period)) - offset) maxLen ∧
    e.estDeparture = e.departure ∧ e.session = d.session ∧ e.station = d.space ∧
    e.requested = docEnergy ff d.kWh mp period (e.departure - e.arrival) ∧
    e.delivered = 0 ∧ e.rate = 0 ∧
    mkBattery bp e.requested (((e.departure - e.arrival : Int)) : K) V period mp = .ok e.batt := by
  unfold convertDoc at h
  rw [periodIndex_pos hp, periodIndex_pos hp] at h
  simp only at h
  split at h
  · exact absurd h (by simp)
  · rename_i batt hb
    injection h with h
    subst h
    refine ⟨rfl, rfl, rfl, rfl, rfl, rfl, rfl, rfl, hb⟩

theorem convertDocs_forall₂ {docs : List (Doc K)} {offset : Int} {period V mp : K}
    {maxLen : Option Int} {bp : BattParams K} {ff : Bool} {evs : List (Ev K)}
    (h : convertDocs docs offset period V mp maxLen bp ff = .ok evs) :
    List.Forall₂ (fun d e => convertDoc d offset period V mp maxLen bp ff = .ok e) docs evs := by
  induction docs generalizing evs with
  | nil =>
    unfold convertDocs at h
    injection h with h; subst h; exact .nil
  | cons d ds ih =>
    unfold convertDocs at h
    split at h
    · exact absurd h (by simp)
    · rename_i e he
      split at h
      · exact absurd h (by simp)
      · rename_i l hl
        injection h with h; subst h
        exact .cons he (ih hl)

theorem getEvs_ok {start : K} {docs : List (Doc K)} {period V mp : K} {maxLen : Option Int}
    {bp : BattParams K} {ff : Bool} {evs : List (Ev K)} (hp : 0 < period)
    (h : getEvs start docs period V mp maxLen bp ff = .ok evs) :
    List.Forall₂ (fun d e => convertDoc d (pyTrunc (start / (60 * period))) period V mp maxLen bp ff = .ok e)
      docs evs := by
  unfold getEvs at h
  rw [periodIndex_pos hp] at h
  exact convertDocs_forall₂ h

/-! ### battery construction -/

theorem ofBatt_mkIdeal {cap init mp : K} {b : Batt K} (h : ofBatt (mkIdeal cap init mp) = .ok b) :
    b.capacity = cap ∧ b.init = init ∧ b.charge = init ∧ b.maxPower = mp ∧ init ≤ cap ∧
      b.twoStage = false := by
  unfold mkIdeal at h
  by_cases hc : cap < init
  · rw [if_pos hc] at h; simp [ofBatt] at h
  · rw [if_neg hc] at h
    simp only [ofBatt] at h
    injection h with h; subst h
    exact ⟨rfl, rfl, rfl, rfl, not_lt.mp hc, rfl⟩

theorem ofBatt_mkTwoStage {cap init mp noise ts : K} {cm : Calc} {b : Batt K}
    (h : ofBatt (mkTwoStage cap init mp noise ts cm) = .ok b) :
    b.capacity = cap ∧ b.init = init ∧ b.charge = init ∧ b.maxPower = mp ∧ init ≤ cap ∧
      b.twoStage = true ∧ b.ts = ts ∧ b.noiseLevel = noise ∧ b.cmode = cm := by
  unfold mkTwoStage at h
  by_cases hc : cap < init
  · rw [if_pos hc] at h; simp [ofBatt] at h
  · rw [if_neg hc] at h
    by_cases h1 : ts < 0
    · rw [if_pos h1] at h; simp [ofBatt] at h
    · rw [if_neg h1] at h
      by_cases h2 : 1 ≤ ts
      · rw [if_pos h2] at h; simp [ofBatt] at h
      · rw [if_neg h2] at h
        simp only [ofBatt] at h
        injection h with h; subst h
        exact ⟨rfl, rfl, rfl, rfl, not_lt.mp hc, rfl, rfl, rfl, rfl⟩

theorem mkBattery_default {bp : BattParams K} {energy stay V period mp : K} {b : Batt K}
    (hc : bp.capFn = none) (h : mkBattery bp energy stay V period mp = .ok b) :
    b.capacity = energy ∧ b.init = 0 ∧ b.charge = 0 ∧ b.maxPower = mp := by
  unfold mkBattery at h
  rw [hc] at h
  simp only at h
  cases ht : bp.type <;> rw [ht] at h <;> simp only at h
  · obtain ⟨h1, h2, h3, h4, _⟩ := ofBatt_mkIdeal h
    exact ⟨h1, h2, h3, h4⟩
  · obtain ⟨h1, h2, h3, h4, _⟩ := ofBatt_mkTwoStage h
    exact ⟨h1, h2, h3, h4⟩

theorem mkBattery_capFn {bp : BattParams K} {f : CapFn K} {energy stay V period mp : K} {b : Batt K}
    (hc : bp.capFn = some f) (h : mkBattery bp energy stay V period mp = .ok b) :
    ∃ cap init, f energy stay V period = .ok (cap, init) ∧ b.capacity = cap ∧ b.init = init ∧
      b.charge = init ∧ b.maxPower = mp ∧ init ≤ cap := by
  unfold mkBattery at h
  rw [hc] at h
  simp only at h
  split at h
  · exact absurd h (by simp)
  · rename_i cap init hf
    refine ⟨cap, init, hf, ?_⟩
    cases ht : bp.type <;> rw [ht] at h <;> simp only at h
    · obtain ⟨h1, h2, h3, h4, h5, _⟩ := ofBatt_mkIdeal h
      exact ⟨h1, h2, h3, h4, h5⟩
    · obtain ⟨h1, h2, h3, h4, h5, _⟩ := ofBatt_mkTwoStage h
      exact ⟨h1, h2, h3, h4, h5⟩

/-- the default ideal battery is always constructible for a non-negative request -/
theorem mkBattery_default_ok (energy stay V period mp : K) (h : 0 ≤ energy) :
    ∃ b, mkBattery (defaultParams : BattParams K) energy stay V period mp = .ok b := by
  unfold mkBattery defaultParams
  simp only [ofBatt, mkIdeal]
  rw [if_neg (not_lt.mpr h)]
  exact ⟨_, rfl⟩

/-! ### structure of `convertSample` -/

theorem convertSample_some {idx : Nat} {s : Sample K} {period V mp : K} {maxLen : Option K}
    {bp : BattParams K} {ff : Bool} {e : Ev K} (hp : 0 < period)
    (h : convertSample idx s period V mp maxLen bp ff = .ok (some e)) :
    0 ≤ s.arrival ∧ 0 < s.duration ∧ 0 < s.energy ∧
    e.arrival = pyTrunc (s.arrival * (60 / period)) ∧
    e.departure = pyTrunc ((s.arrival + sampleDur s.duration maxLen) * (60 / period)) ∧
    e.estDeparture = e.departure ∧
    e.session = s!"session_{idx}" ∧ e.station = s!"station_{idx}" ∧
    e.requested = (if ff then pyMin s.energy (mp * sampleDur s.duration maxLen) else s.energy) ∧
    mkBattery bp e.requested (sampleDur s.duration maxLen) V period mp = .ok e.batt := by
  unfold convertSample at h
  rw [if_neg (by intro hh; exact hh.2 hp)] at h
  simp only [Nat.cast_ofNat] at h
  split at h
  · exact absurd h (by simp)
  · rename_i hval
    simp only [not_or, not_lt, not_le] at hval
    split at h
    · exact absurd h (by simp)
    · rename_i batt hb
      injection h with h
      injection h with h
      subst h
      exact ⟨hval.1, hval.2.1, hval.2.2, rfl, rfl, rfl, rfl, rfl, rfl, hb⟩

theorem convertSample_none {idx : Nat} {s : Sample K} {period V mp : K} {maxLen : Option K}
    {bp : BattParams K} {ff : Bool} (hp : 0 < period)
    (h : convertSample idx s period V mp maxLen bp ff = .ok none) :
    s.arrival < 0 ∨ s.duration ≤ 0 ∨ s.energy ≤ 0 := by
  unfold convertSample at h
  rw [if_neg (by intro hh; exact hh.2 hp)] at h
  simp only [Nat.cast_ofNat] at h
  split at h
  · assumption
  · split at h
    · exact absurd h (by simp)
    · injection h with h; exact absurd h (by simp)

theorem sampleDur_le (d L : K) : sampleDur d (some L) ≤ L := by
  simp only [sampleDur]; split
  · exact le_refl _
  · exact not_lt.mp ‹_›

theorem sampleDur_nonneg (d : K) (m : Option K) (hd : 0 ≤ d) (hL : ∀ L, m = some L → 0 ≤ L) :
    0 ≤ sampleDur d m := by
  cases m with
  | none => exact hd
  | some L => simp only [sampleDur]; split; exact hL L rfl; exact hd

end Acn.SessionsL
