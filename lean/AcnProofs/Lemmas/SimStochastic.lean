/-
  C19, full simulator on the stochastic network (`AcnModel/SimStochastic.lean`): the network
  operations and `post_charging_update` with `fully_charged` COMPUTED from the numeric state never
  raise inside the run loop and keep the C19 loop invariant (`NoFailH`), and the scheduler / apply
  stages — `Sim`'s own — do not touch the network (`KeepsP`).  The carrier `K` is arbitrary: nothing
  here depends on what the numbers are.
-/
import AcnModel.SimStochastic
import AcnProofs.Lemmas.EventCoreGM
import AcnProofs.Lemmas.StochasticLoopInst

set_option linter.unusedSectionVars false

namespace Acn.SimSt
open Acn Acn.EventCore Acn.Stoch

variable {K : Type} [Add K] [Sub K] [Mul K] [Div K] [Neg K] [LT K] [LE K]
  [DecidableLT K] [DecidableLE K] [OfNat K 0] [OfNat K 1] [NatCast K] [HasExp K]

/-- the network component of the early-departure loop is `Net.earlyStep`'s -/
theorem foldl_earlyStepS (cfg : Sim.Cfg K) : ∀ (l : List Sess) (s : Net) (num : Num K) (s1 : Net),
    l.foldlM Net.earlyStep s = .ok s1 →
    ∃ num', l.foldlM (earlyStepS cfg) (s, num) = .ok (s1, num')
  | [], s, num, s1, h => by
    have : s = s1 := by simpa [pure, Except.pure] using h
    subst this
    exact ⟨num, rfl⟩
  | x :: l, s, num, s1, h => by
    simp only [List.foldlM_cons] at h ⊢
    cases hx : s.earlyStep x with
    | error e => rw [hx] at h; simp [bind, Except.bind] at h
    | ok s2 =>
      rw [hx] at h
      have h' : l.foldlM Net.earlyStep s2 = .ok s1 := by simpa [bind, Except.bind] using h
      obtain ⟨num', hn⟩ := foldl_earlyStepS cfg l s2
        (if s.waiting.isEmpty then num else resetPilot cfg num (unplugHit s (s.ev x).station x)) s1 h'
      refine ⟨num', ?_⟩
      have : earlyStepS cfg (s, num) x = .ok (s2,
          if s.waiting.isEmpty then num else resetPilot cfg num (unplugHit s (s.ev x).station x)) := by
        simp only [earlyStepS, hx]
      rw [this]
      simpa [bind, Except.bind] using hn

/-- `post_charging_update` on the full state does to the network what `Net.post` does, with
    `fully_charged` read off the energies -/
theorem postNet_ok (cfg : Sim.Cfg K) (sp : St K) (s1 : Net) (h : sp.1.post (fullOf cfg sp.2) = .ok s1) :
    ∃ num', postNet cfg sp = .ok (s1, num') := by
  unfold Net.post at h
  unfold postNet
  by_cases he : sp.1.earlyDeparture = true
  · rw [if_pos he] at h ⊢
    exact foldl_earlyStepS cfg _ sp.1 sp.2 s1 h
  · rw [if_neg he] at h ⊢
    have : sp.1 = s1 := by simpa [pure, Except.pure] using h
    exact ⟨sp.2, by rw [← this]; rfl⟩

/-- the stochastic network inside the full simulator never raises, and keeps its invariant -/
theorem sim_noFail (cfg : Sim.Cfg K) (hq : ValidQ cfg.core) (cs : Nat → Nat) :
    NoFailH (netOps cs cfg) (postS cfg) cfg.core (fun hist s => LoopInv cfg.core hist s.1) where
  plugin := by
    intro hist s x hx hP hnew
    exact (stochastic_noFail cfg.core hq cs (fun _ _ => false)).plugin hist s.1 x hx hP hnew
  unplug := by
    intro hist s x hx hP hin hnew
    exact (stochastic_noFail cfg.core hq cs (fun _ _ => false)).unplug hist s.1 x hx hP hin hnew
  recomp := by
    intro hist s r hr hP
    exact (stochastic_noFail cfg.core hq cs (fun _ _ => false)).recomp hist s.1 r hr hP
  post := by
    intro hist t s hP
    have h := (stochastic_noFail cfg.core hq cs (fun _ => fullOf cfg s.2)).post hist t s.1 hP
    simp only [stochasticPost] at h
    cases hp : s.1.post (fullOf cfg s.2) with
    | error e => rw [hp] at h; simp [liftOp] at h
    | ok s1 =>
      rw [hp] at h
      obtain ⟨num', hn⟩ := postNet_ok cfg s s1 hp
      simp only [postS, hn]
      exact ⟨trivial, by simpa [liftOp] using h.2⟩

theorem schedS_keeps (cfg : Sim.Cfg K) (sched : Sim.View K → Except EventCore.Err (Sim.Schedule K))
    (P : List Event → Net → Prop) : KeepsP (fun hist (s : St K) => P hist s.1) (schedS cfg sched) := by
  intro g h
  unfold schedS
  split <;> exact h

theorem applyS_keeps (cfg : Sim.Cfg K) (P : List Event → Net → Prop) :
    KeepsP (fun hist (s : St K) => P hist s.1) (applyS cfg) := fun _ h => h

end Acn.SimSt
