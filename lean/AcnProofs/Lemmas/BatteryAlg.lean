/-
  Algebraic facts about the battery models over an arbitrary linear ordered field:
  explicit results of `idealCharge` / `stepCharge` / `contCharge` under the guards the code
  has, the state invariant, the per-call bounds, and the frame (what a call never touches).
-/
import AcnModel.Battery
import AcnModel.Evse
import AcnProofs.Lemmas.Basic
import Mathlib.Tactic

namespace Acn.BattAlg
open Acn Acn.Battery

variable {K : Type} [Field K] [LinearOrder K] [IsStrictOrderedRing K]

@[simp] theorem isZero_iff (x : K) : isZero x = true ↔ x = 0 := by
  simp only [isZero, Bool.and_eq_true, decide_eq_true_eq]
  constructor
  · rintro ⟨h1, h2⟩; exact le_antisymm h2 h1
  · rintro rfl; exact ⟨le_refl _, le_refl _⟩

theorem isZero_false {x : K} (h : x ≠ 0) : isZero x = false := by
  rw [← Bool.not_eq_true, isZero_iff]; exact h

/-- What every reachable battery state satisfies (constructor guards `0 ≤ ts < 1`,
    `init ≤ capacity`; physically meaningful parameters `capacity > 0`, `maxPower ≥ 0`). -/
structure Inv (b : Batt K) : Prop where
  cap_pos : 0 < b.capacity
  charge_le : b.charge ≤ b.capacity
  init_le : b.init ≤ b.capacity
  maxp_nonneg : 0 ≤ b.maxPower
  ts_nonneg : 0 ≤ b.ts
  ts_lt : b.ts < 1

/-- The physical bounds of one `charge` call with pilot `pilot` that took `b` to `b'` and
    returned `r` amperes. -/
structure StepBounds (b : Batt K) (pilot : K) (b' : Batt K) (r : K) : Prop where
  rate_nonneg : 0 ≤ r
  rate_le_pilot : r ≤ pilot
  power_nonneg : 0 ≤ b'.power
  power_le_max : b'.power ≤ b.maxPower
  charge_mono : b.charge ≤ b'.charge
  charge_le_cap : b'.charge ≤ b.capacity

/-- A call never touches the parameters. -/
def SameParams (b b' : Batt K) : Prop :=
  b'.capacity = b.capacity ∧ b'.init = b.init ∧ b'.maxPower = b.maxPower ∧
  b'.twoStage = b.twoStage ∧ b'.noiseLevel = b.noiseLevel ∧ b'.ts = b.ts ∧ b'.cmode = b.cmode

theorem SameParams.refl (b : Batt K) : SameParams b b := ⟨rfl, rfl, rfl, rfl, rfl, rfl, rfl⟩

theorem SameParams.trans {a b c : Batt K} (h1 : SameParams a b) (h2 : SameParams b c) :
    SameParams a c := by
  obtain ⟨a1, a2, a3, a4, a5, a6, a7⟩ := h1
  obtain ⟨b1, b2, b3, b4, b5, b6, b7⟩ := h2
  exact ⟨b1.trans a1, b2.trans a2, b3.trans a3, b4.trans a4, b5.trans a5, b6.trans a6, b7.trans a7⟩

theorem Inv.of_sameParams {b b' : Batt K} (h : Inv b) (hp : SameParams b b')
    (hc : b'.charge ≤ b.capacity) : Inv b' := by
  obtain ⟨a1, a2, a3, _, _, a6, _⟩ := hp
  refine ⟨a1 ▸ h.cap_pos, a1 ▸ hc, ?_, a3 ▸ h.maxp_nonneg, a6 ▸ h.ts_nonneg, a6 ▸ h.ts_lt⟩
  rw [a1, a2]; exact h.init_le

/-! ### converting power to current and energy -/

theorem rate_bounds {V cp pilot : K} (hV : 0 < V) (h0 : 0 ≤ cp) (h1 : cp ≤ pilot * V / 1000) :
    0 ≤ cp * 1000 / V ∧ cp * 1000 / V ≤ pilot := by
  constructor
  · positivity
  · rw [div_le_iff₀ hV]
    rw [le_div_iff₀ (by norm_num : (0 : K) < 1000)] at h1
    exact h1

theorem charge_bounds {T cp cap ch : K} (hT : 0 < T) (h0 : 0 ≤ cp) (h1 : cp ≤ (cap - ch) / (T / 60)) :
    ch ≤ ch + cp * (T / 60) ∧ ch + cp * (T / 60) ≤ cap := by
  have hT' : 0 < T / 60 := by positivity
  constructor
  · have := mul_nonneg h0 hT'.le; linarith
  · rw [le_div_iff₀ hT'] at h1; linarith

/-! ### ideal battery -/

/-- the ideal battery's charging power: `min([pilot·V/1000, max_power, rate_to_full])` -/
def idealPower (b : Batt K) (pilot V T : K) : K :=
  min (min (pilot * V / 1000) b.maxPower) ((b.capacity - b.charge) / (T / 60))

theorem idealCharge_ok (b : Batt K) (pilot : K) {V T : K} (hV : 0 < V) (hT : 0 < T) :
    idealCharge b pilot V T =
      .ok ({ b with charge := b.charge + idealPower b pilot V T * (T / 60),
                    power := idealPower b pilot V T },
           idealPower b pilot V T * 1000 / V) := by
  simp [idealCharge, idealPower, not_le.mpr hV, not_le.mpr hT]

theorem idealCharge_err (b : Batt K) (pilot : K) {V T : K} (h : V ≤ 0 ∨ T ≤ 0) :
    idealCharge b pilot V T = .error .valueError := by
  unfold idealCharge
  rcases h with h | h
  · simp [h]
  · split_ifs <;> rfl

theorem idealPower_bounds {b : Batt K} (hb : Inv b) {pilot V T : K} (hp : 0 ≤ pilot)
    (hV : 0 < V) (hT : 0 < T) :
    0 ≤ idealPower b pilot V T ∧ idealPower b pilot V T ≤ pilot * V / 1000 ∧
    idealPower b pilot V T ≤ b.maxPower ∧
    idealPower b pilot V T ≤ (b.capacity - b.charge) / (T / 60) := by
  have h1 : 0 ≤ pilot * V / 1000 := by positivity
  have h2 : 0 ≤ (b.capacity - b.charge) / (T / 60) :=
    div_nonneg (sub_nonneg.mpr hb.charge_le) (by positivity)
  unfold idealPower
  refine ⟨le_min (le_min h1 hb.maxp_nonneg) h2, ?_, ?_, min_le_right _ _⟩
  · exact le_trans (min_le_left _ _) (min_le_left _ _)
  · exact le_trans (min_le_left _ _) (min_le_right _ _)

/-! ### stepwise two-stage battery -/

/-- the stepwise calculation's charging power, for the draw `ν` -/
def stepPower (b : Batt K) (pilot V T ν : K) : K :=
  let rtf := (b.capacity - b.charge) / (T / 60)
  let pp := pilot * V / 1000
  let s := b.charge / b.capacity
  if s < b.ts then
    let c := min (min pp b.maxPower) rtf
    if 0 < b.noiseLevel then max (c - |ν|) 0 else c
  else
    let c := min (min pp ((1 - s) / (1 - b.ts) * b.maxPower)) rtf
    if 0 < b.noiseLevel then
      min (min (min (min (min (min (max (c + ν) 0) pp) b.maxPower) rtf) pp) b.maxPower) rtf
    else c

theorem stepCharge_ok (b : Batt K) (pilot ν : K) {V T : K} (hV : 0 < V) (hT : 0 < T)
    (hc : b.capacity ≠ 0) :
    stepCharge b pilot V T ν =
      .ok ({ b with charge := b.charge + stepPower b pilot V T ν * (T / 60),
                    power := stepPower b pilot V T ν },
           stepPower b pilot V T ν * 1000 / V) := by
  unfold stepCharge stepPower
  rw [if_neg (not_le.mpr hV), if_neg (not_le.mpr hT), isZero_false hc]
  simp only [Bool.false_eq_true, if_false, Battery.soc, pyMin3_eq, pyMin4_eq, pyMax_eq_max,
    absK_eq_abs, Nat.cast_ofNat]

theorem stepCharge_err (b : Batt K) (pilot ν : K) {V T : K} (h : V ≤ 0 ∨ T ≤ 0) :
    stepCharge b pilot V T ν = .error .valueError := by
  unfold stepCharge
  rcases h with h | h
  · simp [h]
  · split_ifs <;> rfl

theorem stepPower_bounds {b : Batt K} (hb : Inv b) {pilot V T : K} (ν : K) (hp : 0 ≤ pilot)
    (hV : 0 < V) (hT : 0 < T) :
    0 ≤ stepPower b pilot V T ν ∧ stepPower b pilot V T ν ≤ pilot * V / 1000 ∧
    stepPower b pilot V T ν ≤ b.maxPower ∧
    stepPower b pilot V T ν ≤ (b.capacity - b.charge) / (T / 60) := by
  have h1 : 0 ≤ pilot * V / 1000 := by positivity
  have h2 : 0 ≤ (b.capacity - b.charge) / (T / 60) :=
    div_nonneg (sub_nonneg.mpr hb.charge_le) (by positivity)
  have h3 := hb.maxp_nonneg
  have hs1 : b.charge / b.capacity ≤ 1 := by rw [div_le_one hb.cap_pos]; exact hb.charge_le
  unfold stepPower
  simp only []
  split_ifs with hs hn hn
  · -- constant-power stage, noisy
    have hc0 : 0 ≤ min (min (pilot * V / 1000) b.maxPower) ((b.capacity - b.charge) / (T / 60)) :=
      le_min (le_min h1 h3) h2
    have habs := abs_nonneg ν
    have hle : max (min (min (pilot * V / 1000) b.maxPower) ((b.capacity - b.charge) / (T / 60)) - |ν|) 0 ≤
        min (min (pilot * V / 1000) b.maxPower) ((b.capacity - b.charge) / (T / 60)) :=
      max_le (by linarith) hc0
    refine ⟨le_max_right _ _, le_trans hle ?_, le_trans hle ?_, le_trans hle (min_le_right _ _)⟩
    · exact le_trans (min_le_left _ _) (min_le_left _ _)
    · exact le_trans (min_le_left _ _) (min_le_right _ _)
  · refine ⟨le_min (le_min h1 h3) h2, ?_, ?_, min_le_right _ _⟩
    · exact le_trans (min_le_left _ _) (min_le_left _ _)
    · exact le_trans (min_le_left _ _) (min_le_right _ _)
  · -- declining stage, noisy: clamped explicitly
    refine ⟨?_, ?_, ?_, min_le_right _ _⟩
    · exact le_min (le_min (le_min (le_min (le_min (le_min (le_max_right _ _) h1) h3) h2) h1) h3) h2
    · exact le_trans (min_le_left _ _) (le_trans (min_le_left _ _) (min_le_right _ _))
    · exact le_trans (min_le_left _ _) (min_le_right _ _)
  · -- declining stage, noise-free
    have hts : 0 < 1 - b.ts := by linarith [hb.ts_lt]
    have hf0 : 0 ≤ (1 - b.charge / b.capacity) / (1 - b.ts) := div_nonneg (by linarith) hts.le
    have hf1 : (1 - b.charge / b.capacity) / (1 - b.ts) ≤ 1 := by
      rw [div_le_one hts]; linarith [not_lt.mp hs]
    have hm0 : 0 ≤ (1 - b.charge / b.capacity) / (1 - b.ts) * b.maxPower := mul_nonneg hf0 h3
    have hm1 : (1 - b.charge / b.capacity) / (1 - b.ts) * b.maxPower ≤ b.maxPower := by
      nlinarith
    refine ⟨le_min (le_min h1 hm0) h2, ?_, ?_, min_le_right _ _⟩
    · exact le_trans (min_le_left _ _) (min_le_left _ _)
    · exact le_trans (le_trans (min_le_left _ _) (min_le_right _ _)) hm1

/-! ### continuous two-stage battery: explicit result -/

section cont
variable [HasExp K]

/-- pilot and maximum rate of change of SoC per period (battery.py:235-236) -/
def pd0Of (b : Batt K) (pilot V T : K) : K := pilot * V / 1000 / b.capacity / (60 / T)
def mdOf (b : Batt K) (T : K) : K := b.maxPower / b.capacity / (60 / T)

/-- final SoC of the continuous calculation including the clamped subtractive noise -/
def currOf (b : Batt K) (pilot V T ν : K) : K :=
  let s := b.charge / b.capacity
  let c0 := contSoc s b.ts (pd0Of b pilot V T) (mdOf b T)
  if 0 < b.noiseLevel then max (c0 - |ν * (T / 60) / b.capacity|) s else c0

/-- below full charge the closed form is evaluated -/
theorem contCharge_ok_lt (b : Batt K) (ν : K) {pilot V T : K} (hV : 0 < V) (hT : 0 < T)
    (hp : pilot ≠ 0) (hc : b.capacity ≠ 0) (hm : mdOf b T ≠ 0) (hs : b.charge / b.capacity < 1) :
    contCharge b pilot V T ν =
      .ok ({ b with charge := currOf b pilot V T ν * b.capacity,
                    power := (currOf b pilot V T ν - b.charge / b.capacity) * b.capacity / (T / 60) },
           (currOf b pilot V T ν - b.charge / b.capacity) * b.capacity / (T / 60) * 1000 / V) := by
  unfold mdOf at hm
  simp only [contCharge, currOf, pd0Of, mdOf, not_le.mpr hV, not_le.mpr hT, isZero_false hp,
    isZero_false hc, if_false, Battery.soc, not_le.mpr hs, pyMax_eq_max, absK_eq_abs, Nat.cast_ofNat,
    Bool.false_eq_true]
  rw [isZero_false (by simpa using hm)]
  simp

/-- a full battery (fix F18): the guard returns at once, charge untouched, rate 0 -/
theorem contCharge_full (b : Batt K) (ν : K) {pilot V T : K} (hV : 0 < V) (hT : 0 < T)
    (hp : pilot ≠ 0) (hc : b.capacity ≠ 0) (hs : 1 ≤ b.charge / b.capacity) :
    contCharge b pilot V T ν = .ok ({ b with power := 0 }, 0) := by
  simp only [contCharge, not_le.mpr hV, not_le.mpr hT, isZero_false hp, isZero_false hc, if_false,
    Battery.soc, hs, if_true, Bool.false_eq_true]

/-- the closed form at SoC exactly 1 with a positive pilot stays at 1 -/
theorem currOf_full (b : Batt K) (ν : K) {pilot V T : K} (hV : 0 < V) (hT : 0 < T) (hp : 0 < pilot)
    (hc : 0 < b.capacity) (hmp : 0 < b.maxPower) (hts : b.ts < 1) (hs : b.charge / b.capacity = 1) :
    currOf b pilot V T ν = 1 := by
  have hmd : 0 < mdOf b T := by unfold mdOf; positivity
  have hpd0 : 0 < pd0Of b pilot V T := by unfold pd0Of; positivity
  have hpd : 0 < (if mdOf b T < pd0Of b pilot V T then mdOf b T else pd0Of b pilot V T) := by
    split <;> assumption
  have hpts : ¬ (1 : K) < b.ts + ((if mdOf b T < pd0Of b pilot V T then mdOf b T else pd0Of b pilot V T)
      - mdOf b T) / mdOf b T * (b.ts - 1) := by
    rw [not_lt]
    have h1 : ((if mdOf b T < pd0Of b pilot V T then mdOf b T else pd0Of b pilot V T) - mdOf b T) / mdOf b T
        = (if mdOf b T < pd0Of b pilot V T then mdOf b T else pd0Of b pilot V T) / mdOf b T - 1 := by
      field_simp
    rw [h1]
    have h2 : 0 < (if mdOf b T < pd0Of b pilot V T then mdOf b T else pd0Of b pilot V T) / mdOf b T :=
      div_pos hpd hmd
    nlinarith
  unfold currOf
  simp only [hs, contSoc, hpts, if_false, sub_self, mul_zero, add_zero]
  split
  · rw [max_eq_right]
    have := abs_nonneg (ν * (T / 60) / b.capacity)
    linarith
  · rfl

/-- the explicit result of the continuous calculation for a battery that is not over-full and a
    positive pilot: at SoC 1 the guard of fix F18 and the closed form agree -/
theorem contCharge_ok (b : Batt K) (ν : K) {pilot V T : K} (hV : 0 < V) (hT : 0 < T)
    (hp : 0 < pilot) (hc : 0 < b.capacity) (hmp : 0 < b.maxPower) (hts : b.ts < 1)
    (hle : b.charge ≤ b.capacity) :
    contCharge b pilot V T ν =
      .ok ({ b with charge := currOf b pilot V T ν * b.capacity,
                    power := (currOf b pilot V T ν - b.charge / b.capacity) * b.capacity / (T / 60) },
           (currOf b pilot V T ν - b.charge / b.capacity) * b.capacity / (T / 60) * 1000 / V) := by
  have hmd : 0 < mdOf b T := by unfold mdOf; positivity
  have hs1 : b.charge / b.capacity ≤ 1 := (div_le_one hc).2 hle
  rcases lt_or_eq_of_le hs1 with hs | hs
  · exact contCharge_ok_lt b ν hV hT hp.ne' hc.ne' hmd.ne' hs
  · rw [contCharge_full b ν hV hT hp.ne' hc.ne' hs.ge, currOf_full b ν hV hT hp hc hmp hts hs, hs]
    have hcc : b.charge = b.capacity := by
      have := (div_eq_one_iff_eq hc.ne').1 hs; exact this
    simp [hcc]

theorem contCharge_err (b : Batt K) (pilot ν : K) {V T : K} (h : V ≤ 0 ∨ T ≤ 0) :
    contCharge b pilot V T ν = .error .valueError := by
  unfold contCharge
  rcases h with h | h
  · simp [h]
  · split_ifs <;> rfl

theorem contCharge_zero (b : Batt K) (ν : K) {V T : K} (hV : 0 < V) (hT : 0 < T) :
    contCharge b 0 V T ν = .ok ({ b with power := 0 }, 0) := by
  simp [contCharge, not_le.mpr hV, not_le.mpr hT]

theorem mdOf_pos {b : Batt K} {T : K} (hc : 0 < b.capacity) (hm : 0 < b.maxPower) (hT : 0 < T) :
    0 < mdOf b T := by unfold mdOf; positivity

theorem pd0Of_pos {b : Batt K} {pilot V T : K} (hc : 0 < b.capacity) (hp : 0 < pilot)
    (hV : 0 < V) (hT : 0 < T) : 0 < pd0Of b pilot V T := by unfold pd0Of; positivity

/-- the bounds of one continuous call follow from the SoC-level bounds of the closed form -/
theorem cont_bounds_of_soc {b : Batt K} (hb : Inv b) {pilot V T ν : K} (hV : 0 < V) (hT : 0 < T)
    (hp : 0 < pilot)
    (hsoc : b.charge / b.capacity ≤ contSoc (b.charge / b.capacity) b.ts (pd0Of b pilot V T) (mdOf b T) ∧
      contSoc (b.charge / b.capacity) b.ts (pd0Of b pilot V T) (mdOf b T) - b.charge / b.capacity ≤
        min (pd0Of b pilot V T) (mdOf b T) ∧
      contSoc (b.charge / b.capacity) b.ts (pd0Of b pilot V T) (mdOf b T) ≤ 1) :
    StepBounds b pilot
      { b with charge := currOf b pilot V T ν * b.capacity,
               power := (currOf b pilot V T ν - b.charge / b.capacity) * b.capacity / (T / 60) }
      ((currOf b pilot V T ν - b.charge / b.capacity) * b.capacity / (T / 60) * 1000 / V) := by
  obtain ⟨h1, h2, h3⟩ := hsoc
  have hc := hb.cap_pos
  set s := b.charge / b.capacity with hs
  set c0 := contSoc s b.ts (pd0Of b pilot V T) (mdOf b T) with hc0
  have hcur : s ≤ currOf b pilot V T ν ∧ currOf b pilot V T ν ≤ c0 := by
    unfold currOf; simp only [← hs, ← hc0]
    split_ifs
    · exact ⟨le_max_right _ _, max_le (by linarith [abs_nonneg (ν * (T / 60) / b.capacity)]) h1⟩
    · exact ⟨h1, le_refl _⟩
  set cur := currOf b pilot V T ν
  have hT' : 0 < T / 60 := by positivity
  have hd0 : 0 ≤ cur - s := by linarith [hcur.1]
  have hdp : cur - s ≤ pd0Of b pilot V T := by
    have := min_le_left (pd0Of b pilot V T) (mdOf b T); linarith [hcur.2]
  have hdm : cur - s ≤ mdOf b T := by
    have := min_le_right (pd0Of b pilot V T) (mdOf b T); linarith [hcur.2]
  have hpw0 : 0 ≤ (cur - s) * b.capacity / (T / 60) := by positivity
  have hpw1 : (cur - s) * b.capacity / (T / 60) ≤ pilot * V / 1000 := by
    have : pd0Of b pilot V T * b.capacity / (T / 60) = pilot * V / 1000 := by
      unfold pd0Of; field_simp
    rw [← this]
    exact div_le_div_of_nonneg_right (mul_le_mul_of_nonneg_right hdp hc.le) hT'.le
  have hpw2 : (cur - s) * b.capacity / (T / 60) ≤ b.maxPower := by
    have : mdOf b T * b.capacity / (T / 60) = b.maxPower := by
      unfold mdOf; field_simp
    rw [← this]
    exact div_le_div_of_nonneg_right (mul_le_mul_of_nonneg_right hdm hc.le) hT'.le
  have hr := rate_bounds hV hpw0 hpw1
  have hch : b.charge = s * b.capacity := by rw [hs]; field_simp
  refine ⟨hr.1, hr.2, hpw0, hpw2, ?_, ?_⟩
  · show b.charge ≤ cur * b.capacity
    rw [hch]; exact mul_le_mul_of_nonneg_right hcur.1 hc.le
  · show cur * b.capacity ≤ b.capacity
    have : cur ≤ 1 := le_trans hcur.2 h3
    nlinarith

end cont
end Acn.BattAlg
