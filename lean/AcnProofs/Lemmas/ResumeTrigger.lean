/-
  Helper lemmas for C05 (interrupted / resumed runs and `step()` prefixes, event core):

  * `invoked` is a ghost field: no stage of `EventCore.body` reads it (`body_setInv`, `run_setInv`, for scheduler /
    pilot-application parameters that do not read it either — `Blind`); a period appends `bodyDelta` to it, whatever
    the parameters do (`body_invoked`);
  * MID-PERIOD states: the state the events stage of a period leaves (`eventsStage cfg h = (e1, none)`) — where an
    aborted `run()` and a `step()` call leave the simulator — continues exactly like the loop head `h` it came from
    (`body_mid`, `run_mid`): nothing is due any more, `_resolve` / `_last_schedule_update` carry the request;
  * `resume_invoked`: a run whose scheduler raises in period `k`, continued by a second `run()`: the final state is the
    uninterrupted run's, with period `k` listed TWICE in the invocation record (and nothing else changed);
  * `supply_head`, `run_after_supply`: a `step()` pass (`markScheduled · advance · eventsStage`) leaves a mid-period
    state of the loop head `H` = "period `t + 1`, a schedule was last supplied in period `t`", which satisfies the
    loop-head invariant `Head` once the supplied periods are entered in the ghost record.
-/
import AcnProofs.Lemmas.ResumeInv
import AcnProofs.Lemmas.SchedTrace

namespace Acn.EventCore
open Acn

/-- the scheduler parameter that raises when it is entered in period `k` -/
def failSchedAt (k : Nat) : Core → Option Err := fun c => if c.iter = k then some .schedulerFailed else none

/-- a parameter that does not read the ghost record -/
def Blind (f : Core → Option Err) : Prop := ∀ l c, f (setInv l c) = f c

theorem blind_noFail : Blind noFail := fun _ _ => rfl
theorem blind_failSchedAt (k : Nat) : Blind (failSchedAt k) := fun _ _ => rfl

section
variable {cfg : Cfg}

/-! ### the ghost record -/

theorem processAll_setInv (cfg : Cfg) (l : List Nat) : ∀ (es : List Event) (c : Core),
    processAll cfg es (setInv l c) = (setInv l (processAll cfg es c).1, (processAll cfg es c).2)
  | [], _ => rfl
  | e :: es, c => by
    simp only [processAll, step_setInv]
    rcases step cfg e c with ⟨c2, _ | err⟩ <;> simp only []
    exact processAll_setInv cfg l es c2

theorem eventsStage_setInv (cfg : Cfg) (l : List Nat) (c : Core) :
    eventsStage cfg (setInv l c) = (setInv l (eventsStage cfg c).1, (eventsStage cfg c).2) := by
  unfold eventsStage
  exact processAll_setInv cfg l _ { c with pending := (popCurrent c.iter c.pending).2 }

/-- what one period appends to the invocation record -/
def bodyDelta (cfg : Cfg) (c : Core) : List Nat :=
  match eventsStage cfg c with
  | (c1, none) => if needsSched cfg.maxRecompute c1 then [c.iter] else []
  | (_, some _) => []

/-- … whatever the scheduler and the pilot application do (raise or not) -/
theorem body_invoked (sched apply : Core → Option Err) (c : Core) :
    (body cfg sched apply c).1.invoked = c.invoked ++ bodyDelta cfg c := by
  unfold body bodyDelta
  rcases hes : eventsStage cfg c with ⟨c1, _ | err⟩
  · obtain ⟨h1, h2⟩ := eventsStage_any_facts hes
    simp only []
    by_cases hn : needsSched cfg.maxRecompute c1 = true
    · simp only [hn, if_true]
      rcases sched (markInvoked c1) with _ | e <;> simp only []
      · unfold finish
        rcases apply (markScheduled (markInvoked c1)) with _ | e <;> simp [advance, markScheduled, markInvoked, h1, h2]
      · simp [markInvoked, h1, h2]
    · simp only [hn]
      unfold finish
      rcases apply c1 with _ | e <;> simp [advance, h2]
  · simp [(eventsStage_any_facts hes).2]

theorem mem_bodyDelta {t : Nat} {c : Core} (h : t ∈ bodyDelta cfg c) : t = c.iter := by
  unfold bodyDelta at h
  split at h
  · split at h
    · simpa using h
    · simp at h
  · simp at h

theorem bodyDelta_setInv (l : List Nat) (c : Core) : bodyDelta cfg (setInv l c) = bodyDelta cfg c := by
  unfold bodyDelta
  rw [eventsStage_setInv]
  rcases eventsStage cfg c with ⟨c1, _ | err⟩ <;> rfl

/-- the period body commutes with overwriting the ghost record -/
theorem body_setInv {sched apply : Core → Option Err} (hs : Blind sched) (ha : Blind apply) (l : List Nat) (c : Core) :
    body cfg sched apply (setInv l c) =
      (setInv (l ++ bodyDelta cfg c) (body cfg sched apply c).1, (body cfg sched apply c).2) := by
  unfold body bodyDelta
  rw [eventsStage_setInv]
  rcases hes : eventsStage cfg c with ⟨c1, _ | err⟩
  · have h1 : c1.iter = c.iter := (eventsStage_any_facts hes).1
    simp only []
    have hn : needsSched cfg.maxRecompute (setInv l c1) = needsSched cfg.maxRecompute c1 := rfl
    rw [hn]
    by_cases hn' : needsSched cfg.maxRecompute c1 = true
    · simp only [hn', if_true]
      have e1 : markInvoked (setInv l c1) = setInv (l ++ [c.iter]) (markInvoked c1) := by
        simp [markInvoked, setInv, h1]
      rw [e1, hs]
      rcases sched (markInvoked c1) with _ | e
      · simp only []
        unfold finish
        have e2 : markScheduled (setInv (l ++ [c.iter]) (markInvoked c1)) =
            setInv (l ++ [c.iter]) (markScheduled (markInvoked c1)) := rfl
        rw [e2, ha]
        rcases apply (markScheduled (markInvoked c1)) with _ | e <;> rfl
      · rfl
    · simp only [hn']
      unfold finish
      rw [ha]
      rcases apply c1 with _ | e <;> simp [setInv, advance]
  · simp

/-- whole runs: the record only grows, and the run commutes with overwriting it -/
theorem run_setInv {sched apply : Core → Option Err} (hs : Blind sched) (ha : Blind apply) : ∀ (n : Nat) (c : Core),
    ∃ δ, (run cfg sched apply n c).1.invoked = c.invoked ++ δ ∧ (∀ t ∈ δ, c.iter ≤ t) ∧
      ∀ l, run cfg sched apply n (setInv l c) = (setInv (l ++ δ) (run cfg sched apply n c).1, (run cfg sched apply n c).2)
  | 0, c => ⟨[], by simp [run], by simp, fun l => by simp [run]⟩
  | n + 1, c => by
    by_cases hg : guard c = true
    · have hg' : ∀ l, guard (setInv l c) = true := fun _ => hg
      have hδ1 : ∀ t ∈ bodyDelta cfg c, t = c.iter := fun t ht => mem_bodyDelta ht
      rcases hb : body cfg sched apply c with ⟨c', _ | e⟩
      · obtain ⟨δ, h1, h2, h3⟩ := run_setInv hs ha n c'
        have hinv := body_invoked (cfg := cfg) sched apply c
        rw [hb] at hinv
        simp only [] at hinv
        have hiter : c.iter ≤ c'.iter := by
          have := (body_noFail_of_ok hb)
          unfold body at this
          rcases hes : eventsStage cfg c with ⟨c1, _ | err⟩
          · rw [hes] at this
            simp only [] at this
            have hi := (eventsStage_any_facts hes).1
            split at this
            · simp only [noFail, finish, Prod.mk.injEq, and_true] at this
              rw [← this]; simp [advance, markScheduled, markInvoked, hi]
            · simp only [noFail, finish, Prod.mk.injEq, and_true] at this
              rw [← this]; simp [advance, hi]
          · rw [hes] at this; simp at this
        refine ⟨bodyDelta cfg c ++ δ, ?_, ?_, ?_⟩
        · simp only [run, hg, if_true, hb]; rw [h1, hinv, List.append_assoc]
        · intro t ht
          rcases List.mem_append.1 ht with ht | ht
          · rw [hδ1 t ht]
          · exact le_trans hiter (h2 t ht)
        · intro l
          simp only [run, hg' l, hg, if_true, body_setInv hs ha, hb]
          rw [h3, List.append_assoc]
      · refine ⟨bodyDelta cfg c, ?_, fun t ht => by rw [hδ1 t ht], ?_⟩
        · have hinv := body_invoked (cfg := cfg) sched apply c
          rw [hb] at hinv
          simp only [run, hg, if_true, hb]; exact hinv
        · intro l
          simp only [run, hg' l, hg, if_true, body_setInv hs ha, hb]
    · have hgf : guard c = false := by simpa using hg
      have hg' : ∀ l, guard (setInv l c) = false := fun _ => hgf
      exact ⟨[], by simp [run, hg], by simp, fun l => by simp [run, hg' l, hg]⟩

/-! ### mid-period states -/

theorem eventsStage_of_fresh {c : Core} (h : Fresh c) : eventsStage cfg c = (c, none) := by
  unfold eventsStage
  rw [popCurrent_fresh h]
  rfl

/-- the state the events stage of a period left continues like the loop head it came from -/
theorem body_mid {sched apply : Core → Option Err} {h e1 : Core} (he : eventsStage cfg h = (e1, none))
    (hf : Fresh e1) : body cfg sched apply e1 = body cfg sched apply h := by
  unfold body
  rw [he, eventsStage_of_fresh hf]

theorem run_mid {sched apply : Core → Option Err} {h e1 : Core} (hg : guard h = true)
    (he : eventsStage cfg h = (e1, none)) (hf : Fresh e1) (n : Nat) :
    run cfg sched apply (n + 1) e1 = run cfg sched apply (n + 1) h := by
  have hg1 : guard e1 = true := by
    have := eventsStage_guard (cfg := cfg) hg (by rw [he])
    rw [he] at this
    exact this
  simp only [run, hg, hg1, if_true, body_mid he hf]

/-! ### a scheduler that raises in period `k` -/

theorem body_failSched_ne {apply : Core → Option Err} {k : Nat} {c : Core} (h : c.iter ≠ k) :
    body cfg (failSchedAt k) apply c = body cfg noFail apply c := by
  unfold body
  rcases hes : eventsStage cfg c with ⟨c1, _ | err⟩
  · have h1 : c1.iter = c.iter := (eventsStage_any_facts hes).1
    have : failSchedAt k (markInvoked c1) = none := by
      simp [failSchedAt, markInvoked, h1, h]
    simp only [this, noFail]
  · rfl

theorem body_failSched_eq {apply : Core → Option Err} {k : Nat} {c : Core} (h : c.iter = k) :
    (body cfg (failSchedAt k) apply c = body cfg noFail apply c ∧ bodyDelta cfg c = []) ∨
    ∃ c1, eventsStage cfg c = (c1, none) ∧ needsSched cfg.maxRecompute c1 = true ∧
      body cfg (failSchedAt k) apply c = (markInvoked c1, some .schedulerFailed) := by
  unfold body bodyDelta
  rcases hes : eventsStage cfg c with ⟨c1, _ | err⟩
  · have h1 : c1.iter = c.iter := (eventsStage_any_facts hes).1
    by_cases hn : needsSched cfg.maxRecompute c1 = true
    · right
      refine ⟨c1, rfl, hn, ?_⟩
      have : failSchedAt k (markInvoked c1) = some .schedulerFailed := by
        simp [failSchedAt, markInvoked, h1, h]
      simp only [hn, if_true, this]
    · left
      simp only [hn]
      exact ⟨rfl, rfl⟩
  · left; exact ⟨rfl, rfl⟩

theorem body_ok_next {sched apply : Core → Option Err} {c c' : Core} (hb : body cfg sched apply c = (c', none)) :
    c'.iter = c.iter + 1 ∧ c'.pending = (eventsStage cfg c).1.pending := by
  have := body_noFail_of_ok hb
  unfold body at this
  rcases hes : eventsStage cfg c with ⟨c1, _ | err⟩
  · rw [hes] at this
    simp only [] at this
    have hi := (eventsStage_any_facts hes).1
    split at this
    · simp only [noFail, finish, Prod.mk.injEq, and_true] at this
      rw [← this]; simp [advance, markScheduled, markInvoked, hi]
    · simp only [noFail, finish, Prod.mk.injEq, and_true] at this
      rw [← this]; simp [advance, hi]
  · rw [hes] at this; simp at this

theorem body_noOverdue {sched apply : Core → Option Err} {c c' : Core} (hI : NoOverdue cfg c)
    (hb : body cfg sched apply c = (c', none)) : NoOverdue cfg c' := by
  obtain ⟨h1, h2⟩ := body_ok_next hb
  intro e he hk
  rw [h2] at he
  have := eventsStage_noOverdue hI e he hk
  rw [h1]
  exact this

/-- after period `k` the failing scheduler is the working one -/
theorem run_failSched_gt {apply : Core → Option Err} {k : Nat} : ∀ (n : Nat) {c : Core}, k < c.iter →
    run cfg (failSchedAt k) apply n c = run cfg noFail apply n c
  | 0, _, _ => rfl
  | n + 1, c, h => by
    simp only [run]
    split
    · rw [body_failSched_ne (by omega)]
      rcases hb : body cfg noFail apply c with ⟨c', _ | e⟩ <;> simp only []
      exact run_failSched_gt n (by rw [(body_ok_next hb).1]; omega)
    · rfl

/-- **the invocation record across abort + resume** — from any state satisfying `NoOverdue`, for every period `k` and
    every fuel: either the failure never fires — the run IS the uninterrupted run and period `k` is not among the
    periods it adds to the record — or the run aborts in period `k` with `SchedulerFailed`, having recorded `pre ++ [k]`,
    and a second `run()` on the state the abort left ends in EXACTLY the final state of the uninterrupted run, except
    that the record reads `pre ++ [k] ++ [k] ++ post` where the uninterrupted run's reads `pre ++ [k] ++ post`. -/
theorem resume_invoked (cfg : Cfg) (k : Nat) : ∀ (n : Nat) {c : Core}, NoOverdue cfg c → c.iter ≤ k →
    let r1 := run cfg (failSchedAt k) noFail n c
    let r := run cfg noFail noFail n c
    (r1 = r ∧ ∃ δ, r.1.invoked = c.invoked ++ δ ∧ k ∉ δ) ∨
    (r1.2 = some .schedulerFailed ∧ r1.1.iter = k ∧ Fresh r1.1 ∧
      ∃ pre post, r1.1.invoked = pre ++ [k] ∧ r.1.invoked = pre ++ [k] ++ post ∧ (∀ t ∈ post, k < t) ∧
        run cfg noFail noFail (n - (k - c.iter)) r1.1 = (setInv (pre ++ [k] ++ [k] ++ post) r.1, r.2))
  | 0, c, _, _ => Or.inl ⟨rfl, [], by simp [run], by simp⟩
  | n + 1, c, hI, hk => by
    intro r1 r
    by_cases hg : guard c = true
    · rcases Nat.lt_or_eq_of_le hk with hlt | heq
      · -- before the failing period
        have hb := body_failSched_ne (cfg := cfg) (apply := noFail) (k := k) (c := c) (by omega)
        have hδ : ∀ t ∈ bodyDelta cfg c, t ≠ k := by
          intro t ht
          rw [mem_bodyDelta ht]
          omega
        rcases hbs : body cfg noFail noFail c with ⟨c', _ | e⟩
        · obtain ⟨hi, _⟩ := body_ok_next hbs
          have hinv := body_invoked (cfg := cfg) noFail noFail c
          rw [hbs] at hinv
          simp only [] at hinv
          have e1 : r1 = run cfg (failSchedAt k) noFail n c' := by
            show run cfg (failSchedAt k) noFail (n + 1) c = _
            simp only [run, hg, if_true, hb, hbs]
          have e2 : r = run cfg noFail noFail n c' := by
            show run cfg noFail noFail (n + 1) c = _
            simp only [run, hg, if_true, hbs]
          rcases resume_invoked cfg k n (body_noOverdue hI hbs) (by rw [hi]; omega) with ⟨h1, δ, h2, h3⟩ | ⟨h1, h2, h3, pre, post, h4, h5, h6, h7⟩
          · left
            refine ⟨by rw [e1, e2]; exact h1, bodyDelta cfg c ++ δ, by rw [e2, h2, hinv, List.append_assoc], ?_⟩
            intro hm
            rcases List.mem_append.1 hm with hm | hm
            · exact hδ k hm rfl
            · exact h3 hm
          · right
            have hf : n + 1 - (k - c.iter) = n - (k - c'.iter) := by rw [hi]; omega
            rw [e1, e2, hf]
            exact ⟨h1, h2, h3, pre, post, h4, h5, h6, h7⟩
        · left
          have e1 : r1 = (c', some e) := by
            show run cfg (failSchedAt k) noFail (n + 1) c = _
            simp only [run, hg, if_true, hb, hbs]
          have e2 : r = (c', some e) := by
            show run cfg noFail noFail (n + 1) c = _
            simp only [run, hg, if_true, hbs]
          have hinv := body_invoked (cfg := cfg) noFail noFail c
          rw [hbs] at hinv
          refine ⟨by rw [e1, e2], bodyDelta cfg c, by rw [e2]; exact hinv, fun hm => hδ k hm rfl⟩
      · -- the failing period
        rcases body_failSched_eq (cfg := cfg) (apply := noFail) heq with ⟨hb, hd⟩ | ⟨c1, he, hn, hb⟩
        · left
          rcases hbs : body cfg noFail noFail c with ⟨c', _ | e⟩
          · have hgt := run_failSched_gt (cfg := cfg) (apply := noFail) (k := k) n (c := c') (by rw [(body_ok_next hbs).1]; omega)
            have e1 : r1 = run cfg noFail noFail n c' := by
              show run cfg (failSchedAt k) noFail (n + 1) c = _
              simp only [run, hg, if_true, hb, hbs]; exact hgt
            have e2 : r = run cfg noFail noFail n c' := by
              show run cfg noFail noFail (n + 1) c = _
              simp only [run, hg, if_true, hbs]
            obtain ⟨δ, h1, h2, _⟩ := run_setInv (cfg := cfg) blind_noFail blind_noFail n c'
            have hinv := body_invoked (cfg := cfg) noFail noFail c
            rw [hbs, hd] at hinv
            simp only [List.append_nil] at hinv
            refine ⟨by rw [e1, e2], δ, by rw [e2, h1, hinv], ?_⟩
            intro hm
            have := h2 k hm
            rw [(body_ok_next hbs).1] at this
            omega
          · have e1 : r1 = (c', some e) := by
              show run cfg (failSchedAt k) noFail (n + 1) c = _
              simp only [run, hg, if_true, hb, hbs]
            have e2 : r = (c', some e) := by
              show run cfg noFail noFail (n + 1) c = _
              simp only [run, hg, if_true, hbs]
            have hinv := body_invoked (cfg := cfg) noFail noFail c
            rw [hbs, hd] at hinv
            exact ⟨by rw [e1, e2], [], by rw [e2]; simpa using hinv, by simp⟩
        · right
          have hi1 : c1.iter = c.iter := (eventsStage_any_facts he).1
          have hv1 : c1.invoked = c.invoked := (eventsStage_any_facts he).2
          have hf : Fresh c1 := by
            have := eventsStage_fresh (cfg := cfg) hI
            rw [he] at this
            exact this
          have e1 : r1 = (markInvoked c1, some .schedulerFailed) := by
            show run cfg (failSchedAt k) noFail (n + 1) c = _
            simp only [run, hg, if_true, hb]
          -- the uninterrupted run, seen from the mid-period state `c1`
          have hmid : run cfg noFail noFail (n + 1) c1 = r := run_mid hg he hf n
          obtain ⟨δ, d1, d2, d3⟩ := run_setInv (cfg := cfg) blind_noFail blind_noFail (n + 1) c1
          rw [hmid] at d1 d3
          -- its first period records `k`
          have hfirst : ∃ post, δ = [k] ++ post ∧ ∀ t ∈ post, k < t := by
            have hbody : body cfg noFail noFail c = (advance (markScheduled (markInvoked c1)), none) := by
              unfold body
              rw [he]
              simp only [hn, if_true, noFail, finish]
            obtain ⟨δ', f1, f2, _⟩ := run_setInv (cfg := cfg) blind_noFail blind_noFail n (advance (markScheduled (markInvoked c1)))
            have hr : r = run cfg noFail noFail n (advance (markScheduled (markInvoked c1))) := by
              show run cfg noFail noFail (n + 1) c = _
              simp only [run, hg, if_true, hbody]
            rw [← hr] at f1
            refine ⟨δ', ?_, ?_⟩
            · have : c1.invoked ++ δ = c1.invoked ++ ([k] ++ δ') := by
                rw [← d1, f1]
                simp [advance, markScheduled, markInvoked, hi1, heq]
              exact List.append_cancel_left this
            · intro t ht
              have := f2 t ht
              simp only [advance, markScheduled, markInvoked] at this
              omega
          obtain ⟨post, hδ, hpost⟩ := hfirst
          have hsub : n + 1 - (k - c.iter) = n + 1 := by omega
          refine ⟨by rw [e1], by rw [e1]; show c1.iter = k; rw [hi1, heq], by rw [e1]; exact hf,
            c.invoked, post, ?_, ?_, hpost, ?_⟩
          · rw [e1]; simp [markInvoked, hv1, hi1, heq]
          · rw [d1, hδ, hv1]; simp
          · rw [e1, hsub]
            have : markInvoked c1 = setInv (c.invoked ++ [k]) c1 := by
              simp [markInvoked, setInv, hv1, hi1, heq]
            simp only []
            rw [this, d3, hδ]
            simp
    · left
      have e1 : r1 = (c, none) := by
        show run cfg (failSchedAt k) noFail (n + 1) c = _
        simp only [run, hg]; rfl
      have e2 : r = (c, none) := by
        show run cfg noFail noFail (n + 1) c = _
        simp only [run, hg]; rfl
      exact ⟨by rw [e1, e2], [], by rw [e2]; simp, by simp⟩

/-! ### a `step()` pass -/

/-- the event-core content of one pass of `Simulator.step()` (`Sim.stepPass_core`): the schedule handed in is written
    for the current period (`markScheduled`), the period is simulated (`advance`), the events of the NEXT period are
    applied -/
def supplyPass (cfg : Cfg) (c : Core) : Core × Option Err := eventsStage cfg (advance (markScheduled c))

/-- the loop head of the period that follows a pass — with the periods in which a schedule was supplied so far
    (`sup`, then the pass's own period) entered in the ghost record — satisfies the loop-head invariant of `run()` -/
theorem supply_head (c : Core) (sup : List Nat) (hs : sup.Pairwise (· < ·)) (hlt : ∀ t ∈ sup, t < c.iter) :
    Head (setInv (sup ++ [c.iter]) (advance (markScheduled c))) := by
  refine ⟨rfl, ?_, ?_, ?_⟩
  · simp [setInv, advance, markScheduled]
  · intro t ht
    simp only [setInv, advance, markScheduled, List.mem_append, List.mem_singleton] at ht ⊢
    rcases ht with ht | ht
    · have := hlt t ht; omega
    · omega
  · simp only [setInv]
    rw [List.pairwise_append]
    refine ⟨hs, by simp, ?_⟩
    intro a ha b hb
    simp at hb; subst hb
    exact hlt a ha

/-- a state in which nothing is due, after the pass has moved on by one period, satisfies `NoOverdue` -/
theorem noOverdue_after_supply {c : Core} (hI : NoOverdue cfg c) (hf : Fresh c) :
    NoOverdue cfg (advance (markScheduled c)) := by
  intro e he hk
  have h1 := hf e he
  have h2 := (hI e he hk).2
  refine ⟨?_, h2⟩
  simp only [advance, markScheduled]
  push_cast
  omega

/-- **the `run()` that follows a `step()` pass** invokes the scheduler exactly where a `run()` started at the loop
    head `H` (period `t + 1`, schedule last supplied in period `t`) invokes it: the two runs end in the same state, the
    record of the former being the pass's record followed by the periods `δ` the latter adds.  `H` satisfies `Head`
    (`supply_head`), so the trigger theorems (`invoked_iff`, …) decide `δ`. -/
theorem run_after_supply {sched apply : Core → Option Err} (hs : Blind sched) (ha : Blind apply) {c c' : Core}
    (hI : NoOverdue cfg (advance (markScheduled c))) (hp : guard (advance (markScheduled c)) = true)
    (hpass : supplyPass cfg c = (c', none)) (sup : List Nat) (n : Nat) :
    ∃ δ, (run cfg sched apply (n + 1) (setInv (sup ++ [c.iter]) (advance (markScheduled c)))).1.invoked = (sup ++ [c.iter]) ++ δ ∧
      (∀ t ∈ δ, c.iter + 1 ≤ t) ∧
      run cfg sched apply (n + 1) c' =
        (setInv (c.invoked ++ δ) (run cfg sched apply (n + 1) (setInv (sup ++ [c.iter]) (advance (markScheduled c)))).1,
         (run cfg sched apply (n + 1) (setInv (sup ++ [c.iter]) (advance (markScheduled c)))).2) := by
  unfold supplyPass at hpass
  have hf : Fresh c' := by
    have := eventsStage_fresh (cfg := cfg) hI
    rw [hpass] at this
    exact this
  have hmid := run_mid (sched := sched) (apply := apply) hp hpass hf n
  obtain ⟨δ, d1, d2, d3⟩ := run_setInv (cfg := cfg) hs ha (n + 1) (advance (markScheduled c))
  refine ⟨δ, ?_, ?_, ?_⟩
  · rw [d3]; rfl
  · intro t ht
    have := d2 t ht
    simpa [advance, markScheduled] using this
  · rw [hmid, d3 (sup ++ [c.iter])]
    have hself : advance (markScheduled c) = setInv c.invoked (advance (markScheduled c)) := rfl
    conv_lhs => rw [hself]
    rw [d3 c.invoked]
    rfl

/-! ### the constructor's state -/

/-- in a valid scenario nothing is overdue initially (own copy of C09's `init_noOverdue`, whose lemma family
    cannot be imported next to C05's) -/
theorem init_noOverdue_valid (hv : Valid cfg) : NoOverdue cfg (init cfg) := by
  intro e he hk
  simp only [init, initPending, List.mem_append, List.mem_map] at he
  rcases he with ⟨x, hx, rfl⟩ | ⟨r, _, rfl⟩
  · refine ⟨by show ((0 : Nat) : Int) ≤ x.arrival; have := hv.arr_nonneg x hx; omega, ?_⟩
    intro y hy
    unfold findSession at hy
    have hy' : y ∈ cfg.sessions := List.mem_of_find?_eq_some hy
    have hid : y.id = x.id := by
      have := List.find?_some hy
      simpa [plugEv] using this
    have : y = x := List.inj_on_of_nodup_map hv.ids_nodup hy' hx hid
    subst this
    exact hv.arr_lt_dep y hx
  · simp [recEv] at hk

end
end Acn.EventCore
