/-
  Consequences of C07's per-call guarantees inside the shared simulator model (`AcnModel/Sim.lean`):
  a pilot of the shape `pilot_accepted_*` proves is accepted by `EVSE.set_pilot`, so `applyStage`
  raises no `InvalidRateError`; a pilot within the remaining demand (`le_remaining_*`) keeps
  `energy_delivered ≤ requested_energy` through `EV.charge` (uses C03's `ev_rate_le_pilot`).
-/
import AcnModel.Sim
import AcnProofs.C03
import AcnProofs.Lemmas.SortedBasic

set_option linter.unusedSectionVars false

namespace Acn.Sorted
open Acn Acn.Evse

section
variable {K : Type} [Field K] [LinearOrder K] [IsStrictOrderedRing K] [HasExp K]

/-- the shape of a pilot that C07's `pilot_accepted_*` / `zero_for_inactive_*` establish, per EVSE
    class: continuous-from-zero — within `[0, max]`; finite — one of the (normalised, 0-containing)
    levels; deadband stations only ever see 0 from these theorems (vacant stations) -/
def Accepts : Evse.Kind K → K → Prop
  | .cont mn mx, p => mn ≤ 0 ∧ 0 ≤ p ∧ (match mx with | none => True | some m => p ≤ m)
  | .finite rates, p => p ∈ rates
  | .deadband _ _, p => p = 0

theorem validRate_of_accepts (atol fa : K) (ha : 0 ≤ atol) (hf : 0 ≤ fa) (k : Evse.Kind K) (p : K)
    (h : Accepts k p) : validRate atol fa k p = true := by
  cases k with
  | cont mn mx =>
    obtain ⟨h1, h2, h3⟩ := h
    cases mx with
    | none => simp [validRate, leBound]; linarith
    | some m => simp [validRate, leBound]; constructor <;> linarith
  | deadband db mx =>
    simp only [Accepts] at h
    subst h
    simp [validRate, isclose0, ha]
  | finite rates =>
    simp only [Accepts] at h
    simp only [validRate, List.any_eq_true]
    exact ⟨p, h, by simp [isclose0, hf]⟩

/-- `EVSE.set_pilot` does not raise `InvalidRateError` on such a pilot -/
theorem setPilot_not_invalidRate (atol fa : K) (ha : 0 ≤ atol) (hf : 0 ≤ fa) (e : Evse.Evse K)
    (p V T ν : K) (h : Accepts e.kind p) :
    Evse.setPilot atol fa e p V T ν ≠ .error .invalidRate := by
  unfold Evse.setPilot
  rw [validRate_of_accepts atol fa ha hf e.kind p h]
  simp only [if_true]
  split
  · simp
  · split <;> simp

/-- the tolerances of a simulation are non-negative (they are 1e-3 in the source, `Gen.Consts`) -/
def TolOk (cfg : Sim.Cfg K) : Prop := 0 ≤ cfg.atolCont ∧ 0 ≤ cfg.atolDeadband ∧ 0 ≤ cfg.atolFinite

theorem atolOf_nonneg (cfg : Sim.Cfg K) (h : TolOk cfg) (k : Evse.Kind K) : 0 ≤ Sim.atolOf cfg k := by
  cases k <;> simp [Sim.atolOf, h.1, h.2.1, h.2.2]

/-- one station: no `InvalidRate`, and the pilot matrix / core are untouched -/
theorem setPilotAt_spec (cfg : Sim.Cfg K) (htol : TolOk cfg) (s : Sim.State K) (i : Nat)
    (st : Sim.Station K) (h : Accepts st.kind (s.pilots.get i s.core.iter)) :
    (Sim.setPilotAt cfg s i st).2 ≠ some .invalidRate ∧
    (Sim.setPilotAt cfg s i st).1.pilots = s.pilots ∧ (Sim.setPilotAt cfg s i st).1.core = s.core := by
  have hne := setPilot_not_invalidRate (Sim.atolOf cfg st.kind) cfg.atolFinite
    (atolOf_nonneg cfg htol st.kind) htol.2.2
    { station := st.id, kind := st.kind, pilot := s.evsePilot.getD i 0, ev := Sim.occupantEv s st.id }
    (s.pilots.get i s.core.iter) st.voltage cfg.period (Sim.noiseAt cfg s.noiseIdx) h
  unfold Sim.setPilotAt
  simp only
  split
  · rename_i heq; exact absurd heq hne
  · exact ⟨by simp, rfl, rfl⟩
  · exact ⟨by simp, rfl, rfl⟩

theorem updatePilotsFrom_not_invalidRate (cfg : Sim.Cfg K) (htol : TolOk cfg) :
    ∀ (rest : List (Sim.Station K)) (i : Nat) (s : Sim.State K),
      (∀ k st, rest[k]? = some st → Accepts st.kind (s.pilots.get (i + k) s.core.iter)) →
      (Sim.updatePilotsFrom cfg i rest s).2 ≠ some .invalidRate := by
  intro rest
  induction rest with
  | nil => intro i s _; simp [Sim.updatePilotsFrom]
  | cons st rest ih =>
    intro i s h
    obtain ⟨h1, h2, h3⟩ := setPilotAt_spec cfg htol s i st (by simpa using h 0 st (by simp))
    unfold Sim.updatePilotsFrom
    split
    · rename_i s' heq
      have hs' : s' = (Sim.setPilotAt cfg s i st).1 := by rw [heq]
      apply ih (i + 1) s'
      intro k st' hk
      rw [hs', h2, h3]
      have := h (k + 1) st' (by simpa using hk)
      rwa [show i + 1 + k = i + (k + 1) by omega]
    · rename_i s' e heq
      have : (Sim.setPilotAt cfg s i st).2 = some e := by rw [heq]
      intro hcon
      simp only [Option.some.injEq] at hcon
      rw [hcon] at this
      exact h1 this

theorem storeRates_not_invalidRate (cfg : Sim.Cfg K) (w : Nat) (s : Sim.State K) :
    (Sim.storeRates cfg w s).2 ≠ some .invalidRate := by
  unfold Sim.storeRates
  simp only
  split
  · simp
  · split <;> simp

/-- `applyStage` (widen, `network.update_pilots`, store rates, advance) raises no
    `InvalidRateError` when every station's pilot of the current period has the accepted shape -/
theorem applyStage_not_invalidRate (cfg : Sim.Cfg K) (htol : TolOk cfg) (s : Sim.State K)
    (h : ∀ k st, cfg.stations[k]? = some st →
      Accepts st.kind ((Sim.widen s).pilots.get k (Sim.widen s).core.iter)) :
    (Sim.applyStage cfg s).2 ≠ some .invalidRate := by
  have hup := updatePilotsFrom_not_invalidRate cfg htol cfg.stations 0 (Sim.widen s)
    (by intro k st hk; rw [Nat.zero_add]; exact h k st hk)
  unfold Sim.applyStage
  split
  · simp
  · split
    · rename_i s2 e heq
      have : (Sim.updatePilots cfg (Sim.widen s)).2 = some e := by rw [heq]
      intro hcon
      simp only [Option.some.injEq] at hcon
      rw [hcon] at this
      exact hup this
    · split
      · rename_i s2 _ _ s3 e heq
        have : (Sim.storeRates cfg (Sim.widthInc s) s2).2 = some e := by rw [heq]
        intro hcon
        simp only [Option.some.injEq] at hcon
        rw [hcon] at this
        exact storeRates_not_invalidRate cfg _ _ this
      · simp

end

/-! ### the energy ledger (ℝ: `Battery.charge` dispatches to the exponential law) -/

/-- `EV.charge` with a non-negative pilot that does not exceed the remaining demand in
    amp-periods keeps `energy_delivered ≤ requested_energy` -/
theorem charge_le_requested {e e' : Ev ℝ} (hb : BattAlg.Inv e.batt) {pilot V T ν : ℝ}
    (hp : 0 ≤ pilot) (hV : 0 < V) (hT : 0 < T)
    (hrem : pilot ≤ (e.requested - e.delivered) * 1000 / V * 60 / T)
    (h : e.charge pilot V T ν = .ok e') :
    e'.delivered ≤ e.requested ∧ e'.requested = e.requested ∧ e.delivered ≤ e'.delivered ∧
    BattAlg.Inv e'.batt := by
  obtain ⟨h0, h1, h2, h3, h4⟩ := Acn.C03.ev_rate_le_pilot hb hp h
  have hreq : e'.requested = e.requested := by
    unfold Ev.charge at h
    split at h
    · cases h
    · cases h; rfl
  refine ⟨?_, hreq, h2, h4⟩
  rw [h3]
  have hk : 0 < V / 1000 * (T / 60) := by positivity
  have h5 : e'.rate * (V / 1000 * (T / 60)) ≤ pilot * (V / 1000 * (T / 60)) :=
    mul_le_mul_of_nonneg_right h1 (le_of_lt hk)
  have h6 : pilot * (V / 1000 * (T / 60)) ≤
      ((e.requested - e.delivered) * 1000 / V * 60 / T) * (V / 1000 * (T / 60)) :=
    mul_le_mul_of_nonneg_right hrem (le_of_lt hk)
  have h7 : ((e.requested - e.delivered) * 1000 / V * 60 / T) * (V / 1000 * (T / 60)) =
      e.requested - e.delivered := by
    field_simp
  have h8 : e'.rate * V / 1000 * (T / 60) = e'.rate * (V / 1000 * (T / 60)) := by ring
  linarith

end Acn.Sorted

namespace Acn.Sorted
open Acn Acn.Evse

/-- per-EV ledger invariant -/
def LedgerOk (e : Ev ℝ) : Prop := BattAlg.Inv e.batt ∧ e.delivered ≤ e.requested

theorem charge_session {e e' : Ev ℝ} {pilot V T ν : ℝ} (h : e.charge pilot V T ν = .ok e') :
    e'.session = e.session := by
  unfold Ev.charge at h
  split at h
  · cases h
  · cases h; rfl

theorem find_replace_ne (evs : List (Ev ℝ)) (e' : Ev ℝ) (id : String) (h : e'.session ≠ id) :
    (Sim.replaceEv evs e').find? (fun d => d.session == id) = evs.find? (fun d => d.session == id) := by
  induction evs with
  | nil => rfl
  | cons d t ih =>
    unfold Sim.replaceEv at ih ⊢
    simp only [List.map_cons]
    by_cases hd : d.session = e'.session
    · have h1 : (d.session == e'.session) = true := by simpa using hd
      have h2 : (e'.session == id) = false := by simpa using h
      have h3 : (d.session == id) = false := by rw [hd]; exact h2
      simp only [h1, if_true, List.find?_cons, h2, h3]
      exact ih
    · have h1 : (d.session == e'.session) = false := by simpa using hd
      simp only [h1, Bool.false_eq_true, if_false, List.find?_cons]
      cases hdi : (d.session == id)
      · exact ih
      · rfl

/-- one station of `update_pilots`: the ledger invariant of every EV record survives, provided the
    occupant's pilot is non-negative and within its remaining demand in amp-periods -/
theorem setPilotAt_ledger (cfg : Sim.Cfg ℝ) (s : Sim.State ℝ) (i : Nat) (st : Sim.Station ℝ)
    (hV : 0 < st.voltage) (hT : 0 < cfg.period)
    (hinv : ∀ e ∈ s.evs, LedgerOk e)
    (hp : ∀ e, Sim.occupantEv s st.id = some e →
      0 ≤ s.pilots.get i s.core.iter ∧
      s.pilots.get i s.core.iter ≤ (e.requested - e.delivered) * 1000 / st.voltage * 60 / cfg.period) :
    (∀ e ∈ (Sim.setPilotAt cfg s i st).1.evs, LedgerOk e) ∧
    (∀ id, (∀ e, Sim.occupantEv s st.id = some e → e.session ≠ id) →
      Sim.evOf (Sim.setPilotAt cfg s i st).1 id = Sim.evOf s id) := by
  unfold Sim.setPilotAt
  simp only
  split
  · exact ⟨hinv, fun _ _ => rfl⟩
  · exact ⟨hinv, fun _ _ => rfl⟩
  · rename_i evse' hset
    unfold Evse.setPilot at hset
    split at hset
    · cases hocc : Sim.occupantEv s st.id with
      | none =>
        rw [hocc] at hset
        simp only at hset
        cases hset
        exact ⟨by simpa [hocc] using hinv, fun _ _ => by simp [Sim.evOf]⟩
      | some e =>
        rw [hocc] at hset
        simp only at hset
        split at hset
        · cases hset
        · rename_i e' hch
          cases hset
          have hmem : e ∈ s.evs := by
            unfold Sim.occupantEv at hocc
            split at hocc
            · exact List.mem_of_find?_eq_some hocc
            · cases hocc
          obtain ⟨h1, h2, h3, h4⟩ := charge_le_requested (hinv e hmem).1 (hp e hocc).1 hV hT (hp e hocc).2 hch
          constructor
          · intro d hd
            simp only at hd
            unfold Sim.replaceEv at hd
            obtain ⟨d0, hd0, rfl⟩ := List.mem_map.mp hd
            split
            · exact ⟨h4, by rw [h2]; exact h1⟩
            · exact hinv d0 hd0
          · intro id hne
            simp only [Sim.evOf]
            exact find_replace_ne s.evs e' id (by rw [charge_session hch]; exact hne e rfl)
    · cases hset

theorem setPilotAt_frame (cfg : Sim.Cfg ℝ) (s : Sim.State ℝ) (i : Nat) (st : Sim.Station ℝ) :
    (Sim.setPilotAt cfg s i st).1.pilots = s.pilots ∧ (Sim.setPilotAt cfg s i st).1.core = s.core := by
  unfold Sim.setPilotAt
  simp only
  split <;> exact ⟨rfl, rfl⟩

theorem occupant_session (s : Sim.State ℝ) (st : String) (e : Ev ℝ) (h : Sim.occupantEv s st = some e) :
    ∃ x, s.core.occ st = some x ∧ e.session = x.id := by
  unfold Sim.occupantEv at h
  split at h
  · rename_i x hx
    refine ⟨x, hx, ?_⟩
    have := List.find?_some h
    simpa using this
  · cases h

/-- the remaining demand of an EV in amp-periods at its station (interface.py:569-588) -/
noncomputable def rapEv (cfg : Sim.Cfg ℝ) (st : Sim.Station ℝ) (e : Ev ℝ) : ℝ :=
  (e.requested - e.delivered) * 1000 / st.voltage * 60 / cfg.period

/-- the whole `network.update_pilots` of one period keeps the ledger invariant of every EV record
    (`delivered ≤ requested`, battery invariant), provided every occupied station's pilot is
    non-negative and within its occupant's remaining demand, and occupants are distinct sessions -/
theorem updatePilotsFrom_ledger (cfg : Sim.Cfg ℝ) (hT : 0 < cfg.period) :
    ∀ (rest : List (Sim.Station ℝ)) (i : Nat) (s : Sim.State ℝ),
      (∀ st ∈ rest, 0 < st.voltage) →
      (∀ e ∈ s.evs, LedgerOk e) →
      rest.Pairwise (fun a b => ∀ x y, s.core.occ a.id = some x → s.core.occ b.id = some y → x.id ≠ y.id) →
      (∀ k st, rest[k]? = some st → ∀ e, Sim.occupantEv s st.id = some e →
        0 ≤ s.pilots.get (i + k) s.core.iter ∧ s.pilots.get (i + k) s.core.iter ≤ rapEv cfg st e) →
      ∀ e ∈ (Sim.updatePilotsFrom cfg i rest s).1.evs, LedgerOk e := by
  intro rest
  induction rest with
  | nil => intro i s _ hinv _ _; simpa [Sim.updatePilotsFrom] using hinv
  | cons st rest ih =>
    intro i s hV hinv hpw hp
    rw [List.pairwise_cons] at hpw
    obtain ⟨hl, hev⟩ := setPilotAt_ledger cfg s i st (hV st List.mem_cons_self) hT hinv
      (by intro e he; simpa [rapEv] using hp 0 st (by simp) e he)
    obtain ⟨hf1, hf2⟩ := setPilotAt_frame cfg s i st
    unfold Sim.updatePilotsFrom
    split
    · rename_i s' heq
      have hs' : s' = (Sim.setPilotAt cfg s i st).1 := by rw [heq]
      have hocc' : ∀ st' ∈ rest, Sim.occupantEv s' st'.id = Sim.occupantEv s st'.id := by
        intro st' hst'
        unfold Sim.occupantEv
        rw [hs', hf2]
        cases hy : s.core.occ st'.id with
        | none => rfl
        | some y =>
          simp only
          apply hev y.id
          intro e he
          obtain ⟨x, hx, hex⟩ := occupant_session s st.id e he
          rw [hex]
          exact hpw.1 st' hst' x y hx hy
      apply ih (i + 1) s' (fun a ha => hV a (List.mem_cons_of_mem _ ha)) (by rw [hs']; exact hl)
      · rw [hs', hf2]; exact hpw.2
      · intro k st' hk e he
        have hmem : st' ∈ rest := List.mem_of_getElem? hk
        rw [hocc' st' hmem] at he
        have := hp (k + 1) st' (by simpa using hk) e he
        rw [hs', hf1, hf2, show i + 1 + k = i + (k + 1) by omega]
        exact this
    · rename_i s' e heq
      have hs' : s' = (Sim.setPilotAt cfg s i st).1 := by rw [heq]
      rw [hs']; exact hl

end Acn.Sorted
