/-
  The queue half of the C01 invariant for an ARBITRARY charging network (and queue).

  `bodyG ops net` (`AcnModel/EventCoreG.lean`) is the run loop with the network operations as a
  parameter.  If the network never raises on the scenario's sessions (`NetOps.NoFail`; e.g. a
  stochastic network, which assigns the spaces itself), then the queue/history half of the
  invariant is preserved and the run terminates — under `ValidQ` only: distinct ids/tags,
  `0 ≤ arrival < departure`, recomputes ≥ 0, and NO per-station non-overlap clause.
  (Used by C19: `eventCore_history_wellFormed` composes with `history_sorted_any_network` /
  `history_complete_any_network` of `AcnProofs/C01.lean`.)

  Technique: `relabel cfg` gives every session a private station; it satisfies the full `Valid`
  whenever `cfg` satisfies `ValidQ`, and has the same events, so all lemmas about `Expected`,
  `Done`, `Cur`, `HistOK`, `PendOK` are reused as they are.

  Also: with `chargingNet` and `canonQ` the generalised loop IS the loop of `EventCore.lean`.
-/
import AcnModel.EventCoreG
import AcnProofs.Lemmas.EventCoreQueue

namespace Acn.EventCore
open Acn

/-- `Valid` without registered stations and without per-station non-overlap -/
structure ValidQ (cfg : Cfg) : Prop where
  ids_nodup : (cfg.sessions.map (·.id)).Nodup
  tags_nodup : (cfg.recomputes.map (·.2)).Nodup
  arr_nonneg : ∀ x ∈ cfg.sessions, 0 ≤ x.arrival
  arr_lt_dep : ∀ x ∈ cfg.sessions, x.arrival < x.departure
  rec_nonneg : ∀ r ∈ cfg.recomputes, 0 ≤ r.1

theorem Valid.toQ {cfg : Cfg} (hv : Valid cfg) : ValidQ cfg :=
  ⟨hv.ids_nodup, hv.tags_nodup, hv.arr_nonneg, hv.arr_lt_dep, hv.rec_nonneg⟩

/-- the session on a station of its own -/
def own (x : Session) : Session := { x with station := x.id }

/-- the same scenario with one private station per session -/
def relabel (cfg : Cfg) : Cfg :=
  { cfg with stations := cfg.sessions.map (·.id), sessions := cfg.sessions.map own }

theorem valid_relabel {cfg : Cfg} (hq : ValidQ cfg) : Valid (relabel cfg) := by
  have hid : (cfg.sessions.map own).map (·.id) = cfg.sessions.map (·.id) := by
    simp [List.map_map, Function.comp_def, own]
  refine ⟨by simpa [relabel, hid] using hq.ids_nodup, hq.tags_nodup, ?_, ?_, ?_, ?_, hq.rec_nonneg⟩
  · intro x' hx'
    obtain ⟨x, hx, rfl⟩ := List.mem_map.1 hx'
    exact List.mem_map.2 ⟨x, hx, rfl⟩
  · intro x' hx'; obtain ⟨x, hx, rfl⟩ := List.mem_map.1 hx'; exact hq.arr_nonneg x hx
  · intro x' hx'; obtain ⟨x, hx, rfl⟩ := List.mem_map.1 hx'; exact hq.arr_lt_dep x hx
  · intro x' hx' y' hy' hne hst
    obtain ⟨x, hx, rfl⟩ := List.mem_map.1 hx'
    obtain ⟨y, hy, rfl⟩ := List.mem_map.1 hy'
    exfalso
    have hxy : x = y := List.inj_on_of_nodup_map hq.ids_nodup hx hy hst
    exact hne (by rw [hxy])

theorem findSession_eqQ {cfg : Cfg} (hq : ValidQ cfg) {x : Session} (hx : x ∈ cfg.sessions) :
    findSession cfg x.id = some x := by
  unfold findSession
  rcases h : cfg.sessions.find? (fun y => y.id == x.id) with _ | y
  · rw [List.find?_eq_none] at h
    have := h x hx
    simp at this
  · have hy := List.mem_of_find?_eq_some h
    have hid := List.find?_some h
    simp only [beq_iff_eq] at hid
    rw [h, List.inj_on_of_nodup_map hq.ids_nodup hy hx hid]

theorem horizon_relabel (cfg : Cfg) : horizon (relabel cfg) = horizon cfg := by
  simp [horizon, maxTs, tsList, relabel, List.map_map, Function.comp_def, own]

/-- the network never raises on the scenario's sessions, given its representation invariant `P` -/
structure NetOps.NoFail {σ : Type} (net : NetOps σ) (cfg : Cfg) (P : σ → Prop) : Prop where
  plugin : ∀ s, ∀ x ∈ cfg.sessions, P s → (net.plugin s x).2 = none ∧ P (net.plugin s x).1
  unplug : ∀ s, ∀ x ∈ cfg.sessions, P s → (net.unplug s x).2 = none ∧ P (net.unplug s x).1

/-- the queue/history half of the loop invariant (no statement about the network state) -/
structure InvG (cfg : Cfg) (t : Nat) (c : Core) : Prop where
  iter : c.iter = t
  pend_nodup : c.pending.Nodup
  pend_mem : ∀ e, e ∈ c.pending ↔ Expected (relabel cfg) t e
  resolve : c.resolve = false
  hist_nodup : c.eventHist.Nodup
  hist_mem : ∀ e, e ∈ c.eventHist ↔ Done (relabel cfg) t e
  hist_sorted : c.eventHist.Pairwise (fun a b => a.keyLe b = true)
  evh : EvhOK c

theorem Inv.toG {cfg : Cfg} {t : Nat} {c : Core} (h : Inv (relabel cfg) t c) : InvG cfg t c :=
  ⟨h.iter, h.pend_nodup, h.pend_mem, h.resolve, h.hist_nodup, h.hist_mem, h.hist_sorted, h.evh⟩

/-- at the horizon the occupancy clause of `Inv` is vacuous for the all-vacant map: the queue half
    is the whole invariant, so the final-state theorems of C01 apply -/
theorem InvG.toInv_at_horizon {cfg : Cfg} {c : Core} (h : InvG cfg (horizon cfg) c) :
    Inv (relabel cfg) (horizon (relabel cfg)) { c with occ := fun _ => none } := by
  rw [horizon_relabel]
  refine ⟨h.iter, h.pend_nodup, h.pend_mem, ?_, h.resolve, h.hist_nodup, h.hist_mem, h.hist_sorted, h.evh⟩
  intro st x
  constructor
  · intro h'; exact absurd h' (by simp)
  · rintro ⟨hx, _, _, hd⟩
    have := (dep_le_maxTs hx)
    have hm := neg_one_le_maxTs (relabel cfg)
    rw [← horizon_relabel] at hd
    unfold horizon at hd
    omega

section
variable {σ : Type} {cfg : Cfg} {ops : QOps} {good : List Event → Prop} {net : NetOps σ} {P : σ → Prop}

theorem stepG_plugin (hq : ValidQ cfg) {x : Session} (hx : x ∈ cfg.sessions) (g : CoreG σ) (n' : σ)
    (hn : net.plugin g.net x = (n', none)) :
    stepG ops net cfg (plugEv x) g =
      ({ core := { g.core with eventHist := g.core.eventHist ++ [plugEv x],
                               evHist := g.core.evHist ++ [x.id],
                               pending := ops.push g.core.pending (unplugEv x), resolve := true,
                               lastUpd := some x.arrival },
         net := n' }, none) := by
  simp [stepG, processG, plugEv, findSession_eqQ hq hx, hn]

theorem stepG_unplug (hq : ValidQ cfg) {x : Session} (hx : x ∈ cfg.sessions) (g : CoreG σ) (n' : σ)
    (hn : net.unplug g.net x = (n', none)) :
    stepG ops net cfg (unplugEv x) g =
      ({ core := { g.core with eventHist := g.core.eventHist ++ [unplugEv x], resolve := true,
                               lastUpd := some x.departure },
         net := n' }, none) := by
  simp [stepG, processG, unplugEv, findSession_eqQ hq hx, hn]

theorem stepG_rec (r : Int × String) (g : CoreG σ) :
    stepG ops net cfg (recEv r) g =
      ({ g with core := { g.core with eventHist := g.core.eventHist ++ [recEv r], resolve := true } }, none) := by
  simp [stepG, processG, recEv]

theorem processAllG_ok (hq : ValidQ cfg) (hops : ops.Ok good) (hnet : net.NoFail cfg P) (t : Int) :
    ∀ (todo : List Event) (g : CoreG σ),
    todo.Nodup → todo.Pairwise (fun a b => a.keyLe b = true) → (∀ e ∈ todo, Cur (relabel cfg) t e) →
    HistOK (relabel cfg) t todo g.core.eventHist → PendOK (relabel cfg) t todo g.core.pending →
    EvhOK g.core → good g.core.pending → P g.net →
    ∃ g', processAllG ops net cfg todo g = (g', none) ∧ g'.core.iter = g.core.iter ∧
      HistOK (relabel cfg) t [] g'.core.eventHist ∧ PendOK (relabel cfg) t [] g'.core.pending ∧
      EvhOK g'.core ∧ good g'.core.pending ∧ P g'.net := by
  have hv' := valid_relabel hq
  intro todo
  induction todo with
  | nil =>
    intro g _ _ _ hH hP hE hG hN
    exact ⟨g, rfl, rfl, hH, hP, hE, hG, hN⟩
  | cons e rest ih =>
    intro g hn hs hc hH hP hE hG hN
    have hn' := (List.nodup_cons.1 hn).2
    have hs' := (List.pairwise_cons.1 hs).2
    have hc' : ∀ e ∈ rest, Cur (relabel cfg) t e := fun d hd => hc d (List.mem_cons_of_mem _ hd)
    have hcur := hc e (by simp)
    have hH' := hH.step hn hs hcur
    rcases hcur with ⟨x', hx', rfl, hxa⟩ | ⟨x', hx', rfl, hxa, hxd⟩ | ⟨r, hr, rfl, hrt⟩
    · obtain ⟨x, hx, rfl⟩ := List.mem_map.1 hx'
      obtain ⟨hnf, hnp⟩ := hnet.plugin g.net x hx hN
      have hnn : net.plugin g.net x = ((net.plugin g.net x).1, none) := Prod.ext rfl hnf
      have hstep : stepG ops net cfg (plugEv (own x)) g = _ := stepG_plugin (ops := ops) hq hx g _ hnn
      obtain ⟨hpp, hpg⟩ := hops.push g.core.pending (unplugEv x) hG
      obtain ⟨g', h1, h2, h3⟩ := ih
        { core := { g.core with eventHist := g.core.eventHist ++ [plugEv x],
                                evHist := g.core.evHist ++ [x.id],
                                pending := ops.push g.core.pending (unplugEv x), resolve := true,
                                lastUpd := some x.arrival },
          net := (net.plugin g.net x).1 }
        hn' hs' hc' hH' ((hP.step_plugin hv' hx' hxa hn).perm hpp)
        (hE.plugin x _ _ rfl rfl) hpg hnp
      refine ⟨g', ?_, h2, h3⟩
      simp only [processAllG, hstep]; exact h1
    · obtain ⟨x, hx, rfl⟩ := List.mem_map.1 hx'
      obtain ⟨hnf, hnp⟩ := hnet.unplug g.net x hx hN
      have hnn : net.unplug g.net x = ((net.unplug g.net x).1, none) := Prod.ext rfl hnf
      have hstep : stepG ops net cfg (unplugEv (own x)) g = _ := stepG_unplug (ops := ops) hq hx g _ hnn
      obtain ⟨g', h1, h2, h3⟩ := ih
        { core := { g.core with eventHist := g.core.eventHist ++ [unplugEv x], resolve := true,
                                lastUpd := some x.departure },
          net := (net.unplug g.net x).1 }
        hn' hs' hc' hH' (hP.step_other (fun z => plugEv_ne_unplugEv z (own x)))
        (by unfold EvhOK at hE ⊢; simp [hE, unplugEv]) hG hnp
      refine ⟨g', ?_, h2, h3⟩
      simp only [processAllG, hstep]; exact h1
    · have hstep := stepG_rec (cfg := cfg) (ops := ops) (net := net) r g
      obtain ⟨g', h1, h2, h3⟩ := ih
        { g with core := { g.core with eventHist := g.core.eventHist ++ [recEv r], resolve := true } }
        hn' hs' hc' hH' (hP.step_other (fun z => plugEv_ne_recEv z r))
        (by unfold EvhOK at hE ⊢; simp [hE, recEv]) hG hN
      refine ⟨g', ?_, h2, h3⟩
      simp only [processAllG, hstep]; exact h1

theorem eventsStageG_ok (hq : ValidQ cfg) (hops : ops.Ok good) (hnet : net.NoFail cfg P) {t : Nat}
    {g : CoreG σ} (hI : InvG cfg t g.core) (hG : good g.core.pending) (hN : P g.net) :
    ∃ g1, eventsStageG ops net cfg g = (g1, none) ∧ g1.core.iter = t ∧
      HistOK (relabel cfg) t [] g1.core.eventHist ∧ PendOK (relabel cfg) t [] g1.core.pending ∧
      EvhOK g1.core ∧ good g1.core.pending ∧ P g1.net := by
  have hiter := hI.iter
  subst hiter
  unfold eventsStageG
  obtain ⟨q0, hcur, hperm, hgood⟩ := hops.pop g.core.iter g.core.pending hG
  obtain ⟨hp1, hp2, hp3⟩ := hcur.spec
  have hmem : ∀ e, e ∈ (ops.pop g.core.iter g.core.pending).1 ↔ Cur (relabel cfg) (g.core.iter : Int) e := by
    intro e
    rw [hp1.mem_iff, List.mem_filter, hI.pend_mem, cur_iff_expected_le]
    simp
  have hrest : ∀ e, e ∈ (ops.pop g.core.iter g.core.pending).2 ↔
      e ∈ g.core.pending ∧ (g.core.iter : Int) < e.ts := by
    intro e
    rw [hperm.mem_iff, hp3, List.mem_filter]
    simp
  obtain ⟨g1, h1, h2, h3⟩ := processAllG_ok hq hops hnet (g.core.iter : Int) _
    { g with core := { g.core with pending := (ops.pop g.core.iter g.core.pending).2 } }
    (hp1.nodup_iff.2 (hI.pend_nodup.filter _))
    (hp2.imp (fun h => (keyLe_eq_true_iff _ _).2 h)) (fun e he => (hmem e).1 he)
    ⟨hI.hist_nodup, fun e => by
        rw [hI.hist_mem e]
        constructor
        · exact Or.inl
        · rintro (h | ⟨hc, hn⟩)
          · exact h
          · exact absurd ((hmem e).2 hc) hn,
      hI.hist_sorted, fun h hh d hd => keyLe_of_ts_lt (by
        have := ((hI.hist_mem h).1 hh).ts_lt
        have := ((hmem d).1 hd).ts_eq
        omega)⟩
    ⟨hperm.nodup_iff.2 (hp3 ▸ hI.pend_nodup.filter _), fun e => by
        show e ∈ (ops.pop g.core.iter g.core.pending).2 ↔ _
        rw [hrest e, hI.pend_mem e]
        constructor
        · exact Or.inl
        · rintro (h | ⟨x, hx, rfl, hxa, hn⟩)
          · exact h
          · exact absurd ((hmem _).2 (Or.inl ⟨x, hx, rfl, hxa⟩)) hn⟩
    hI.evh hgood hN
  exact ⟨g1, h1, h2, h3⟩

theorem bodyG_ok (hq : ValidQ cfg) (hops : ops.Ok good) (hnet : net.NoFail cfg P)
    {sched apply : CoreG σ → Option Err} (hs : ∀ g, sched g = none) (ha : ∀ g, apply g = none)
    {t : Nat} {g : CoreG σ} (hI : InvG cfg t g.core) (hG : good g.core.pending) (hN : P g.net) :
    ∃ g', bodyG ops net cfg sched apply g = (g', none) ∧ InvG cfg (t + 1) g'.core ∧
      good g'.core.pending ∧ P g'.net := by
  have hv' := valid_relabel hq
  obtain ⟨g1, h1, hit, hH, hP, hE, hG1, hN1⟩ := eventsStageG_ok hq hops hnet hI hG hN
  have key : ∀ c2 : Core, c2.iter = t + 1 → c2.pending = g1.core.pending →
      c2.resolve = false → c2.eventHist = g1.core.eventHist → c2.evHist = g1.core.evHist →
      InvG cfg (t + 1) c2 := by
    intro c2 e1 e2 e4 e5 e6
    have hc : ((t + 1 : Nat) : Int) = (t : Int) + 1 := by push_cast; rfl
    refine ⟨e1, e2 ▸ hP.1, ?_, e4, e5 ▸ hH.1, ?_, e5 ▸ hH.2.2.1, ?_⟩
    · intro e
      rw [e2, hP.2 e, hc, expected_succ hv']
      simp
    · intro e
      rw [e5, hH.2.1 e, hc, done_succ hv']
      simp
    · unfold EvhOK at hE ⊢
      rw [e6, e5, hE]
  unfold bodyG
  rw [h1]
  simp only
  by_cases hns : needsSched cfg.maxRecompute g1.core = true
  · simp only [hns, if_true, hs, ha]
    exact ⟨_, rfl, key _ (by simp [advance, markScheduled, markInvoked, hit]) rfl rfl rfl rfl, hG1, hN1⟩
  · simp only [hns, ha]
    refine ⟨_, rfl, key _ (by simp [advance, hit]) rfl ?_ rfl rfl, hG1, hN1⟩
    simp only [needsSched, Bool.or_eq_true, not_or, Bool.not_eq_true] at hns
    simpa [advance] using hns.1

theorem initG_inv (hq : ValidQ cfg) (hops : ops.Ok good) (net0 : σ) :
    InvG cfg 0 (initG ops cfg net0).core ∧ good (initG ops cfg net0).core.pending := by
  have hv' := valid_relabel hq
  have h0 := init_inv hv'
  have hpe : initPending (relabel cfg) = initPending cfg := by
    simp [initPending, relabel, List.map_map, Function.comp_def, own, plugEv]
  obtain ⟨hp, hg⟩ := hops.build (initPending cfg)
  refine ⟨⟨rfl, ?_, ?_, rfl, h0.hist_nodup, h0.hist_mem, h0.hist_sorted, h0.evh⟩, hg⟩
  · have := h0.pend_nodup
    rw [show (init (relabel cfg)).pending = initPending cfg from hpe] at this
    exact hp.nodup_iff.2 this
  · intro e
    show e ∈ ops.build (initPending cfg) ↔ _
    rw [hp.mem_iff, ← h0.pend_mem e]
    rw [show (init (relabel cfg)).pending = initPending cfg from hpe]

theorem pendingG_ne_nil_iff (hq : ValidQ cfg) {t : Nat} {c : Core} (hI : InvG cfg t c) :
    c.pending ≠ [] ↔ t < horizon cfg := by
  have hv' := valid_relabel hq
  have hm := neg_one_le_maxTs (relabel cfg)
  rw [← horizon_relabel]
  unfold horizon
  constructor
  · intro h
    obtain ⟨e, he⟩ := List.exists_mem_of_ne_nil _ h
    have := expected_le_maxTs hv' ((hI.pend_mem e).1 he)
    omega
  · intro h hnil
    obtain ⟨e, he⟩ := exists_expected (cfg := relabel cfg) (t := t) (by omega) (by omega)
    have := (hI.pend_mem e).2 he
    rw [hnil] at this
    simp at this

theorem runG_spec (hq : ValidQ cfg) (hops : ops.Ok good) (hnet : net.NoFail cfg P)
    {sched apply : CoreG σ → Option Err} (hs : ∀ g, sched g = none) (ha : ∀ g, apply g = none) :
    ∀ (n t : Nat) (g : CoreG σ), InvG cfg t g.core → good g.core.pending → P g.net → t ≤ horizon cfg →
    ∃ g', runG ops net cfg sched apply n g = (g', none) ∧ InvG cfg (min (t + n) (horizon cfg)) g'.core := by
  intro n
  induction n with
  | zero =>
    intro t g hI _ _ ht
    exact ⟨g, rfl, by simpa [Nat.min_eq_left ht] using hI⟩
  | succ n ih =>
    intro t g hI hG hN ht
    rcases Nat.lt_or_ge t (horizon cfg) with hlt | hge
    · have hp := (pendingG_ne_nil_iff hq hI).2 hlt
      have hg : guard g.core = true := by
        unfold guard
        cases hpe : g.core.pending with
        | nil => exact absurd hpe hp
        | cons a l => simp
      obtain ⟨g1, hb, hI1, hG1, hN1⟩ := bodyG_ok hq hops hnet hs ha hI hG hN
      obtain ⟨g', hr, hI'⟩ := ih (t + 1) g1 hI1 hG1 hN1 hlt
      refine ⟨g', ?_, by rwa [show t + (n + 1) = t + 1 + n by omega]⟩
      simp only [runG, hg, if_true, hb]
      exact hr
    · have hte : t = horizon cfg := le_antisymm ht hge
      have hp : g.core.pending = [] := by
        by_contra h
        exact absurd ((pendingG_ne_nil_iff hq hI).1 h) (by omega)
      have hg : guard g.core = false := by simp [guard, hp, hI.resolve]
      refine ⟨g, by simp [runG, hg], ?_⟩
      rw [Nat.min_eq_right (by omega)]
      exact hte ▸ hI

end

/-! ### `ChargingNetwork` + canonical queue: the generalised loop is the loop of `EventCore.lean` -/

/-- the state of `EventCore.lean` described by a generalised state over the occupancy map -/
def ofG (g : CoreG (String → Option Session)) : Core := { g.core with occ := g.net }

theorem stepG_charging (cfg : Cfg) (e : Event) (g : CoreG (String → Option Session)) :
    (ofG (stepG canonQ (chargingNet cfg.stations) cfg e g).1, (stepG canonQ (chargingNet cfg.stations) cfg e g).2)
      = step cfg e (ofG g) := by
  unfold stepG processG step process
  cases e.kind <;> simp only []
  · -- unplug
    cases findSession cfg e.sess with
    | none => rfl
    | some x =>
      simp only [chargingNet, ofG]
      by_cases hc : cfg.stations.contains x.station = true
      · simp only [hc, if_true]
        cases hocc : g.net x.station <;> simp [unplugHits, hocc]
      · simp only [hc]; rfl
  · -- plug-in
    cases findSession cfg e.sess with
    | none => rfl
    | some x =>
      simp only [chargingNet, ofG]
      by_cases hc : cfg.stations.contains x.station = true
      · simp only [hc, if_true]
        cases hocc : g.net x.station <;> simp [canonQ, hocc]
      · simp only [hc]; rfl
  · rfl

theorem processAllG_charging (cfg : Cfg) : ∀ (l : List Event) (g : CoreG (String → Option Session)),
    (ofG (processAllG canonQ (chargingNet cfg.stations) cfg l g).1,
     (processAllG canonQ (chargingNet cfg.stations) cfg l g).2) = processAll cfg l (ofG g) := by
  intro l
  induction l with
  | nil => intro g; rfl
  | cons e es ih =>
    intro g
    have h := stepG_charging cfg e g
    simp only [processAllG, processAll]
    rcases hs : stepG canonQ (chargingNet cfg.stations) cfg e g with ⟨g2, _ | err⟩
    · rw [hs] at h; simp only at h; rw [← h]; exact ih g2
    · rw [hs] at h; simp only at h; rw [← h]

theorem eventsStageG_charging (cfg : Cfg) (g : CoreG (String → Option Session)) :
    (ofG (eventsStageG canonQ (chargingNet cfg.stations) cfg g).1,
     (eventsStageG canonQ (chargingNet cfg.stations) cfg g).2) = eventsStage cfg (ofG g) :=
  processAllG_charging cfg (popCurrent g.core.iter g.core.pending).1
    { g with core := { g.core with pending := (popCurrent g.core.iter g.core.pending).2 } }

/-- with `ChargingNetwork` and the canonical queue, one generalised period is one period of
    `EventCore.body` (the old names are the instantiated versions) -/
theorem bodyG_charging (cfg : Cfg) (sched apply : Core → Option Err) (g : CoreG (String → Option Session)) :
    (ofG (bodyG canonQ (chargingNet cfg.stations) cfg (fun g => sched (ofG g)) (fun g => apply (ofG g)) g).1,
     (bodyG canonQ (chargingNet cfg.stations) cfg (fun g => sched (ofG g)) (fun g => apply (ofG g)) g).2)
      = body cfg sched apply (ofG g) := by
  have he := eventsStageG_charging cfg g
  unfold bodyG body
  rw [← he]
  rcases eventsStageG canonQ (chargingNet cfg.stations) cfg g with ⟨g1, _ | err⟩
  · simp only
    have hn : needsSched cfg.maxRecompute (ofG g1) = needsSched cfg.maxRecompute g1.core := rfl
    rw [hn]
    by_cases hns : needsSched cfg.maxRecompute g1.core = true
    · simp only [hns, if_true, finish]
      have em : ofG { g1 with core := markInvoked g1.core } = markInvoked (ofG g1) := rfl
      have es : ofG { g1 with core := markScheduled (markInvoked g1.core) } = markScheduled (markInvoked (ofG g1)) := rfl
      rw [em]
      cases sched (markInvoked (ofG g1)) with
      | some e => rfl
      | none =>
        simp only
        rw [es]
        cases apply (markScheduled (markInvoked (ofG g1))) with
        | some e => rfl
        | none => rfl
    · simp only [hns, finish]
      simp only [Bool.false_eq_true, if_false]
      cases apply (ofG g1) with
      | some e => rfl
      | none => rfl
  · rfl

end Acn.EventCore
