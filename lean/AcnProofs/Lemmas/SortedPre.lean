/-
  Preprocessing (`run_preprocessing`): what each stage does to a session's bounds.
-/
import AcnProofs.Lemmas.SortedGreedy

set_option linter.unusedSectionVars false

namespace Acn.Sorted
open Acn

variable {K : Type} [Field K] [LinearOrder K] [IsStrictOrderedRing K]

/-- what `apply_minimum_charging_rate` does to one session: refuse (both bounds 0) or apply the
    EVSE minimum (only if it fits into the remaining demand) and reconcile -/
def MinRel (infra : Infra K) (period : K) (s s' : Session K) : Prop :=
  s' = { s with minRate := 0, maxRate := 0 } ∨
  (infra.minPilot.getD s.idx 0 ≤ rap infra period s ∧
    s' = reconcile { s with minRate := pyMax (infra.minPilot.getD s.idx 0) s.minRate })

theorem minRate_fold (feas : List K → Bool) (infra : Infra K) (period : K) :
    ∀ (q : List (Session K)) (acc : List K × List (Session K)),
      ∃ out, (q.foldl (minRateStep feas infra period) acc).2 = acc.2 ++ out ∧
        List.Forall₂ (MinRel infra period) q out := by
  intro q
  induction q with
  | nil => intro acc; exact ⟨[], by simp, List.Forall₂.nil⟩
  | cons s t ih =>
    intro acc
    simp only [List.foldl_cons]
    have hstep : ∃ r s', minRateStep feas infra period acc s = (r, acc.2 ++ [s']) ∧
        MinRel infra period s s' := by
      unfold minRateStep
      simp only
      split
      · rename_i hc
        simp only [Bool.and_eq_true, decide_eq_true_eq] at hc
        exact ⟨_, _, rfl, Or.inr ⟨hc.1, rfl⟩⟩
      · exact ⟨_, _, rfl, Or.inl rfl⟩
    obtain ⟨r, s', hs, hrel⟩ := hstep
    obtain ⟨out, ho, hf⟩ := ih (r, acc.2 ++ [s'])
    rw [hs]
    exact ⟨s' :: out, by rw [ho]; simp, List.Forall₂.cons hrel hf⟩

theorem applyMinimumRate_rel (feas : List K → Bool) (infra : Infra K) (period : K)
    (l : List (Session K)) :
    List.Forall₂ (MinRel infra period)
      (sortBy (fun a b => decide (a.remainingTime < b.remainingTime)) l)
      (applyMinimumRate feas infra period l) := by
  obtain ⟨out, ho, hf⟩ := minRate_fold feas infra period
    (sortBy (fun a b => decide (a.remainingTime < b.remainingTime)) l)
    (List.replicate infra.ids.length 0, [])
  unfold applyMinimumRate
  simp only at ho ⊢
  rw [ho]; simpa using hf

theorem forall₂_mem_right {α β : Type} {R : α → β → Prop} {l₁ : List α} {l₂ : List β}
    (h : List.Forall₂ R l₁ l₂) : ∀ b ∈ l₂, ∃ a ∈ l₁, R a b := by
  induction h with
  | nil => intro b hb; exact absurd hb (by simp)
  | cons hr _ ih =>
    intro b hb
    rcases List.mem_cons.mp hb with rfl | hb
    · exact ⟨_, List.mem_cons_self, hr⟩
    · obtain ⟨a, ha, hab⟩ := ih b hb
      exact ⟨a, List.mem_cons_of_mem _ ha, hab⟩

theorem reconcile_fields (s : Session K) :
    (reconcile s).idx = s.idx ∧ (reconcile s).session = s.session ∧
    (reconcile s).minRate = s.minRate ∧ (reconcile s).requested = s.requested ∧
    (reconcile s).delivered = s.delivered ∧ (reconcile s).maxRate = max s.maxRate s.minRate := by
  unfold reconcile
  split
  · rename_i h; exact ⟨rfl, rfl, rfl, rfl, rfl, (max_eq_right (le_of_lt h)).symm⟩
  · rename_i h; exact ⟨rfl, rfl, rfl, rfl, rfl, (max_eq_left (not_lt.mp h)).symm⟩

/-- every session that leaves `applyUpperBound` obeys the estimator's bound for ITS session id,
    unless its own minimum rate is larger -/
theorem applyUpperBound_le (bounds : List (String × K)) (l : List (Session K)) :
    ∀ s ∈ applyUpperBound bounds l, ∀ b, bounds.lookup s.session = some b →
      s.maxRate ≤ max b s.minRate := by
  intro s hs b hb
  unfold applyUpperBound at hs
  obtain ⟨s0, _, rfl⟩ := List.mem_map.mp hs
  split at hb <;> rename_i hlk
  · rename_i b0
    obtain ⟨_, h2, h3, _, _, h6⟩ := reconcile_fields ({ s0 with maxRate := pyMin s0.maxRate b0 } : Session K)
    rw [h2] at hb
    simp only at hb
    rw [hlk] at hb
    cases hb
    rw [h6, h3]
    simp only [pyMin_eq_min]
    exact max_le (le_trans (min_le_right _ _) (le_max_left _ _)) (le_max_right _ _)
  · obtain ⟨_, h2, _, _, _, _⟩ := reconcile_fields s0
    rw [h2, hlk] at hb
    cases hb

theorem applyUpperBound_min (bounds : List (String × K)) (l : List (Session K)) :
    ∀ s ∈ applyUpperBound bounds l, ∃ s0 ∈ l, s.minRate = s0.minRate ∧ s.idx = s0.idx := by
  intro s hs
  unfold applyUpperBound at hs
  obtain ⟨s0, h0, rfl⟩ := List.mem_map.mp hs
  refine ⟨s0, h0, ?_⟩
  split
  · obtain ⟨h1, _, h3, _⟩ := reconcile_fields ({ s0 with maxRate := pyMin s0.maxRate _ } : Session K)
    exact ⟨h3, h1⟩
  · obtain ⟨h1, _, h3, _⟩ := reconcile_fields s0
    exact ⟨h3, h1⟩

theorem lookup_mem {V : Type} (l : List (String × V)) (k : String) (v : V)
    (h : l.lookup k = some v) : (k, v) ∈ l := by
  induction l with
  | nil => simp [List.lookup] at h
  | cons p t ih =>
    obtain ⟨k', v'⟩ := p
    unfold List.lookup at h
    split at h
    · rename_i heq
      cases h
      have : k = k' := by simpa using heq
      rw [this]; exact List.mem_cons_self
    · exact List.mem_cons_of_mem _ (ih h)

theorem minRel_session (infra : Infra K) (period : K) (s s' : Session K)
    (h : MinRel infra period s s') : s'.session = s.session := by
  rcases h with rfl | ⟨_, rfl⟩
  · rfl
  · exact (reconcile_fields _).2.1

/-- `MinRel` keeps the estimator inequality -/
theorem minRel_le (infra : Infra K) (period : K) (s s' : Session K) (b : K)
    (h : MinRel infra period s s') (hb : s.maxRate ≤ max b s.minRate) (hb0 : 0 ≤ b) :
    s'.session = s.session ∧ s'.maxRate ≤ max b s'.minRate := by
  rcases h with rfl | ⟨_, rfl⟩
  · exact ⟨rfl, le_max_of_le_left hb0⟩
  · obtain ⟨_, h2, h3, _, _, h6⟩ :=
      reconcile_fields ({ s with minRate := pyMax (infra.minPilot.getD s.idx 0) s.minRate } : Session K)
    refine ⟨h2, ?_⟩
    rw [h6, h3]
    simp only [pyMax_eq_max]
    refine max_le (le_trans hb (max_le (le_max_left _ _) ?_)) (le_max_right _ _)
    exact le_trans (le_max_right _ _) (le_max_right _ _)

/-- the infrastructure fact used by `lb_mem_allowable`: a finite-rate station's minimum pilot is
    non-negative and is one of its levels (network: `min_rate` = smallest positive level) -/
def InfraOk (infra : Infra K) : Prop :=
  ∀ i, 0 ≤ infra.minPilot.getD i 0 ∧
    (infra.cont.getD i true = false → infra.minPilot.getD i 0 ∈ infra.allow.getD i [])

theorem rap_congr (infra : Infra K) (period : K) (s s' : Session K) (h1 : s'.idx = s.idx)
    (h2 : s'.requested = s.requested) (h3 : s'.delivered = s.delivered) :
    rap infra period s' = rap infra period s := by
  unfold rap remainingDemand; rw [h1, h2, h3]

/-- `lb_mem_allowable`: after `apply_minimum_charging_rate` a session that came in with
    `min_rates ≤ 0` has `lb = 0` or `lb` = the station's minimum pilot, a level within `[lb, ub]` -/
theorem minRel_lbOk (infra : Infra K) (period : K) (hinf : InfraOk infra) (s s' : Session K)
    (h : MinRel infra period s s') (hmin : s.minRate ≤ 0) : LbOk infra period s' := by
  rcases h with rfl | ⟨hrap, rfl⟩
  · right; left
    simp [lbOf]
  · obtain ⟨h1, _, h3, h4, h5, h6⟩ :=
      reconcile_fields ({ s with minRate := pyMax (infra.minPilot.getD s.idx 0) s.minRate } : Session K)
    generalize hs' : reconcile ({ s with minRate := pyMax (infra.minPilot.getD s.idx 0) s.minRate } : Session K) = s' at *
    simp only at h1 h3 h4 h5 h6
    obtain ⟨hmp0, hmem⟩ := hinf s.idx
    have hlb : lbOf s' = infra.minPilot.getD s.idx 0 := by
      unfold lbOf
      rw [h3]
      simp only [pyMax_eq_max]
      rw [max_eq_left (le_trans hmin hmp0), max_eq_right hmp0]
    by_cases hc : infra.cont.getD s'.idx true = true
    · left; exact hc
    · right
      by_cases h0 : infra.minPilot.getD s.idx 0 = 0
      · left; rw [hlb, h0]
      · right
        rw [hlb]
        unfold levelsIn
        rw [h1]
        simp only [List.mem_filter, Bool.and_eq_true, decide_eq_true_eq]
        rw [h1] at hc
        refine ⟨hmem (by simpa using hc), le_refl _, ?_⟩
        unfold ubOf
        simp only [pyMin_eq_min]
        refine le_min ?_ ?_
        · rw [h6]
          simp only [pyMax_eq_max]
          exact le_trans (le_max_left _ _) (le_max_right _ _)
        · rw [rap_congr infra period s s' h1 h4 h5]; exact hrap

end Acn.Sorted
