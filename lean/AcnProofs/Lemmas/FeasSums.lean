/-
  Helper lemmas for C06, part 1: the model's left folds (`sumK`, `dotK`) as `List.sum`, the
  square-root-free magnitude test, and the 2-D triangle / Cauchy–Schwarz induction over stations.
-/
import AcnModel.Feas
import AcnProofs.Lemmas.Basic
import Mathlib.Tactic

namespace Acn.Feas
open Acn

set_option linter.unusedSectionVars false

variable {K : Type} [Field K] [LinearOrder K] [IsStrictOrderedRing K]

/-! ### folds are sums (stated once) -/

theorem foldl_add_eq (l : List K) (a : K) : l.foldl (· + ·) a = a + l.sum := by
  induction l generalizing a with
  | nil => simp
  | cons x xs ih => simp [List.foldl_cons, ih, add_assoc]

@[simp] theorem sumK_eq_sum (l : List K) : sumK l = l.sum := by
  simp [sumK, foldl_add_eq]

@[simp] theorem dotK_eq_sum (a b : List K) : dotK a b = (List.zipWith (· * ·) a b).sum := by
  simp [dotK]

theorem absK_fun : (absK : K → K) = fun a => |a| := funext absK_eq_abs

/-- `Σ_j row_j · (x_j · z_j)` — the weighted sum of one constraint row in one period against one
    coordinate (`z = c` or `z = s`) of the station phasors; lists truncate to the shortest. -/
def wsum (row x z : List K) : K :=
  (List.zipWith (· * ·) row (List.zipWith (· * ·) x z)).sum

/-- `Σ_j |row_j| · x_j` -/
def lsum (row x : List K) : K := (List.zipWith (· * ·) (row.map fun a => |a|) x).sum

@[simp] theorem wsum_nil_left (x z : List K) : wsum [] x z = 0 := by simp [wsum]
@[simp] theorem wsum_nil_mid (row z : List K) : wsum row [] z = 0 := by simp [wsum]
@[simp] theorem wsum_nil_right (row x : List K) : wsum row x [] = 0 := by simp [wsum]
@[simp] theorem wsum_cons (a y w : K) (row x z : List K) :
    wsum (a :: row) (y :: x) (w :: z) = a * (y * w) + wsum row x z := by simp [wsum]

@[simp] theorem lsum_nil_left (x : List K) : lsum [] x = 0 := by simp [lsum]
@[simp] theorem lsum_nil_right (row : List K) : lsum row [] = 0 := by simp [lsum]
@[simp] theorem lsum_cons (a y : K) (row x : List K) :
    lsum (a :: row) (y :: x) = |a| * y + lsum row x := by simp [lsum]

theorem aggRe_eq (row x c : List K) : aggRe row x c = wsum row x c := by simp [aggRe, wsum]
theorem aggIm_eq (row x s : List K) : aggIm row x s = wsum row x s := by simp [aggIm, wsum]
theorem linAggDoc_eq (row x : List K) : linAggDoc row x = lsum row x := by
  simp [linAggDoc, lsum, absK_fun]

/-- the algorithm side multiplies the row by the phasor first, the network side the schedule:
    same sum (utils.py:43-44 vs charging_network.py:481-484) -/
theorem alg_dot_eq (row z x : List K) :
    dotK (List.zipWith (· * ·) row z) x = wsum row x z := by
  simp only [dotK_eq_sum, wsum]
  induction row generalizing z x with
  | nil => simp
  | cons a row ih =>
    cases z with
    | nil => cases x <;> simp
    | cons w z =>
      cases x with
      | nil => simp
      | cons y x => simp only [List.zipWith_cons_cons, List.sum_cons, ih]; ring

/-! ### magnitude test through squares -/

theorem magLe_iff (re im b : K) :
    magLe re im b = true ↔ 0 ≤ b ∧ re ^ 2 + im ^ 2 ≤ b ^ 2 := by
  simp [magLe, pow_two]

theorem magLe_of_neg (re im b : K) (hb : b < 0) : magLe re im b = false := by
  simp [magLe, not_le.mpr hb]

theorem tolOf_eq (vt rt lim : K) : tolOf vt rt lim = max vt (rt * lim) := by simp [tolOf]

/-! ### the 2-D triangle step and its induction over stations -/

/-- one more station: `(x + w c)² + (y + w s)² ≤ (m + |w|)²` whenever `x² + y² ≤ m²` and `(c, s)`
    is a unit vector (Cauchy–Schwarz for the cross term). -/
theorem cs_step {x y m w c s : K} (h : x ^ 2 + y ^ 2 ≤ m ^ 2) (hm : 0 ≤ m)
    (hu : c ^ 2 + s ^ 2 = 1) :
    (w * c + x) ^ 2 + (w * s + y) ^ 2 ≤ (|w| + m) ^ 2 := by
  have h1 : (x * c + y * s) ^ 2 ≤ m ^ 2 := by
    have e : (x * c + y * s) ^ 2 + (x * s - y * c) ^ 2 = (x ^ 2 + y ^ 2) * (c ^ 2 + s ^ 2) := by ring
    rw [hu, mul_one] at e
    nlinarith [sq_nonneg (x * s - y * c)]
  have h2 : |x * c + y * s| ≤ m := abs_le_of_sq_le_sq h1 hm
  have h3 : w * (x * c + y * s) ≤ |w| * m := by
    calc w * (x * c + y * s) ≤ |w * (x * c + y * s)| := le_abs_self _
      _ = |w| * |x * c + y * s| := abs_mul _ _
      _ ≤ |w| * m := mul_le_mul_of_nonneg_left h2 (abs_nonneg _)
  have e2 : (w * c + x) ^ 2 + (w * s + y) ^ 2
      = w ^ 2 * (c ^ 2 + s ^ 2) + 2 * (w * (x * c + y * s)) + (x ^ 2 + y ^ 2) := by ring
  rw [e2, hu, mul_one]
  have e3 : (|w| + m) ^ 2 = w ^ 2 + 2 * (|w| * m) + m ^ 2 := by
    rw [add_sq, sq_abs]; ring
  rw [e3]; linarith

/-- unit phasors, as two aligned lists -/
def UnitPhasors (c s : List K) : Prop :=
  c.length = s.length ∧ ∀ p ∈ c.zip s, p.1 ^ 2 + p.2 ^ 2 = 1

theorem UnitPhasors.tail {c0 s0 : K} {c s : List K} (h : UnitPhasors (c0 :: c) (s0 :: s)) :
    UnitPhasors c s :=
  ⟨by simpa using h.1, fun p hp => h.2 p (by simp [List.zip_cons_cons, hp])⟩

theorem UnitPhasors.head {c0 s0 : K} {c s : List K} (h : UnitPhasors (c0 :: c) (s0 :: s)) :
    c0 ^ 2 + s0 ^ 2 = 1 := h.2 (c0, s0) (by simp)

/-- **triangle inequality for phasor sums, any number of stations**:
    `|Σ_j a_j x_j e^{iφ_j}|² ≤ (Σ_j |a_j| |x_j|)²`, by induction over the stations. -/
theorem phasor_sq_le_abs (row x c s : List K) (hu : UnitPhasors c s) :
    0 ≤ lsum row (x.map fun v => |v|) ∧
    wsum row x c ^ 2 + wsum row x s ^ 2 ≤ lsum row (x.map fun v => |v|) ^ 2 := by
  induction row generalizing x c s with
  | nil => simp
  | cons a row ih =>
    cases x with
    | nil => simp
    | cons y x =>
      cases c with
      | nil =>
        have hs : s = [] := by
          have := hu.1; simp at this; exact List.length_eq_zero_iff.mp this.symm
        subst hs
        have h0 := (ih x [] [] hu).1
        have hnn : 0 ≤ lsum (a :: row) ((y :: x).map fun v => |v|) := by
          simp only [List.map_cons, lsum_cons]
          have := mul_nonneg (abs_nonneg a) (abs_nonneg y); linarith
        refine ⟨hnn, ?_⟩
        simp only [wsum_nil_right]
        nlinarith [sq_nonneg (lsum (a :: row) ((y :: x).map fun v => |v|))]
      | cons c0 c =>
        cases s with
        | nil => have := hu.1; simp at this
        | cons s0 s =>
          obtain ⟨hnn, hle⟩ := ih x c s hu.tail
          have hstep := cs_step (w := a * y) hle hnn hu.head
          simp only [List.map_cons, lsum_cons, wsum_cons]
          rw [abs_mul] at hstep
          refine ⟨by have := mul_nonneg (abs_nonneg a) (abs_nonneg y); linarith, ?_⟩
          calc (a * (y * c0) + wsum row x c) ^ 2 + (a * (y * s0) + wsum row x s) ^ 2
              = (a * y * c0 + wsum row x c) ^ 2 + (a * y * s0 + wsum row x s) ^ 2 := by ring
            _ ≤ (|a| * |y| + lsum row (x.map fun v => |v|)) ^ 2 := hstep

theorem map_abs_of_nonneg (x : List K) (hx : ∀ v ∈ x, 0 ≤ v) : (x.map fun v => |v|) = x := by
  induction x with
  | nil => rfl
  | cons y x ih =>
    simp only [List.map_cons]
    rw [abs_of_nonneg (hx y (by simp)), ih (fun v hv => hx v (by simp [hv]))]

/-- for a non-negative period vector: `|phasor sum|² ≤ (Σ_j |a_j| x_j)²` and the bound is `≥ 0` -/
theorem phasor_sq_le_lsum (row x c s : List K) (hu : UnitPhasors c s) (hx : ∀ v ∈ x, 0 ≤ v) :
    0 ≤ lsum row x ∧ wsum row x c ^ 2 + wsum row x s ^ 2 ≤ lsum row x ^ 2 := by
  have := phasor_sq_le_abs row x c s hu
  rwa [map_abs_of_nonneg x hx] at this

/-- one constraint, one period: the repaired linear test implies the phase-aware test -/
theorem rowOk_of_linear (row : List K) (lim vt rt : K) (c s x : List K) (hu : UnitPhasors c s)
    (hx : ∀ v ∈ x, 0 ≤ v) (h : linAggFixed row x ≤ lim + tolOf vt rt lim) :
    rowOk row lim vt rt c s x = true := by
  obtain ⟨hnn, hle⟩ := phasor_sq_le_lsum row x c s hu hx
  rw [linAggFixed, absK_eq_abs, linAggDoc_eq, abs_of_nonneg hnn] at h
  rw [rowOk, magLe_iff, aggRe_eq, aggIm_eq]
  refine ⟨le_trans hnn h, le_trans hle ?_⟩
  exact pow_le_pow_left₀ hnn h 2

end Acn.Feas
