/-
  Helper lemmas for C18Sim (2/2): the analysis functions on a `Sim.State` that satisfies C02's ledger invariant.
    * shape of `charging_rates` (rectangular, one row per station)           — `rect_of_inv`
    * entry `t` of `aggregate_current(sim)` / `aggregate_power(sim)`, for EVERY `t` (0 past the array's end)
    * `sim.ev_history.values()` is a permutation of the scenario's EV objects once every session has plugged in
-/
import AcnProofs.Lemmas.AnalysisSim
import AcnProofs.C02
import AcnProofs.C01
import AcnModel.AnalysisSim

set_option linter.unusedSectionVars false
set_option linter.unusedVariables false

namespace Acn.AnalysisSim
open Acn Acn.Analysis Acn.Sim Acn.Ledger Finset

variable {K : Type} [Field K] [LinearOrder K] [IsStrictOrderedRing K] [HasExp K]

theorem ent_simR (s : State K) (i t : Nat) : ent (simR s) i t = s.rates.get i t := rfl

theorem simV_getD (cfg : Cfg K) (i : Nat) : (simV cfg).getD i 0 = volt cfg i := rfl

theorem rect_of_inv {cfg : Cfg K} {s : State K} (hL : Ledger.Inv cfg s) :
    (∀ row ∈ simR s, row.length = simT s) ∧ (simR s).length = cfg.stations.length :=
  ⟨hL.rates_wf.2, hL.rates_wf.1⟩

/-- reading `charging_rates` at a column past its width gives 0 -/
theorem get_of_width_le {cfg : Cfg K} {s : State K} (hL : Ledger.Inv cfg s) (i t : Nat) (ht : simT s ≤ t) :
    s.rates.get i t = 0 := by
  show ((s.rates.rows.getD i []).getD t 0) = 0
  by_cases hi : i < s.rates.rows.length
  · have hmem : s.rates.rows.getD i [] ∈ s.rates.rows := by
      rw [getD_of_lt _ _ _ hi]; exact List.getElem_mem _
    exact getD_of_ge _ _ _ (by rw [hL.rates_wf.2 _ hmem]; exact ht)
  · have hnil : s.rates.rows.getD i [] = [] := getD_of_ge _ _ _ (by omega)
    rw [hnil]; rfl

/-- entry `t` of `aggregate_current(sim)` (0 beyond the array) is the station sum of the recorded rates — every `t` -/
theorem aggSim_getD {cfg : Cfg K} {s : State K} (hL : Ledger.Inv cfg s) (t : Nat) :
    (aggregateCurrentSim s).getD t 0 = ∑ i ∈ range cfg.stations.length, s.rates.get i t := by
  obtain ⟨hr, hl⟩ := rect_of_inv hL
  unfold aggregateCurrentSim
  rw [C18.aggregate_current_def _ _ hr, hl]
  by_cases ht : t < simT s
  · rw [getD_map_range 0 _ _ t ht]; rfl
  · rw [getD_of_ge _ _ _ (by simpa using ht)]
    exact (Finset.sum_eq_zero fun i _ => get_of_width_le hL i t (by omega)).symm

/-- entry `t` of `aggregate_power(sim)` — every `t` -/
theorem powSim_getD {cfg : Cfg K} {s : State K} (hL : Ledger.Inv cfg s) (t : Nat) :
    (aggregatePowerSim cfg s).getD t 0 =
      (∑ i ∈ range cfg.stations.length, volt cfg i * s.rates.get i t) / 1000 := by
  obtain ⟨hr, hl⟩ := rect_of_inv hL
  unfold aggregatePowerSim
  rw [C18.aggregate_power_def _ _ _ hr, hl]
  by_cases ht : t < simT s
  · rw [getD_map_range 0 _ _ t ht]; rfl
  · rw [getD_of_ge _ _ _ (by simpa using ht)]
    have : ∑ i ∈ range cfg.stations.length, volt cfg i * s.rates.get i t = 0 :=
      Finset.sum_eq_zero fun i _ => by rw [get_of_width_le hL i t (by omega), mul_zero]
    rw [this, zero_div]

/-! ### `ev_history.values()` -/

theorem lookup_all (evs : List (Evse.Ev K)) (hnd : (evs.map (·.session)).Nodup) (f : Evse.Ev K → Analysis.Ev K) :
    (evs.map (·.session)).filterMap (fun id => (evs.find? (fun e => e.session == id)).map f) = evs.map f := by
  rw [List.filterMap_map]
  rw [← List.filterMap_eq_map]
  apply List.filterMap_congr
  intro e he
  have := evIn_of_mem_nodup evs hnd e he
  simp only [Function.comp, evIn] at this ⊢
  rw [this]; rfl

/-- once every session has plugged in (`evHist` is a permutation of the session ids — C01 `ev_history_keys`), the
    EV objects of `ev_history` are the scenario's EV objects, in some order -/
theorem histEvs_perm {cfg : Cfg K} {s : State K} (hL : Ledger.Inv cfg s) (hid : (cfg.evs.map (·.session)).Nodup)
    (hp : s.core.evHist.Perm (cfg.evs.map (·.session))) : (histEvs s).Perm (allEvs s) := by
  have hnd : (s.evs.map (·.session)).Nodup := by rw [hL.ids]; exact hid
  unfold histEvs allEvs
  rw [← lookup_all s.evs hnd evOfSim, hL.ids]
  exact hp.filterMap _

theorem totalDelivered_perm {a b : List (Analysis.Ev K)} (h : a.Perm b) : totalDelivered a = totalDelivered b := by
  unfold totalDelivered
  rw [Analysis.sumK_eq_sum, Analysis.sumK_eq_sum]
  exact (h.map _).sum_eq

theorem totalRequested_perm {a b : List (Analysis.Ev K)} (h : a.Perm b) : totalRequested a = totalRequested b := by
  unfold totalRequested
  rw [Analysis.sumK_eq_sum, Analysis.sumK_eq_sum]
  exact (h.map _).sum_eq

end Acn.AnalysisSim
