/-
  EventCore ⟷ event queue (C11).

  (A) `EventCore.popCurrent` and the push of the unplug event are instances of the queue
      specification `QSpec.Cur` / `QSpec.Step` of `AcnModel/Queue.lean`.
  (B) The run-loop invariant is preserved, and the run terminates, for EVERY queue
      implementation `ops : QOps` that satisfies that specification up to the order in which it
      stores the pending events (`QOps.Ok`) — nothing in C01 depends on which of several
      equal-key events is handed out first.
  (C) Two implementations satisfy it: the canonical one of `EventCore.lean` (`canonQ`, for which
      `bodyQ` IS `body`) and the transcription of CPython's array heap (`heapQ`, by the
      refinement theorems of C11).  So the C01 theorems hold for the real heap's tie order.
-/
import AcnModel.EventCoreQ
import AcnProofs.Lemmas.EventCoreRun
import AcnProofs.Lemmas.QueueRefine
import AcnProofs.Lemmas.QueueSpecExec

namespace Acn.EventCore
open Acn

theorem keyLe_eq_true_iff (a b : Event) : a.keyLe b = true ↔ b.keyLt a = false := by
  simp [Event.keyLe]

theorem keyLe_refl (a : Event) : a.keyLe a = true := by
  rcases keyLe_total a a with h | h <;> exact h

/-! ### (A) the canonical queue is an instance of the specification -/

theorem erase_cons_ne {x a : Event} (h : x ≠ a) (l : List Event) : (x :: l).erase a = x :: l.erase a := by
  simp [List.erase_cons, h]

theorem insertByKey_erase_self (a : Event) (S : List Event) : (insertByKey a S).erase a = S := by
  induction S with
  | nil => simp [insertByKey]
  | cons d ds ih =>
    simp only [insertByKey]
    split
    · simp
    · rename_i h
      have hne : d ≠ a := by rintro rfl; exact h (keyLe_refl _)
      rw [erase_cons_ne hne, ih]

theorem insertByKey_erase_ne (x a : Event) (hxa : x ≠ a) :
    ∀ S : List Event, S.Pairwise (fun p q => p.keyLe q = true) →
      insertByKey x (S.erase a) = (insertByKey x S).erase a := by
  intro S
  induction S with
  | nil => intro _; simp [insertByKey, erase_cons_ne hxa]
  | cons d ds ih =>
    intro hs
    rw [List.pairwise_cons] at hs
    by_cases hxd : x.keyLe d = true
    · have e1 : insertByKey x (d :: ds) = x :: d :: ds := by simp [insertByKey, hxd]
      rw [e1, erase_cons_ne hxa]
      by_cases hda : d = a
      · subst hda
        simp only [List.erase_cons_head]
        cases ds with
        | nil => simp [insertByKey]
        | cons d2 ds2 =>
          have : x.keyLe d2 = true := keyLe_trans hxd (hs.1 d2 (by simp))
          simp [insertByKey, this]
      · rw [erase_cons_ne hda]
        simp [insertByKey, hxd]
    · have e1 : insertByKey x (d :: ds) = d :: insertByKey x ds := by simp [insertByKey, hxd]
      rw [e1]
      by_cases hda : d = a
      · subst hda; simp
      · rw [erase_cons_ne hda, erase_cons_ne hda]
        have e2 : insertByKey x (d :: ds.erase a) = d :: insertByKey x (ds.erase a) := by
          simp [insertByKey, hxd]
        rw [e2, ih hs.2]

/-- the stable sort commutes with erasing (the first occurrence of) an element -/
theorem sortByKey_erase (a : Event) : ∀ l : List Event, sortByKey (l.erase a) = (sortByKey l).erase a := by
  intro l
  induction l with
  | nil => simp [sortByKey]
  | cons x xs ih =>
    by_cases hxa : x = a
    · subst hxa
      simp only [List.erase_cons_head]
      show sortByKey xs = (insertByKey x (sortByKey xs)).erase x
      rw [insertByKey_erase_self]
    · rw [erase_cons_ne hxa]
      show insertByKey x (sortByKey (xs.erase a)) = (insertByKey x (sortByKey xs)).erase a
      rw [ih, insertByKey_erase_ne x a hxa _ (sortByKey_sorted xs)]

theorem filter_erase_of_true (p : Event → Bool) (q : List Event) (e : Event) (hp : p e = true) :
    (q.erase e).filter p = (q.filter p).erase e := by
  induction q with
  | nil => simp
  | cons x xs ih =>
    by_cases hx : x = e
    · subst hx; simp [hp]
    · rw [erase_cons_ne hx]
      by_cases hpx : p x = true
      · simp only [List.filter_cons, hpx, if_true]
        rw [erase_cons_ne hx, ih]
      · simp only [List.filter_cons, hpx, ih]; simp

/-- `popCurrent` is a `get_current_events` of the specification: it pops key-minimal pending
    events while the minimum has `ts ≤ t` -/
theorem popCurrent_cur (t : Nat) : ∀ (n : Nat) (q : List Event), q.length = n →
    QSpec.Cur (t : Int) q (popCurrent t q).1 (popCurrent t q).2 := by
  intro n
  induction n with
  | zero =>
    intro q hq
    have : q = [] := List.eq_nil_of_length_eq_zero hq
    subst this
    exact QSpec.Cur.stopEmpty
  | succ n ih =>
    intro q hq
    unfold popCurrent
    simp only
    rcases hc : sortByKey (q.filter fun e => decide (e.ts ≤ (t : Int))) with _ | ⟨e, es⟩
    · -- nothing is due
      have hnone : ∀ x ∈ q, (t : Int) < x.ts := by
        intro x hx
        by_contra hle
        have : x ∈ sortByKey (q.filter fun e => decide (e.ts ≤ (t : Int))) :=
          mem_sortByKey.2 (List.mem_filter.2 ⟨hx, by simpa using not_lt.1 hle⟩)
        rw [hc] at this; simp at this
      have hrest : (q.filter fun e => !decide (e.ts ≤ (t : Int))) = q :=
        List.filter_eq_self.2 (fun x hx => by simpa using hnone x hx)
      rw [hrest]
      cases q with
      | nil => simp at hq
      | cons x xs =>
        have hmin := QSpec.pickFirst_isMin x xs
        exact QSpec.Cur.stopLater hmin (hnone _ hmin.1)
    · have hmem : e ∈ sortByKey (q.filter fun e => decide (e.ts ≤ (t : Int))) := by rw [hc]; simp
      have hef := List.mem_filter.1 (mem_sortByKey.1 hmem)
      have hle : e.ts ≤ (t : Int) := by simpa using hef.2
      have hsorted := sortByKey_sorted (q.filter fun e => decide (e.ts ≤ (t : Int)))
      rw [hc, List.pairwise_cons] at hsorted
      have hmin : QSpec.IsMin q e := by
        refine ⟨hef.1, fun x hx => ?_⟩
        by_cases hxt : x.ts ≤ (t : Int)
        · have hxm : x ∈ e :: es := by
            rw [← hc]; exact mem_sortByKey.2 (List.mem_filter.2 ⟨hx, by simpa using hxt⟩)
          rcases List.mem_cons.1 hxm with rfl | hxm
          · exact (keyLe_eq_true_iff _ _).1 (keyLe_refl _)
          · exact (keyLe_eq_true_iff _ _).1 (hsorted.1 x hxm)
        · exact (keyLe_eq_true_iff _ _).1 (keyLe_of_ts_lt (by omega))
      have hlen : (q.erase e).length = n := by
        rw [List.length_erase_of_mem hef.1, hq]; rfl
      have h := ih (q.erase e) hlen
      unfold popCurrent at h
      simp only at h
      rw [QSpec.filter_erase_of_false (fun e => !decide (e.ts ≤ (t : Int))) q e (by simpa using hle),
        filter_erase_of_true (fun e => decide (e.ts ≤ (t : Int))) q e (by simpa using hle),
        sortByKey_erase, hc] at h
      simp only [List.erase_cons_head] at h
      exact QSpec.Cur.pop hmin hle h

/-- as a step of the queue specification -/
theorem popCurrent_step (s : QSpec.State) (t : Nat) :
    QSpec.Step s (.getCurrent t) (.events (popCurrent t s.pending).1)
      { pending := (popCurrent t s.pending).2, timestep := t } :=
  QSpec.Step.cur s t _ _ (popCurrent_cur t _ s.pending rfl)

/-- pushing the unplug event (simulator.py:216) is `add_event` of the specification -/
theorem push_step (s : QSpec.State) (x : Session) :
    QSpec.Step s (.add (unplugEv x)) .unit { s with pending := s.pending ++ [unplugEv x] } :=
  QSpec.Step.add s _

/-! ### (B) every queue implementation that meets the specification -/

/-- `ops` implements the queue specification, up to the order in which it stores the pending
    events; `good` is its representation invariant (the heap property for `heapq`) -/
structure QOps.Ok (ops : QOps) (good : List Event → Prop) : Prop where
  build : ∀ es, (ops.build es).Perm es ∧ good (ops.build es)
  pop : ∀ (t : Nat) (q : List Event), good q →
    ∃ q0, QSpec.Cur (t : Int) q (ops.pop t q).1 q0 ∧ ((ops.pop t q).2).Perm q0 ∧ good (ops.pop t q).2
  push : ∀ q e, good q → (ops.push q e).Perm (q ++ [e]) ∧ good (ops.push q e)

theorem PendOK.perm {cfg : Cfg} {t : Int} {todo p p' : List Event} (h : PendOK cfg t todo p)
    (hp : p'.Perm p) : PendOK cfg t todo p' :=
  ⟨hp.nodup_iff.2 h.1, fun e => by rw [hp.mem_iff]; exact h.2 e⟩

section
variable {cfg : Cfg} {ops : QOps} {good : List Event → Prop}

theorem stepQ_plugin (hv : Valid cfg) {x : Session} (hx : x ∈ cfg.sessions) (c : Core)
    (hvac : c.occ x.station = none) :
    stepQ ops cfg (plugEv x) c =
      ({ c with eventHist := c.eventHist ++ [plugEv x], occ := setOcc c.occ x.station (some x),
                evHist := c.evHist ++ [x.id], pending := ops.push c.pending (unplugEv x), resolve := true,
                lastUpd := some x.arrival }, none) := by
  simp [stepQ, processQ, plugEv, findSession_eq hv hx, hv.registered x hx, hvac]

theorem stepQ_unplug (hv : Valid cfg) {x : Session} (hx : x ∈ cfg.sessions) (c : Core)
    (hocc : c.occ x.station = some x) :
    stepQ ops cfg (unplugEv x) c =
      ({ c with eventHist := c.eventHist ++ [unplugEv x], occ := setOcc c.occ x.station none,
                resolve := true, lastUpd := some x.departure }, none) := by
  simp [stepQ, processQ, unplugEv, findSession_eq hv hx, hv.registered x hx, unplugHits, hocc]

theorem stepQ_rec (r : Int × String) (c : Core) :
    stepQ ops cfg (recEv r) c = ({ c with eventHist := c.eventHist ++ [recEv r], resolve := true }, none) := by
  simp [stepQ, processQ, recEv]

theorem processAllQ_ok (hv : Valid cfg) (hq : ops.Ok good) (t : Int) : ∀ (todo : List Event) (c : Core),
    todo.Nodup → todo.Pairwise (fun a b => a.keyLe b = true) → (∀ e ∈ todo, Cur cfg t e) →
    HistOK cfg t todo c.eventHist → PendOK cfg t todo c.pending → OccOK cfg t todo c.occ → EvhOK c →
    good c.pending →
    ∃ c', processAllQ ops cfg todo c = (c', none) ∧ c'.iter = c.iter ∧ c'.invoked = c.invoked ∧
      HistOK cfg t [] c'.eventHist ∧ PendOK cfg t [] c'.pending ∧ OccOK cfg t [] c'.occ ∧ EvhOK c' ∧
      good c'.pending := by
  intro todo
  induction todo with
  | nil =>
    intro c _ _ _ hH hP hO hE hG
    exact ⟨c, rfl, rfl, rfl, hH, hP, hO, hE, hG⟩
  | cons e rest ih =>
    intro c hn hs hc hH hP hO hE hG
    have hn' := (List.nodup_cons.1 hn).2
    have hs' := (List.pairwise_cons.1 hs).2
    have hc' : ∀ e ∈ rest, Cur cfg t e := fun d hd => hc d (List.mem_cons_of_mem _ hd)
    have hcur := hc e (by simp)
    have hH' := hH.step hn hs hcur
    rcases hcur with ⟨x, hx, rfl, hxa⟩ | ⟨x, hx, rfl, hxa, hxd⟩ | ⟨r, hr, rfl, hrt⟩
    · have hvac := hO.vacant hv hx hxa hs
      have hstep := stepQ_plugin (ops := ops) hv hx c hvac
      obtain ⟨hpp, hpg⟩ := hq.push c.pending (unplugEv x) hG
      obtain ⟨c', h1, h2, h3, h4⟩ := ih
        { c with eventHist := c.eventHist ++ [plugEv x], occ := setOcc c.occ x.station (some x),
                 evHist := c.evHist ++ [x.id], pending := ops.push c.pending (unplugEv x), resolve := true,
                 lastUpd := some x.arrival }
        hn' hs' hc' hH' ((hP.step_plugin hv hx hxa hn).perm hpp) (hO.step_plugin hv hx hxa hn hvac)
        (hE.plugin x _ _ rfl rfl) hpg
      refine ⟨c', ?_, h2, h3, h4⟩
      simp only [processAllQ, hstep]; exact h1
    · have hocc := hO.occupant hx hxa hxd
      have hstep := stepQ_unplug (ops := ops) hv hx c hocc
      obtain ⟨c', h1, h2, h3, h4⟩ := ih
        { c with eventHist := c.eventHist ++ [unplugEv x], occ := setOcc c.occ x.station none,
                 resolve := true, lastUpd := some x.departure }
        hn' hs' hc' hH' (hP.step_other (fun z => plugEv_ne_unplugEv z x))
        (hO.step_unplug hv hx hxa hxd hn)
        (by unfold EvhOK at hE ⊢; simp [hE, unplugEv]) hG
      refine ⟨c', ?_, h2, h3, h4⟩
      simp only [processAllQ, hstep]; exact h1
    · have hstep := stepQ_rec (cfg := cfg) (ops := ops) r c
      obtain ⟨c', h1, h2, h3, h4⟩ := ih
        { c with eventHist := c.eventHist ++ [recEv r], resolve := true }
        hn' hs' hc' hH' (hP.step_other (fun z => plugEv_ne_recEv z r)) hO.step_rec
        (by unfold EvhOK at hE ⊢; simp [hE, recEv]) hG
      refine ⟨c', ?_, h2, h3, h4⟩
      simp only [processAllQ, hstep]; exact h1

theorem eventsStageQ_ok (hv : Valid cfg) (hq : ops.Ok good) {t : Nat} {c : Core} (hI : Inv cfg t c)
    (hG : good c.pending) :
    ∃ c1, eventsStageQ ops cfg c = (c1, none) ∧ c1.iter = t ∧ c1.invoked = c.invoked ∧
      HistOK cfg t [] c1.eventHist ∧ PendOK cfg t [] c1.pending ∧ OccOK cfg t [] c1.occ ∧ EvhOK c1 ∧
      good c1.pending := by
  have hiter := hI.iter
  subst hiter
  unfold eventsStageQ
  obtain ⟨q0, hcur, hperm, hgood⟩ := hq.pop c.iter c.pending hG
  obtain ⟨hp1, hp2, hp3⟩ := hcur.spec
  have hmem : ∀ e, e ∈ (ops.pop c.iter c.pending).1 ↔ Cur cfg (c.iter : Int) e := by
    intro e
    rw [hp1.mem_iff, List.mem_filter, hI.pend_mem, cur_iff_expected_le]
    simp
  have hrest : ∀ e, e ∈ (ops.pop c.iter c.pending).2 ↔ e ∈ c.pending ∧ (c.iter : Int) < e.ts := by
    intro e
    rw [hperm.mem_iff, hp3, List.mem_filter]
    simp
  obtain ⟨c1, h1, h2, h3, h4⟩ := processAllQ_ok hv hq (c.iter : Int) _
    { c with pending := (ops.pop c.iter c.pending).2 }
    (hp1.nodup_iff.2 (hI.pend_nodup.filter _))
    (hp2.imp (fun h => (keyLe_eq_true_iff _ _).2 h)) (fun e he => (hmem e).1 he)
    ⟨hI.hist_nodup, fun e => by
        rw [hI.hist_mem e]
        constructor
        · exact Or.inl
        · rintro (h | ⟨hc, hn⟩)
          · exact h
          · exact absurd ((hmem e).2 hc) hn,
      hI.hist_sorted, fun h hh d hd => keyLe_of_ts_lt (by
        have := ((hI.hist_mem h).1 hh).ts_lt
        have := ((hmem d).1 hd).ts_eq
        omega)⟩
    ⟨hperm.nodup_iff.2 (hp3 ▸ hI.pend_nodup.filter _), fun e => by
        show e ∈ (ops.pop c.iter c.pending).2 ↔ _
        rw [hrest e, hI.pend_mem e]
        constructor
        · exact Or.inl
        · rintro (h | ⟨x, hx, rfl, hxa, hn⟩)
          · exact h
          · exact absurd ((hmem _).2 (Or.inl ⟨x, hx, rfl, hxa⟩)) hn⟩
    (fun st x => by
        rw [hI.occ st x]
        constructor
        · rintro ⟨hx, hs, h1, h2⟩
          exact ⟨hx, hs, Or.inl ⟨h1, h2, fun hd => (hmem _).2 (Or.inr (Or.inl ⟨x, hx, rfl, h1, hd⟩))⟩⟩
        · rintro ⟨hx, hs, ⟨h1, h2, _⟩ | ⟨h1, hn⟩⟩
          · exact ⟨hx, hs, h1, h2⟩
          · exact absurd ((hmem _).2 (Or.inl ⟨x, hx, rfl, h1⟩)) hn)
    hI.evh hgood
  exact ⟨c1, h1, h2, h3, h4⟩

/-- one trip round the loop, any conforming queue: no error, invariant of the next period -/
theorem bodyQ_ok (hv : Valid cfg) (hq : ops.Ok good) {sched apply : Core → Option Err}
    (hs : ∀ c, sched c = none) (ha : ∀ c, apply c = none) {t : Nat} {c : Core} (hI : Inv cfg t c)
    (hG : good c.pending) :
    ∃ c', bodyQ ops cfg sched apply c = (c', none) ∧ Inv cfg (t + 1) c' ∧ good c'.pending := by
  obtain ⟨c1, h1, hit, _, hH, hP, hO, hE, hG1⟩ := eventsStageQ_ok hv hq hI hG
  have key : ∀ c2 : Core, c2.iter = t + 1 → c2.pending = c1.pending → c2.occ = c1.occ →
      c2.resolve = false → c2.eventHist = c1.eventHist → c2.evHist = c1.evHist → Inv cfg (t + 1) c2 := by
    intro c2 e1 e2 e3 e4 e5 e6
    have hc : ((t + 1 : Nat) : Int) = (t : Int) + 1 := by push_cast; rfl
    refine ⟨e1, e2 ▸ hP.1, ?_, ?_, e4, e5 ▸ hH.1, ?_, e5 ▸ hH.2.2.1, ?_⟩
    · intro e
      rw [e2, hP.2 e, hc, expected_succ hv]
      simp
    · intro st x
      rw [e3, occ_after_events hv hO, hc]
      constructor
      · rintro ⟨a, b, c', d⟩; exact ⟨a, b, by omega, by omega⟩
      · rintro ⟨a, b, c', d⟩; exact ⟨a, b, by omega, by omega⟩
    · intro e
      rw [e5, hH.2.1 e, hc, done_succ hv]
      simp
    · unfold EvhOK at hE ⊢
      rw [e6, e5, hE]
  unfold bodyQ
  rw [h1]
  simp only
  by_cases hns : needsSched cfg.maxRecompute c1 = true
  · simp only [hns, if_true, hs, finish, ha]
    exact ⟨_, rfl, key _ (by simp [advance, markScheduled, markInvoked, hit]) rfl rfl rfl rfl rfl, hG1⟩
  · simp only [hns, finish, ha]
    refine ⟨_, rfl, key _ (by simp [advance, hit]) rfl rfl ?_ rfl rfl, hG1⟩
    simp only [needsSched, Bool.or_eq_true, not_or, Bool.not_eq_true] at hns
    simpa [advance] using hns.1

theorem initQ_inv (hv : Valid cfg) (hq : ops.Ok good) : Inv cfg 0 (initQ ops cfg) ∧ good (initQ ops cfg).pending := by
  have h0 := init_inv hv
  obtain ⟨hp, hg⟩ := hq.build (initPending cfg)
  refine ⟨⟨rfl, ?_, ?_, h0.occ, rfl, h0.hist_nodup, h0.hist_mem, h0.hist_sorted, h0.evh⟩, hg⟩
  · exact hp.nodup_iff.2 h0.pend_nodup
  · intro e
    show e ∈ ops.build (initPending cfg) ↔ _
    rw [hp.mem_iff]; exact h0.pend_mem e

theorem runQ_spec (hv : Valid cfg) (hq : ops.Ok good) {sched apply : Core → Option Err}
    (hs : ∀ c, sched c = none) (ha : ∀ c, apply c = none) : ∀ (n t : Nat) (c : Core), Inv cfg t c →
    good c.pending → t ≤ horizon cfg →
    ∃ c', runQ ops cfg sched apply n c = (c', none) ∧ Inv cfg (min (t + n) (horizon cfg)) c' := by
  intro n
  induction n with
  | zero =>
    intro t c hI _ ht
    exact ⟨c, rfl, by simpa [Nat.min_eq_left ht] using hI⟩
  | succ n ih =>
    intro t c hI hG ht
    rcases Nat.lt_or_ge t (horizon cfg) with hlt | hge
    · have hp := (pending_ne_nil_iff hv hI).2 hlt
      have hg : guard c = true := by
        unfold guard
        cases hpe : c.pending with
        | nil => exact absurd hpe hp
        | cons a l => simp
      obtain ⟨c1, hb, hI1, hG1⟩ := bodyQ_ok hv hq hs ha hI hG
      obtain ⟨c', hr, hI'⟩ := ih (t + 1) c1 hI1 hG1 hlt
      refine ⟨c', ?_, by rwa [show t + (n + 1) = t + 1 + n by omega]⟩
      simp only [runQ, hg, if_true, hb]
      exact hr
    · have hte : t = horizon cfg := le_antisymm ht hge
      have hp : c.pending = [] := by
        by_contra h
        exact absurd ((pending_ne_nil_iff hv hI).1 h) (by omega)
      have hg : guard c = false := by simp [guard, hp, hI.resolve]
      refine ⟨c, by simp [runQ, hg], ?_⟩
      rw [Nat.min_eq_right (by omega)]
      exact hte ▸ hI

end

/-! ### (C) the two implementations -/

theorem canonQ_ok : canonQ.Ok (fun _ => True) where
  build := fun _ => ⟨List.Perm.refl _, trivial⟩
  pop := fun t q _ => ⟨_, popCurrent_cur t _ q rfl, List.Perm.refl _, trivial⟩
  push := fun _ _ _ => ⟨List.Perm.refl _, trivial⟩

theorem processAllQ_canon (cfg : Cfg) : ∀ (l : List Event) (c : Core),
    processAllQ canonQ cfg l c = processAll cfg l c := by
  intro l
  induction l with
  | nil => intro c; rfl
  | cons e es ih =>
    intro c
    have hstep : stepQ canonQ cfg e c = step cfg e c := rfl
    simp only [processAllQ, processAll, hstep]
    rcases step cfg e c with ⟨c2, _ | err⟩
    · exact ih c2
    · rfl

/-- with the canonical queue the generalised loop IS the loop of `EventCore.lean` -/
theorem bodyQ_canon (cfg : Cfg) (sched apply : Core → Option Err) (c : Core) :
    bodyQ canonQ cfg sched apply c = body cfg sched apply c := by
  unfold bodyQ body eventsStageQ eventsStage
  rw [processAllQ_canon]
  rfl

theorem runQ_canon (cfg : Cfg) (sched apply : Core → Option Err) : ∀ (n : Nat) (c : Core),
    runQ canonQ cfg sched apply n c = run cfg sched apply n c := by
  intro n
  induction n with
  | zero => intro c; rfl
  | succ n ih =>
    intro c
    simp only [runQ, run, bodyQ_canon]
    split
    · rcases body cfg sched apply c with ⟨c', _ | e⟩
      · exact ih c'
      · rfl
    · rfl

/-- the representation invariant of the heap queue: the list is a binary heap in array order -/
def heapGood (q : List Event) : Prop := Heap.Inv Event.keyLt q.toArray

/-- CPython's array heap meets the queue specification (C11's refinement theorems) -/
theorem heapQ_ok : heapQ.Ok heapGood where
  build := fun es => by
    have r := Refines.addAll Refines.empty0 es
    refine ⟨?_, ?_⟩
    · simpa [heapQ, QSpec.empty0] using r.perm
    · simpa [heapQ, heapGood] using r.inv
  pop := fun t q hg => by
    have r : Refines { heap := q.toArray, timestep := 0 } { pending := q, timestep := 0 } :=
      ⟨hg, by simp, rfl⟩
    obtain ⟨s', hstep, r'⟩ := r.step (.getCurrent (t : Int))
    simp only [Queue.step] at hstep r'
    cases hstep with
    | cur _ _ q' hcur =>
      exact ⟨q', hcur, by simpa [heapQ] using r'.perm, by simpa [heapQ, heapGood] using r'.inv⟩
  push := fun q e hg => by
    obtain ⟨i1, i2⟩ := Heap.heappush_spec keyLt_swo q.toArray e hg
    refine ⟨?_, by simpa [heapQ, heapGood] using i1⟩
    have := Array.perm_iff_toList_perm.mp i2
    simpa [heapQ] using this

end Acn.EventCore
