/-
  Helper lemmas for C09 (registry, decoder 2/5): the well-formedness predicate `WF` under which the concrete
  decoder inverts the concrete encoder, session lookup (`evIdx` vs `Sim.evOf`), generic list lemmas for
  `sequence` / `filterMap`, and `objAt` on every id range of the layout.
-/
import AcnProofs.Lemmas.RegistryDecode

namespace Acn.RegistrySim
open Acn Acn.EventCore Acn.Sim Acn.Registry
variable {K : Type}

/-- the process-level data of a state (what `Ambient` carries past the JSON document) -/
def ambOf (s : State K) : Ambient := ⟨s.core.invoked, s.noiseIdx, s.occLog⟩

/-- `s` with the process-level data replaced -/
def setAmb (amb : Ambient) (s : State K) : State K :=
  { s with core := { s.core with invoked := amb.invoked }, noiseIdx := amb.noiseIdx, occLog := amb.occLog }

theorem setAmb_ambOf (s : State K) : setAmb (ambOf s) s = s := rfl

/-- WELL-FORMED simulator state: what `decode ∘ encode = id` needs, and nothing else.
    * `evsLen`, `pilotLen`: the decoder reads `cfg.evs.length` EV objects and one pilot per registered EVSE;
    * `occReg`: only registered stations are occupied (the JSON has no place for any other occupant);
    * `occEv`: the occupant of a station IS the EV object of its session (`EVSE._ev`): the static fields agree;
    * `pend`, `hist`, `evh`: every plug-in / unplug event and every `ev_history` key has an EV object. -/
structure WF (cfg : Cfg K) (s : State K) : Prop where
  evsLen : s.evs.length = cfg.evs.length
  pilotLen : s.evsePilot.length = cfg.stations.length
  occReg : ∀ st x, s.core.occ st = some x → ∃ stn ∈ cfg.stations, stn.id = st
  occEv : ∀ st x, s.core.occ st = some x → (evOf s x.id).map sessionOf = some x
  pend : ∀ e ∈ s.core.pending, e.kind ≠ .recompute → (evOf s e.sess).isSome = true
  hist : ∀ e ∈ s.core.eventHist, e.kind ≠ .recompute → (evOf s e.sess).isSome = true
  evh : ∀ sid ∈ s.core.evHist, (evOf s sid).isSome = true

/-- the session ids through which `to_json` reaches EV objects: `ev_history`, the EV events (pending and
    past), the occupants of the registered stations -/
def refSessions (cfg : Cfg K) (s : State K) : List String :=
  s.core.evHist ++ ((s.core.pending ++ s.core.eventHist).filter fun e => e.kind != .recompute).map (·.sess)
    ++ cfg.stations.filterMap fun st => (s.core.occ st.id).map (·.id)

/-- every EV object is referenced (otherwise `to_json` does not write it and `from_json` cannot restore it) -/
def AllRef (cfg : Cfg K) (s : State K) : Prop :=
  ∀ j, j < s.evs.length → ∃ sid ∈ refSessions cfg s, evIdx s sid = some j

/-! ### session lookup -/

theorem evIdxFrom_spec : ∀ (es : List (Evse.Ev K)) (sid : String) (n : Nat),
    evIdxFrom es sid n = (es.find? fun e => e.session == sid).map fun _ => n + es.findIdx (fun e => e.session == sid)
  | [], _, _ => rfl
  | e :: es, sid, n => by
    simp only [evIdxFrom, List.find?_cons, List.findIdx_cons]
    by_cases h : e.session = sid
    · simp [h]
    · have hb : (e.session == sid) = false := by simpa using h
      rw [if_neg h, hb, evIdxFrom_spec es sid (n + 1)]
      simp only [cond_false]
      cases es.find? fun e => e.session == sid <;> simp; omega

theorem evIdxFrom_get : ∀ (es : List (Evse.Ev K)) (sid : String) (n : Nat),
    (es.find? fun e => e.session == sid) = (evIdxFrom es sid n).bind fun j => es[j - n]?
  | [], _, _ => rfl
  | e :: es, sid, n => by
    simp only [evIdxFrom, List.find?_cons]
    by_cases h : e.session = sid
    · simp [h]
    · have hb : (e.session == sid) = false := by simpa using h
      rw [if_neg h, hb, evIdxFrom_get es sid (n + 1)]
      simp only
      cases hk : evIdxFrom es sid (n + 1) with
      | none => rfl
      | some j =>
        have := (evIdxFrom_bound es sid (n + 1) j hk).1
        simp only [Option.bind_some]
        have : j - n = (j - (n + 1)) + 1 := by omega
        rw [this, List.getElem?_cons_succ]

/-- `Sim.evOf` (the model's own session lookup) is "the EV at `evIdx`" -/
theorem evOf_eq (s : State K) (sid : String) : evOf s sid = (evIdx s sid).bind fun j => s.evs[j]? := by
  unfold evOf evIdx
  rw [evIdxFrom_get s.evs sid 0]
  rfl

theorem evOf_session {s : State K} {sid : String} {e : Evse.Ev K} (h : evOf s sid = some e) : e.session = sid := by
  unfold evOf at h
  have := List.find?_some h
  simpa using this

theorem evIdx_of_evOf {s : State K} {sid : String} {e : Evse.Ev K} (h : evOf s sid = some e) (d : Evse.Ev K) :
    ∃ j, evIdx s sid = some j ∧ j < s.evs.length ∧ s.evs.getD j d = e := by
  rw [evOf_eq] at h
  cases hk : evIdx s sid with
  | none => rw [hk] at h; simp at h
  | some j =>
    rw [hk] at h
    simp only [Option.bind_some] at h
    have hb := evIdxFrom_bound s.evs sid 0 j hk
    exact ⟨j, rfl, by omega, by simp [List.getD, h]⟩

theorem evIdx_of_isSome {s : State K} {sid : String} (h : (evOf s sid).isSome = true) (d : Evse.Ev K) :
    ∃ j, evIdx s sid = some j ∧ j < s.evs.length ∧ (s.evs.getD j d).session = sid := by
  obtain ⟨e, he⟩ := Option.isSome_iff_exists.1 h
  obtain ⟨j, h1, h2, h3⟩ := evIdx_of_evOf he d
  exact ⟨j, h1, h2, by rw [h3]; exact evOf_session he⟩

/-! ### generic list lemmas -/

theorem sequence_range {α : Type} (d : α) (l : List α) (f : Nat → Option α)
    (h : ∀ p, p < l.length → f p = some (l.getD p d)) : sequence ((List.range l.length).map f) = some l := by
  have key : ∀ p ∈ List.range l.length, f p = some (l.getD p d) := fun p hp => h p (List.mem_range.1 hp)
  rw [List.map_congr_left key]
  have : (List.range l.length).map (fun j => some (l.getD j d)) = ((List.range l.length).map (fun j => l.getD j d)).map some := by
    simp
  rw [this, range_map_getD, sequence_map_some]

theorem sequence_map_of {α β : Type} (f : α → Option β) (g : α → β) : ∀ (l : List α), (∀ a ∈ l, f a = some (g a)) →
    sequence (l.map f) = some (l.map g)
  | [], _ => rfl
  | a :: as, h => by
    have h1 := h a (by simp)
    have h2 := sequence_map_of f g as (fun b hb => h b (by simp [hb]))
    simp only [List.map_cons, sequence, h1, h2]

theorem filterMap_ref_pairs {α : Type} (a : α → String) (b : α → Nat) : ∀ l : List α,
    (l.flatMap fun x => [Item.scalar (a x), Item.ref (b x)]).filterMap itemRef = l.map b
  | [] => rfl
  | x :: xs => by
    simp only [List.flatMap_cons, List.filterMap_append, filterMap_ref_pairs a b xs, List.map_cons]
    rfl

theorem filterMap_scalar_pairs {α : Type} (a : α → String) (c : α → Item) : ∀ l : List α,
    (∀ x ∈ l, ∃ i, c x = .ref i) →
    (l.flatMap fun x => [Item.scalar (a x), c x]).filterMap itemScalar = l.map a
  | [], _ => rfl
  | x :: xs, h => by
    obtain ⟨i, hi⟩ := h x (by simp)
    simp only [List.flatMap_cons, List.filterMap_append,
      filterMap_scalar_pairs a c xs (fun y hy => h y (by simp [hy])), List.map_cons, hi]
    simp [itemScalar]

theorem filterMap_ref_refs {α : Type} (b : α → Nat) (l : List α) :
    (l.map fun x => Item.ref (b x)).filterMap itemRef = l.map b := by
  induction l with
  | nil => rfl
  | cons x xs ih => simp [itemRef, ih]

/-! ### the object under every id -/

section objAt
variable (sh : Show K) (cfg : Cfg K) (s : State K)

theorem size_eq : (layout cfg s).size =
    3 + cfg.stations.length + 2 * s.evs.length + s.core.pending.length + s.core.eventHist.length := rfl

theorem objAt_0 : objAt sh cfg s 0 = simObj sh cfg s := by simp [objAt]
theorem objAt_1 : objAt sh cfg s 1 = netObj cfg := by simp [objAt]
theorem objAt_2 : objAt sh cfg s 2 = queueObj cfg s := by simp [objAt]

theorem objAt_evse {i : Nat} (hi : i < cfg.stations.length) : objAt sh cfg s (3 + i) = evseObj sh cfg s i := by
  have hbE : (layout cfg s).bE = 3 + cfg.stations.length := rfl
  unfold objAt
  simp only []
  rw [if_neg (by omega), if_neg (by omega), if_neg (by omega), if_pos (by omega)]
  congr 1
  omega

theorem objAt_pending {p : Nat} (hp : p < s.core.pending.length) :
    objAt sh cfg s ((layout cfg s).bP + p) = eventObj (layout cfg s) s (s.core.pending.getD p default) := by
  have hbE : (layout cfg s).bE = 3 + cfg.stations.length := rfl
  have hbP : (layout cfg s).bP = (layout cfg s).bE + 2 * s.evs.length := rfl
  have hbH : (layout cfg s).bH = (layout cfg s).bP + s.core.pending.length := rfl
  unfold objAt
  simp only []
  rw [if_neg (by omega), if_neg (by omega), if_neg (by omega), if_neg (by omega), if_neg (by omega), if_pos (by omega)]
  congr 2
  omega

theorem objAt_hist {h : Nat} :
    objAt sh cfg s ((layout cfg s).bH + h) = eventObj (layout cfg s) s (s.core.eventHist.getD h default) := by
  have hbE : (layout cfg s).bE = 3 + cfg.stations.length := rfl
  have hbP : (layout cfg s).bP = (layout cfg s).bE + 2 * s.evs.length := rfl
  have hbH : (layout cfg s).bH = (layout cfg s).bP + s.core.pending.length := rfl
  unfold objAt
  simp only []
  rw [if_neg (by omega), if_neg (by omega), if_neg (by omega), if_neg (by omega), if_neg (by omega), if_neg (by omega)]
  congr 2
  omega

theorem battId_lt {j : Nat} (hj : j < s.evs.length) : (layout cfg s).battId j < (layout cfg s).size := by
  have : (layout cfg s).battId j = 3 + cfg.stations.length + 2 * j + 1 := rfl
  rw [size_eq]; omega

theorem evId_lt' {j : Nat} (hj : j < s.evs.length) : (layout cfg s).evId j < (layout cfg s).size :=
  evId_lt _ hj

end objAt

end Acn.RegistrySim
