/-
  Helper lemmas for C02 (2/4): what one `update_pilots` pass (charging_network.py:403-428) does to
  the EVs of the full simulator model `Acn.Sim`: frame conditions, EV lookup through
  `replaceEv`, and the station loop — every connected EV is charged exactly once, by its own
  station, with that station's voltage; every other EV is left alone.
-/
import AcnModel.Sim
import AcnProofs.Lemmas.LedgerBattery

set_option linter.unusedSectionVars false
set_option linter.unusedSimpArgs false

namespace Acn.Ledger
open Acn Acn.Sim Acn.EventCore Acn.Evse

variable {K : Type} [Field K] [LinearOrder K] [IsStrictOrderedRing K] [HasExp K]

/-- lookup of an EV by session id in a list of EVs (what `Sim.evOf` does on `s.evs`) -/
def evIn (evs : List (Ev K)) (id : String) : Option (Ev K) := evs.find? (fun e => e.session == id)

theorem evOf_eq (s : State K) (id : String) : evOf s id = evIn s.evs id := rfl

theorem evIn_session {evs : List (Ev K)} {id : String} {e : Ev K} (h : evIn evs id = some e) :
    e.session = id := by
  have := List.find?_some h
  simpa using this

theorem evIn_replace_same (evs : List (Ev K)) (e1 : Ev K) :
    evIn (replaceEv evs e1) e1.session = (evIn evs e1.session).map (fun _ => e1) := by
  induction evs with
  | nil => simp [evIn, replaceEv]
  | cons d ds ih =>
    unfold evIn replaceEv at *
    by_cases hd : d.session = e1.session
    · simp [List.find?_cons, hd]
    · have hd' : (d.session == e1.session) = false := by simpa using hd
      simp only [List.map_cons, hd', List.find?_cons, Bool.false_eq_true, if_false]
      exact ih

theorem evIn_replace_other (evs : List (Ev K)) (e1 : Ev K) (id : String) (h : id ≠ e1.session) :
    evIn (replaceEv evs e1) id = evIn evs id := by
  induction evs with
  | nil => simp [evIn, replaceEv]
  | cons d ds ih =>
    unfold evIn replaceEv at *
    by_cases hd : d.session = e1.session
    · have h1 : (e1.session == id) = false := by simpa using fun h' => h h'.symm
      have h2 : (d.session == id) = false := by rw [hd]; exact h1
      simp only [List.map_cons, hd, beq_self_eq_true, if_true, List.find?_cons, h1, h2]
      exact ih
    · have hd' : (d.session == e1.session) = false := by simpa using hd
      simp only [List.map_cons, hd', List.find?_cons, Bool.false_eq_true, if_false]
      rw [ih]

theorem replaceEv_sessions (evs : List (Ev K)) (e1 : Ev K) :
    (replaceEv evs e1).map (·.session) = evs.map (·.session) := by
  induction evs with
  | nil => simp [replaceEv]
  | cons d ds ih =>
    unfold replaceEv at *
    simp only [List.map_cons, List.cons.injEq]
    refine ⟨?_, ih⟩
    by_cases hd : d.session = e1.session
    · simp [hd]
    · have hd' : (d.session == e1.session) = false := by simpa using hd
      simp [hd']

/-- occupant session id of a station, as the occupancy snapshot records it -/
def occId (occ : String → Option Session) (st : Station K) : Option String := (occ st.id).map (·.id)

/-! ### one station -/

theorem setPilotAt_ok {cfg : Cfg K} {s s' : State K} {i : Nat} {st : Station K}
    (h : setPilotAt cfg s i st = (s', none)) :
    s'.core = s.core ∧ s'.rates = s.rates ∧ s'.peak = s.peak ∧ s'.occLog = s.occLog ∧
    s'.pilots = s.pilots ∧
    ((occupantEv s st.id = none ∧ s'.evs = s.evs) ∨
     (∃ e e' p ν, occupantEv s st.id = some e ∧ e.charge p st.voltage cfg.period ν = .ok e' ∧
        s'.evs = replaceEv s.evs e')) := by
  unfold setPilotAt at h
  simp only at h
  by_cases hv : validRate (atolOf cfg st.kind) cfg.atolFinite st.kind (s.pilots.get i s.core.iter) = true
  · cases hocc : occupantEv s st.id with
    | none =>
      simp only [hocc, Evse.setPilot, hv, if_true, Prod.mk.injEq, and_true] at h
      subst h
      exact ⟨rfl, rfl, rfl, rfl, rfl, Or.inl ⟨rfl, rfl⟩⟩
    | some e =>
      cases hc : e.charge (s.pilots.get i s.core.iter) st.voltage cfg.period (noiseAt cfg s.noiseIdx) with
      | error x => simp [hocc, Evse.setPilot, hv, hc] at h
      | ok e' =>
        simp only [hocc, Evse.setPilot, hv, if_true, hc, Prod.mk.injEq, and_true] at h
        subst h
        exact ⟨rfl, rfl, rfl, rfl, rfl, Or.inr ⟨e, e', _, _, rfl, hc, rfl⟩⟩
  · simp [Evse.setPilot, hv] at h

/-! ### all stations -/

/-- no two of the listed stations hold occupants with the same session id -/
def DistinctOcc (occ : String → Option Session) (sts : List (Station K)) : Prop :=
  sts.Pairwise (fun a b => ∀ x y, occ a.id = some x → occ b.id = some y → x.id ≠ y.id)

theorem occupantEv_eq (s : State K) (st : String) :
    occupantEv s st = match s.core.occ st with
      | some x => evIn s.evs x.id
      | none => none := rfl

/-- the station loop of `update_pilots`, for the stations `rest` still to be served -/
theorem updatePilotsFrom_ok (cfg : Cfg K) : ∀ (rest : List (Station K)) (i : Nat) (s s' : State K),
    updatePilotsFrom cfg i rest s = (s', none) → DistinctOcc s.core.occ rest →
    s'.core = s.core ∧ s'.rates = s.rates ∧ s'.peak = s.peak ∧ s'.occLog = s.occLog ∧
    s'.pilots = s.pilots ∧ s'.evs.map (·.session) = s.evs.map (·.session) ∧
    (∀ id, (∀ st ∈ rest, occId s.core.occ st ≠ some id) → evIn s'.evs id = evIn s.evs id) ∧
    (∀ st ∈ rest, ∀ x e, s.core.occ st.id = some x → evIn s.evs x.id = some e →
      ∃ e', evIn s'.evs x.id = some e' ∧
        e'.delivered - e.delivered = energy e'.rate st.voltage cfg.period ∧
        e'.batt.charge - e.batt.charge = energy e'.rate st.voltage cfg.period) := by
  intro rest
  induction rest with
  | nil =>
    intro i s s' h _
    simp only [updatePilotsFrom, Prod.mk.injEq, and_true] at h
    subst h
    exact ⟨rfl, rfl, rfl, rfl, rfl, rfl, fun _ _ => rfl, fun st hst => absurd hst (by simp)⟩
  | cons st rest ih =>
    intro i s s' h hd
    unfold updatePilotsFrom at h
    cases h1 : setPilotAt cfg s i st with
    | mk s1 err =>
      cases err with
      | some e => simp [h1] at h
      | none =>
        simp only [h1] at h
        obtain ⟨c1, r1, p1, l1, q1, hev⟩ := setPilotAt_ok h1
        have hd' := List.pairwise_cons.1 hd
        obtain ⟨c2, r2, p2, l2, q2, m2, hB, hC⟩ := ih (i + 1) s1 s' h (by rw [c1]; exact hd'.2)
        rw [c1] at hB hC
        -- sessions of the list of EVs after the first station
        have m1 : s1.evs.map (·.session) = s.evs.map (·.session) := by
          rcases hev with ⟨_, he⟩ | ⟨e, e', p, ν, _, _, he⟩
          · rw [he]
          · rw [he, replaceEv_sessions]
        refine ⟨c2.trans c1, r2.trans r1, p2.trans p1, l2.trans l1, q2.trans q1, m2.trans m1, ?_, ?_⟩
        · -- untouched EVs
          intro id hid
          rw [hB id (fun st' hst' => hid st' (List.mem_cons_of_mem _ hst'))]
          rcases hev with ⟨_, he⟩ | ⟨e, e', p, ν, ho, hc, he⟩
          · rw [he]
          · rw [he]
            apply evIn_replace_other
            rw [occupantEv_eq] at ho
            cases hx : s.core.occ st.id with
            | none => simp [hx] at ho
            | some x =>
              simp only [hx] at ho
              have hs := (ev_charge_ledger hc).2.2.1
              rw [hs, evIn_session ho]
              intro heq
              exact hid st (by simp) (by simp [occId, hx, heq])
        · -- the EV connected to one of the stations
          intro st0 hst0 x e hx he
          rcases List.mem_cons.1 hst0 with rfl | hst0
          · -- served right now; none of the later stations touches it again
            have ho : occupantEv s st0.id = some e := by rw [occupantEv_eq]; simp only [hx]; exact he
            rcases hev with ⟨hn, _⟩ | ⟨e0, e', p, ν, ho', hc, hevs⟩
            · rw [ho] at hn; simp at hn
            · rw [ho] at ho'
              obtain rfl : e = e0 := by simpa using ho'
              obtain ⟨g1, g2, g3, _⟩ := ev_charge_ledger hc
              have hsx : e'.session = x.id := by rw [g3]; exact evIn_session he
              refine ⟨e', ?_, g1, g2⟩
              rw [hB x.id]
              · rw [hevs, ← hsx, evIn_replace_same, hsx, he]; rfl
              · intro st' hst' hcon
                simp only [occId] at hcon
                cases hy : s.core.occ st'.id with
                | none => simp [hy] at hcon
                | some y =>
                  simp only [hy, Option.map_some, Option.some.injEq] at hcon
                  exact hd'.1 st' hst' x y hx hy hcon.symm
          · -- served later: the first station does not touch it
            have he1 : evIn s1.evs x.id = some e := by
              rcases hev with ⟨_, hevs⟩ | ⟨e0, e', p, ν, ho', hc, hevs⟩
              · rw [hevs]; exact he
              · rw [hevs, evIn_replace_other]
                · exact he
                · rw [occupantEv_eq] at ho'
                  cases hy : s.core.occ st.id with
                  | none => simp [hy] at ho'
                  | some y =>
                    simp only [hy] at ho'
                    rw [(ev_charge_ledger hc).2.2.1, evIn_session ho']
                    exact fun heq => hd'.1 st0 hst0 y x hy hx heq.symm
            exact hC st0 hst0 x e hx he1

end Acn.Ledger
