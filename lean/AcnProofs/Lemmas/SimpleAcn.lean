/-
  Helper lemmas for the `simple_acn` part of C16 (`AcnProofs/C16Simple.lean`): literals and the zero test in an
  ordered field, the all-ones row at 0° (aggregate = plain sum, imaginary part 0), and feasibility of a
  one-constraint network of that shape as `|Σ_j S_j(t)| ≤ bound` for every period.
-/
import AcnModel.SimpleAcn
import AcnProofs.Lemmas.FeasSums
import Mathlib.Tactic

namespace Acn.SimpleAcnLemmas
open Acn Acn.Feas Acn.SimpleAcn Acn.Gen.SimpleAcn

set_option linter.unusedSectionVars false

variable {K : Type} [Field K] [LinearOrder K] [IsStrictOrderedRing K]

theorem intK_eq (z : Int) : (intK z : K) = (z : K) := by
  unfold intK
  obtain ⟨n, rfl | rfl⟩ := z.eq_nat_or_neg
  · simp
  · by_cases h : (n : Int) = 0
    · have : n = 0 := by exact_mod_cast h
      subst this; simp
    · simp

theorem litK_eq (n : Int) (d : Nat) : (litK n d : K) = (n : K) / (d : K) := by
  simp [litK, intK_eq]

theorem isZero_iff (x : K) : isZero x = true ↔ x = 0 := by
  unfold isZero
  rw [Bool.and_eq_true, decide_eq_true_iff, decide_eq_true_iff]
  exact ⟨fun h => le_antisymm h.1 h.2, fun h => by subst h; exact ⟨le_refl _, le_refl _⟩⟩

theorem isZero_zero : isZero (0 : K) = true := (isZero_iff 0).mpr rfl

theorem length_col (S : List (List K)) (t : Nat) : (col S t).length = S.length := by simp [col]

/-- the all-ones row against unit phasors (1, 0): the real part of the aggregate is the plain sum … -/
theorem wsum_ones_ones (x : List K) :
    wsum (List.replicate x.length 1) x (List.replicate x.length 1) = x.sum := by
  induction x with
  | nil => simp
  | cons a x ih => simp [List.replicate_succ, ih]

/-- … and the imaginary part is 0 -/
theorem wsum_ones_zeros (x : List K) :
    wsum (List.replicate x.length 1) x (List.replicate x.length 0) = 0 := by
  induction x with
  | nil => simp
  | cons a x ih => simp [List.replicate_succ, ih]

theorem map_const_eq {α : Type} (ids : List α) (c : K) : (ids.map fun _ => c) = List.replicate ids.length c := by
  induction ids with
  | nil => rfl
  | cons a l ih => simp [List.replicate_succ, ih]

/-- one all-ones constraint over `n` stations at 0°: accepted ⇔ in every period `0 ≤ b` and `|Σ_j S_j(t)| ≤ b`,
    `b = L + max(vt, rt·L)` — any `n`, any limit, any tolerances, any number of periods -/
theorem netFeasible_ones_iff (n : Nat) (L vt rt : K) (S : List (List K)) (hS : S.length = n) :
    netFeasible [List.replicate n 1] [L] (List.replicate n 1) (List.replicate n 0) vt rt S = true ↔
      ∀ t, t < periods S → 0 ≤ L + max vt (rt * L) ∧ |(col S t).sum| ≤ L + max vt (rt * L) := by
  unfold netFeasible
  simp only [List.isEmpty_cons, Bool.false_eq_true, if_false, List.all_eq_true, List.mem_range,
    List.zip_cons_cons, List.zip_nil_right, List.mem_singleton, forall_eq, rowOk, magLe_iff, aggRe_eq, aggIm_eq,
    tolOf_eq]
  have hl : ∀ t, n = (col S t).length := fun t => by rw [length_col, hS]
  constructor
  · intro h t ht
    obtain ⟨h0, h1⟩ := h t ht
    refine ⟨h0, ?_⟩
    rw [hl t, wsum_ones_ones, wsum_ones_zeros] at h1
    have : (col S t).sum ^ 2 ≤ (L + max vt (rt * L)) ^ 2 := by simpa using h1
    exact abs_le_of_sq_le_sq this h0
  · intro h t ht
    obtain ⟨h0, h1⟩ := h t ht
    refine ⟨h0, ?_⟩
    rw [hl t, wsum_ones_ones, wsum_ones_zeros]
    have : (col S t).sum ^ 2 ≤ (L + max vt (rt * L)) ^ 2 := by
      rw [sq_le_sq, abs_of_nonneg h0]; exact h1
    simpa using this

theorem total_eq (S : List (List K)) (t : Nat) : total S t = (col S t).sum := by
  simp [total]

end Acn.SimpleAcnLemmas
