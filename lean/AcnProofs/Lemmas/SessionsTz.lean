/-
  Helper lemmas for the zone-aware part of C15 (`AcnProofs/C15Tz.lean`): truncation under a shift
  by whole units, the structure of `getEvsW`, and transparency of a memo table whose key
  determines the memoised function's value.
-/
import AcnModel.SessionsTz
import AcnProofs.Lemmas.Sessions
import Mathlib.Tactic

set_option linter.unusedSectionVars false

namespace Acn.SessionsTzL
open Acn Acn.Sessions Acn.SessionsL Acn.SessionsTz Acn.Evse

section trunc
variable {K : Type} [Field K] [LinearOrder K] [IsStrictOrderedRing K] [FloorRing K]

/-- `int()` commutes with a shift by a whole number as long as both sides are non-negative -/
theorem pyTrunc_add_int {x : K} (k : Int) (hx : 0 ≤ x) (hxk : 0 ≤ x + (k : K)) :
    pyTrunc (x + (k : K)) = pyTrunc x + k := by
  rw [pyTrunc_nonneg hx, pyTrunc_nonneg hxk, Int.floor_add_intCast]

/-- truncation of a sum of non-negative numbers: between the sum of the parts and one more -/
theorem pyTrunc_add_bounds {x y : K} (hx : 0 ≤ x) (hy : 0 ≤ y) :
    pyTrunc x + pyTrunc y ≤ pyTrunc (x + y) ∧ pyTrunc (x + y) ≤ pyTrunc x + pyTrunc y + 1 := by
  rw [pyTrunc_nonneg hx, pyTrunc_nonneg hy, pyTrunc_nonneg (add_nonneg hx hy)]
  have := Int.le_floor_add_floor x y
  exact ⟨Int.le_floor_add x y, by omega⟩

theorem readingIndex_pos {r : Reading K} {period : K} (hp : 0 < period) :
    readingIndex r period = .ok (pyTrunc ((r.wall - r.off) / (60 * period))) := by
  unfold readingIndex Reading.instant
  exact periodIndex_pos hp

/-- the converter's view of a list of aware documents depends on the instants only -/
theorem map_toDoc_congr {ds ds' : List (WDoc K)}
    (h : List.Forall₂ (fun d d' => d.connect.instant = d'.connect.instant ∧
      d.disconnect.instant = d'.disconnect.instant ∧ d.kWh = d'.kWh ∧ d.session = d'.session ∧
      d.space = d'.space) ds ds') :
    ds.map WDoc.toDoc = ds'.map WDoc.toDoc := by
  induction h with
  | nil => rfl
  | cons hab _ ih =>
    obtain ⟨h1, h2, h3, h4, h5⟩ := hab
    simp only [List.map_cons, ih, WDoc.toDoc, h1, h2, h3, h4, h5]

theorem getEvsW_ok {start : Reading K} {docs : List (WDoc K)} {period V mp : K}
    {maxLen : Option Int} {bp : BattParams K} {ff : Bool} {evs : List (Ev K)} (hp : 0 < period)
    (h : getEvsW start docs period V mp maxLen bp ff = .ok evs) :
    List.Forall₂ (fun d e => convertDoc d.toDoc (pyTrunc (start.instant / (60 * period))) period V mp
      maxLen bp ff = .ok e) docs evs := by
  unfold getEvsW at h
  have := getEvs_ok hp h
  exact List.forall₂_map_left_iff.mp this

end trunc

/-! ### memo tables -/
section memo
variable {α β κ : Type} [DecidableEq κ]

/-- every entry of the table is the value of `f` at some argument with that key -/
def CacheOk (f : α → β) (key : α → κ) (cache : List (κ × β)) : Prop :=
  ∀ k v, cache.lookup k = some v → ∃ a, key a = k ∧ f a = v

theorem cacheOk_nil (f : α → β) (key : α → κ) : CacheOk f key [] := by
  intro k v h; simp at h

theorem memoCall_spec {f : α → β} {key : α → κ} (hkey : ∀ a b, key a = key b → f a = f b)
    {cache : List (κ × β)} (hc : CacheOk f key cache) (a : α) :
    (memoCall f key cache a).1 = f a ∧ CacheOk f key (memoCall f key cache a).2 := by
  unfold memoCall
  cases hl : cache.lookup (key a) with
  | some v =>
    obtain ⟨b, hb, hv⟩ := hc _ _ hl
    exact ⟨by rw [← hv]; exact hkey b a hb, hc⟩
  | none =>
    refine ⟨rfl, ?_⟩
    intro k v h
    simp only [List.lookup_cons] at h
    by_cases hk : k = key a
    · subst hk
      simp at h
      exact ⟨a, rfl, h⟩
    · have : (k == key a) = false := by simpa using hk
      rw [this] at h
      exact hc k v h

theorem memoRun_eq_map {f : α → β} {key : α → κ} (hkey : ∀ a b, key a = key b → f a = f b)
    (calls : List α) : ∀ cache, CacheOk f key cache → memoRun f key cache calls = calls.map f := by
  induction calls with
  | nil => intro _ _; rfl
  | cons a as ih =>
    intro cache hc
    obtain ⟨h1, h2⟩ := memoCall_spec hkey hc a
    simp only [memoRun, List.map_cons, h1, ih _ h2]

end memo

end Acn.SessionsTzL
