/-
  Helper definitions and lemmas for the pagination theorems of C20.
-/
import AcnModel.DataClient

namespace Acn.DataClient

variable {α β : Type}

/-- Starting at `url`, following `next` links on the (fake) server `fetch` visits exactly the pages
    `ps` and ends in state `e`: `none` — the last page has `_links` without `next`;
    `some err` — a request failed (`ps` are the pages served before it) or the last page served
    has no usable `_links`. -/
inductive Run (base : String) (fetch : String → Resp α) : String → List (Page α) → Option Err → Prop
  | last {u : String} {p : Page α} : fetch u = .page p → p.next = .last → Run base fetch u [p] none
  | broken {u : String} {p : Page α} :
      fetch u = .page p → p.next = .broken → Run base fetch u [p] (some .keyError)
  | fail {u : String} {e : Err} : fetch u = .fail e → Run base fetch u [] (some e)
  | cons {u h : String} {p : Page α} {ps : List (Page α)} {e : Option Err} :
      fetch u = .page p → p.next = .next h → Run base fetch (base ++ h) ps e →
      Run base fetch u (p :: ps) e

/-- a finite chain `p₀ … p_n` of pages, the last one without `next` -/
def Chain (base : String) (fetch : String → Resp α) (u : String) (ps : List (Page α)) : Prop :=
  Run base fetch u ps none

/-- the URLs a client following the links must request on a run through pages `ps` from `u`:
    the start URL, then `base ++ href` of every `next` link (with `ps = []` the single request
    that failed) -/
def runUrls (base : String) : String → List (Page α) → List String
  | u, [] => [u]
  | u, p :: ps =>
    u :: (match p.next with
          | .next h => runUrls base (base ++ h) ps
          | _ => [])

theorem yieldAll_ok (conv : α → Except Err β) (f : α → β) (l : List α)
    (h : ∀ a ∈ l, conv a = .ok (f a)) : yieldAll conv l = (l.map f, none) := by
  induction l with
  | nil => rfl
  | cons a as ih =>
    have ha := h a (List.mem_cons_self ..)
    have := ih (fun x hx => h x (List.mem_cons_of_mem _ hx))
    simp [yieldAll, ha, this]

/-- on a finite chain exactly one request per page is made -/
theorem runUrls_length_chain {base : String} {fetch : String → Resp α} {u : String}
    {ps : List (Page α)} (h : Chain base fetch u ps) : (runUrls base u ps).length = ps.length := by
  unfold Chain at h
  generalize he : (none : Option Err) = e at h
  induction h with
  | last hf hn => simp [runUrls, hn]
  | broken hf hn => cases he
  | fail hf => cases he
  | cons hf hn _ ih => simp [runUrls, hn, ih he]

/-- **The pagination loop follows any run of the server exactly**: with enough fuel for the
    requests of the run, `collect` requests exactly `runUrls`, yields the items of the pages in
    server order, and ends the way the run ends.  Induction over the run; pages may be empty. -/
theorem collect_run {base : String} {fetch : String → Resp α} (conv : α → Except Err β) (f : α → β)
    {u : String} {ps : List (Page α)} {e : Option Err} (h : Run base fetch u ps e) :
    ∀ fuel : Nat, (runUrls base u ps).length ≤ fuel →
      (∀ p ∈ ps, ∀ a ∈ p.items, conv a = .ok (f a)) →
      collect base fetch conv fuel u =
        { urls := runUrls base u ps, items := (ps.flatMap (·.items)).map f, stop := e } := by
  induction h with
  | @last u p hf hn =>
    intro fuel hfuel hc
    cases fuel with
    | zero => simp [runUrls] at hfuel
    | succ n =>
      have hy := yieldAll_ok conv f p.items (hc p (List.mem_singleton.mpr rfl))
      simp [collect, hf, hy, hn, runUrls]
  | @broken u p hf hn =>
    intro fuel hfuel hc
    cases fuel with
    | zero => simp [runUrls] at hfuel
    | succ n =>
      have hy := yieldAll_ok conv f p.items (hc p (List.mem_singleton.mpr rfl))
      simp [collect, hf, hy, hn, runUrls]
  | @fail u e hf =>
    intro fuel hfuel _
    cases fuel with
    | zero => simp [runUrls] at hfuel
    | succ n => simp [collect, hf, runUrls]
  | @cons u hr p ps e hf hn _ ih =>
    intro fuel hfuel hc
    cases fuel with
    | zero => simp [runUrls] at hfuel
    | succ n =>
      have hy := yieldAll_ok conv f p.items (hc p (List.mem_cons_self ..))
      have hlen : (runUrls base (base ++ hr) ps).length ≤ n := by
        simp [runUrls, hn] at hfuel; exact hfuel
      have := ih n hlen (fun q hq => hc q (List.mem_cons_of_mem _ hq))
      simp [collect, hf, hy, hn, runUrls, this]

/-! ### documents -/

open Acn.HttpDate in
/-- what `parse_dates` has to do to one field of a document whose zone has offset function `off` -/
inductive FieldOk (off : Instant → Int) : String × Val → String × PVal → Prop
  | date {k s : String} {t : Instant} :
      parseRfc1123 s = some t → FieldOk off (k, .str s) (k, .date (toZone off t))
  | keep {k s : String} : parseRfc1123 s = none → FieldOk off (k, .str s) (k, .str s)
  | stamps {k : String} {l : List String} {ts : List Instant} :
      l.map parseRfc1123 = ts.map some → FieldOk off (k, .ts l) (k, .ts (ts.map (toZone off)))
  | other {k : String} : FieldOk off (k, .other) (k, .other)

open Acn.HttpDate in
/-- field-by-field: same keys, same order, every field converted as `FieldOk` says -/
inductive DocOk (off : Instant → Int) : Doc → PDoc → Prop
  | nil : DocOk off [] []
  | cons {f : String × Val} {g : String × PVal} {d : Doc} {pd : PDoc} :
      FieldOk off f g → DocOk off d pd → DocOk off (f :: d) (g :: pd)

open Acn.HttpDate in
theorem parseStamps_ok (off : Instant → Int) (l : List String) (as : List Aware)
    (h : parseStamps off l = .ok as) :
    ∃ ts : List Instant, l.map parseRfc1123 = ts.map some ∧ as = ts.map (toZone off) := by
  induction l generalizing as with
  | nil => simp [parseStamps] at h; subst h; exact ⟨[], rfl, rfl⟩
  | cons s ss ih =>
    unfold parseStamps at h
    cases hp : parseRfc1123 s with
    | none => simp [parseHttpDate, hp] at h
    | some t =>
      simp only [parseHttpDate, hp, Option.map_some] at h
      cases hr : parseStamps off ss with
      | error e => simp [hr] at h
      | ok as' =>
        simp only [hr, Except.ok.injEq] at h
        obtain ⟨ts, h1, h2⟩ := ih as' hr
        exact ⟨t :: ts, by simp [hp, h1], by rw [← h, h2]; rfl⟩

open Acn.HttpDate in
theorem parseFields_ok (off : Instant → Int) (d : Doc) (pd : PDoc) (h : parseFields off d = .ok pd) :
    DocOk off d pd := by
  induction d generalizing pd with
  | nil => simp [parseFields] at h; subst h; exact .nil
  | cons f rest ih =>
    obtain ⟨k, v⟩ := f
    unfold parseFields at h
    cases hr : parseFields off rest with
    | error e =>
      cases v with
      | str s => cases hp : parseHttpDate off s <;> simp [hp, hr] at h
      | ts l => cases hs : parseStamps off l <;> simp [hs, hr] at h
      | other => simp [hr] at h
    | ok r =>
      have ihr := ih r hr
      cases v with
      | str s =>
        cases hp : parseRfc1123 s with
        | none =>
          simp [parseHttpDate, hp, hr] at h; subst h
          exact .cons (.keep hp) ihr
        | some t =>
          simp [parseHttpDate, hp, hr] at h; subst h
          exact .cons (.date hp) ihr
      | ts l =>
        cases hs : parseStamps off l with
        | error e => simp [hs] at h
        | ok as =>
          simp [hs, hr] at h; subst h
          obtain ⟨ts, h1, h2⟩ := parseStamps_ok off l as hs
          subst h2
          exact .cons (.stamps h1) ihr
      | other =>
        simp [hr] at h; subst h
        exact .cons .other ihr

end Acn.DataClient
