/-
  Helper lemmas for C15: the energy a fitted battery takes over the stay is decreasing in its
  initial SoC (strictly above the transition SoC), and where in its bracket the fit's answer lies.
  Together they give the maximality of the returned initial charge.
-/
import AcnModel.Sessions
import AcnProofs.Lemmas.SessionsBisect
import AcnProofs.Lemmas.SessionsCharge

set_option linter.unusedSectionVars false

namespace Acn.SessionsFit
open Acn Acn.Sessions Real Acn.BattFlow

variable {m T ts : ℝ}

/-- at the transition SoC the two descriptions agree -/
theorem delta_at_ts (hm : 0 < m) (hT : 0 < T) (hts : ts < 1) :
    deltaSocFrom m T ts ts = flowSoc m (m / (1 - ts)) ts T - ts := by
  rw [flow_ramp hm hts (le_refl _) hts.le, expQ_eq hts]
  unfold deltaSocFrom
  have hnot : ¬ T ≤ (ts - ts) / m := by
    rw [sub_self, zero_div]; exact not_le.mpr hT
  rw [if_neg hnot]
  simp only [HasExp.exp]
  have e : (m * T + ts - ts) / (ts - 1) = m * T / (ts - 1) := by ring_nf
  rw [e]; ring

/-- SoC taken during the stay, as a function of the initial SoC: decreasing on `(−∞, 1]` -/
theorem taken_antitone (hm : 0 < m) (hT : 0 < T) (hts : ts < 1) {x y : ℝ} (hxy : x ≤ y) (hy : y ≤ 1) :
    flowSoc m (m / (1 - ts)) y T - y ≤ flowSoc m (m / (1 - ts)) x T - x := by
  have hQ := expQ_lt_one hm hT hts
  have hQ0 : 0 < Real.exp (m * T / (ts - 1)) := Real.exp_pos _
  rcases lt_or_ge y ts with hyt | hyt
  · rw [← delta_eq_flow hm hT hts hyt, ← delta_eq_flow hm hT hts (lt_of_le_of_lt hxy hyt)]
    exact (delta_lip hm hts hxy).1
  · rcases lt_or_ge x ts with hxt | hxt
    · rw [← delta_eq_flow hm hT hts hxt]
      have h1 := (delta_lip (m := m) (T := T) hm hts hxt.le).1
      rw [delta_at_ts hm hT hts] at h1
      rw [flow_ramp hm hts hyt hy, expQ_eq hts]
      rw [flow_ramp hm hts (le_refl _) hts.le, expQ_eq hts] at h1
      nlinarith
    · rw [flow_ramp hm hts hyt hy, flow_ramp hm hts hxt (le_trans hxy hy), expQ_eq hts]
      nlinarith

/-- … and strictly decreasing from the transition SoC on -/
theorem taken_strict_above_ts (hm : 0 < m) (hT : 0 < T) (hts : ts < 1) {x y : ℝ} (hx : ts ≤ x)
    (hxy : x < y) (hy : y ≤ 1) :
    flowSoc m (m / (1 - ts)) y T - y < flowSoc m (m / (1 - ts)) x T - x := by
  have hQ := expQ_lt_one hm hT hts
  rw [flow_ramp hm hts (le_trans hx hxy.le) hy, flow_ramp hm hts hx (le_trans hxy.le hy), expQ_eq hts]
  nlinarith

/-- where the answer lies: in the closed-form branch at or above the transition SoC, in the
    bisection branch inside the code's bracket `[ts − m·T, 1]` (below which all initial SoCs are
    equally good, battery.py:460-464) -/
theorem fit_bracket {caps : List ℝ} {mr tol E V P cap init : ℝ} {fuel : Nat}
    (hd : FitDomain caps mr ts tol E T V P)
    (h : battCapFn caps mr ts tol fuel E T V P = .ok (cap, init)) :
    ∃ s, init = s * cap ∧
      (ts ≤ (closedInitSoc mr ts E T V P cap).2.2 → ts ≤ s) ∧
      (¬ ts ≤ (closedInitSoc mr ts E T V P cap).2.2 → ts - fitM mr V P cap * T ≤ s) := by
  obtain ⟨hmem, hle, hget, h0⟩ := battCapFn_spec caps h
  have hc : 0 < cap := hd.caps_pos cap hmem
  have hm := fitM_pos hd.mr_pos hd.V_pos hd.P_pos hc
  have hmT : 0 ≤ (closedInitSoc mr ts E T V P cap).2.1 * T := by
    rw [closed_eq]; exact (mul_pos hm hd.T_pos).le
  have hspec := getInitCap_spec hmT hd.ts_lt.le hget h0
  cases hspec with
  | closed hcl hi => exact ⟨_, hi, fun _ => hcl, fun hn => absurd hcl hn⟩
  | bisect s hncl hfeas hs1 hlb htol hi =>
    refine ⟨s, hi, fun hcl => absurd hcl hncl, fun _ => ?_⟩
    rw [closed_eq] at hlb
    exact hlb

end Acn.SessionsFit
