/-
  Helper lemmas for C09 (registry, scalar codec): the assumption `DoubleText.RoundTrip` is satisfiable — a text
  form of ℚ (`<digits>.0`, the digits being an injective code of the rational) that is a float token and that its
  reader inverts.  (For IEEE doubles the pair is `float.__repr__` / `float()`; that pair is the assumption.)
-/
import AcnProofs.Lemmas.RegistryJsonDoc
import Mathlib.Data.Rat.Encodable
namespace Acn.RegistryJson
open Acn Acn.JsonText

def exDouble : DoubleText ℚ :=
  { repr := fun q => Nat.toDigits 10 (Encodable.encode q) ++ ['.', '0'],
    ofText := fun t =>
      match t.reverse with
      | '0' :: '.' :: r => Encodable.decode (natOfDigits r.reverse)
      | _ => none }

theorem exDouble_roundTrip : exDouble.RoundTrip where
  read_repr q := by
    simp only [exDouble, List.reverse_append, List.reverse_cons, List.reverse_nil, List.nil_append, List.cons_append,
      List.reverse_reverse, natOfDigits_toDigits, Encodable.encodek]
  float_tok q := by
    obtain ⟨c, t, h, hc⟩ := toDigits_cons (Encodable.encode q)
    have hall := toDigits_all_digit (Encodable.encode q)
    have hnum : (Nat.toDigits 10 (Encodable.encode q)).all isNumChar = true := by
      rw [List.all_eq_true] at hall ⊢
      exact fun x hx => isDigit_isNumChar x (hall x hx)
    have hdot : ('.' : Char).isDigit = false := by decide
    simp only [exDouble, isFloatTok, List.all_append, hnum, Bool.true_and, Bool.and_eq_true, Bool.not_eq_true']
    rw [h]
    refine ⟨⟨by decide, by simp [startsNum, hc]⟩, ?_⟩
    simp only [List.cons_append, isIntTok, isDigit_ne_minus c hc, if_false, List.all_cons, List.all_append, hdot,
      Bool.false_and, Bool.and_false]

end Acn.RegistryJson
