/-
  T1c, stateful methods — contrib `StochasticNetwork.post_charging_update` refines the hand model `Stoch.Net.post`
  (group StochOps; property C19).

  The translated method builds `fully_charged_evs` (the comprehension over `_EVSEs.values()`, `EV.fully_charged`
  inlined from models/ev.py) and then runs the translated `for` loop, whose body calls the translated `unplug` with the
  `station_id` / `session_id` of the list element.  The model folds `Net.earlyStep` over `Net.fullyCharged full`, reading
  the station from its per-session store.  From related states (`Abs`), on a state satisfying C19's invariant `Inv`
  (every reachable state does: `C19.reached_inv`), with the occupants filed under the station they name (`PyHome`) and
  `full` the value of `EV.fully_charged` on the occupants: neither raises, the final states are related, and the
  representation invariants still hold.  The `AttributeError` paths of the translation (`ev` None in the list) are unreachable.
-/
import AcnProofs.Lemmas.CodeTieStochOps
import AcnProofs.Lemmas.StochasticRun

set_option linter.unusedSectionVars false
set_option linter.unusedSimpArgs false

namespace Acn.CodeTie.St
open Acn Acn.Gen.Code Acn.Stoch

theorem pyComp_total_st {α β : Type} (f : α → Except PyErr (Option β)) (g : α → Option β) (l : List α)
    (h : ∀ x, f x = .ok (g x)) : pyComp f l = .ok (l.filterMap g) := by
  induction l with
  | nil => rfl
  | cons x xs ih =>
    simp only [pyComp, h x, ih, List.filterMap_cons]
    cases g x <;> rfl

section
variable {K : Type} [Add K] [Sub K] [Mul K] [Div K] [Neg K] [LT K] [LE K]
  [DecidableLT K] [DecidableLE K] [OfNat K 0] [OfNat K 1] [NatCast K] [HasExp K]

/-- every occupant names the station it sits on (`ev.station_id` is what `ChargingNetwork.plugin` files it under) -/
def PyHome (p : PyStNet K) : Prop :=
  ∀ st evse e, dictGet? p.evses st = some evse → evse.ev = some e → e.station = some st

/-- `EV.fully_charged` as translated (models/ev.py: `not (remaining_demand > 1e-3)`) -/
def fullOf (e : PyStEv K) : Bool := !decide ((((1 : Nat) : K) / ((1000 : Nat) : K)) < (e.requested - e.delivered))

/-- the list `fully_charged_evs` -/
def fullList (d : List (String × PyStEvse K)) : List (Option (PyStEv K)) :=
  (dictValues d).filterMap (fun evse =>
    match evse.ev with
    | some e => if fullOf e then some (some e) else none
    | none => none)

/-- one element of `fully_charged_evs` against one element of the model's `fullyCharged`: the same session, sitting
    (in the model's CURRENT state) on the station the element names -/
def Sits (s : Net) (o : Option (PyStEv K)) (x : Sess) : Prop :=
  ∃ e st, o = some e ∧ e.session = x ∧ e.station = some st ∧ s.occ st = some x

theorem full_lists (d : List (String × PyStEvse K)) (hn : (keys d).Nodup) (s : Net) (full : Sess → Bool)
    (hocc : ∀ st ∈ keys d, s.occ st = occE d st)
    (hhome : ∀ st evse e, (st, evse) ∈ d → evse.ev = some e → e.station = some st)
    (hfull : ∀ st evse e, (st, evse) ∈ d → evse.ev = some e → full e.session = fullOf e) :
    List.Forall₂ (Sits s) (fullList d)
      ((keys d).filterMap (fun st => match s.occ st with
        | some x => if full x then some x else none
        | none => none)) := by
  induction d with
  | nil => exact List.Forall₂.nil
  | cons p r ih =>
    obtain ⟨k0, v0⟩ := p
    simp only [keys, List.map_cons, List.nodup_cons] at hn
    have hr := ih hn.2
      (fun st hst => by
        have hne : ¬ k0 = st := fun e => hn.1 (e ▸ hst)
        have := hocc st (List.mem_cons_of_mem _ hst)
        simpa [occE, dictGet?, hne] using this)
      (fun st evse e hm => hhome st evse e (List.mem_cons_of_mem _ hm))
      (fun st evse e hm => hfull st evse e (List.mem_cons_of_mem _ hm))
    have h0 : s.occ k0 = v0.ev.map (·.session) := by
      have := hocc k0 (by simp [keys])
      simpa [occE, dictGet?] using this
    simp only [fullList, dictValues, List.map_cons, List.filterMap_cons, keys] at hr ⊢
    cases hv : v0.ev with
    | none =>
      rw [hv] at h0
      simp only [h0, Option.map_none]
      exact hr
    | some e =>
      rw [hv] at h0
      have hf := hfull k0 v0 e List.mem_cons_self hv
      have hh := hhome k0 v0 e List.mem_cons_self hv
      simp only [h0, Option.map_some, hf]
      cases hfe : fullOf e with
      | false => simpa using hr
      | true =>
        simp only [if_true]
        exact List.Forall₂.cons ⟨e, k0, rfl, rfl, hh, h0⟩ hr

/-- the translated `for ev in fully_charged_evs` loop against the model's fold of `earlyStep` -/
theorem post_loop : ∀ (L : List (Option (PyStEv K))) (M : List Sess) (p : PyStNet K) (s : Net),
    Abs p s → PyWf p → Inv s → M.Nodup → List.Forall₂ (Sits s) L M →
    ∃ s', M.foldlM Net.earlyStep s = .ok s' ∧ (stnet_post_charging_update_loop L p).2 = .ok () ∧
      Abs (stnet_post_charging_update_loop L p).1 s' ∧ PyWf (stnet_post_charging_update_loop L p).1 ∧
      keys (stnet_post_charging_update_loop L p).1.evses = keys p.evses := by
  intro L
  induction L with
  | nil => intro M p s ha hw hi hn hf; cases hf; exact ⟨s, rfl, rfl, ha, hw, rfl⟩
  | cons o L ih =>
    intro M0 p s ha hw hi hn hf
    cases hf with
    | @cons _ x _ M hox hrest =>
    obtain ⟨e, st, ho, hes, hest, hocc⟩ := hox
    subst ho
    rw [List.nodup_cons] at hn
    obtain ⟨s2, h2⟩ := hi.earlyStep_ok x st hocc
    obtain ⟨hi2, _, hk2, _, _⟩ := hi.earlyStep x st hocc h2
    have hstx : (s.ev x).station = some st := ((hi.occ_iff st x).1 hocc).2.1
    have hrest2 : List.Forall₂ (Sits s2) L M := by
      refine List.Forall₂.imp ?_ (List.forall₂_iff_zip.2 ⟨hrest.length_eq, fun h => ?_⟩ : List.Forall₂
        (fun o z => Sits s o z ∧ z ∈ M) L M)
      · rintro o z ⟨⟨e', st', h1, h3, h4, h5⟩, hz⟩
        exact ⟨e', st', h1, h3, h4, hk2 st' z (fun eq => hn.1 (eq ▸ hz)) h5⟩
      · exact ⟨(List.forall₂_iff_zip.1 hrest).2 h, (List.of_mem_zip h).2⟩
    have hlen : p.waiting.length = s.waiting.length := by rw [ha.waiting]; simp [stWaiting, keys]
    rw [List.foldlM_cons, h2]
    by_cases hw0 : s.waiting = []
    · -- nobody waits: both skip
      have hs2 : s2 = s := by
        simp [Net.earlyStep, hw0, pure, Except.pure] at h2; exact h2.symm
      have hc : stnet_post_charging_update_loop (some e :: L) p = stnet_post_charging_update_loop L p := by
        rw [stnet_post_charging_update_loop]
        simp [hlen, hw0]
      rw [hc]
      subst hs2
      exact ih M p s2 ha hw hi hn.2 hrest2
    · have hpos : 0 < p.waiting.length := by
        rw [hlen]; exact List.length_pos_iff.2 hw0
      have hemp : s.waiting.isEmpty = false := by
        cases hq : s.waiting with
        | nil => exact absurd hq hw0
        | cons _ _ => rfl
      obtain ⟨hout, habs, _, hwf⟩ := stnet_unplug_tie p s (some st) x ha hw
      -- the model's unplug succeeds (it is the first half of `earlyStep`)
      cases hu : s.unplug (some st) x with
      | error err =>
        simp [Net.earlyStep, hemp, hstx, hu, bind, Except.bind] at h2
      | ok s1 =>
        have h2' : s2 = ({ s1 with earlyUnplug := s1.earlyUnplug + 1 } : Net).modEv x (fun r => { r with early := true }) := by
          simp [Net.earlyStep, hemp, hstx, hu, bind, Except.bind, pure, Except.pure] at h2
          exact h2.symm
        rw [hu] at hout
        have ha1 := habs s1 hu
        cases hc : stnet_unplug p (some st) (some x) with
        | mk p1 r1 =>
          rw [hc] at hout ha1 hwf
          simp only [outcome] at hout
          have hstep : stnet_post_charging_update_loop (some e :: L) p =
              stnet_post_charging_update_loop L { p1 with earlyUnplug := p1.earlyUnplug + 1 } := by
            rw [stnet_post_charging_update_loop]
            simp only [hpos, decide_true, if_true, hest, hes, hc, hout]
          rw [hstep]
          have ha2 : Abs ({ p1 with earlyUnplug := p1.earlyUnplug + 1 } : PyStNet K) s2 := by
            rw [h2']
            exact ⟨ha1.stations, ha1.early, ha1.occ, ha1.waiting, ha1.swaps, ha1.never,
              by show s1.earlyUnplug + 1 = p1.earlyUnplug + 1; rw [ha1.earlyU]⟩
          have hw2 : PyWf ({ p1 with earlyUnplug := p1.earlyUnplug + 1 } : PyStNet K) := hwf.of_eq rfl (fun _ h => h)
          obtain ⟨s', h1, h3, h4, h5, h6⟩ := ih M _ s2 ha2 hw2 hi2 hn.2 hrest2
          refine ⟨s', h1, h3, h4, h5, ?_⟩
          rw [h6]
          show keys p1.evses = keys p.evses
          have e1 := ha1.stations
          have e2 := ha.stations
          have e3 : s1.stations = s.stations := by
            have := (hi.earlyStep x st hocc h2).2.2.2.1
            rw [h2'] at this
            exact this
          simp only [stStations] at e1 e2
          rw [← e1, e3, e2]

/-- `StochasticNetwork.post_charging_update()` refines `Net.post full`, for `full` = `EV.fully_charged` of the occupants -/
theorem stnet_post_charging_update_tie (p : PyStNet K) (s : Net) (full : Sess → Bool) (ha : Abs p s) (hw : PyWf p)
    (hh : PyHome p) (hi : Inv s)
    (hfull : ∀ st evse e, dictGet? p.evses st = some evse → evse.ev = some e → full e.session = fullOf e) :
    ∃ s', s.post full = .ok s' ∧ (stnet_post_charging_update p).2 = .ok () ∧
      Abs (stnet_post_charging_update p).1 s' ∧ PyWf (stnet_post_charging_update p).1 := by
  unfold stnet_post_charging_update Net.post
  rw [← ha.early]
  cases hed : s.earlyDeparture with
  | false => exact ⟨s, rfl, rfl, ha, hw⟩
  | true =>
    simp only [if_true]
    have hcomp : ∀ (f : PyStEvse K → Except PyErr (Option (Option (PyStEv K)))),
        (∀ evse, f evse = .ok (match evse.ev with
          | some e => if fullOf e then some (some e) else none
          | none => none)) → pyComp f (dictValues p.evses) = .ok (fullList p.evses) :=
      fun f hf => pyComp_total_st f _ _ hf
    rw [hcomp]
    · have hl := full_lists p.evses hw.keys_nodup s full
        (fun st _ => by rw [ha.occ]; rfl)
        (fun st evse e hm => hh st evse e (get_of_mem _ hw.keys_nodup _ _ hm))
        (fun st evse e hm => hfull st evse e (get_of_mem _ hw.keys_nodup _ _ hm))
      have hfc : s.fullyCharged full = (keys p.evses).filterMap (fun st => match s.occ st with
          | some x => if full x then some x else none
          | none => none) := by
        unfold Net.fullyCharged
        rw [ha.stations]; rfl
      rw [← hfc] at hl
      obtain ⟨s', h1, h2, h3, h4, _⟩ := post_loop _ _ p s ha hw hi (hi.fullyCharged_nodup full) hl
      cases hc : stnet_post_charging_update_loop (fullList p.evses) p with
      | mk p1 r1 =>
        rw [hc] at h2 h3 h4
        simp only at h2 h3 h4
        subst h2
        exact ⟨s', h1, by simp only [hc], by simp only [hc]; first | done | exact h3,
          by simp only [hc]; first | done | exact h4⟩
    · intro evse
      cases hv : evse.ev with
      | none => rfl
      | some e =>
        show (match fullOf e with
              | true => (Except.ok (some (some e)) : Except PyErr _)
              | false => Except.ok none) = Except.ok (if fullOf e then some (some e) else none)
        cases fullOf e <;> rfl

end
end Acn.CodeTie.St
