/-
  C19: post_charging_update preserves the invariant; progress (no operation raises on an
  invariant state); the invariant along every well-formed run (`run_good`).
-/
import AcnProofs.Lemmas.StochasticInv3

namespace Acn.Stoch

/-! ### post_charging_update -/

theorem mem_fullyCharged {s : Net} {full : Sess → Bool} {z : Sess} (hz : z ∈ s.fullyCharged full) :
    ∃ st, s.occ st = some z := by
  simp only [Net.fullyCharged, List.mem_filterMap] at hz
  obtain ⟨st, _, hg⟩ := hz
  cases ho : s.occ st with
  | none => simp [ho] at hg
  | some x =>
    simp only [ho] at hg
    split at hg
    · cases hg; exact ⟨st, ho⟩
    · cases hg

theorem Inv.fullyCharged_nodup {s : Net} (h : Inv s) (full : Sess → Bool) :
    (s.fullyCharged full).Nodup := by
  unfold Net.fullyCharged
  apply List.Nodup.filterMap _ h.st_nodup
  intro a a' b hb hb'
  have key : ∀ t, b ∈ (match s.occ t with
      | some x => if full x = true then some x else none
      | none => none) → s.occ t = some b := by
    intro t ht
    cases ho : s.occ t with
    | none => simp [ho] at ht
    | some x =>
      simp only [ho] at ht
      split at ht
      · simp at ht; rw [ht]
      · simp at ht
  have h1 := (h.occ_iff a b).1 (key a hb)
  have h2 := (h.occ_iff a' b).1 (key a' hb')
  have := h1.2.1.symm.trans h2.2.1
  exact Option.some.inj this

theorem Inv.earlyStep_ok {s : Net} (h : Inv s) (x : Sess) (st : Station) (ho : s.occ st = some x) :
    ∃ s1, s.earlyStep x = .ok s1 := by
  cases hwq : s.waiting with
  | nil => exact ⟨s, by simp [Net.earlyStep, hwq, pure, Except.pure]⟩
  | cons y w =>
    have hu := h.unplug_swap x y w st ho hwq
    unfold Net.earlyStep
    simp only [hwq, List.isEmpty_cons, hu, bind, Except.bind, pure, Except.pure, Bool.false_eq_true,
      ↓reduceIte]
    exact ⟨_, rfl⟩

theorem fold_early : ∀ (L : List Sess) (s : Net), Inv s → L.Nodup →
    (∀ z ∈ L, ∃ st, s.occ st = some z) →
    ∃ s1, L.foldlM Net.earlyStep s = .ok s1 ∧ Inv s1 ∧
      (∀ u, (s1.ev u).arrived = (s.ev u).arrived ∧ (s1.ev u).departed = (s.ev u).departed) := by
  intro L
  induction L with
  | nil => intro s h _ _; exact ⟨s, rfl, h, fun _ => ⟨rfl, rfl⟩⟩
  | cons x L ih =>
    intro s h hn hocc
    obtain ⟨st, ho⟩ := hocc x (List.mem_cons_self)
    obtain ⟨s2, h2⟩ := h.earlyStep_ok x st ho
    obtain ⟨hi2, hf2, hk2, _, _⟩ := h.earlyStep x st ho h2
    rw [List.nodup_cons] at hn
    obtain ⟨s1, h1, hi1, hf1⟩ := ih s2 hi2 hn.2 (by
      intro z hz
      obtain ⟨t, ht⟩ := hocc z (List.mem_cons_of_mem _ hz)
      exact ⟨t, hk2 t z (fun e => hn.1 (e ▸ hz)) ht⟩)
    refine ⟨s1, ?_, hi1, fun u => ⟨(hf1 u).1.trans (hf2 u).1, (hf1 u).2.trans (hf2 u).2⟩⟩
    rw [List.foldlM_cons, h2]
    exact h1

theorem Inv.post {s : Net} (h : Inv s) (full : Sess → Bool) :
    ∃ s1, s.post full = .ok s1 ∧ Inv s1 ∧
      (∀ u, (s1.ev u).arrived = (s.ev u).arrived ∧ (s1.ev u).departed = (s.ev u).departed) := by
  unfold Net.post
  split
  · exact fold_early _ s h (h.fullyCharged_nodup full) (fun z hz => mem_fullyCharged hz)
  · exact ⟨s, rfl, h, fun _ => ⟨rfl, rfl⟩⟩

/-! ### progress -/

theorem Inv.unplug_ok {s : Net} (h : Inv s) (x : Sess) (ha : (s.ev x).arrived = true)
    (hd : (s.ev x).departed = false) : ∃ s1, s.unplug (s.ev x).station x = .ok s1 := by
  unfold Net.unplug
  by_cases hxw : x ∈ s.waiting
  · rw [if_pos hxw]; exact ⟨_, rfl⟩
  · rw [if_neg hxw]
    cases hst : (s.ev x).station with
    | none => exact absurd ((h.mem_waiting x).2 ⟨ha, hd, hst⟩) hxw
    | some st =>
      have hmem := h.st_mem x st ha hst
      simp only [if_pos hmem]
      cases ho : s.occ st with
      | none => exact ⟨_, rfl⟩
      | some z =>
        simp only
        by_cases hxz : x = z
        · rw [if_pos hxz]
          cases hwq : s.waiting with
          | nil =>
            simp only [Net.admitNext, Net.setOcc, hwq]
            exact ⟨_, rfl⟩
          | cons y w =>
            exact ⟨_, admitNext_cons (s.setOcc st none) st y w (by simp [Net.setOcc, hwq]) hmem
              (by simp [Net.setOcc])⟩
        · rw [if_neg hxz]; exact ⟨_, rfl⟩

theorem Inv.plugin_ok {s : Net} (h : Inv s) (cs : Nat → Nat) (x : Sess) :
    ∃ s1, s.plugin cs x = .ok s1 := by
  unfold Net.plugin
  cases hf : s.free with
  | nil => exact ⟨_, rfl⟩
  | cons f fs =>
    simp only
    have hmem := getD_mod_mem f fs (cs s.draws)
    generalize (f :: fs).getD (cs s.draws % (fs.length + 1)) f = st at hmem
    rw [← hf] at hmem
    obtain ⟨hst, ho⟩ := mem_free hmem
    exact ⟨_, attach_eq ({ s.modEv x (fun r => { r with station := some st }) with draws := s.draws + 1 })
      x st (by simp [Net.modEv]) hst ho⟩

/-! ### histories -/

/-- the ghost flags record exactly the processed events -/
structure Track (done : List Event) (s : Net) : Prop where
  arrived_iff : ∀ x, (s.ev x).arrived = true ↔ ∃ e ∈ done, e.kind = .plugin ∧ e.sess = x
  departed_iff : ∀ x, (s.ev x).departed = true ↔ ∃ e ∈ done, e.kind = .unplug ∧ e.sess = x

/-- Well-formed processed history, in the form the induction uses: no session is plugged in
    twice or unplugged twice, and every unplug comes after the plug-in of the same session.
    (`wellFormed_protocol` derives this from the simulator's protocol.) -/
def WFHist (h : List Event) : Prop :=
  h.Pairwise (fun a b => a.kind = .recompute ∨ a.kind ≠ b.kind ∨ a.sess ≠ b.sess) ∧
  ∀ pre e post, h = pre ++ e :: post → e.kind = .unplug →
    ∃ p ∈ pre, p.kind = .plugin ∧ p.sess = e.sess

theorem WFHist.fresh {done rest : List Event} {e : Event} (hwf : WFHist (done ++ e :: rest))
    (hk : e.kind ≠ .recompute) : ¬ ∃ a ∈ done, a.kind = e.kind ∧ a.sess = e.sess := by
  rintro ⟨a, ha, hk', hs'⟩
  have := (List.pairwise_append.1 hwf.1).2.2 a ha e (List.mem_cons_self)
  rcases this with h | h | h
  · rw [hk'] at h; exact hk h
  · exact h hk'
  · exact h hs'

theorem step_ev_plugin {cs : Nat → Nat} {s : Net} {done : List Event} {e : Event} (h : Inv s)
    (tr : Track done s) (hk : e.kind = .plugin) (ha : (s.ev e.sess).arrived = false) :
    ∃ s1, s.processEvent cs e = .ok s1 ∧ Inv s1 ∧ Track (done ++ [e]) s1 := by
    obtain ⟨s1, h1⟩ := h.plugin_ok cs e.sess
    have hi := h.pluginEvent e.sess ha h1
    have hf := plugin_flags h1
    refine ⟨_, by simp only [Net.processEvent, hk, h1, bind, Except.bind, pure, Except.pure], hi, ?_, ?_⟩
    · intro x
      have := tr.arrived_iff x; have := hf x
      by_cases hx : x = e.sess
      · simp only [Net.modEv, hx, ↓reduceIte, List.mem_append, List.mem_singleton, true_iff]
        exact ⟨e, Or.inr rfl, hk, rfl⟩
      · simp only [Net.modEv, hx, ↓reduceIte, List.mem_append, List.mem_singleton]
        constructor
        · intro hh; obtain ⟨a, ha', hka, hsa⟩ := (tr.arrived_iff x).1 (by rw [← (hf x).1]; exact hh)
          exact ⟨a, Or.inl ha', hka, hsa⟩
        · rintro ⟨a, ha' | ha', hka, hsa⟩
          · rw [(hf x).1]; exact (tr.arrived_iff x).2 ⟨a, ha', hka, hsa⟩
          · rw [ha'] at hsa; exact absurd hsa.symm hx
    · intro x
      have hfx := hf x
      have hdx : ((if x = e.sess then ({ s1.ev x with arrived := true } : EvRec) else s1.ev x).departed)
          = (s.ev x).departed := by
        by_cases hx : x = e.sess <;> simp [hx, hfx.2.1] <;> rw [← hx] <;> exact hfx.2.1
      simp only [Net.modEv, List.mem_append, List.mem_singleton]
      rw [hdx, tr.departed_iff x]
      constructor
      · rintro ⟨a, ha', hka, hsa⟩; exact ⟨a, Or.inl ha', hka, hsa⟩
      · rintro ⟨a, ha' | ha', hka, hsa⟩
        · exact ⟨a, ha', hka, hsa⟩
        · rw [ha', hk] at hka; cases hka

theorem step_ev_unplug {cs : Nat → Nat} {s : Net} {done : List Event} {e : Event} (h : Inv s)
    (tr : Track done s) (hk : e.kind = .unplug) (ha : (s.ev e.sess).arrived = true)
    (hd : (s.ev e.sess).departed = false) :
    ∃ s1, s.processEvent cs e = .ok s1 ∧ Inv s1 ∧ Track (done ++ [e]) s1 := by
    obtain ⟨s1, h1⟩ := h.unplug_ok e.sess ha hd
    have hi := h.unplugEvent e.sess ha hd h1
    have hf := unplug_flags h1
    refine ⟨_, by simp only [Net.processEvent, hk, h1, bind, Except.bind, pure, Except.pure], hi, ?_, ?_⟩
    · intro x
      have hfx := hf x
      have hax : ((if x = e.sess then ({ s1.ev x with departed := true } : EvRec) else s1.ev x).arrived)
          = (s.ev x).arrived := by
        by_cases hx : x = e.sess <;> simp [hx, hfx.1] <;> rw [← hx] <;> exact hfx.1
      simp only [Net.modEv, List.mem_append, List.mem_singleton]
      rw [hax, tr.arrived_iff x]
      constructor
      · rintro ⟨a, ha', hka, hsa⟩; exact ⟨a, Or.inl ha', hka, hsa⟩
      · rintro ⟨a, ha' | ha', hka, hsa⟩
        · exact ⟨a, ha', hka, hsa⟩
        · rw [ha', hk] at hka; cases hka
    · intro x
      by_cases hx : x = e.sess
      · simp only [Net.modEv, hx, ↓reduceIte, List.mem_append, List.mem_singleton, true_iff]
        exact ⟨e, Or.inr rfl, hk, rfl⟩
      · simp only [Net.modEv, hx, ↓reduceIte, List.mem_append, List.mem_singleton]
        constructor
        · intro hh; obtain ⟨a, ha', hka, hsa⟩ := (tr.departed_iff x).1 (by rw [← (hf x).2.1]; exact hh)
          exact ⟨a, Or.inl ha', hka, hsa⟩
        · rintro ⟨a, ha' | ha', hka, hsa⟩
          · rw [(hf x).2.1]; exact (tr.departed_iff x).2 ⟨a, ha', hka, hsa⟩
          · rw [ha'] at hsa; exact absurd hsa.symm hx

theorem step_ev_rec {cs : Nat → Nat} {s : Net} {done : List Event} {e : Event} (h : Inv s)
    (tr : Track done s) (hk : e.kind = .recompute) :
    ∃ s1, s.processEvent cs e = .ok s1 ∧ Inv s1 ∧ Track (done ++ [e]) s1 := by
    refine ⟨s, by simp [Net.processEvent, hk, pure, Except.pure], h, ?_, ?_⟩
    · intro x; rw [tr.arrived_iff x]
      simp only [List.mem_append, List.mem_singleton]
      constructor
      · rintro ⟨a, ha', hka, hsa⟩; exact ⟨a, Or.inl ha', hka, hsa⟩
      · rintro ⟨a, ha' | ha', hka, hsa⟩
        · exact ⟨a, ha', hka, hsa⟩
        · rw [ha', hk] at hka; cases hka
    · intro x; rw [tr.departed_iff x]
      simp only [List.mem_append, List.mem_singleton]
      constructor
      · rintro ⟨a, ha', hka, hsa⟩; exact ⟨a, Or.inl ha', hka, hsa⟩
      · rintro ⟨a, ha' | ha', hka, hsa⟩
        · exact ⟨a, ha', hka, hsa⟩
        · rw [ha', hk] at hka; cases hka


theorem step_ev {cs : Nat → Nat} {s : Net} {done rest : List Event} {e : Event} (h : Inv s)
    (tr : Track done s) (hwf : WFHist (done ++ e :: rest)) :
    ∃ s1, s.processEvent cs e = .ok s1 ∧ Inv s1 ∧ Track (done ++ [e]) s1 := by
  cases hk : e.kind with
  | plugin =>
    have hfresh := hwf.fresh (by rw [hk]; simp)
    have ha : (s.ev e.sess).arrived = false := by
      by_contra hc
      have : (s.ev e.sess).arrived = true := by simpa using hc
      obtain ⟨a, ha, hk', hs'⟩ := (tr.arrived_iff _).1 this
      exact hfresh ⟨a, ha, by rw [hk', hk], hs'⟩
    exact step_ev_plugin h tr hk ha
  | unplug =>
    have hfresh := hwf.fresh (by rw [hk]; simp)
    obtain ⟨p, hp, hpk, hps⟩ := hwf.2 done e rest rfl hk
    have ha : (s.ev e.sess).arrived = true := (tr.arrived_iff _).2 ⟨p, hp, hpk, hps⟩
    have hd : (s.ev e.sess).departed = false := by
      by_contra hc
      have : (s.ev e.sess).departed = true := by simpa using hc
      obtain ⟨a, ha', hk', hs'⟩ := (tr.departed_iff _).1 this
      exact hfresh ⟨a, ha', by rw [hk', hk], hs'⟩
    exact step_ev_unplug h tr hk ha hd
  | recompute => exact step_ev_rec h tr hk

/-- the invariant holds along every well-formed run, and no step raises -/
theorem run_good (cs : Nat → Nat) : ∀ (steps : List Step) (done : List Event) (s : Net),
    Inv s → Track done s → WFHist (done ++ evProj steps) →
    ∃ s', s.run cs steps = .ok s' ∧ Inv s' ∧ Track (done ++ evProj steps) s' := by
  intro steps
  induction steps with
  | nil => intro done s h tr _; exact ⟨s, rfl, h, by simpa [evProj] using tr⟩
  | cons st r ih =>
    intro done s h tr hwf
    cases st with
    | ev e =>
      simp only [evProj] at hwf ⊢
      obtain ⟨s1, h1, hi1, tr1⟩ := step_ev (cs := cs) h tr hwf
      obtain ⟨s', h', hi', tr'⟩ := ih (done ++ [e]) s1 hi1 tr1 (by simpa using hwf)
      refine ⟨s', ?_, hi', by simpa using tr'⟩
      simp only [Net.run, List.foldlM_cons, Net.step, h1, bind, Except.bind]
      exact h'
    | post full =>
      simp only [evProj] at hwf ⊢
      obtain ⟨s1, h1, hi1, hf1⟩ := h.post full
      have tr1 : Track done s1 :=
        ⟨fun x => by rw [(hf1 x).1]; exact tr.arrived_iff x,
         fun x => by rw [(hf1 x).2]; exact tr.departed_iff x⟩
      obtain ⟨s', h', hi', tr'⟩ := ih done s1 hi1 tr1 hwf
      refine ⟨s', ?_, hi', tr'⟩
      simp only [Net.run, List.foldlM_cons, Net.step, h1, bind, Except.bind]
      exact h'

theorem Inv.init (stations : List Station) (early : Bool) (st0 : Sess → Option Station)
    (hn : stations.Nodup) : Inv (Net.init stations early st0) := by
  refine ⟨hn, ?_, ?_, ?_, ?_, ?_, ?_, ?_, ?_, ?_, ?_, ?_, ?_, ?_, ?_, ?_⟩ <;> simp [Net.init, Net.waits]

theorem Track.init (stations : List Station) (early : Bool) (st0 : Sess → Option Station) :
    Track [] (Net.init stations early st0) :=
  ⟨fun x => by simp [Net.init], fun x => by simp [Net.init]⟩

end Acn.Stoch
