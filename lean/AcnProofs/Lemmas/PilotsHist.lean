/-
  Helper lemmas for C04, part 5: histories with JSON save / restore and `update_scheduler` steps
  (`AcnModel/PilotsHist.lean`).
-/
import AcnModel.PilotsHist
import AcnProofs.Lemmas.PilotsStep

set_option linter.unusedSimpArgs false
set_option linter.unusedSectionVars false

namespace Acn.Pilots
variable {K : Type} [OfNat K 0]

theorem zip_map_self {α β : Type} (l : List α) (f : α → β) :
    l.zip (l.map f) = l.map fun a => (a, f a) := by
  induction l with
  | nil => rfl
  | cons a l ih => simp [ih]

/-- a matrix with at least one row and all rows of its width comes back from JSON as it went in -/
theorem restoreMat_wf {n : Nat} {m : Mat K} (h : m.WF n) (hn : 0 < n) : restoreMat m = some m := by
  obtain ⟨rows, w⟩ := m
  obtain ⟨h1, h2⟩ := h
  simp only at h1 h2
  cases rows with
  | nil => simp at h1; omega
  | cons r rs =>
    have hr : r.length = w := h2 r (List.mem_cons_self ..)
    have hall : rs.all (fun x => x.length == r.length) = true := by
      rw [List.all_eq_true]
      intro x hx
      have := h2 x (List.mem_cons_of_mem _ hx)
      simp [this, hr]
    rw [hr] at hall
    simp only [restoreMat, toJsonRows, ofJsonRows, hall, if_true, hr]

/-- a matrix without rows does NOT come back (numpy reads `[]` as a 1-D array) -/
theorem restoreMat_no_rows (w : Nat) : restoreMat (⟨[], w⟩ : Mat K) = none := rfl

/-- what `runHist` returns when the underlying trip sequence returns `r` -/
def histOfTrips (stations : List String) :
    Except RunErr (Mat K × List (List K)) → Except HistErr (List String × Mat K × List (List (String × K)))
  | .ok (m', cols) => .ok (stations, m', cols.map fun col => stations.zip col)
  | .error e => .error (.run e)

/-- **Restore and scheduler swap are invisible**: with the key order a save / restore produces
    (`jsonKeyOrder`, the identity), a history is its loop trips. -/
theorem runHist_eq_trips {stations : List String} (hpos : 0 < stations.length) :
    ∀ (hs : List (HStep K)) (m : Mat K), m.WF stations.length →
      runHist stations m hs = histOfTrips stations (runTrips stations m (tripsOfHist hs)) := by
  intro hs
  induction hs with
  | nil => intro m _; rfl
  | cons h rest ih =>
    intro m hm
    cases h with
    | trip p w =>
      simp only [runHist, runHistWith, tripsOfHist, runTrips]
      cases hp : periodStepW stations m p w with
      | error e => rfl
      | ok r =>
        obtain ⟨m1, col⟩ := r
        have hm1 : m1.WF stations.length := (periodStepW_ok hp).1 ▸ afterPeriodW_wf hm p w
        have := ih m1 hm1
        simp only [runHist] at this
        simp only [this]
        cases hr : runTrips stations m1 (tripsOfHist rest) with
        | error e => rfl
        | ok r2 => obtain ⟨m2, cols⟩ := r2; rfl
    | restore =>
      simp only [runHist, runHistWith, tripsOfHist, restoreMat_wf hm hpos, jsonKeyOrder]
      exact ih m hm
    | swap =>
      simp only [runHist, runHistWith, tripsOfHist]
      exact ih m hm

end Acn.Pilots
