/-
  Helper lemmas for C17: the loader's wrap-around split and its stable sort.
-/
import AcnModel.Tariff
import Mathlib.Tactic

namespace Acn.C17
open Acn.Tariff

variable {K : Type}

theorem md_no_wrap_overlap (a b m : Nat × Nat) (hw : mdLt b a = true) (h1 : mdLe a m = true)
    (h2 : mdLe m b = true) : False := by
  simp only [mdLe, mdLt, Bool.or_eq_true, Bool.and_eq_true, decide_eq_true_eq, beq_iff_eq] at *
  omega

theorem insertByStart_perm (s : Schedule K) (l : List (Schedule K)) :
    (insertByStart s l).Perm (s :: l) := by
  induction l with
  | nil => exact List.Perm.refl _
  | cons q qs ih =>
    unfold insertByStart
    split
    · exact List.Perm.refl _
    · exact (List.Perm.cons q ih).trans (List.Perm.swap s q qs)

/-- the stable sort by start date only reorders -/
theorem sortByStart_perm (l : List (Schedule K)) : (sortByStart l).Perm l := by
  induction l with
  | nil => exact List.Perm.refl _
  | cons a l ih =>
    have : sortByStart (a :: l) = insertByStart a (sortByStart l) := rfl
    rw [this]
    exact (insertByStart_perm a _).trans (List.Perm.cons a ih)

theorem countValid_perm {l₁ l₂ : List (Schedule K)} (h : l₁.Perm l₂) (md : Nat × Nat) (wd : Nat) :
    countValid l₁ md wd = countValid l₂ md wd := by
  unfold countValid validSchedules
  exact (h.filter _).length_eq

/-- the validity predicate of `_get_tariff_schedule` -/
def validP (md : Nat × Nat) (wd : Nat) (s : Schedule K) : Bool :=
  s.mask.getD wd false && mdLe s.start md && mdLe md s.stop

theorem countValid_eq_countP (l : List (Schedule K)) (md : Nat × Nat) (wd : Nat) :
    countValid l md wd = l.countP (validP md wd) := by
  unfold countValid validSchedules validP
  rw [List.countP_eq_length_filter]

/-- contribution of one schedule to the split list -/
theorem split_pointwise (s : Schedule K) (md : Nat × Nat) (wd : Nat)
    (h1 : mdLe (1, 1) md = true) (h2 : mdLe md (12, 31) = true) :
    (if validP md wd (if wrapped s then { s with stop := (12, 31) } else s) = true then 1 else 0) +
    (if (validP md wd { s with start := (1, 1) } && wrapped s) = true then 1 else 0) =
    (if (s.mask.getD wd false && inSeason s md) = true then 1 else 0) := by
  unfold validP inSeason
  by_cases hw : wrapped s = true
  · simp only [hw, if_true, h1, h2, Bool.and_true]
    have hno := md_no_wrap_overlap s.start s.stop md (by simpa [wrapped] using hw)
    cases hm : s.mask.getD wd false <;> cases ha : mdLe s.start md <;> cases hb : mdLe md s.stop <;>
      simp_all
  · have hw' : wrapped s = false := by simpa using hw
    simp [hw', and_assoc]

end Acn.C17
