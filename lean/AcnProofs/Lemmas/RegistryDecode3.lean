/-
  Helper lemmas for C09 (registry, decoder 3/5): what the decoder reads from each encoded object —
  Simulator, ChargingNetwork, EventQueue, EVSE, events — for every lawful scalar codec.
-/
import AcnProofs.Lemmas.RegistryDecode2

namespace Acn.RegistrySim
open Acn Acn.EventCore Acn.Sim Acn.Registry
variable {K : Type}

section attrs
variable (sh : Show K) (rd : Read K) (cfg : Cfg K) (s : State K)

theorem sim_network : getR (simObj sh cfg s) "network" = some 1 := by
  simp [simObj, getR, attr, refOf]

theorem sim_queue : getR (simObj sh cfg s) "event_queue" = some 2 := by
  simp [simObj, getR, attr, refOf, List.lookup_cons]

theorem sim_evHist : getL (simObj sh cfg s) "ev_history" =
    some (s.core.evHist.flatMap fun sid => [.scalar ("s:" ++ sid), evRefItem (layout cfg s) s sid]) := by
  simp [simObj, getL, attr, listOf, List.lookup_cons, sStatic, sF, sON, sN, sB, sOI]

theorem sim_eventHist : getL (simObj sh cfg s) "event_history" =
    some ((List.range s.core.eventHist.length).map fun h => .ref ((layout cfg s).bH + h)) := by
  simp [simObj, getL, attr, listOf, List.lookup_cons, layout]

theorem queue_queue : getL (queueObj cfg s) "_queue" =
    some ((List.range s.core.pending.length).flatMap fun p =>
      [.scalar ("i:" ++ toString ((s.core.pending.getD p default).ts)), .ref ((layout cfg s).bP + p)]) := by
  simp [queueObj, getL, attr, listOf, List.lookup_cons, layout]

theorem net_evses : getL (netObj cfg) "_EVSEs" =
    some ((List.range cfg.stations.length).flatMap fun i =>
      [.scalar ("s:" ++ ((cfg.stations.getD i ⟨"", .finite [], cfg.period⟩).id)), .ref (3 + i)]) := by
  simp [netObj, getL, attr, listOf, List.lookup_cons]

variable {sh rd}

theorem sim_iter (hl : Lawful sh rd) : (getS (simObj sh cfg s) "_iteration").bind rd.nat = some s.core.iter := by
  simp [simObj, getS, attr, scalarOf, List.lookup_cons, sN, hl.nat']

theorem sim_resolve : rdBool (simObj sh cfg s) "_resolve" = some s.core.resolve := by
  cases h : s.core.resolve <;> simp [simObj, rdBool, getS, attr, scalarOf, List.lookup_cons, sB, h]

theorem sim_lastUpd (hl : Lawful sh rd) :
    rdOptInt rd (simObj sh cfg s) "_last_schedule_update" = some s.core.lastUpd := by
  cases h : s.core.lastUpd <;>
    simp [simObj, rdOptInt, getS, attr, scalarOf, List.lookup_cons, sOI, sI, sNull, h, hl.int', hl.int_null]

theorem sim_peak (hl : Lawful sh rd) : (getS (simObj sh cfg s) "peak").bind rd.num = some s.peak := by
  simp [simObj, getS, attr, scalarOf, List.lookup_cons, sF, hl.num]

theorem sim_pilots (hl : Lawful sh rd) : (getS (simObj sh cfg s) "pilot_signals").bind rd.mat = some s.pilots := by
  simp [simObj, getS, attr, scalarOf, List.lookup_cons, hl.mat]

theorem sim_rates (hl : Lawful sh rd) : (getS (simObj sh cfg s) "charging_rates").bind rd.mat = some s.rates := by
  simp [simObj, getS, attr, scalarOf, List.lookup_cons, hl.mat]

theorem evse_pilot (hl : Lawful sh rd) (i : Nat) :
    (getS (evseObj sh cfg s i) "_current_pilot").bind rd.num = some (s.evsePilot.getD i cfg.period) := by
  unfold evseObj
  simp only []
  split <;> simp [getS, attr, scalarOf, List.lookup_cons, sF, hl.num]

theorem evse_ev (i : Nat) :
    getR (evseObj sh cfg s i) "_ev" =
      match s.core.occ (cfg.stations.getD i ⟨"", .finite [], cfg.period⟩).id with
      | some x => (evIdx s x.id).map (layout cfg s).evId
      | none => none := by
  have key : ∀ (v : Val) (rest : List (String × Val)) (c : String) (a b : Val),
      getR { cls := c, attrs := [("_station_id", a), ("_current_pilot", b), ("is_continuous", sStatic), ("_ev", v)] ++ rest }
        "_ev" = refOf v := by
    intro v rest c a b
    simp [getR, attr, List.lookup_cons]
  unfold evseObj
  simp only []
  split <;> rw [key] <;>
    (cases s.core.occ (cfg.stations.getD i ⟨"", .finite [], cfg.period⟩).id with
     | none => rfl
     | some x => simp only [evRefVal]; cases evIdx s x.id <;> rfl)

end attrs

/-! ### events -/

theorem decodeEvent_of {sh : Show K} {rd : Read K} (hl : Lawful sh rd) (l : Layout) (s : State K) (e : Event)
    (g : Nat → Option Obj) (i : Nat) (hg : g i = some (eventObj l s e))
    (hres : e.kind ≠ .recompute → ∃ j ev, evIdx s e.sess = some j ∧ g (l.evId j) = some (evObjOf sh l j ev) ∧
      ev.session = e.sess) : decodeEvent rd g i = some e := by
  unfold decodeEvent
  rw [hg]
  rcases e with ⟨ts, kind, sess⟩
  cases kind with
  | recompute =>
    simp [eventObj, getS, attr, scalarOf, List.lookup_cons, sI, sS, hl.int', hl.str]
  | plugin =>
    obtain ⟨j, ev, hj, hgj, hs⟩ := hres (by simp)
    simp only at hj hs
    simp [eventObj, getS, getR, attr, scalarOf, refOf, List.lookup_cons, sI, sS, hl.int', hl.str, evRefVal, hj, hgj,
      evObjOf, hs]
  | unplug =>
    obtain ⟨j, ev, hj, hgj, hs⟩ := hres (by simp)
    simp only at hj hs
    simp [eventObj, getS, getR, attr, scalarOf, refOf, List.lookup_cons, sI, sS, hl.int', hl.str, evRefVal, hj, hgj,
      evObjOf, hs]

end Acn.RegistrySim
