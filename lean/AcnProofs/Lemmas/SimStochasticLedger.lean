/-
  C19 × C02: the energy ledger (`Acn.Ledger.LedgerQ`, LedgerStoch.lean) is an invariant of the full
  simulator on the stochastic network (`SimSt.run`): `ledgerJ` satisfies `KeepsJ` (EventCoreGM.lean).
  Events, scheduler stage and `post_charging_update` do not touch rates / peak / energies / the
  occupancy log; the apply stage is `Sim.applyStage`, for which `applyStage_ledgerQ` needs only that
  no session sits on two stations — C19's `place_unique`.
-/
import AcnProofs.Lemmas.SimStochastic
import AcnProofs.Lemmas.LedgerStoch

set_option linter.unusedSectionVars false
set_option linter.unusedVariables false

namespace Acn.EventCore
open Acn

/-- a function of the network state that `plugin` / `unplug` leave alone survives the events of a
    period, and so does the iteration counter -/
theorem processG_frame {σ α : Type} {ops : QOps} {net : NetOps σ} {cfg : Cfg} (F : σ → α)
    (hp : ∀ s x, F (net.plugin s x).1 = F s) (hu : ∀ s x, F (net.unplug s x).1 = F s)
    (e : Event) (g : CoreG σ) :
    F (processG ops net cfg e g).1.net = F g.net ∧ (processG ops net cfg e g).1.core.iter = g.core.iter := by
  unfold processG
  split
  · split
    · exact ⟨rfl, rfl⟩
    · rename_i x _
      split
      · exact ⟨rfl, rfl⟩
      · rename_i n' heq
        refine ⟨?_, rfl⟩
        have := hp g.net x
        rw [heq] at this
        exact this
  · split
    · exact ⟨rfl, rfl⟩
    · rename_i x _
      split
      · exact ⟨rfl, rfl⟩
      · rename_i n' heq
        refine ⟨?_, rfl⟩
        have := hu g.net x
        rw [heq] at this
        exact this
  · exact ⟨rfl, rfl⟩

theorem processAllG_frame {σ α : Type} {ops : QOps} {net : NetOps σ} {cfg : Cfg} (F : σ → α)
    (hp : ∀ s x, F (net.plugin s x).1 = F s) (hu : ∀ s x, F (net.unplug s x).1 = F s) :
    ∀ (es : List Event) (g : CoreG σ),
    F (processAllG ops net cfg es g).1.net = F g.net ∧ (processAllG ops net cfg es g).1.core.iter = g.core.iter
  | [], g => ⟨rfl, rfl⟩
  | e :: es, g => by
    have h1 := processG_frame (ops := ops) (cfg := cfg) F hp hu e
      { g with core := { g.core with eventHist := g.core.eventHist ++ [e] } }
    cases hs : stepG ops net cfg e g with
    | mk g2 r =>
      have h1' : F g2.net = F g.net ∧ g2.core.iter = g.core.iter := by
        unfold stepG at hs
        rw [hs] at h1
        exact h1
      cases r with
      | none =>
        have h2 := processAllG_frame (ops := ops) (cfg := cfg) F hp hu es g2
        rw [show processAllG ops net cfg (e :: es) g = processAllG ops net cfg es g2 by
          simp only [processAllG, hs]]
        exact ⟨h2.1.trans h1'.1, h2.2.trans h1'.2⟩
      | some err =>
        rw [show processAllG ops net cfg (e :: es) g = (g2, some err) by simp only [processAllG, hs]]
        exact h1'

theorem eventsStageG_frame {σ α : Type} {ops : QOps} {net : NetOps σ} {cfg : Cfg} (F : σ → α)
    (hp : ∀ s x, F (net.plugin s x).1 = F s) (hu : ∀ s x, F (net.unplug s x).1 = F s) (g : CoreG σ) :
    F (eventsStageG ops net cfg g).1.net = F g.net ∧ (eventsStageG ops net cfg g).1.core.iter = g.core.iter := by
  unfold eventsStageG
  exact processAllG_frame F hp hu _ _

end Acn.EventCore

namespace Acn.SimSt
open Acn Acn.EventCore Acn.Stoch Acn.Ledger

variable {K : Type} [Field K] [LinearOrder K] [IsStrictOrderedRing K] [HasExp K]

/-- the part of the numeric state the ledger speaks about -/
def frame (num : Num K) : Pilots.Mat K × K × List (Evse.Ev K) × List (List (Option String)) :=
  (num.rates, num.peak, num.evs, num.occLog)

theorem frame_resetPilot (cfg : Sim.Cfg K) (num : Num K) (o : Option Station) :
    frame (resetPilot cfg num o) = frame num := by
  cases o <;> rfl

theorem foldl_earlyStepS_frame (cfg : Sim.Cfg K) : ∀ (l : List Sess) (sp sp' : St K),
    l.foldlM (earlyStepS cfg) sp = .ok sp' → frame sp'.2 = frame sp.2
  | [], sp, sp', h => by
    have : sp = sp' := by simpa [pure, Except.pure] using h
    rw [this]
  | x :: l, sp, sp', h => by
    simp only [List.foldlM_cons] at h
    cases hx : earlyStepS cfg sp x with
    | error e => rw [hx] at h; simp [bind, Except.bind] at h
    | ok sp1 =>
      rw [hx] at h
      have h' : l.foldlM (earlyStepS cfg) sp1 = .ok sp' := by simpa [bind, Except.bind] using h
      have ih := foldl_earlyStepS_frame cfg l sp1 sp' h'
      rw [ih]
      unfold earlyStepS at hx
      split at hx
      · cases hx
      · have := Except.ok.inj hx
        rw [← this]
        simp only
        split
        · rfl
        · exact frame_resetPilot cfg _ _

theorem postS_frame (cfg : Sim.Cfg K) (t : Nat) (sp : St K) : frame (postS cfg t sp).1.2 = frame sp.2 := by
  unfold postS
  cases hp : postNet cfg sp with
  | error e => rfl
  | ok sp' =>
    simp only
    unfold postNet at hp
    split at hp
    · exact foldl_earlyStepS_frame cfg _ sp sp' hp
    · have : sp = sp' := by simpa [pure, Except.pure] using hp
      rw [this]

/-- the ledger invariant on a state of the full simulator -/
def ledgerJ (cfg : Sim.Cfg K) (g : CoreG (St K)) : Prop :=
  LedgerQ cfg g.core.iter g.net.2.rates g.net.2.peak g.net.2.evs g.net.2.occLog

theorem evIn_evsAt (net : Net) (evs : List (Evse.Ev K)) (id : String) :
    evIn (evsAt net evs) id =
      (evIn evs id).map fun e => { e with station := ((net.ev e.session).station).getD "" } := by
  unfold evIn evsAt
  rw [List.find?_map]
  rfl

theorem LedgerQ.evsAt {cfg : Sim.Cfg K} {t : Nat} {rates : Pilots.Mat K} {peak : K} {evs : List (Evse.Ev K)}
    {log : List (List (Option String))} (h : LedgerQ cfg t rates peak evs log) (net : Net) :
    LedgerQ cfg t rates peak (evsAt net evs) log := by
  refine ⟨h.log_len, h.rates_wf, ?_, ?_, ?_, h.vacant, h.future, h.peak_eq⟩
  · rw [← h.ids]; simp [SimSt.evsAt, List.map_map, Function.comp_def]
  · intro id e0 e h0 he
    rw [evIn_evsAt] at he
    cases h1 : evIn evs id with
    | none => rw [h1] at he; cases he
    | some e1 =>
      rw [h1] at he
      obtain rfl := Option.some.inj he
      exact h.gain id e0 e1 h0 h1
  · intro id e0 e h0 he
    rw [evIn_evsAt] at he
    cases h1 : evIn evs id with
    | none => rw [h1] at he; cases he
    | some e1 =>
      rw [h1] at he
      obtain rfl := Option.some.inj he
      exact h.sess id e0 e1 h0 h1

/-- no session on two stations, from C19's invariant -/
theorem distinctOcc_occOf {cfg : Sim.Cfg K} (hst : (cfg.stations.map (·.id)).Nodup) {net : Net}
    (hu : ∀ st st' x, net.occ st = some x → net.occ st' = some x → st = st') :
    DistinctOcc (occOf net) cfg.stations := by
  rw [List.Nodup, List.pairwise_map] at hst
  refine hst.imp ?_
  intro a b hab x y hx hy hxy
  unfold occOf at hx hy
  cases ha : net.occ a.id with
  | none => rw [ha] at hx; cases hx
  | some za =>
    cases hb : net.occ b.id with
    | none => rw [hb] at hy; cases hy
    | some zb =>
      rw [ha] at hx; rw [hb] at hy
      simp only [Option.map_some, Option.some.injEq] at hx hy
      subst hx; subst hy
      simp only at hxy
      subst hxy
      exact hab (hu _ _ _ ha hb)

theorem ledger_keepsJ (cfg : Sim.Cfg K) (hst : (cfg.stations.map (·.id)).Nodup) (cs : Nat → Nat)
    (sched : Sim.View K → Except EventCore.Err (Sim.Schedule K)) :
    KeepsJ heapQ (netOps cs cfg) (postS cfg) cfg.core (schedS cfg sched) (applyS cfg)
      (fun hist (s : St K) => LoopInv cfg.core hist s.1) (ledgerJ cfg) where
  events := by
    intro g g1 h hJ
    have hf := eventsStageG_frame (ops := heapQ) (net := netOps cs cfg) (cfg := cfg.core)
      (fun s : St K => frame s.2) (fun _ _ => rfl) (fun s x => frame_resetPilot cfg s.2 _) g
    rw [h] at hf
    obtain ⟨h1, h2⟩ := hf
    simp only [frame, Prod.mk.injEq] at h1
    unfold ledgerJ at hJ ⊢
    rw [h2, h1.1, h1.2.1, h1.2.2.1, h1.2.2.2]
    exact hJ
  flags := by
    intro g c hc hJ
    unfold ledgerJ at hJ ⊢
    simp only [hc]
    exact hJ
  sched := by
    intro g n1 h hJ
    unfold schedS at h
    split at h
    · cases h
    · cases h
      exact hJ
  finish := by
    intro g n1 n2 hP hap hpo hJ
    have hfr : frame n2.2 = frame n1.2 := by
      have := postS_frame cfg g.core.iter n1
      rw [hpo] at this
      exact this
    unfold applyS at hap
    have hr2 : (Sim.applyStage cfg (toSim g)).2 = none := (Prod.mk.inj hap).2
    have hn1 : n1 = (g.net.1, numOf (Sim.applyStage cfg (toSim g)).1) := (Prod.mk.inj hap).1.symm
    have hd : DistinctOcc (toSim g).core.occ cfg.stations :=
      distinctOcc_occOf hst (fun st st' x h1 h2 =>
        Option.some.inj (((hP.inv.occ_iff st x).1 h1).2.1.symm.trans ((hP.inv.occ_iff st' x).1 h2).2.1))
    have hL := applyStage_ledgerQ (cfg := cfg) (a := toSim g) (s' := (Sim.applyStage cfg (toSim g)).1) hd
      (LedgerQ.evsAt hJ g.net.1) (Prod.ext rfl hr2)
    simp only [frame, Prod.mk.injEq] at hfr
    unfold ledgerJ
    show LedgerQ cfg (g.core.iter + 1) n2.2.rates n2.2.peak n2.2.evs n2.2.occLog
    rw [hfr.1, hfr.2.1, hfr.2.2.1, hfr.2.2.2, hn1]
    exact hL

theorem ledgerJ_init (cfg : Sim.Cfg K) (early : Bool) : ledgerJ cfg (init cfg early) := by
  have h := (init_ledger cfg)
  unfold Ledger.Inv at h
  exact h.toQ

end Acn.SimSt
