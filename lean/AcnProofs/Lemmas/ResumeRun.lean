/-
  Helper lemmas for C09 (3/3): the full simulator model.  A scheduler that fails in period `k`
  (`failAt k sched`) aborts `body` after the events of period `k` have been applied; re-running
  `body` on the failed state with the working scheduler pops nothing, still needs a schedule and
  therefore continues exactly like the un-failed `body` (`body_retry`).  `resume_run` lifts this to
  whole runs, for every `k`, every fuel and every start state that satisfies `NoOverdue`.
-/
import AcnProofs.Lemmas.ResumeInv

set_option linter.unusedSectionVars false

namespace Acn.Sim
open Acn Acn.EventCore

variable {K : Type} [Add K] [Sub K] [Mul K] [Div K] [Neg K] [LT K] [LE K]
  [DecidableLT K] [DecidableLE K] [OfNat K 0] [OfNat K 1] [NatCast K] [HasExp K]

/-- the scheduler that raises in period `k` and otherwise is `sched` -/
def failAt (k : Nat) (sched : View K → Except Err (Schedule K)) : View K → Except Err (Schedule K) :=
  fun v => if v.iter = k then .error .schedulerFailed else sched v

/-- the part of `body` after the events of the period (simulator.py:117-141) -/
def afterEvents (cfg : Cfg K) (sched : View K → Except Err (Schedule K)) (s1 : State K) : State K × Option Err :=
  if needsSched cfg.maxRecompute s1.core then
    match schedStage cfg sched { s1 with core := markInvoked s1.core } with
    | .error e => ({ s1 with core := markInvoked s1.core }, some e)
    | .ok m => applyStage cfg { s1 with pilots := m, core := markScheduled (markInvoked s1.core) }
  else applyStage cfg s1

theorem body_eq (cfg : Cfg K) (sched : View K → Except Err (Schedule K)) (s : State K) :
    body cfg sched s = match eventsStage cfg s with
      | (s1, some e) => (s1, some e)
      | (s1, none) => afterEvents cfg sched s1 := rfl

/-! ### projections onto the core -/

theorem processAll_core (cfg : Cfg K) : ∀ (es : List Event) (s : State K),
    (processAll cfg es s).1.core = (EventCore.processAll cfg.core es s.core).1 ∧
    (processAll cfg es s).2 = (EventCore.processAll cfg.core es s.core).2
  | [], _ => ⟨rfl, rfl⟩
  | e :: es, s => by
    have h1 : (stepEv cfg e s).1.core = (EventCore.step cfg.core e s.core).1 := rfl
    have h2 : (stepEv cfg e s).2 = (EventCore.step cfg.core e s.core).2 := rfl
    simp only [processAll, EventCore.processAll]
    rcases hs : stepEv cfg e s with ⟨s2, _ | err⟩ <;> rcases hc : EventCore.step cfg.core e s.core with ⟨c2, _ | err'⟩ <;>
      rw [hs, hc] at h1 h2 <;> simp only [] at h1 h2 ⊢
    · subst h1; exact processAll_core cfg es s2
    · cases h2
    · cases h2
    · exact ⟨h1, h2⟩

theorem eventsStage_core (cfg : Cfg K) (s : State K) :
    (eventsStage cfg s).1.core = (EventCore.eventsStage cfg.core s.core).1 ∧
    (eventsStage cfg s).2 = (EventCore.eventsStage cfg.core s.core).2 :=
  processAll_core cfg _ _

theorem setPilotAt_core (cfg : Cfg K) (s : State K) (i : Nat) (st : Station K) :
    (setPilotAt cfg s i st).1.core = s.core := by
  unfold setPilotAt
  simp only []
  split <;> rfl

theorem updatePilotsFrom_core (cfg : Cfg K) : ∀ (i : Nat) (sts : List (Station K)) (s : State K),
    (updatePilotsFrom cfg i sts s).1.core = s.core
  | _, [], _ => rfl
  | i, st :: rest, s => by
    simp only [updatePilotsFrom]
    have h := setPilotAt_core cfg s i st
    rcases hs : setPilotAt cfg s i st with ⟨s2, _ | err⟩ <;> rw [hs] at h <;> simp only [] at h ⊢
    · rw [updatePilotsFrom_core cfg (i + 1) rest s2, h]
    · exact h

theorem storeRates_core (cfg : Cfg K) (w : Nat) (s : State K) : (storeRates cfg w s).1.core = s.core := by
  unfold storeRates
  simp only []
  by_cases h1 : s.core.iter < s.rates.width
  · simp only [h1, if_true]
  · simp only [h1, if_false]
    by_cases h2 : s.core.iter < (Pilots.increaseWidth s.rates w).width
    · simp only [h2, if_true]
    · simp only [h2, if_false]

/-- `applyStage` advances the period counter iff it succeeds and touches nothing else in the core -/
theorem applyStage_core (cfg : Cfg K) (s : State K) :
    (applyStage cfg s).1.core = (match (applyStage cfg s).2 with | none => advance s.core | some _ => s.core) := by
  unfold applyStage updatePilots
  by_cases h : (widen s).pilots.width ≤ s.core.iter
  · simp only [h, if_true]; rfl
  · simp only [h, if_false]
    have h1 := updatePilotsFrom_core cfg 0 cfg.stations (widen s)
    rcases hu : updatePilotsFrom cfg 0 cfg.stations (widen s) with ⟨s2, _ | err⟩ <;> rw [hu] at h1 <;> simp only [] at h1 ⊢
    · have h2 := storeRates_core cfg (widthInc s) s2
      rcases hr : storeRates cfg (widthInc s) s2 with ⟨s3, _ | err⟩ <;> rw [hr] at h2 <;> simp only [] at h2 ⊢
      · rw [h2, h1]; rfl
      · rw [h2, h1]; rfl
    · rw [h1]; rfl

/-- a successful `body`: the period counter moves on by one and the queue is the one the events stage left -/
theorem body_ok_core {cfg : Cfg K} {sched : View K → Except Err (Schedule K)} {s s' : State K}
    (h : body cfg sched s = (s', none)) :
    s'.core.iter = s.core.iter + 1 ∧
    s'.core.pending = (EventCore.eventsStage cfg.core s.core).1.pending := by
  rw [body_eq] at h
  have hc := eventsStage_core cfg s
  have hi := EventCore.eventsStage_iter cfg.core s.core
  rcases he : eventsStage cfg s with ⟨s1, _ | err⟩ <;> rw [he] at h hc <;> simp only [] at h hc
  · rw [← hc.1] at hi ⊢
    unfold afterEvents at h
    by_cases hn : needsSched cfg.maxRecompute s1.core = true
    · rw [if_pos hn] at h
      rcases hs : schedStage cfg sched { s1 with core := markInvoked s1.core } with e | m <;> rw [hs] at h <;> simp only [] at h
      · cases h
      · have ha := applyStage_core cfg { s1 with pilots := m, core := markScheduled (markInvoked s1.core) }
        rw [h] at ha
        simp only [] at ha
        rw [ha]
        exact ⟨by show s1.core.iter + 1 = _; rw [hi], rfl⟩
    · rw [if_neg hn] at h
      have ha := applyStage_core cfg s1
      rw [h] at ha
      simp only [] at ha
      rw [ha]
      exact ⟨by show s1.core.iter + 1 = _; rw [hi], rfl⟩
  · cases h

/-- `body` keeps the period counter when it aborts -/
theorem body_err_iter {cfg : Cfg K} {sched : View K → Except Err (Schedule K)} {s s' : State K} {e : Err}
    (h : body cfg sched s = (s', some e)) : s'.core.iter = s.core.iter := by
  rw [body_eq] at h
  have hc := eventsStage_core cfg s
  have hi := EventCore.eventsStage_iter cfg.core s.core
  rcases he : eventsStage cfg s with ⟨s1, _ | err⟩ <;> rw [he] at h hc <;> simp only [] at h hc
  · rw [← hc.1] at hi
    unfold afterEvents at h
    by_cases hn : needsSched cfg.maxRecompute s1.core = true
    · rw [if_pos hn] at h
      rcases hs : schedStage cfg sched { s1 with core := markInvoked s1.core } with e' | m <;> rw [hs] at h <;> simp only [] at h
      · cases h; exact hi
      · have ha := applyStage_core cfg { s1 with pilots := m, core := markScheduled (markInvoked s1.core) }
        rw [h] at ha
        simp only [] at ha
        rw [ha]; exact hi
    · rw [if_neg hn] at h
      have ha := applyStage_core cfg s1
      rw [h] at ha
      simp only [] at ha
      rw [ha]; exact hi
  · cases h; rw [← hc.1] at hi; exact hi

theorem body_noOverdue {cfg : Cfg K} {sched : View K → Except Err (Schedule K)} {s s' : State K}
    (hI : NoOverdue cfg.core s.core) (h : body cfg sched s = (s', none)) : NoOverdue cfg.core s'.core := by
  obtain ⟨h1, h2⟩ := body_ok_core h
  intro e he hk
  rw [h2] at he
  have := EventCore.eventsStage_noOverdue hI e he hk
  rw [h1]
  exact this

/-! ### the failing scheduler -/

theorem afterEvents_failAt_ne (cfg : Cfg K) (sched : View K → Except Err (Schedule K)) {k : Nat} {s1 : State K}
    (h : s1.core.iter ≠ k) : afterEvents cfg (failAt k sched) s1 = afterEvents cfg sched s1 := by
  unfold afterEvents schedStage
  have : failAt k sched (view cfg { s1 with core := markInvoked s1.core }) = sched (view cfg { s1 with core := markInvoked s1.core }) := by
    unfold failAt
    have : (view cfg { s1 with core := markInvoked s1.core }).iter = s1.core.iter := rfl
    rw [this, if_neg h]
  rw [this]

theorem eventsStage_iter' (cfg : Cfg K) (s : State K) : (eventsStage cfg s).1.core.iter = s.core.iter := by
  rw [(eventsStage_core cfg s).1, EventCore.eventsStage_iter]

theorem body_failAt_ne (cfg : Cfg K) (sched : View K → Except Err (Schedule K)) {k : Nat} {s : State K}
    (h : s.core.iter ≠ k) : body cfg (failAt k sched) s = body cfg sched s := by
  rw [body_eq, body_eq]
  have hi := eventsStage_iter' cfg s
  rcases he : eventsStage cfg s with ⟨s1, _ | err⟩ <;> rw [he] at hi <;> simp only [] at hi ⊢
  exact afterEvents_failAt_ne cfg sched (by rw [hi]; exact h)

/-- in period `k` either the scheduler is not reached (then nothing changes), or the run aborts
    right after the events stage with one more entry in `invoked` -/
theorem body_failAt_eq (cfg : Cfg K) (sched : View K → Except Err (Schedule K)) {k : Nat} {s : State K}
    (h : s.core.iter = k) :
    body cfg (failAt k sched) s = body cfg sched s ∨
    ∃ s1, eventsStage cfg s = (s1, none) ∧ needsSched cfg.maxRecompute s1.core = true ∧
      body cfg (failAt k sched) s = ({ s1 with core := markInvoked s1.core }, some .schedulerFailed) := by
  rw [body_eq, body_eq]
  have hi := eventsStage_iter' cfg s
  rcases he : eventsStage cfg s with ⟨s1, _ | err⟩ <;> rw [he] at hi <;> simp only [] at hi ⊢
  · by_cases hn : needsSched cfg.maxRecompute s1.core = true
    · by_cases hg : (activeEvs cfg { s1 with core := markInvoked s1.core }).any (fun e => !sessionInfoOk e) = true
      · left
        unfold afterEvents schedStage
        simp only [hn, if_true, hg]
      · right
        refine ⟨s1, rfl, hn, ?_⟩
        unfold afterEvents schedStage
        have hv : failAt k sched (view cfg { s1 with core := markInvoked s1.core }) = .error .schedulerFailed := by
          unfold failAt
          have : (view cfg { s1 with core := markInvoked s1.core }).iter = s1.core.iter := rfl
          rw [this, hi, if_pos h]
        simp only [hn, if_true, hg, hv]
        rfl
    · left
      unfold afterEvents
      rw [if_neg hn, if_neg hn]
  · left; trivial

/-! ### `ObsEq` is a congruence for `body` and `run` -/

theorem afterEvents_withInv (cfg : Cfg K) (sched : View K → Except Err (Schedule K)) (l : List Nat) (s : State K) :
    ObsEqR (afterEvents cfg sched (withInv l s)) (afterEvents cfg sched s) := by
  unfold afterEvents
  have hn : needsSched cfg.maxRecompute (withInv l s).core = needsSched cfg.maxRecompute s.core := rfl
  rw [hn]
  by_cases h : needsSched cfg.maxRecompute s.core = true
  · simp only [h, if_true]
    have e1 : ({ withInv l s with core := markInvoked (withInv l s).core } : State K)
        = withInv (l ++ [s.core.iter]) { s with core := markInvoked s.core } := rfl
    rw [e1, schedStage_withInv]
    rcases schedStage cfg sched { s with core := markInvoked s.core } with e | m <;> simp only []
    · exact ⟨rfl, rfl⟩
    · have e2 : ({ withInv l s with pilots := m, core := markScheduled (markInvoked (withInv l s).core) } : State K)
          = withInv (l ++ [s.core.iter]) { s with pilots := m, core := markScheduled (markInvoked s.core) } := rfl
      rw [e2, applyStage_withInv]
      exact ⟨rfl, rfl⟩
  · simp only [h]
    rw [applyStage_withInv]
    exact ⟨rfl, rfl⟩

theorem body_obs (cfg : Cfg K) (sched : View K → Except Err (Schedule K)) {s t : State K} (h : ObsEq s t) :
    ObsEqR (body cfg sched t) (body cfg sched s) := by
  rw [h.eq_withInv, body_eq, body_eq, eventsStage_withInv]
  rcases eventsStage cfg s with ⟨s1, _ | err⟩ <;> simp only []
  · exact afterEvents_withInv cfg sched _ s1
  · exact ⟨rfl, rfl⟩

theorem guard_obs {s t : State K} (h : ObsEq s t) : guard t.core = guard s.core := by
  rw [h.eq_withInv]; rfl

theorem run_obs (cfg : Cfg K) (sched : View K → Except Err (Schedule K)) : ∀ (n : Nat) {s t : State K}, ObsEq s t →
    ObsEqR (run cfg sched n t) (run cfg sched n s)
  | 0, _, _, h => ⟨h.symm, rfl⟩
  | n + 1, s, t, h => by
    simp only [run, guard_obs h]
    by_cases hg : guard s.core = true
    · simp only [hg, if_true]
      have hb := body_obs cfg sched h
      rcases hs : body cfg sched s with ⟨s', _ | e⟩ <;> rcases ht : body cfg sched t with ⟨t', _ | e'⟩ <;>
        rw [hs, ht] at hb <;> simp only []
      · exact run_obs cfg sched n hb.1.symm
      · exact absurd hb.2 (by simp)
      · exact absurd hb.2 (by simp)
      · exact hb
    · simp only [hg]
      exact ⟨h.symm, rfl⟩

/-! ### re-running `body` on the failed state -/

theorem eventsStage_of_fresh (cfg : Cfg K) {s : State K} (h : Fresh s.core) : eventsStage cfg s = (s, none) := by
  unfold eventsStage
  rw [popCurrent_fresh h]
  rfl

/-- `failed_body_idempotent_prefix`, model level -/
theorem body_retry (cfg : Cfg K) (sched : View K → Except Err (Schedule K)) {s s1 : State K}
    (hI : NoOverdue cfg.core s.core) (he : eventsStage cfg s = (s1, none)) :
    let s' : State K := { s1 with core := markInvoked s1.core }
    (popCurrent s'.core.iter s'.core.pending).1 = [] ∧
    needsSched cfg.maxRecompute s'.core = needsSched cfg.maxRecompute s1.core ∧
    (guard s.core = true → guard s'.core = true) ∧
    ObsEqR (body cfg sched s') (body cfg sched s) := by
  intro s'
  have hc := eventsStage_core cfg s
  rw [he] at hc
  simp only [] at hc
  have hf : Fresh s1.core := by rw [hc.1]; exact EventCore.eventsStage_fresh hI
  have hf' : Fresh s'.core := hf
  refine ⟨by rw [popCurrent_fresh hf'], rfl, ?_, ?_⟩
  · intro hg
    have := EventCore.eventsStage_guard hg hc.2.symm
    rw [← hc.1] at this
    exact this
  · rw [body_eq, body_eq, he, eventsStage_of_fresh cfg hf']
    simp only []
    exact afterEvents_withInv cfg sched (s1.core.invoked ++ [s1.core.iter]) s1

/-! ### whole runs -/

theorem run_failAt_gt (cfg : Cfg K) (sched : View K → Except Err (Schedule K)) {k : Nat} :
    ∀ (n : Nat) {s : State K}, k < s.core.iter → run cfg (failAt k sched) n s = run cfg sched n s
  | 0, _, _ => rfl
  | n + 1, s, h => by
    simp only [run]
    split
    · rw [body_failAt_ne cfg sched (by omega)]
      rcases hb : body cfg sched s with ⟨s', _ | e⟩ <;> simp only []
      exact run_failAt_gt cfg sched n (by rw [(body_ok_core hb).1]; omega)
    · rfl

/-- crash in period `k`, then resume, against the uninterrupted run — from any state that satisfies
    the invariant, for every fuel -/
theorem resume_run (cfg : Cfg K) (sched : View K → Except Err (Schedule K)) (k : Nat) :
    ∀ (n : Nat) {s : State K}, NoOverdue cfg.core s.core → s.core.iter ≤ k →
      run cfg (failAt k sched) n s = run cfg sched n s ∨
      ((run cfg (failAt k sched) n s).2 = some .schedulerFailed ∧
       (run cfg (failAt k sched) n s).1.core.iter = k ∧
       Fresh (run cfg (failAt k sched) n s).1.core ∧
       ObsEqR (run cfg sched (n - (k - s.core.iter)) (run cfg (failAt k sched) n s).1) (run cfg sched n s))
  | 0, _, _, _ => Or.inl rfl
  | n + 1, s, hI, hk => by
    by_cases hg : guard s.core = true
    · rcases Nat.lt_or_eq_of_le hk with hlt | heq
      · -- before the crash period: same body
        have hb := body_failAt_ne cfg sched (k := k) (s := s) (by omega)
        simp only [run, hg, if_true, hb]
        rcases hbs : body cfg sched s with ⟨s', _ | e⟩ <;> simp only []
        · have hc := body_ok_core hbs
          rcases resume_run cfg sched k n (body_noOverdue hI hbs) (by rw [hc.1]; omega) with h | ⟨h1, h2, h3, h4⟩
          · exact Or.inl h
          · right
            refine ⟨h1, h2, h3, ?_⟩
            have : n + 1 - (k - s.core.iter) = n - (k - s'.core.iter) := by rw [hc.1]; omega
            rw [this]
            exact h4
        · exact Or.inl trivial
      · -- the crash period
        rcases body_failAt_eq cfg sched heq with hb | ⟨s1, he, hn, hb⟩
        · left
          simp only [run, hg, if_true, hb]
          rcases hbs : body cfg sched s with ⟨s', _ | e⟩ <;> simp only []
          exact run_failAt_gt cfg sched n (by rw [(body_ok_core hbs).1]; omega)
        · right
          obtain ⟨_, _, hg', hobs⟩ := body_retry cfg sched hI he
          have hc := eventsStage_core cfg s
          rw [he] at hc
          simp only [] at hc
          have hi1 : s1.core.iter = s.core.iter := by rw [hc.1, EventCore.eventsStage_iter]
          have hr : run cfg (failAt k sched) (n + 1) s = ({ s1 with core := markInvoked s1.core }, some .schedulerFailed) := by
            simp only [run, hg, if_true, hb]
          rw [hr]
          refine ⟨rfl, by show s1.core.iter = k; rw [hi1, heq], ?_, ?_⟩
          · show Fresh (markInvoked s1.core)
            have : Fresh s1.core := by rw [hc.1]; exact EventCore.eventsStage_fresh hI
            exact this
          · have : n + 1 - (k - s.core.iter) = n + 1 := by omega
            rw [this]
            simp only [run, hg' hg, hg, if_true]
            rcases h1 : body cfg sched { s1 with core := markInvoked s1.core } with ⟨a, _ | e⟩ <;>
              rcases h2 : body cfg sched s with ⟨b, _ | e'⟩ <;> rw [h1, h2] at hobs <;> simp only []
            · exact run_obs cfg sched n hobs.1.symm
            · exact absurd hobs.2 (by simp)
            · exact absurd hobs.2 (by simp)
            · exact hobs
    · left
      simp only [run, hg, Bool.false_eq_true, if_false]

/-! ### the initial state satisfies the invariant -/

/-- well-formed sessions: what crash/resume needs of `Valid` (no overlap condition) -/
structure SessionsOK (cfg : EventCore.Cfg) : Prop where
  ids : (cfg.sessions.map (·.id)).Nodup
  times : ∀ x ∈ cfg.sessions, 0 ≤ x.arrival ∧ x.arrival < x.departure

theorem findSession_of_mem {cfg : EventCore.Cfg} (h : SessionsOK cfg) {x y : Session} (hx : x ∈ cfg.sessions)
    (hf : findSession cfg x.id = some y) : y = x := by
  unfold findSession at hf
  have hy : y ∈ cfg.sessions := List.mem_of_find?_eq_some hf
  have hid : y.id = x.id := by
    have := List.find?_some hf
    simpa using this
  exact List.inj_on_of_nodup_map h.ids hy hx hid

theorem init_noOverdue {cfg : EventCore.Cfg} (h : SessionsOK cfg) : NoOverdue cfg (EventCore.init cfg) := by
  intro e he hk
  simp only [EventCore.init, initPending, List.mem_append, List.mem_map] at he
  rcases he with ⟨x, hx, rfl⟩ | ⟨r, _, rfl⟩
  · refine ⟨by show ((0 : Nat) : Int) ≤ x.arrival; have := (h.times x hx).1; omega, ?_⟩
    intro y hy
    have : y = x := findSession_of_mem h hx hy
    subst this
    exact (h.times y hx).2
  · simp [recEv] at hk

end Acn.Sim
