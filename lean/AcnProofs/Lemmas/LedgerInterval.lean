/-
  Helper lemmas for C02 (6/7): under C01's `Valid`, the occupancy snapshot of period `τ` shows
  session `x` at its station exactly when `arrival_x ≤ τ < departure_x` — the ledger invariant
  combined with C01's loop invariant `EventCore.Inv` (through the projection `Sim.body_core`).
-/
import AcnProofs.Lemmas.LedgerTotal
import AcnProofs.Lemmas.EventCoreSim
import AcnProofs.Lemmas.EventCoreRun

set_option linter.unusedSectionVars false
set_option linter.unusedSimpArgs false
set_option linter.unusedVariables false
set_option linter.unusedTactic false
set_option linter.unreachableTactic false

namespace Acn.Ledger
open Acn Acn.Sim Acn.EventCore Acn.Evse Finset

variable {K : Type} [Field K] [LinearOrder K] [IsStrictOrderedRing K] [HasExp K]

/-- what `applyStage` does to the snapshot log, the counter and the occupancy -/
theorem applyStage_log {cfg : Cfg K} (hn : StationsNodup cfg) {a s' : State K}
    (hL : Inv cfg a) (h : applyStage cfg a = (s', none)) :
    s'.occLog = a.occLog ++ [cfg.stations.map fun st => (s'.core.occ st.id).map (·.id)] ∧
    s'.core.iter = a.core.iter + 1 ∧ s'.core.occ = a.core.occ := by
  obtain ⟨w, s2, s3, h2, h3, rfl⟩ := applyStage_ok h
  unfold Inv at hL
  have hd : DistinctOcc a.core.occ cfg.stations := distinctOcc_of hn hL.occ_sound
  obtain ⟨c2, r2, _, l2, _⟩ := updatePilotsFrom_ok cfg cfg.stations 0 _ s2 h2 hd
  simp only at c2 r2 l2
  have hwf2 : s2.rates.WF cfg.stations.length := by
    rw [r2]; exact Pilots.increaseWidth_wf hL.rates_wf w
  obtain ⟨c3, _, l3, _⟩ := storeRates_ok h3 hwf2
  have c3' : s3.core = a.core := c3.trans c2
  simp only [advance, c3', l3, l2]
  refine ⟨?_, ?_, ?_⟩ <;> first | rfl | trivial

theorem body_log {cfg : Cfg K} (hn : StationsNodup cfg)
    (sched : View K → Except EventCore.Err (Schedule K)) {s s' : State K}
    (hL : Inv cfg s) (h : Sim.body cfg sched s = (s', none)) :
    s'.occLog = s.occLog ++ [cfg.stations.map fun st => (s'.core.occ st.id).map (·.id)] ∧
    s'.core.iter = s.core.iter + 1 := by
  obtain ⟨f1, f2, f3, f4, f5, f6⟩ := eventsStage_frame cfg s hL.occ_sound
  unfold Sim.body at h
  cases hes : Sim.eventsStage cfg s with
  | mk s1 err =>
    rw [hes] at f1 f2 f3 f4 f5 f6
    simp only at f1 f2 f3 f4 f5 f6
    cases err with
    | some e => simp [hes] at h
    | none =>
      simp only [hes] at h
      split at h
      · split at h
        · simp at h
        · rename_i m hm
          obtain ⟨g1, g2, _⟩ := applyStage_log hn
            (a := { s1 with core := markScheduled (markInvoked s1.core), pilots := m })
            (hL.transfer f1 f2 f3 f4 f5 f6) h
          rw [show s1.occLog = s.occLog from f4] at g1
          exact ⟨g1, by rw [g2]; simp [markScheduled, markInvoked, f5]⟩
      · obtain ⟨g1, g2, _⟩ := applyStage_log hn (hL.transfer f1 f2 f3 f4 f5 f6) h
        rw [f4] at g1
        exact ⟨g1, by rw [g2, f5]⟩

/-- the snapshot log shows exactly the sessions whose connection interval contains the period -/
def LogInterval (cfg : Cfg K) (s : State K) : Prop :=
  ∀ τ i id, occAt s.occLog τ i = some id ↔
    τ < s.core.iter ∧ ∃ st x, cfg.stations[i]? = some st ∧ x ∈ cfg.core.sessions ∧ x.id = id ∧
      x.station = st.id ∧ x.arrival ≤ (τ : Int) ∧ (τ : Int) < x.departure

/-- ledger invariant + C01's loop invariant + the interval reading of the log -/
structure IInv (cfg : Cfg K) (s : State K) : Prop where
  led : Inv cfg s
  core : EventCore.Inv cfg.core s.core.iter s.core
  log : LogInterval cfg s

theorem init_iinv (cfg : Cfg K) (hv : Valid cfg.core) : IInv cfg (Sim.init cfg) := by
  refine ⟨init_ledger cfg, init_inv hv, ?_⟩
  intro τ i id
  constructor
  · intro h; simp [Sim.init, occAt] at h
  · rintro ⟨h, _⟩; simp [Sim.init, EventCore.init] at h

theorem body_iinv {cfg : Cfg K} (hn : StationsNodup cfg) (hv : Valid cfg.core)
    (sched : View K → Except EventCore.Err (Schedule K)) {s s' : State K}
    (hI : IInv cfg s) (h : Sim.body cfg sched s = (s', none)) : IInv cfg s' := by
  have hled := body_ledger hn sched hI.led h
  obtain ⟨hlog, hiter⟩ := body_log hn sched hI.led h
  have hb2 : (Sim.body cfg sched s).2 = none := by rw [h]
  have hproj := Sim.body_core cfg sched s hb2
  rw [h] at hproj
  obtain ⟨c', hc', hInv'⟩ := body_ok hv (sched := noFail) (apply := noFail) (fun _ => rfl) (fun _ => rfl) hI.core
  rw [hproj] at hc'
  obtain rfl : s'.core = c' := by simpa using hc'
  have hcore : EventCore.Inv cfg.core s'.core.iter s'.core := by rw [hiter]; exact hInv'
  refine ⟨hled, hcore, ?_⟩
  have hlen : s.occLog.length = s.core.iter := hI.led.log_len
  intro τ i id
  rw [hlog, hiter]
  rcases Nat.lt_trichotomy τ s.core.iter with hlt | heq | hgt
  · rw [occAt_append_lt _ _ (by rw [hlen]; exact hlt), hI.log τ i id]
    constructor
    · rintro ⟨_, hp⟩; exact ⟨by omega, hp⟩
    · rintro ⟨_, hp⟩; exact ⟨hlt, hp⟩
  · subst heq
    have e1 := occAt_append_eq s.occLog (cfg.stations.map fun st => (s'.core.occ st.id).map (·.id)) i
    rw [hlen] at e1
    rw [e1, occRow_getD]
    cases hi : cfg.stations[i]? with
    | none =>
      simp only
      constructor
      · intro hc; simp at hc
      · rintro ⟨_, st, x, hst, _⟩; simp at hst
    | some st =>
      simp only [occId]
      constructor
      · intro hc
        cases hx : s'.core.occ st.id with
        | none => simp [hx] at hc
        | some x =>
          simp only [hx, Option.map_some, Option.some.injEq] at hc
          obtain ⟨m1, m2, m3, m4⟩ := (hInv'.occ st.id x).1 hx
          refine ⟨Nat.lt_succ_self _, st, x, rfl, m1, hc, m2, ?_, ?_⟩
          · push_cast at m3; omega
          · push_cast at m4; omega
      · rintro ⟨_, st', x, hst, m1, m2, m3, m4, m5⟩
        obtain rfl : st = st' := by simpa using hst
        have hx : s'.core.occ st.id = some x :=
          (hInv'.occ st.id x).2 ⟨m1, m3, by push_cast; omega, by push_cast; omega⟩
        simp [hx, m2]
  · rw [occAt_none_of_ge _ (by simp [hlen]; omega)]
    constructor
    · intro hc; simp at hc
    · rintro ⟨hc, _⟩; omega

theorem run_iinv {cfg : Cfg K} (hn : StationsNodup cfg) (hv : Valid cfg.core)
    (sched : View K → Except EventCore.Err (Schedule K)) : ∀ (n : Nat) (s s' : State K),
    IInv cfg s → Sim.run cfg sched n s = (s', none) → IInv cfg s' := by
  intro n
  induction n with
  | zero =>
    intro s s' hL h
    simp only [Sim.run, Prod.mk.injEq, and_true] at h
    exact h ▸ hL
  | succ n ih =>
    intro s s' hL h
    unfold Sim.run at h
    split at h
    · cases hb : Sim.body cfg sched s with
      | mk s1 err =>
        cases err with
        | some e => simp [hb] at h
        | none =>
          simp only [hb] at h
          exact ih s1 s' (body_iinv hn hv sched hL hb) h
    · simp only [Prod.mk.injEq, and_true] at h
      exact h ▸ hL

/-- the snapshot at the session's own station number, read as the connection interval -/
theorem occAt_iff_interval {cfg : Cfg K} (hn : StationsNodup cfg) (hv : Valid cfg.core) {s : State K}
    (hI : IInv cfg s) {id : String} {e0 : Ev K} (h0 : evIn cfg.evs id = some e0) (τ : Nat) :
    occAt s.occLog τ (stationIndex cfg e0.station) = some id ↔
      τ < s.core.iter ∧ e0.arrival ≤ (τ : Int) ∧ (τ : Int) < e0.departure := by
  have hmem : e0 ∈ cfg.evs := List.mem_of_find?_eq_some h0
  have hsid : e0.session = id := evIn_session h0
  have hx0 : sessionOf e0 ∈ cfg.core.sessions := List.mem_map.2 ⟨e0, hmem, rfl⟩
  rw [hI.log]
  constructor
  · rintro ⟨hτ, st, x, _, m1, m2, _, m4, m5⟩
    have : x = sessionOf e0 := id_inj hv m1 hx0 (by rw [m2]; exact hsid.symm)
    subst this
    exact ⟨hτ, m4, m5⟩
  · rintro ⟨hτ, m4, m5⟩
    have hreg := hv.registered _ hx0
    simp only [Cfg.core, List.mem_map] at hreg
    obtain ⟨st, hst, hstid⟩ := hreg
    obtain ⟨k, hk⟩ := List.mem_iff_getElem?.1 hst
    have hidx := stationIndex_of hn hk
    rw [hstid] at hidx
    have hidx' : stationIndex cfg e0.station = k := hidx
    refine ⟨hτ, st, sessionOf e0, by rw [hidx']; exact hk, hx0, hsid, hstid.symm, m4, m5⟩

end Acn.Ledger
