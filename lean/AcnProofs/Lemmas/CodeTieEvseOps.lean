/-
  T1c, stateful methods — `BaseEVSE.plugin` / `unplug` / `set_pilot` ARE `Evse.plugin` / `unplug` / `setPilot`, by
  proof (group EvseOps; properties C13, C01, C03).

  `AcnModel/Gen/CodeEvseOps.lean` is regenerated on every run from acnportal/acnsim/models/evse.py (class BaseEVSE):
  `self` is the model's record `Evse.Evse K` (`_ev`, `_current_pilot`, `_station_id`); the abstract
  `self._valid_rate(pilot)` (subclass dispatch, default tolerance) is the model's `validRate` on the EVSE's class
  (tied per class in CodeTieEvse), `self._ev.charge(..)` is `Evse.Ev.charge` with the noise draw `ν` as an input
  (tied in CodeTieBattery); `self._ev.charge` on `None` would be `AttributeError`, `raise` is `.error .<class>`.

  A pilot stored after instead of before the validity test, a dropped `_current_pilot = 0` in `unplug`, `is not None`
  for `is None` in `plugin`, a swallowed exception … change `Gen.Code.*` and the theorems below stop compiling.
-/
import AcnModel.Gen.CodeEvseOps

set_option linter.unusedSectionVars false

set_option linter.unusedSimpArgs false

namespace Acn.CodeTie
open Acn Acn.Battery Acn.Evse Acn.Gen.Code

/-- the error classes of the hand model `AcnModel/Evse.lean` as abstractions of the Python exception classes:
    the model does not distinguish what `Battery.charge` raised -/
def evseErrOfPy : PyErr → Evse.Err
  | .InvalidRateError => .invalidRate
  | .StationOccupiedError => .stationOccupied
  | _ => .valueError

section
variable {K : Type} [Add K] [Sub K] [Mul K] [Div K] [Neg K] [LT K] [LE K]
  [DecidableLT K] [DecidableLE K] [OfNat K 0] [OfNat K 1] [NatCast K] [HasExp K]

/-- `BaseEVSE.plugin` is `Evse.plugin`; the only exception is `StationOccupiedError` (the f-string of its
    message reads `self._ev.session_id`, which cannot fail in that branch) -/
theorem evse_plugin_tie (s : Evse K) (e : Ev K) :
    evse_plugin s e =
      match Evse.plugin s e with
      | .ok s' => .ok s'
      | .error _ => .error .StationOccupiedError := by
  unfold evse_plugin Evse.plugin
  cases h : s.ev <;> simp [h]

theorem evse_plugin_err (s : Evse K) (e : Ev K) : (evse_plugin s e).mapError evseErrOfPy = Evse.plugin s e := by
  unfold evse_plugin Evse.plugin
  cases h : s.ev <;> simp [h, Except.mapError, evseErrOfPy]

/-- `BaseEVSE.unplug` is `Evse.unplug` -/
theorem evse_unplug_tie (s : Evse K) : evse_unplug s = Evse.unplug s := rfl

/-- `BaseEVSE.set_pilot` is `Evse.setPilot` (with the model's error classes) -/
theorem evse_set_pilot_tie (atol fixedAtol ν : K) (s : Evse K) (p V T : K) :
    (evse_set_pilot atol fixedAtol ν s p V T).mapError evseErrOfPy = Evse.setPilot atol fixedAtol s p V T ν := by
  unfold evse_set_pilot Evse.setPilot
  by_cases hv : validRate atol fixedAtol s.kind p = true
  · simp only [hv, if_true]
    cases he : s.ev with
    | none => simp [he, Except.mapError]
    | some e =>
      simp only [he, Option.isSome_some, if_true]
      cases hc : Ev.charge e p V T ν with
      | error x => cases x <;> simp [Except.mapError, evseErrOfPy, battErrToPy]
      | ok e' => simp [Except.mapError]
  · simp [hv, Except.mapError, evseErrOfPy]

/-- what `set_pilot` can raise: `InvalidRateError`, or whatever `Battery.charge` raised — never the
    `AttributeError` of the translated `self._ev.charge` on `None` -/
theorem evse_set_pilot_errors (atol fixedAtol ν : K) (s : Evse K) (p V T : K) (err : PyErr)
    (h : evse_set_pilot atol fixedAtol ν s p V T = .error err) :
    err = .InvalidRateError ∨ err = .ValueError ∨ err = .ZeroDivisionError := by
  unfold evse_set_pilot at h
  by_cases hv : validRate atol fixedAtol s.kind p = true
  · simp only [hv, if_true] at h
    cases he : s.ev with
    | none => simp [he] at h
    | some e =>
      simp only [he, Option.isSome_some, if_true] at h
      cases hc : Ev.charge e p V T ν with
      | error x =>
        rw [hc] at h
        cases x <;> simp [battErrToPy] at h <;> simp [← h]
      | ok e' => rw [hc] at h; simp at h
  · simp [hv] at h
    simp [← h]

end

/-- every target of this group was translated in this run -/
theorem all_translated_evseops : translatedEvseOps = ["evse_plugin", "evse_unplug", "evse_set_pilot"] := by decide

end Acn.CodeTie
