/-
  T1c, stateful methods — `BaseEVSE.plugin` / `unplug` / `set_pilot` ARE `Evse.plugin` / `unplug` / `setPilot`, by
  proof (group EvseOps; properties C13, C01, C03).

  `AcnModel/Gen/CodeEvseOps.lean` is regenerated on every run from acnportal/acnsim/models/evse.py (class BaseEVSE):
  `self` is the model's record `Evse.Evse K` (`_ev`, `_current_pilot`, `_station_id`); the abstract
  `self._valid_rate(pilot)` (subclass dispatch, default tolerance) is the model's `validRate` on the EVSE's class
  (tied per class in CodeTieEvse), `self._ev.charge(..)` is `Evse.Ev.charge` with the noise draw `ν` as an input
  (tied in CodeTieBattery); `self._ev.charge` on `None` would be `AttributeError`, `raise` is `.error .<class>`,
  and a raising method returns the EVSE as it is at the raise (`set_pilot` has already stored the pilot when
  `EV.charge` raises — `evse_set_pilot_err`).

  A pilot stored after instead of before the validity test, a dropped `_current_pilot = 0` in `unplug`, `is not None`
  for `is None` in `plugin`, a swallowed exception … change `Gen.Code.*` and the theorems below stop compiling.
-/
import AcnModel.Gen.CodeEvseOps

set_option linter.unusedSectionVars false

set_option linter.unusedSimpArgs false

namespace Acn.CodeTie
open Acn Acn.Battery Acn.Evse Acn.Gen.Code

/-- the error classes of the hand model `AcnModel/Evse.lean` as abstractions of the Python exception classes:
    the model does not distinguish what `Battery.charge` raised -/
def evseErrOfPy : PyErr → Evse.Err
  | .InvalidRateError => .invalidRate
  | .StationOccupiedError => .stationOccupied
  | _ => .valueError

section
variable {K : Type} [Add K] [Sub K] [Mul K] [Div K] [Neg K] [LT K] [LE K]
  [DecidableLT K] [DecidableLE K] [OfNat K 0] [OfNat K 1] [NatCast K] [HasExp K]

/-- what a translated method reports: `none`, or the model's class of the exception -/
def evseOutcome : Except PyErr Unit → Option Evse.Err
  | .ok _ => none
  | .error e => some (evseErrOfPy e)

/-- `BaseEVSE.plugin` is `Evse.plugin`; the only exception is `StationOccupiedError` (the f-string of its
    message reads `self._ev.session_id`, which cannot fail in that branch), and it leaves the EVSE as it was -/
theorem evse_plugin_tie (s : Evse K) (e : Ev K) :
    evse_plugin s e =
      match Evse.plugin s e with
      | .ok s' => (s', .ok ())
      | .error _ => (s, .error .StationOccupiedError) := by
  unfold evse_plugin Evse.plugin
  cases h : s.ev <;> simp [h]

/-- `BaseEVSE.unplug` is `Evse.unplug` -/
theorem evse_unplug_tie (s : Evse K) : evse_unplug s = Evse.unplug s := rfl

/-- `BaseEVSE.set_pilot`, accepted: exactly when `Evse.setPilot` accepts, with the same EVSE afterwards -/
theorem evse_set_pilot_ok (atol fixedAtol ν : K) (s s' : Evse K) (p V T : K) :
    evse_set_pilot atol fixedAtol ν s p V T = (s', .ok ()) ↔ Evse.setPilot atol fixedAtol s p V T ν = .ok s' := by
  unfold evse_set_pilot Evse.setPilot
  by_cases hv : validRate atol fixedAtol s.kind p = true
  · simp only [hv, if_true]
    cases he : s.ev with
    | none => simp
    | some e =>
      simp only [Option.isSome_some, if_true]
      cases hc : Ev.charge e p V T ν with
      | error x => simp
      | ok e' => simp
  · simp [hv]

/-- `BaseEVSE.set_pilot`, rejected: the model reports the class of what the code raises — `InvalidRateError`
    with the EVSE untouched, or what `Battery.charge` raised with the new pilot ALREADY stored (the assignment
    precedes the call) — and never the `AttributeError` of the translated `self._ev.charge` on `None` -/
theorem evse_set_pilot_err (atol fixedAtol ν : K) (s : Evse K) (p V T : K) (err : Evse.Err)
    (h : Evse.setPilot atol fixedAtol s p V T ν = .error err) :
    ∃ pe, (evse_set_pilot atol fixedAtol ν s p V T).2 = .error pe ∧ evseErrOfPy pe = err ∧
      ((pe = .InvalidRateError ∧ (evse_set_pilot atol fixedAtol ν s p V T).1 = s) ∨
       ((pe = .ValueError ∨ pe = .ZeroDivisionError) ∧
         (evse_set_pilot atol fixedAtol ν s p V T).1 = { s with pilot := p })) := by
  unfold Evse.setPilot at h
  unfold evse_set_pilot
  by_cases hv : validRate atol fixedAtol s.kind p = true
  · simp only [hv, if_true] at h ⊢
    cases he : s.ev with
    | none => simp [he] at h
    | some e =>
      simp only [he, Option.isSome_some, if_true] at h ⊢
      cases hc : Ev.charge e p V T ν with
      | error x =>
        rw [hc] at h
        simp only at h
        cases h
        cases x
        · exact ⟨.ValueError, rfl, rfl, Or.inr ⟨Or.inl rfl, rfl⟩⟩
        · exact ⟨.ZeroDivisionError, rfl, rfl, Or.inr ⟨Or.inr rfl, rfl⟩⟩
      | ok e' => rw [hc] at h; simp at h
  · have hv' : validRate atol fixedAtol s.kind p = false := by simpa using hv
    rw [hv'] at h ⊢
    simp only [Bool.false_eq_true, if_false] at h
    cases h
    exact ⟨.InvalidRateError, rfl, rfl, Or.inl ⟨rfl, rfl⟩⟩

end

/-- every target of this group was translated in this run -/
theorem all_translated_evseops : translatedEvseOps = ["evse_plugin", "evse_unplug", "evse_set_pilot"] := by decide

end Acn.CodeTie
