/-
  Algebraic core of C16 over an arbitrary linear ordered field: the wye bound and the squared
  magnitudes of the three line currents at 120° spacing (`r` stands for √3: only `r * r = 3` is used).
-/
import Mathlib.Algebra.Order.Field.Basic
import Mathlib.Tactic.Linarith
import Mathlib.Tactic.Ring
import Mathlib.Tactic.LinearCombination
import Mathlib.Tactic.Positivity

namespace Acn.SitesAlg
variable {K : Type} [Field K] [LinearOrder K] [IsStrictOrderedRing K]

/-- three line currents bounded by `m` ⇒ the sum of the three line-pair currents is at most `√3·m` -/
theorem wye_sq (x y z m : K)
    (ha : x * x + x * z + z * z ≤ m * m) (hb : x * x + x * y + y * y ≤ m * m)
    (hc : y * y + y * z + z * z ≤ m * m) :
    (x + y + z) * (x + y + z) ≤ 3 * (m * m) := by
  nlinarith [sq_nonneg (x - y), sq_nonneg (y - z), sq_nonneg (x - z)]

/-- `I_a = AB − CA` with AB at 30°, CA at 150° -/
theorem lineA_sq (r x z : K) (hr : r * r = 3) :
    (r / 2 * (x + z)) * (r / 2 * (x + z)) + ((x - z) / 2) * ((x - z) / 2) = x * x + x * z + z * z := by
  linear_combination ((x + z) * (x + z) / 4) * hr

/-- `I_b = BC − AB` with BC at −90°, AB at 30° -/
theorem lineB_sq (r x y : K) (hr : r * r = 3) :
    (-(r / 2 * x)) * (-(r / 2 * x)) + (-(y + x / 2)) * (-(y + x / 2)) = x * x + x * y + y * y := by
  linear_combination (x * x / 4) * hr

/-- `I_c = CA − BC` with CA at 150°, BC at −90° -/
theorem lineC_sq (r y z : K) (hr : r * r = 3) :
    (-(r / 2 * z)) * (-(r / 2 * z)) + (z / 2 + y) * (z / 2 + y) = y * y + y * z + z * z := by
  linear_combination (z * z / 4) * hr

/-- from the squared wye bound to the power form: `120·r·Σ ≤ 360·m` -/
theorem power_of_wye (r s m : K) (hr : r * r = 3) (hm : 0 ≤ m)
    (h : s * s ≤ 3 * (m * m)) : 120 * r * s ≤ 360 * m := by
  have h1 : (r * s) * (r * s) ≤ (3 * m) * (3 * m) := by
    have : (r * s) * (r * s) = 3 * (s * s) := by linear_combination (s * s) * hr
    rw [this]; nlinarith
  have h2 : r * s ≤ 3 * m := by
    by_contra hlt
    rw [not_le] at hlt
    have h3 : 0 ≤ 3 * m := by positivity
    nlinarith
  nlinarith

/-- a sum of same-angle currents: the magnitude is the sum -/
theorem same_angle_sq (c s x : K) (hcs : c * c + s * s = 1) :
    (x * c) * (x * c) + (x * s) * (x * s) = x * x := by
  linear_combination (x * x) * hcs

theorem le_of_sq_le (x b : K) (hb : 0 ≤ b) (h : x * x ≤ b * b) : x ≤ b := by
  by_contra hlt
  rw [not_le] at hlt
  nlinarith

end Acn.SitesAlg
