/-
  Helper lemmas for C06, part 4: `constraint_current` with `constraints=` / `time_indices=`:
  selecting rows and periods commutes with computing the aggregate currents.
-/
import AcnModel.Feas
import AcnProofs.Lemmas.FeasSums
import Mathlib.Tactic

namespace Acn.Feas
open Acn

set_option linter.unusedSectionVars false

variable {K : Type} [Field K] [LinearOrder K] [IsStrictOrderedRing K]

theorem periods_selectCols (S : List (List K)) (ts : List Nat)
    (h : ∀ t ∈ ts, t < periods S) :
    periods (S.map fun row => ts.map fun t => row.getD t 0) = ts.length := by
  cases S with
  | nil =>
    cases ts with
    | nil => rfl
    | cons t ts => have := h t (by simp); simp [periods] at this
  | cons r S => simp [periods]

theorem col_selectCols (S : List (List K)) (ts : List Nat) (k : Nat) (hk : k < ts.length) :
    col (S.map fun row => ts.map fun t => row.getD t 0) k = col S ts[k] := by
  simp only [col, List.map_map]
  congr 1
  funext row
  simp [Function.comp, List.getD_eq_getElem?_getD, hk]

/-- **selection commutes with the computation**: the table returned for `constraints=names`,
    `time_indices=ts` consists of the entries `|Σ_j M_ij S_j,ts[k] e^{iφ_j}|²` for the selected rows
    `i` (matrix order) and the requested periods (request order, repeats allowed). -/
theorem constraintCurrentSq_select (cids : List String) (M : List (List K)) (c s : List K)
    (S : List (List K)) (names : Option (List String)) (ts : List Nat)
    (h : ∀ t ∈ ts, t < periods S) :
    constraintCurrentSq cids M c s S names (some ts)
      = .ok ((selectRows cids M names).map fun row => ts.map fun t => sqMag row c s (col S t)) := by
  have hall : ts.all (fun t => decide (t < periods S)) = true := by
    simpa [List.all_eq_true] using h
  simp only [constraintCurrentSq, selectCols, hall, if_true, periods_selectCols S ts h]
  congr 1
  apply List.map_congr_left
  intro row _
  apply List.ext_getElem
  · simp
  · intro k h1 h2
    have hk : k < ts.length := by simpa using h1
    simp only [List.getElem_map, List.getElem_range]
    rw [col_selectCols S ts k hk]

theorem constraintCurrentSq_oob (cids : List String) (M : List (List K)) (c s : List K)
    (S : List (List K)) (names : Option (List String)) (ts : List Nat)
    (h : ∃ t ∈ ts, periods S ≤ t) :
    constraintCurrentSq cids M c s S names (some ts) = .error .indexError := by
  have hall : ts.all (fun t => decide (t < periods S)) = false := by
    rw [List.all_eq_false]
    obtain ⟨t, ht, hle⟩ := h
    exact ⟨t, ht, by simpa using hle⟩
  simp [constraintCurrentSq, selectCols, hall]

theorem selectRows_all (cids : List String) (M : List (List K)) (h : cids.length = M.length) :
    selectRows cids M none = M := by
  simp only [selectRows]
  exact List.map_snd_zip (by omega)
end Acn.Feas
