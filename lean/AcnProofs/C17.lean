/-
  C17 — tariff lookup is total, unambiguous and aligned with simulation time.

  Property theorems only (general part).  The obligations about the regenerated data of each
  of the five bundled files (`total_unambiguous_<file>`, `breakpoints_ok_<file>`, `loads_<file>`,
  `tariff_total_<file>`) live in one module per file, `AcnProofs/Lemmas/TariffFile_<file>.lean`,
  so that a file whose data breaks an obligation does not take the other files' theorems down
  with it.
-/
import AcnModel.Tariff
import AcnProofs.Lemmas.TariffCalendar
import AcnProofs.Lemmas.TariffLookup
import AcnProofs.Lemmas.TariffSplit
import AcnProofs.Lemmas.TariffDecimal
import AcnProofs.Lemmas.TariffVec
import AcnModel.TariffPeriod
import AcnModel.TariffMemo
import AcnProofs.Lemmas.TariffPeriod
import AcnProofs.Lemmas.TariffMemo
import Mathlib.Tactic

namespace Acn.C17
open Acn Acn.Tariff Acn.Calendar

/-! ### loader -/

/-- A season that wraps the new year is valid exactly on `[start, 12-31] ∪ [01-01, end]`, once:
    after the loader's split and sort, the number of valid schedules on any (month, day) of the
    year and weekday equals the number of file entries whose mask contains the weekday and whose
    season — wrap-around included — contains the date. -/
theorem wrap_split_spec {K : Type} (l : List (Schedule K)) (md : Nat × Nat) (wd : Nat)
    (h1 : mdLe (1, 1) md = true) (h2 : mdLe md (12, 31) = true) :
    countValid (sortByStart (splitWrap l)) md wd =
      (l.filter (fun s => s.mask.getD wd false && inSeason s md)).length := by
  rw [countValid_perm (sortByStart_perm _), countValid_eq_countP, ← List.countP_eq_length_filter]
  unfold splitWrap
  rw [List.countP_append, List.countP_map, List.countP_map, List.countP_filter]
  simp only [Function.comp_def]
  induction l with
  | nil => rfl
  | cons s l ih =>
    simp only [List.countP_cons]
    have := split_pointwise s md wd h1 h2
    omega

example : countValid (sortByStart (splitWrap
    [({ id := "W", start := (11, 1), stop := (4, 30), mask := [true, true, true, true, true, true, true],
        tariffs := [(0, (1 : Rat))], demand := 0 } : Schedule Rat)])) (1, 15) 2 = 1 := by decide +kernel

/-! ### breakpoint lookup -/

/-- For ANY breakpoint list that is strictly increasing and starts at 0 and any time of day
    `x ≥ 0` (in particular every `x ∈ [0, 24)`), `lookup` succeeds and returns the rate of the
    greatest breakpoint ≤ `x`. -/
theorem lookup_spec {K : Type} [LT K] [DecidableLT K] (l : List (Rat × K)) (hs : StrictTimes l)
    (p0 : Rat × K) (hhead : l.head? = some p0) (h0 : p0.1 = 0) (x : Rat) (hx : 0 ≤ x) :
    ∃ p ∈ l, lookup l x = .ok p.2 ∧ p.1 ≤ x ∧ ∀ q ∈ l, q.1 ≤ x → q.1 ≤ p.1 := by
  have hmem : p0 ∈ l := List.mem_of_mem_head? (by rw [hhead]; rfl)
  obtain ⟨p, hp⟩ := find_rev_exists l x p0 hmem (by rw [h0]; exact hx)
  obtain ⟨hpl, hpx, hmax⟩ := find_rev_spec l hs x p hp
  refine ⟨p, hpl, ?_, hpx, hmax⟩
  unfold lookup
  rw [sortPairs_of_strict l hs, hp]

example : lookup [((0 : Rat), (5 : Rat)), (17 / 2, 7), (43 / 2, 5)] (17 / 2) = .ok 7 := by decide +kernel
example : StrictTimes [((0 : Rat), (5 : Rat)), (17 / 2, 7), (43 / 2, 5)] := by
  simp [StrictTimes]; norm_num

/-! ### the `Decimal` hour value (tou_tariff.py:113-117) -/

/-- rounding bound of the model of `decimal` (any precision `p`, half-even): the result of rounding
    `num/den` is within half a unit of its last place, `|roundQ p num den − num/den| ≤ ½·10^e` with
    `e` the exponent of the result, and `e ≤ digits(num) − digits(den) − p + 1`, i.e. with
    `p = 28` at most `5·10^(E−28)` for a value of decimal exponent `E`. -/
theorem decimal_rounding_bound (p num den : Nat) (hden : 0 < den) (hnum : num ≠ 0) :
    |(roundQ p num den).toRat - (num : ℚ) / den| ≤ 1 / 2 * (10 : ℚ) ^ (roundQ p num den).e ∧
    (roundQ p num den).e ≤ (ndigits num : ℤ) - ndigits den - p + 1 :=
  ⟨roundQ_err p num den hden, roundQ_exp_le p num den hnum⟩

/-- for every whole second `h:m:s` that is not a whole minute, `Decimal(h) + Decimal(m)/60 +
    Decimal(s)/3600` is within 1.2·10⁻²⁶ of `(3600h + 60m + s)/3600` -/
theorem decimal_hour_close (h m s : Nat) (hh : h < 24) (hm : m < 60) (hs0 : 1 ≤ s) (hs : s < 60) :
    |(targetHour h m s).toRat - (secOfDay h m s : ℚ) / 3600| ≤ 12 / 10 ^ 27 :=
  target_hour_close h m s hh hm hs0 hs

/-- for ALL 86 400 seconds of the day, comparing the `Decimal` hour value with a half-hour
    breakpoint `k/2` is the same as comparing whole seconds -/
theorem decimal_no_flip (h m s : Nat) (hh : h < 24) (hm : m < 60) (hs : s < 60) (k : Nat) :
    (k : ℚ) / 2 ≤ (targetHour h m s).toRat ↔ 1800 * k ≤ secOfDay h m s :=
  target_hour_no_flip h m s hh hm hs k

example : (targetHour 8 29 59).toRat < 17 / 2 ∧ (17 : ℚ) / 2 ≤ (targetHour 8 30 0).toRat := by
  decide +kernel

/-! ### schedule selection + lookup -/

/-- exactly one valid schedule ⇒ `_get_tariff_schedule` returns it -/
theorem select_of_count_one {K : Type} (l : List (Schedule K)) (md : Nat × Nat) (wd : Nat)
    (h : countValid l md wd = 1) :
    ∃ sch ∈ l, selectSchedule l md wd = .ok sch ∧
      (sch.mask.getD wd false && mdLe sch.start md && mdLe md sch.stop) = true := by
  unfold countValid at h
  unfold selectSchedule
  match hv : validSchedules l md wd, h with
  | [s], _ =>
    have hs : s ∈ validSchedules l md wd := by rw [hv]; exact List.mem_singleton.mpr rfl
    unfold validSchedules at hs
    rw [List.mem_filter] at hs
    exact ⟨s, hs.1, rfl, hs.2⟩

/-- more or fewer than one valid schedule ⇒ `get_tariff` raises -/
theorem select_error_of_count_ne_one {K : Type} (l : List (Schedule K)) (md : Nat × Nat) (wd : Nat)
    (h : countValid l md wd ≠ 1) : ∃ e, selectSchedule l md wd = .error e := by
  unfold countValid at h
  unfold selectSchedule
  match hv : validSchedules l md wd with
  | [] => exact ⟨_, rfl⟩
  | [s] => rw [hv] at h; simp at h
  | _ :: _ :: _ => exact ⟨_, rfl⟩

/-- `get_tariff` on a date with exactly one valid schedule whose breakpoints are in order returns
    the rate of the latest breakpoint at or before the (Decimal) hour value. -/
theorem get_tariff_spec {K : Type} [LT K] [DecidableLT K] (l : List (Schedule K))
    (md : Nat × Nat) (wd h m s : Nat) (hone : countValid l md wd = 1)
    (hbp : ∀ sch ∈ l, breakpointsOk sch = true) :
    ∃ sch ∈ l, selectSchedule l md wd = .ok sch ∧ ∃ p ∈ sch.tariffs,
      getTariff l md wd h m s = .ok p.2 ∧ p.1 ≤ (targetHour h m s).toRat ∧
      ∀ q ∈ sch.tariffs, q.1 ≤ (targetHour h m s).toRat → q.1 ≤ p.1 := by
  obtain ⟨sch, hmem, hsel, _⟩ := select_of_count_one l md wd hone
  have hb := hbp sch hmem
  simp only [breakpointsOk, Bool.and_eq_true] at hb
  obtain ⟨⟨hstrict, hzero⟩, _⟩ := hb
  have hx : 0 ≤ (targetHour h m s).toRat := by
    unfold Dec.toRat; split <;> positivity
  match hts : sch.tariffs, hzero with
  | p0 :: rest, hzero =>
    have h0 : p0.1 = 0 := by simpa [startsAtZeroB, hts] using hzero
    obtain ⟨p, hp, hl, hpx, hmax⟩ :=
      lookup_spec sch.tariffs (strict_of_strictTimesB _ hstrict) p0 (by rw [hts]; rfl) h0 _ hx
    refine ⟨sch, hmem, hsel, p, hp, ?_, hpx, hmax⟩
    unfold getTariff getTariffH
    rw [hsel]
    exact hl

/-- the same in whole seconds, for ALL 86 400 seconds of the day: with half-hour breakpoints the
    returned rate is that of the greatest breakpoint `k/2 h` with `1800·k ≤ seconds since midnight`.
    The 28-digit `Decimal` hour value cannot flip a comparison (`target_hour_no_flip`: half-ulp
    rounding bound `roundQ_err` ⇒ the value is within 1.2·10⁻²⁶ of the exact rational, while every
    second that is not a whole minute is ≥ 1/3600 h from a half hour; whole minutes by a
    kernel-checked table). -/
theorem get_tariff_seconds_spec {K : Type} [LT K] [DecidableLT K] (l : List (Schedule K))
    (md : Nat × Nat) (wd h m s : Nat) (hone : countValid l md wd = 1)
    (hbp : ∀ sch ∈ l, breakpointsOk sch = true) (hh : h < 24) (hm : m < 60) (hs : s < 60) :
    ∃ sch ∈ l, selectSchedule l md wd = .ok sch ∧ ∃ p ∈ sch.tariffs, ∃ kp : Nat,
      getTariff l md wd h m s = .ok p.2 ∧ p.1 = (kp : ℚ) / 2 ∧ 1800 * kp ≤ secOfDay h m s ∧
      ∀ q ∈ sch.tariffs, ∀ kq : Nat, q.1 = (kq : ℚ) / 2 → 1800 * kq ≤ secOfDay h m s → kq ≤ kp := by
  obtain ⟨sch, hmem, hsel, p, hp, hget, hpx, hmax⟩ := get_tariff_spec l md wd h m s hone hbp
  have hb := hbp sch hmem
  simp only [breakpointsOk, Bool.and_eq_true, halfHoursB, List.all_eq_true, beq_iff_eq,
    decide_eq_true_eq] at hb
  obtain ⟨hden, hnn⟩ := hb.2 p hp
  have hnum : (((p.1 * 2).num : ℤ) : ℚ) = p.1 * 2 := Rat.coe_int_num_of_den_eq_one hden
  have hnum0 : 0 ≤ (p.1 * 2).num := Rat.num_nonneg.mpr (by linarith)
  refine ⟨sch, hmem, hsel, p, hp, (p.1 * 2).num.toNat, hget, ?_, ?_, ?_⟩
  · have : (((p.1 * 2).num.toNat : ℕ) : ℚ) = (((p.1 * 2).num : ℤ) : ℚ) := by
      rw [← Int.cast_natCast, Int.toNat_of_nonneg hnum0]
    rw [this, hnum]; ring
  · have hk : (((p.1 * 2).num.toNat : ℕ) : ℚ) / 2 = p.1 := by
      rw [← Int.cast_natCast, Int.toNat_of_nonneg hnum0, hnum]; ring
    rw [← target_hour_no_flip h m s hh hm hs, hk]; exact hpx
  · intro q hq kq hqk hle
    have hqx : q.1 ≤ (targetHour h m s).toRat := by
      rw [hqk]; exact (target_hour_no_flip h m s hh hm hs kq).mpr hle
    have := hmax q hq hqx
    have hk : (((p.1 * 2).num.toNat : ℕ) : ℚ) / 2 = p.1 := by
      rw [← Int.cast_natCast, Int.toNat_of_nonneg hnum0, hnum]; ring
    rw [hqk, ← hk] at this
    have : (kq : ℚ) ≤ ((p.1 * 2).num.toNat : ℕ) := by linarith
    exact_mod_cast this

/-- `get_tariff` at ANY instant `t` (seconds since the epoch, any sign, any year) of a tariff whose
    complete table has exactly one valid schedule everywhere and whose breakpoints are in order:
    the rate of the unique valid schedule at the latest breakpoint at or before the time of day. -/
theorem get_tariff_at_spec {K : Type} [LT K] [DecidableLT K] (l : List (Schedule K))
    (htab : ∀ md ∈ days366, ∀ wd < 7, countValid l md wd = 1)
    (hbp : ∀ sch ∈ l, breakpointsOk sch = true) (t : Int) :
    ∃ sch ∈ l, selectSchedule l (fieldsOf t).md (fieldsOf t).wd = .ok sch ∧ ∃ p ∈ sch.tariffs, ∃ kp : Nat,
      getTariffAt l t = .ok p.2 ∧ p.1 = (kp : ℚ) / 2 ∧
      1800 * kp ≤ secOfDay (fieldsOf t).h (fieldsOf t).m (fieldsOf t).s ∧
      ∀ q ∈ sch.tariffs, ∀ kq : Nat, q.1 = (kq : ℚ) / 2 →
        1800 * kq ≤ secOfDay (fieldsOf t).h (fieldsOf t).m (fieldsOf t).s → kq ≤ kp := by
  obtain ⟨hmd, hwd, hh, hm, hs⟩ := fields_in_table t
  exact get_tariff_seconds_spec l _ _ _ _ _ (htab _ hmd _ hwd) hbp hh hm hs

/-- totality at every instant of any year: if the complete 366 × 7 table has exactly one valid
    schedule everywhere and all breakpoint lists are in order, `get_tariff` and
    `get_demand_charge` succeed at every instant `t` (seconds since the epoch, any sign). -/
theorem tariff_total_of_table {K : Type} [LT K] [DecidableLT K] (l : List (Schedule K))
    (htab : ∀ md ∈ days366, ∀ wd < 7, countValid l md wd = 1)
    (hbp : ∀ sch ∈ l, breakpointsOk sch = true) (t : Int) :
    (∃ r, getTariffAt l t = .ok r) ∧ (∃ d, getDemandAt l t = .ok d) := by
  obtain ⟨hmd, hwd, _, _, _⟩ := fields_in_table t
  have hone := htab _ hmd _ hwd
  obtain ⟨sch, _, hsel, p, _, hget, _, _⟩ :=
    get_tariff_spec l (fieldsOf t).md (fieldsOf t).wd (fieldsOf t).h (fieldsOf t).m (fieldsOf t).s hone hbp
  refine ⟨⟨p.2, hget⟩, ⟨sch.demand, ?_⟩⟩
  unfold getDemandAt getDemand
  simp only [hsel]; rfl

/-! ### vectors -/

/-- `get_tariffs(start, n, period)` is the vector of per-period lookups: it returns `v` iff `v` has
    length `n` and element `t` is `get_tariff(start + t·period)`, for every `t < n` — whatever
    midnight, month or year boundary lies in between; and it raises iff some element does. -/
theorem getTariffs_eq_map {K : Type} [LT K] [DecidableLT K] (l : List (Schedule K)) (start : Int)
    (n period : Nat) (v : List K) :
    getTariffs l start n period = .ok v ↔
      v.length = n ∧ ∀ t (ht : t < v.length),
        getTariffAt l (start + (t : Int) * ((period : Int) * 60)) = .ok v[t] := by
  unfold getTariffs
  rw [mapM_ok_iff, List.forall₂_iff_get]
  simp only [List.length_range, List.get_eq_getElem, List.getElem_range]
  constructor
  · rintro ⟨hlen, h⟩
    exact ⟨hlen.symm, fun t ht => h t (by omega) ht⟩
  · rintro ⟨hlen, h⟩
    exact ⟨hlen.symm, fun t _ ht => h t ht⟩

/-- the same for an arbitrary microsecond start and an arbitrary `timedelta` step (float periods,
    sub-second periods, microsecond starts): element `t` is the tariff of the second that contains
    `start + t·step` -/
theorem getTariffsUs_eq_map {K : Type} [LT K] [DecidableLT K] (l : List (Schedule K)) (startUs : Int)
    (n : Nat) (stepUs : Int) (v : List K) :
    getTariffsUs l startUs n stepUs = .ok v ↔
      v.length = n ∧ ∀ t (ht : t < v.length),
        getTariffAt l ((startUs + (t : Int) * stepUs) / 1000000) = .ok v[t] := by
  unfold getTariffsUs
  rw [mapM_ok_iff, List.forall₂_iff_get]
  simp only [List.length_range, List.get_eq_getElem, List.getElem_range]
  constructor
  · rintro ⟨hlen, h⟩
    exact ⟨hlen.symm, fun t ht => h t (by omega) ht⟩
  · rintro ⟨hlen, h⟩
    exact ⟨hlen.symm, fun t _ ht => h t ht⟩

/-- whole-second starts and whole-minute periods are the special case -/
theorem getTariffs_eq_getTariffsUs {K : Type} [LT K] [DecidableLT K] (l : List (Schedule K))
    (start : Int) (n period : Nat) :
    getTariffs l start n period = getTariffsUs l (start * 1000000) n ((period : Int) * 60 * 1000000) := by
  unfold getTariffs getTariffsUs
  congr 1
  funext t
  congr 1
  have : start * 1000000 + (t : Int) * ((period : Int) * 60 * 1000000) =
      (start + (t : Int) * ((period : Int) * 60)) * 1000000 := by ring
  rw [this, Int.mul_ediv_cancel _ (by norm_num)]

/-- `Interface.get_prices(n, start)`: element `t` is the tariff at `sim.start + (q + t)·period`,
    where `q` is the EXPLICIT `start` whenever one is given (0 included, whatever the current
    iteration is) and the current iteration only when `start` is `None`. -/
theorem interface_prices_aligned {K : Type} [LT K] [DecidableLT K] (l : List (Schedule K))
    (simStart : Int) (period iteration : Nat) (start : Option Int) (n : Nat) (v : List K)
    (h : interfacePrices l simStart period iteration start n = .ok v) :
    v.length = n ∧ ∀ t (ht : t < v.length),
      getTariffAt l (simStart + (queryStep iteration start + (t : Int)) * ((period : Int) * 60)) = .ok v[t] := by
  unfold interfacePrices at h
  obtain ⟨hlen, hv⟩ := (getTariffs_eq_map l _ n period v).mp h
  refine ⟨hlen, fun t ht => ?_⟩
  have := hv t ht
  rw [← this]; congr 1; ring

/-- an explicit start is taken as given — also `start = 0` while the simulation is at a later
    iteration — and `None` means the current iteration -/
theorem interface_explicit_start {K : Type} [LT K] [DecidableLT K] (l : List (Schedule K))
    (simStart : Int) (period it it' : Nat) (k : Int) (n : Nat) :
    interfacePrices l simStart period it (some k) n = interfacePrices l simStart period it' (some k) n ∧
    interfaceDemand l simStart period it (some k) = interfaceDemand l simStart period it' (some k) ∧
    interfacePrices l simStart period it (some 0) n = getTariffs l simStart n period ∧
    interfacePrices l simStart period it none n = interfacePrices l simStart period 0 (some (it : Int)) n := by
  refine ⟨rfl, rfl, ?_, rfl⟩
  unfold interfacePrices queryStep
  simp

/-- `Interface.get_demand_charge(start)` is the demand charge at `sim.start + q·period` -/
theorem interface_demand_aligned {K : Type} [LT K] [DecidableLT K] (l : List (Schedule K))
    (simStart : Int) (period iteration : Nat) (start : Option Int) :
    interfaceDemand l simStart period iteration start =
      getDemandAt l (simStart + queryStep iteration start * ((period : Int) * 60)) := by
  unfold interfaceDemand; congr 1; ring

/-- summing `get_prices(T, 0)·power·dt` over the whole run is `energy_cost` -/
theorem energy_cost_eq_interface_sum {K : Type} [Field K] [LinearOrder K] (l : List (Schedule K))
    (simStart : Int) (period iteration : Nat) (agg : List K) :
    energyCost l simStart period agg =
      (interfacePrices l simStart period iteration (some 0) agg.length).map
        (fun prices => dotK prices agg * ((period : K) / ((60 : Nat) : K))) := by
  have h0 := (interface_explicit_start l simStart period iteration iteration 0 agg.length).2.2.1
  rw [h0]
  unfold energyCost
  cases getTariffs l simStart agg.length period <;> rfl

/-! ### costs -/

section costs
variable {K : Type} [Field K] [LinearOrder K]

/-- `energy_cost = Σ_t price(start + t·period) · power_t · (period / 60)` -/
theorem energy_cost_def (l : List (Schedule K)) (simStart : Int) (period : Nat) (agg : List K) (c : K)
    (h : energyCost l simStart period agg = .ok c) :
    ∃ prices : List K, prices.length = agg.length ∧
      (∀ t (ht : t < prices.length),
        getTariffAt l (simStart + (t : Int) * ((period : Int) * 60)) = .ok prices[t]) ∧
      c = (List.zipWith (· * ·) prices agg).sum * ((period : K) / 60) := by
  unfold energyCost at h
  cases hp : getTariffs l simStart agg.length period with
  | error e => rw [hp] at h; cases h
  | ok prices =>
    rw [hp] at h
    obtain ⟨hlen, hv⟩ := (getTariffs_eq_map l _ _ period prices).mp hp
    refine ⟨prices, hlen, hv, ?_⟩
    have : c = dotK prices agg * ((period : K) / ((60 : Nat) : K)) := by cases h; rfl
    rw [this, dotK, sumK, ← List.sum_eq_foldl]
    norm_num

/-- `demand_charge = demand rate at sim.start × peak aggregate power` -/
theorem demand_charge_def (l : List (Schedule K)) (simStart : Int) (agg : List K) (c : K)
    (h : demandCharge l simStart agg = .ok c) :
    ∃ dc mx, getDemandAt l simStart = .ok dc ∧ mx ∈ agg ∧ (∀ a ∈ agg, a ≤ mx) ∧ c = dc * mx := by
  unfold demandCharge at h
  cases hd : getDemandAt l simStart with
  | error e => rw [hd] at h; cases h
  | ok dc =>
    rw [hd] at h
    cases agg with
    | nil => cases h
    | cons a as =>
      obtain ⟨hm, hle⟩ := foldl_pyMax_spec as a
      refine ⟨dc, as.foldl pyMax a, rfl, hm, hle, ?_⟩
      cases h; rfl

end costs

def exRaw : List (Raw Rat) :=
  [{ id := "A", start := (1, 1), stop := (12, 31), mask := "ALL", times := [0, 12], rates := [1, 3],
     demand := 7 }]

example : energyCost (loadedOf exRaw) 1577836800 360 [2, 2, 2, 2] = .ok 96 := by decide +kernel
example : demandCharge (loadedOf exRaw) 1577836800 [2, 5, 3] = .ok 35 := by decide +kernel
example : getTariffs (loadedOf exRaw) 1577836800 4 360 = .ok [1, 1, 3, 3] := by decide +kernel

/-! ### ANY period (0.5, 2.5, 0.01 … minutes), microsecond starts

`timedelta(minutes=period)` is `tdUs period` microseconds; `startUs` is the start in µs since the epoch.
Element `t` is looked up at the whole second that CONTAINS `start + t·timedelta`: the microseconds of
that instant are dropped (floor), not rounded. -/

/-- a period that is a whole number of microseconds (every period with ≤ 4 decimals of a second, every
    dyadic one down to 2⁻⁸ min …) becomes exactly `60·10⁶·p` µs -/
theorem period_timedelta_exact (p : ℚ) (hp : (p * 60000000).den = 1) : (tdUs p : ℚ) = p * 60000000 :=
  roundHalfEvenQ_of_den_one _ hp

/-- any other period is rounded (half-even) to the nearest microsecond -/
theorem period_timedelta_close (p : ℚ) : |(tdUs p : ℚ) - p * 60000000| ≤ 1 / 2 :=
  roundHalfEvenQ_err _

example : tdUs (1 / 2) = 30000000 ∧ tdUs (5 / 2) = 150000000 ∧ tdUs (1 / 100) = 600000 ∧
    tdUs (1 / 3) = 20000000 ∧ tdUs (1 / 120000000) = 0 ∧ tdUs (1 / 40000000) = 2 := by decide +kernel

/-- `get_tariffs(start, n, period)` for ANY rational period and any microsecond start: it returns `v`
    iff `v` has length `n` and element `t` is `get_tariff` at the whole second
    `⌊(start + t·timedelta(minutes=period)) / 1 s⌋`; it raises iff some element does. -/
theorem get_tariffs_eq_lookup_any_period {K : Type} [LT K] [DecidableLT K] (l : List (Schedule K))
    (startUs : Int) (n : Nat) (p : ℚ) (v : List K) :
    getTariffsP l startUs n p = .ok v ↔
      v.length = n ∧ ∀ t (ht : t < v.length),
        getTariffAt l ⌊(((startUs + (t : Int) * tdUs p : Int) : ℚ)) / 1000000⌋ = .ok v[t] := by
  unfold getTariffsP
  rw [getTariffsUs_eq_map]
  simp only [ediv_million_eq_floor]

/-- … and when the period is a whole number of microseconds the instant that is looked up is exactly
    `⌊start + t·period⌋` in seconds: `start` (in seconds, with its microseconds) plus `t` times `60·p`
    seconds, microseconds DROPPED. -/
theorem get_tariffs_instant_exact (startUs : Int) (t : Nat) (p : ℚ) (hp : (p * 60000000).den = 1) :
    (startUs + (t : Int) * tdUs p) / 1000000 = ⌊(startUs : ℚ) / 1000000 + (t : ℚ) * (p * 60)⌋ := by
  rw [ediv_million_eq_floor]
  congr 1
  push_cast
  rw [period_timedelta_exact p hp]
  ring

/-- dropped, not rounded: 11:59:59.6 is priced as 11:59:59 -/
example : (1561982399600000 : Int) / 1000000 = 1561982399 := by decide

/-- totality for any period: on a tariff whose complete table has exactly one valid schedule everywhere,
    `get_tariffs` succeeds for every start, every length and every period — positive, zero or negative -/
theorem get_tariffs_total_any_period {K : Type} [LT K] [DecidableLT K] (l : List (Schedule K))
    (htab : ∀ md ∈ days366, ∀ wd < 7, countValid l md wd = 1)
    (hbp : ∀ sch ∈ l, breakpointsOk sch = true) (startUs : Int) (n : Nat) (p : ℚ) :
    ∃ v, getTariffsP l startUs n p = .ok v := by
  unfold getTariffsP getTariffsUs
  exact mapM_total _ _ (fun t _ => (tariff_total_of_table l htab hbp _).1)

/-- whole-minute periods and whole-second starts are the special case the earlier theorems are about -/
theorem any_period_extends_whole_minutes {K : Type} [LT K] [DecidableLT K] (l : List (Schedule K))
    (start : Int) (n period : Nat) :
    getTariffsP l (start * 1000000) n (period : ℚ) = getTariffs l start n period := by
  have h : tdUs (period : ℚ) = (period : Int) * 60 * 1000000 := by
    have hq : ((period : ℚ) * 60000000).den = 1 := by
      have : (period : ℚ) * 60000000 = ((period * 60000000 : ℕ) : ℚ) := by push_cast; ring
      rw [this]; exact Rat.den_natCast _
    have := period_timedelta_exact (period : ℚ) hq
    have h2 : ((tdUs (period : ℚ) : Int) : ℚ) = (((period : Int) * 60 * 1000000 : Int) : ℚ) := by
      rw [this]; push_cast; ring
    exact_mod_cast h2
  unfold getTariffsP
  rw [h, getTariffs_eq_getTariffsUs]

/-- `Interface.get_prices(n, start)` for any period: element `t` is the tariff at the whole second
    containing `sim.start + (q + t)·timedelta(minutes=period)`, `q` the explicit `start` if given (0
    included) and the current iteration otherwise. -/
theorem interface_prices_aligned_any_period {K : Type} [LT K] [DecidableLT K] (l : List (Schedule K))
    (simStartUs : Int) (p : ℚ) (iteration : Nat) (start : Option Int) (n : Nat) (v : List K)
    (h : interfacePricesP l simStartUs p iteration start n = .ok v) :
    v.length = n ∧ ∀ t (ht : t < v.length),
      getTariffAt l ⌊(((simStartUs + (queryStep iteration start + (t : Int)) * tdUs p : Int) : ℚ)) / 1000000⌋
        = .ok v[t] := by
  unfold interfacePricesP at h
  obtain ⟨hlen, hv⟩ := (getTariffsUs_eq_map l _ n _ v).mp h
  refine ⟨hlen, fun t ht => ?_⟩
  rw [← hv t ht, ← ediv_million_eq_floor]
  congr 2; ring

/-- `Interface.get_demand_charge(start)` for any period -/
theorem interface_demand_aligned_any_period {K : Type} [LT K] [DecidableLT K] (l : List (Schedule K))
    (simStartUs : Int) (p : ℚ) (iteration : Nat) (start : Option Int) :
    interfaceDemandP l simStartUs p iteration start =
      getDemandAt l ⌊(((simStartUs + queryStep iteration start * tdUs p : Int) : ℚ)) / 1000000⌋ := by
  unfold interfaceDemandP
  rw [← ediv_million_eq_floor]
  congr 2; ring

section costsP
variable {K : Type} [Field K] [LinearOrder K]

/-- `energy_cost = Σ_t price(⌊sim.start + t·timedelta(period)⌋) · power_t · (period / 60)` for any period;
    `pK` is the number `sim.period` in the carrier of the rates -/
theorem energy_cost_def_any_period (l : List (Schedule K)) (simStartUs : Int) (p : ℚ) (pK : K)
    (agg : List K) (c : K) (h : energyCostP l simStartUs p pK agg = .ok c) :
    ∃ prices : List K, prices.length = agg.length ∧
      (∀ t (ht : t < prices.length),
        getTariffAt l ⌊(((simStartUs + (t : Int) * tdUs p : Int) : ℚ)) / 1000000⌋ = .ok prices[t]) ∧
      c = (List.zipWith (· * ·) prices agg).sum * (pK / 60) := by
  unfold energyCostP at h
  cases hp : getTariffsUs l simStartUs agg.length (tdUs p) with
  | error e => rw [hp] at h; cases h
  | ok prices =>
    rw [hp] at h
    obtain ⟨hlen, hv⟩ := (getTariffsUs_eq_map l _ _ _ prices).mp hp
    refine ⟨prices, hlen, fun t ht => ?_, ?_⟩
    · rw [← ediv_million_eq_floor]; exact hv t ht
    · have : c = dotK prices agg * (pK / ((60 : Nat) : K)) := by cases h; rfl
      rw [this, dotK, sumK, ← List.sum_eq_foldl]
      norm_num

/-- the explicit-tariff contract: `energy_cost(sim, tariff)` and `demand_charge(sim, tariff)` use the tariff
    they are GIVEN, whatever `sim.signals` holds (another tariff, no tariff, not even a dict); only without an
    argument `signals["tariff"]` is used; with neither, they raise before any price is looked up. -/
theorem energy_cost_uses_given_tariff (l l' : List (Schedule K))
    (signals : Option (Option (List (Schedule K)))) (simStartUs : Int) (p : ℚ) (pK : K) (agg : List K) :
    energyCostWith (some l) signals simStartUs p pK agg = (energyCostP l simStartUs p pK agg).mapError .tariff ∧
    demandChargeWith (some l) signals simStartUs agg = (demandChargeP l simStartUs agg).mapError .tariff ∧
    energyCostWith none (some (some l')) simStartUs p pK agg = (energyCostP l' simStartUs p pK agg).mapError .tariff ∧
    demandChargeWith none (some (some l')) simStartUs agg = (demandChargeP l' simStartUs agg).mapError .tariff ∧
    energyCostWith none (some none) simStartUs p pK agg = .error (.pick .valueError) ∧
    demandChargeWith none (some none) simStartUs agg = .error (.pick .valueError) ∧
    energyCostWith none none simStartUs p pK agg = .error (.pick .typeError) ∧
    demandChargeWith none none simStartUs agg = .error (.pick .typeError) := by
  refine ⟨?_, ?_, ?_, ?_, rfl, rfl, rfl, rfl⟩ <;>
    simp only [energyCostWith, demandChargeWith, withPicked, Analysis.pickTariff] <;>
    split <;> simp_all [Except.mapError]

/-- … so a given tariff's cost is the defining sum over THAT tariff's prices -/
theorem energy_cost_given_tariff_def (l : List (Schedule K))
    (signals : Option (Option (List (Schedule K)))) (simStartUs : Int) (p : ℚ) (pK : K) (agg : List K) (c : K)
    (h : energyCostWith (some l) signals simStartUs p pK agg = .ok c) :
    ∃ prices : List K, prices.length = agg.length ∧
      (∀ t (ht : t < prices.length),
        getTariffAt l ⌊(((simStartUs + (t : Int) * tdUs p : Int) : ℚ)) / 1000000⌋ = .ok prices[t]) ∧
      c = (List.zipWith (· * ·) prices agg).sum * (pK / 60) := by
  rw [(energy_cost_uses_given_tariff l l signals simStartUs p pK agg).1] at h
  cases hc : energyCostP l simStartUs p pK agg with
  | error e => rw [hc] at h; cases h
  | ok c' =>
    rw [hc] at h
    have : c' = c := by simpa [Except.mapError] using h
    exact energy_cost_def_any_period l simStartUs p pK agg c (this ▸ hc)

end costsP

/-- half-minute periods from a start with microseconds: 4 elements from 2020-01-01 11:59:00.6 -/
example : getTariffsP (loadedOf exRaw) 1577879940600000 4 (1 / 2) = .ok [1, 1, 3, 3] := by decide +kernel
example : energyCostP (loadedOf exRaw) 1577879940600000 (1 / 2) (1 / 2 : Rat) [2, 2, 2, 2] = .ok (2 / 15) := by
  decide +kernel
example : energyCostWith (some (loadedOf exRaw)) (some (some [])) 1577879940600000 (1 / 2) (1 / 2 : Rat) [2, 2, 2, 2]
    = .ok (2 / 15) := by decide +kernel

/-! ### a memo of the selected schedule is invisible iff its key determines (month, day, weekday) -/

/-- For a key that determines (month, day) and the weekday, a tariff object that remembers the selected
    schedule per key answers EVERY history of `get_tariff` / `get_demand_charge` queries — any length, any
    years, starting from any cache filled by earlier histories — exactly as the object without the cache,
    and leaves a cache with the same guarantee. -/
theorem memo_transparent {K κ : Type} [DecidableEq κ] [LT K] [DecidableLT K] (key : Fields → κ)
    (hk : KeySound key) (l : List (Schedule K)) (qs : List Query) (c : Cache K κ) (hc : CacheOk key l c) :
    (runMemo key l c qs).1 = runPlain l qs ∧ CacheOk key l (runMemo key l c qs).2 :=
  runMemo_spec key hk l qs c hc

/-- … and ONLY for such keys: if two datetimes share a key but differ in (month, day) or weekday there
    is a tariff and a two-query history on which the cached object answers differently. -/
theorem memo_transparent_iff {κ : Type} [DecidableEq κ] (key : Fields → κ) :
    (∀ (l : List (Schedule ℚ)) (qs : List Query), (runMemo key l ([] : Cache ℚ κ) qs).1 = runPlain l qs) ↔
      KeySound key := by
  constructor
  · intro h f g hfg
    by_contra hne
    have hne' : ¬ (g.md = f.md ∧ g.wd = f.wd) := fun hh => hne ⟨hh.1.symm, hh.2.symm⟩
    exact runMemo_visible key f g hfg hne' (h _ _)
  · intro hk l qs
    exact (runMemo_spec key hk l qs [] (cacheOk_nil key l)).1

/-- `get_tariffs` through such a cache (a per-call fast path, or the object's cache): element by element
    the answers of `get_tariffs` without it -/
theorem get_tariffs_memo_transparent {K κ : Type} [DecidableEq κ] [LT K] [DecidableLT K] (key : Fields → κ)
    (hk : KeySound key) (l : List (Schedule K)) (c : Cache K κ) (hc : CacheOk key l c)
    (startUs : Int) (n : Nat) (stepUs : Int) :
    (runMemo key l c (vecQueries startUs n stepUs)).1 =
      (List.range n).map (fun (t : Nat) => getTariffAt l ((startUs + (t : Int) * stepUs) / 1000000)) := by
  rw [(runMemo_spec key hk l _ c hc).1]
  simp only [runPlain, vecQueries, List.map_map]
  rfl

/-- (month, day, weekday) and (year, month, day, weekday) are sound keys -/
theorem memo_key_full_sound : KeySound keyFull ∧ KeySound keyDate := by
  constructor <;> intro f g h <;> simp only [keyFull, keyDate, Prod.mk.injEq] at h <;> tauto

/-- summer weekdays 1 → 3 at noon, summer weekends 2, winter 5 -/
def exWeek : List (Raw Rat) :=
  [{ id := "SWD", start := (6, 1), stop := (9, 30), mask := "WEEKDAYS", times := [0, 12], rates := [1, 3], demand := 7 },
   { id := "SWE", start := (6, 1), stop := (9, 30), mask := "WEEKENDS", times := [0], rates := [2], demand := 7 },
   { id := "W", start := (10, 1), stop := (5, 31), mask := "ALL", times := [0], rates := [5], demand := 4 }]

/-- a cache keyed by (month, day) only is visible across years: Friday 2019-07-05 12:00, then Sunday
    2020-07-05 12:00 on the same object — the cache answers the weekday price 3, `get_tariff` says 2 -/
theorem memo_key_month_day_visible :
    ¬ KeySound keyMonthDay ∧
    (runMemo keyMonthDay (loadedOf exWeek) [] [.rate (fieldsOf 1562328000), .rate (fieldsOf 1593950400)]).1
      = [.ok 3, .ok 3] ∧
    runPlain (loadedOf exWeek) [.rate (fieldsOf 1562328000), .rate (fieldsOf 1593950400)] = [.ok 3, .ok 2] := by
  refine ⟨fun h => ?_, by decide +kernel, by decide +kernel⟩
  have := (h (fieldsOf 1562328000) (fieldsOf 1593950400) (by decide +kernel)).2
  revert this; decide +kernel

/-- a cache / fast path keyed by the day of the month only ("the vector ends on the same `.day` it starts
    on") is visible across months: 2019-05-31 12:00 (winter, 5), then 2019-07-31 12:00 (summer weekday, 3) -/
theorem memo_key_day_of_month_visible :
    ¬ KeySound keyDayOfMonth ∧
    (runMemo keyDayOfMonth (loadedOf exWeek) [] [.rate (fieldsOf 1559304000), .rate (fieldsOf 1564574400)]).1
      = [.ok 5, .ok 5] ∧
    runPlain (loadedOf exWeek) [.rate (fieldsOf 1559304000), .rate (fieldsOf 1564574400)] = [.ok 5, .ok 3] := by
  refine ⟨fun h => ?_, by decide +kernel, by decide +kernel⟩
  have := (h (fieldsOf 1559304000) (fieldsOf 1564574400) (by decide +kernel)).1
  revert this; decide +kernel

example : CacheOk keyFull (loadedOf exWeek) ([] : Cache Rat _) := cacheOk_nil _ _

end Acn.C17
