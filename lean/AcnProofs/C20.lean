/-
  C20 — the ACN-Data client yields every session exactly once and converts times faithfully.

  Property theorems only (helpers: `Lemmas/DataClient.lean`, `Lemmas/Calendar*.lean`).
  Pagination is proved for an arbitrary server (`fetch`), any number of pages, any page sizes
  (empty pages included) by induction over the page chain; the calendar round trips hold for
  every integer day number / every year, by decomposition (400-entry and 366-entry tables +
  `omega`), not by enumeration of days; time zones are arbitrary offset functions.
-/
import AcnModel.DataClient
import AcnProofs.Lemmas.DataClient
import AcnProofs.Lemmas.CalendarHttpDate
import AcnProofs.Lemmas.CalendarParse

namespace Acn.C20
open Acn Acn.Calendar Acn.HttpDate Acn.DataClient

variable {α β : Type}

/-! ### pagination: every session exactly once, in server order, no request too many -/

/-- If the server's pages reachable from `u` form a finite chain `p₀ … p_n` (the last one without
    `next`), then — for ANY chain length and page sizes, with any fuel ≥ the number of pages —
    the generator requests exactly the chain's URLs (one request per page, none after the last
    page), yields `p₀.items ++ … ++ p_n.items` (converted), and ends normally. -/
theorem collect_chain {base : String} {fetch : String → Resp α} (conv : α → Except Err β) (f : α → β)
    {u : String} {ps : List (Page α)} (h : Chain base fetch u ps) (fuel : Nat)
    (hfuel : ps.length ≤ fuel) (hc : ∀ p ∈ ps, ∀ a ∈ p.items, conv a = .ok (f a)) :
    collect base fetch conv fuel u =
      { urls := runUrls base u ps, items := (ps.flatMap (·.items)).map f, stop := none } :=
  collect_run conv f h fuel (by rw [runUrls_length_chain h]; exact hfuel) hc

/-- non-vacuity: three pages, the middle one empty -/
example :
    let fetch : String → Resp Nat := fun u =>
      if u == "b/q" then .page ⟨[1, 2], .next "p2"⟩
      else if u == "b/p2" then .page ⟨[], .next "p3"⟩
      else if u == "b/p3" then .page ⟨[2, 3], .last⟩
      else .fail .keyError
    Chain "b/" fetch "b/q" [⟨[1, 2], .next "p2"⟩, ⟨[], .next "p3"⟩, ⟨[2, 3], .last⟩] ∧
    (collect "b/" fetch (fun a => .ok a) 5 "b/q").items = [1, 2, 2, 3] ∧
    (collect "b/" fetch (fun a => .ok a) 5 "b/q").urls = ["b/q", "b/p2", "b/p3"] := by
  refine ⟨?_, by decide, by decide⟩
  exact Run.cons (h := "p2") (by decide) rfl
    (Run.cons (h := "p3") (by decide) rfl (Run.last (by decide) rfl))

/-- fuel adequacy / termination: the result does not depend on the fuel once it covers the chain,
    and it is never the out-of-fuel outcome -/
theorem collect_fuel_adequate {base : String} {fetch : String → Resp α} (conv : α → Except Err β)
    (f : α → β) {u : String} {ps : List (Page α)} (h : Chain base fetch u ps) (f₁ f₂ : Nat)
    (h₁ : ps.length ≤ f₁) (h₂ : ps.length ≤ f₂)
    (hc : ∀ p ∈ ps, ∀ a ∈ p.items, conv a = .ok (f a)) :
    collect base fetch conv f₁ u = collect base fetch conv f₂ u ∧
    (collect base fetch conv f₁ u).stop = none := by
  rw [collect_chain conv f h f₁ h₁ hc, collect_chain conv f h f₂ h₂ hc]
  exact ⟨rfl, rfl⟩

/-- exactly one request per page of the chain: nothing is requested after the last page -/
theorem collect_no_extra_request {base : String} {fetch : String → Resp α}
    (conv : α → Except Err β) (f : α → β) {u : String} {ps : List (Page α)}
    (h : Chain base fetch u ps) (fuel : Nat) (hfuel : ps.length ≤ fuel)
    (hc : ∀ p ∈ ps, ∀ a ∈ p.items, conv a = .ok (f a)) :
    (collect base fetch conv fuel u).urls.length = ps.length := by
  rw [collect_chain conv f h fuel hfuel hc]; exact runUrls_length_chain h

/-- every session exactly as often as the server holds it along the chain (so: exactly once when
    the server's ids are distinct) -/
theorem collect_each_once [BEq α] [LawfulBEq α] {base : String} {fetch : String → Resp α} {u : String}
    {ps : List (Page α)} (h : Chain base fetch u ps) (fuel : Nat) (hfuel : ps.length ≤ fuel)
    (x : α) :
    (collect base fetch (fun a => .ok a) fuel u).items.count x =
      (ps.map (fun p => p.items.count x)).sum := by
  rw [collect_chain (fun a => .ok a) id h fuel hfuel (fun _ _ _ _ => rfl)]
  simp [List.count_flatMap, Function.comp_def]

/-- fault sequences: if a request fails (or a page has no usable `_links`) after some pages were
    served, the sessions of the pages served so far have been yielded, in order, and the error
    surfaces; nothing is requested after it. -/
theorem collect_fault {base : String} {fetch : String → Resp α} (conv : α → Except Err β) (f : α → β)
    {u : String} {ps : List (Page α)} {e : Err} (h : Run base fetch u ps (some e)) (fuel : Nat)
    (hfuel : ps.length + 1 ≤ fuel) (hc : ∀ p ∈ ps, ∀ a ∈ p.items, conv a = .ok (f a)) :
    collect base fetch conv fuel u =
      { urls := runUrls base u ps, items := (ps.flatMap (·.items)).map f, stop := some e } := by
  refine collect_run conv f h fuel ?_ hc
  have : ∀ (u : String) (ps : List (Page α)), (runUrls base u ps).length ≤ ps.length + 1 := by
    intro u ps
    induction ps generalizing u with
    | nil => simp [runUrls]
    | cons p ps ih =>
      cases hn : p.next with
      | next hr => have := ih (base ++ hr); simp [runUrls, hn]; omega
      | last => simp [runUrls, hn]
      | broken => simp [runUrls, hn]
  exact Nat.le_trans (this u ps) hfuel

example :
    let fetch : String → Resp Nat := fun u =>
      if u == "b/q" then .page ⟨[7], .next "p2"⟩ else .fail .jsonError
    collect "b/" fetch (fun a => .ok a) 9 "b/q" =
      { urls := ["b/q", "b/p2"], items := [7], stop := some .jsonError } := by
  decide

/-! ### query construction -/

/-- each given parameter is sent exactly once with the value given, parameters not given are not
    sent, the page size is 100 (1 with time series), `limit` is not used by `get_sessions` -/
theorem query_has_params (q : Query) :
    (params q).lookup .where_ = q.cond ∧ (params q).lookup .project = q.project ∧
    (params q).lookup .sort = q.sort ∧
    (params q).lookup .maxResults = some (if q.timeseries then "1" else "100") ∧
    (params q).lookup .limit = none ∧ ((params q).map Prod.fst).Nodup := by
  obtain ⟨c, p, s, t⟩ := q
  cases c <;> cases p <;> cases s <;> exact ⟨rfl, rfl, rfl, rfl, rfl, by simp [params, optArg]⟩

/-- the site is in the path, `/ts/` is appended for time series, the rendered query follows -/
theorem site_in_path (base site : String) (q : Query) :
    sessionsUrl base site q =
      base ++ ("sessions/" ++ site ++ (if q.timeseries then "/ts/" else "")) ++ render (params q) := rfl

example : sessionsUrl "https://h/api/v1/" "jpl" ⟨some "a==1", none, some "connectionTime", true⟩ =
    "https://h/api/v1/sessions/jpl/ts/?where=a==1&sort=connectionTime&max_results=1" := by decide

/-- an unknown site is rejected with `ValueError` whatever the server would answer: no `Trace`
    exists, i.e. no request is made — by `get_sessions` and by `count_sessions` alike -/
theorem invalid_site_before_request (base site : String) (q : Query) (fetch : String → Resp α)
    (conv : α → Except Err β) (fuel : Nat) (cond : Option String) (head : String → Option String)
    (h : validSite site = false) :
    getSessions base site q fetch conv fuel = .error .valueError ∧
    countSessions base site cond head = .error .valueError := by
  simp [getSessions, countSessions, h]

/-- a known site: the first (and with fuel, only then) request goes to the query URL -/
theorem valid_site_requests_query (base site : String) (q : Query) (fetch : String → Resp α)
    (conv : α → Except Err β) (fuel : Nat) (h : validSite site = true) :
    ∃ tr, getSessions base site q fetch conv (fuel + 1) = .ok tr ∧
      tr.urls.head? = some (sessionsUrl base site q) := by
  refine ⟨collect base fetch conv (fuel + 1) (sessionsUrl base site q), by simp [getSessions, h], ?_⟩
  simp only [collect]
  cases fetch (sessionsUrl base site q) with
  | fail e => rfl
  | page p =>
    simp only []
    rcases hy : yieldAll conv p.items with ⟨bs, _ | e⟩
    · cases p.next <;> rfl
    · rfl

example : validSite "caltech" = true ∧ validSite "Caltech" = false ∧ validSite "" = false := by decide

/-- the time-window wrapper: `where` is the conjunction of the clauses given (in the order start,
    end, energy; the empty string when none is given), sorted by `connectionTime`, no projection -/
theorem time_query_params (start stop : Option Aware) (e : Option String) (ts : Bool) :
    params (timeQuery start stop e ts) =
      [(.where_, " and ".intercalate (timeClauses start stop e)), (.sort, "connectionTime"),
       (.maxResults, if ts then "1" else "100")] := rfl

/-! ### calendar -/

/-- civil → day number → civil is the identity on every date `datetime.date` accepts -/
theorem civil_roundtrip (y m d : Int) (h : validDate y m d = true) :
    civilFromDays (daysFromCivil y m d) = (y, m, d) := by
  simp only [validDate, Bool.and_eq_true, decide_eq_true_eq] at h
  obtain ⟨⟨⟨⟨⟨_, _⟩, h3⟩, h4⟩, h5⟩, h6⟩ := h
  exact civil_roundtrip' y m d h3 h4 h5 h6

example : validDate 2024 2 29 = true ∧ daysFromCivil 2024 2 29 = 19782 ∧
    validDate 2023 2 29 = false ∧ validDate 1900 2 29 = false ∧ validDate 2000 2 29 = true := by
  decide +kernel

/-- day number → civil → day number is the identity on EVERY integer, and the civil date produced
    is a real one (month 1..12, day within the month's length in that year) -/
theorem days_roundtrip (z : Int) :
    daysFromCivil (civilFromDays z).1 (civilFromDays z).2.1 (civilFromDays z).2.2 = z ∧
    1 ≤ (civilFromDays z).2.1 ∧ (civilFromDays z).2.1 ≤ 12 ∧ 1 ≤ (civilFromDays z).2.2 ∧
    (civilFromDays z).2.2 ≤ daysInMonth (civilFromDays z).1 (civilFromDays z).2.1 :=
  ⟨Calendar.days_roundtrip z, civil_valid z⟩

example : civilFromDays (-1) = (1969, 12, 31) ∧ civilFromDays 11016 = (2000, 2, 29) := by decide +kernel

/-- `daysFromCivil` is THE day count of the proleptic Gregorian calendar: 0 on 1970-01-01 and
    exactly one more on the next calendar day, for every valid date of every year -/
theorem calendar_succ (y m d : Int) (hm : 1 ≤ m) (hm' : m ≤ 12) (hd : 1 ≤ d)
    (hd' : d ≤ daysInMonth y m) :
    daysFromCivil 1970 1 1 = 0 ∧
    daysFromCivil (nextDay y m d).1 (nextDay y m d).2.1 (nextDay y m d).2.2 = daysFromCivil y m d + 1 :=
  ⟨daysFromCivil_epoch, daysFromCivil_nextDay y m d hm hm' hd hd'⟩

example : nextDay 2023 2 28 = (2023, 3, 1) ∧ nextDay 2024 2 28 = (2024, 2, 29) ∧
    nextDay 1999 12 31 = (2000, 1, 1) := by decide +kernel

/-- Python's `weekday()`: 1970-01-01 is a Thursday (3), the value is in 0..6, advances by one
    (mod 7) per day — which determines it on all of ℤ -/
theorem weekday_spec (z : Int) :
    weekday (daysFromCivil 1970 1 1) = 3 ∧ 0 ≤ weekday z ∧ weekday z < 7 ∧
    weekday (z + 1) = (weekday z + 1) % 7 := by
  have := weekday_spec_aux z
  exact ⟨by decide +kernel, this.1, this.2.1, this.2.2.1⟩

example : weekday (daysFromCivil 2024 2 29) = 3 ∧ weekday (daysFromCivil 2000 1 1) = 5 := by
  decide +kernel

/-! ### RFC-1123 and aware datetimes -/

/-- first and one-past-last second of the years 1000–9999 -/
def tMin : Int := -30610224000
def tMax : Int := 253402300800

theorem domain_years (t : Int) (h0 : tMin ≤ t) (h1 : t < tMax) :
    1000 ≤ (fieldsOfSeconds t).y ∧ (fieldsOfSeconds t).y ≤ 9999 := by
  have a : daysFromCivil 1000 1 1 = -354285 := by decide +kernel
  have b : daysFromCivil (9999 + 1) 1 1 = 2932897 := by decide +kernel
  obtain ⟨l, _⟩ := year_of_days (t / 86400) 1000
  obtain ⟨_, r⟩ := year_of_days (t / 86400) 9999
  unfold tMin at h0; unfold tMax at h1
  exact ⟨l (by rw [a]; omega), r (by rw [b]; omega)⟩

/-- parsing what `http_date` formatted gives back the instant, for every whole second of the
    years 1000–9999 (the whole domain in which `strftime("%Y")` writes four digits) -/
theorem parse_format (t : Int) (h0 : tMin ≤ t) (h1 : t < tMax) :
    parseRfc1123 (formatRfc1123 t) = some t := by
  obtain ⟨a, b⟩ := domain_years t h0 h1
  simp only [parseRfc1123, formatRfc1123, String.toList_ofList]
  exact parseChars_formatChars t a b

example : formatRfc1123 1709210096 = "Thu, 29 Feb 2024 12:34:56 GMT" ∧
    parseRfc1123 "Thu, 29 Feb 2024 12:34:56 GMT" = some 1709210096 ∧
    parseRfc1123 "Thu, 29 Feb 2023 12:34:56 GMT" = none ∧
    parseRfc1123 "Thu, 29 Feb 2024 24:00:00 GMT" = none ∧
    formatRfc1123 tMin = "Wed, 01 Jan 1000 00:00:00 GMT" ∧
    formatRfc1123 (tMax - 1) = "Fri, 31 Dec 9999 23:59:59 GMT" := by
  decide +kernel

/-- an un-padded day of month (RFC 822/1123 `1*2DIGIT`; `strptime`'s `%d` takes one digit): the
    28-character string obtained from `http_date`'s rendering of `t` by dropping the leading zero of a
    day 01..09 parses to the same instant, for every whole second of the years 1000–9999 -/
theorem parse_unpadded_day (t : Int) (h0 : tMin ≤ t) (h1 : t < tMax) (hd : (fieldsOfSeconds t).d < 10) :
    formatUnpadded t = String.ofList ((formatRfc1123 t).toList.eraseIdx 5) ∧
    (formatRfc1123 t).toList[5]? = some '0' ∧
    parseRfc1123 (formatUnpadded t) = some t := by
  obtain ⟨a, b⟩ := domain_years t h0 h1
  have hd0 := (fieldsOfSeconds_ranges t).2.2.1
  refine ⟨by simp only [formatUnpadded, unpadChars, formatRfc1123, String.toList_ofList], ?_, ?_⟩
  · simp only [formatRfc1123, String.toList_ofList]
    rw [← padDay_unpadChars t hd (by omega)]
    exact padDay_get5 (by show 5 ≤ 28; decide)
  · simp only [parseRfc1123, formatUnpadded, String.toList_ofList]
    exact parseChars_unpadChars t a b hd

example : formatUnpadded 1707482096 = "Fri, 9 Feb 2024 12:34:56 GMT" ∧
    formatRfc1123 1707482096 = "Fri, 09 Feb 2024 12:34:56 GMT" ∧
    parseRfc1123 "Fri, 9 Feb 2024 12:34:56 GMT" = some 1707482096 ∧
    (fieldsOfSeconds 1707482096).d = 9 ∧ tMin ≤ 1707482096 ∧ (1707482096 : Int) < tMax := by
  decide +kernel

/-- only strings of 28 or 29 characters parse (a one-digit hour / minute / second, runs of white
    space, a year that is not four digits are all outside the model's parser) -/
theorem parse_length (s : String) (t : Int) (h : parseRfc1123 s = some t) :
    s.toList.length = 28 ∨ s.toList.length = 29 :=
  parseChars_length h

example : parseRfc1123 "Fri, 09 Feb 2024 12:34:56 GMT" = some 1707482096 ∧
    parseRfc1123 "Fri, 9 Feb 2024 12:34:56 GMT" = some 1707482096 ∧
    parseRfc1123 "Fri,  9 Feb 2024 12:34:56 GMT" = none ∧
    parseRfc1123 "Fri, 09 Feb 2024 2:34:56 GMT" = none ∧
    parseRfc1123 "Fri, 9 Feb 2024 2:34:56 GMT" = none ∧
    parseRfc1123 "Fri, 09 Feb 202 12:34:56 GMT" = none ∧
    parseRfc1123 "Fri, 0 Feb 2024 12:34:56 GMT" = none ∧
    parseRfc1123 "Fri,9 Feb 2024 12:34:56 GMT" = none := by
  decide +kernel

/-- conversely, the parser accepts NOTHING but RFC-1123 renderings, in either shape: if `s` parses to
    `t` then there is a canonical string `c` — fixed width 29, starting with a weekday name, and from
    the comma on, up to letter case, exactly `http_date`'s rendering of `t`, with `t` in the years
    1–9999 — such that `s` is `c` itself, or `c` writes the day of month with a leading zero (so the
    day is 1..9) and `s` is `c` without that zero.  (The weekday name is not checked against the
    date, exactly as in `strptime`.)  With `parse_format` and `parse_unpadded_day` this makes "the
    instant an RFC-1123 string denotes" unambiguous. -/
theorem parse_sound (s : String) (t : Int) (h : parseRfc1123 s = some t) :
    ∃ c : List Char,
      (c.length = 29 ∧
       (∃ w, 0 ≤ w ∧ w < 7 ∧ (c.take 3).map Char.toLower =
          [(wdName w).1.toLower, (wdName w).2.1.toLower, (wdName w).2.2.toLower]) ∧
       (c.drop 3).map Char.toLower = ((formatRfc1123 t).toList.drop 3).map Char.toLower ∧
       1 ≤ (fieldsOfSeconds t).y ∧ (fieldsOfSeconds t).y ≤ 9999) ∧
      (s.toList = c ∨
       (c[5]? = some '0' ∧ (fieldsOfSeconds t).d < 10 ∧ s.toList = c.eraseIdx 5)) := by
  obtain ⟨c, hc, hs⟩ := parseChars_sound (l := s.toList) (t := t) h
  refine ⟨c, by simpa only [formatRfc1123, String.toList_ofList, CanonOf] using hc, ?_⟩
  rcases hs with hs | ⟨h5, hs⟩
  · exact Or.inl hs
  · exact Or.inr ⟨h5, canon_day_lt_ten hc h5, hs⟩

example : parseRfc1123 "mon, 29 FEB 2024 12:34:56 gmt" = some 1709210096 ∧
    parseRfc1123 "Thu, 29 Feb 2024 12:34:56 GMT " = none ∧
    parseRfc1123 "Thu, 29 Feb 2024 12:34:56 UTC" = none ∧
    parseRfc1123 "thu, 9 feb 2024 12:34:56 Gmt" = some 1707482096 ∧
    parseRfc1123 "Thu, 9 Feb 2023 12:34:60 GMT" = none := by
  decide +kernel

/-- converting an instant to ANY zone (arbitrary offset function, so every DST rule) yields an
    aware datetime that denotes the same instant, carries the zone's offset at that instant, and
    whose wall-clock fields are a valid time of day on a real date -/
theorem same_instant (off : Instant → Int) (t : Instant) :
    (toZone off t).instant = t ∧ (toZone off t).off = off t ∧
    1 ≤ (toZone off t).loc.mo ∧ (toZone off t).loc.mo ≤ 12 ∧ 1 ≤ (toZone off t).loc.d ∧
    (toZone off t).loc.d ≤ daysInMonth (toZone off t).loc.y (toZone off t).loc.mo ∧
    0 ≤ (toZone off t).loc.h ∧ (toZone off t).loc.h < 24 ∧ 0 ≤ (toZone off t).loc.mi ∧
    (toZone off t).loc.mi < 60 ∧ 0 ≤ (toZone off t).loc.s ∧ (toZone off t).loc.s < 60 := by
  refine ⟨?_, rfl, fieldsOfSeconds_ranges (t + off t)⟩
  show secondsOfFields (fieldsOfSeconds (t + off t)) - off t = t
  rw [seconds_of_fields_of_seconds]; omega

/-- the table form of a zone is read the way pytz reads it (`bisect_right(times, t) - 1`, clamped):
    the offset in force at `t` is that of the LAST transition at or before `t`, and the initial
    offset when every transition is later -/
theorem zone_off_spec (z : Zone) (t : Instant) :
    ((∀ p ∈ z.trans, t < p.1) → z.off t = z.init) ∧
    (∀ pre post u o, z.trans = pre ++ (u, o) :: post → u ≤ t → (∀ p ∈ post, t < p.1) → z.off t = o) := by
  refine ⟨fun h => foldl_later t z.trans z.init h, ?_⟩
  intro pre post u o hz hu hpost
  unfold Zone.off
  rw [hz, List.foldl_append, List.foldl_cons]
  simp only [hu, ↓reduceIte]
  exact foldl_later t post o hpost

/-- `parse_http_date(s, tz)`: whenever it succeeds, the result denotes exactly the instant the
    RFC-1123 string denotes, localised to `tz` -/
theorem parse_http_date_same_instant (off : Instant → Int) (s : String) (a : Aware)
    (h : parseHttpDate off s = some a) :
    ∃ t, parseRfc1123 s = some t ∧ a = toZone off t ∧ a.instant = t ∧ a.off = off t := by
  unfold parseHttpDate at h
  cases hp : parseRfc1123 s with
  | none => simp [hp] at h
  | some t =>
    simp [hp] at h
    exact ⟨t, rfl, h.symm, by rw [← h]; exact (same_instant off t).1, by rw [← h]; rfl⟩

/-- `parse_http_date(http_date(dt), tz)` denotes the same instant as `dt` (to the second), for
    every aware `dt` whose UTC year is in 1000–9999 and every zone; and if `dt` already is the
    wall clock of `tz` at that instant, the very same datetime comes back -/
theorem http_date_roundtrip (off : Instant → Int) (a : Aware) (h0 : tMin ≤ a.instant)
    (h1 : a.instant < tMax) :
    parseHttpDate off (httpDate a) = some (toZone off a.instant) ∧
    (toZone off a.instant).instant = a.instant ∧
    (a = toZone off a.instant → parseHttpDate off (httpDate a) = some a) := by
  have h : parseHttpDate off (httpDate a) = some (toZone off a.instant) := by
    simp [parseHttpDate, httpDate, parse_format a.instant h0 h1]
  exact ⟨h, (same_instant off _).1, fun e => by rw [h, ← e]⟩

/-- `parse_dates(doc)`: whenever it returns, the zone used is the one named by the document's
    `timezone` field, keys and order are unchanged, and EVERY field is converted as specified —
    a string that is an RFC-1123 date became `toZone off t` for the instant `t` it denotes (hence,
    by `same_instant`, an aware datetime in the document's zone denoting that instant); any other
    string is untouched; every `timestamps` list is converted element by element; other values
    are left alone. -/
theorem parse_dates_faithful (zones : String → Option Zone) (d : Doc) (pd : PDoc)
    (h : parseDates zones d = .ok pd) :
    ∃ name z, lookupStr d "timezone" = some (.str name) ∧ zones name = some z ∧ DocOk z.off d pd := by
  unfold parseDates at h
  cases hl : lookupStr d "timezone" with
  | none => simp [hl] at h
  | some v =>
    cases v with
    | str name =>
      cases hz : zones name with
      | none => simp [hl, hz] at h
      | some z =>
        simp only [hl, hz] at h
        exact ⟨name, z, rfl, hz, parseFields_ok z.off d pd h⟩
    | ts l => simp [hl] at h
    | other => simp [hl] at h

/-- non-vacuity: a document with a null `doneChargingTime`, a session id that is not a date, and a
    time series is converted; the same document without `timezone` is a `KeyError` -/
example :
    let z : Zone := { init := -28800, trans := [(1710064800, -25200)] }
    let zones : String → Option Zone := fun n => if n == "America/Los_Angeles" then some z else none
    let doc : Doc := [("_id", .str "5bc9"), ("connectionTime", .str "Sun, 10 Mar 2024 10:00:00 GMT"),
      ("doneChargingTime", .other), ("timezone", .str "America/Los_Angeles"),
      ("chargingCurrent", .ts ["Sun, 10 Mar 2024 09:59:59 GMT"])]
    (match parseDates zones doc with
      | .ok [(_, .str "5bc9"), (_, .date a), (_, .other), (_, .str _), (_, .ts [b])] =>
        a.instant == 1710064800 && a.off == -25200 && a.loc.h == 3 && b.off == -28800 && b.loc.h == 1
      | _ => false) = true ∧
    (match parseDates zones (doc.take 3) with | .error .keyError => true | _ => false) = true := by
  decide +kernel

/-- non-vacuity: a Los-Angeles-like zone across the 2024 spring-forward transition -/
example :
    let z : Zone := { init := -28800, trans := [(1710064800, -25200), (1730624400, -28800)] }
    (toZone z.off 1710064799).loc = ⟨2024, 3, 10, 1, 59, 59⟩ ∧
    (toZone z.off 1710064800).loc = ⟨2024, 3, 10, 3, 0, 0⟩ ∧
    (toZone z.off 1710064800).off = -25200 ∧
    (toZone z.off 1710064800).instant = 1710064800 := by
  decide +kernel

end Acn.C20
