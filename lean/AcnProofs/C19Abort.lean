/-
  C19 — the full simulator on the stochastic network (`SimSt.run`), two more protocol theorems:

  * `no_starvation_behind_satisfied`: `post_charging_update` runs after EVERY charged period, so at
    every loop head at which somebody still waits, an EV that is satisfied (`fully_charged`) and
    holds a station was itself in the queue while the period just charged was running — nobody
    waits behind a satisfied EV that was charging.  (A loop that skips the hook in idle periods
    breaks this: example below.)
  * `end_to_end_sim_abort`: what the state is when `Simulator.run` raises — the network exactly as
    the failing period's events left it, the C19 invariant intact, the numeric state the failing
    stage's own partial state.

  Helpers: AcnProofs/Lemmas/StochasticSatisfied.lean, AcnProofs/Lemmas/EventCoreGMLast.lean,
  AcnProofs/Lemmas/SimStochasticAbort.lean, AcnProofs/Lemmas/SimStochasticAbortLedger.lean.
-/
import AcnProofs.C19
import AcnProofs.Lemmas.StochasticSatisfied
import AcnProofs.Lemmas.EventCoreGMLast
import AcnProofs.Lemmas.SimStochasticAbort
import AcnProofs.Lemmas.SimStochasticAbortLedger

set_option linter.unusedSectionVars false

namespace Acn.C19
open Acn Acn.Stoch Acn.EventCore

section sim
variable {K : Type} [Add K] [Sub K] [Mul K] [Div K] [Neg K] [LT K] [LE K]
  [DecidableLT K] [DecidableLE K] [OfNat K 0] [OfNat K 1] [NatCast K] [HasExp K]

/-- NOBODY WAITS BEHIND A SATISFIED EV THAT WAS CHARGING.  For every configuration as in
    `end_to_end_sim`, every choice stream, every scheduler: a run of `n` iterations that raised nothing
    ends in the start state or in the state `g` that ONE loop body produces from a loop head `gm`
    reached by an error-free shorter run; with `g1` the state after that period's events (the state in
    which the period is scheduled and charged; its `early_departure` flag is still the constructor's):
    if early departure is on and somebody still waits in
    `g`, then every EV that holds a station in `g` and is fully charged (`SimSt.fullOf`, computed from
    the energies in `g`) was in the QUEUE in `g1` — on no station while the period was charged; the
    hook has just swapped it in.  So an EV that was charging and is satisfied never keeps its station
    while somebody waits: `post_charging_update` is called after every period, charged at 0 A or not. -/
theorem no_starvation_behind_satisfied (cfg : Sim.Cfg K) (hq : ValidQ cfg.core)
    (hst : (cfg.stations.map (·.id)).Nodup) (early : Bool) (cs : Nat → Nat)
    (sched : Sim.View K → Except EventCore.Err (Sim.Schedule K)) (n : Nat) (g : CoreG (SimSt.St K))
    (hrun : SimSt.run cs cfg sched n (SimSt.init cfg early) = (g, none)) :
    g = SimSt.init cfg early ∨
    ∃ k gm g1, k < n ∧ SimSt.run cs cfg sched k (SimSt.init cfg early) = (gm, none) ∧
      eventsStageG heapQ (SimSt.netOps cs cfg) cfg.core gm = (g1, none) ∧
      SimSt.body cs cfg sched gm = (g, none) ∧ g.core.iter = gm.core.iter + 1 ∧
      g1.net.1.earlyDeparture = early ∧
      (early = true → g.net.1.waiting ≠ [] →
        ∀ st x, g.net.1.occ st = some x → SimSt.fullOf cfg g.net.2 x = true →
          x ∈ g1.net.1.waiting ∧ ∀ st', g1.net.1.occ st' ≠ some x) := by
  obtain ⟨h0, g0⟩ := initG_inv (σ := SimSt.St K) hq heapQ_ok (net0 cfg.core early, SimSt.numOf (Sim.init cfg))
  have hnf := SimSt.sim_noFail cfg hq cs
  have hks := SimSt.schedS_keeps cfg sched (LoopInv cfg.core)
  have hka := SimSt.applyS_keeps cfg (LoopInv cfg.core)
  rcases runGM_last hq heapQ_ok hnf hks hka n 0 (SimSt.init cfg early) h0 g0
      (loopInv_init cfg.core hst early) (Nat.zero_le _) g none hrun with
    ⟨e1, _⟩ | ⟨k, gm, t', hk, hrk, hIm, hGm, hNm, _, hb⟩
  · exact Or.inl e1
  · right
    obtain ⟨g1, h1, hit, _, _, _, _, hN1⟩ := eventsStageG_okH hq heapQ_ok hnf hIm hGm hNm
    obtain ⟨gB, n1, n2, hso, hap, hpo, hg⟩ := bodyGM_ok_cases h1 hb
    have hB1 : gB.net.1 = g1.net.1 := SimSt.schedOut_net1 hso
    have hBc := hso.core
    have hn1 : n1.1 = g1.net.1 := by
      have : (SimSt.applyS cfg gB).1.1 = gB.net.1 := rfl
      rw [hap] at this
      exact this.trans hB1
    have hInv1 : Inv n1.1 := by rw [hn1]; exact hN1.inv
    have hpost := SimSt.postS_net cfg gB.core.iter n1 n2 hInv1 hpo
    have hevs : n2.2.evs = n1.2.evs := by
      have := SimSt.postS_evs cfg gB.core.iter n1
      rw [hpo] at this
      exact this
    have hJ := SimSt.flag_keepsJ cfg cs sched early
    have hflag : g1.net.1.earlyDeparture = early := by
      obtain ⟨g', r, hr', _, hI', _⟩ := runGM_specJ hq heapQ_ok hnf hks hka hJ k 0 (SimSt.init cfg early) h0 g0
        (loopInv_init cfg.core hst early) rfl (Nat.zero_le _)
      have heq : (g', r) = (gm, none) := hr'.symm.trans hrk
      simp only [Prod.mk.injEq] at heq
      obtain ⟨e1, e2⟩ := heq
      subst e1
      exact hJ.events g' g1 h1 (hI' e2).2
    refine ⟨k, gm, g1, hk, hrk, h1, hb, ?_, hflag, ?_⟩
    · rw [hg]
      simp only [advance]
      rw [hBc.1, hit, hIm.iter]
    · intro he hne st x hocc hfull
      rw [← hflag] at he
      rw [hg] at hne hocc hfull
      simp only at hne hocc hfull
      rw [SimSt.fullOf_congr cfg hevs] at hfull
      have hw := hInv1.post_satisfied (SimSt.fullOf cfg n1.2) (by rw [hn1]; exact he) hpost hne st x
        hocc hfull
      rw [hn1] at hw
      refine ⟨hw, fun st' ho' => ?_⟩
      have h2 := (hN1.inv.mem_waiting x).1 hw
      have h3 := (hN1.inv.occ_iff st' x).1 ho'
      rw [h2.2.2] at h3
      cases h3.2.1

/-- WHAT HOLDS WHEN `Simulator.run` RAISES.  For every configuration as in `end_to_end_sim`, every
    choice stream, every scheduler: if the run of `n` iterations raises `e`, then an error-free run of
    `k < n` iterations reaches a loop head `gm`, the events of that period go through (`g1`), and in
    the state `g` the run stops in:
      * the network is EXACTLY the network after the failing period's events — the hook has not run,
        no counter has moved — and `iteration`, `event_history`, the event queue are those of `g1`;
      * the network state is `Good` for the history (so `place_unique`, `fifo_admission`,
        `no_wait_while_free`, `never_charged_counts`, … hold at the abort);
      * either (A) the scheduler stage raised and nothing numeric of the period has been applied, or
        (B) the apply stage raised, run on a state with that network at that iteration, and the
        numeric state is that stage's own partial state (`Sim.applyStage`: pilots in place, stations
        charged up to the failing one).
    The hook never raises. -/
theorem end_to_end_sim_abort (cfg : Sim.Cfg K) (hq : ValidQ cfg.core)
    (hst : (cfg.stations.map (·.id)).Nodup) (early : Bool) (cs : Nat → Nat)
    (sched : Sim.View K → Except EventCore.Err (Sim.Schedule K)) (n : Nat) (g : CoreG (SimSt.St K))
    (e : EventCore.Err)
    (hrun : SimSt.run cs cfg sched n (SimSt.init cfg early) = (g, some e)) :
    ∃ k gm g1, k < n ∧ SimSt.run cs cfg sched k (SimSt.init cfg early) = (gm, none) ∧
      eventsStageG heapQ (SimSt.netOps cs cfg) cfg.core gm = (g1, none) ∧
      g.net.1 = g1.net.1 ∧ g.core.iter = gm.core.iter ∧ g.core.eventHist = g1.core.eventHist ∧
      g.core.pending = g1.core.pending ∧
      Good g.net.1 g.core.eventHist ∧
      ((RaisedBy (SimSt.schedS cfg sched) e ∧ g.net.2 = g1.net.2) ∨
       (∃ gB : CoreG (SimSt.St K), gB.net.1 = g1.net.1 ∧ gB.core.iter = gm.core.iter ∧
          (SimSt.applyS cfg gB).2 = some e ∧ g.net.2 = (SimSt.applyS cfg gB).1.2)) := by
  obtain ⟨h0, g0⟩ := initG_inv (σ := SimSt.St K) hq heapQ_ok (net0 cfg.core early, SimSt.numOf (Sim.init cfg))
  have hnf := SimSt.sim_noFail cfg hq cs
  have hks := SimSt.schedS_keeps cfg sched (LoopInv cfg.core)
  have hka := SimSt.applyS_keeps cfg (LoopInv cfg.core)
  rcases runGM_last hq heapQ_ok hnf hks hka n 0 (SimSt.init cfg early) h0 g0
      (loopInv_init cfg.core hst early) (Nat.zero_le _) g (some e) hrun with
    ⟨_, e2⟩ | ⟨k, gm, t', hk, hrk, hIm, hGm, hNm, _, hb⟩
  · cases e2
  · obtain ⟨g1, h1, hit, _, _, _, _, hN1⟩ := eventsStageG_okH hq heapQ_ok hnf hIm hGm hNm
    refine ⟨k, gm, g1, hk, hrk, h1, ?_⟩
    rcases bodyGM_err_cases h1 hb with
      ⟨_, n1, hsc, hg⟩ | ⟨gB, n1, hso, hap, hg⟩ | ⟨gB, n1, n2, hso, hap, hpo, hg⟩
    · have hn1 : n1 = g1.net := SimSt.schedS_err hsc
      subst hn1
      rw [hg]
      refine ⟨rfl, ?_, rfl, rfl, ⟨hN1.inv, hN1.track⟩, Or.inl ⟨⟨_, by rw [hsc]⟩, rfl⟩⟩
      simp only [markInvoked]
      rw [hit, hIm.iter]
    · have hB1 : gB.net.1 = g1.net.1 := SimSt.schedOut_net1 hso
      have hBc := hso.core
      have hn1 : n1.1 = gB.net.1 := by
        have : (SimSt.applyS cfg gB).1.1 = gB.net.1 := rfl
        rw [hap] at this
        exact this
      rw [hg]
      simp only
      refine ⟨hn1.trans hB1, by rw [hBc.1, hit, hIm.iter], hBc.2.1, hBc.2.2, ?_,
        Or.inr ⟨gB, hB1, by rw [hBc.1, hit, hIm.iter], by rw [hap], by rw [hap]⟩⟩
      rw [hBc.2.1, hn1, hB1]
      exact ⟨hN1.inv, hN1.track⟩
    · exfalso
      have hB1 : gB.net.1 = g1.net.1 := SimSt.schedOut_net1 hso
      have hBc := hso.core
      have hn1 : n1.1 = gB.net.1 := by
        have : (SimSt.applyS cfg gB).1.1 = gB.net.1 := rfl
        rw [hap] at this
        exact this
      have hP : LoopInv cfg.core gB.core.eventHist n1.1 := by
        rw [hBc.2.1, hn1, hB1]
        exact hN1
      have := (hnf.post gB.core.eventHist gB.core.iter n1 hP).1
      rw [hpo] at this
      cases this

end sim

/-! ### the energy ledger at an abort (C02's invariant where `end_to_end_sim_energy` is silent) -/

section simabortenergy
variable {K : Type} [Field K] [LinearOrder K] [IsStrictOrderedRing K] [HasExp K]

open Acn.EventCore Acn.Ledger in
/-- ENERGY LEDGER WHEN `Simulator.run` RAISES.  Over any linear ordered field, for every configuration
    as in `end_to_end_sim`, every choice stream, every scheduler: if the run of `n` iterations raises
    `e`, then in the state `g` it stops in (`LedgerQ`: `occLog.length = iteration`, every EV's delivered
    energy = Σ of `charging_rates · V/1000 · period/60` over the periods `< iteration` and the stations
    where it sat = its battery's gain, vacant ⇒ rate 0, future columns 0, `peak` = running maximum —
    the conclusion of `end_to_end_sim_energy`)
      * (A) the scheduler stage raised and the ledger of the completed periods is EXACT at the abort; or
      * (B) the apply stage raised: the ledger was exact in the state `gB` (same iteration, same
        network) in which the apply stage of the failing period began, and the numeric state at the
        abort is that stage's own partial state (`Sim.applyStage`) on top of it. -/
theorem end_to_end_sim_abort_energy (cfg : Sim.Cfg K) (hq : ValidQ cfg.core)
    (hst : (cfg.stations.map (·.id)).Nodup) (early : Bool) (cs : Nat → Nat)
    (sched : Sim.View K → Except EventCore.Err (Sim.Schedule K)) (n : Nat) (g : CoreG (SimSt.St K))
    (e : EventCore.Err)
    (hrun : SimSt.run cs cfg sched n (SimSt.init cfg early) = (g, some e)) :
    (RaisedBy (SimSt.schedS cfg sched) e ∧
      LedgerQ cfg g.core.iter g.net.2.rates g.net.2.peak g.net.2.evs g.net.2.occLog) ∨
    (∃ gB : CoreG (SimSt.St K), gB.core.iter = g.core.iter ∧ gB.net.1 = g.net.1 ∧
      (SimSt.applyS cfg gB).2 = some e ∧ g.net.2 = (SimSt.applyS cfg gB).1.2 ∧
      LedgerQ cfg gB.core.iter gB.net.2.rates gB.net.2.peak gB.net.2.evs gB.net.2.occLog) := by
  obtain ⟨h0, g0⟩ := initG_inv (σ := SimSt.St K) hq heapQ_ok (net0 cfg.core early, SimSt.numOf (Sim.init cfg))
  have hnf := SimSt.sim_noFail cfg hq cs
  have hks := SimSt.schedS_keeps cfg sched (LoopInv cfg.core)
  have hka := SimSt.applyS_keeps cfg (LoopInv cfg.core)
  have hK := SimSt.ledger_keepsJ cfg hst cs sched
  rcases runGM_last hq heapQ_ok hnf hks hka n 0 (SimSt.init cfg early) h0 g0
      (loopInv_init cfg.core hst early) (Nat.zero_le _) g (some e) hrun with
    ⟨_, e2⟩ | ⟨k, gm, t', hk, hrk, hIm, hGm, hNm, _, hb⟩
  · cases e2
  · obtain ⟨g1, h1, hit, _, _, _, _, hN1⟩ := eventsStageG_okH hq heapQ_ok hnf hIm hGm hNm
    have hJ1 : SimSt.ledgerJ cfg g1 := by
      obtain ⟨g', r, hr', _, hI', _⟩ := runGM_specJ hq heapQ_ok hnf hks hka hK k 0 (SimSt.init cfg early)
        h0 g0 (loopInv_init cfg.core hst early) (SimSt.ledgerJ_init cfg early) (Nat.zero_le _)
      have heq : (g', r) = (gm, none) := hr'.symm.trans hrk
      simp only [Prod.mk.injEq] at heq
      obtain ⟨e1, e2⟩ := heq
      subst e1
      exact hK.events g' g1 h1 (hI' e2).2
    rcases bodyGM_err_cases h1 hb with
      ⟨_, n1, hsc, hg⟩ | ⟨gB, n1, hso, hap, hg⟩ | ⟨gB, n1, n2, hso, hap, hpo, hg⟩
    · have hn1 : n1 = g1.net := SimSt.schedS_err hsc
      subst hn1
      left
      refine ⟨⟨_, by rw [hsc]⟩, ?_⟩
      rw [hg]
      exact hK.flags g1 (markInvoked g1.core) rfl hJ1
    · right
      have hn1 : n1.1 = gB.net.1 := by
        have : (SimSt.applyS cfg gB).1.1 = gB.net.1 := rfl
        rw [hap] at this
        exact this
      rw [hg]
      exact ⟨gB, rfl, hn1.symm, by rw [hap], by rw [hap], SimSt.ledgerJ_schedOut cfg hst cs sched hso hJ1⟩
    · exfalso
      have hB1 : gB.net.1 = g1.net.1 := SimSt.schedOut_net1 hso
      have hBc := hso.core
      have hn1 : n1.1 = gB.net.1 := by
        have : (SimSt.applyS cfg gB).1.1 = gB.net.1 := rfl
        rw [hap] at this
        exact this
      have hP : LoopInv cfg.core gB.core.eventHist n1.1 := by
        rw [hBc.2.1, hn1, hB1]
        exact hN1
      have := (hnf.post gB.core.eventHist gB.core.iter n1 hP).1
      rw [hpo] at this
      cases this

end simabortenergy

section simex
local instance : HasExp ℚ := ⟨fun x => x⟩

/-- "hook called only when the period's aggregate current is non-zero": `post_charging_update`
    skipped in idle periods — NOT what `Simulator.run` does (simulator.py:139 is unconditional) -/
def postIdle (cfg : Sim.Cfg ℚ) : Nat → SimSt.St ℚ → SimSt.St ℚ × Option EventCore.Err :=
  fun t sp =>
    if sp.2.rates.rows.all (fun r => r.getD t 0 == 0) then (sp, none) else SimSt.postS cfg t sp

/-- the hypothesis of `no_starvation_behind_satisfied` is satisfiable and its conclusion is not
    vacuous: in the run of `exSimCfg` (C19.lean), after 2 periods nothing was raised, somebody still
    waits (`b`), the satisfied `a` (3 kWh asked, 7 delivered) holds no station any more, and the
    station holds `c`, which sat in the queue — on no station — while period 1 was charged -/
example :
    (SimSt.run (fun _ => 0) exSimCfg exSimSched 2 (SimSt.init exSimCfg true)).2 = none ∧
    (SimSt.run (fun _ => 0) exSimCfg exSimSched 2 (SimSt.init exSimCfg true)).1.net.1.waiting = ["b"] ∧
    (SimSt.run (fun _ => 0) exSimCfg exSimSched 2 (SimSt.init exSimCfg true)).1.net.1.occ "S0" = some "c" ∧
    SimSt.fullOf exSimCfg (SimSt.run (fun _ => 0) exSimCfg exSimSched 2 (SimSt.init exSimCfg true)).1.net.2 "a"
      = true ∧
    (eventsStageG heapQ (SimSt.netOps (fun _ => 0) exSimCfg) exSimCfg.core
      (SimSt.run (fun _ => 0) exSimCfg exSimSched 1 (SimSt.init exSimCfg true)).1).1.net.1.waiting = ["c", "b"] ∧
    (eventsStageG heapQ (SimSt.netOps (fun _ => 0) exSimCfg) exSimCfg.core
      (SimSt.run (fun _ => 0) exSimCfg exSimSched 1 (SimSt.init exSimCfg true)).1).1.net.1.occ "S0" = some "a" := by
  decide +kernel

/-- `exSimCfg` with `c` asking for nothing: `c` is satisfied the moment it arrives -/
def exSimCfgC0 : Sim.Cfg ℚ :=
  { exSimCfg with evs := exSimCfg.evs.map fun e => if e.session = "c" then { e with requested := 0 } else e }

/-- the inner implication is exercised too: with `c` satisfied on arrival, after 2 periods somebody
    (`b`) still waits while a SATISFIED EV (`c`) holds the station — and, as the theorem says, that EV
    was in the queue (on no station) while period 1 was charged: the hook has just swapped it in
    (it is swapped out again by the next period's hook if `b` is still there) -/
example :
    (SimSt.run (fun _ => 0) exSimCfgC0 exSimSched 2 (SimSt.init exSimCfgC0 true)).2 = none ∧
    (SimSt.run (fun _ => 0) exSimCfgC0 exSimSched 2 (SimSt.init exSimCfgC0 true)).1.net.1.waiting = ["b"] ∧
    (SimSt.run (fun _ => 0) exSimCfgC0 exSimSched 2 (SimSt.init exSimCfgC0 true)).1.net.1.occ "S0" = some "c" ∧
    SimSt.fullOf exSimCfgC0 (SimSt.run (fun _ => 0) exSimCfgC0 exSimSched 2 (SimSt.init exSimCfgC0 true)).1.net.2 "c"
      = true ∧
    (eventsStageG heapQ (SimSt.netOps (fun _ => 0) exSimCfgC0) exSimCfgC0.core
      (SimSt.run (fun _ => 0) exSimCfgC0 exSimSched 1 (SimSt.init exSimCfgC0 true)).1).1.net.1.waiting = ["c", "b"] ∧
    (eventsStageG heapQ (SimSt.netOps (fun _ => 0) exSimCfgC0) exSimCfgC0.core
      (SimSt.run (fun _ => 0) exSimCfgC0 exSimSched 1 (SimSt.init exSimCfgC0 true)).1).1.net.1.occ "S0" = some "a" := by
  decide +kernel

/-- … and the invariant FAILS for a loop that skips the hook in idle periods (`postIdle`): period 1 is
    charged at 0 A (`a`, satisfied after period 0, is no longer scheduled), the hook is skipped, and
    after 2 periods the satisfied `a` still holds "S0" although `c` and `b` wait; the occupancy log
    shows that `a` was ON the station (not in the queue) while period 1 was charged -/
example :
    (runGM heapQ (SimSt.netOps (fun _ => 0) exSimCfg) (postIdle exSimCfg) exSimCfg.core
      (SimSt.schedS exSimCfg exSimSched) (SimSt.applyS exSimCfg) 2 (SimSt.init exSimCfg true)).2 = none ∧
    (runGM heapQ (SimSt.netOps (fun _ => 0) exSimCfg) (postIdle exSimCfg) exSimCfg.core
      (SimSt.schedS exSimCfg exSimSched) (SimSt.applyS exSimCfg) 2 (SimSt.init exSimCfg true)).1.net.1.waiting
        = ["c", "b"] ∧
    (runGM heapQ (SimSt.netOps (fun _ => 0) exSimCfg) (postIdle exSimCfg) exSimCfg.core
      (SimSt.schedS exSimCfg exSimSched) (SimSt.applyS exSimCfg) 2 (SimSt.init exSimCfg true)).1.net.1.occ "S0"
        = some "a" ∧
    SimSt.fullOf exSimCfg
      (runGM heapQ (SimSt.netOps (fun _ => 0) exSimCfg) (postIdle exSimCfg) exSimCfg.core
        (SimSt.schedS exSimCfg exSimSched) (SimSt.applyS exSimCfg) 2 (SimSt.init exSimCfg true)).1.net.2 "a"
        = true ∧
    (runGM heapQ (SimSt.netOps (fun _ => 0) exSimCfg) (postIdle exSimCfg) exSimCfg.core
      (SimSt.schedS exSimCfg exSimSched) (SimSt.applyS exSimCfg) 2 (SimSt.init exSimCfg true)).1.net.2.occLog
        = [[some "a"], [some "a"]] ∧
    (runGM heapQ (SimSt.netOps (fun _ => 0) exSimCfg) (postIdle exSimCfg) exSimCfg.core
      (SimSt.schedS exSimCfg exSimSched) (SimSt.applyS exSimCfg) 2 (SimSt.init exSimCfg true)).1.net.2.rates.rows
        = [[7, 0, 0, 0, 0]] ∧
    -- `a` keeps the station until it departs; `c` is never charged
    (runGM heapQ (SimSt.netOps (fun _ => 0) exSimCfg) (postIdle exSimCfg) exSimCfg.core
      (SimSt.schedS exSimCfg exSimSched) (SimSt.applyS exSimCfg) 9 (SimSt.init exSimCfg true)).1.net.2.occLog
        = [[some "a"], [some "a"], [some "a"], [some "a"], [none]] := by
  decide +kernel

/-- the hypothesis of `end_to_end_sim_abort` / `end_to_end_sim_abort_energy` is satisfiable: the scheduler that fails at iteration 1.
    At the abort the queue is as the events of period 1 left it, `a` still holds the station (the hook
    has not run: no early departure counted), the iteration counter stands at the failing period and
    only period 0 has been charged -/
example :
    (SimSt.run (fun _ => 0) exSimCfg
      (fun v => if v.iter = 1 then .error .schedulerFailed else exSimSched v) 9 (SimSt.init exSimCfg true)).2
        = some .schedulerFailed ∧
    (SimSt.run (fun _ => 0) exSimCfg
      (fun v => if v.iter = 1 then .error .schedulerFailed else exSimSched v) 9 (SimSt.init exSimCfg true)).1.net.1.waiting
        = ["c", "b"] ∧
    (SimSt.run (fun _ => 0) exSimCfg
      (fun v => if v.iter = 1 then .error .schedulerFailed else exSimSched v) 9 (SimSt.init exSimCfg true)).1.net.1.occ "S0"
        = some "a" ∧
    (SimSt.run (fun _ => 0) exSimCfg
      (fun v => if v.iter = 1 then .error .schedulerFailed else exSimSched v) 9 (SimSt.init exSimCfg true)).1.net.1.earlyUnplug
        = 0 ∧
    (SimSt.run (fun _ => 0) exSimCfg
      (fun v => if v.iter = 1 then .error .schedulerFailed else exSimSched v) 9 (SimSt.init exSimCfg true)).1.core.iter
        = 1 ∧
    (SimSt.run (fun _ => 0) exSimCfg
      (fun v => if v.iter = 1 then .error .schedulerFailed else exSimSched v) 9 (SimSt.init exSimCfg true)).1.net.2.evs.map
        (·.delivered) = [7, 0, 0] ∧
    (SimSt.run (fun _ => 0) exSimCfg
      (fun v => if v.iter = 1 then .error .schedulerFailed else exSimSched v) 9 (SimSt.init exSimCfg true)).1.net.2.occLog
        = [[some "a"]] ∧
    -- … and the ledger of `end_to_end_sim_abort_energy` (case A) reads: 7 A · 1000 V / 1000 · 1 h = 7 kWh
    (SimSt.run (fun _ => 0) exSimCfg
      (fun v => if v.iter = 1 then .error .schedulerFailed else exSimSched v) 9 (SimSt.init exSimCfg true)).1.net.2.rates.rows
        = [[7, 0, 0, 0, 0]] := by
  decide +kernel

end simex

end Acn.C19
