/-
  C07 — sorting-based algorithms only emit safe schedules: the clause "when an estimator is used …
  the estimator's bound for that session" for an ARBITRARY upper-bound estimator.

  The property quantifies over max-rate ESTIMATION in general; the code accepts any
  `UpperBoundEstimatorBase` subclass, whose `get_maximum_rates` may return any dict
  `session_id → bound`: bounds above the EVSE's maximum pilot, zero or negative bounds, bounds between
  the levels of a finite-rate EVSE or below the uninterrupted-charging minimum, keys missing for some
  sessions (`.get(session_id, inf)`), keys of sessions that are not active.  The model is
  `AcnModel/SortedEst.lean` (`preprocessEst`, `scheduleCallEst`: `run_preprocessing` composing
  `enforce_pilot_limit` FIRST and `apply_upper_bound_estimate` — a `min`, by session id, absent = no
  bound — SECOND, exactly as sorted_algorithms.py:109-116 / preprocessing.py:78-105 do); the
  estimator is a parameter `est : List Session → Session → Option bound` and every theorem below is
  for EVERY such function — no hypothesis that a bound is `≤` the EVSE maximum, `≥ 0`, or present.
  `Sorted.preprocess` / `Sorted.scheduleCall` (the `SimpleRampdown` model the theorems of
  `AcnProofs/C07.lean` are about) are the instance `rampdown_is_an_estimator`.

  Property theorems only (helpers: `Lemmas/SortedEst.lean`, `SortedEstCall.lean`, `SortedEstSafe.lean`).
-/
import AcnProofs.C07
import AcnProofs.Lemmas.SortedEstCall
import AcnProofs.Lemmas.SortedEstSafe

set_option linter.unusedSectionVars false

namespace Acn.C07
open Acn Acn.Sorted

variable {K : Type} [Field K] [LinearOrder K] [IsStrictOrderedRing K]

/-- the rampdown model of `AcnModel/Sorted.lean` IS the general model instantiated with "the dict of
    the `SimpleRampdown` object after its update on the sessions it was handed, looked up by session
    id": same preprocessed sessions, and the same result, order, round-robin trace and leftover queue
    of the whole `schedule()` call.  Every theorem below therefore also speaks about the model the
    driver executes for `SimpleRampdown`. -/
theorem rampdown_is_an_estimator [HasCeilNat K] (feas : List K → Bool) (cfg : Config K) (infra : Infra K)
    (period : K) (time : Int) (prev : String → Option (K × K)) (rd : Rampdown K)
    (l raw : List (Session K)) :
    (preprocess feas cfg infra period prev rd l).1 =
      preprocessEst feas cfg infra period (fun l1 => estOfDict (rampdownCall infra prev rd l1).bounds) l ∧
    (scheduleCall feas cfg infra period time prev rd raw).result =
      (scheduleCallEst feas cfg infra period time
        (fun l1 => estOfDict (rampdownCall infra prev rd l1).bounds) raw).result ∧
    (scheduleCall feas cfg infra period time prev rd raw).order =
      (scheduleCallEst feas cfg infra period time
        (fun l1 => estOfDict (rampdownCall infra prev rd l1).bounds) raw).order := by
  obtain ⟨h1, _, h3, _⟩ := scheduleCall_eq_scheduleCallEst feas cfg infra period time prev rd raw
  exact ⟨preprocess_eq_preprocessEst feas cfg infra period prev rd l, h1, h3⟩

/-- `enforce_pilot_limit` comes BEFORE the estimator: every session `get_maximum_rates` is handed —
    the sessions whose `max_rates` the answer is then `min`-ed into — is an unfinished input session
    with `max_rates = min(max_rates, max_pilot of its EVSE)`; in particular `max_rates ≤ max_pilot`. -/
theorem estimate_after_pilot_limit (infra : Infra K) (period : K) (l : List (Session K)) :
    ∀ s ∈ estInput infra period l,
      s.maxRate ≤ infra.maxPilot.getD s.idx 0 ∧
      ∃ s0 ∈ l, s = { s0 with maxRate := pyMin s0.maxRate (infra.maxPilot.getD s0.idx 0) } :=
  fun s hs => ⟨estInput_le_maxPilot infra period l s hs, estInput_spec infra period l s hs⟩

/-- `le_estimator_bound` for an ARBITRARY estimator: after `run_preprocessing` with
    `estimate_max_rate`, every surviving session derives from a session `s1` the estimator was handed
    (same session id, same station) and its max rate is at most the bound the estimator gave for
    `s1`, unless the session's lower bound (0, or the uninterrupted-charging minimum pilot) is larger.
    For every estimator function, every bound (negative, above the EVSE maximum, …); a session
    without a bound (`none`) is not constrained. -/
theorem le_estimator_bound_any_estimator (feas : List K → Bool) (cfg : Config K) (infra : Infra K)
    (period : K) (est : List (Session K) → Session K → Option K) (l : List (Session K))
    (hest : cfg.estimate = true) :
    ∀ s ∈ preprocessEst feas cfg infra period est l, ∃ s1 ∈ estInput infra period l,
      s.session = s1.session ∧ s.idx = s1.idx ∧
      ∀ b, est (estInput infra period l) s1 = some b → s.maxRate ≤ max b (lbOf s) :=
  preprocessEst_bound feas cfg infra period est l hest

/-- `schedule_feasible` for an ARBITRARY estimator: the whole `schedule()` call of either algorithm,
    any sort order, any option combination, whatever the estimator answers — if it returns a schedule,
    that schedule passes the (arbitrary) feasibility predicate.  Hypotheses as in `schedule_feasible`,
    stated on the resolved session list: `min_rates ≤ 0`, distinct stations, well-formed infrastructure. -/
theorem schedule_feasible_any_estimator [HasCeilNat K] (feas : List K → Bool) (cfg : Config K)
    (infra : Infra K) (period : K) (time : Int) (est : List (Session K) → Session K → Option K)
    (raw l : List (Session K)) (sch : List K)
    (hres : resolve infra raw = .ok l)
    (hinf : InfraOk infra) (hlen : infra.allow.length = infra.ids.length)
    (hmin : ∀ s ∈ l, s.minRate ≤ 0) (hndl : (l.map (·.idx)).Nodup)
    (h : (scheduleCallEst feas cfg infra period time est raw).result = .ok sch) :
    feas sch = true := by
  obtain ⟨hnd, hidx, _⟩ := scheduleCallEst_queue feas cfg infra period time est raw l hres hndl
  exact scheduleCallEst_feasible feas cfg infra period time est raw l sch hres hinf hlen hmin hnd hidx h

/-- `pilot_le_evse_max_any_estimator`: whatever the estimator answers, NO entry of a returned schedule
    exceeds the maximum pilot of its EVSE — both algorithms, every sort, every option combination,
    every station (a station without a queued session gets 0).  Hypotheses: resolved sessions with
    `min_rates ≤ 0` on distinct stations, and `0 ≤ min_pilot ≤ max_pilot` for every EVSE.  There is
    NO hypothesis on the estimator: the bound is `min`-ed into a `max_rates` that
    `enforce_pilot_limit` has already limited, so it can only lower it, and `reconcile_max_and_min` /
    `apply_minimum_charging_rate` lift it at most to the EVSE's own minimum pilot. -/
theorem pilot_le_evse_max_any_estimator [HasCeilNat K] (feas : List K → Bool) (cfg : Config K)
    (heps : 0 ≤ cfg.eps) (infra : Infra K) (period : K) (time : Int)
    (est : List (Session K) → Session K → Option K) (raw l : List (Session K)) (sch : List K)
    (hres : resolve infra raw = .ok l) (hlen : infra.allow.length = infra.ids.length)
    (hevse : ∀ i, 0 ≤ infra.minPilot.getD i 0 ∧ infra.minPilot.getD i 0 ≤ infra.maxPilot.getD i 0)
    (hmin : ∀ s ∈ l, s.minRate ≤ 0) (hndl : (l.map (·.idx)).Nodup)
    (h : (scheduleCallEst feas cfg infra period time est raw).result = .ok sch) :
    sch.length = infra.ids.length ∧
    ∀ j, j < infra.ids.length → ∃ r, sch[j]? = some r ∧ r ≤ infra.maxPilot.getD j 0 := by
  obtain ⟨hnd, hidx, hmem⟩ := scheduleCallEst_queue feas cfg infra period time est raw l hres hndl
  obtain ⟨hg, hz⟩ := scheduleCallEst_grants feas cfg heps infra period time est raw l sch hres hlen
    hnd hidx h
  refine ⟨scheduleCallEst_length feas cfg infra period time est raw l sch hres hlen hnd hidx h, ?_⟩
  intro j hj
  by_cases hq : ∃ s ∈ (scheduleCallEst feas cfg infra period time est raw).order, s.idx = j
  · obtain ⟨s, hs, rfl⟩ := hq
    obtain ⟨r, hget, _, _, hr⟩ := hg s hs
    obtain ⟨_, s0, hs0, hd⟩ := hmem s hs
    obtain ⟨h1, h2⟩ := derivedW_le_maxPilot infra period s0 s hd (hmin s0 hs0)
      (le_trans (hevse s0.idx).1 (hevse s0.idx).2) (hevse s0.idx).2
    exact ⟨r, hget, le_trans hr (max_le h1 (le_trans (min_le_left _ _) h2))⟩
  · refine ⟨0, hz j hj (fun t ht htj => hq ⟨t, ht, htj⟩), ?_⟩
    exact le_trans (hevse j).1 (hevse j).2

/-- `pilot_le_estimator_bound_any_estimator`: the pilot-level form of the estimator clause, for an
    ARBITRARY estimator.  In a returned schedule every queued session `s` (with `estimate_max_rate`)
    derives from a session `s1` the estimator was handed — same session id, same station — and its
    pilot `r` satisfies `r ≤ max b lb` for the bound `b` the estimator gave for `s1` (nothing is
    claimed when it gave none), where `lb` is 0 or — only with `uninterrupted_charging` — the EVSE's
    minimum pilot; and always `r ≤ max lb (remaining amp-periods)`. -/
theorem pilot_le_estimator_bound_any_estimator [HasCeilNat K] (feas : List K → Bool) (cfg : Config K)
    (heps : 0 ≤ cfg.eps) (infra : Infra K) (period : K) (time : Int)
    (est : List (Session K) → Session K → Option K) (raw l : List (Session K)) (sch : List K)
    (hres : resolve infra raw = .ok l) (hlen : infra.allow.length = infra.ids.length)
    (hmp : ∀ i, 0 ≤ infra.minPilot.getD i 0)
    (hmin : ∀ s ∈ l, s.minRate ≤ 0) (hndl : (l.map (·.idx)).Nodup)
    (hest : cfg.estimate = true)
    (h : (scheduleCallEst feas cfg infra period time est raw).result = .ok sch) :
    ∀ s ∈ (scheduleCallEst feas cfg infra period time est raw).order, ∃ r, sch[s.idx]? = some r ∧
      r ≤ max (lbOf s) (rap infra period s) ∧
      (lbOf s = 0 ∨ (cfg.uninterrupted = true ∧ lbOf s = infra.minPilot.getD s.idx 0)) ∧
      ∃ s1 ∈ (scheduleCallEst feas cfg infra period time est raw).estIn,
        s.session = s1.session ∧ s.idx = s1.idx ∧
        ∀ b, est (scheduleCallEst feas cfg infra period time est raw).estIn s1 = some b →
          r ≤ max b (lbOf s) := by
  obtain ⟨hnd, hidx, hmem⟩ := scheduleCallEst_queue feas cfg infra period time est raw l hres hndl
  obtain ⟨hg, _⟩ := scheduleCallEst_grants feas cfg heps infra period time est raw l sch hres hlen
    hnd hidx h
  obtain ⟨_, hin⟩ := scheduleCallEst_order feas cfg infra period time est raw l hres
  intro s hs
  obtain ⟨r, hget, _, _, hr⟩ := hg s hs
  obtain ⟨hpre, _⟩ := hmem s hs
  obtain ⟨s1, hs1, e1, e2, hb⟩ := preprocessEst_bound feas cfg infra period est l hest s hpre
  refine ⟨r, hget, le_trans hr (max_le_max (le_refl _) (min_le_right _ _)),
    preprocessEst_lb feas cfg infra period est l hmp hmin s hpre, s1, by rw [hin]; exact hs1, e1, e2, ?_⟩
  intro b hbb
  rw [hin] at hbb
  exact le_trans hr (max_le (le_max_right _ _) (le_trans (min_le_left _ _) (hb b hbb)))

/-- bounds at or above the EVSE's maximum pilot — and `inf`, and absent keys — are all the same to
    the algorithm: an estimator all of whose answers for the sessions it is handed are `≥` the
    station's maximum pilot yields exactly the `schedule()` outcome of the estimator that answers
    with the empty dict. -/
theorem estimator_bounds_above_evse_max_inert [HasCeilNat K] (feas : List K → Bool) (cfg : Config K)
    (infra : Infra K) (period : K) (time : Int) (est : List (Session K) → Session K → Option K)
    (raw : List (Session K))
    (habove : ∀ l1 s b, est l1 s = some b → infra.maxPilot.getD s.idx 0 ≤ b) :
    scheduleCallEst feas cfg infra period time est raw =
      scheduleCallEst feas cfg infra period time (fun _ _ => none) raw := by
  unfold scheduleCallEst
  cases resolve infra raw with
  | error e => rfl
  | ok l =>
    simp only
    rw [preprocessEst_inert feas cfg infra period est l (fun s _ b hb => habove _ s b hb)]

/-- `sim_consequences_any_estimator` — `sim_consequences` / `sim_consequences_rampdown` for an
    ARBITRARY STATEFUL upper-bound estimator: any state type `σ`, any transition / answer function
    `E : σ → View → sessions handed over → (session ↦ optional bound) × σ` (the answer may depend on
    the estimator's own state, on everything the interface shows — time, last pilots, last actual
    rates — and on the sessions), any initial state.  For the modelled sorted algorithms (greedy and
    round robin, every sort order, uninterrupted on/off, estimator on/off, any increment, any
    `eps ≥ 0`, any constraint matrix) as a stateful scheduler of the simulator loop
    (`SimSortedRd.runSt` with `SimSortedEst.sortedSchedEst`), on every well-formed configuration and
    for EVERY fuel `n` — i.e. at every loop head of `Simulator.run`:
      * the run has raised no `InvalidRate`,
      * if it has not aborted, every EV record has `delivered ≤ requested` and the battery invariant,
      * and every column of the pilot matrix applied so far passes the network's feasibility
        predicate or is all zero.
    No hypothesis on the estimator. -/
theorem sim_consequences_any_estimator [HasCeilNat ℝ] {σ : Type} (net : SimSorted.NetInfo ℝ) (inf : ℝ)
    (cfg : Sim.Cfg ℝ) (scfg : Config ℝ) (hc : CfgOk cfg inf) (heps : 0 ≤ scfg.eps)
    (hb : ∀ e ∈ cfg.evs, BattAlg.Inv e.batt ∧ e.delivered ≤ e.requested)
    (E : SimSortedEst.Estimator σ ℝ) (st0 : σ) (n : Nat) :
    (SimSortedRd.runSt cfg (SimSortedEst.sortedSchedEst net inf cfg scfg E) n st0 (Sim.init cfg)).1.2
      ≠ some .invalidRate ∧
    ((SimSortedRd.runSt cfg (SimSortedEst.sortedSchedEst net inf cfg scfg E) n st0 (Sim.init cfg)).1.2 = none →
      (∀ e ∈ (SimSortedRd.runSt cfg (SimSortedEst.sortedSchedEst net inf cfg scfg E) n st0
            (Sim.init cfg)).1.1.evs,
        e.delivered ≤ e.requested ∧ BattAlg.Inv e.batt) ∧
      (∀ τ, τ < (SimSortedRd.runSt cfg (SimSortedEst.sortedSchedEst net inf cfg scfg E) n st0
            (Sim.init cfg)).1.1.core.iter →
        ColOk (SimSorted.feasOf net)
          (SimSortedRd.runSt cfg (SimSortedEst.sortedSchedEst net inf cfg scfg E) n st0
            (Sim.init cfg)).1.1.pilots
          cfg.stations.length τ)) := by
  obtain ⟨h1, h2, _⟩ := sim_consequences_of_schedSafe_st (SimSorted.feasOf net) cfg inf hc
    (SimSortedEst.sortedSchedEst net inf cfg scfg E) (fun _ => True) (fun _ _ _ _ _ _ => trivial)
    (fun st _ => sortedSchedEst_schedSafe net inf cfg scfg hc heps E st) hb st0 trivial n
  exact ⟨h1, h2⟩

/-! ### non-vacuity: hostile estimator answers on concrete instances over ℚ -/

section estex
local instance : HasExp ℚ := ⟨fun x => x⟩
local instance : HasCeilNat ℚ := ⟨fun x => (Rat.ceil x).toNat⟩

/-- two stations with plenty of headroom (`x₀ + x₁ ≤ 100`): A continuous `[0, 32]`, B finite-rate
    `{0, 8, 16, 24, 32}`; both sessions still need far more than 32 A for one period -/
def esFeas : List ℚ → Bool := fun x => decide (x.getD 0 0 + x.getD 1 0 ≤ 100)

def esInfra : Infra ℚ :=
  ⟨["A", "B"], [32, 32], [0, 8], [208, 208], [true, false], [[0, 32], [0, 8, 16, 24, 32]]⟩

def esRaw : List (Session ℚ) :=
  [⟨"A", "x", 0, 0, 9, 9, 50, 0, 0, 1000⟩, ⟨"B", "y", 0, 1, 8, 8, 50, 0, 0, 1000⟩]

def esCfg (algo : Algo) (unint : Bool) : Config ℚ :=
  { algo := algo, sort := .fcfs, uninterrupted := unint, estimate := true, inc := 1, eps := 1 / 100,
    fuel := 60 }

/-- the hypotheses of the theorems above hold on this instance: the sessions resolve to distinct valid
    stations, enter with `min_rates = 0`, and `0 ≤ min_pilot ≤ max_pilot` for both EVSEs -/
example :
    (match resolve esInfra esRaw with
     | .ok l => decide (l.map (·.idx) = [0, 1]) && l.all (fun s => decide (s.minRate ≤ 0))
     | .error _ => false) = true ∧
    esInfra.allow.length = esInfra.ids.length ∧
    (∀ i ∈ [0, 1], 0 ≤ esInfra.minPilot.getD i 0 ∧ esInfra.minPilot.getD i 0 ≤ esInfra.maxPilot.getD i 0) := by
  decide +kernel

def esL : List (Session ℚ) :=
  [⟨"A", "x", 0, 0, 9, 9, 50, 0, 0, 1000⟩, ⟨"B", "y", 1, 1, 8, 8, 50, 0, 0, 1000⟩]

/-- `pilot_le_evse_max_any_estimator` instantiated on this instance: for EVERY estimator function
    `est` (no condition at all) a schedule the greedy algorithm returns gives both stations at most
    their EVSE's 32 A — all hypotheses of the theorem are discharged -/
example (est : List (Session ℚ) → Session ℚ → Option ℚ) (sch : List ℚ)
    (h : (scheduleCallEst esFeas (esCfg .greedy true) esInfra 5 3 est esRaw).result = .ok sch) :
    ∀ j, j < 2 → ∃ r, sch[j]? = some r ∧ r ≤ 32 := by
  have hres : resolve esInfra esRaw = .ok esL := by rfl
  have hevse : ∀ i, 0 ≤ esInfra.minPilot.getD i 0 ∧
      esInfra.minPilot.getD i 0 ≤ esInfra.maxPilot.getD i 0 := by
    intro i
    rcases i with _ | _ | i
    · simp [esInfra]
    · simp [esInfra]; norm_num
    · simp [esInfra]
  have hmin : ∀ s ∈ esL, s.minRate ≤ 0 := by
    intro s hs
    simp only [esL, List.mem_cons, List.not_mem_nil, or_false] at hs
    rcases hs with rfl | rfl <;> simp
  have key := (pilot_le_evse_max_any_estimator esFeas (esCfg .greedy true) (by simp [esCfg]) esInfra 5 3
    est esRaw esL sch hres rfl hevse hmin (by decide) h).2
  intro j hj
  obtain ⟨r, h1, h2⟩ := key j (by simpa [esInfra] using hj)
  refine ⟨r, h1, le_trans h2 ?_⟩
  rcases j with _ | _ | j
  · simp [esInfra]
  · simp [esInfra]
  · omega

/-- bounds ABOVE the EVSE maximum (100 A for `x`), a MISSING key (`y`) and a key of a session that is
    not active (`ghost`): both sessions get exactly the EVSE maximum 32 A — never more — from greedy
    and from round robin, although headroom (100 A) and remaining demand are far above 32 A -/
example :
    (scheduleCallEst esFeas (esCfg .greedy false) esInfra 5 3
      (fun _ => estOfDict [("x", 100), ("ghost", 1)]) esRaw).result = .ok [32, 32] ∧
    (scheduleCallEst esFeas (esCfg .roundRobin false) esInfra 5 3
      (fun _ => estOfDict [("x", 100), ("ghost", 1)]) esRaw).result = .ok [32, 32] := by
  decide +kernel

/-- a bound BETWEEN the levels of the finite-rate EVSE (`y`: 10 A → level 8), a ZERO bound (`x` → 0) -/
example :
    (scheduleCallEst esFeas (esCfg .greedy false) esInfra 5 3
      (fun _ => estOfDict [("x", 0), ("y", 10)]) esRaw).result = .ok [0, 8] ∧
    (scheduleCallEst esFeas (esCfg .roundRobin false) esInfra 5 3
      (fun _ => estOfDict [("x", 0), ("y", 10)]) esRaw).result = .ok [0, 8] := by
  decide +kernel

/-- a bound BELOW the uninterrupted-charging minimum (`y`: 3 A < min pilot 8 A → held at 8 A, the one
    case in which the pilot exceeds the estimator's bound) and a NEGATIVE bound (`x`: −5 → 0) -/
example :
    (scheduleCallEst esFeas (esCfg .greedy true) esInfra 5 3
      (fun _ => estOfDict [("x", -5), ("y", 3)]) esRaw).result = .ok [0, 8] ∧
    (scheduleCallEst esFeas (esCfg .roundRobin true) esInfra 5 3
      (fun _ => estOfDict [("x", -5), ("y", 3)]) esRaw).result = .ok [0, 8] := by
  decide +kernel

/-- an estimator that is NOT a dict keyed by session id is covered too (here: by station index) -/
example :
    (scheduleCallEst esFeas (esCfg .greedy false) esInfra 5 3
      (fun _ s => if s.idx = 0 then some 7 else none) esRaw).result = .ok [7, 32] := by
  decide +kernel

/-- `sim_consequences_any_estimator` on a run in which the estimator acts: the table estimator
    (`SimSortedEst.tableEstimator`: a dict chosen by the period) on the configuration of
    `sim_consequences_rampdown`'s example (`rdCfg`: A continuous, B finite-rate, `x_A + x_B ≤ 40`,
    `x` takes at most 7 A, `y` 40 A).  `x`: 100 A (above its EVSE's 32), then 10 A, then no key;
    `y`: 20 A (between levels → 16), then 0; `ghost` is no session.  Every column respects the limit
    40, no pilot exceeds 32, the run ends without an error. -/
example :
    (SimSortedRd.runSt (rdCfg ℚ) (SimSortedEst.sortedSchedEst rdNet 1000 (rdCfg ℚ) (rdAlgo true false)
        (SimSortedEst.tableEstimator
          [("x", [some 100, some 10, none]), ("y", [some 20, some 0]), ("ghost", [some 1])])) 10
        () (Sim.init (rdCfg ℚ))).1.2 = none ∧
    (SimSortedRd.runSt (rdCfg ℚ) (SimSortedEst.sortedSchedEst rdNet 1000 (rdCfg ℚ) (rdAlgo true false)
        (SimSortedEst.tableEstimator
          [("x", [some 100, some 10, none]), ("y", [some 20, some 0]), ("ghost", [some 1])])) 10
        () (Sim.init (rdCfg ℚ))).1.1.pilots.rows = [[32, 10, 32, 32, 10, 0], [8, 0, 8, 0, 16, 0]] := by
  decide +kernel

end estex

end Acn.C07
