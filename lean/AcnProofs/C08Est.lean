/-
  C08 — greedy grants the max feasible rate; round robin stops only when blocked — for an ARBITRARY
  upper-bound estimator.

  The property's clauses speak about each session's OWN bound.  With `estimate_max_rate` that bound
  comes from user code: any `UpperBoundEstimatorBase` subclass, whose `get_maximum_rates` may return any
  dict `session_id → bound` (above the EVSE maximum, `inf`, zero, below the minimum pilot, between the
  levels of a finite-rate EVSE, key missing, foreign keys).  The model is the estimator-parametric
  `Sorted.scheduleCallEst` of `AcnModel/SortedEst.lean` (shared with C07; `drv_C08` runs it); the
  estimator is a parameter `est : List Session → Session → Option bound` and every theorem below is
  for EVERY such function.  They are the theorems of `AcnProofs/C08.lean` (`greedy_sequential`,
  `bisection_within_eps`, `short_circuit`, `discrete_is_max`, `rr_stop_reason`, `rr_continues`) applied
  to the PREPROCESSED sessions of the call, together with `own_bound_any_estimator`, which says what
  the preprocessed bounds are in terms of the EVSE, the estimator's answer and the minimum pilot
  (`Sorted.OwnBound`, an equality).  `Sorted.scheduleCall` (the `SimpleRampdown` model) is the instance
  `Acn.C07.rampdown_is_an_estimator`.

  Property theorems only (helpers: `Lemmas/SortedEstOwn.lean`, `SortedEstCall.lean`).
-/
import AcnProofs.C08
import AcnProofs.Lemmas.SortedEstOwn

set_option linter.unusedSectionVars false

namespace Acn.C08
open Acn Acn.Sorted

variable {K : Type} [Field K] [LinearOrder K] [IsStrictOrderedRing K]

/-- `own_bound_any_estimator`: in a `schedule()` call with ANY estimator, every queued session `s`
    derives from exactly the session `s1` the estimator was handed for it (same session id, same
    station, same energies; `s1` = an unfinished input session `s0` with
    `max_rates = min(max_rates, max_pilot of its EVSE)`, so `s1.maxRate ≤ max_pilot`), and its
    bounds are `Sorted.OwnBound`:
      `max_rates(s) = max( min(s1.max_rates, estimator answer for s1 — if any), min_rates(s) )`,
      `min_rates(s)` = the incoming one, or the EVSE's minimum pilot when uninterrupted charging
      applies it (both 0 when it refuses).
    The greedy upper bound is `ubOf s = min(max_rates(s), remaining amp-periods)`, the round-robin one
    `rrUb s = min(max_rates(s), max_pilot, remaining amp-periods)`; i.e. the session's own bound is
    `min(EVSE max, remaining demand, max(estimator bound, minimum pilot))`.  The answer is looked up for
    `s1` — the session itself — whatever else the dict holds. -/
theorem own_bound_any_estimator [HasCeilNat K] (feas : List K → Bool) (cfg : Config K) (infra : Infra K)
    (period : K) (time : Int) (est : List (Session K) → Session K → Option K)
    (raw l : List (Session K)) (hres : resolve infra raw = .ok l) (hndl : (l.map (·.idx)).Nodup) :
    ∀ s ∈ (scheduleCallEst feas cfg infra period time est raw).order,
      ∃ s1 ∈ (scheduleCallEst feas cfg infra period time est raw).estIn,
        OwnBound cfg infra period
          (if cfg.estimate = true then
            est (scheduleCallEst feas cfg infra period time est raw).estIn s1 else none) s1 s ∧
        s1.maxRate ≤ infra.maxPilot.getD s1.idx 0 ∧
        ∃ s0 ∈ l, s1 = { s0 with maxRate := pyMin s0.maxRate (infra.maxPilot.getD s0.idx 0) } := by
  obtain ⟨_, _, hmem⟩ := scheduleCallEst_queue feas cfg infra period time est raw l hres hndl
  obtain ⟨_, hin⟩ := scheduleCallEst_order feas cfg infra period time est raw l hres
  intro s hs
  obtain ⟨s1, hs1, hown⟩ := preprocessEst_own feas cfg infra period est l s (hmem s hs).1
  rw [hin]
  exact ⟨s1, hs1, hown, estInput_le_maxPilot infra period l s1 hs1, estInput_spec infra period l s1 hs1⟩

/-- what the bounds in the statements below are -/
example (infra : Infra K) (period : K) (s : Session K) :
    ubOf infra period s = min s.maxRate (rap infra period s) ∧
    rrUb infra period s = min (min s.maxRate (infra.maxPilot.getD s.idx 0)) (rap infra period s) ∧
    lbOf s = max 0 s.minRate := by
  simp [ubOf, rrUb, lbOf, pyMin3]

/-- the greedy algorithm behind `scheduleCallEst` is `sorting_algorithm` on the sorted preprocessed
    sessions -/
theorem greedy_call_is_sortingAlgorithm [HasCeilNat K] (feas : List K → Bool) (cfg : Config K)
    (infra : Infra K) (period : K) (time : Int) (est : List (Session K) → Session K → Option K)
    (raw l : List (Session K)) (hres : resolve infra raw = .ok l) (hg : cfg.algo = .greedy) :
    (scheduleCallEst feas cfg infra period time est raw).result =
      sortingAlgorithm feas cfg.fuel cfg.eps infra period
        (scheduleCallEst feas cfg infra period time est raw).order := by
  unfold scheduleCallEst
  simp only [hres, hg]

/-- `greedy_sequential` for ANY estimator: in a returned greedy schedule, for the queue
    `pre ++ s :: post` (sorted preprocessed sessions), the grant of `s` is `greedyRate` on the schedule
    `cur` in which every session of `pre` holds its FINAL grant, `s` and every session of `post` their
    lower bounds, every other station 0. -/
theorem greedy_sequential_any_estimator [HasCeilNat K] (feas : List K → Bool) (cfg : Config K)
    (infra : Infra K) (period : K) (time : Int) (est : List (Session K) → Session K → Option K)
    (raw l : List (Session K)) (sch : List K) (pre : List (Session K)) (s : Session K)
    (post : List (Session K))
    (hres : resolve infra raw = .ok l) (hndl : (l.map (·.idx)).Nodup) (hg : cfg.algo = .greedy)
    (hord : (scheduleCallEst feas cfg infra period time est raw).order = pre ++ s :: post)
    (h : (scheduleCallEst feas cfg infra period time est raw).result = .ok sch) :
    ∃ cur r, greedyRate feas cfg.fuel cfg.eps infra period cur s = .ok r ∧ sch[s.idx]? = some r ∧
      cur.length = infra.ids.length ∧
      (∀ t ∈ pre, cur[t.idx]? = sch[t.idx]?) ∧
      (∀ t ∈ s :: post, cur[t.idx]? = some (lbOf t)) ∧
      (∀ j, j < infra.ids.length → (∀ t ∈ pre ++ s :: post, t.idx ≠ j) → cur[j]? = some 0) := by
  obtain ⟨hnd, hidx, _⟩ := scheduleCallEst_queue feas cfg infra period time est raw l hres hndl
  rw [greedy_call_is_sortingAlgorithm feas cfg infra period time est raw l hres hg, hord] at h
  rw [hord] at hnd hidx
  exact greedy_sequential feas cfg.fuel cfg.eps infra period pre s post sch hnd hidx h

/-- `greedy_max_feasible_any_estimator` (continuous EVSE).  For EVERY estimator function, in a returned
    greedy schedule each session `s` — in priority order: `pre` before it, `post` after it — gets, on
    the schedule `cur` of `greedy_sequential` (earlier sessions at their final grants), the largest
    pilot that is feasible and lies within ITS OWN bounds `[lbOf s, ubOf s]`, within `eps`:
      * the grant `r` is feasible given the earlier grants, and `lbOf s ≤ r ≤ ubOf s`;
      * if `ubOf s` itself is feasible, `r = ubOf s` exactly;
      * every feasible value `x ∈ [lbOf s, ubOf s]` of that coordinate satisfies `x < r + eps`;
    where the bounds of `s` are its own (`own_bound_any_estimator`, first conjunct): computed from the
    answer the estimator gave for THIS session, before the search (the search runs inside them).
    Hypotheses: `feas` has interval sections in this coordinate (`feasible_set_is_interval`: proved
    for the phasor check, see `greedy_max_feasible_any_estimator_alg`), `eps > 0`, `lbOf s ≤ ubOf s`,
    and enough fuel for the bisection (`ub − lb ≤ eps·2^fuel`; the loop of the source runs until
    `ub − lb ≤ eps`). -/
theorem greedy_max_feasible_any_estimator [HasCeilNat K] (feas : List K → Bool) (cfg : Config K)
    (infra : Infra K) (period : K) (time : Int) (est : List (Session K) → Session K → Option K)
    (raw l : List (Session K)) (sch : List K) (pre : List (Session K)) (s : Session K)
    (post : List (Session K))
    (hres : resolve infra raw = .ok l) (hndl : (l.map (·.idx)).Nodup) (hg : cfg.algo = .greedy)
    (heps : 0 < cfg.eps) (hint : ∀ cur, IntervalFeasible feas cur s.idx)
    (hord : (scheduleCallEst feas cfg infra period time est raw).order = pre ++ s :: post)
    (h : (scheduleCallEst feas cfg infra period time est raw).result = .ok sch)
    (hc : infra.cont.getD s.idx true = true) (hle : lbOf s ≤ ubOf infra period s)
    (hfuel : ubOf infra period s - lbOf s ≤ cfg.eps * 2 ^ cfg.fuel) :
    (∃ s1 ∈ (scheduleCallEst feas cfg infra period time est raw).estIn,
        OwnBound cfg infra period
          (if cfg.estimate = true then
            est (scheduleCallEst feas cfg infra period time est raw).estIn s1 else none) s1 s ∧
        s1.maxRate ≤ infra.maxPilot.getD s1.idx 0) ∧
    ∃ (cur : List K) (r : K), sch[s.idx]? = some r ∧ cur.length = infra.ids.length ∧
      (∀ t ∈ pre, cur[t.idx]? = sch[t.idx]?) ∧
      (∀ t ∈ s :: post, cur[t.idx]? = some (lbOf t)) ∧
      (∀ j, j < infra.ids.length → (∀ t ∈ pre ++ s :: post, t.idx ≠ j) → cur[j]? = some 0) ∧
      feas (cur.set s.idx r) = true ∧ lbOf s ≤ r ∧ r ≤ ubOf infra period s ∧
      (feas (cur.set s.idx (ubOf infra period s)) = true → r = ubOf infra period s) ∧
      ∀ x, lbOf s ≤ x → x ≤ ubOf infra period s → feas (cur.set s.idx x) = true → x < r + cfg.eps := by
  constructor
  · obtain ⟨s1, hs1, h1, h2, _⟩ := own_bound_any_estimator feas cfg infra period time est raw l hres hndl s
      (by rw [hord]; simp)
    exact ⟨s1, hs1, h1, h2⟩
  · obtain ⟨cur, r, h1, h2, h3, h4, h5, h6⟩ := greedy_sequential_any_estimator feas cfg infra period time
      est raw l sch pre s post hres hndl hg hord h
    obtain ⟨_, g2, g3, g4, g5, g6⟩ := greedyRate_cont_max feas cfg.fuel cfg.eps heps infra period cur s r hc
      (h5 s List.mem_cons_self) (hint cur) hle hfuel h1
    exact ⟨cur, r, h2, h3, h4, h5, h6, g2, g3, g4, g5, g6⟩

/-- … with no hypothesis on the feasibility predicate left when it is the phasor check the algorithms
    use (`algFeasible`: any constraint matrix incl. mixed signs, any limits, angles, tolerances) -/
theorem greedy_max_feasible_any_estimator_alg [HasCeilNat K] (M : List (List K)) (lims c sn : List K)
    (vt rt : K) (cfg : Config K)
    (infra : Infra K) (period : K) (time : Int) (est : List (Session K) → Session K → Option K)
    (raw l : List (Session K)) (sch : List K) (pre : List (Session K)) (s : Session K)
    (post : List (Session K))
    (hres : resolve infra raw = .ok l) (hndl : (l.map (·.idx)).Nodup) (hg : cfg.algo = .greedy)
    (heps : 0 < cfg.eps)
    (hord : (scheduleCallEst (Acn.Feas.algFeasible M lims c sn vt rt) cfg infra period time est raw).order
      = pre ++ s :: post)
    (h : (scheduleCallEst (Acn.Feas.algFeasible M lims c sn vt rt) cfg infra period time est raw).result
      = .ok sch)
    (hc : infra.cont.getD s.idx true = true) (hle : lbOf s ≤ ubOf infra period s)
    (hfuel : ubOf infra period s - lbOf s ≤ cfg.eps * 2 ^ cfg.fuel) :
    ∃ (cur : List K) (r : K), sch[s.idx]? = some r ∧ (∀ t ∈ pre, cur[t.idx]? = sch[t.idx]?) ∧
      (∀ t ∈ s :: post, cur[t.idx]? = some (lbOf t)) ∧
      Acn.Feas.algFeasible M lims c sn vt rt (cur.set s.idx r) = true ∧
      lbOf s ≤ r ∧ r ≤ ubOf infra period s ∧
      (Acn.Feas.algFeasible M lims c sn vt rt (cur.set s.idx (ubOf infra period s)) = true →
        r = ubOf infra period s) ∧
      ∀ x, lbOf s ≤ x → x ≤ ubOf infra period s →
        Acn.Feas.algFeasible M lims c sn vt rt (cur.set s.idx x) = true → x < r + cfg.eps := by
  obtain ⟨_, cur, r, h1, _, h3, h4, _, h6, h7, h8, h9, h10⟩ :=
    greedy_max_feasible_any_estimator _ cfg infra period time est raw l sch pre s post hres hndl hg heps
      (fun cur => feasible_set_is_interval M lims c sn vt rt cur s.idx) hord h hc hle hfuel
  exact ⟨cur, r, h1, h3, h4, h6, h7, h8, h9, h10⟩

/-- `greedy_discrete_largest_any_estimator` (finite-rate EVSE, levels ascending).  For EVERY estimator
    function, in a returned greedy schedule the grant `r` of session `s` is EXACTLY the largest
    allowable level of its EVSE that lies within the session's own bounds `[lbOf s, ubOf s]` and is
    feasible given the earlier grants (`cur` as in `greedy_sequential`) — every larger level within the
    bounds fails the check — or 0 when no level within the bounds passes.  Any feasibility predicate. -/
theorem greedy_discrete_largest_any_estimator [HasCeilNat K] (feas : List K → Bool) (cfg : Config K)
    (infra : Infra K) (period : K) (time : Int) (est : List (Session K) → Session K → Option K)
    (raw l : List (Session K)) (sch : List K) (pre : List (Session K)) (s : Session K)
    (post : List (Session K))
    (hres : resolve infra raw = .ok l) (hndl : (l.map (·.idx)).Nodup) (hg : cfg.algo = .greedy)
    (hord : (scheduleCallEst feas cfg infra period time est raw).order = pre ++ s :: post)
    (h : (scheduleCallEst feas cfg infra period time est raw).result = .ok sch)
    (hc : infra.cont.getD s.idx true = false)
    (hsorted : (infra.allow.getD s.idx []).Pairwise (· < ·)) :
    (∃ s1 ∈ (scheduleCallEst feas cfg infra period time est raw).estIn,
        OwnBound cfg infra period
          (if cfg.estimate = true then
            est (scheduleCallEst feas cfg infra period time est raw).estIn s1 else none) s1 s ∧
        s1.maxRate ≤ infra.maxPilot.getD s1.idx 0) ∧
    ∃ (cur : List K) (r : K), sch[s.idx]? = some r ∧ cur.length = infra.ids.length ∧
      (∀ t ∈ pre, cur[t.idx]? = sch[t.idx]?) ∧
      (∀ t ∈ s :: post, cur[t.idx]? = some (lbOf t)) ∧
      (∀ j, j < infra.ids.length → (∀ t ∈ pre ++ s :: post, t.idx ≠ j) → cur[j]? = some 0) ∧
      ((r ∈ infra.allow.getD s.idx [] ∧ lbOf s ≤ r ∧ r ≤ ubOf infra period s ∧
          feas (cur.set s.idx r) = true ∧
          ∀ a ∈ infra.allow.getD s.idx [], lbOf s ≤ a → a ≤ ubOf infra period s → r < a →
            feas (cur.set s.idx a) = false) ∨
       (r = 0 ∧ ∀ a ∈ infra.allow.getD s.idx [], lbOf s ≤ a → a ≤ ubOf infra period s →
            feas (cur.set s.idx a) = false)) := by
  constructor
  · obtain ⟨s1, hs1, h1, h2, _⟩ := own_bound_any_estimator feas cfg infra period time est raw l hres hndl s
      (by rw [hord]; simp)
    exact ⟨s1, hs1, h1, h2⟩
  · obtain ⟨cur, r, h1, h2, h3, h4, h5, h6⟩ := greedy_sequential_any_estimator feas cfg infra period time
      est raw l sch pre s post hres hndl hg hord h
    refine ⟨cur, r, h2, h3, h4, h5, h6, ?_⟩
    have hmem : ∀ a, a ∈ levelsIn infra s.idx (lbOf s) (ubOf infra period s) ↔
        a ∈ infra.allow.getD s.idx [] ∧ lbOf s ≤ a ∧ a ≤ ubOf infra period s := by
      intro a
      unfold levelsIn
      simp only [List.mem_filter, Bool.and_eq_true, decide_eq_true_eq]
    unfold greedyRate at h1
    simp only [hc, Bool.false_eq_true, if_false] at h1
    split at h1
    · rename_i hemp
      cases h1
      right
      refine ⟨rfl, fun a ha h1 h2 => ?_⟩
      have : a ∈ levelsIn infra s.idx (lbOf s) (ubOf infra period s) := (hmem a).mpr ⟨ha, h1, h2⟩
      rw [List.isEmpty_iff.mp hemp] at this
      exact absurd this (by simp)
    · have hs' : (levelsIn infra s.idx (lbOf s) (ubOf infra period s)).Pairwise (· < ·) := by
        unfold levelsIn; exact hsorted.filter _
      rcases discrete_is_max feas cur s.idx _ r hs' h1 with ⟨g1, g2, g3⟩ | ⟨g1, g2⟩
      · left
        obtain ⟨m1, m2, m3⟩ := (hmem r).mp g1
        exact ⟨m1, m2, m3, g2, fun a ha h1 h2 hlt => g3 a ((hmem a).mpr ⟨ha, h1, h2⟩) hlt⟩
      · right
        exact ⟨g1, fun a ha h1 h2 => g2 a ((hmem a).mpr ⟨ha, h1, h2⟩)⟩

/-- `rr_stop_iff_blocked_any_estimator`.  For EVERY estimator function: in the `while` loop of
    `round_robin` run by a `schedule()` call (the level lists `levels` are those of `rrInit` on the
    sorted preprocessed sessions — what `roundRobin` passes to `rrLoop`), at ANY loop state `st` whose
    deque head is a queued session `s`:
      * the level list the loop uses for `s` is `rrLevels s`: the levels of its EVSE (finite list, or
        `arange(min, max + inc/2, inc)`) within ITS OWN bounds `[lbOf s, rrUb s]`;
      * `s` leaves the deque in this trip IF AND ONLY IF it has no next level in that list or its next
        level is infeasible for the schedule at that moment (otherwise it is incremented and re-queued);
      * "no next level" means nothing within its own bounds is left: every level `a` of the EVSE with
        `lbOf s ≤ a ≤ rrUb s` sits at a position `≤` the current one;
      * the bounds of `s` are its own (`OwnBound`: from the estimator's answer for this session). -/
theorem rr_stop_iff_blocked_any_estimator [HasCeilNat K] (feas : List K → Bool) (cfg : Config K)
    (infra : Infra K) (period : K) (time : Int) (est : List (Session K) → Session K → Option K)
    (raw l : List (Session K)) (hres : resolve infra raw = .ok l) (hndl : (l.map (·.idx)).Nodup)
    (hlen : infra.allow.length = infra.ids.length)
    (s : Session K) (hs : s ∈ (scheduleCallEst feas cfg infra period time est raw).order)
    (st : RRState K) (rest : List (Session K)) (hq : st.queue = s :: rest) :
    (rrInit (rrLevels infra period cfg.inc) infra.ids.length infra.allow
        (scheduleCallEst feas cfg infra period time est raw).order).2.getD s.idx [] =
      rrLevels infra period cfg.inc s ∧
    ((rrStep feas (rrInit (rrLevels infra period cfg.inc) infra.ids.length infra.allow
          (scheduleCallEst feas cfg infra period time est raw).order).2 st).queue = rest ↔
      (¬ (st.rateIdx.getD s.idx 0 + 1 < (rrLevels infra period cfg.inc s).length) ∨
       feas (st.sched.set s.idx
        ((rrLevels infra period cfg.inc s).getD (st.rateIdx.getD s.idx 0 + 1) 0)) = false)) ∧
    (¬ (st.rateIdx.getD s.idx 0 + 1 < (rrLevels infra period cfg.inc s).length) →
      ∀ a ∈ rrBase infra cfg.inc s, lbOf s ≤ a → a ≤ rrUb infra period s →
        ∃ j, j ≤ st.rateIdx.getD s.idx 0 ∧ (rrLevels infra period cfg.inc s)[j]? = some a) ∧
    (∃ s1 ∈ (scheduleCallEst feas cfg infra period time est raw).estIn,
        OwnBound cfg infra period
          (if cfg.estimate = true then
            est (scheduleCallEst feas cfg infra period time est raw).estIn s1 else none) s1 s ∧
        s1.maxRate ≤ infra.maxPilot.getD s1.idx 0) := by
  obtain ⟨hnd, hidx, _⟩ := scheduleCallEst_queue feas cfg infra period time est raw l hres hndl
  have hlv := (rrInit_spec (rrLevels infra period cfg.inc)
    (scheduleCallEst feas cfg infra period time est raw).order
    (List.replicate infra.ids.length (0 : K), infra.allow)
    (by intro t ht; rw [hlen]; exact hidx t ht)).2.2.2.2 hnd s hs
  have hlv' : (rrInit (rrLevels infra period cfg.inc) infra.ids.length infra.allow
      (scheduleCallEst feas cfg infra period time est raw).order).2.getD s.idx [] =
      rrLevels infra period cfg.inc s := hlv
  refine ⟨hlv', ?_, ?_, ?_⟩
  · rw [rrStep_stops_iff feas _ st s rest hq, hlv']
  · intro hk
    rw [rrLevels_eq] at hk ⊢
    exact no_level_left _ _ _ _ hk
  · obtain ⟨s1, hs1, h1, h2, _⟩ := own_bound_any_estimator feas cfg infra period time est raw l hres hndl s hs
    exact ⟨s1, hs1, h1, h2⟩

/-! ### non-vacuity: hostile estimator answers on a concrete instance over ℚ -/

section estex
local instance : HasCeilNat ℚ := ⟨fun x => (Rat.ceil x).toNat⟩

/-- two stations under one binding limit (`x₀ + x₁ ≤ 40`): A continuous `[0, 32]`, B finite-rate
    `{0, 8, 16, 24, 32}`; both sessions still need far more than 32 A for one period -/
def exFeas : List ℚ → Bool := fun x => decide (x.getD 0 0 + x.getD 1 0 ≤ 40)

def exInfra : Infra ℚ :=
  ⟨["A", "B"], [32, 32], [0, 8], [208, 208], [true, false], [[0, 32], [0, 8, 16, 24, 32]]⟩

/-- session ids differ from station ids; `y` (on B) arrives later than `x` (on A) -/
def exRaw : List (Session ℚ) :=
  [⟨"A", "x", 0, 0, 9, 9, 50, 0, 0, 32⟩, ⟨"B", "y", 0, 1, 8, 8, 50, 0, 0, 32⟩]

def exCfg (algo : Algo) (sort : SortKind) : Config ℚ :=
  { algo := algo, sort := sort, uninterrupted := false, estimate := true, inc := 1, eps := 1 / 100,
    fuel := 60 }

/-- the estimator answers 100 A for `x` (above its EVSE's 32 A), 20 A for `y` (between the levels 16
    and 24), and lists a station id and a stranger -/
def exEst : List (Session ℚ) → Session ℚ → Option ℚ :=
  fun _ => estOfDict [("x", 100), ("y", 20), ("B", 0), ("ghost", 1)]

/-- the hypotheses of the theorems above hold on this instance (resolved, distinct stations, sorted
    level lists, `lb ≤ ub`, fuel) and the clauses can be read off:
    first-come-first-served — `x` first gets its own bound 32 (not 100), then `y` the largest level
    `≤ 20` that still fits: 8;  last-come-first-served — `y` first gets 16 (its own bound 20 rounds down
    to a level, NOT `x`'s bound), then `x` the maximum feasible rate 24 within `eps`;
    round robin — `y` stops at 16 because nothing within its own bound is left, `x` at 24 because 25 is
    infeasible at that moment. -/
example :
    (match resolve exInfra exRaw with
     | .ok l => decide (l.map (·.idx) = [0, 1])
     | .error _ => false) = true ∧
    ((scheduleCallEst exFeas (exCfg .greedy .fcfs) exInfra 5 3 exEst exRaw).order.map (·.session)) = ["x", "y"] ∧
    ((scheduleCallEst exFeas (exCfg .greedy .fcfs) exInfra 5 3 exEst exRaw).order.all fun s =>
      decide (lbOf s ≤ ubOf exInfra 5 s) &&
      decide (ubOf exInfra 5 s - lbOf s ≤ (1 / 100) * 2 ^ 60)) = true ∧
    ((scheduleCallEst exFeas (exCfg .greedy .fcfs) exInfra 5 3 exEst exRaw).order.map (·.maxRate)) = [32, 20] ∧
    (scheduleCallEst exFeas (exCfg .greedy .fcfs) exInfra 5 3 exEst exRaw).result = .ok [32, 8] ∧
    ((scheduleCallEst exFeas (exCfg .greedy .lcfs) exInfra 5 3 exEst exRaw).order.map (·.session)) = ["y", "x"] ∧
    (match (scheduleCallEst exFeas (exCfg .greedy .lcfs) exInfra 5 3 exEst exRaw).result with
     | .ok [a, b] => decide (a ≤ 24) && decide (24 < a + 1 / 100) && decide (b = 16)
     | _ => false) = true ∧
    (scheduleCallEst exFeas (exCfg .roundRobin .fcfs) exInfra 5 3 exEst exRaw).result = .ok [24, 16] ∧
    (scheduleCallEst exFeas (exCfg .roundRobin .fcfs) exInfra 5 3 exEst exRaw).trace.filter (fun t => !t.2.2) =
      [("y", 1, false), ("x", 0, false)] := by
  refine ⟨by decide +kernel, by decide +kernel, by decide +kernel, by decide +kernel, by decide +kernel,
    by decide +kernel, by decide +kernel, by decide +kernel, by decide +kernel⟩

/-- `greedy_discrete_largest_any_estimator` instantiated: for EVERY estimator function `est` (no
    condition at all), whatever schedule first-come-first-served greedy returns on this instance, the
    entry of the finite-rate station B (session `y`, served second) is one of its levels or 0 -/
example (est : List (Session ℚ) → Session ℚ → Option ℚ) (sch : List ℚ) (sx sy : Session ℚ)
    (hord : (scheduleCallEst exFeas (exCfg .greedy .fcfs) exInfra 5 3 est exRaw).order = [sx] ++ sy :: [])
    (hidx : sy.idx = 1)
    (h : (scheduleCallEst exFeas (exCfg .greedy .fcfs) exInfra 5 3 est exRaw).result = .ok sch) :
    ∃ r, sch[1]? = some r ∧ (r ∈ [0, 8, 16, 24, 32] ∨ r = 0) := by
  have hres : resolve exInfra exRaw =
      .ok [⟨"A", "x", 0, 0, 9, 9, 50, 0, 0, 32⟩, ⟨"B", "y", 1, 1, 8, 8, 50, 0, 0, 32⟩] := by rfl
  obtain ⟨_, cur, r, h1, _, _, _, _, h6⟩ := greedy_discrete_largest_any_estimator exFeas
    (exCfg .greedy .fcfs) exInfra 5 3 est exRaw _ sch [sx] sy [] hres (by decide) rfl hord h
    (by rw [hidx]; rfl) (by rw [hidx]; simp [exInfra]; norm_num)
  rw [hidx] at h1 h6
  refine ⟨r, h1, ?_⟩
  rcases h6 with ⟨g, _⟩ | ⟨g, _⟩
  · left; simpa [exInfra] using g
  · right; exact g

end estex

end Acn.C08
