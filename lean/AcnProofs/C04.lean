/-
  C04 — applied pilots are exactly what the submitted schedules say.

  Model: `AcnModel/Pilots.lean` (`_increase_width`, `_update_schedules`, the growth and the column
  read of `run()` / `update_pilots`).  Spec: `pilotAt` (value given by the latest accepted
  submission that covers the period, else 0).

  Every theorem is for an arbitrary carrier `K` with a zero (no arithmetic is done on pilots),
  any station list, any sequence of submissions — any submission times (not even monotone),
  any lengths (including 0), any station subsets, any `lastTs` values (including `none` =
  empty queue), malformed submissions in between — and any start width.
  Helper lemmas: `AcnProofs/Lemmas/Pilots*.lean`.
-/
import AcnProofs.Lemmas.PilotsStep
import AcnProofs.Lemmas.PilotsHist

set_option linter.unusedSectionVars false

namespace Acn.C04
open Acn Acn.Pilots

variable {K : Type} [OfNat K 0]

/-! ### growth and block write -/

/-- `_increase_width` is invisible to readers of the matrix (any matrix, any target). -/
theorem increaseWidth_get (m : Mat K) (target i τ : Nat) :
    (increaseWidth m target).get i τ = m.get i τ :=
  increaseWidth_get' m target i τ

example : (increaseWidth (⟨[[1, 2], [3, 4]], 2⟩ : Mat ℤ) 5).get 1 1 = 4
    ∧ (increaseWidth (⟨[[1, 2], [3, 4]], 2⟩ : Mat ℤ) 5).get 1 4 = 0
    ∧ (increaseWidth (⟨[[1, 2], [3, 4]], 2⟩ : Mat ℤ) 5).width = 5 := by decide

/-- `_increase_width` keeps the shape invariant and never shrinks: new width = max old target. -/
theorem increaseWidth_preserves {n : Nat} {m : Mat K} (h : m.WF n) (target : Nat) :
    (increaseWidth m target).WF n ∧ (increaseWidth m target).width = max m.width target :=
  ⟨increaseWidth_wf h target, increaseWidth_width m target⟩

example : (⟨[[1, 2], [3, 4]], 2⟩ : Mat ℤ).WF 2 := by
  refine ⟨rfl, ?_⟩; intro r hr; simp at hr; rcases hr with rfl | rfl <;> rfl

/-- Block-write lemma (DESIGN §3.5): `pilot_signals[:, t:t+len] = blk` on a matrix that is wide
    enough changes exactly the cells of the block. -/
theorem writeBlock_get {n : Nat} {m : Mat K} (h : m.WF n) (t len : Nat) (blk : List (List K))
    (hd : blk.length = n) (hl : ∀ b ∈ blk, b.length = len) (hw : t + len ≤ m.width) (i τ : Nat) :
    (writeBlock m t blk).get i τ =
      if t ≤ τ ∧ τ < t + len then (blk.getD i []).getD (τ - t) 0 else m.get i τ :=
  writeBlock_get' h t len blk hd hl hw i τ

example : (writeBlock (⟨[[1, 2, 3, 4], [5, 6, 7, 8]], 4⟩ : Mat ℤ) 1 [[10, 11], [12, 13]]).rows
    = [[1, 10, 11, 4], [5, 12, 13, 8]] := by decide

/-! ### one call of `_update_schedules` -/

/-- `{}` changes nothing, whatever the period and the queue. -/
theorem empty_noop (stations : List String) (m : Mat K) (t : Nat) (lastTs : Option Nat) :
    updateSchedules stations m t lastTs [] = .ok m := rfl

/-- The shape invariant of `pilot_signals` (one row per station, every row exactly `width`
    long) is preserved by every call that returns. -/
theorem wf_preserved {stations : List String} {m m' : Mat K} (h : m.WF stations.length)
    (t : Nat) (lastTs : Option Nat) (sched : Sched K)
    (hu : updateSchedules stations m t lastTs sched = .ok m') : m'.WF stations.length := by
  have := submit_wf h ⟨t, lastTs, sched⟩
  simpa [submit, hu] using this

/-- A schedule naming an unknown station raises `KeyError`, one with rows of unequal length (and
    only known stations) raises `InvalidScheduleError`; in both cases no new state is produced:
    the matrix the simulator holds afterwards (`submit`) is the old one.  Conversely these are
    the only ways to be rejected. -/
theorem reject_unchanged (stations : List String) (m : Mat K) (t : Nat) (lastTs : Option Nat)
    (sched : Sched K) :
    (unknownStation stations sched = true →
        updateSchedules stations m t lastTs sched = .error .keyError
        ∧ submit stations m ⟨t, lastTs, sched⟩ = m)
    ∧ (unknownStation stations sched = false → ragged sched = true →
        updateSchedules stations m t lastTs sched = .error .invalidSchedule
        ∧ submit stations m ⟨t, lastTs, sched⟩ = m)
    ∧ (∀ e, updateSchedules stations m t lastTs sched = .error e →
        (unknownStation stations sched = true ∨ ragged sched = true)
        ∧ submit stations m ⟨t, lastTs, sched⟩ = m) := by
  refine ⟨?_, ?_, ?_⟩
  · intro hu
    have hne : sched ≠ [] := by rintro rfl; simp [unknownStation] at hu
    have e : updateSchedules stations m t lastTs sched = .error .keyError := by
      rw [updateSchedules_cons _ _ _ _ _ hne]; simp [hu]
    exact ⟨e, by simp [submit, e]⟩
  · intro hu hr
    have hne : sched ≠ [] := by rintro rfl; simp [ragged] at hr
    have e : updateSchedules stations m t lastTs sched = .error .invalidSchedule := by
      rw [updateSchedules_cons _ _ _ _ _ hne]; simp [hu, hr]
    exact ⟨e, by simp [submit, e]⟩
  · intro e he
    refine ⟨?_, by simp [submit, he]⟩
    by_contra hc
    simp only [not_or, Bool.not_eq_true] at hc
    by_cases hne : sched = []
    · subst hne; cases he
    · rw [updateSchedules_cons _ _ _ _ _ hne] at he
      simp [hc.1, hc.2] at he

example : unknownStation ["A", "B"] ([("A", [1]), ("C", [2])] : Sched ℤ) = true := by decide
example : unknownStation ["A", "B"] ([("A", [1]), ("B", [2, 3])] : Sched ℤ) = false
    ∧ ragged ([("A", [1]), ("B", [2, 3])] : Sched ℤ) = true := by decide
example : updateSchedules ["A", "B"] (Mat.zeros 2 3 : Mat ℤ) 1 (some 2) [("A", [1]), ("C", [2, 3])]
    = .error .keyError := by rfl

/-- **Step theorem.**  An accepted schedule submitted at period `t` — for EVERY `t`, every width of
    the matrix and every `lastTs`, in particular `none` (the period in which the event queue is
    already empty; this was defect F2) and schedules reaching beyond the allocated horizon — is
    accepted; afterwards the matrix is well-formed, wide enough for the whole schedule, and every
    cell holds the schedule's value inside the block `[t, t+len)` (0 for omitted stations) and its
    old value outside. -/
theorem accepts_beyond_horizon {stations : List String} {m : Mat K} (h : m.WF stations.length)
    (t : Nat) (lastTs : Option Nat) (sched : Sched K) (ha : accepted stations sched = true) :
    ∃ m', updateSchedules stations m t lastTs sched = .ok m'
      ∧ m'.WF stations.length
      ∧ t + schedLen sched ≤ m'.width
      ∧ m.width ≤ m'.width
      ∧ ∀ st τ, m'.get (stations.idxOf st) τ =
          if t ≤ τ ∧ τ < t + schedLen sched then valueOf ⟨t, lastTs, sched⟩ st τ
          else m.get (stations.idxOf st) τ := by
  have hu := updateSchedules_accepted stations m t lastTs sched ha
  refine ⟨_, hu, ?_, ?_, ?_, ?_⟩
  · have := submit_wf h ⟨t, lastTs, sched⟩
    simpa [submit, hu] using this
  · simp only [writeBlock]
    split
    · assumption
    · rw [increaseWidth_width]; exact le_trans (le_growTarget _ _ _) (le_max_right _ _)
  · simp only [writeBlock]
    split
    · exact le_refl _
    · rw [increaseWidth_width]; exact le_max_left _ _
  · intro st τ
    have := submit_get h ⟨t, lastTs, sched⟩ st τ
    simp only [submit, hu] at this
    rw [this]
    simp [covers, ha]

/-- the old F2 scenario: 3-period schedule in period 6, queue empty, matrix 7 wide -/
example : ∃ m', updateSchedules ["A", "B"] (Mat.zeros 2 7 : Mat ℤ) 6 none [("A", [5, 6, 7])] = .ok m'
    ∧ m'.width = 9 ∧ m'.get 0 8 = 7 ∧ m'.get 1 8 = 0 := ⟨_, rfl, by decide⟩
example : accepted ["A", "B"] ([("A", [5, 6, 7])] : Sched ℤ) = true := by decide

/-! ### order of the dict's entries -/

/-- The dense schedule matrix does not depend on the order of the mapping's entries. -/
theorem densify_perm (stations : List String) {sched sched' : Sched K} (hp : sched.Perm sched')
    (hn : (sched.map Prod.fst).Nodup) (len : Nat) :
    densify stations sched len = densify stations sched' len := by
  simp only [densify]
  apply List.map_congr_left
  intro st _
  rw [lookup_perm hp hn]

/-- …and neither does anything else: result AND error class of `_update_schedules` are the same
    for every permutation of a dict (distinct keys). -/
theorem updateSchedules_perm (stations : List String) (m : Mat K) (t : Nat) (lastTs : Option Nat)
    {sched sched' : Sched K} (hp : sched.Perm sched') (hn : (sched.map Prod.fst).Nodup) :
    updateSchedules stations m t lastTs sched = updateSchedules stations m t lastTs sched' := by
  by_cases hne : sched = []
  · subst hne; rw [List.nil_perm.1 hp]
  · have hne' : sched' ≠ [] := by rintro rfl; exact hne (List.perm_nil.1 hp)
    rw [updateSchedules_cons _ _ _ _ _ hne, updateSchedules_cons _ _ _ _ _ hne',
      ← unknownStation_perm stations hp, ← ragged_perm hp]
    by_cases hr : ragged sched = true
    · simp [hr]
    · have hr' : ragged sched = false := by simpa using hr
      rw [← schedLen_perm hp hr', ← densify_perm stations hp hn]

example : ([("A", [1, 2]), ("B", [3, 4])] : Sched ℤ).Perm [("B", [3, 4]), ("A", [1, 2])]
    ∧ (([("A", [1, 2]), ("B", [3, 4])] : Sched ℤ).map Prod.fst).Nodup :=
  ⟨List.Perm.swap _ _ _, by decide⟩
example : densify ["B", "C", "A"] ([("A", [1, 2]), ("B", [3, 4])] : Sched ℤ) 2 = [[3, 4], [0, 0], [1, 2]]
    ∧ densify ["B", "C", "A"] ([("B", [3, 4]), ("A", [1, 2])] : Sched ℤ) 2 = [[3, 4], [0, 0], [1, 2]] := by
  decide

/-! ### the overlay refinement -/

/-- What the spec means: if the submissions split as `before ++ s :: after` where `s` is accepted
    and covers `τ` and nothing in `after` does, then the pilot is what `s` says; if no submission
    covers `τ` it is 0. -/
theorem pilotAt_latest (stations : List String) (before after : List (Submission K))
    (s : Submission K) (st : String) (τ : Nat) (hs : covers stations s τ = true)
    (ha : ∀ x ∈ after, covers stations x τ = false) :
    pilotAt stations (before ++ s :: after) st τ = valueOf s st τ := by
  unfold pilotAt
  rw [pilotFrom_append, pilotFrom_cons, if_pos hs]
  induction after with
  | nil => rfl
  | cons x rest ih =>
    rw [pilotFrom_cons, ha x (List.mem_cons_self ..)]
    exact ih (fun y hy => ha y (List.mem_cons_of_mem _ hy))

theorem pilotAt_uncovered (stations : List String) (subs : List (Submission K)) (st : String) (τ : Nat)
    (ha : ∀ x ∈ subs, covers stations x τ = false) : pilotAt stations subs st τ = 0 := by
  unfold pilotAt
  induction subs with
  | nil => rfl
  | cons x rest ih =>
    rw [pilotFrom_cons, ha x (List.mem_cons_self ..)]
    exact ih (fun y hy => ha y (List.mem_cons_of_mem _ hy))

/-- **Overlay refinement.**  After ANY sequence of `_update_schedules` calls (accepted, empty or
    rejected ones, any periods — monotone or not —, any lengths, any station subsets, any `lastTs`),
    starting from the zero matrix of any width, every cell of `pilot_signals` read by station name
    holds exactly the value the specification assigns: that of the latest accepted submission
    covering the period, else 0.  (Unregistered names read 0 on both sides.) -/
theorem overlay_refines (stations : List String) (w : Nat) (subs : List (Submission K))
    (st : String) (τ : Nat) :
    (subs.foldl (submit stations) (Mat.zeros stations.length w)).get (stations.idxOf st) τ
      = pilotAt stations subs st τ := by
  rw [foldl_submit_get subs (zeros_wf _ _), zeros_get]
  rfl

/-- The same from any well-formed matrix: cells no later submission covers keep their value. -/
theorem overlay_refines_from {stations : List String} {m : Mat K} (h : m.WF stations.length)
    (subs : List (Submission K)) (st : String) (τ : Nat) :
    (subs.foldl (submit stations) m).get (stations.idxOf st) τ
      = pilotFrom stations (m.get (stations.idxOf st) τ) subs st τ
    ∧ (subs.foldl (submit stations) m).WF stations.length :=
  ⟨foldl_submit_get subs h st τ, foldl_submit_wf subs h⟩

/-- overlay of three submissions, the middle one rejected, the last one overlapping the first and
    omitting station A -/
example :
    let subs : List (Submission ℤ) :=
      [⟨0, some 3, [("A", [1, 2, 3]), ("B", [4, 5, 6])]⟩, ⟨1, some 3, [("A", [9]), ("Z", [9])]⟩,
       ⟨2, none, [("B", [7, 8, 9])]⟩]
    (subs.foldl (submit ["A", "B"]) (Mat.zeros 2 4)).rows = [[1, 2, 0, 0, 0], [4, 5, 7, 8, 9]]
    ∧ pilotAt ["A", "B"] subs "A" 1 = 2 ∧ pilotAt ["A", "B"] subs "A" 2 = 0
    ∧ pilotAt ["A", "B"] subs "B" 4 = 9 ∧ pilotAt ["A", "B"] subs "B" 5 = 0 := by decide

/-! ### what the EVSEs receive -/

/-- **Applied pilots.**  For a whole run — any list of periods, each with or without a scheduler
    call, any schedule, any queue horizon — that does not raise: the final matrix is the spec of all
    submissions, and the column `update_pilots` hands to the EVSEs in the `k`-th period is, station
    by station, `pilotAt` of the submissions made up to and including that period, at that
    period. -/
theorem applied_eq_spec {stations : List String} (hn : stations.Nodup) (w : Nat)
    (ps : List (Period K)) (m' : Mat K) (cols : List (List K))
    (hrun : runPeriods stations (Mat.zeros stations.length w) ps = .ok (m', cols)) :
    m'.WF stations.length
    ∧ (∀ st τ, m'.get (stations.idxOf st) τ = pilotAt stations (subsOf ps) st τ)
    ∧ cols.length = ps.length
    ∧ ∀ k (hk : k < ps.length), cols[k]? =
        some (stations.map fun st => pilotAt stations (subsOf (ps.take (k + 1))) st ps[k].t) := by
  -- generalise the start matrix
  have key : ∀ (ps : List (Period K)) (m m' : Mat K) (cols : List (List K)),
      m.WF stations.length → runPeriods stations m ps = .ok (m', cols) →
      m'.WF stations.length
      ∧ (∀ st τ, m'.get (stations.idxOf st) τ =
          pilotFrom stations (m.get (stations.idxOf st) τ) (subsOf ps) st τ)
      ∧ cols.length = ps.length
      ∧ ∀ k (hk : k < ps.length), cols[k]? =
          some (stations.map fun st =>
            pilotFrom stations (m.get (stations.idxOf st) ps[k].t) (subsOf (ps.take (k + 1))) st ps[k].t) := by
    intro ps
    induction ps with
    | nil =>
      intro m m' cols hm h
      simp only [runPeriods] at h
      injection h with h; injection h with h1 h2
      subst h1; subst h2
      exact ⟨hm, fun _ _ => rfl, rfl, fun k hk => absurd hk (by simp)⟩
    | cons p rest ih =>
      intro m m' cols hm h
      simp only [runPeriods] at h
      cases hp : periodStep stations m p with
      | error e => rw [hp] at h; cases h
      | ok r =>
        obtain ⟨m1, col⟩ := r
        rw [hp] at h
        simp only at h
        cases hr : runPeriods stations m1 rest with
        | error e => rw [hr] at h; cases h
        | ok r2 =>
          obtain ⟨m2, cols2⟩ := r2
          rw [hr] at h
          simp only at h
          injection h with h; injection h with h1 h2
          subst h1; subst h2
          obtain ⟨e1, hcol⟩ := periodStep_ok hp
          have hm1 : m1.WF stations.length := e1 ▸ afterPeriod_wf hm p
          have hget1 : ∀ st τ, m1.get (stations.idxOf st) τ =
              pilotFrom stations (m.get (stations.idxOf st) τ) (subsOf [p]) st τ := by
            intro st τ; rw [e1]; exact afterPeriod_get hm p st τ
          obtain ⟨i1, i2, i3, i4⟩ := ih m1 m2 cols2 hm1 hr
          refine ⟨i1, ?_, by simp [i3], ?_⟩
          · intro st τ
            rw [i2, hget1]
            conv_rhs => rw [subsOf_cons, pilotFrom_append]
          · intro k hk
            cases k with
            | zero =>
              simp only [List.getElem?_cons_zero, List.take_succ_cons, List.take_zero,
                List.getElem_cons_zero, Option.some.injEq]
              rw [appliedColumn_spec hn hm1 _ _ hcol]
              apply List.map_congr_left
              intro st _
              exact hget1 st p.t
            | succ k =>
              have hk' : k < rest.length := by simpa using hk
              simp only [List.getElem?_cons_succ, List.take_succ_cons, List.getElem_cons_succ]
              rw [i4 k hk']
              congr 1
              apply List.map_congr_left
              intro st _
              rw [subsOf_cons, pilotFrom_append, hget1]
  obtain ⟨k1, k2, k3, k4⟩ := key ps _ m' cols (zeros_wf _ _) hrun
  refine ⟨k1, ?_, k3, ?_⟩
  · intro st τ; rw [k2, zeros_get]; rfl
  · intro k hk
    rw [k4 k hk]
    congr 1
    apply List.map_congr_left
    intro st _
    rw [zeros_get]; rfl

/-- The only way a run can fail on the pilot matrix is a rejected schedule: as long as the queue's
    last timestamp is not in the past (it never is: `get_current_events` has removed everything
    ≤ t), column `t` exists when `update_pilots` reads it — also in the last period, where the queue
    is empty and the matrix is grown to `t + 1`. -/
theorem run_no_indexError {stations : List String} (w : Nat) (ps : List (Period K))
    (hl : ∀ p ∈ ps, ∀ l, p.lastTs = some l → p.t ≤ l) :
    runPeriods stations (Mat.zeros stations.length w) ps ≠ .error .indexError := by
  have key : ∀ (ps : List (Period K)) (m : Mat K), m.WF stations.length →
      (∀ p ∈ ps, ∀ l, p.lastTs = some l → p.t ≤ l) →
      runPeriods stations m ps ≠ .error .indexError := by
    intro ps
    induction ps with
    | nil => intro m _ _; simp [runPeriods]
    | cons p rest ih =>
      intro m hm hl
      simp only [runPeriods]
      cases hp : periodStep stations m p with
      | error e =>
        simp only
        intro hc
        injection hc with hc
        subst hc
        exact periodStep_no_indexError hm p (hl p (List.mem_cons_self ..)) hp
      | ok r =>
        obtain ⟨m1, col⟩ := r
        simp only
        have hm1 : m1.WF stations.length := (periodStep_ok hp).1 ▸ afterPeriod_wf hm p
        have := ih m1 hm1 (fun q hq => hl q (List.mem_cons_of_mem _ hq))
        cases hr : runPeriods stations m1 rest with
        | error e =>
          simp only
          intro hc; injection hc with hc; subst hc; exact this hr
        | ok r2 => simp
  exact key ps _ (zeros_wf _ _) hl

/-- a 3-period run on a matrix one column wide: schedule of length 3 in period 0, nothing in
    period 1, schedule for B only in period 2 (the last one: queue empty) reaching to period 4 -/
example :
    runPeriods ["A", "B"] (Mat.zeros 2 1 : Mat ℤ)
      [⟨0, some 2, some [("A", [1, 2, 3])]⟩, ⟨1, some 2, none⟩, ⟨2, none, some [("B", [7, 8, 9])]⟩]
    = .ok (⟨[[1, 2, 0, 0, 0], [0, 0, 7, 8, 9]], 5⟩, [[1, 0], [2, 0], [0, 7]]) := by rfl

/-! ### `step()`-driven simulations, and any mixture of loop trips -/

/-- `run()` is the instance of the generic trip sequence whose growth target is `runWidth`. -/
theorem runPeriods_eq_runTrips (stations : List String) (m : Mat K) (ps : List (Period K)) :
    runPeriods stations m ps = runTrips stations m (tripsOfRun ps) :=
  runPeriods_eq_runTrips' stations m ps

/-- **Applied pilots, generic.**  For ANY sequence of loop trips — trips of `run()`, trips of
    `step()`, mixed, each growing the matrix to an arbitrary target — that does not raise: the final
    matrix is the spec of all submissions and the column handed to the EVSEs in the `k`-th trip is
    `pilotAt` of the submissions made up to and including that trip. -/
theorem trips_applied_eq_spec {stations : List String} (hn : stations.Nodup) (w : Nat)
    (trips : List (Period K × Nat)) (m' : Mat K) (cols : List (List K))
    (hrun : runTrips stations (Mat.zeros stations.length w) trips = .ok (m', cols)) :
    m'.WF stations.length
    ∧ (∀ st τ, m'.get (stations.idxOf st) τ = pilotAt stations (subsOf (trips.map Prod.fst)) st τ)
    ∧ cols.length = trips.length
    ∧ ∀ k (hk : k < trips.length), cols[k]? =
        some (stations.map fun st =>
          pilotAt stations (subsOf ((trips.take (k + 1)).map Prod.fst)) st trips[k].1.t) := by
  obtain ⟨k1, k2, k3, k4⟩ := runTrips_spec hn trips _ m' cols (zeros_wf _ _) hrun
  refine ⟨k1, ?_, k3, ?_⟩
  · intro st τ; rw [k2, zeros_get]; rfl
  · intro k hk
    rw [k4 k hk]
    congr 1
    apply List.map_congr_left
    intro st _
    rw [zeros_get]; rfl

/-- **`step()`-driven simulation.**  A list of calls `step(sched_j)`, the `j`-th making a loop trip at
    each `(t, lastTs)` of `its_j` and submitting the SAME schedule in each: if nothing raises, the
    matrix afterwards is the spec of the submissions `(t, sched_j)` in the order made. -/
theorem step_applied_eq_spec {stations : List String} (hn : stations.Nodup) (w : Nat)
    (calls : List (Sched K × List (Nat × Option Nat))) (m' : Mat K) (cols : List (List K))
    (hrun : runTrips stations (Mat.zeros stations.length w) (tripsOfSteps calls) = .ok (m', cols)) :
    m'.WF stations.length
    ∧ (∀ st τ, m'.get (stations.idxOf st) τ =
        pilotAt stations
          (calls.flatMap fun c => c.2.map fun it => (⟨it.1, it.2, c.1⟩ : Submission K)) st τ)
    ∧ cols.length = (tripsOfSteps calls).length := by
  obtain ⟨k1, k2, k3, -⟩ := trips_applied_eq_spec hn w _ m' cols hrun
  refine ⟨k1, ?_, k3⟩
  intro st τ
  rw [k2, subsOf_tripsOfSteps]

/-- `step()` grows to `max(lastTs+1, t+1)`: column `t` always exists, whatever the queue says, so a
    step-driven simulation can only fail on the matrix through a rejected schedule. -/
theorem step_no_indexError {stations : List String} (w : Nat)
    (calls : List (Sched K × List (Nat × Option Nat))) :
    runTrips stations (Mat.zeros stations.length w) (tripsOfSteps calls) ≠ .error .indexError := by
  apply runTrips_no_indexError' _ _ (zeros_wf _ _)
  intro pw hpw
  simp only [tripsOfSteps, tripsOfStep, List.mem_flatMap, List.mem_map] at hpw
  obtain ⟨c, -, it, -, rfl⟩ := hpw
  exact lt_stepWidth _ _

/-- two `step` calls: the first makes trips at t = 0, 1 (its schedule re-submitted at 1 shifts it by
    one period), the second one trip at t = 2 with a longer horizon -/
example :
    runTrips ["A", "B"] (Mat.zeros 2 1 : Mat ℤ)
      (tripsOfSteps [([("A", [1, 2, 3])], [(0, some 2), (1, some 2)]), ([("B", [7, 8])], [(2, some 5)])])
    = .ok (⟨[[1, 1, 0, 0, 0, 0], [0, 0, 7, 8, 0, 0]], 6⟩, [[1, 0], [1, 0], [0, 7]]) := by rfl

/-! ### what a scheduler sees of the pilots applied before -/

/-- `Interface.last_applied_pilot_signals` read at `iteration = t + 1` with `t > 0` (the code's
    `i = iteration − 1 > 0`): for every active EV that had arrived by `t`, the pilot recorded for its
    station in period `t` — which is the entry of the column that was applied in period `t`.
    For `iteration ≤ 1` the code returns `{}` whatever was applied (second part). -/
theorem last_applied_eq_column {stations : List String} {m : Mat K} (h : m.WF stations.length)
    (t : Nat) (ht : 0 < t) (col : List K) (hc : appliedColumn m t = some col)
    (active : List (String × String × Nat)) (hreg : ∀ a ∈ active, a.2.1 ∈ stations) :
    (∃ vals, lastApplied stations m (t + 1) active = some vals
      ∧ vals.map Prod.fst = (active.filter fun a => decide (a.2.2 ≤ t)).map (·.1)
      ∧ ∀ k (hk : k < vals.length) (hk' : k < (active.filter fun a => decide (a.2.2 ≤ t)).length),
          col[stations.idxOf ((active.filter fun a => decide (a.2.2 ≤ t))[k]).2.1]? = some vals[k].2)
    ∧ ∀ it ≤ 1, lastApplied stations m it active = some [] := by
  refine ⟨?_, fun it hit => lastApplied_early stations m it active hit⟩
  have key : ∀ a ∈ active.filter (fun a => decide (a.2.2 ≤ t)), ∃ x,
      col[stations.idxOf a.2.1]? = some x ∧
      (if stations.contains a.2.1 then
        match m.rows[stations.idxOf a.2.1]? with
        | some r => (r[t]?).map fun x => (a.1, x)
        | none => none
      else none) = some (a.1, x) := by
    intro a ha
    have hs : a.2.1 ∈ stations := hreg a (List.mem_filter.1 ha).1
    have hi : stations.idxOf a.2.1 < stations.length := List.idxOf_lt_length_iff.2 hs
    obtain ⟨r, e1, e2, x, e3⟩ := appliedColumn_getElem h t col hc _ hi
    refine ⟨x, by rw [← e2, e3], ?_⟩
    rw [if_pos (List.contains_iff_mem.2 hs), e1]
    simp [e3]
  -- choose the values
  have : ∃ vals : List (String × K),
      (active.filter fun a => decide (a.2.2 ≤ t)).mapM (fun a =>
        if stations.contains a.2.1 then
          match m.rows[stations.idxOf a.2.1]? with
          | some r => (r[t]?).map fun x => (a.1, x)
          | none => none
        else none) = some vals
      ∧ vals.map Prod.fst = (active.filter fun a => decide (a.2.2 ≤ t)).map (·.1)
      ∧ ∀ k (hk : k < vals.length) (hk' : k < (active.filter fun a => decide (a.2.2 ≤ t)).length),
          col[stations.idxOf ((active.filter fun a => decide (a.2.2 ≤ t))[k]).2.1]? = some vals[k].2 := by
    generalize active.filter (fun a => decide (a.2.2 ≤ t)) = l at key
    induction l with
    | nil => exact ⟨[], rfl, rfl, fun k hk => absurd hk (by simp)⟩
    | cons a rest ih =>
      obtain ⟨x, hx1, hx2⟩ := key a (List.mem_cons_self ..)
      obtain ⟨vs, hv1, hv2, hv3⟩ := ih (fun b hb => key b (List.mem_cons_of_mem _ hb))
      refine ⟨(a.1, x) :: vs, ?_, by simp [hv2], ?_⟩
      · rw [List.mapM_cons, hx2, hv1]; rfl
      · intro k hk hk'
        cases k with
        | zero => simpa using hx1
        | succ k =>
          simp only [List.getElem_cons_succ]
          exact hv3 k (by simpa using hk) (by simpa using hk')
  obtain ⟨vals, hv1, hv2, hv3⟩ := this
  refine ⟨vals, ?_, hv2, hv3⟩
  have hnot : ¬ (t + 1 ≤ 1) := by omega
  simp only [lastApplied, hnot, if_false, Nat.add_sub_cancel]
  exact hv1

/-- The same in closed form, and tied to the specification: after any sequence of loop trips from the
    zero matrix, a scheduler reading `last_applied_pilot_signals` at `iteration = t + 1` (`t > 0`,
    column `t` allocated) sees, for each active EV that had arrived by `t`, exactly
    `pilotAt (all submissions so far) station t`. -/
theorem last_applied_eq_spec {stations : List String} (hn : stations.Nodup) (w : Nat)
    (trips : List (Period K × Nat)) (m' : Mat K) (cols : List (List K))
    (hrun : runTrips stations (Mat.zeros stations.length w) trips = .ok (m', cols))
    (t : Nat) (ht : 0 < t) (htw : t < m'.width)
    (active : List (String × String × Nat)) (hreg : ∀ a ∈ active, a.2.1 ∈ stations) :
    lastApplied stations m' (t + 1) active =
      some ((active.filter fun a => decide (a.2.2 ≤ t)).map fun a =>
        (a.1, pilotAt stations (subsOf (trips.map Prod.fst)) a.2.1 t)) := by
  obtain ⟨hwf, hget, -, -⟩ := trips_applied_eq_spec hn w trips m' cols hrun
  have hnot : ¬ (t + 1 ≤ 1) := by omega
  simp only [lastApplied, hnot, if_false, Nat.add_sub_cancel]
  apply lastApplied_mapM_aux
  intro a ha
  have hs : a.2.1 ∈ stations := hreg a (List.mem_filter.1 ha).1
  have hi : stations.idxOf a.2.1 < stations.length := List.idxOf_lt_length_iff.2 hs
  have hi' : stations.idxOf a.2.1 < m'.rows.length := by rw [hwf.1]; exact hi
  have hlen : t < (m'.rows[stations.idxOf a.2.1]).length := by
    rw [hwf.2 _ (List.getElem_mem _)]; exact htw
  rw [if_pos (List.contains_iff_mem.2 hs), List.getElem?_eq_getElem hi']
  simp only [List.getElem?_eq_getElem hlen, Option.map_some]
  rw [← hget]
  simp [Mat.get, List.getD_eq_getElem?_getD, hi', hlen]

/-- period 2 applied [5, 9]; in period 3 the scheduler sees 5 for session x (station A, arrived at 0)
    and nothing for y (station B, arrives at 3); in periods 0 and 1 it sees nothing at all -/
example :
    lastApplied ["A", "B"] (⟨[[1, 3, 5, 7], [2, 4, 9, 8]], 4⟩ : Mat ℤ) 3 [("x", "A", 0), ("y", "B", 3)]
      = some [("x", 5)]
    ∧ appliedColumn (⟨[[1, 3, 5, 7], [2, 4, 9, 8]], 4⟩ : Mat ℤ) 2 = some [5, 9]
    ∧ lastApplied ["A", "B"] (⟨[[1, 3, 5, 7], [2, 4, 9, 8]], 4⟩ : Mat ℤ) 1 [("x", "A", 0)] = some [] := by
  decide

/-! ### a rejected schedule and the scheduling state of `run()` -/

/-- "Rejected without changing any state" includes the scheduling state: when `_update_schedules`
    raises inside `run()`, `_resolve`, `_last_schedule_update` and `schedule_history` are what they
    were (the malformed schedule is not stored), so if the scheduler had to be called in this period it
    has to be called again in the same period when `run()` is resumed.  An accepted (or empty) schedule
    clears `_resolve`, records the period and is stored last in the history. -/
theorem reject_keeps_scheduling_state (stations : List String) (s : SchedState K) (t : Nat)
    (lastTs : Option Nat) (sched : Sched K) (k : Option Nat) :
    (∀ e, schedStep stations s t lastTs sched = .error e →
        schedStepState stations s t lastTs sched = s
        ∧ mustSchedule (schedStepState stations s t lastTs sched) t k = mustSchedule s t k)
    ∧ (∀ s', schedStep stations s t lastTs sched = .ok s' →
        s'.resolve = false ∧ s'.lastUpdate = some t ∧ s'.history = s.history ++ [(t, sched)]
        ∧ updateSchedules stations s.m t lastTs sched = .ok s'.m) := by
  refine ⟨?_, ?_⟩
  · intro e he
    have : schedStepState stations s t lastTs sched = s := by simp [schedStepState, he]
    exact ⟨this, by rw [this]⟩
  · intro s' hs
    unfold schedStep at hs
    cases hu : updateSchedules stations s.m t lastTs sched with
    | error e => rw [hu] at hs; cases hs
    | ok m' =>
      rw [hu] at hs
      injection hs with hs
      subst hs
      exact ⟨rfl, rfl, rfl, rfl⟩

/-- a ragged schedule in period 3 while a recompute is pending: error, and the scheduler is still due -/
example :
    let s : SchedState ℤ := ⟨Mat.zeros 2 5, true, some 1, [(1, [("A", [4])])]⟩
    schedStep ["A", "B"] s 3 (some 4) [("A", [1]), ("B", [2, 3])] = .error .invalidSchedule
    ∧ mustSchedule (schedStepState ["A", "B"] s 3 (some 4) [("A", [1]), ("B", [2, 3])]) 3 (some 2) = true
    ∧ (schedStepState ["A", "B"] s 3 (some 4) [("A", [1]), ("B", [2, 3])]).history = [(1, [("A", [4])])] := by
  refine ⟨rfl, rfl, rfl⟩

/-! ### histories with steps that are not submissions: JSON save / restore, `update_scheduler` -/

/-- **Save / restore round trip of the matrix.**  `pilot_signals` of a network with at least one station
    (`n` rows, all of the matrix' width) comes back from `to_json` / `from_json` exactly as it went in —
    values, shape and width, whatever the width (including 0). -/
theorem restore_roundtrip {n : Nat} {m : Mat K} (h : m.WF n) (hn : 0 < n) : restoreMat m = some m :=
  restoreMat_wf h hn

example : restoreMat (⟨[[1, 2, 0], [0, 7, 8]], 3⟩ : Mat ℤ) = some ⟨[[1, 2, 0], [0, 7, 8]], 3⟩ := by rfl
/-- (a simulator over a network WITHOUT stations does not survive the round trip: `np.array([])` is 1-D) -/
example : restoreMat (Mat.zeros 0 4 : Mat ℤ) = none := by rfl

/-- **Restores and scheduler swaps are invisible to the pilots.**  ANY history — loop trips of `run()`
    and `step()` with any schedules (accepted, empty, rejected: then both sides raise the same error),
    with `Simulator.from_json(sim.to_json())` and `update_scheduler` steps anywhere in between, any number
    of them — over a network with at least one station, from any well-formed matrix, is the history of its
    loop trips alone: same final matrix, same station order, same pilots received by every EVSE
    (reported BY STATION ID) in every trip, same error. -/
theorem hist_eq_trips {stations : List String} (hpos : 0 < stations.length) {m : Mat K}
    (hm : m.WF stations.length) (hs : List (HStep K)) :
    runHist stations m hs = histOfTrips stations (runTrips stations m (tripsOfHist hs)) :=
  runHist_eq_trips hpos hs m hm

/-- **Applied pilots for histories.**  For a history as above that starts from the zero matrix and does
    not raise: `station_ids` is still the registration order; every cell of the final matrix located by
    station id is the spec of the submissions made in the loop trips (restores and swaps contribute
    nothing and lose nothing: a multi-period schedule submitted before a restore / swap stays in force
    until a later SUBMISSION overwrites it); and in the `k`-th loop trip every EVSE received, by station
    id, `pilotAt` of the submissions made up to and including that trip. -/
theorem hist_applied_eq_spec {stations : List String} (hn : stations.Nodup) (hpos : 0 < stations.length)
    (w : Nat) (hs : List (HStep K)) (ids' : List String) (m' : Mat K) (cols : List (List (String × K)))
    (hrun : runHist stations (Mat.zeros stations.length w) hs = .ok (ids', m', cols)) :
    ids' = stations
    ∧ m'.WF stations.length
    ∧ (∀ st τ, getById ids' m' st τ = pilotAt stations (subsOf ((tripsOfHist hs).map Prod.fst)) st τ)
    ∧ cols.length = (tripsOfHist hs).length
    ∧ ∀ k (hk : k < (tripsOfHist hs).length), cols[k]? =
        some (stations.map fun st =>
          (st, pilotAt stations (subsOf (((tripsOfHist hs).take (k + 1)).map Prod.fst)) st
                 (tripsOfHist hs)[k].1.t)) := by
  rw [hist_eq_trips hpos (zeros_wf _ _)] at hrun
  cases hr : runTrips stations (Mat.zeros stations.length w) (tripsOfHist hs) with
  | error e => rw [hr] at hrun; cases hrun
  | ok r =>
    obtain ⟨m2, cols2⟩ := r
    rw [hr] at hrun
    simp only [histOfTrips] at hrun
    injection hrun with hrun
    injection hrun with h1 hrun
    injection hrun with h2 h3
    subst h1; subst h2; subst h3
    obtain ⟨k1, k2, k3, k4⟩ := trips_applied_eq_spec hn w _ m2 cols2 hr
    refine ⟨rfl, k1, fun st τ => k2 st τ, by simp [k3], ?_⟩
    intro k hk
    rw [List.getElem?_map, k4 k hk]
    simp only [Option.map_some, Option.some.injEq]
    exact zip_map_self stations _

/-- the scenario class of the seeds: ids registered in non-sorted order, a 4-period schedule at 0 with a
    different row per station, a restore after period 0, a scheduler swap after period 1, an empty
    schedule at 2: the old schedule is what the EVSEs receive in all four periods, by id -/
example :
    runHist ["n", "e"] (Mat.zeros 2 1 : Mat ℤ)
      [.trip ⟨0, some 3, some [("n", [8, 8, 8, 8]), ("e", [16, 17, 18, 19])]⟩ 4, .restore,
       .trip ⟨1, some 3, none⟩ 4, .swap, .trip ⟨2, some 3, some []⟩ 4, .restore, .swap,
       .trip ⟨3, none, none⟩ 4]
    = .ok (["n", "e"], ⟨[[8, 8, 8, 8], [16, 17, 18, 19]], 4⟩,
           [[("n", 8), ("e", 16)], [("n", 8), ("e", 17)], [("n", 8), ("e", 18)], [("n", 8), ("e", 19)]]) := by
  rfl

/-- why the key order of the save / restore matters (`jsonKeyOrder` = identity in the code: `json.dump`
    without `sort_keys`): were the keys written in another order — here reversed — while the rows stay
    positional, station "e" would receive the pilots scheduled for "n" after the restore -/
example :
    runHistWith List.reverse ["n", "e"] (Mat.zeros 2 1 : Mat ℤ)
      [.trip ⟨0, some 1, some [("n", [8, 8]), ("e", [16, 17])]⟩ 2, .restore, .trip ⟨1, none, none⟩ 2]
    = .ok (["e", "n"], ⟨[[8, 8], [16, 17]], 2⟩, [[("n", 8), ("e", 16)], [("e", 8), ("n", 17)]]) := by
  rfl

end Acn.C04
