/-
  C11 — the event queue returns events by time then precedence, for every interleaving of
  operations; `get_current_events(t)` returns exactly the pending events with `ts ≤ t`; length,
  emptiness and last-timestamp reflect the pending set; a queue restored from JSON behaves
  identically.

  Property theorems only (helpers: `AcnProofs/Lemmas/Queue*.lean`).  Two layers
  (`AcnModel/Queue.lean`): the array heap transcribing CPython's `heapq` (`Acn.Queue`, what the
  driver executes against the real `EventQueue`) and the pending-multiset specification
  (`Acn.QSpec.Step`, which leaves the choice among equal keys open).  Every theorem is
  quantified over ALL operation sequences / states; nothing is bounded.
-/
import AcnModel.Queue
import AcnProofs.Lemmas.QueueHeap
import AcnProofs.Lemmas.QueueOrder
import AcnProofs.Lemmas.QueueSpec
import AcnProofs.Lemmas.QueueSorted
import AcnProofs.Lemmas.QueueRefine
import AcnProofs.Lemmas.QueueSpecExec
import Mathlib.Tactic

namespace Acn.C11
open Acn Acn.QSpec

/-! ### the order (T1: precedences regenerated from event.py) -/

/-- obligation on the regenerated constants: Unplug < Plugin < Recompute -/
theorem prec_order : Gen.precUnplug < Gen.precPlugin ∧ Gen.precPlugin < Gen.precRecompute := by
  decide +kernel

/-- rank of a kind in the documented order: unplug, then plug-in, then recompute -/
def rank : EvKind → Nat
  | .unplug => 0 | .plugin => 1 | .recompute => 2

/-- with the precedences of the working tree, the tuple `<` is "timestamp, then unplug before
    plug-in before recompute" -/
theorem keyLt_by_kind (a b : Event) :
    a.keyLt b = true ↔ a.ts < b.ts ∨ (a.ts = b.ts ∧ rank a.kind < rank b.kind) := by
  have h := prec_order
  rw [keyLt_iff]
  have : a.kind.prec < b.kind.prec ↔ rank a.kind < rank b.kind := by
    cases ha : a.kind <;> cases hb : b.kind <;> simp only [EvKind.prec, rank] <;>
      first
        | (constructor <;> intro h' <;> first | omega | exact absurd h' (lt_irrefl _))
        | (constructor <;> intro _ <;> first | omega | exact h.1 | exact h.2 | exact lt_trans h.1 h.2)
        | (constructor <;> intro h' <;> first
            | omega
            | exact absurd (lt_trans h' h.1) (lt_irrefl _)
            | exact absurd (lt_trans h' h.2) (lt_irrefl _))
  rw [this]

/-- Python's tuple `<` on `(timestamp, event)` entries is a strict weak order: irreflexive,
    transitive, and incomparability (equal key) is transitive — for ANY precedence values. -/
theorem keyLt_strict_weak_order :
    (∀ a : Event, a.keyLt a = false) ∧
    (∀ a b c : Event, a.keyLt b = true → b.keyLt c = true → a.keyLt c = true) ∧
    (∀ a b c : Event, a.keyLt b = false → b.keyLt a = false → b.keyLt c = false →
      c.keyLt b = false → a.keyLt c = false ∧ c.keyLt a = false) :=
  ⟨keyLt_irrefl, keyLt_trans, keyLt_incomp_trans⟩

example : Event.keyLt ⟨3, .unplug, "a"⟩ ⟨3, .plugin, "a"⟩ = true ∧
    Event.keyLt ⟨3, .plugin, "a"⟩ ⟨3, .plugin, "b"⟩ = false ∧
    Event.keyLt ⟨3, .recompute, ""⟩ ⟨4, .unplug, "a"⟩ = true := by decide +kernel

/-! ### the heap layer (CPython `heapq` on an array) -/

/-- `heappush` keeps the heap invariant (no entry below its parent) and adds exactly one entry -/
theorem heap_push (a : Array Event) (e : Event) (h : Heap.Inv Event.keyLt a) :
    Heap.Inv Event.keyLt (Heap.heappush Event.keyLt a e) ∧
    (Heap.heappush Event.keyLt a e).toList.Perm (a.toList ++ [e]) := by
  obtain ⟨h1, h2⟩ := Heap.heappush_spec keyLt_swo a e h
  exact ⟨h1, by simpa using Array.perm_iff_toList_perm.mp h2⟩

/-- `heappop` on an empty heap raises; on a non-empty heap it returns a key-minimal entry,
    keeps the invariant, and the remaining multiset is the old one minus that entry -/
theorem heap_pop (a : Array Event) (h : Heap.Inv Event.keyLt a) :
    (a.size = 0 → Heap.heappop Event.keyLt a = .error .indexError) ∧
    (0 < a.size → ∃ e a', Heap.heappop Event.keyLt a = .ok (e, a') ∧
      Heap.Inv Event.keyLt a' ∧ a.toList.Perm (e :: a'.toList) ∧ e ∈ a.toList ∧
      ∀ x ∈ a.toList, x.keyLt e = false) := by
  refine ⟨Heap.heappop_empty a, fun hne => ?_⟩
  obtain ⟨e, a', h1, h2, h3, _, h5⟩ := Heap.heappop_spec keyLt_swo a h hne
  exact ⟨e, a', h1, h2, h3, h3.symm.subset (by simp), h5⟩

/-- REFINEMENT, for every interleaving: the trace produced by the heap-layer queue from the
    empty queue over ANY operation sequence is a run of the specification, and the final
    array is a heap holding exactly the specification's pending multiset. -/
theorem refinement (ops : List QOp) :
    ∃ s', Run QSpec.empty0 (Queue.run Queue.empty0 ops).2 s' ∧
      Heap.Inv Event.keyLt (Queue.run Queue.empty0 ops).1.heap ∧
      (Queue.run Queue.empty0 ops).1.heap.toList.Perm s'.pending ∧
      (Queue.run Queue.empty0 ops).1.timestep = s'.timestep := by
  obtain ⟨s', h1, h2⟩ := Refines.empty0.run ops
  exact ⟨s', h1, h2.inv, h2.perm, h2.ts⟩

/-- the heap invariant holds after any sequence of operations -/
theorem heap_invariant (ops : List QOp) :
    Heap.Inv Event.keyLt (Queue.run Queue.empty0 ops).1.heap :=
  (refinement ops).choose_spec.2.1

/-- the same from any related pair of states (e.g. a restored queue, or mid-run) -/
theorem refinement_from (h : Queue.State) (s : QSpec.State) (r : Refines h s) (ops : List QOp) :
    ∃ s', Run s (Queue.run h ops).2 s' ∧ Refines (Queue.run h ops).1 s' := r.run ops

example : (Queue.run Queue.empty0
    [.add ⟨2, .recompute, "r"⟩, .add ⟨2, .plugin, "p"⟩, .add ⟨1, .plugin, "q"⟩, .add ⟨2, .unplug, "u"⟩,
     .getEvent, .getCurrent 2, .getEvent]).2.map Prod.snd =
    [.unit, .unit, .unit, .unit, .event ⟨1, .plugin, "q"⟩,
     .events [⟨2, .unplug, "u"⟩, ⟨2, .plugin, "p"⟩, ⟨2, .recompute, "r"⟩], .err .indexError] := by
  decide +kernel

/-- the executable instance of the specification (it picks the first inserted among the
    key-minimal events; the driver reports it next to the heap layer) is a run of the relation
    too — `Step` covers every choice function that returns a key-minimal pending event -/
theorem spec_instance_sound (s : State) (ops : List QOp) :
    Run s (QSpec.run s ops).2 (QSpec.run s ops).1 := QSpec.run_sound s ops

/-! ### what every run of the specification satisfies (hence every heap-layer run) -/

/-- every retrieval returns a key-minimal pending event and removes exactly it -/
theorem getEvent_min (s s' : State) (e : Event) (h : Step s .getEvent (.event e) s') :
    e ∈ s.pending ∧ (∀ x ∈ s.pending, x.keyLt e = false) ∧ s'.pending = s.pending.erase e := by
  cases h with
  | get _ hmin => exact ⟨hmin.1, hmin.2, rfl⟩

/-- `get_event` raises exactly on the empty queue -/
theorem getEvent_error_iff (s s' : State) (out : QOut) (h : Step s .getEvent out s') :
    out = .err .indexError ↔ s.pending = [] := by
  cases h with
  | getEmpty hs => simp [hs]
  | get e hmin =>
    simp only [reduceCtorEq, false_iff]
    intro hs; have := hmin.1; rw [hs] at this; simp at this

/-- `gets_sorted` (DESIGN §6 C11 formalisation): along ANY run of the specification, from any
    state, in which every inserted key is ≥ the most recent retrieval before it, the retrieved
    events are in non-decreasing key order (timestamp, then precedence). -/
theorem gets_sorted (s s' : State) (tr : List (QOp × QOut)) (h : Run s tr s')
    (hwt : wellTimed none tr) : (retrieved tr).Pairwise (fun a b => b.keyLt a = false) :=
  (run_sorted h none (by simp) hwt).1

/-- the same for the heap layer from the empty queue, for every operation sequence -/
theorem heap_gets_sorted (ops : List QOp)
    (hwt : wellTimed none (Queue.run Queue.empty0 ops).2) :
    (retrieved (Queue.run Queue.empty0 ops).2).Pairwise (fun a b => b.keyLt a = false) := by
  obtain ⟨s', h, _⟩ := refinement ops
  exact gets_sorted _ _ _ h hwt

/-- non-vacuity: a heap-layer run with interleaved adds and gets that is well timed, and what
    it retrieves -/
example : ∃ tr, (Queue.run Queue.empty0
      [.add ⟨1, .plugin, "a"⟩, .add ⟨3, .unplug, "a"⟩, .getEvent, .add ⟨1, .recompute, "r"⟩,
       .getCurrent 5]).2 = tr ∧ wellTimed none tr ∧
      retrieved tr = [⟨1, .plugin, "a"⟩, ⟨1, .recompute, "r"⟩, ⟨3, .unplug, "a"⟩] := by
  refine ⟨[(.add ⟨1, .plugin, "a"⟩, .unit), (.add ⟨3, .unplug, "a"⟩, .unit),
    (.getEvent, .event ⟨1, .plugin, "a"⟩), (.add ⟨1, .recompute, "r"⟩, .unit),
    (.getCurrent 5, .events [⟨1, .recompute, "r"⟩, ⟨3, .unplug, "a"⟩])], by decide +kernel, ?_, rfl⟩
  simp only [wellTimed]
  refine ⟨by simp, by simp, ?_, trivial⟩
  intro l hl; simp at hl; subst hl; decide +kernel

/-- `getCurrent_spec`: `get_current_events(t)` returns exactly the pending events with
    `ts ≤ t`, in non-decreasing key order, leaves exactly the others (in insertion order),
    and records `t`. -/
theorem getCurrent_spec (s s' : State) (t : Int) (out : QOut) (h : Step s (.getCurrent t) out s') :
    ∃ es, out = .events es ∧
      es.Perm (s.pending.filter (fun e => decide (e.ts ≤ t))) ∧
      es.Pairwise (fun a b => b.keyLt a = false) ∧
      s'.pending = s.pending.filter (fun e => !decide (e.ts ≤ t)) ∧ s'.timestep = t := by
  cases h with
  | cur _ es q' hcur =>
    obtain ⟨h1, h2, h3⟩ := hcur.spec
    exact ⟨es, rfl, h1, h2, h3, rfl⟩

/-- heap layer, any heap: the loop of `get_current_events` (whose fuel is the queue length)
    returns exactly the entries with `ts ≤ t`, sorted, and leaves a heap of exactly the others -/
theorem heap_getCurrent (h : Queue.State) (t : Int) (hinv : Heap.Inv Event.keyLt h.heap) :
    (Queue.getCurrent h t).2.Perm (h.heap.toList.filter (fun e => decide (e.ts ≤ t))) ∧
    (Queue.getCurrent h t).2.Pairwise (fun a b => b.keyLt a = false) ∧
    Heap.Inv Event.keyLt (Queue.getCurrent h t).1.heap ∧
    (Queue.getCurrent h t).1.heap.toList.Perm (h.heap.toList.filter (fun e => !decide (e.ts ≤ t))) ∧
    (Queue.getCurrent h t).1.timestep = t := by
  have r : Refines h ⟨h.heap.toList, h.timestep⟩ := ⟨hinv, List.Perm.refl _, rfl⟩
  obtain ⟨s', hstep, r'⟩ := r.step (.getCurrent t)
  obtain ⟨es, hout, h1, h2, h3, h4⟩ := getCurrent_spec _ _ _ _ hstep
  simp only [Queue.step] at hout r'
  simp only [QOut.events.injEq] at hout
  rw [hout]
  exact ⟨h1, h2, r'.inv, h3 ▸ r'.perm, r'.ts.trans h4⟩

/-- `len_empty_last`: in the specification the three queries are the length, emptiness and the
    maximum timestamp (`None` iff empty) of the pending multiset … -/
theorem len_empty_last (s s' : State) (out : QOut) :
    (Step s .len out s' → out = .nat s.pending.length ∧ s' = s) ∧
    (Step s .empty out s' → out = .bool (decide (s.pending = [])) ∧ s' = s) ∧
    (Step s .last out s' → s' = s ∧ ∃ o, out = .ts o ∧ (o = none ↔ s.pending = []) ∧
      ∀ m, o = some m ↔ (∃ x ∈ s.pending, x.ts = m) ∧ ∀ x ∈ s.pending, x.ts ≤ m) := by
  refine ⟨?_, ?_, ?_⟩
  · intro h; cases h; exact ⟨rfl, rfl⟩
  · intro h; cases h; refine ⟨?_, rfl⟩; cases s.pending <;> simp
  · intro h; cases h
    exact ⟨rfl, _, rfl, (lastTsList_spec _).1, (lastTsList_spec _).2⟩

/-- … and the heap layer answers them from the array exactly as the specification does from the
    multiset, in every state reached by any operation sequence -/
theorem heap_len_empty_last (ops : List QOp) :
    ∃ s', Run QSpec.empty0 (Queue.run Queue.empty0 ops).2 s' ∧
      Queue.len (Queue.run Queue.empty0 ops).1 = s'.pending.length ∧
      Queue.empty (Queue.run Queue.empty0 ops).1 = s'.pending.isEmpty ∧
      Queue.lastTimestamp (Queue.run Queue.empty0 ops).1 = lastTsList s'.pending := by
  obtain ⟨s', h1, r⟩ := Refines.empty0.run ops
  refine ⟨s', h1, r.size, ?_, lastTsList_perm r.perm⟩
  simp only [Queue.empty, r.size]; cases s'.pending <;> simp

/-! ### restore -/

/-- `restore_equiv`: a queue rebuilt from its serialised form (`_queue` array in array order,
    `_timestep`) is the SAME state — same array, not merely the same multiset — … -/
theorem restore_equiv (h : Queue.State) : Queue.fromJson (Queue.toJson h) = h := by
  simp [Queue.fromJson, Queue.toJson, fromWire_toWire]

/-- … hence every later result is identical, including the order among equal keys: a round trip
    anywhere in an operation sequence changes nothing but its own trace entry -/
theorem restore_continue (h : Queue.State) (ops₁ ops₂ : List QOp) :
    (Queue.run h (ops₁ ++ .roundtrip :: ops₂)).1 = (Queue.run h (ops₁ ++ ops₂)).1 ∧
    (Queue.run h (ops₁ ++ .roundtrip :: ops₂)).2.filter (fun p => p.1 ≠ .roundtrip) =
      (Queue.run h (ops₁ ++ ops₂)).2.filter (fun p => p.1 ≠ .roundtrip) := by
  induction ops₁ generalizing h with
  | nil =>
    have : (Queue.step h .roundtrip).1 = h := restore_equiv h
    simp only [List.nil_append, Queue.run, this]
    simp
  | cons op ops ih =>
    have := ih (Queue.step h op).1
    simp only [List.cons_append, Queue.run]
    refine ⟨this.1, ?_⟩
    simp only [List.filter_cons]
    rw [this.2]

/-- the serialised form lists every entry with its own timestamp, in array order -/
theorem wire_faithful (h : Queue.State) :
    (Queue.toJson h).1.map Prod.snd = h.heap.toList ∧ ∀ p ∈ (Queue.toJson h).1, p.1 = p.2.ts := by
  refine ⟨by simp [Queue.toJson, toWire, List.map_map, Function.comp_def], ?_⟩
  intro p hp
  simp only [Queue.toJson, toWire, List.mem_map] at hp
  obtain ⟨e, _, rfl⟩ := hp; rfl

example : let s := (Queue.run Queue.empty0 [.add ⟨2, .plugin, "p"⟩, .add ⟨1, .unplug, "u"⟩, .getCurrent 0]).1
    Queue.toJson s = ([(1, ⟨1, .unplug, "u"⟩), (2, ⟨2, .plugin, "p"⟩)], 0) := by decide +kernel

end Acn.C11
