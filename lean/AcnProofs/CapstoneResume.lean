/-
  CAPSTONE, statement 4 — the JSON-resume variant of `Capstone.pipeline_terminates_and_accounts`:
  C15 ∘ C01Resume (C09's lemma family).  A file of its own because `Lemmas/ResumeRun.lean` (C09 family) and
  `Lemmas/EventCoreSim.lean` (C01/C02/C18 family, imported by `Capstone.lean`) declare the same names.

  FULL STATEMENT (not provable in ONE file for that reason): "… and `RunAccounts` (Lemmas/Capstone.lean) holds of the
  resumed simulation".  What is proved here: the resumed simulation is `Completed` (every clause of C01) and `ObsEq`
  — equal in every field except the bookkeeping list `core.invoked` — to the final state of the uninterrupted run, of
  which `Capstone.pipeline_terminates_and_accounts` proves `RunAccounts`; no field `RunAccounts` mentions is `invoked`.
-/
import AcnProofs.C01Resume
import AcnProofs.Lemmas.CapstoneSessions
import AcnProofs.Lemmas.RegistryJsonEx

set_option linter.unusedSectionVars false

namespace Acn.CapstoneResume
open Acn Acn.Sessions Acn.Evse Acn.EventCore Acn.Sim Acn.Registry Acn.Capstone

variable {K : Type} [Field K] [LinearOrder K] [IsStrictOrderedRing K] [FloorRing K] [HasExp K]

/-- Documents satisfying `DocsOk`, converted by `get_evs`, simulated with ANY scheduler whose uninterrupted run raises
    nothing.  Interrupt the run in ANY period `k` (the scheduler raises there), serialise the aborted simulator through
    the modelled CPython `json` text layer (any double formatter that round-trips), load it, attach the scheduler again
    and call `run()`: the dump and the load succeed, the decoded simulator IS the aborted one, and either the
    interruption never fired (the run is the uninterrupted run) or the resumed run raises nothing, ends `Completed`
    (queue empty, horizon reached, every station vacated, one plug-in and one unplug per session, history sorted) and
    is observably the final state of the uninterrupted run (`ObsEq`: all of pilots, rates, peak, EV energies and
    batteries, occupancy log, histories). -/
theorem pipeline_resume_json_partial (d : RegistryJson.DoubleText K) (hdt : d.RoundTrip)
    (net : Sim.Cfg K) (start V mp : K) (maxLen : Option Int)
    (bp : BattParams K) (ff : Bool) (docs : List (Doc K)) (evs : List (Ev K))
    (hp : 0 < net.period)
    (hd : DocsOk (net.stations.map (·.id)) start net.period maxLen docs)
    (htags : (net.recomputes.map (·.2)).Nodup) (hrec : ∀ r ∈ net.recomputes, 0 ≤ r.1)
    (h : getEvs start docs net.period V mp maxLen bp ff = .ok evs)
    (sched : View K → Except EventCore.Err (Schedule K)) (k n : Nat)
    (hN : horizon (pipelineCfg net evs).core ≤ n)
    (hok : (run (pipelineCfg net evs) sched n (Sim.init (pipelineCfg net evs))).2 = none) :
    let cfg := pipelineCfg net evs
    let r1 := run cfg (failAt k sched) n (Sim.init cfg)
    let r := run cfg sched n (Sim.init cfg)
    Completed cfg.core r.1.core ∧
    ∃ ctx s', dump (RegistrySim.encode (RegistryJson.jsonShow d) cfg r1.1) RegistrySim.root = .ok ctx ∧
      load ctx RegistrySim.root = .ok ctx ∧
      RegistrySim.decode (RegistryJson.jsonRead d) cfg (RegistrySim.ambOf r1.1) ctx.get = some s' ∧ s' = r1.1 ∧
      ((r1 = r ∧ Completed cfg.core s'.core) ∨
       (r1.2 = some EventCore.Err.schedulerFailed ∧ s'.core.iter = k ∧ Fresh s'.core ∧
        (run cfg sched (n - k) s').2 = none ∧ Completed cfg.core (run cfg sched (n - k) s').1.core ∧
        ObsEq (run cfg sched (n - k) s').1 r.1)) := by
  intro cfg r1 r
  obtain ⟨hv, _, _⟩ := pipeline_valid net start V mp maxLen bp ff docs evs hp hd htags hrec h
  refine ⟨C01Resume.uninterrupted_completed cfg sched hv n hN hok, ?_⟩
  obtain ⟨ctx, s', h1, h2, h3, h4, _, _, _, _, _, h10⟩ :=
    C01Resume.exactly_once_across_resume_json (RegistryJson.jsonLawful d hdt) cfg sched hv k n hN hok
  exact ⟨ctx, s', h1, h2, h3, h4, h10⟩

/-! ### non-vacuity: the example scenario of `Capstone.lean`, interrupted in the hand-over period 2 (`a` leaves CA-1,
    `b` arrives there), written with the example double formatter of C09 and resumed -/

section simex
local instance : HasExp ℚ := ⟨fun x => x⟩

def exSched : View ℚ → Except EventCore.Err (Schedule ℚ) := fun _ => .ok [("CA-1", [16]), ("CA-2", [8])]

/-- the interruption fires in period 2 and the second `run()` completes after period 4 -/
example :
    (match getEvs (exStart ℚ) (exDocs ℚ) 5 208 (6656 / 1000) (some 12) defaultParams false with
     | .ok evs =>
       let cfg := pipelineCfg (exNet ℚ) evs
       let r1 := run cfg (failAt 2 exSched) 10 (Sim.init cfg)
       let r2 := run cfg exSched 8 r1.1
       r1.2 == some EventCore.Err.schedulerFailed && r1.1.core.iter == 2 && r2.2 == none && r2.1.core.iter == 5 &&
         r2.1.core.pending.isEmpty && r2.1.rates.rows == [[16, 16, 16, 16, 0], [0, 8, 8, 0, 0]]
     | .error _ => false) = true := by
  decide +kernel

/-- `pipeline_resume_json_partial` APPLIED to it: every hypothesis is discharged -/
example : ∃ evs, getEvs (exStart ℚ) (exDocs ℚ) (exNet ℚ).period 208 (6656 / 1000) (some 12) defaultParams false
      = .ok evs ∧
    Completed (pipelineCfg (exNet ℚ) evs).core
      (run (pipelineCfg (exNet ℚ) evs) exSched 10 (Sim.init (pipelineCfg (exNet ℚ) evs))).1.core := by
  obtain ⟨evs, he, _, hall⟩ := C15.all_sessions_wellformed_default (exStart ℚ) (exDocs ℚ) (exNet ℚ).period 208
    (6656 / 1000) (some 12) false (by norm_num [exNet]) (by norm_num)
    (fun L hL => le_of_lt ((exDocsOk ℚ).cap_pos L hL))
    (fun d hdm => ⟨connect_le_disconnect (by norm_num [exNet]) ((exDocsOk ℚ).periods_apart d hdm), by
      simp only [exDocs, List.mem_cons, List.not_mem_nil, or_false] at hdm
      rcases hdm with rfl | rfl | rfl <;> norm_num⟩)
  have key : (match getEvs (exStart ℚ) (exDocs ℚ) (exNet ℚ).period 208 (6656 / 1000) (some 12) defaultParams false with
     | .ok evs => decide ((run (pipelineCfg (exNet ℚ) evs) exSched 10 (Sim.init (pipelineCfg (exNet ℚ) evs))).2 = none)
         && decide (horizon (pipelineCfg (exNet ℚ) evs).core ≤ 10)
     | .error _ => false) = true := by decide +kernel
  rw [he] at key
  simp only [Bool.and_eq_true, decide_eq_true_eq] at key
  exact ⟨evs, he, (pipeline_resume_json_partial RegistryJson.exDouble RegistryJson.exDouble_roundTrip (exNet ℚ)
    (exStart ℚ) 208 (6656 / 1000) (some 12) defaultParams false (exDocs ℚ) evs (by norm_num [exNet]) (exDocsOk ℚ)
    (by simp [exNet]) (by simp [exNet]) he exSched 2 10 key.2 key.1).1⟩

end simex

end Acn.CapstoneResume
