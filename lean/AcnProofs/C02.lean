/-
  C02 — the energy ledger: recorded charging rates, each EV's delivered energy and its battery's
  charge gain agree; rates are 0 at vacant stations; peak = max aggregate current; total energy
  = integral of aggregate power.

  Property theorems only (helpers: `Lemmas/LedgerBattery`, `LedgerSim`, `LedgerInv`, `LedgerStep`, `LedgerTotal`, `LedgerInterval`, `LedgerRerun`, `LedgerStatic`, `LedgerResume`, `LedgerResumeInterval`).
  Carrier: any linear ordered field `K`; `HasExp K` is an ARBITRARY function — the ledger of the
  two-stage battery is pure algebra on the dsoc value the code returns.
  Simulator-level theorems are about the full model `Acn.Sim` (the one the driver executes
  against the real `Simulator`), for EVERY scheduler parameter, every schedule it submits
  (including rows for vacant stations and pilots above a battery's maximum), every noise stream,
  every fuel `n` (so also for every loop head in the middle of a run).  Their only hypothesis on
  the scenario is that station ids are pairwise distinct (a dict in the code).
-/
import AcnProofs.Lemmas.LedgerInterval
import AcnProofs.Lemmas.LedgerExecEq
import AcnProofs.Lemmas.LedgerBoundsRun
import AcnProofs.Lemmas.LedgerRerun
import AcnProofs.Lemmas.LedgerStatic
import AcnProofs.Lemmas.LedgerResume
import AcnProofs.Lemmas.LedgerResumeInterval

set_option linter.unusedSectionVars false
set_option linter.unusedVariables false

namespace Acn.C02
open Acn Acn.Battery Acn.Evse Acn.Sim Acn.Ledger Finset

variable {K : Type} [Field K] [LinearOrder K] [IsStrictOrderedRing K] [HasExp K]

/-! ### one `charge` call, per battery model, every noise draw -/

/-- ideal battery (battery.py:45-70) -/
theorem ledger_ideal (b b' : Batt K) (pilot V T r : K) (h : idealCharge b pilot V T = .ok (b', r)) :
    b'.charge - b.charge = r * V / 1000 * (T / 60) ∧ V ≠ 0 ∧ T ≠ 0 :=
  ⟨ideal_ledger h, ne_of_gt (ideal_guards h).1, ne_of_gt (ideal_guards h).2⟩

/-- two-stage battery, stepwise calculation (battery.py:288-348), every draw `ν` -/
theorem ledger_stepwise (ν : K) (b b' : Batt K) (pilot V T r : K)
    (h : stepCharge b pilot V T ν = .ok (b', r)) :
    b'.charge - b.charge = r * V / 1000 * (T / 60) ∧ V ≠ 0 ∧ T ≠ 0 :=
  ⟨step_ledger h, ne_of_gt (step_guards h).1, ne_of_gt (step_guards h).2⟩

/-- two-stage battery, closed-form calculation (battery.py:207-286), every draw `ν`, every `exp` -/
theorem ledger_continuous (ν : K) (b b' : Batt K) (pilot V T r : K)
    (h : contCharge b pilot V T ν = .ok (b', r)) :
    b'.charge - b.charge = r * V / 1000 * (T / 60) ∧ V ≠ 0 ∧ T ≠ 0 :=
  ⟨cont_ledger h, ne_of_gt (cont_guards h).1, ne_of_gt (cont_guards h).2⟩

/-- the zero-pilot early return (battery.py:226-233) changes neither side of the ledger -/
theorem ledger_zero_pilot (ν : K) (b b' : Batt K) (V T r : K) (h : contCharge b 0 V T ν = .ok (b', r)) :
    b'.charge = b.charge ∧ r = 0 :=
  cont_zero_pilot h

/-- `EV.charge` (ev.py:130-144): counter and battery move by the energy of the reported rate -/
theorem ev_charge_step (e e' : Ev K) (pilot V T ν : K) (h : e.charge pilot V T ν = .ok e') :
    e'.delivered - e.delivered = e'.rate * V / 1000 * (T / 60) ∧
    e'.batt.charge - e.batt.charge = e'.rate * V / 1000 * (T / 60) :=
  ⟨(ev_charge_ledger h).1, (ev_charge_ledger h).2.1⟩

/-- ANY sequence of `(pilot, V, T, ν)` calls on one EV (failing calls included): the energy counter
    and the battery's stored charge have moved by the same amount, the sum of the energies of the
    rates that were reported back -/
theorem ev_energy_eq_battery_gain (e : Ev K) (calls : List (Call K)) :
    (chargeSeq e calls).delivered - e.delivered = (chargeSeq e calls).batt.charge - e.batt.charge ∧
    (chargeSeq e calls).delivered - e.delivered = (energyLog e calls).sum := by
  obtain ⟨h1, h2⟩ := chargeSeq_ledger calls e
  exact ⟨h1.trans h2.symm, h1⟩

/-! ### whole simulations -/

/-- the ledger invariant holds at every loop head of every run that has not raised -/
theorem ledger_invariant (cfg : Cfg K) (hn : StationsNodup cfg)
    (sched : View K → Except EventCore.Err (Schedule K)) (n : Nat) (s : State K)
    (h : Sim.run cfg sched n (Sim.init cfg) = (s, none)) : Ledger.Inv cfg s :=
  run_ledger hn sched n _ s (init_ledger cfg) h

/-- each EV: delivered energy = charge gained by its battery -/
theorem sim_energy_eq_battery_gain (cfg : Cfg K) (hn : StationsNodup cfg)
    (sched : View K → Except EventCore.Err (Schedule K)) (n : Nat) (s : State K)
    (h : Sim.run cfg sched n (Sim.init cfg) = (s, none)) (id : String) (e0 e : Ev K)
    (h0 : evIn cfg.evs id = some e0) (he : evIn s.evs id = some e) :
    e.delivered - e0.delivered = e.batt.charge - e0.batt.charge :=
  (ledger_invariant cfg hn sched n s h).gain id e0 e h0 he

/-- each EV: delivered energy = Σ over the periods so far and the stations of
    `rates[i][τ] · V_i / 1000 · (period / 60)`, counted where the occupancy snapshot of period `τ`
    shows this session at station `i` -/
theorem session_energy_all (cfg : Cfg K) (hn : StationsNodup cfg)
    (sched : View K → Except EventCore.Err (Schedule K)) (n : Nat) (s : State K)
    (h : Sim.run cfg sched n (Sim.init cfg) = (s, none)) (id : String) (e0 e : Ev K)
    (h0 : evIn cfg.evs id = some e0) (he : evIn s.evs id = some e) :
    e.delivered - e0.delivered =
      ∑ τ ∈ range s.core.iter, ∑ i ∈ range cfg.stations.length,
        if occAt s.occLog τ i = some id
        then s.rates.get i τ * volt cfg i / 1000 * (cfg.period / 60) else 0 :=
  (ledger_invariant cfg hn sched n s h).sess id e0 e h0 he

/-- each session: delivered energy = Σ over the periods so far of its OWN station's row,
    `rates[st_x][τ] · V_st / 1000 · (period / 60)`, over the periods in which the occupancy snapshot shows
    it connected there (under C01's `Valid` these are the periods `arrival ≤ τ < departure`:
    `EventCore.occ_after_events` / `C01.connected_iff`) -/
theorem session_energy_eq_sum (cfg : Cfg K) (hn : StationsNodup cfg)
    (sched : View K → Except EventCore.Err (Schedule K)) (n : Nat) (s : State K)
    (h : Sim.run cfg sched n (Sim.init cfg) = (s, none)) (id : String) (e0 e : Ev K)
    (h0 : evIn cfg.evs id = some e0) (he : evIn s.evs id = some e) :
    e.delivered - e0.delivered =
      ∑ τ ∈ range s.core.iter,
        if occAt s.occLog τ (stationIndex cfg e0.station) = some id
        then s.rates.get (stationIndex cfg e0.station) τ * volt cfg (stationIndex cfg e0.station) / 1000
              * (cfg.period / 60)
        else 0 := by
  have hL := ledger_invariant cfg hn sched n s h
  rw [hL.sess id e0 e h0 he]
  unfold sessionEnergy
  exact Finset.sum_congr rfl (fun τ _ => sum_term_single hn hL h0 τ)

/-- THE STATEMENT AS THE PROPERTY WORDS IT.  Under C01's hypothesis `Valid` on the scenario, at every loop
    head of a run that has not raised: delivered_x = Σ over the periods `τ` so far with
    `arrival_x ≤ τ < departure_x` of `rates[station_x][τ] · V / 1000 · (period / 60)` -/
theorem session_energy_interval (cfg : Cfg K) (hn : StationsNodup cfg) (hv : EventCore.Valid cfg.core)
    (sched : View K → Except EventCore.Err (Schedule K)) (n : Nat) (s : State K)
    (h : Sim.run cfg sched n (Sim.init cfg) = (s, none)) (id : String) (e0 e : Ev K)
    (h0 : evIn cfg.evs id = some e0) (he : evIn s.evs id = some e) :
    e.delivered - e0.delivered =
      ∑ τ ∈ range s.core.iter,
        if e0.arrival ≤ (τ : Int) ∧ (τ : Int) < e0.departure
        then s.rates.get (stationIndex cfg e0.station) τ * volt cfg (stationIndex cfg e0.station) / 1000
              * (cfg.period / 60)
        else 0 := by
  have hI := run_iinv hn hv sched n _ s (init_iinv cfg hv) h
  rw [session_energy_eq_sum cfg hn sched n s h id e0 e h0 he]
  apply Finset.sum_congr rfl
  intro τ hτ
  have := occAt_iff_interval hn hv hI h0 τ
  simp only [Finset.mem_range.1 hτ, true_and] at this
  exact if_congr this rfl rfl

/-- ... and for a complete run (`n` at least the horizon, e.g. the driver's fuel): the sum is over
    exactly the interval `[arrival_x, departure_x)` -/
theorem session_energy_interval_complete (cfg : Cfg K) (hn : StationsNodup cfg) (hv : EventCore.Valid cfg.core)
    (sched : View K → Except EventCore.Err (Schedule K)) (n : Nat) (hN : EventCore.horizon cfg.core ≤ n)
    (s : State K) (h : Sim.run cfg sched n (Sim.init cfg) = (s, none)) (id : String) (e0 e : Ev K)
    (h0 : evIn cfg.evs id = some e0) (he : evIn s.evs id = some e) :
    e.delivered - e0.delivered =
      ∑ τ ∈ Finset.Ico e0.arrival.toNat e0.departure.toNat,
        s.rates.get (stationIndex cfg e0.station) τ * volt cfg (stationIndex cfg e0.station) / 1000
          * (cfg.period / 60) := by
  rw [session_energy_interval cfg hn hv sched n s h id e0 e h0 he, ← Finset.sum_filter]
  -- the run is over: iteration = horizon ≥ every departure
  have hproj := Sim.run_core cfg sched n (Sim.init cfg) (by rw [h])
  rw [h] at hproj
  obtain ⟨c', hr, hI'⟩ := EventCore.run_spec hv (sched := EventCore.noFail) (apply := EventCore.noFail)
    (fun _ => rfl) (fun _ => rfl) n 0 (EventCore.init cfg.core) (EventCore.init_inv hv) (Nat.zero_le _)
  rw [Sim.init_core, hr] at hproj
  obtain rfl : c' = s.core := by simpa using hproj
  have hiter : s.core.iter = EventCore.horizon cfg.core := by
    rw [hI'.iter]; omega
  have hmem : e0 ∈ cfg.evs := List.mem_of_find?_eq_some h0
  have hx0 : sessionOf e0 ∈ cfg.core.sessions := List.mem_map.2 ⟨e0, hmem, rfl⟩
  have hdep : e0.departure ≤ EventCore.maxTs cfg.core := EventCore.dep_le_maxTs hx0
  have harr : 0 ≤ e0.arrival := hv.arr_nonneg _ hx0
  apply Finset.sum_congr _ (fun _ _ => rfl)
  ext τ
  simp only [Finset.mem_filter, Finset.mem_range, Finset.mem_Ico, hiter, EventCore.horizon]
  omega

/-- a station's recorded rate is 0 in every period that lies in no session's connection interval -/
theorem rates_zero_outside_interval (cfg : Cfg K) (hn : StationsNodup cfg) (hv : EventCore.Valid cfg.core)
    (sched : View K → Except EventCore.Err (Schedule K)) (n : Nat) (s : State K)
    (h : Sim.run cfg sched n (Sim.init cfg) = (s, none)) (i τ : Nat) (st : Station K)
    (hst : cfg.stations[i]? = some st)
    (hout : ¬ ∃ x ∈ cfg.core.sessions, x.station = st.id ∧ x.arrival ≤ (τ : Int) ∧ (τ : Int) < x.departure) :
    s.rates.get i τ = 0 := by
  have hI := run_iinv hn hv sched n _ s (init_iinv cfg hv) h
  by_cases hτ : τ < s.core.iter
  · apply hI.led.vacant τ i hτ (List.getElem?_eq_some_iff.1 hst).1
    cases ho : occAt s.occLog τ i with
    | none => rfl
    | some id =>
      obtain ⟨_, st', x, hst', m1, _, m3, m4, m5⟩ := (hI.log τ i id).1 ho
      rw [hst] at hst'
      obtain rfl : st = st' := by simpa using hst'
      exact absurd ⟨x, m1, m3, m4, m5⟩ hout
  · exact hI.led.future τ i (by omega)

/-- total energy delivered (Σ over all EVs of the session counters, `analysis.total_energy_delivered`)
    = Σ_τ aggregate_power(τ) · period/60, with aggregate_power(τ) = Σ_st V_st · rates[st][τ] / 1000
    (`analysis.aggregate_power`); session ids pairwise distinct -/
theorem total_energy_eq_integral (cfg : Cfg K) (hn : StationsNodup cfg)
    (hid : (cfg.evs.map (·.session)).Nodup)
    (sched : View K → Except EventCore.Err (Schedule K)) (n : Nat) (s : State K)
    (h : Sim.run cfg sched n (Sim.init cfg) = (s, none)) :
    (s.evs.map (·.delivered)).sum - (cfg.evs.map (·.delivered)).sum =
      ∑ τ ∈ range s.core.iter,
        (∑ i ∈ range cfg.stations.length, volt cfg i * s.rates.get i τ / 1000) * (cfg.period / 60) :=
  total_of_inv hn hid (ledger_invariant cfg hn sched n s h)

/-- the recorded rate of a station is 0 in every period in which the snapshot shows it vacant,
    and in every period that has not been simulated yet -/
theorem rate_zero_when_vacant (cfg : Cfg K) (hn : StationsNodup cfg)
    (sched : View K → Except EventCore.Err (Schedule K)) (n : Nat) (s : State K)
    (h : Sim.run cfg sched n (Sim.init cfg) = (s, none)) (τ i : Nat) :
    (τ < s.core.iter → i < cfg.stations.length → occAt s.occLog τ i = none → s.rates.get i τ = 0) ∧
    (s.core.iter ≤ τ → s.rates.get i τ = 0) :=
  ⟨(ledger_invariant cfg hn sched n s h).vacant τ i, (ledger_invariant cfg hn sched n s h).future τ i⟩

theorem peakUpTo_spec (m : Pilots.Mat K) (n : Nat) : ∀ t : Nat,
    0 ≤ peakUpTo m n t ∧ (∀ τ < t, aggCurrent m n τ ≤ peakUpTo m n t) ∧
    (peakUpTo m n t = 0 ∨ ∃ τ < t, peakUpTo m n t = aggCurrent m n τ) := by
  intro t
  induction t with
  | zero => exact ⟨le_refl _, fun τ h => absurd h (Nat.not_lt_zero _), Or.inl rfl⟩
  | succ t ih =>
    obtain ⟨h0, h1, h2⟩ := ih
    simp only [peakUpTo]
    refine ⟨le_trans h0 (le_max_left _ _), ?_, ?_⟩
    · intro τ hτ
      rcases Nat.lt_succ_iff_lt_or_eq.1 hτ with hlt | rfl
      · exact le_trans (h1 τ hlt) (le_max_left _ _)
      · exact le_max_right _ _
    · rcases le_total (peakUpTo m n t) (aggCurrent m n t) with hle | hle
      · rw [max_eq_right hle]; exact Or.inr ⟨t, Nat.lt_succ_self t, rfl⟩
      · rw [max_eq_left hle]
        rcases h2 with h2 | ⟨τ, hτ, h2⟩
        · exact Or.inl h2
        · exact Or.inr ⟨τ, Nat.lt_succ_of_lt hτ, h2⟩

/-- `peak` = max(0, max over the periods so far of the recorded aggregate current) -/
theorem peak_eq_max (cfg : Cfg K) (hn : StationsNodup cfg)
    (sched : View K → Except EventCore.Err (Schedule K)) (n : Nat) (s : State K)
    (h : Sim.run cfg sched n (Sim.init cfg) = (s, none)) :
    0 ≤ s.peak ∧
    (∀ τ < s.core.iter, ∑ i ∈ range cfg.stations.length, s.rates.get i τ ≤ s.peak) ∧
    (s.peak = 0 ∨ ∃ τ < s.core.iter, s.peak = ∑ i ∈ range cfg.stations.length, s.rates.get i τ) := by
  rw [(ledger_invariant cfg hn sched n s h).peak_eq]
  exact peakUpTo_spec s.rates cfg.stations.length s.core.iter

/-! ### C03's clause at simulator level (carrier ℝ, `exp = Real.exp`) -/

/-- For every scenario with distinct station ids whose batteries start in a state satisfying C03's
    `BattAlg.Inv` (capacity > 0, charge ≤ capacity, max power ≥ 0, 0 ≤ transition SoC < 1), every
    scheduler that only submits non-negative pilots, every noise stream and every loop head of a run
    that has not raised: for EVERY station and period, 0 ≤ charging_rates[st][t] ≤ pilot_signals[st][t]
    (vacant station ⇒ rate 0; by `C03.ev_rate_le_pilot` through the station loop, and because
    `_update_schedules` never rewrites a past column) -/
theorem sim_rate_le_pilot (cfg : Cfg ℝ) (hn : StationsNodup cfg)
    (hb : ∀ e ∈ cfg.evs, BattAlg.Inv e.batt)
    (sched : View ℝ → Except EventCore.Err (Schedule ℝ)) (hs : SchedNonneg sched) (n : Nat) (s : State ℝ)
    (h : Sim.run cfg sched n (Sim.init cfg) = (s, none)) (i τ : Nat) :
    0 ≤ s.rates.get i τ ∧ s.rates.get i τ ≤ s.pilots.get i τ := by
  have hI := run_binv hn sched hs n _ s (init_binv cfg hb) h
  by_cases hτ : τ < s.core.iter
  · exact hI.bound i τ hτ
  · rw [hI.led.future τ i (by omega)]
    exact ⟨le_refl _, hI.pil i τ⟩

/-! ### the sums `drv_C02` executes are the sums of the theorems -/

/-- the Mathlib-free, executable specification functions of `LedgerExec.lean` (evaluated at `Float` by
    the driver on the model's final state of every correspondence scenario) equal, over every linear
    ordered field, the right-hand sides of `session_energy_all`, `session_energy_interval`,
    `peak_eq_max` (`peakUpTo`) and `total_energy_eq_integral` -/
theorem exec_sums_eq_spec (cfg : Cfg K) (rates : Pilots.Mat K) (log : List (List (Option String)))
    (id : String) (k : Nat) (a d : Int) (t : Nat) :
    LedgerX.sessionEnergyX cfg rates log id t =
      (∑ τ ∈ range t, ∑ i ∈ range cfg.stations.length,
        if occAt log τ i = some id then rates.get i τ * volt cfg i / 1000 * (cfg.period / 60) else 0) ∧
    LedgerX.intervalEnergyX cfg rates k a d t =
      (∑ τ ∈ range t, if a ≤ (τ : Int) ∧ (τ : Int) < d
        then rates.get k τ * volt cfg k / 1000 * (cfg.period / 60) else 0) ∧
    LedgerX.peakX rates cfg.stations.length t = peakUpTo rates cfg.stations.length t ∧
    LedgerX.integralX cfg rates t =
      ∑ τ ∈ range t, (∑ i ∈ range cfg.stations.length, volt cfg i * rates.get i τ / 1000) * (cfg.period / 60) :=
  ⟨LedgerX.sessionEnergyX_eq cfg rates log id t, LedgerX.intervalEnergyX_eq cfg rates k a d t,
   LedgerX.peakX_eq rates _ t, LedgerX.integralX_eq cfg rates t⟩

/-! ### the same EV objects in a second simulation (`AcnModel/Rerun.lean`)

  The simulator-level theorems above speak about `e.delivered - e0.delivered` for ARBITRARY initial EVs `e0` of the
  configuration (any delivered energy, any last charging rate, any battery charge), so they hold verbatim for a
  simulation whose EV objects have been through an earlier one.  The statements below are the form the property
  words for that case: after `EV.reset()` the ABSOLUTE reported energy of the second simulation is the recorded sum
  and the battery's charge above its initial charge — whatever state `s1` the EV objects were left in (in particular
  whatever stale `current_charging_rate` they carry into the second simulation). -/

/-- second simulation, any scheduler, any state `s1` left behind by whatever happened before: each EV's reported
    energy = its battery's charge above the initial charge = Σ over the periods in which the occupancy snapshot
    shows it connected of `rates[st][τ] · V_st / 1000 · (period / 60)` -/
theorem rerun_session_energy (cfg : Cfg K) (hn : StationsNodup cfg) (s1 : State K)
    (sched : View K → Except EventCore.Err (Schedule K)) (n : Nat) (s : State K)
    (h : Sim.run (Rerun.rerunCfg cfg s1) sched n (Sim.init (Rerun.rerunCfg cfg s1)) = (s, none))
    (id : String) (e : Ev K) (he : evIn s.evs id = some e) :
    ∃ e1, evIn s1.evs id = some e1 ∧
      e.delivered = e.batt.charge - e1.batt.init ∧
      e.delivered =
        ∑ τ ∈ range s.core.iter,
          if occAt s.occLog τ (stationIndex cfg e1.station) = some id
          then s.rates.get (stationIndex cfg e1.station) τ * volt cfg (stationIndex cfg e1.station) / 1000
                * (cfg.period / 60)
          else 0 := by
  have hn2 : StationsNodup (Rerun.rerunCfg cfg s1) := hn
  have hL := ledger_invariant _ hn2 sched n s h
  obtain ⟨e0, h0⟩ := evIn_exists_of_ids hL.ids he
  obtain ⟨e1, h1, rfl⟩ := evIn_rerunCfg h0
  refine ⟨e1, h1, ?_, ?_⟩
  · have := sim_energy_eq_battery_gain _ hn2 sched n s h id _ e h0 he
    simpa [Rerun.resetEv] using this
  · have := session_energy_eq_sum _ hn2 sched n s h id _ e h0 he
    simp only [Rerun.resetEv, sub_zero] at this
    exact this

/-- ... and over the connection interval itself, when the state left behind still carries the sessions of the
    configuration (id, station, arrival, departure of every EV untouched) -/
theorem rerun_session_energy_interval_of_sessions (cfg : Cfg K) (hn : StationsNodup cfg)
    (hv : EventCore.Valid cfg.core) (s1 : State K) (hs : s1.evs.map sessionOf = cfg.evs.map sessionOf)
    (sched : View K → Except EventCore.Err (Schedule K)) (n : Nat) (s : State K)
    (h : Sim.run (Rerun.rerunCfg cfg s1) sched n (Sim.init (Rerun.rerunCfg cfg s1)) = (s, none))
    (id : String) (e : Ev K) (he : evIn s.evs id = some e) :
    ∃ e1, evIn s1.evs id = some e1 ∧
      e.delivered =
        ∑ τ ∈ range s.core.iter,
          if e1.arrival ≤ (τ : Int) ∧ (τ : Int) < e1.departure
          then s.rates.get (stationIndex cfg e1.station) τ * volt cfg (stationIndex cfg e1.station) / 1000
                * (cfg.period / 60)
          else 0 := by
  have hn2 : StationsNodup (Rerun.rerunCfg cfg s1) := hn
  have hv2 : EventCore.Valid (Rerun.rerunCfg cfg s1).core := by rw [rerunCfg_core hs]; exact hv
  have hL := ledger_invariant _ hn2 sched n s h
  obtain ⟨e0, h0⟩ := evIn_exists_of_ids hL.ids he
  obtain ⟨e1, h1, rfl⟩ := evIn_rerunCfg h0
  refine ⟨e1, h1, ?_⟩
  have := session_energy_interval _ hn2 hv2 sched n s h id _ e h0 he
  simp only [Rerun.resetEv, sub_zero] at this
  exact this

/-- a simulation leaves id, station, arrival and departure of every EV object alone (`Ev.charge` is the only writer
    of the EVs and touches delivered energy, last rate and battery only) -/
theorem run_keeps_sessions (cfg : Cfg K) (hn : StationsNodup cfg) (hv : EventCore.Valid cfg.core)
    (sched : View K → Except EventCore.Err (Schedule K)) (n : Nat) (s : State K)
    (h : Sim.run cfg sched n (Sim.init cfg) = (s, none)) :
    s.evs.map sessionOf = cfg.evs.map sessionOf :=
  run_sessions hn hv sched n s h

/-- THE STATEMENT AS THE PROPERTY WORDS IT, for EV objects that have been through an earlier simulation: a valid
    scenario is simulated (any scheduler, stopped at any loop head `n1` without having raised), every EV is put back
    with `EV.reset()`, and the same EV objects are simulated again (any other scheduler, the noise stream continued):
    at every loop head of the second run, delivered_x = Σ over the periods `τ` so far with
    `arrival_x ≤ τ < departure_x` of `rates[station_x][τ] · V / 1000 · (period / 60)` — an ABSOLUTE equality, and
    whatever last charging rate the EV carried over from the first simulation -/
theorem rerun_session_energy_interval (cfg : Cfg K) (hn : StationsNodup cfg) (hv : EventCore.Valid cfg.core)
    (sched1 : View K → Except EventCore.Err (Schedule K)) (n1 : Nat) (s1 : State K)
    (h1 : Sim.run cfg sched1 n1 (Sim.init cfg) = (s1, none))
    (sched : View K → Except EventCore.Err (Schedule K)) (n : Nat) (s : State K)
    (h : Sim.run (Rerun.rerunCfg cfg s1) sched n (Sim.init (Rerun.rerunCfg cfg s1)) = (s, none))
    (id : String) (e : Ev K) (he : evIn s.evs id = some e) :
    ∃ e1, evIn s1.evs id = some e1 ∧
      e.delivered =
        ∑ τ ∈ range s.core.iter,
          if e1.arrival ≤ (τ : Int) ∧ (τ : Int) < e1.departure
          then s.rates.get (stationIndex cfg e1.station) τ * volt cfg (stationIndex cfg e1.station) / 1000
                * (cfg.period / 60)
          else 0 :=
  rerun_session_energy_interval_of_sessions cfg hn hv s1 (run_keeps_sessions cfg hn hv sched1 n1 s1 h1)
    sched n s h id e he

/-! ### simulations that are INTERRUPTED AND RESUMED (`Lemmas/LedgerResume.lean`)

  `run()` raises in some period `k` — while the events of the period are processed, in `scheduler.run()`, or in
  `_update_schedules`: the three places before any pilot is applied — and is called again on the same object (with
  the same or with another scheduler), any number of times.  The completed simulation is still a simulation in
  C02's sense: every clause of the ledger holds for it, at every loop head.  The aborted period has moved the
  occupancy and the ghost list of scheduler calls only; no EV has charged, nothing has been recorded.

  Excluded, and necessarily so: a raise out of `update_pilots` / `_store_actual_charging_rates` (`Ledger.ApplyErr`:
  `InvalidRateError` at station `j` after the stations before it have charged, numpy `IndexError`, a `ValueError` out
  of `Battery.charge`).  That state carries delivered energy which no column of `charging_rates` records, and a resume
  charges the same EVs once more for the same period.

  The JSON half (`to_json` → `from_json` → `update_scheduler` → `run`) is in `AcnProofs/C02Json.lean`: the lemmas it
  needs from C09 (`Lemmas/ResumeRun`, `RegistryWF2`) and `Lemmas/EventCoreSim` (imported here through
  `LedgerInterval`) declare the same projection lemma names, so the two cannot be imported into one module. -/

/-- a `run()` that was ABORTED (by anything but the pilots/rates half of a period), in ANY period — event periods
    and the last period included —, with any scheduler and fuel: the state the simulator object is left in
    satisfies the ledger invariant -/
theorem ledger_invariant_aborted (cfg : Cfg K) (hn : StationsNodup cfg)
    (sched : View K → Except EventCore.Err (Schedule K)) (n : Nat) (s : State K) (e : EventCore.Err)
    (h : Sim.run cfg sched n (Sim.init cfg) = (s, some e)) (he : ¬ ApplyErr e) : Ledger.Inv cfg s :=
  run_ledger_any hn sched n _ s (some e) (init_ledger cfg) h (fun e' h' => by cases h'; exact he)

/-- INTERRUPTED AND RESUMED: the first `run()` (scheduler `sched1`) is aborted in any period, `run()` is called
    again on the same object (scheduler `sched2` — the same one, repaired, or another) and reaches a loop head
    without raising (in particular: completes): the ledger invariant holds there -/
theorem ledger_invariant_resume (cfg : Cfg K) (hn : StationsNodup cfg)
    (sched1 sched2 : View K → Except EventCore.Err (Schedule K)) (n1 n2 : Nat) (s1 s2 : State K) (e : EventCore.Err)
    (h1 : Sim.run cfg sched1 n1 (Sim.init cfg) = (s1, some e)) (he : ¬ ApplyErr e)
    (h2 : Sim.run cfg sched2 n2 s1 = (s2, none)) : Ledger.Inv cfg s2 :=
  run_ledger hn sched2 n2 s1 s2 (ledger_invariant_aborted cfg hn sched1 n1 s1 e h1 he) h2

/-- … and for ANY NUMBER of aborted and resumed `run()` calls, each with its own scheduler and fuel
    (`Ledger.Resumed`: the states such a simulator object goes through) -/
theorem ledger_invariant_resumed (cfg : Cfg K) (hn : StationsNodup cfg) (s : State K) (h : Resumed cfg s) :
    Ledger.Inv cfg s :=
  resumed_ledger hn h

/-- the instance the property names: the scheduler raises in period `k` (and is `sched` otherwise) — whatever it
    raises out of `schedule()`; the resumed run uses `sched` -/
theorem ledger_invariant_resume_crash (cfg : Cfg K) (hn : StationsNodup cfg)
    (sched : View K → Except EventCore.Err (Schedule K)) (k n1 n2 : Nat) (s1 s2 : State K)
    (h1 : Sim.run cfg (fun v => if v.iter = k then .error .schedulerFailed else sched v) n1 (Sim.init cfg)
            = (s1, some .schedulerFailed))
    (h2 : Sim.run cfg sched n2 s1 = (s2, none)) : Ledger.Inv cfg s2 :=
  ledger_invariant_resume cfg hn _ sched n1 n2 s1 s2 _ h1 schedulerFailed_not_applyErr h2

/-- each EV of a resumed simulation: delivered energy = charge gained by its battery -/
theorem sim_energy_eq_battery_gain_resumed (cfg : Cfg K) (hn : StationsNodup cfg) (s : State K)
    (h : Resumed cfg s) (id : String) (e0 e : Ev K)
    (h0 : evIn cfg.evs id = some e0) (he : evIn s.evs id = some e) :
    e.delivered - e0.delivered = e.batt.charge - e0.batt.charge :=
  (resumed_ledger hn h).gain id e0 e h0 he

/-- each session of a resumed simulation: delivered energy = Σ over the periods so far of its OWN station's row,
    `rates[st_x][τ] · V_st / 1000 · (period / 60)` with `V_st` the voltage the station was REGISTERED with
    (`volt cfg`), over the periods in which the occupancy snapshot shows it connected there — the aborted period `k`
    is counted once, with the rate recorded when it was finally simulated -/
theorem session_energy_eq_sum_resumed (cfg : Cfg K) (hn : StationsNodup cfg) (s : State K)
    (h : Resumed cfg s) (id : String) (e0 e : Ev K)
    (h0 : evIn cfg.evs id = some e0) (he : evIn s.evs id = some e) :
    e.delivered - e0.delivered =
      ∑ τ ∈ range s.core.iter,
        if occAt s.occLog τ (stationIndex cfg e0.station) = some id
        then s.rates.get (stationIndex cfg e0.station) τ * volt cfg (stationIndex cfg e0.station) / 1000
              * (cfg.period / 60)
        else 0 :=
  (resumed_ledger hn h).session_single hn h0 he

/-- a resumed simulation: the recorded rate is 0 wherever the snapshot shows the station vacant, and in every period
    that has not been simulated yet (the aborted period included, until it is simulated) -/
theorem rate_zero_when_vacant_resumed (cfg : Cfg K) (hn : StationsNodup cfg) (s : State K)
    (h : Resumed cfg s) (τ i : Nat) :
    (τ < s.core.iter → i < cfg.stations.length → occAt s.occLog τ i = none → s.rates.get i τ = 0) ∧
    (s.core.iter ≤ τ → s.rates.get i τ = 0) :=
  ⟨(resumed_ledger hn h).vacant τ i, (resumed_ledger hn h).future τ i⟩

/-- a resumed simulation: `peak` = max(0, max over ALL periods so far — those before the interruption and those
    after it — of the recorded aggregate current) -/
theorem peak_eq_max_resumed (cfg : Cfg K) (hn : StationsNodup cfg) (s : State K) (h : Resumed cfg s) :
    0 ≤ s.peak ∧
    (∀ τ < s.core.iter, ∑ i ∈ range cfg.stations.length, s.rates.get i τ ≤ s.peak) ∧
    (s.peak = 0 ∨ ∃ τ < s.core.iter, s.peak = ∑ i ∈ range cfg.stations.length, s.rates.get i τ) :=
  (resumed_ledger hn h).peak_spec

/-- a resumed simulation: total energy delivered = Σ_τ aggregate_power(τ) · period/60 -/
theorem total_energy_eq_integral_resumed (cfg : Cfg K) (hn : StationsNodup cfg)
    (hid : (cfg.evs.map (·.session)).Nodup) (s : State K) (h : Resumed cfg s) :
    (s.evs.map (·.delivered)).sum - (cfg.evs.map (·.delivered)).sum =
      ∑ τ ∈ range s.core.iter,
        (∑ i ∈ range cfg.stations.length, volt cfg i * s.rates.get i τ / 1000) * (cfg.period / 60) :=
  (resumed_ledger hn h).total hn hid

/-- THE STATEMENT AS THE PROPERTY WORDS IT, for a resumed simulation: under C01's hypothesis `Valid`, at every state a
    simulator object goes through while `run()` is aborted and called again any number of times (`Resumed`),
    delivered_x = Σ over the periods `τ` simulated so far with `arrival_x ≤ τ < departure_x` of
    `rates[station_x][τ] · V / 1000 · (period / 60)` — the aborted period is simulated, and counted, exactly once -/
theorem session_energy_interval_resumed (cfg : Cfg K) (hn : StationsNodup cfg) (hv : EventCore.Valid cfg.core)
    (s : State K) (h : Resumed cfg s) (id : String) (e0 e : Ev K)
    (h0 : evIn cfg.evs id = some e0) (he : evIn s.evs id = some e) :
    e.delivered - e0.delivered =
      ∑ τ ∈ range s.core.iter,
        if e0.arrival ≤ (τ : Int) ∧ (τ : Int) < e0.departure
        then s.rates.get (stationIndex cfg e0.station) τ * volt cfg (stationIndex cfg e0.station) / 1000
              * (cfg.period / 60)
        else 0 := by
  have hR := resumed_rinv hn hv h
  rw [hR.led.session_single hn h0 he]
  apply Finset.sum_congr rfl
  intro τ hτ
  have := occAt_iff_interval_of_log hn hv hR.log h0 τ
  simp only [Finset.mem_range.1 hτ, true_and] at this
  exact if_congr this rfl rfl

/-- … and once the event queue of the resumed simulation is empty (every `run()` that returns leaves it so): the sum
    is over exactly the interval `[arrival_x, departure_x)` -/
theorem session_energy_interval_complete_resumed (cfg : Cfg K) (hn : StationsNodup cfg)
    (hv : EventCore.Valid cfg.core) (s : State K) (h : Resumed cfg s) (hdone : s.core.pending = [])
    (id : String) (e0 e : Ev K) (h0 : evIn cfg.evs id = some e0) (he : evIn s.evs id = some e) :
    e.delivered - e0.delivered =
      ∑ τ ∈ Finset.Ico e0.arrival.toNat e0.departure.toNat,
        s.rates.get (stationIndex cfg e0.station) τ * volt cfg (stationIndex cfg e0.station) / 1000
          * (cfg.period / 60) := by
  rw [session_energy_interval_resumed cfg hn hv s h id e0 e h0 he, ← Finset.sum_filter]
  have hmem : e0 ∈ cfg.evs := List.mem_of_find?_eq_some h0
  have hx0 : sessionOf e0 ∈ cfg.core.sessions := List.mem_map.2 ⟨e0, hmem, rfl⟩
  have hdep : e0.departure ≤ (s.core.iter : Int) := (resumed_rinv hn hv h).dep_le_iter hv hdone _ hx0
  have harr : 0 ≤ e0.arrival := hv.arr_nonneg _ hx0
  apply Finset.sum_congr _ (fun _ _ => rfl)
  ext τ
  simp only [Finset.mem_filter, Finset.mem_range, Finset.mem_Ico]
  omega

/-- a resumed simulation: a station's recorded rate is 0 in every period that lies in no session's connection
    interval -/
theorem rates_zero_outside_interval_resumed (cfg : Cfg K) (hn : StationsNodup cfg) (hv : EventCore.Valid cfg.core)
    (s : State K) (h : Resumed cfg s) (i τ : Nat) (st : Station K) (hst : cfg.stations[i]? = some st)
    (hout : ¬ ∃ x ∈ cfg.core.sessions, x.station = st.id ∧ x.arrival ≤ (τ : Int) ∧ (τ : Int) < x.departure) :
    s.rates.get i τ = 0 := by
  have hR := resumed_rinv hn hv h
  by_cases hτ : τ < s.core.iter
  · apply hR.led.vacant τ i hτ (List.getElem?_eq_some_iff.1 hst).1
    cases ho : occAt s.occLog τ i with
    | none => rfl
    | some id =>
      obtain ⟨_, st', x, hst', m1, _, m3, m4, m5⟩ := (hR.log τ i id).1 ho
      rw [hst] at hst'
      obtain rfl : st = st' := by simpa using hst'
      exact absurd ⟨x, m1, m3, m4, m5⟩ hout
  · exact hR.led.future τ i (by omega)

/-! ### non-vacuity (full model over ℚ; `exp` is never called by the ideal / stepwise laws) -/

/-- ideal battery: 32 A at 1000 V for 60 min offers 32 kWh, the battery accepts its maximum 7 kW -/
example : (match idealCharge (K := ℚ) ⟨40, 5, 5, 7, 0, false, 0, 0, .continuous⟩ 32 1000 60 with
    | .ok (b', r) => decide (r = 7) && decide (b'.charge = 12)
    | .error _ => false) = true := by decide +kernel

/-- stepwise two-stage battery above the transition SoC with a noise draw: accepted, charge moves -/
example : (match stepCharge (K := ℚ) ⟨40, 36, 5, 8, 0, true, 1, 4/5, .stepwise⟩ 32 1000 60 (1/2) with
    | .ok (b', r) => decide (b'.charge - 36 = r * 1000 / 1000 * (60 / 60)) && decide (0 < r)
    | .error _ => false) = true := by decide +kernel

section simex
local instance : HasExp ℚ := ⟨fun x => x⟩

/-- stations A (1000 V) and B (500 V), 60-minute periods; x on A during [0,2), y on A during [2,3)
    (back-to-back reuse), z on B during [1,3) with a stepwise two-stage battery; the schedule always
    addresses both stations (so B while it is vacant) with pilots above every battery's maximum -/
def exCfg : Sim.Cfg ℚ :=
  { stations := [⟨"A", .cont 0 (some 32), 1000⟩, ⟨"B", .cont 0 (some 32), 500⟩],
    evs := [{ session := "x", station := "A", arrival := 0, departure := 2, estDeparture := 2, requested := 3,
              delivered := 0, rate := 0,
              batt := ⟨40, 5, 5, 7, 0, false, 0, 0, .continuous⟩ },
            { session := "y", station := "A", arrival := 2, departure := 3, estDeparture := 3, requested := 9,
              delivered := 0, rate := 0,
              batt := ⟨10, 8, 8, 7, 0, false, 0, 0, .continuous⟩ },
            { session := "z", station := "B", arrival := 1, departure := 3, estDeparture := 3, requested := 5,
              delivered := 0, rate := 0,
              batt := ⟨20, 2, 2, 4, 0, true, 1, 4/5, .stepwise⟩ }],
    recomputes := [], maxRecompute := some 1, period := 60, atolCont := 1 / 1000, atolDeadband := 1 / 1000,
    atolFinite := 1 / 1000, fullEps := 1 / 1000, noise := [1/2, -1/4] }

def exSched : View ℚ → Except EventCore.Err (Schedule ℚ) := fun _ => .ok [("A", [16]), ("B", [32])]

example : StationsNodup exCfg := by
  show (exCfg.stations.map (·.id)).Nodup
  decide +kernel

/-- the run ends without an error after period 2; the recorded rates, the delivered energies and the
    peak are the non-trivial values the ledger speaks about (B's row is 0 while B is vacant in period 0,
    y's battery fills up and takes only 2 of the 16 A offered) -/
example :
    (Sim.run exCfg exSched 8 (Sim.init exCfg)).2 = none ∧
    (Sim.run exCfg exSched 8 (Sim.init exCfg)).1.core.iter = 4 ∧
    (Sim.run exCfg exSched 8 (Sim.init exCfg)).1.rates.rows = [[7, 7, 2, 0], [0, 7, 15/2, 0]] ∧
    (Sim.run exCfg exSched 8 (Sim.init exCfg)).1.evs.map (·.delivered) = [14, 2, 29/4] ∧
    (Sim.run exCfg exSched 8 (Sim.init exCfg)).1.evs.map (·.batt.charge) = [19, 10, 37/4] ∧
    (Sim.run exCfg exSched 8 (Sim.init exCfg)).1.peak = 14 ∧
    (Sim.run exCfg exSched 8 (Sim.init exCfg)).1.occLog =
      [[some "x", none], [some "x", some "z"], [some "y", some "z"], [none, none]] := by
  decide +kernel

/-- the scenario is `Valid` (hypothesis of the interval theorems) -/
example : EventCore.Valid exCfg.core := by
  constructor <;> simp [exCfg, Cfg.core, sessionOf]

/-- the state the run above leaves behind -/
def exS1 : Sim.State ℚ := (Sim.run exCfg exSched 8 (Sim.init exCfg)).1

/-- a scheduler that stays silent in period 0 (all pilots 0 A there) and then does what `exSched` does -/
def exSched2 : View ℚ → Except EventCore.Err (Schedule ℚ) := fun v => if v.iter = 0 then .ok [] else exSched v

/-- hypotheses of `rerun_session_energy` / `rerun_session_energy_interval` (and the conclusion of `run_keeps_sessions`) on
    a concrete instance: the EVs
    come back with energies and batteries reset but with the stale last rates 7, 2 and 15/2 A; the second run ends
    without an error; x is held at 0 A in period 0 and the recorded rate there is 0 (not the stale 7 A), so x's
    energy is 7 = its row over [0, 2) = its battery's charge above the initial 5 -/
example :
    exS1.evs.map sessionOf = exCfg.evs.map sessionOf ∧
    (Rerun.rerunCfg exCfg exS1).evs.map (·.rate) = [7, 2, 15/2] ∧
    (Rerun.rerunCfg exCfg exS1).evs.map (·.delivered) = [0, 0, 0] ∧
    (Rerun.rerunCfg exCfg exS1).evs.map (·.batt.charge) = [5, 8, 2] ∧
    (Sim.run (Rerun.rerunCfg exCfg exS1) exSched2 8 (Sim.init (Rerun.rerunCfg exCfg exS1))).2 = none ∧
    (Sim.run (Rerun.rerunCfg exCfg exS1) exSched2 8 (Sim.init (Rerun.rerunCfg exCfg exS1))).1.rates.rows
      = [[0, 7, 2, 0], [0, 7, 15/2, 0]] ∧
    (Sim.run (Rerun.rerunCfg exCfg exS1) exSched2 8 (Sim.init (Rerun.rerunCfg exCfg exS1))).1.evs.map (·.delivered)
      = [7, 2, 29/4] ∧
    (Sim.run (Rerun.rerunCfg exCfg exS1) exSched2 8 (Sim.init (Rerun.rerunCfg exCfg exS1))).1.evs.map (·.batt.charge)
      = [12, 10, 37/4] := by
  decide +kernel

/-- the scheduler that raises in period `k` and is `exSched` otherwise -/
def exCrash (k : Nat) : View ℚ → Except EventCore.Err (Schedule ℚ) :=
  fun v => if v.iter = k then .error .schedulerFailed else exSched v

/-- hypotheses of `ledger_invariant_resume(_crash)` on a concrete instance, for a crash in period 2 (an EVENT period:
    x leaves A, y arrives on A; the events have been applied when the scheduler raises) and in period 1: the first
    run aborts with `SchedulerFailed` at `iteration = k` with the period's events applied (y already on A) and nothing
    recorded for period `k`; the resumed run completes with the rates, energies, battery charges, peak and occupancy log
    of the uninterrupted run; the peak 14 was reached BEFORE the interruption of period 2 (7 + 7 in period 1) -/
example :
    (Sim.run exCfg (exCrash 2) 8 (Sim.init exCfg)).2 = some .schedulerFailed ∧
    (Sim.run exCfg (exCrash 2) 8 (Sim.init exCfg)).1.core.iter = 2 ∧
    ((Sim.run exCfg (exCrash 2) 8 (Sim.init exCfg)).1.core.occ "A").map (·.id) = some "y" ∧
    (Sim.run exCfg (exCrash 2) 8 (Sim.init exCfg)).1.rates.rows = [[7, 7, 0, 0], [0, 7, 0, 0]] ∧
    (Sim.run exCfg (exCrash 2) 8 (Sim.init exCfg)).1.peak = 14 ∧
    (Sim.run exCfg exSched 8 (Sim.run exCfg (exCrash 2) 8 (Sim.init exCfg)).1).2 = none ∧
    (Sim.run exCfg exSched 8 (Sim.run exCfg (exCrash 2) 8 (Sim.init exCfg)).1).1.rates.rows
      = [[7, 7, 2, 0], [0, 7, 15/2, 0]] ∧
    (Sim.run exCfg exSched 8 (Sim.run exCfg (exCrash 2) 8 (Sim.init exCfg)).1).1.evs.map (·.delivered)
      = [14, 2, 29/4] ∧
    (Sim.run exCfg exSched 8 (Sim.run exCfg (exCrash 2) 8 (Sim.init exCfg)).1).1.evs.map (·.batt.charge)
      = [19, 10, 37/4] ∧
    (Sim.run exCfg exSched 8 (Sim.run exCfg (exCrash 2) 8 (Sim.init exCfg)).1).1.peak = 14 ∧
    (Sim.run exCfg exSched 8 (Sim.run exCfg (exCrash 2) 8 (Sim.init exCfg)).1).1.occLog =
      [[some "x", none], [some "x", some "z"], [some "y", some "z"], [none, none]] ∧
    (Sim.run exCfg (exCrash 1) 8 (Sim.init exCfg)).2 = some .schedulerFailed ∧
    (Sim.run exCfg exSched 8 (Sim.run exCfg (exCrash 1) 8 (Sim.init exCfg)).1).1.evs.map (·.delivered)
      = [14, 2, 29/4] := by
  decide +kernel

/-- … so the crash state and the resumed final state are `Resumed` states (two calls), and a simulator that is
    interrupted TWICE (periods 1 and 2) and resumed twice is one too (three calls) -/
example : Resumed exCfg (Sim.run exCfg exSched 8 (Sim.run exCfg (exCrash 2) 8 (Sim.init exCfg)).1).1 := by
  refine Resumed.call exSched 8 (err := (Sim.run exCfg exSched 8 (Sim.run exCfg (exCrash 2) 8 (Sim.init exCfg)).1).2)
    (Resumed.call (exCrash 2) 8 (err := (Sim.run exCfg (exCrash 2) 8 (Sim.init exCfg)).2) Resumed.init rfl ?_) rfl ?_
  · intro e he
    have : (Sim.run exCfg (exCrash 2) 8 (Sim.init exCfg)).2 = some .schedulerFailed := by decide +kernel
    rw [this] at he; cases he; exact schedulerFailed_not_applyErr
  · intro e he
    have : (Sim.run exCfg exSched 8 (Sim.run exCfg (exCrash 2) 8 (Sim.init exCfg)).1).2 = none := by decide +kernel
    rw [this] at he; cases he

example :
    (Sim.run exCfg (exCrash 2) 8 (Sim.run exCfg (exCrash 1) 8 (Sim.init exCfg)).1).2 = some .schedulerFailed ∧
    (Sim.run exCfg exSched 8 (Sim.run exCfg (exCrash 2) 8 (Sim.run exCfg (exCrash 1) 8 (Sim.init exCfg)).1).1).2 = none ∧
    (Sim.run exCfg exSched 8 (Sim.run exCfg (exCrash 2) 8 (Sim.run exCfg (exCrash 1) 8 (Sim.init exCfg)).1).1).1.rates.rows
      = [[7, 7, 2, 0], [0, 7, 15/2, 0]] := by
  decide +kernel

/-- the exclusion is necessary: stations are served in registration order (A, then B); with a pilot B's EVSE refuses
    (33 A > 32 A), x on A has already charged at 7 A for period 0 when `InvalidRateError` aborts the period, and
    nothing is recorded — the invariant's `sess` clause fails in that state (7 kWh delivered, recorded sum 0) -/
example :
    (Sim.run exCfg (fun _ => .ok [("A", [16]), ("B", [33])]) 8 (Sim.init exCfg)).2 = some .invalidRate ∧
    ApplyErr EventCore.Err.invalidRate ∧
    (Sim.run exCfg (fun _ => .ok [("A", [16]), ("B", [33])]) 8 (Sim.init exCfg)).1.evs.map (·.delivered) = [7, 0, 0] ∧
    (Sim.run exCfg (fun _ => .ok [("A", [16]), ("B", [33])]) 8 (Sim.init exCfg)).1.rates.rows = [[0, 0, 0], [0, 0, 0]] ∧
    (Sim.run exCfg (fun _ => .ok [("A", [16]), ("B", [33])]) 8 (Sim.init exCfg)).1.core.iter = 0 := by
  decide +kernel

/-- hypothesis `pending = []` of `session_energy_interval_complete_resumed` on the resumed run above -/
example : (Sim.run exCfg exSched 8 (Sim.run exCfg (exCrash 2) 8 (Sim.init exCfg)).1).1.core.pending = [] := by
  decide +kernel

end simex

end Acn.C02
