/-
  C01 — the other legitimate ways of putting the queue and the simulator together
  (model `AcnModel/SimAssemble.lean`, lemmas `AcnProofs/Lemmas/EventCoreAssemble.lean`).

  The theorems of `AcnProofs/C01.lean` start from `initQ`: every event is in the queue when the `Simulator` is
  constructed, inserted in the order `initPending`.  Here: the queue may hold ANY part `first` of the events at
  construction (nothing: `first = []`), the rest `later` is added to the same queue object afterwards, both in any
  order (`(first ++ later).Perm (initPending cfg)`), and `run()` may be called again any number of times on the
  finished simulator.  C01 holds unchanged, for every queue implementation meeting C11's specification and in
  particular for CPython's array heap.

  NOT proved (covered by the correspondence only): batches handed over between two `run()` calls.
-/
import AcnProofs.C01
import AcnProofs.Lemmas.EventCoreAssemble

namespace Acn.C01
open Acn Acn.EventCore

/-- `run_terminates_any_queue` for a simulator assembled in any way before `run()`: constructed on a queue
    holding `first`, `later` added afterwards; any split, any insertion order -/
theorem run_terminates_assembled {cfg : Cfg} (hv : Valid cfg) {ops : QOps} {good : List Event → Prop}
    (hq : ops.Ok good) {sched apply : Core → Option Err} (hs : ∀ c, sched c = none)
    (ha : ∀ c, apply c = none) {first later : List Event} (hp : (first ++ later).Perm (initPending cfg))
    (n : Nat) (hn : horizon cfg ≤ n) :
    ∃ c, runQ ops cfg sched apply n (assembled ops cfg first later) = (c, none) ∧ c.pending = [] ∧
      c.resolve = false ∧ c.iter = horizon cfg ∧ Inv cfg (horizon cfg) c := by
  obtain ⟨h0, g0⟩ := assembled_inv hv hq hp
  obtain ⟨c, hr, hI⟩ := runQ_spec hv hq hs ha n 0 (assembled ops cfg first later) h0 g0 (Nat.zero_le _)
  rw [Nat.min_eq_right (by omega)] at hI
  have hpe : c.pending = [] := by
    by_contra h
    exact absurd ((pending_ne_nil_iff hv hI).1 h) (lt_irrefl _)
  exact ⟨c, hr, hpe, hI.resolve, hI.iter, hI⟩

/-- queue empty at construction, everything added afterwards, in reverse order, on the real heap -/
example : ∃ c, runQ heapQ cfg0 noFail noFail 50 (assembled heapQ cfg0 [] (initPending cfg0).reverse) = (c, none) ∧
    c.pending = [] ∧ c.iter = 9 := by
  obtain ⟨c, h1, h2, _, h4, _⟩ := run_terminates_assembled cfg0_valid heapQ_ok (sched := noFail) (apply := noFail)
    (fun _ => rfl) (fun _ => rfl) (first := []) (later := (initPending cfg0).reverse)
    (by simp) 50 (by decide)
  exact ⟨c, h1, h2, by rw [h4]; decide⟩

section sim
variable {K : Type} [Add K] [Sub K] [Mul K] [Div K] [Neg K] [LT K] [LE K]
  [DecidableLT K] [DecidableLE K] [OfNat K 0] [OfNat K 1] [NatCast K] [HasExp K]

/-- C01 for the full model over CPython's array heap, assembled in any way (what the C01 driver executes for a
    request with an `assembly` field whose later stages are empty): constructor on a queue holding `first`
    (the matrices get THAT width), `later` added before `run()`, then `k` further `run()` calls on the finished
    simulator.  If nothing raises: the first `run()` ends after `horizon` periods with the queue empty, every
    station vacant, one plug-in (at arrival) and one unplug (at departure) per session, history key-sorted —
    and the further calls change nothing. -/
theorem sim_assembled_heap_C01 (cfg : Sim.Cfg K) (sched : Sim.View K → Except Err (Sim.Schedule K))
    (hv : Valid cfg.core) {first later : List Event} (hp : (first ++ later).Perm (initPending cfg.core))
    (n : Nat) (hn : horizon cfg.core ≤ n) (k : Nat)
    (h : (Sim.runStages heapQ cfg sched n (later :: List.replicate k []) (Sim.initOn heapQ cfg first)).2 = none) :
    Sim.runStages heapQ cfg sched n (later :: List.replicate k []) (Sim.initOn heapQ cfg first) =
      Sim.runQ heapQ cfg sched n (Sim.addEvents heapQ later (Sim.initOn heapQ cfg first)) ∧
    let c := (Sim.runStages heapQ cfg sched n (later :: List.replicate k []) (Sim.initOn heapQ cfg first)).1.core
    c.pending = [] ∧ c.iter = horizon cfg.core ∧ (∀ st, c.occ st = none) ∧
    (∀ x ∈ cfg.core.sessions,
      c.eventHist.filter (fun e => e.kind == .plugin && e.sess == x.id) = [plugEv x] ∧
      c.eventHist.filter (fun e => e.kind == .unplug && e.sess == x.id) = [unplugEv x]) ∧
    c.eventHist.Pairwise (fun a b => a.keyLe b = true) := by
  rcases hr : Sim.runQ heapQ cfg sched n (Sim.addEvents heapQ later (Sim.initOn heapQ cfg first)) with ⟨s1, _ | e⟩
  · have h1 : (Sim.runQ heapQ cfg sched n (Sim.addEvents heapQ later (Sim.initOn heapQ cfg first))).2 = none := by
      rw [hr]
    have hproj := Sim.runQ_core heapQ cfg sched n _ h1
    rw [Sim.addEvents_initOn_core, hr] at hproj
    obtain ⟨c', hr', hpe, hres, hi, hI⟩ := run_terminates_assembled hv heapQ_ok (sched := noFail) (apply := noFail)
      (fun _ => rfl) (fun _ => rfl) hp n hn
    rw [hr'] at hproj
    have hc : c' = s1.core := congrArg Prod.fst hproj
    subst hc
    have hg : EventCore.guard s1.core = false := by simp [EventCore.guard, hpe, hres]
    have hst : Sim.runStages heapQ cfg sched n (later :: List.replicate k []) (Sim.initOn heapQ cfg first) =
        (s1, none) := by
      simp only [Sim.runStages, hr]
      exact Sim.runStages_replicate_nil heapQ cfg sched n hg k
    rw [hst]
    exact ⟨rfl, hpe, hi, all_vacant_at_end hI,
      fun x hx => ⟨plugged_once hv hI x hx, unplugged_once hv hI x hx⟩, history_sorted hI⟩
  · exfalso
    simp [Sim.runStages, hr] at h

end sim

section simex
local instance : HasExp ℚ := ⟨fun x => x⟩

/-- stations A and B; x on A during [0,2), y on A during [2,3) (back-to-back reuse), z on B during [1,3), a
    recompute event in period 2 -/
def asmCfg : Sim.Cfg ℚ :=
  { stations := [⟨"A", .cont 0 (some 32), 208⟩, ⟨"B", .finite [0, 8, 16], 240⟩],
    evs := [{ session := "x", station := "A", arrival := 0, departure := 2, estDeparture := 2, requested := 3,
              delivered := 0, rate := 0, batt := ⟨40, 5, 5, 7, 0, false, 0, 0, .continuous⟩ },
            { session := "y", station := "A", arrival := 2, departure := 3, estDeparture := 3, requested := 9,
              delivered := 0, rate := 0, batt := ⟨10, 8, 8, 7, 0, false, 0, 0, .continuous⟩ },
            { session := "z", station := "B", arrival := 1, departure := 3, estDeparture := 3, requested := 5,
              delivered := 0, rate := 0, batt := ⟨20, 2, 2, 4, 0, false, 0, 0, .continuous⟩ }],
    recomputes := [(2, "r0")], maxRecompute := some 1, period := 5, atolCont := 1 / 1000, atolDeadband := 1 / 1000,
    atolFinite := 1 / 1000, fullEps := 1 / 1000, noise := [] }

def asmSched : Sim.View ℚ → Except Err (Sim.Schedule ℚ) := fun _ => .ok [("A", [16, 16]), ("B", [8, 8])]

/-- the hypotheses of `sim_assembled_heap_C01` are satisfiable: the queue holds only z's plug-in at construction
    (matrices of width 2), the other three events are added afterwards in reverse order, `run()` is called three
    times; nothing raises, and the run ends after period 3 -/
example : Valid asmCfg.core ∧
    ([plugEv ⟨"z", "B", 1, 3⟩] ++ [recEv (2, "r0"), plugEv ⟨"y", "A", 2, 3⟩, plugEv ⟨"x", "A", 0, 2⟩]).Perm
      (initPending asmCfg.core) ∧
    (Sim.initOn heapQ asmCfg [plugEv ⟨"z", "B", 1, 3⟩]).pilots.width = 2 ∧
    (Sim.runStages heapQ asmCfg asmSched 10
      ([recEv (2, "r0"), plugEv ⟨"y", "A", 2, 3⟩, plugEv ⟨"x", "A", 0, 2⟩] :: List.replicate 2 [])
      (Sim.initOn heapQ asmCfg [plugEv ⟨"z", "B", 1, 3⟩])).2 = none ∧
    (Sim.runStages heapQ asmCfg asmSched 10
      ([recEv (2, "r0"), plugEv ⟨"y", "A", 2, 3⟩, plugEv ⟨"x", "A", 0, 2⟩] :: List.replicate 2 [])
      (Sim.initOn heapQ asmCfg [plugEv ⟨"z", "B", 1, 3⟩])).1.core.iter = 4 := by
  refine ⟨by constructor <;> simp [asmCfg, Sim.Cfg.core, Sim.sessionOf], by decide +kernel, by decide +kernel,
    by decide +kernel, by decide +kernel⟩

end simex

end Acn.C01
