/-
  C01 — every session is plugged in and unplugged exactly once; `run()` terminates.

  Property theorems only (helper lemmas: `AcnProofs/Lemmas/EventCore{Basic,Inv,Run,Sim}.lean`).
  Model: `AcnModel/EventCore.lean` (the run loop of `Simulator.run` without numerics) and its
  embedding into the full simulator model `AcnModel/Sim.lean`.

  Everything is proved for EVERY static configuration satisfying `Valid`, every `max_recompute`,
  every scheduler / pilot-application parameter that does not raise (`hs`, `ha`), by induction
  over periods.  Which of several equal-key events the heap hands out first is irrelevant: the
  period's events are processed as *a* key-sorted list (the stable sort of the model is one such).
-/
import AcnProofs.Lemmas.EventCoreRun
import AcnProofs.Lemmas.EventCoreSim
import AcnProofs.Lemmas.EventCoreQueue
import AcnProofs.Lemmas.EventCoreNet
import AcnProofs.Lemmas.EventCoreNetH
import AcnProofs.Lemmas.EventCoreSimQ

namespace Acn.C01
open Acn Acn.EventCore

/-! ### regenerated data and the heap key -/

/-- `Unplug < Plugin < Recompute` for the precedences found in events/event.py NOW -/
theorem prec_order :
    EvKind.unplug.prec < EvKind.plugin.prec ∧ EvKind.plugin.prec < EvKind.recompute.prec :=
  ⟨prec_unplug_lt_plugin, prec_plugin_lt_recompute⟩

/-- the tuple comparison `(timestamp, event)` of the heap is a strict weak order (irreflexive,
    transitive, incomparability transitive) and is the lexicographic order on
    `(timestamp, precedence)` -/
theorem keyLt_strictWeakOrder :
    (∀ a : Event, a.keyLt a = false) ∧
    (∀ a b c : Event, a.keyLt b = true → b.keyLt c = true → a.keyLt c = true) ∧
    (∀ a b c : Event, a.keyEq b = true → b.keyEq c = true → a.keyEq c = true) ∧
    (∀ a b : Event, a.keyLt b = true ↔ a.ts < b.ts ∨ (a.ts = b.ts ∧ a.kind.prec < b.kind.prec)) := by
  refine ⟨?_, ?_, ?_, keyLt_iff⟩
  · intro a; simp [Event.keyLt]
  · intro a b c h1 h2
    rw [keyLt_iff] at *
    rcases h1 with h1 | ⟨h1, h1'⟩ <;> rcases h2 with h2 | ⟨h2, h2'⟩
    · exact Or.inl (by omega)
    · exact Or.inl (by omega)
    · exact Or.inl (by omega)
    · exact Or.inr ⟨by omega, lt_trans h1' h2'⟩
  · intro a b c h1 h2
    have e1 : ∀ x y : Event, x.keyEq y = true ↔ x.keyLe y = true ∧ y.keyLe x = true := by
      intro x y; simp [Event.keyEq, Event.keyLe, and_comm]
    rw [e1] at *
    exact ⟨EventCore.keyLe_trans h1.1 h2.1, EventCore.keyLe_trans h2.2 h1.2⟩

example : (⟨3, .unplug, "a"⟩ : Event).keyLt ⟨3, .plugin, "b"⟩ = true ∧
    (⟨3, .plugin, "b"⟩ : Event).keyLt ⟨3, .recompute, "r"⟩ = true ∧
    (⟨2, .recompute, "r"⟩ : Event).keyLt ⟨3, .unplug, "a"⟩ = true := by
  simp [keyLt_iff, EvKind.prec, Gen.precUnplug, Gen.precPlugin, Gen.precRecompute]; norm_num

/-! ### a concrete non-trivial valid scenario (used by the `example`s below)

  two stations; `a`,`b`,`c` reuse station `S0` back to back (3 = 3, 5 = 5); `d` arrives on `S1` in
  the period in which `a` leaves and `b` arrives; two recomputes, one in that same period, one
  after the last departure. -/
def cfg0 : Cfg :=
  { stations := ["S0", "S1"],
    sessions := [⟨"b", "S0", 3, 5⟩, ⟨"a", "S0", 0, 3⟩, ⟨"d", "S1", 3, 4⟩, ⟨"c", "S0", 5, 6⟩],
    recomputes := [(3, "r0"), (8, "r1")],
    maxRecompute := some 2 }

theorem cfg0_valid : Valid cfg0 := by
  constructor <;> simp [cfg0]

/-! ### the loop invariant -/

/-- the constructor's state satisfies the invariant of period 0 -/
theorem init_Inv {cfg : Cfg} (hv : Valid cfg) : Inv cfg 0 (init cfg) := init_inv hv

example : Inv cfg0 0 (init cfg0) := init_Inv cfg0_valid

/-- One trip round the `while` loop, started in a state satisfying the invariant of period `t`,
    raises nothing (in particular never `StationOccupied` / `KeyError`: the previous occupant of a
    reused space has `departure ≤ t` and its unplug event precedes every plug-in of the period)
    and establishes the invariant of period `t + 1`:
    pending = exactly the future plug-ins and recomputes plus the unplugs of the connected
    sessions; `occ st = some x ↔ x.station = st ∧ arrival < t+1 ≤ departure`; `iter = t+1`;
    `event_history` = the key-sorted, duplicate-free list of all events with timestamp `≤ t`. -/
theorem body_preserves_Inv {cfg : Cfg} (hv : Valid cfg) {sched apply : Core → Option Err}
    (hs : ∀ c, sched c = none) (ha : ∀ c, apply c = none) {t : Nat} {c : Core} (hI : Inv cfg t c) :
    ∃ c', body cfg sched apply c = (c', none) ∧ Inv cfg (t + 1) c' :=
  body_ok hv hs ha hI

example : ∃ c', body cfg0 noFail noFail (init cfg0) = (c', none) ∧ Inv cfg0 1 c' :=
  body_preserves_Inv cfg0_valid (fun _ => rfl) (fun _ => rfl) (init_Inv cfg0_valid)

/-- events are handled in the period of their timestamp: what one period adds to the history is
    exactly the set of events whose timestamp is that period -/
theorem processed_in_own_period {cfg : Cfg} (hv : Valid cfg) {sched apply : Core → Option Err}
    (hs : ∀ c, sched c = none) (ha : ∀ c, apply c = none) {t : Nat} {c : Core} (hI : Inv cfg t c) :
    ∃ c', body cfg sched apply c = (c', none) ∧
      ∀ e, (e ∈ c'.eventHist ∧ e ∉ c.eventHist) ↔ Cur cfg t e := by
  obtain ⟨c', hb, hI'⟩ := body_ok hv hs ha hI
  refine ⟨c', hb, fun e => ?_⟩
  have hc : ((t + 1 : Nat) : Int) = (t : Int) + 1 := by push_cast; rfl
  rw [hI'.hist_mem, hI.hist_mem, hc, done_succ hv]
  constructor
  · rintro ⟨h | h, hn⟩
    · exact absurd h hn
    · exact h
  · intro h
    refine ⟨Or.inr h, fun hd => ?_⟩
    have := hd.ts_lt; have := h.ts_eq; omega

/-! ### termination and the final state -/

/-- `horizon cfg` is one more than the largest departure / recompute timestamp (0 if there is no
    event at all) -/
theorem horizon_spec (cfg : Cfg) :
    (∀ x ∈ cfg.sessions, x.departure < horizon cfg) ∧ (∀ r ∈ cfg.recomputes, r.1 < horizon cfg) ∧
    ((cfg.sessions = [] ∧ cfg.recomputes = [] ∧ horizon cfg = 0) ∨
     (∃ x ∈ cfg.sessions, (horizon cfg : Int) = x.departure + 1 ∨ (horizon cfg : Int) ≤ 0) ∨
     (∃ r ∈ cfg.recomputes, (horizon cfg : Int) = r.1 + 1 ∨ (horizon cfg : Int) ≤ 0)) := by
  have hm := neg_one_le_maxTs cfg
  have hh : (horizon cfg : Int) = maxTs cfg + 1 := by unfold horizon; omega
  refine ⟨fun x hx => ?_, fun r hr => ?_, ?_⟩
  · have := dep_le_maxTs hx; omega
  · have := rec_le_maxTs hr; omega
  · rcases foldr_max_mem (tsList cfg) (-1) with h | h
    · rcases hS : cfg.sessions with _ | ⟨x, xs⟩
      · rcases hR : cfg.recomputes with _ | ⟨r, rs⟩
        · exact Or.inl ⟨rfl, rfl, by unfold horizon maxTs; rw [h]; rfl⟩
        · exact Or.inr (Or.inr ⟨r, by simp, Or.inr (by unfold maxTs at hh; rw [h] at hh; omega)⟩)
      · exact Or.inr (Or.inl ⟨x, by simp, Or.inr (by unfold maxTs at hh; rw [h] at hh; omega)⟩)
    · rcases List.mem_append.1 h with h | h
      · obtain ⟨x, hx, hxe⟩ := List.mem_map.1 h
        exact Or.inr (Or.inl ⟨x, hx, Or.inl (by rw [hh]; unfold maxTs; rw [← hxe])⟩)
      · obtain ⟨r, hr, hre⟩ := List.mem_map.1 h
        exact Or.inr (Or.inr ⟨r, hr, Or.inl (by rw [hh]; unfold maxTs; rw [← hre])⟩)

/-- `run()` returns (no error) after exactly `horizon cfg` periods — one period after the last
    event — with the queue empty, no recompute pending, for every fuel `n ≥ horizon cfg`; in the
    final state the invariant of period `horizon cfg` holds. -/
theorem run_terminates {cfg : Cfg} (hv : Valid cfg) {sched apply : Core → Option Err}
    (hs : ∀ c, sched c = none) (ha : ∀ c, apply c = none) (n : Nat) (hn : horizon cfg ≤ n) :
    ∃ c, run cfg sched apply n (init cfg) = (c, none) ∧ c.pending = [] ∧ c.resolve = false ∧
      guard c = false ∧ c.iter = horizon cfg ∧ Inv cfg (horizon cfg) c := by
  obtain ⟨c, hr, hI⟩ := run_spec hv hs ha n 0 (init cfg) (init_inv hv) (Nat.zero_le _)
  rw [Nat.min_eq_right (by omega)] at hI
  have hp : c.pending = [] := by
    by_contra h
    exact absurd ((pending_ne_nil_iff hv hI).1 h) (lt_irrefl _)
  exact ⟨c, hr, hp, hI.resolve, by simp [EventCore.guard, hp, hI.resolve], hI.iter, hI⟩

/-- the fuel used by the compiled drivers (`fuelFor`) suffices: the model run that is compared
    with the implementation has really terminated -/
theorem run_terminates_driver_fuel {cfg : Cfg} (hv : Valid cfg) {sched apply : Core → Option Err}
    (hs : ∀ c, sched c = none) (ha : ∀ c, apply c = none) :
    ∃ c, run cfg sched apply (fuelFor cfg) (init cfg) = (c, none) ∧ guard c = false ∧ c.iter = horizon cfg := by
  obtain ⟨c, h1, _, _, h2, h3, _⟩ := run_terminates hv hs ha (fuelFor cfg) (horizon_le_fuelFor cfg)
  exact ⟨c, h1, h2, h3⟩

/-- the state at the head of period `t` (`run` with fuel `t`) satisfies the invariant -/
theorem inv_at_period {cfg : Cfg} (hv : Valid cfg) {sched apply : Core → Option Err}
    (hs : ∀ c, sched c = none) (ha : ∀ c, apply c = none) (t : Nat) (ht : t ≤ horizon cfg) :
    ∃ c, run cfg sched apply t (init cfg) = (c, none) ∧ Inv cfg t c := by
  obtain ⟨c, hr, hI⟩ := run_spec hv hs ha t 0 (init cfg) (init_inv hv) (Nat.zero_le _)
  rw [Nat.zero_add, Nat.min_eq_left ht] at hI
  exact ⟨c, hr, hI⟩

example : horizon cfg0 = 9 := by decide
example : ∃ c, run cfg0 noFail noFail 50 (init cfg0) = (c, none) ∧ c.pending = [] ∧ c.iter = 9 := by
  obtain ⟨c, h1, h2, _, _, h3, _⟩ := run_terminates cfg0_valid (sched := noFail) (apply := noFail)
    (fun _ => rfl) (fun _ => rfl) 50 (by decide)
  exact ⟨c, h1, h2, by rw [h3]; decide⟩

section final
variable {cfg : Cfg} (hv : Valid cfg) {c : Core} (hI : Inv cfg (horizon cfg) c)
include hv hI

/-- exactly one plug-in entry per session in `event_history`, and it carries the arrival time -/
theorem plugged_once (x : Session) (hx : x ∈ cfg.sessions) :
    c.eventHist.filter (fun e => e.kind == .plugin && e.sess == x.id) = [plugEv x] := by
  have hd := (horizon_spec cfg).1 x hx
  have ha := hv.arr_lt_dep x hx
  apply eq_singleton_of_nodup (hI.hist_nodup.filter _)
  · intro e he
    obtain ⟨hm, hp⟩ := List.mem_filter.1 he
    simp only [Bool.and_eq_true, beq_iff_eq] at hp
    rcases (hI.hist_mem e).1 hm with ⟨y, hy, rfl, _⟩ | ⟨y, _, rfl, _⟩ | ⟨r, _, rfl, _⟩
    · rw [id_inj hv hy hx hp.2]
    · simp [unplugEv] at hp
    · simp [recEv] at hp
  · exact List.mem_filter.2 ⟨(hI.hist_mem _).2 (Or.inl ⟨x, hx, rfl, by omega⟩), by simp [plugEv]⟩

/-- exactly one unplug entry per session, and it carries the departure time -/
theorem unplugged_once (x : Session) (hx : x ∈ cfg.sessions) :
    c.eventHist.filter (fun e => e.kind == .unplug && e.sess == x.id) = [unplugEv x] := by
  have hd := (horizon_spec cfg).1 x hx
  apply eq_singleton_of_nodup (hI.hist_nodup.filter _)
  · intro e he
    obtain ⟨hm, hp⟩ := List.mem_filter.1 he
    simp only [Bool.and_eq_true, beq_iff_eq] at hp
    rcases (hI.hist_mem e).1 hm with ⟨y, _, rfl, _⟩ | ⟨y, hy, rfl, _⟩ | ⟨r, _, rfl, _⟩
    · simp [plugEv] at hp
    · rw [id_inj hv hy hx hp.2]
    · simp [recEv] at hp
  · exact List.mem_filter.2 ⟨(hI.hist_mem _).2 (Or.inr (Or.inl ⟨x, hx, rfl, by omega⟩)), by simp [unplugEv]⟩

omit hv in
/-- `event_history` is ordered by `(timestamp, precedence)`: non-decreasing time, and within one
    period departures before arrivals before recomputes -/
theorem history_sorted : c.eventHist.Pairwise (fun a b => a.keyLe b = true) := hI.hist_sorted

/-- `event_history` holds every event of the scenario exactly once and nothing else -/
theorem history_complete :
    c.eventHist.Perm (cfg.sessions.map plugEv ++ cfg.sessions.map unplugEv ++ cfg.recomputes.map recEv) := by
  have hS := List.Nodup.of_map _ hv.ids_nodup
  have hR := List.Nodup.of_map _ hv.tags_nodup
  refine (List.perm_ext_iff_of_nodup hI.hist_nodup ?_).2 ?_
  · refine List.nodup_append.2 ⟨List.nodup_append.2 ⟨?_, ?_, ?_⟩, ?_, ?_⟩
    · exact (List.nodup_map_iff_inj_on hS).2 fun x hx y hy h => plugEv_inj hv hx hy h
    · exact (List.nodup_map_iff_inj_on hS).2 fun x hx y hy h => unplugEv_inj hv hx hy h
    · intro a ha b hb
      obtain ⟨x, _, rfl⟩ := List.mem_map.1 ha
      obtain ⟨y, _, rfl⟩ := List.mem_map.1 hb
      simp
    · exact (List.nodup_map_iff_inj_on hR).2 fun x hx y hy h => recEv_inj hv hx hy h
    · intro a ha b hb
      obtain ⟨r, _, rfl⟩ := List.mem_map.1 hb
      rcases List.mem_append.1 ha with ha | ha <;> obtain ⟨x, _, rfl⟩ := List.mem_map.1 ha <;> simp
  · intro e
    rw [hI.hist_mem e]
    simp only [List.mem_append, List.mem_map]
    constructor
    · rintro (⟨x, hx, rfl, _⟩ | ⟨x, hx, rfl, _⟩ | ⟨r, hr, rfl, _⟩)
      · exact Or.inl (Or.inl ⟨x, hx, rfl⟩)
      · exact Or.inl (Or.inr ⟨x, hx, rfl⟩)
      · exact Or.inr ⟨r, hr, rfl⟩
    · rintro ((⟨x, hx, rfl⟩ | ⟨x, hx, rfl⟩) | ⟨r, hr, rfl⟩)
      · have := (horizon_spec cfg).1 x hx; have := hv.arr_lt_dep x hx
        exact Or.inl ⟨x, hx, rfl, by omega⟩
      · exact Or.inr (Or.inl ⟨x, hx, rfl, (horizon_spec cfg).1 x hx⟩)
      · exact Or.inr (Or.inr ⟨r, hr, rfl, (horizon_spec cfg).2.1 r hr⟩)

/-- the keys of `ev_history` are the session ids, in plug-in order -/
theorem ev_history_keys :
    c.evHist = (c.eventHist.filter (fun e => e.kind == .plugin)).map (·.sess) ∧
    c.evHist.Perm (cfg.sessions.map (·.id)) := by
  refine ⟨hI.evh, ?_⟩
  rw [hI.evh]
  have hp := (history_complete hv hI).filter (fun e => e.kind == .plugin)
  have hf : (cfg.sessions.map plugEv ++ cfg.sessions.map unplugEv ++ cfg.recomputes.map recEv).filter
      (fun e => e.kind == .plugin) = cfg.sessions.map plugEv := by
    simp [List.filter_append, List.filter_map, Function.comp_def, plugEv, unplugEv, recEv]
  rw [hf] at hp
  have := hp.map (·.sess)
  simpa [List.map_map, Function.comp_def, plugEv] using this

omit hv in
/-- every station is vacant when `run()` returns -/
theorem all_vacant_at_end (st : String) : c.occ st = none := by
  rcases h : c.occ st with _ | x
  · rfl
  · obtain ⟨hx, _, _, hd⟩ := (hI.occ st x).1 h
    have := (horizon_spec cfg).1 x hx
    omega

end final

example : ∃ c, run cfg0 noFail noFail 50 (init cfg0) = (c, none) ∧
    c.eventHist.filter (fun e => e.kind == .plugin && e.sess == "b") = [⟨3, .plugin, "b"⟩] ∧
    c.eventHist.filter (fun e => e.kind == .unplug && e.sess == "b") = [⟨5, .unplug, "b"⟩] ∧
    c.occ "S0" = none := by
  obtain ⟨c, h1, _, _, _, _, hI⟩ := run_terminates cfg0_valid (sched := noFail) (apply := noFail)
    (fun _ => rfl) (fun _ => rfl) 50 (by decide)
  exact ⟨c, h1, plugged_once cfg0_valid hI ⟨"b", "S0", 3, 5⟩ (by simp [cfg0]),
    unplugged_once cfg0_valid hI ⟨"b", "S0", 3, 5⟩ (by simp [cfg0]), all_vacant_at_end hI "S0"⟩

/-! ### the connection interval -/

/-- In every period `t` of the run, after the period's events have been processed — the state the
    scheduler sees and in which `update_pilots` applies the pilots (`markInvoked`/`markScheduled`
    do not touch `occ`) — station `st` holds session `x` iff `arrival ≤ t < departure`. -/
theorem connected_iff {cfg : Cfg} (hv : Valid cfg) {sched apply : Core → Option Err}
    (hs : ∀ c, sched c = none) (ha : ∀ c, apply c = none) (t : Nat) (ht : t ≤ horizon cfg) :
    ∃ c c1, run cfg sched apply t (init cfg) = (c, none) ∧ c.iter = t ∧
      eventsStage cfg c = (c1, none) ∧
      ∀ st x, c1.occ st = some x ↔
        x ∈ cfg.sessions ∧ x.station = st ∧ x.arrival ≤ t ∧ (t : Int) < x.departure := by
  obtain ⟨c, hr, hI⟩ := inv_at_period hv hs ha t ht
  obtain ⟨c1, h1, _, _, _, _, hO, _⟩ := eventsStage_ok hv hI
  exact ⟨c, c1, hr, hI.iter, h1, occ_after_events hv hO⟩

example : ∃ c c1, run cfg0 noFail noFail 3 (init cfg0) = (c, none) ∧ eventsStage cfg0 c = (c1, none) ∧
    c1.occ "S0" = some ⟨"b", "S0", 3, 5⟩ ∧ c1.occ "S1" = some ⟨"d", "S1", 3, 4⟩ := by
  obtain ⟨c, c1, h1, _, h2, h3⟩ := connected_iff cfg0_valid (sched := noFail) (apply := noFail)
    (fun _ => rfl) (fun _ => rfl) 3 (by decide)
  exact ⟨c, c1, h1, h2, (h3 _ _).2 (by simp [cfg0]), (h3 _ _).2 (by simp [cfg0])⟩

/-! ### independence of the queue implementation (ties C01 to C11)

  `bodyQ` / `runQ` (`AcnModel/EventCoreQ.lean`) are the same loop over an arbitrary queue
  implementation `ops`.  `QOps.Ok ops good` says that `ops` meets C11's queue specification
  (`QSpec.Cur` for `get_current_events`, `add_event` adds exactly the event) up to the order in
  which it stores the pending events.  All theorems above are about the final / loop-head state
  through `Inv`, so they hold verbatim for every such queue — in particular for the
  transcription of CPython's array heap (`heapQ`), whose choice among equal keys is the real one. -/

/-- the queue of the model is an instance of C11's specification: `popCurrent` is a
    `get_current_events` step and the push of the unplug event an `add_event` step -/
theorem canonical_queue_meets_spec (s : QSpec.State) (t : Nat) (x : Session) :
    QSpec.Step s (.getCurrent t) (.events (popCurrent t s.pending).1)
      { pending := (popCurrent t s.pending).2, timestep := t } ∧
    QSpec.Step s (.add (unplugEv x)) .unit { s with pending := s.pending ++ [unplugEv x] } :=
  ⟨popCurrent_step s t, push_step s x⟩

/-- `body_preserves_Inv` for every queue implementation that meets the specification -/
theorem body_preserves_Inv_any_queue {cfg : Cfg} (hv : Valid cfg) {ops : QOps} {good : List Event → Prop}
    (hq : ops.Ok good) {sched apply : Core → Option Err} (hs : ∀ c, sched c = none)
    (ha : ∀ c, apply c = none) {t : Nat} {c : Core} (hI : Inv cfg t c) (hG : good c.pending) :
    ∃ c', bodyQ ops cfg sched apply c = (c', none) ∧ Inv cfg (t + 1) c' ∧ good c'.pending :=
  bodyQ_ok hv hq hs ha hI hG

/-- `run_terminates` for every queue implementation that meets the specification: the final state
    satisfies `Inv cfg (horizon cfg)`, hence `plugged_once`, `unplugged_once`, `history_sorted`,
    `history_complete`, `ev_history_keys`, `all_vacant_at_end` apply to it as they stand -/
theorem run_terminates_any_queue {cfg : Cfg} (hv : Valid cfg) {ops : QOps} {good : List Event → Prop}
    (hq : ops.Ok good) {sched apply : Core → Option Err} (hs : ∀ c, sched c = none)
    (ha : ∀ c, apply c = none) (n : Nat) (hn : horizon cfg ≤ n) :
    ∃ c, runQ ops cfg sched apply n (initQ ops cfg) = (c, none) ∧ c.pending = [] ∧ c.resolve = false ∧
      c.iter = horizon cfg ∧ Inv cfg (horizon cfg) c := by
  obtain ⟨h0, g0⟩ := initQ_inv hv hq
  obtain ⟨c, hr, hI⟩ := runQ_spec hv hq hs ha n 0 (initQ ops cfg) h0 g0 (Nat.zero_le _)
  rw [Nat.min_eq_right (by omega)] at hI
  have hp : c.pending = [] := by
    by_contra h
    exact absurd ((pending_ne_nil_iff hv hI).1 h) (lt_irrefl _)
  exact ⟨c, hr, hp, hI.resolve, hI.iter, hI⟩

/-- C01 with CPython's `heapq` (array heap of `AcnModel/Queue.lean`, proved to refine the queue
    specification in C11) as the event queue: the real tie order, not a canonical one -/
theorem run_terminates_real_heap {cfg : Cfg} (hv : Valid cfg) {sched apply : Core → Option Err}
    (hs : ∀ c, sched c = none) (ha : ∀ c, apply c = none) (n : Nat) (hn : horizon cfg ≤ n) :
    ∃ c, runQ heapQ cfg sched apply n (initQ heapQ cfg) = (c, none) ∧ c.pending = [] ∧
      c.iter = horizon cfg ∧ (∀ st, c.occ st = none) ∧
      (∀ x ∈ cfg.sessions,
        c.eventHist.filter (fun e => e.kind == .plugin && e.sess == x.id) = [plugEv x] ∧
        c.eventHist.filter (fun e => e.kind == .unplug && e.sess == x.id) = [unplugEv x]) ∧
      c.eventHist.Pairwise (fun a b => a.keyLe b = true) := by
  obtain ⟨c, hr, hp, _, hi, hI⟩ := run_terminates_any_queue hv heapQ_ok hs ha n hn
  exact ⟨c, hr, hp, hi, all_vacant_at_end hI,
    fun x hx => ⟨plugged_once hv hI x hx, unplugged_once hv hI x hx⟩, history_sorted hI⟩

/-- the generalised loop instantiated with the canonical queue is the loop of `EventCore.lean` -/
theorem runQ_canonical_eq_run (cfg : Cfg) (sched apply : Core → Option Err) (n : Nat) (c : Core) :
    runQ canonQ cfg sched apply n c = run cfg sched apply n c := runQ_canon cfg sched apply n c

example : ∃ c, runQ heapQ cfg0 noFail noFail 50 (initQ heapQ cfg0) = (c, none) ∧ c.iter = 9 ∧
    c.eventHist.filter (fun e => e.kind == .plugin && e.sess == "b") = [⟨3, .plugin, "b"⟩] := by
  obtain ⟨c, h1, _, h3, _, h5, _⟩ := run_terminates_real_heap cfg0_valid (sched := noFail) (apply := noFail)
    (fun _ => rfl) (fun _ => rfl) 50 (by decide)
  exact ⟨c, h1, by rw [h3]; decide, (h5 ⟨"b", "S0", 3, 5⟩ (by simp [cfg0])).1⟩

/-! ### independence of the charging network (ties C01 to C19)

  `bodyG` / `runG` (`AcnModel/EventCoreG.lean`) are the same loop with the network operations
  `network.plugin` / `network.unplug` as a parameter (`chargingNet` = `ChargingNetwork`, for which
  `bodyG` is `body`: `bodyG_charging`).  If the network never raises on the scenario's sessions —
  e.g. a stochastic network that assigns the spaces itself — termination, the final iteration and
  everything C01 says about `event_history` hold under `ValidQ`: distinct ids, `0 ≤ arrival <
  departure`; NO per-station non-overlap clause. -/

theorem run_terminates_any_network {σ : Type} {cfg : Cfg} (hq : ValidQ cfg) {ops : QOps}
    {good : List Event → Prop} (hops : ops.Ok good) {net : NetOps σ} {P : σ → Prop}
    (hnet : net.NoFail cfg P) {sched apply : CoreG σ → Option Err} (hs : ∀ g, sched g = none)
    (ha : ∀ g, apply g = none) (net0 : σ) (hN : P net0) (n : Nat) (hn : horizon cfg ≤ n) :
    ∃ g, runG ops net cfg sched apply n (initG ops cfg net0) = (g, none) ∧ g.core.pending = [] ∧
      g.core.resolve = false ∧ g.core.iter = horizon cfg ∧
      -- history_sorted
      g.core.eventHist.Pairwise (fun a b => a.keyLe b = true) ∧
      -- history_complete
      g.core.eventHist.Perm
        (cfg.sessions.map plugEv ++ cfg.sessions.map unplugEv ++ cfg.recomputes.map recEv) ∧
      -- plugged_once / unplugged_once
      (∀ x ∈ cfg.sessions,
        g.core.eventHist.filter (fun e => e.kind == .plugin && e.sess == x.id) = [plugEv x] ∧
        g.core.eventHist.filter (fun e => e.kind == .unplug && e.sess == x.id) = [unplugEv x]) ∧
      g.core.evHist.Perm (cfg.sessions.map (·.id)) := by
  obtain ⟨h0, g0⟩ := initG_inv (σ := σ) hq hops net0
  obtain ⟨g, hr, hI⟩ := runG_spec hq hops hnet hs ha n 0 (initG ops cfg net0) h0 g0 hN (Nat.zero_le _)
  rw [Nat.min_eq_right (by omega)] at hI
  have hp : g.core.pending = [] := by
    by_contra h
    exact absurd ((pendingG_ne_nil_iff hq hI).1 h) (lt_irrefl _)
  have hv' := valid_relabel hq
  have hI' := hI.toInv_at_horizon
  have hc := history_complete hv' hI'
  have hk := (ev_history_keys hv' hI').2
  refine ⟨g, hr, hp, hI.resolve, hI.iter, hI.hist_sorted, ?_, ?_, ?_⟩
  · have e1 : (relabel cfg).sessions.map plugEv = cfg.sessions.map plugEv := by
      simp only [relabel, List.map_map]; exact List.map_congr_left (fun x _ => rfl)
    have e2 : (relabel cfg).sessions.map unplugEv = cfg.sessions.map unplugEv := by
      simp only [relabel, List.map_map]; exact List.map_congr_left (fun x _ => rfl)
    rw [e1, e2] at hc
    exact hc
  · intro x hx
    have hx' : own x ∈ (relabel cfg).sessions := List.mem_map.2 ⟨x, hx, rfl⟩
    exact ⟨plugged_once hv' hI' (own x) hx', unplugged_once hv' hI' (own x) hx'⟩
  · simpa [relabel, List.map_map, Function.comp_def, own] using hk

/-- the two facts C19's `eventCore_history_wellFormed` asks for, for any network that does not
    raise and any conforming queue -/
theorem history_sorted_complete_any_network {σ : Type} {cfg : Cfg} (hq : ValidQ cfg) {ops : QOps}
    {good : List Event → Prop} (hops : ops.Ok good) {net : NetOps σ} {P : σ → Prop}
    (hnet : net.NoFail cfg P) {sched apply : CoreG σ → Option Err} (hs : ∀ g, sched g = none)
    (ha : ∀ g, apply g = none) (net0 : σ) (hN : P net0) (n : Nat) (hn : horizon cfg ≤ n) :
    (runG ops net cfg sched apply n (initG ops cfg net0)).2 = none ∧
    (runG ops net cfg sched apply n (initG ops cfg net0)).1.core.eventHist.Pairwise
      (fun a b => a.keyLe b = true) ∧
    (runG ops net cfg sched apply n (initG ops cfg net0)).1.core.eventHist.Perm
      (cfg.sessions.map plugEv ++ cfg.sessions.map unplugEv ++ cfg.recomputes.map recEv) := by
  obtain ⟨g, hr, _, _, _, h1, h2, _⟩ := run_terminates_any_network hq hops hnet hs ha net0 hN n hn
  rw [hr]; exact ⟨rfl, h1, h2⟩

/-- the same for the loop WITH the per-period hook `post_charging_update` (`runGP`) and a network
    whose invariant is indexed by `event_history` (`NoFailH`: at a plug-in the plug-in event is new,
    at an unplug the plug-in event is in the history) — the form C19 instantiates -/
theorem history_sorted_complete_any_network_H {σ : Type} {cfg : Cfg} (hq : ValidQ cfg) {ops : QOps}
    {good : List Event → Prop} (hops : ops.Ok good) {net : NetOps σ}
    {post : Nat → σ → σ × Option Err} {P : List Event → σ → Prop} (hnet : NoFailH net post cfg P)
    {sched apply : CoreG σ → Option Err} (hs : ∀ g, sched g = none) (ha : ∀ g, apply g = none)
    (net0 : σ) (hN : P [] net0) (n : Nat) (hn : horizon cfg ≤ n) :
    ∃ g, runGP ops net post cfg sched apply n (initG ops cfg net0) = (g, none) ∧ g.core.pending = [] ∧
      g.core.iter = horizon cfg ∧ P g.core.eventHist g.net ∧
      g.core.eventHist.Pairwise (fun a b => a.keyLe b = true) ∧
      g.core.eventHist.Perm
        (cfg.sessions.map plugEv ++ cfg.sessions.map unplugEv ++ cfg.recomputes.map recEv) := by
  obtain ⟨h0, g0⟩ := initG_inv (σ := σ) hq hops net0
  obtain ⟨g, hr, hI, hP⟩ := runGP_spec hq hops hnet hs ha n 0 (initG ops cfg net0) h0 g0 hN (Nat.zero_le _)
  rw [Nat.min_eq_right (by omega)] at hI
  have hp : g.core.pending = [] := by
    by_contra h
    exact absurd ((pendingG_ne_nil_iff hq hI).1 h) (lt_irrefl _)
  have hv' := valid_relabel hq
  have hc := history_complete hv' hI.toInv_at_horizon
  have e1 : (relabel cfg).sessions.map plugEv = cfg.sessions.map plugEv := by
    simp only [relabel, List.map_map]; exact List.map_congr_left (fun x _ => rfl)
  have e2 : (relabel cfg).sessions.map unplugEv = cfg.sessions.map unplugEv := by
    simp only [relabel, List.map_map]; exact List.map_congr_left (fun x _ => rfl)
  rw [e1, e2] at hc
  exact ⟨g, hr, hp, hI.iter, hP, hI.hist_sorted, hc⟩

/-- `ChargingNetwork` + canonical queue: the generalised loop is the loop of `EventCore.lean` -/
theorem bodyG_chargingNet_eq_body (cfg : Cfg) (sched apply : Core → Option Err)
    (g : CoreG (String → Option Session)) :
    (ofG (bodyG canonQ (chargingNet cfg.stations) cfg (fun g => sched (ofG g)) (fun g => apply (ofG g)) g).1,
     (bodyG canonQ (chargingNet cfg.stations) cfg (fun g => sched (ofG g)) (fun g => apply (ofG g)) g).2)
      = body cfg sched apply (ofG g) := bodyG_charging cfg sched apply g

/-- a scenario with OVERLAPPING sessions on one station (not `Valid`) satisfies `ValidQ` -/
def cfg1 : Cfg :=
  { stations := ["S0"], sessions := [⟨"a", "S0", 0, 4⟩, ⟨"b", "S0", 1, 3⟩, ⟨"c", "S0", 1, 4⟩],
    recomputes := [(1, "r0")], maxRecompute := none }

theorem cfg1_validQ : ValidQ cfg1 := by
  constructor <;> simp [cfg1]

/-- a network that admits everybody (state: number of connected EVs) -/
def countingNet : NetOps Nat := { plugin := fun n _ => (n + 1, none), unplug := fun n _ => (n - 1, none) }

example : ∃ g, runG heapQ countingNet cfg1 (fun _ => none) (fun _ => none) 20 (initG heapQ cfg1 0) = (g, none) ∧
    g.core.iter = 5 ∧ g.core.eventHist.Pairwise (fun a b => a.keyLe b = true) := by
  obtain ⟨g, h1, _, _, h3, h4, _⟩ := run_terminates_any_network cfg1_validQ heapQ_ok
    (net := countingNet) (P := fun _ => True)
    ⟨fun _ _ _ _ => ⟨rfl, trivial⟩, fun _ _ _ _ => ⟨rfl, trivial⟩⟩
    (sched := fun _ => none) (apply := fun _ => none) (fun _ => rfl) (fun _ => rfl) 0 trivial 20 (by decide)
  exact ⟨g, h1, by rw [h3]; decide, h4⟩

/-! ### lifting to the full simulator model -/

section sim
variable {K : Type} [Add K] [Sub K] [Mul K] [Div K] [Neg K] [LT K] [LE K]
  [DecidableLT K] [DecidableLE K] [OfNat K 0] [OfNat K 1] [NatCast K] [HasExp K]

/-- PROJECTION LEMMA: one period of the full model (pilot matrix, EVSEs, batteries, rates, peak;
    any carrier, period length, noise stream and scheduler) that raises nothing is exactly one
    period of the event core — the core does not depend on any of the numerics. -/
theorem sim_body_core (cfg : Sim.Cfg K) (sched : Sim.View K → Except Err (Sim.Schedule K)) (s : Sim.State K)
    (h : (Sim.body cfg sched s).2 = none) :
    EventCore.body cfg.core noFail noFail s.core = ((Sim.body cfg sched s).1.core, none) :=
  Sim.body_core cfg sched s h

/-- C01 for the full model: if the scenario is `Valid` and `Sim.run` raises nothing (i.e. the
    scheduler does not fail and returns only schedules the EVSEs accept), then it stops after
    `horizon` periods with the queue empty and every station vacant, and `event_history` holds
    one plug-in (at arrival) and one unplug (at departure) per session, key-sorted. -/
theorem sim_run_C01 (cfg : Sim.Cfg K) (sched : Sim.View K → Except Err (Sim.Schedule K))
    (hv : Valid cfg.core) (n : Nat) (hn : horizon cfg.core ≤ n)
    (h : (Sim.run cfg sched n (Sim.init cfg)).2 = none) :
    let c := (Sim.run cfg sched n (Sim.init cfg)).1.core
    c.pending = [] ∧ c.iter = horizon cfg.core ∧ (∀ st, c.occ st = none) ∧
    (∀ x ∈ cfg.core.sessions,
      c.eventHist.filter (fun e => e.kind == .plugin && e.sess == x.id) = [plugEv x] ∧
      c.eventHist.filter (fun e => e.kind == .unplug && e.sess == x.id) = [unplugEv x]) ∧
    c.eventHist.Pairwise (fun a b => a.keyLe b = true) := by
  intro c
  have hproj := Sim.run_core cfg sched n (Sim.init cfg) h
  obtain ⟨c', hr, hp, _, _, hi, hI⟩ := run_terminates hv (sched := noFail) (apply := noFail)
    (fun _ => rfl) (fun _ => rfl) n hn
  rw [Sim.init_core, hr] at hproj
  have hc : c' = c := congrArg Prod.fst hproj
  subst hc
  exact ⟨hp, hi, all_vacant_at_end hI, fun x hx => ⟨plugged_once hv hI x hx, unplugged_once hv hI x hx⟩,
    history_sorted hI⟩

/-- C01 for the full model over CPython's array heap (`Sim.runQ heapQ`) — this is what the C01
    driver executes and what the correspondence compares with the real `Simulator`, tie order
    included -/
theorem sim_runQ_heap_C01 (cfg : Sim.Cfg K) (sched : Sim.View K → Except Err (Sim.Schedule K))
    (hv : Valid cfg.core) (n : Nat) (hn : horizon cfg.core ≤ n)
    (h : (Sim.runQ heapQ cfg sched n (Sim.initQ heapQ cfg)).2 = none) :
    let c := (Sim.runQ heapQ cfg sched n (Sim.initQ heapQ cfg)).1.core
    c.pending = [] ∧ c.iter = horizon cfg.core ∧ (∀ st, c.occ st = none) ∧
    (∀ x ∈ cfg.core.sessions,
      c.eventHist.filter (fun e => e.kind == .plugin && e.sess == x.id) = [plugEv x] ∧
      c.eventHist.filter (fun e => e.kind == .unplug && e.sess == x.id) = [unplugEv x]) ∧
    c.eventHist.Pairwise (fun a b => a.keyLe b = true) := by
  intro c
  have hproj := Sim.runQ_core heapQ cfg sched n (Sim.initQ heapQ cfg) h
  obtain ⟨c', hr, hp, hi, hvac, honce, hsorted⟩ := run_terminates_real_heap hv (sched := noFail) (apply := noFail)
    (fun _ => rfl) (fun _ => rfl) n hn
  rw [Sim.initQ_core, hr] at hproj
  have hc : c' = c := congrArg Prod.fst hproj
  subst hc
  exact ⟨hp, hi, hvac, honce, hsorted⟩

end sim

end Acn.C01
