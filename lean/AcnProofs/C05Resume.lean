/-
  C05, continued — simulations that are INTERRUPTED, SAVED AND RESUMED (full simulator model).

  The event-core statement is `Acn.EventCore.resume_invoked` (AcnProofs/Lemmas/ResumeTrigger.lean; closed form for valid
  scenarios: `Acn.C05.resume_invoked_iff` in AcnProofs/C05.lean).  This module ties it to `Sim.run`:

  * `resume_sim_is_core`   — the uninterrupted run, the run whose scheduler raises in period `k` (`Sim.failAt`) and the
                             second `run()` on the state the abort left project onto `EventCore.run` with `noFail`,
                             `failSchedAt k`, `noFail`: every event-core theorem speaks about the full model;
  * `resume_invoked_sim`   — the invocation record of the COMPLETED simulation is the uninterrupted run's with the
                             raising period listed twice (invoked again on resume, once) and nothing else changed — the
                             resumed simulator is otherwise (pilots, rates, energies, batteries, histories, queue,
                             `_resolve`, `_last_schedule_update`) the uninterrupted one (`ObsEq`, C09);
  * `resume_views_true`    — WHAT THE SCHEDULER SEES across the interruption: the aborted run handed out the views of the
                             uninterrupted run up to and including period `k`, the second `run()` hands out the views of the
                             uninterrupted run from period `k` on (the view of period `k` again, unchanged) — so every view
                             after the resume is the true one (`view_true`, AcnProofs/C05.lean, describes each);
  * `json_resume_invoked`  — the same through `to_json() → Simulator.from_json() → update_scheduler(…) → run()`: by C09's
                             codec theorems (`crash_state_roundtrip`) the decoded simulator IS the aborted one — in particular its
                             iteration, queue, `_resolve` and `_last_schedule_update`, so the pending recompute request of
                             an event period survives the save / load.

  (Separate from AcnProofs/C05.lean because C09's lemma family — ResumeRun.lean — and C05's — EventCoreSim.lean — declare
  the same projection names and cannot be imported together.  C09's lemma FILES are imported, not AcnProofs/C09.lean: its
  regenerated-data obligation on Gen/Serial.lean belongs to C09's check alone; `Lemmas/ResumeJson.lean` re-derives
  `C09.resume_eq` and the JSON half of `C09.crash_json_resume_eq` from them.)
-/
import AcnProofs.Lemmas.ResumeJson
import AcnProofs.Lemmas.ResumeProj
import AcnProofs.Lemmas.ResumeViews

set_option linter.unusedSectionVars false

namespace Acn.C05
open Acn Acn.EventCore Acn.Sim Acn.Registry

section
variable {K : Type} [Add K] [Sub K] [Mul K] [Div K] [Neg K] [LT K] [LE K]
  [DecidableLT K] [DecidableLE K] [OfNat K 0] [OfNat K 1] [NatCast K] [HasExp K]

/-- **resume_sim_is_core** — for every configuration with well-formed sessions, scheduler, raising period `k` and fuel
    `n` such that the uninterrupted run raises nothing: the event cores of the three runs of the full model are the
    three event-core runs. -/
theorem resume_sim_is_core (cfg : Sim.Cfg K) (sched : View K → Except EventCore.Err (Schedule K)) (hS : SessionsOK cfg.core)
    (k n : Nat) (hok : (run cfg sched n (Sim.init cfg)).2 = none) :
    let r1 := run cfg (failAt k sched) n (Sim.init cfg)
    let r := run cfg sched n (Sim.init cfg)
    let r2 := run cfg sched (n - k) r1.1
    EventCore.run cfg.core noFail noFail n (EventCore.init cfg.core) = (r.1.core, none) ∧
    EventCore.run cfg.core (failSchedAt k) noFail n (EventCore.init cfg.core) = (r1.1.core, r1.2) ∧
    (r1.2 = some EventCore.Err.schedulerFailed →
      r2.2 = none ∧ EventCore.run cfg.core noFail noFail (n - k) r1.1.core = (r2.1.core, none)) := by
  intro r1 r r2
  refine ⟨run_proj cfg sched n (Sim.init cfg) hok, run_failAt_proj cfg sched k n (Sim.init cfg) hok, ?_⟩
  intro hf
  rcases sim_resume_eq cfg sched hS k n with h | ⟨_, _, h3⟩
  · exfalso
    have : r1.2 = none := by
      show (run cfg (failAt k sched) n (Sim.init cfg)).2 = none
      rw [h]; exact hok
    rw [this] at hf
    cases hf
  · have h2 : r2.2 = none := by
      have := h3.2
      rw [hok] at this
      exact this
    exact ⟨h2, run_proj cfg sched (n - k) r1.1 h2⟩

/-- **resume_invoked_sim** — the invocation record of the completed simulation.  Either the failure never fires (period
    `k` is not an invocation period of the uninterrupted run; the run IS the uninterrupted run), or `run()` aborts in
    period `k` with `SchedulerFailed` having recorded `pre ++ [k]`, and the second `run()` completes with the record
    `pre ++ [k] ++ [k] ++ post` where the uninterrupted run's is `pre ++ [k] ++ post` (`post` later than `k`) — period
    `k` invoked again on resume, exactly once, every other period as required — in a state that is otherwise the
    uninterrupted run's. -/
theorem resume_invoked_sim (cfg : Sim.Cfg K) (sched : View K → Except EventCore.Err (Schedule K)) (hS : SessionsOK cfg.core)
    (k n : Nat) (hok : (run cfg sched n (Sim.init cfg)).2 = none) :
    let r1 := run cfg (failAt k sched) n (Sim.init cfg)
    let r := run cfg sched n (Sim.init cfg)
    let r2 := run cfg sched (n - k) r1.1
    (r1 = r ∧ k ∉ r.1.core.invoked) ∨
    (r1.2 = some EventCore.Err.schedulerFailed ∧ r1.1.core.iter = k ∧
      ∃ pre post, r1.1.core.invoked = pre ++ [k] ∧ r.1.core.invoked = pre ++ [k] ++ post ∧ (∀ t ∈ post, k < t) ∧
        r2.2 = none ∧ r2.1.core.invoked = pre ++ [k] ++ [k] ++ post ∧ ObsEq r2.1 r.1) := by
  intro r1 r r2
  obtain ⟨p0, p1, p2⟩ := resume_sim_is_core cfg sched hS k n hok
  have hcore := resume_invoked cfg.core k n (init_noOverdue hS) (Nat.zero_le k)
  simp only [] at hcore
  rw [p0, p1] at hcore
  rcases hcore with ⟨he, δ, hd, hk⟩ | ⟨h1, h2, _, pre, post, h4, h5, h6, h7⟩
  · left
    simp only [Prod.mk.injEq] at he
    refine ⟨?_, ?_⟩
    · rcases sim_resume_eq cfg sched hS k n with h | ⟨hf, _, _⟩
      · exact h
      · exfalso
        have : r1.2 = none := he.2
        rw [this] at hf
        cases hf
    · simp only [EventCore.init, List.nil_append] at hd
      rw [hd]; exact hk
  · right
    simp only [] at h1 h2 h4 h5 h7
    obtain ⟨q1, q2⟩ := p2 h1
    have hsub : n - (k - (EventCore.init cfg.core).iter) = n - k := by simp [EventCore.init]
    rw [hsub, q2] at h7
    simp only [Prod.mk.injEq, and_true] at h7
    refine ⟨h1, h2, pre, post, h4, h5, h6, q1, ?_, ?_⟩
    · rw [h7]; rfl
    · rcases sim_resume_eq cfg sched hS k n with h | ⟨_, _, h3⟩
      · exfalso
        have : r1.2 = none := by
          show (run cfg (failAt k sched) n (Sim.init cfg)).2 = none
          rw [h]; exact hok
        rw [this] at h1
        cases h1
      · exact h3.1

/-- **json_resume_invoked** — the same through a JSON round trip, `Valid` scenario, every lawful scalar codec: the state
    the abort left can be written and loaded, the decoded simulator `s'` has the aborted simulator's iteration, queue,
    `_resolve` and `_last_schedule_update` (it IS that state: C09), and `run()` on `s'` completes with the invocation
    record of `resume_invoked_sim`. -/
theorem json_resume_invoked {sh : RegistrySim.Show K} {rd : RegistrySim.Read K} (hl : RegistrySim.Lawful sh rd)
    (cfg : Sim.Cfg K) (sched : View K → Except EventCore.Err (Schedule K)) (hv : Valid cfg.core) (k n : Nat)
    (hok : (run cfg sched n (Sim.init cfg)).2 = none) :
    let r1 := run cfg (failAt k sched) n (Sim.init cfg)
    let r := run cfg sched n (Sim.init cfg)
    ∃ ctx s', dump (RegistrySim.encode sh cfg r1.1) RegistrySim.root = .ok ctx ∧ load ctx RegistrySim.root = .ok ctx ∧
      RegistrySim.decode rd cfg (RegistrySim.ambOf r1.1) ctx.get = some s' ∧ s' = r1.1 ∧
      s'.core.iter = r1.1.core.iter ∧ s'.core.pending = r1.1.core.pending ∧ s'.core.resolve = r1.1.core.resolve ∧
      s'.core.lastUpd = r1.1.core.lastUpd ∧
      ((r1 = r ∧ k ∉ r.1.core.invoked) ∨
       (r1.2 = some EventCore.Err.schedulerFailed ∧ r1.1.core.iter = k ∧
        ∃ pre post, r1.1.core.invoked = pre ++ [k] ∧ r.1.core.invoked = pre ++ [k] ++ post ∧ (∀ t ∈ post, k < t) ∧
          (run cfg sched (n - k) s').2 = none ∧ (run cfg sched (n - k) s').1.core.invoked = pre ++ [k] ++ [k] ++ post ∧
          ObsEq (run cfg sched (n - k) s').1 r.1)) := by
  intro r1 r
  obtain ⟨ctx, h1, h2, h3⟩ := crash_state_roundtrip hl cfg (failAt k sched) hv n
  have hS : SessionsOK cfg.core := ⟨hv.ids_nodup, fun x hx => ⟨hv.arr_nonneg x hx, hv.arr_lt_dep x hx⟩⟩
  exact ⟨ctx, _, h1, h2, h3, rfl, rfl, rfl, rfl, rfl, resume_invoked_sim cfg sched hS k n hok⟩

/-- **resume_views_true** — the views across abort + resume, for every configuration with well-formed sessions, every
    scheduler (failing or not), raising period `k` and fuel `n`: either the failure never fires (same run, same views), or
    the first `run()` aborts in period `k` having handed out `A ++ [v]`, and the second `run()` hands out `v :: B`, where
    `A ++ v :: B` are the views of the uninterrupted run and `v` is its view of period `k` (`A` earlier).  Together with
    `json_resume_invoked` (`s' = r1.1`) the same holds for the simulator loaded from JSON. -/
theorem resume_views_true (cfg : Sim.Cfg K) (sched : View K → Except EventCore.Err (Schedule K)) (hS : SessionsOK cfg.core)
    (k n : Nat) :
    let r1 := run cfg (failAt k sched) n (Sim.init cfg)
    (r1 = run cfg sched n (Sim.init cfg) ∧
      runViews cfg (failAt k sched) n (Sim.init cfg) = runViews cfg sched n (Sim.init cfg)) ∨
    (r1.2 = some EventCore.Err.schedulerFailed ∧ r1.1.core.iter = k ∧
      ∃ A v B, runViews cfg sched n (Sim.init cfg) = A ++ v :: B ∧
        runViews cfg (failAt k sched) n (Sim.init cfg) = A ++ [v] ∧
        runViews cfg sched (n - k) r1.1 = v :: B ∧ v.iter = k ∧ ∀ a ∈ A, a.iter < k) := by
  intro r1
  have h := resume_views cfg sched k n (s := Sim.init cfg) (init_noOverdue hS) (Nat.zero_le k)
  have hsub : n - (k - (Sim.init cfg).core.iter) = n - k := rfl
  rw [hsub] at h
  exact h

end

/-! ### non-vacuity (ℚ): stations S0, S1; `a` on S0 [0,3), `b` on S1 [1,2), a recompute event at 2; `max_recompute = 2` -/
section Examples
local instance : HasExp ℚ := ⟨fun _ => 1⟩

private def exBatt : Battery.Batt ℚ :=
  { capacity := 40, charge := 5, init := 5, maxPower := 7, power := 0, twoStage := false, noiseLevel := 0,
    ts := 4/5, cmode := .continuous }
private def exEv (id st : String) (a d : Int) : Evse.Ev ℚ :=
  { session := id, station := st, arrival := a, departure := d, estDeparture := d, requested := 10,
    delivered := 0, rate := 0, batt := exBatt }
private def exCfg : Sim.Cfg ℚ :=
  { stations := [⟨"S0", .cont 0 (some 32), 208⟩, ⟨"S1", .cont 0 (some 32), 208⟩],
    evs := [exEv "a" "S0" 0 5, exEv "b" "S1" 1 2], recomputes := [(2, "r0")], maxRecompute := some 2,
    period := 5, atolCont := 1/1000, atolDeadband := 1/1000, atolFinite := 1/1000, fullEps := 1/1000, noise := [] }
private def exSched : View ℚ → Except EventCore.Err (Schedule ℚ) := scripted [(1, some [("S0", [8, 9, 10])])] [("S1", [16])]

example : SessionsOK exCfg.core := ⟨by decide, by decide⟩

/-- the uninterrupted run: invoked in 0, 1, 2 (events), 4 (timer), 5 (unplug); raises nothing -/
example : (run exCfg exSched 8 (Sim.init exCfg)).2 = none ∧
    (run exCfg exSched 8 (Sim.init exCfg)).1.core.invoked = [0, 1, 2, 4, 5] := by decide +kernel

/-- raising in the EVENT period 2: aborted with `_resolve` set (the request is pending), resumed: 2 is listed twice -/
example : (run exCfg (failAt 2 exSched) 8 (Sim.init exCfg)).2 = some EventCore.Err.schedulerFailed ∧
    (run exCfg (failAt 2 exSched) 8 (Sim.init exCfg)).1.core.resolve = true ∧
    (run exCfg (failAt 2 exSched) 8 (Sim.init exCfg)).1.core.invoked = [0, 1, 2] ∧
    (run exCfg exSched 6 (run exCfg (failAt 2 exSched) 8 (Sim.init exCfg)).1).1.core.invoked = [0, 1, 2, 2, 4, 5] := by
  decide +kernel

/-- raising in the TIMER period 4 (`_resolve` false, `_last_schedule_update = 2`), and in the quiet period 3 (never fires) -/
example : (run exCfg (failAt 4 exSched) 8 (Sim.init exCfg)).1.core.resolve = false ∧
    (run exCfg (failAt 4 exSched) 8 (Sim.init exCfg)).1.core.lastUpd = some 2 ∧
    (run exCfg exSched 4 (run exCfg (failAt 4 exSched) 8 (Sim.init exCfg)).1).1.core.invoked = [0, 1, 2, 4, 4, 5] ∧
    (run exCfg (failAt 3 exSched) 8 (Sim.init exCfg)).2 = none ∧
    (run exCfg (failAt 3 exSched) 8 (Sim.init exCfg)).1.core.invoked = [0, 1, 2, 4, 5] := by
  decide +kernel

/-- the views: the aborted run (raising in the timer period 4) handed out the views of periods 0, 1, 2, 4, the second
    `run()` hands out those of 4 and 5; the view of period 4 carries the energy delivered so far both times -/
example : (runViews exCfg (failAt 4 exSched) 8 (Sim.init exCfg)).map (·.iter) = [0, 1, 2, 4] ∧
    (runViews exCfg exSched 4 (run exCfg (failAt 4 exSched) 8 (Sim.init exCfg)).1).map (·.iter) = [4, 5] ∧
    (runViews exCfg exSched 8 (Sim.init exCfg)).map (·.iter) = [0, 1, 2, 4, 5] ∧
    ((runViews exCfg exSched 4 (run exCfg (failAt 4 exSched) 8 (Sim.init exCfg)).1).map fun v => v.active.map (·.delivered)) =
      ((runViews exCfg exSched 8 (Sim.init exCfg)).drop 3).map fun v => v.active.map (·.delivered) := by
  decide +kernel

end Examples

end Acn.C05
