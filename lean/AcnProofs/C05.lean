/-
  C05 — the scheduler is invoked exactly when required and sees the true, isolated state.

  Property theorems only (helpers: `Lemmas/SchedTrigger.lean`, `Lemmas/SchedTrace.lean`,
  `Lemmas/SchedView.lean`).  Models: `AcnModel/EventCore.lean` (run loop), `AcnModel/Sim.lean` (full
  simulator, scheduler = parameter `View K → Except Err (Schedule K)`), `AcnModel/SchedView.lean`
  (`consulted`, `handedView`, `runViews`, `infra`), `AcnModel/NetEdits.lean` (`infraInfoAt`).

  What the code does (simulator.py:112-141, 203-226), stated precisely:
  * `_process_event` writes the EVENT'S OWN TIMESTAMP into `_last_schedule_update` for plug-in and
    unplug events (not for recompute events).  An event processed late (timestamp < iteration, e.g.
    a negative timestamp, or an unplug whose departure ≤ arrival) therefore leaves an EARLIER period
    there (`lastUpd_after_events`).
  * every processed event also sets `_resolve`, the recompute condition then holds in the same
    period, and the invocation overwrites `_last_schedule_update` with the current period.  Hence at
    every loop head `_resolve = False` and `_last_schedule_update` = period of the last invocation
    (`None` iff none) — `lastUpd_at_head`; the timestamps never influence a decision of `run()`.
  * consequently (`invoked_iff`): period `t` is an invocation period  ⇔  an event was popped in `t`
    ∨ (`max_recompute = m` ∧ (no earlier invocation ∨ `t − last ≥ m`)).  `max_recompute = 0` means
    "every period"; `None` means "only on events".

  * the trigger theorems are stated for `TraceG g`: traces of the period body under ANY loop condition `g`.
    `g = guard` is `Simulator.run` over plug-in / unplug / recompute events; `g = guardI ign` is the same
    loop over a queue that also holds events of types `_process_event` has no branch for (base
    `acnsim.Event`, user subclasses — `AcnModel/Ignored.lean`): they keep the loop going up to their
    timestamp and change nothing else, so "an event was popped" reads "a plug-in / unplug / recompute
    event was popped" and the closed form is `runI_invoked_iff`.

  Theorems about `EventCore` hold for EVERY configuration (valid or not) and every scheduler /
  pilot-application parameter (failing or not); the `_valid` versions add the closed form of "an
  event was popped in `t`" for valid scenarios from sim-core's loop invariant.

  What the scheduler sees: `view_true` (every dynamic field), `active_order` (sessions are listed in
  station REGISTRATION order), `infra_true` / `infra_ids_named` (every InfrastructureInfo field: matrix,
  limits, phases, voltages, ids, per-station pilots — a function of the static data; 0 x N when there
  are no constraints, the repaired F3).  When the network is EDITED while the simulation lives
  (`AcnModel/NetEdits.lean`: `update_constraint` / `remove_constraint` / `add_constraint` from the
  `post_charging_update` hook, before `run()`, between two `run()`s): `infra_at_true` (in every period the
  description is the plain constraint list obtained by replaying construction + the edits made so far, for
  EVERY history), `infra_at_static`, `infra_at_before`, `infra_at_congr` / `infra_at_between` (no staleness, no
  anticipation), `infra_at_relimit_last` (a same-name update of the last constraint: same ids, same order,
  new limit — the ids of a view do not determine it).

  INTERRUPTED AND RESUMED runs, `step()` prefixes (last section; full-model / JSON half: AcnProofs/C05Resume.lean):
  `resume_invoked_record` / `resume_invoked_iff` (a run whose scheduler raises in period `k`, continued by a second
  `run()`: the completed simulation has the uninterrupted run's state and invocation periods, period `k` invoked again
  on resume exactly once), `step_pass_contract`, `step_loop_test`, `step_exactly_one_period`, `step_then_run_invoked`
  (the `run()` that follows a `step()` prefix invokes the scheduler exactly where the rule requires, a schedule supplied
  by `step()` counting as the last schedule update).

  Isolation: in the model a view is a VALUE, so isolation holds by construction; what is proved is
  the precise form "the next state is a function of (state, value returned on the handed view)"
  (`isolation_model`, `isolation_run`).  That Python's object copies really are isolated is the
  correspondence half (vandalising scheduler, `harness/props/C05.py`) — labelled partial there.
-/
import AcnProofs.Lemmas.SchedView
import AcnProofs.Lemmas.SchedInfra
import AcnProofs.Lemmas.IgnoredEvents
import AcnProofs.Lemmas.NetEdits
import AcnProofs.Lemmas.StepContract
import Mathlib.Tactic

namespace Acn.C05
open Acn Acn.EventCore

/-! ## trigger logic (event core) -/

section core
variable {cfg : EventCore.Cfg} {sched apply : Core → Option Err} {g : Core → Bool}

/-- the constructor's state satisfies the loop-head invariant -/
theorem head_init (cfg : EventCore.Cfg) : Head (init cfg) := init_head cfg

/-- WITHIN a period, after the events: `_resolve` iff something was popped (when it was false at
    the head); `_last_schedule_update` = timestamp of the last plug-in/unplug popped (else unchanged) -/
theorem lastUpd_after_events {c c1 : Core} (h : eventsStage cfg c = (c1, none)) :
    c1.resolve = (c.resolve || !(popsAt c).isEmpty) ∧ c1.lastUpd = lastEvTs (popsAt c) c.lastUpd ∧
      c1.iter = c.iter ∧ c1.invoked = c.invoked :=
  let ⟨h1, h2, h3, h4⟩ := eventsStage_ok_facts h
  ⟨h3, h4, h1, h2⟩

/-- a late event: timestamp −3 processed in period 0 leaves −3 behind after the events stage; the
    invocation of the same period overwrites it with 0 -/
example :
    let cfg : EventCore.Cfg := { stations := ["A"], sessions := [⟨"x", "A", -3, 2⟩], recomputes := [], maxRecompute := none }
    (eventsStage cfg (init cfg)).1.lastUpd = some (-3) ∧ (body cfg noFail noFail (init cfg)).1.lastUpd = some 0
      ∧ (body cfg noFail noFail (init cfg)).1.invoked = [0] := by decide +kernel

/-- AT EVERY LOOP HEAD reached from a loop head: `_resolve` is false and `_last_schedule_update` is
    the period of the last invocation -/
theorem lastUpd_at_head {c c' : Core} {hs : List Core} (hc : Head c) (ht : TraceG g cfg sched apply c hs c') :
    c'.resolve = false ∧ c'.lastUpd = c'.invoked.getLast?.map (fun t => (t : Int)) ∧ c'.iter = c.iter + hs.length :=
  let ⟨h, hi, _⟩ := trace_head ht hc
  ⟨h.resolve, h.lastUpd, hi⟩

/-- every run of the loop IS such a trace (followed by one raising trip when it aborts) -/
theorem run_is_trace (n : Nat) (c c' : Core) (h : run cfg sched apply n c = (c', none)) :
    ∃ hs, Trace cfg sched apply c hs c' ∧ hs.length ≤ n ∧ (hs.length = n ∨ guard c' = false) :=
  run_trace n c c' none h

/-- the invocation that precedes period `t` in a list of invocation periods -/
def lastBefore (l : List Nat) (t : Nat) : Option Nat := (l.filter (· < t)).getLast?

/-- **invoked_iff** — for every configuration, every scheduler/pilot-application parameter, every loop
    condition `g` (whatever keeps the loop going: known events, `_resolve`, ignored-type events), every
    trace from a loop head `c` to `c'`, every head `h` of the trace (period `h.iter`):
    the scheduler was invoked in that period  ⇔  an event was popped in it, or `max_recompute = m`
    and the previous invocation (if any) lies at least `m` periods back. -/
theorem invoked_iff {c c' : Core} {hs : List Core} (hc : Head c) (ht : TraceG g cfg sched apply c hs c')
    {h : Core} (hh : h ∈ hs) :
    h.iter ∈ c'.invoked ↔
      popsAt h ≠ [] ∨ ∃ m, cfg.maxRecompute = some m ∧ ∀ u, lastBefore c'.invoked h.iter = some u → m + u ≤ h.iter := by
  obtain ⟨_, _, _, hf, hiff⟩ := trace_at ht hc hh
  rw [hiff, lastBefore, hf]
  simp only [trig, due, Bool.or_eq_true, Bool.not_eq_true', List.isEmpty_eq_false_iff]
  constructor
  · rintro (h1 | h1)
    · exact Or.inl h1
    · right
      cases hm : cfg.maxRecompute with
      | none => rw [hm] at h1; simp at h1
      | some m =>
        rw [hm] at h1
        refine ⟨m, rfl, ?_⟩
        intro u hu
        rw [hu] at h1
        simpa using h1
  · rintro (h1 | ⟨m, hm, h1⟩)
    · exact Or.inl h1
    · right
      rw [hm]
      cases hl : h.invoked.getLast? with
      | none => rfl
      | some u => simpa using h1 u hl

/-- nothing else is recorded: every invocation period added along a trace is a period of the trace,
    and the heads of a trace are the consecutive periods `c.iter, c.iter+1, …` -/
theorem invoked_only_in_trace {c c' : Core} {hs : List Core} (hc : Head c) (ht : TraceG g cfg sched apply c hs c') :
    (∀ t ∈ c'.invoked, t ∈ c.invoked ∨ ∃ h ∈ hs, h.iter = t) ∧ hs.map (·.iter) = List.range' c.iter hs.length :=
  ⟨trace_cover ht hc, trace_iters ht hc⟩

/-- **invoked_at_most_once** — whatever the parameters do (also when the run aborts with an error in
    the events, the scheduler or the pilot application) and whatever keeps the loop going, the recorded
    invocation periods are strictly increasing: at most one invocation per period. -/
theorem invoked_at_most_once_any_guard (n : Nat) (c' : Core) (o : Option Err)
    (h : runG g cfg sched apply n (init cfg) = (c', o)) : c'.invoked.Pairwise (· < ·) := by
  have := runG_trace n (init cfg) c' o h
  cases o with
  | none =>
    obtain ⟨hs, ht, _⟩ := this
    exact (trace_head ht (init_head cfg)).1.sorted
  | some e =>
    obtain ⟨hs, cl, ht, _, _, hb⟩ := this
    have hH := (trace_head ht (init_head cfg)).1
    rcases (body_err_invoked hb).2 with h1 | h1
    · rw [h1]; exact hH.sorted
    · rw [h1, List.pairwise_append]
      refine ⟨hH.sorted, by simp, ?_⟩
      intro a ha b hb'
      simp at hb'; subst hb'
      exact hH.lt_iter a ha

theorem invoked_at_most_once (n : Nat) (c' : Core) (o : Option Err)
    (h : run cfg sched apply n (init cfg) = (c', o)) : c'.invoked.Pairwise (· < ·) :=
  invoked_at_most_once_any_guard (g := guard) n c' o (by rw [runG_guard]; exact h)

theorem invoked_nodup (n : Nat) (c' : Core) (o : Option Err)
    (h : run cfg sched apply n (init cfg) = (c', o)) : c'.invoked.Nodup :=
  (invoked_at_most_once n c' o h).imp (fun hab => Nat.ne_of_lt hab)

/-- **invoked_after_events** (structural) — one trip round the loop consults the scheduler parameter
    at ONE state only: the state reached after this period's events, with the call recorded; and not
    at all when the recompute condition is false there or an event raised. -/
theorem invoked_after_events (c : Core) (sched' : Core → Option Err)
    (h : (eventsStage cfg c).2 = none → needsSched cfg.maxRecompute (eventsStage cfg c).1 = true →
      sched (markInvoked (eventsStage cfg c).1) = sched' (markInvoked (eventsStage cfg c).1)) :
    body cfg sched apply c = body cfg sched' apply c := by
  unfold body
  rcases hes : eventsStage cfg c with ⟨c1, _ | e⟩
  · rw [hes] at h
    simp only at h ⊢
    by_cases hn : needsSched cfg.maxRecompute c1 = true
    · simp only [if_pos hn]
      rw [h trivial hn]
    · simp only [if_neg hn]
  · rfl

/-! ### valid scenarios: the closed form -/

/-- **invoked_iff_valid** — valid scenario, trace from the constructor's state: period `t` of the
    trace is an invocation period  ⇔  some session arrives or departs at `t` or a recompute event
    carries timestamp `t`, or `max_recompute = m` and the previous invocation is ≥ `m` periods back. -/
theorem invoked_iff_valid (hv : Valid cfg) {c' : Core} {hs : List Core}
    (ht : TraceG g cfg sched apply (init cfg) hs c') {t : Nat} (hlt : t < hs.length) :
    t ∈ c'.invoked ↔
      EventAt cfg t ∨ ∃ m, cfg.maxRecompute = some m ∧ ∀ u, lastBefore c'.invoked t = some u → m + u ≤ t := by
  have hit := trace_iters ht (init_head cfg)
  have hmem : t ∈ hs.map (·.iter) := by
    rw [hit]; simp [init, List.mem_range']; omega
  obtain ⟨h, hh, rfl⟩ := List.mem_map.1 hmem
  rw [invoked_iff (init_head cfg) ht hh]
  have hI := (trace_inv hv ht (init_inv hv)).2 h hh
  rw [popsAt_ne_nil_iff hv hI]

/-- **run_invoked_iff** — the whole run of a valid scenario with parameters that do not fail, any
    fuel ≥ horizon (= last timestamp + 1): the set of invocation periods in closed form. -/
theorem run_invoked_iff (hv : Valid cfg) (hsch : ∀ c, sched c = none) (hap : ∀ c, apply c = none)
    (n : Nat) (hn : horizon cfg ≤ n) (t : Nat) :
    t ∈ (run cfg sched apply n (init cfg)).1.invoked ↔
      t < horizon cfg ∧ (EventAt cfg t ∨ ∃ m, cfg.maxRecompute = some m ∧
        ∀ u, lastBefore (run cfg sched apply n (init cfg)).1.invoked t = some u → m + u ≤ t) := by
  obtain ⟨c', hr, hI⟩ := run_spec hv hsch hap n 0 (init cfg) (init_inv hv) (Nat.zero_le _)
  rw [hr]
  simp only
  obtain ⟨hs, ht, _, _⟩ := run_trace n (init cfg) c' none hr
  obtain ⟨hH, hit, _⟩ := trace_head ht (init_head cfg)
  have hlen : hs.length = horizon cfg := by
    have h1 := hI.iter
    rw [hit] at h1
    simp only [init, Nat.zero_add] at h1
    rw [h1]; omega
  constructor
  · intro hm
    have hlt : t < horizon cfg := by
      have := hH.lt_iter t hm
      rw [hit] at this
      simp only [init, Nat.zero_add] at this
      omega
    exact ⟨hlt, (invoked_iff_valid hv ht (by omega)).1 hm⟩
  · rintro ⟨hlt, h⟩
    exact (invoked_iff_valid hv ht (by omega)).2 h

/-- the same with the fuel the compiled drivers use (`horizon ≤ fuelFor`, sim-core's `horizon_le_fuelFor`):
    the run that is compared with the implementation is the run the closed form speaks about -/
theorem run_invoked_iff_fuelFor (hv : Valid cfg) (hsch : ∀ c, sched c = none) (hap : ∀ c, apply c = none) (t : Nat) :
    t ∈ (run cfg sched apply (fuelFor cfg) (init cfg)).1.invoked ↔
      t < horizon cfg ∧ (EventAt cfg t ∨ ∃ m, cfg.maxRecompute = some m ∧
        ∀ u, lastBefore (run cfg sched apply (fuelFor cfg) (init cfg)).1.invoked t = some u → m + u ≤ t) :=
  run_invoked_iff hv hsch hap (fuelFor cfg) (horizon_le_fuelFor cfg) t

/-! ### events of ignored types in the queue (`AcnModel/Ignored.lean`) -/

/-- without ignored-type events the loop is `run` -/
theorem runI_nil (n : Nat) (c : Core) : runI cfg sched apply [] n c = run cfg sched apply n c := runI_nil_eq n c

/-- **ignored_run_is_trace** — a run over a queue that also holds ignored-type events (any timestamps,
    late ones included) is a trace of the SAME period body: such events never reach `_resolve`,
    `_last_schedule_update`, the network or the queue, they only keep the loop going.  So
    `lastUpd_at_head`, `invoked_iff`, `invoked_only_in_trace`, `invoked_iff_valid` speak about it. -/
theorem ignored_run_is_trace (ign : List Int) (n : Nat) (c c' : Core) (h : runI cfg sched apply ign n c = (c', none)) :
    ∃ hs, TraceG (guardI ign) cfg sched apply c hs c' ∧ hs.length ≤ n ∧ (hs.length = n ∨ guardI ign c' = false) :=
  runG_trace n c c' none h

theorem invoked_at_most_once_ignored (ign : List Int) (n : Nat) (c' : Core) (o : Option Err)
    (h : runI cfg sched apply ign n (init cfg) = (c', o)) : c'.invoked.Pairwise (· < ·) :=
  invoked_at_most_once_any_guard n c' o h

/-- **runI_invoked_iff** — the whole run of a valid scenario whose queue also holds ignored-type events
    with timestamps `ign ≥ 0`, parameters that do not fail, any fuel ≥ `horizonI` (= one past the last
    timestamp, ignored ones included): the run is `horizonI` periods long, and period `t` is an invocation
    period ⇔ a session arrives or departs at `t` or a recompute event carries timestamp `t`, or
    `max_recompute = m` and the previous invocation is ≥ `m` periods back.  The ignored timestamps occur
    in the length of the run ONLY. -/
theorem runI_invoked_iff (hv : Valid cfg) {ign : List Int} (h0 : ∀ ts ∈ ign, 0 ≤ ts)
    (hsch : ∀ c, sched c = none) (hap : ∀ c, apply c = none) (n : Nat) (hn : horizonI cfg ign ≤ n) (t : Nat) :
    (runI cfg sched apply ign n (init cfg)).2 = none ∧ (runI cfg sched apply ign n (init cfg)).1.iter = horizonI cfg ign ∧
    (t ∈ (runI cfg sched apply ign n (init cfg)).1.invoked ↔
      t < horizonI cfg ign ∧ (EventAt cfg t ∨ ∃ m, cfg.maxRecompute = some m ∧
        ∀ u, lastBefore (runI cfg sched apply ign n (init cfg)).1.invoked t = some u → m + u ≤ t)) := by
  obtain ⟨c', hr, hI⟩ := runI_spec hv h0 hsch hap n 0 (init cfg) (init_inv hv) (Nat.zero_le _)
  rw [hr]
  simp only
  obtain ⟨hs, ht, _, _⟩ := runG_trace n (init cfg) c' none hr
  obtain ⟨hH, hit, _⟩ := trace_head ht (init_head cfg)
  have hiter : c'.iter = horizonI cfg ign := by
    rw [hI.iter]; omega
  have hlen : hs.length = horizonI cfg ign := by
    rw [hit] at hiter
    simp only [init, Nat.zero_add] at hiter
    exact hiter
  refine ⟨trivial, hiter, ?_⟩
  constructor
  · intro hm
    have hlt : t < horizonI cfg ign := by
      have := hH.lt_iter t hm
      omega
    exact ⟨hlt, (invoked_iff_valid hv ht (by omega)).1 hm⟩
  · rintro ⟨hlt, h⟩
    exact (invoked_iff_valid hv ht (by omega)).2 h

/-- the same with the fuel the compiled driver uses -/
theorem runI_invoked_iff_fuelForI (hv : Valid cfg) {ign : List Int} (h0 : ∀ ts ∈ ign, 0 ≤ ts)
    (hsch : ∀ c, sched c = none) (hap : ∀ c, apply c = none) (t : Nat) :
    t ∈ (runI cfg sched apply ign (fuelForI cfg ign) (init cfg)).1.invoked ↔
      t < horizonI cfg ign ∧ (EventAt cfg t ∨ ∃ m, cfg.maxRecompute = some m ∧
        ∀ u, lastBefore (runI cfg sched apply ign (fuelForI cfg ign) (init cfg)).1.invoked t = some u → m + u ≤ t) :=
  (runI_invoked_iff hv h0 hsch hap (fuelForI cfg ign) (horizonI_le_fuelForI cfg ign) t).2.2

/-! ### non-vacuity -/

/-- a valid scenario: one station, one session [1,6), a recompute event at 9, `max_recompute = 2` -/
def exCfg : EventCore.Cfg :=
  { stations := ["A"], sessions := [⟨"x", "A", 1, 6⟩], recomputes := [(9, "r")], maxRecompute := some 2 }

example : Valid exCfg := by
  refine ⟨by decide, by decide, ?_, ?_, ?_, ?_, ?_⟩ <;> simp [exCfg]

/-- period 0: never run; 1: plug-in; 3, 5: two periods elapsed; 6: unplug (one period after 5);
    8: two periods elapsed; 9: recompute event (one period after 8).  Not 2, 4, 7. -/
example : (run exCfg noFail noFail (fuelFor exCfg) (init exCfg)).1.invoked = [0, 1, 3, 5, 6, 8, 9]
    ∧ horizon exCfg = 10 ∧ horizon exCfg ≤ fuelFor exCfg := by decide +kernel

/-- `max_recompute = None`: only the event periods; `max_recompute = 0`: every period -/
example : (run { exCfg with maxRecompute := none } noFail noFail 12 (init exCfg)).1.invoked = [1, 6, 9]
    ∧ (run { exCfg with maxRecompute := some 0 } noFail noFail 12 (init exCfg)).1.invoked = [0, 1, 2, 3, 4, 5, 6, 7, 8, 9] := by
  decide +kernel

/-- ignored-type events at 6 (the unplug period) and 12 (after everything else): the invocations up to 9
    are the same, the loop goes on to period 12 on the timer (11), and with `max_recompute = None` the
    three extra periods see no invocation at all; `horizonI = 13` -/
example : (runI exCfg noFail noFail [6, 12] (fuelForI exCfg [6, 12]) (init exCfg)).1.invoked = [0, 1, 3, 5, 6, 8, 9, 11]
    ∧ (runI exCfg noFail noFail [6, 12] (fuelForI exCfg [6, 12]) (init exCfg)).1.iter = 13
    ∧ (runI { exCfg with maxRecompute := none } noFail noFail [6, 12] 20 (init exCfg)).1.invoked = [1, 6, 9]
    ∧ (runI { exCfg with maxRecompute := none } noFail noFail [6, 12] 20 (init exCfg)).1.iter = 13
    ∧ horizonI exCfg [6, 12] = 13 ∧ (∀ ts ∈ [6, 12], (0 : Int) ≤ ts) := by decide +kernel

/-- a failing scheduler: the period is recorded once, the run aborts there -/
example : (run exCfg (fun c => if c.iter = 3 then some .schedulerFailed else none) noFail 12 (init exCfg)).1.invoked = [0, 1, 3]
    ∧ (run exCfg (fun c => if c.iter = 3 then some .schedulerFailed else none) noFail 12 (init exCfg)).2 = some .schedulerFailed := by
  decide +kernel

end core

/-! ## what the scheduler sees, and isolation (full simulator model) -/

section sim
open Acn.Sim
variable {K : Type} [Add K] [Sub K] [Mul K] [Div K] [Neg K] [LT K] [LE K]
  [DecidableLT K] [DecidableLE K] [OfNat K 0] [OfNat K 1] [NatCast K] [HasExp K]

/-- the full model's loop is the event core's loop (sim-core's projection), so every trigger theorem
    above speaks about `Sim.run`: the invocation periods of a run that raises nothing are those of
    the core run -/
theorem sim_invoked_core (cfg : Sim.Cfg K) (sched : View K → Except Err (Schedule K)) (n : Nat) (s : State K)
    (h : (Sim.run cfg sched n s).2 = none) :
    (Sim.run cfg sched n s).1.core.invoked = (EventCore.run cfg.core noFail noFail n s.core).1.invoked := by
  rw [run_core cfg sched n s h]

/-- the same for a queue that also holds ignored-type events -/
theorem simI_invoked_core (cfg : Sim.Cfg K) (sched : View K → Except Err (Schedule K)) (ign : List Int) (n : Nat) (s : State K)
    (h : (Sim.runI cfg sched ign n s).2 = none) :
    (Sim.runI cfg sched ign n s).1.core.invoked = (EventCore.runI cfg.core noFail noFail ign n s.core).1.invoked := by
  unfold EventCore.runI
  rw [runG_core (guardI ign) cfg sched n s h]
  rfl

/-- **views_faithful** — along a run that raises nothing, the recorded views are in order exactly one
    per invocation, and each carries its invocation period as `current_time` -/
theorem views_faithful (cfg : Sim.Cfg K) (sched : View K → Except Err (Schedule K)) (n : Nat) (s s' : State K)
    (h : Sim.run cfg sched n s = (s', none)) :
    s'.core.invoked = s.core.invoked ++ (runViews cfg sched n s).map (·.iter) :=
  run_invoked_views cfg sched n s s' h

theorem views_faithful_ignored (cfg : Sim.Cfg K) (sched : View K → Except Err (Schedule K)) (ign : List Int) (n : Nat)
    (s s' : State K) (h : Sim.runI cfg sched ign n s = (s', none)) :
    s'.core.invoked = s.core.invoked ++ (runViewsI cfg sched ign n s).map (·.iter) :=
  runG_invoked_views (guardI ign) cfg sched n s s' h

/-- **sched_sees_handed_view** (after-events, at most once, for the full model) — one trip round the
    loop depends on the scheduler parameter only through its value on `handedView cfg s`, the view of
    the state reached after this period's events -/
theorem sched_sees_handed_view (cfg : Sim.Cfg K) (sched sched' : View K → Except Err (Schedule K)) (s : State K)
    (h : ∀ v, handedView cfg s = some v → sched v = sched' v) : Sim.body cfg sched s = Sim.body cfg sched' s :=
  body_congr cfg sched sched' s h

/-- **view_true** — every field of the view handed to the scheduler, as a function of the simulator
    state `s` at the loop head and of the occupancy `s1.core.occ` reached after this period's events:
    * `current_time` = the period;  `get_prev_peak` = `peak`;
    * active sessions = for each station (in registration order) its occupant after the events, if its
      remaining demand exceeds the `fully_charged` threshold — with the EV record (energy delivered,
      last actual rate) the simulator holds at the loop head, i.e. after the previous period's charging;
    * `last_applied_pilot_signals`: EMPTY while `iteration ≤ 1`; from the third period on, for every
      active session with `arrival ≤ iteration − 1`, the entry `pilot_signals[station, iteration − 1]`;
    * the occupancy list = occupants after the events. -/
theorem view_true (cfg : Sim.Cfg K) (s : State K) (v : View K) (h : handedView cfg s = some v) :
    ∃ s1, consulted cfg s = some s1 ∧ v = view cfg s1 ∧
      v.iter = s.core.iter ∧ v.peak = s.peak ∧
      (∀ e, e ∈ v.active ↔ ∃ st ∈ cfg.stations, ∃ x, s1.core.occ st.id = some x ∧ evOf s x.id = some e ∧
        cfg.fullEps < e.requested - e.delivered) ∧
      (s.core.iter ≤ 1 → v.lastPilots = []) ∧
      (2 ≤ s.core.iter → ∀ id p, (id, p) ∈ v.lastPilots ↔ ∃ e ∈ v.active, e.session = id ∧
        e.arrival ≤ ((s.core.iter - 1 : Nat) : Int) ∧ p = s.pilots.get (stationIndex cfg e.station) (s.core.iter - 1)) ∧
      v.connected = cfg.stations.map (fun st => (s1.core.occ st.id).map (·.id)) := by
  obtain ⟨s1, hc, _, rfl⟩ := (handedView_eq_some cfg s v).1 h
  obtain ⟨e1, e2, _, e4, e5, _⟩ := consulted_spec cfg s s1 hc
  have hev : ∀ id, evOf s1 id = evOf s id := fun id => by unfold evOf; rw [e1]
  refine ⟨s1, hc, rfl, e5, e4, ?_, ?_, ?_, rfl⟩
  · intro e
    show e ∈ activeEvs cfg s1 ↔ _
    rw [mem_activeEvs_iff]
    constructor
    · rintro ⟨st, hst, ho, hlt⟩
      obtain ⟨x, hx, hxe⟩ := (occupantEv_eq_some s1 st.id e).1 ho
      exact ⟨st, hst, x, hx, (hev x.id) ▸ hxe, hlt⟩
    · rintro ⟨st, hst, x, hx, hxe, hlt⟩
      exact ⟨st, hst, (occupantEv_eq_some s1 st.id e).2 ⟨x, hx, (hev x.id).symm ▸ hxe⟩, hlt⟩
  · intro hle
    exact lastApplied_early cfg s1 (by rw [e5]; exact hle)
  · intro hge id p
    show (id, p) ∈ lastApplied cfg s1 ↔ _
    rw [mem_lastApplied_iff cfg s1 (by rw [e5]; exact hge), e5, e2]
    rfl

/-- **view_true_valid** — valid scenario (sim-core's invariant at the loop head of period `t`): the
    occupant of station `st` at consultation time is the session with `arrival ≤ t < departure` on
    that station; so the active sessions are EXACTLY the connected, not fully charged ones. -/
theorem view_true_valid (cfg : Sim.Cfg K) (hv : Valid cfg.core) {t : Nat} {s : State K} (hI : Inv cfg.core t s.core)
    (v : View K) (h : handedView cfg s = some v) (e : Evse.Ev K) :
    e ∈ v.active ↔ ∃ st ∈ cfg.stations, ∃ x ∈ cfg.core.sessions, x.station = st.id ∧ x.arrival ≤ t ∧
      (t : Int) < x.departure ∧ evOf s x.id = some e ∧ cfg.fullEps < e.requested - e.delivered := by
  obtain ⟨s1, hc, _, _, _, hact, _⟩ := view_true cfg s v h
  rw [hact e]
  constructor
  · rintro ⟨st, hst, x, hx, hxe, hlt⟩
    obtain ⟨a, b, c, d⟩ := (consulted_occ_valid cfg hv hI hc st.id x).1 hx
    exact ⟨st, hst, x, a, b, c, d, hxe, hlt⟩
  · rintro ⟨st, hst, x, a, b, c, d, hxe, hlt⟩
    exact ⟨st, hst, x, (consulted_occ_valid cfg hv hI hc st.id x).2 ⟨a, b, c, d⟩, hxe, hlt⟩

/-- **isolation_model** — the next state depends only on (state, value returned on the handed view):
    replacing the scheduler by the constant function with that value changes nothing; and when no
    view is handed out the scheduler is irrelevant. -/
theorem isolation_model (cfg : Sim.Cfg K) (sched : View K → Except Err (Schedule K)) (s : State K) :
    (∀ v, handedView cfg s = some v → Sim.body cfg sched s = Sim.body cfg (fun _ => sched v) s) ∧
    (handedView cfg s = none → ∀ sched', Sim.body cfg sched s = Sim.body cfg sched' s) := by
  constructor
  · intro v hv
    apply body_congr
    intro v' hv'
    rw [hv] at hv'
    simp only [Option.some.injEq] at hv'
    rw [hv']
  · intro hn sched'
    apply body_congr
    intro v hv
    rw [hn] at hv
    simp at hv

/-- **isolation_run** — whole runs: a scheduler that returns the same values on the views handed out
    (whatever else it does, e.g. to its arguments) produces the same trajectory and is handed the
    same views -/
theorem isolation_run (cfg : Sim.Cfg K) (sched sched' : View K → Except Err (Schedule K)) (n : Nat) (s : State K)
    (h : ∀ v ∈ runViews cfg sched n s, sched v = sched' v) :
    Sim.run cfg sched' n s = Sim.run cfg sched n s ∧ runViews cfg sched' n s = runViews cfg sched n s :=
  run_congr cfg sched sched' n s h

theorem isolation_run_ignored (cfg : Sim.Cfg K) (sched sched' : View K → Except Err (Schedule K)) (ign : List Int)
    (n : Nat) (s : State K) (h : ∀ v ∈ runViewsI cfg sched ign n s, sched v = sched' v) :
    Sim.runI cfg sched' ign n s = Sim.runI cfg sched ign n s ∧ runViewsI cfg sched' ign n s = runViewsI cfg sched ign n s :=
  runG_congr (guardI ign) cfg sched sched' n s h

omit [Add K] [Sub K] [Mul K] [Div K] [Neg K] [LE K] [DecidableLE K] [OfNat K 1] [NatCast K] [HasExp K] in
/-- the infrastructure description is a function of the static configuration: one entry per
    registered station, in registration order -/
theorem infra_static (cfg : Sim.Cfg K) : (infra cfg).map (·.id) = cfg.core.stations := by
  simp [infra, Sim.Cfg.core]

/-- **active_order** — the ORDER in which the view lists sessions (`active_sessions()`, the argument
    of `schedule()`, and the deprecated `active_evs`, which all enumerate `network.active_evs`):
    station REGISTRATION order — the list of occupants station by station, with the vacant stations
    and the fully charged occupants dropped; not plug-in order, not arrival order.  The
    `last_applied_pilot_signals` entries follow the same order. -/
theorem active_order (cfg : Sim.Cfg K) (s : State K) (v : View K) (h : handedView cfg s = some v) :
    ∃ s1, consulted cfg s = some s1 ∧
      v.active = (cfg.stations.map fun st => occupantEv s1 st.id).filterMap (fun o => o.filter (isActive cfg)) ∧
      (v.active.map some).Sublist (cfg.stations.map fun st => occupantEv s1 st.id) ∧
      (v.lastPilots.map Prod.fst).Sublist (v.active.map (·.session)) := by
  obtain ⟨s1, hc, _, rfl⟩ := (handedView_eq_some cfg s v).1 h
  refine ⟨s1, hc, activeEvs_eq_filterMap cfg s1, activeEvs_sublist cfg s1, ?_⟩
  show ((lastApplied cfg s1).map Prod.fst).Sublist ((activeEvs cfg s1).map (·.session))
  unfold lastApplied
  split
  · generalize activeEvs cfg s1 = l
    induction l with
    | nil => simp
    | cons e l ih =>
      simp only [List.filterMap_cons, List.map_cons]
      split
      · exact List.Sublist.cons _ ih
      · rename_i heq
        split at heq
        · simp only [Option.some.injEq] at heq
          subst heq
          exact List.Sublist.cons_cons _ ih
        · simp at heq
  · simp

omit [Add K] [Sub K] [Mul K] [Div K] [Neg K] [LE K] [DecidableLE K] [OfNat K 1] [NatCast K] [HasExp K] in
/-- **infra_true** — EVERY field of the `InfrastructureInfo` handed out, for a network built by
    registering the (distinct) stations and then adding constraints over registered stations:
    station ids = registration order; voltages / phases = what `register_evse` was given; one matrix
    row per constraint, in `add_constraint` order, whose entry for station `j` is the coefficient of
    `j` in the constrained `Current` (0 if absent); limits in the same order; per-station part =
    `infra cfg`; no constraints = 0 x N.  The view is a function of the static data only. -/
theorem infra_true (cfg : Sim.Cfg K) (nd : NetDesc K) (hnd : (cfg.stations.map (·.id)).Nodup)
    (hk : ∀ c ∈ nd.constraints, ∀ k ∈ c.1.keys, k ∈ cfg.stations.map (·.id)) :
    (infraInfo cfg nd).stationIds = cfg.stations.map (·.id) ∧
    (infraInfo cfg nd).voltages = cfg.stations.map (·.voltage) ∧
    (infraInfo cfg nd).phases = nd.phases ∧
    (infraInfo cfg nd).constraintMatrix =
      nd.constraints.map (fun c => (cfg.stations.map (·.id)).map (Network.Current.coeff c.1)) ∧
    (infraInfo cfg nd).constraintLimits = nd.constraints.map (·.2.1) ∧
    (infraInfo cfg nd).constraintIds.length = nd.constraints.length ∧
    (infraInfo cfg nd).stations = infra cfg := by
  have hreg := run_registers (K := K) (cfg.stations.map (·.id)) Network.Net.init rfl (by simp [Network.Net.init]) hnd
  have hmap : (cfg.stations.map fun st => Network.Op.register (K := K) st.id) = (cfg.stations.map (·.id)).map Network.Op.register := by
    simp
  obtain ⟨a1, a2, a3, a4⟩ := run_adds nd.constraints
    (Network.Net.run Network.Net.init (cfg.stations.map fun st => Network.Op.register (K := K) st.id))
    (by rw [hmap, hreg]; simp [Network.Net.init])
    (by rw [hmap, hreg]; simpa [Network.Net.init] using hk)
  rw [hmap, hreg] at a1 a2 a3 a4
  simp only [Network.Net.init, List.nil_append, Option.getD_none, List.length_nil, Nat.zero_add] at a1 a2 a3 a4
  refine ⟨?_, rfl, rfl, ?_, ?_, ?_, rfl⟩
  · show (netOf cfg nd).stations = _
    unfold netOf; rw [hmap, hreg]; exact a1
  · show (netOf cfg nd).matrix.getD [] = _
    unfold netOf; rw [hmap, hreg]; exact a2
  · show (netOf cfg nd).magnitudes = _
    unfold netOf; rw [hmap, hreg]; exact a3
  · show (netOf cfg nd).index.length = _
    unfold netOf; rw [hmap, hreg]; exact a4

omit [Add K] [Sub K] [Mul K] [Div K] [Neg K] [LE K] [DecidableLE K] [OfNat K 1] [NatCast K] [HasExp K] in
/-- explicitly and distinctly named constraints appear under their names, in `add_constraint` order -/
theorem infra_ids_named (cfg : Sim.Cfg K) (nd : NetDesc K) (hnd : (cfg.stations.map (·.id)).Nodup)
    (hk : ∀ c ∈ nd.constraints, ∀ k ∈ c.1.keys, k ∈ cfg.stations.map (·.id))
    (hsome : ∀ c ∈ nd.constraints, c.2.2.isSome) (hnames : (nd.constraints.filterMap (·.2.2)).Nodup) :
    (infraInfo cfg nd).constraintIds = nd.constraints.filterMap (·.2.2) := by
  have hreg := run_registers (K := K) (cfg.stations.map (·.id)) Network.Net.init rfl (by simp [Network.Net.init]) hnd
  have hmap : (cfg.stations.map fun st => Network.Op.register (K := K) st.id) = (cfg.stations.map (·.id)).map Network.Op.register := by
    simp
  have := run_adds_index nd.constraints
    (Network.Net.run Network.Net.init (cfg.stations.map fun st => Network.Op.register (K := K) st.id))
    (by rw [hmap, hreg]; simp [Network.Net.init])
    (by rw [hmap, hreg]; simpa [Network.Net.init] using hk) hsome
    (by rw [hmap, hreg]; simpa [Network.Net.init] using hnames)
  rw [hmap, hreg] at this
  show (netOf cfg nd).index = _
  unfold netOf
  rw [hmap, hreg, this]
  simp [Network.Net.init]

end sim

/-! ## the network EDITED between invocations (`AcnModel/NetEdits.lean`)

  `infra_true` speaks about the network the simulator is built with.  The network object stays editable
  (`add_constraint` / `remove_constraint` / `update_constraint`, from the `post_charging_update` hook, before
  `run()`, between two `run()`s); the description handed out in period `t` must be the description of the network
  AS EDITED SO FAR — nothing older.  The plain-list specification of the network (`Network.Spec`, C12) says what
  that is; `Network.run_refines` (C12) ties the code's three parallel containers to it for every history. -/

section edits
open Acn.Sim Acn.Network
variable {K : Type} [Zero K] [LT K] [DecidableLT K]

/-- **infra_at_true** — for EVERY configuration, EVERY edit history (rejected operations included) and every
    period `t`: the `InfrastructureInfo` handed out in period `t` describes exactly the constraint list a user
    obtains by replaying, on paper, the construction of the network and then the edits made before the invocation
    of period `t`, in the order made (`Spec.run Spec.init (historyAt …)`): the names in that order, the limits in
    that order, one matrix row per constraint whose entry for station `j` is the coefficient of `j` in the
    constrained current (0 if absent).  Voltages, phase angles and the per-station part are those of the
    construction. -/
theorem infra_at_true (cfg : Sim.Cfg K) (nd : NetDesc K) (edits : List (NetEdit K)) (t : Nat) :
    let sp := Spec.run Spec.init (historyAt cfg nd edits t)
    (infraInfoAt cfg nd edits t).stationIds = sp.stations ∧
    (infraInfoAt cfg nd edits t).constraintIds = sp.cons.map (·.name) ∧
    (infraInfoAt cfg nd edits t).constraintLimits = sp.cons.map (·.limit) ∧
    (infraInfoAt cfg nd edits t).constraintMatrix =
      sp.cons.map (fun c => sp.stations.map (Current.coeff c.cur)) ∧
    (infraInfoAt cfg nd edits t).voltages = cfg.stations.map (·.voltage) ∧
    (infraInfoAt cfg nd edits t).phases = nd.phases ∧
    (infraInfoAt cfg nd edits t).stations = infra cfg := by
  intro sp
  have hr := (run_refines (refines_init (K := K)) (historyAt cfg nd edits t)).2
  rw [← netAt_eq_run] at hr
  exact ⟨hr.stations, hr.index, hr.mags, hr.rows, rfl, rfl, rfl⟩

/-- constraint edits never change WHICH stations are described, nor their order, voltages, phase angles,
    pilot ranges: that part of every view is the one of the construction (`infra_true`) -/
theorem infra_at_static (cfg : Sim.Cfg K) (nd : NetDesc K) (edits : List (NetEdit K)) (t : Nat)
    (hnd : (cfg.stations.map (·.id)).Nodup) :
    (infraInfoAt cfg nd edits t).stationIds = cfg.stations.map (·.id) ∧
    (infraInfoAt cfg nd edits t).stationIds = (infraInfo cfg nd).stationIds ∧
    (infraInfoAt cfg nd edits t).voltages = (infraInfo cfg nd).voltages ∧
    (infraInfoAt cfg nd edits t).phases = (infraInfo cfg nd).phases ∧
    (infraInfoAt cfg nd edits t).stations = (infraInfo cfg nd).stations := by
  have h1 : (netAt cfg nd edits t).stations = cfg.stations.map (·.id) := by
    unfold netAt editsInForce
    rw [run_opsOf_stations, netOf_stations cfg nd hnd]
  exact ⟨h1, h1.trans (netOf_stations cfg nd hnd).symm, rfl, rfl, rfl⟩

/-- before the first edit comes into force the description is the one of the construction -/
theorem infra_at_before (cfg : Sim.Cfg K) (nd : NetDesc K) (edits : List (NetEdit K)) (t : Nat)
    (h : ∀ e ∈ edits, t < e.since) : infraInfoAt cfg nd edits t = infraInfo cfg nd := by
  have h0 : entriesInForce edits t = [] := by
    unfold entriesInForce
    rw [List.filter_eq_nil_iff]
    intro e he
    simpa using h e he
  unfold infraInfoAt infraInfo netAt editsInForce
  rw [h0]
  rfl

/-- NO STALENESS, NO ANTICIPATION: the description depends on the history only through the entries in force —
    two periods between which nothing came into force see the same description … -/
theorem infra_at_congr (cfg : Sim.Cfg K) (nd : NetDesc K) (edits : List (NetEdit K)) (t t' : Nat)
    (h : ∀ e ∈ edits, (e.since ≤ t ↔ e.since ≤ t')) :
    infraInfoAt cfg nd edits t = infraInfoAt cfg nd edits t' := by
  have h0 : entriesInForce edits t = entriesInForce edits t' := by
    unfold entriesInForce
    apply List.filter_congr
    intro e he
    simp [h e he]
  unfold infraInfoAt netAt editsInForce
  rw [h0]

omit [LT K] [DecidableLT K] in
/-- … and (history in application order) the network described at a LATER invocation is the network described
    at the earlier one with exactly the operations that came into force in between applied to it, in order.
    In particular every one of them is reflected: an implementation that hands out at `t'` what it assembled at
    `t` is correct only if that list of operations leaves the containers unchanged. -/
theorem infra_at_between (cfg : Sim.Cfg K) (nd : NetDesc K) (edits : List (NetEdit K))
    (hs : edits.Pairwise fun a b => a.since ≤ b.since) {t t' : Nat} (h : t ≤ t') :
    netAt cfg nd edits t' =
      Net.run (netAt cfg nd edits t) (opsOf (edits.filter fun e => decide (t < e.since ∧ e.since ≤ t'))) := by
  unfold netAt editsInForce
  rw [entriesInForce_split edits hs h, opsOf_append, run_append]

/-- **infra_at_relimit_last** — the time-varying site limit: `update_constraint(name, current, limit)` under
    the SAME name on the LAST constraint (a unique name), coming into force between the invocations of periods
    `t` and `t'`.  The two invocations see the same constraint ids in the same order and the same stations — and
    the later one sees the new limit and the new row in the last position (everything else as before).  So the
    ids (and station ids) of a view do NOT determine it. -/
theorem infra_at_relimit_last (cfg : Sim.Cfg K) (nd : NetDesc K) (edits : List (NetEdit K)) (t t' T : Nat)
    (name : String) (c : Current K) (l : K) (ns : List String)
    (hin : ∀ e ∈ edits, e.since ≤ t) (htT : t < T) (hTt : T ≤ t')
    (hids : (infraInfoAt cfg nd edits t).constraintIds = ns ++ [name]) (hname : name ∉ ns)
    (hk : ∀ k ∈ c.keys, k ∈ (infraInfoAt cfg nd edits t).stationIds) :
    let hist := edits ++ [⟨T, [ConOp.update name c l none]⟩]
    infraInfoAt cfg nd hist t = infraInfoAt cfg nd edits t ∧
    (infraInfoAt cfg nd hist t').constraintIds = (infraInfoAt cfg nd hist t).constraintIds ∧
    (infraInfoAt cfg nd hist t').stationIds = (infraInfoAt cfg nd hist t).stationIds ∧
    (infraInfoAt cfg nd hist t').constraintLimits = (infraInfoAt cfg nd hist t).constraintLimits.dropLast ++ [l] ∧
    (infraInfoAt cfg nd hist t').constraintMatrix =
      (infraInfoAt cfg nd hist t).constraintMatrix.dropLast ++
        [(infraInfoAt cfg nd hist t).stationIds.map (Current.coeff c)] := by
  intro hist
  -- the entries in force at `t` and at `t'`
  have hall : edits.filter (fun e => decide (e.since ≤ t)) = edits := by
    rw [List.filter_eq_self]; intro e he; simpa using hin e he
  have hall' : edits.filter (fun e => decide (e.since ≤ t')) = edits := by
    rw [List.filter_eq_self]; intro e he; simpa using le_trans (hin e he) (le_trans (le_of_lt htT) hTt)
  have hf : entriesInForce hist t = entriesInForce edits t := by
    unfold entriesInForce
    rw [List.filter_append, List.filter_cons_of_neg (by simpa using htT)]
    simp
  have hf' : entriesInForce hist t' = entriesInForce edits t ++ [⟨T, [ConOp.update name c l none]⟩] := by
    unfold entriesInForce
    rw [List.filter_append, List.filter_cons_of_pos (by simpa using hTt), hall, hall']
    simp
  have hst : infraInfoAt cfg nd hist t = infraInfoAt cfg nd edits t := by
    unfold infraInfoAt netAt editsInForce; rw [hf]
  have hhist : historyAt cfg nd hist t' = historyAt cfg nd edits t ++ [Op.update name c l none] := by
    unfold historyAt editsInForce
    rw [hf', opsOf_append]
    simp [opsOf, ConOp.toOp]
  -- the specification before and after
  obtain ⟨b1, b2, b3, b4, -, -, -⟩ := infra_at_true cfg nd edits t
  obtain ⟨a1, a2, a3, a4, -, -, -⟩ := infra_at_true cfg nd hist t'
  try simp only at b1 b2 b3 b4 a1 a2 a3 a4
  rw [hhist, spec_run_snoc] at a1 a2 a3 a4
  generalize Spec.run Spec.init (historyAt cfg nd edits t) = sp at b1 b2 b3 b4 a1 a2 a3 a4
  rw [b2] at hids
  obtain ⟨cs, xs, hcons, hcs, hxs⟩ := List.map_eq_append_iff.1 hids
  obtain ⟨x, rfl, hx⟩ : ∃ x, xs = [x] ∧ x.name = name := by
    match xs, hxs with
    | [x], h => exact ⟨x, rfl, by simpa using h⟩
  subst hx
  have hupd := spec_update_last sp cs x c l hcons (by rw [hcs]; exact hname) (by rw [← b1]; exact hk)
  have hstep : (sp.step (Op.update x.name c l none)).1 = { sp with frozen := true, cons := cs ++ [⟨c, l, x.name⟩] } := hupd
  rw [hstep] at a1 a2 a3 a4
  try simp only at a1 a2 a3 a4
  refine ⟨hst, ?_, ?_, ?_, ?_⟩
  · rw [hst, a2, b2, hcons]; simp
  · rw [hst, a1, b1]
  · rw [hst, a3, b3, hcons]; simp
  · rw [hst, a4, b4, b1, hcons]; simp

/-- non-vacuity (ℚ): stations A, B; "agg" over both at 64 A and an unnamed row on B -/
def exCfg2 : Sim.Cfg ℚ :=
  { stations := [⟨"A", .cont 0 (some 32), 208⟩, ⟨"B", .finite [0, 8, 16], 240⟩], evs := [], recomputes := [],
    maxRecompute := some 2, period := 5, atolCont := 1 / 1000, atolDeadband := 1 / 1000, atolFinite := 1 / 1000,
    fullEps := 1 / 1000, noise := [] }

def exNd : NetDesc ℚ :=
  { phases := [30, -90], constraints := [([("A", 1), ("B", 1)], 64, some "agg"), ([("B", 2)], 40, none)] }

/-- the hook of period 2 re-rates the LAST constraint under its own name (40 → 24), the hook of period 5 re-rates
    "agg" (which moves to the end), an edit between two `run()`s (the first stopped at 9) removes the unnamed row -/
def exEdits : List (NetEdit ℚ) :=
  [⟨3, [.update "_const_1" [("B", 2)] 24 none]⟩, ⟨6, [.update "agg" [("A", 1), ("B", 1)] 50 none]⟩, ⟨9, [.remove "_const_1"]⟩]

/-- periods ≤ 2 see the construction, periods 3-5 the same ids with the new limit, periods ≥ 6 the reordered
    rows, periods ≥ 9 one row -/
example :
    (infraInfoAt exCfg2 exNd exEdits 2).constraintLimits = (infraInfo exCfg2 exNd).constraintLimits ∧
    (infraInfoAt exCfg2 exNd exEdits 2).constraintLimits = [64, 40] ∧
    (infraInfoAt exCfg2 exNd exEdits 3).constraintIds = ["agg", "_const_1"] ∧
    (infraInfoAt exCfg2 exNd exEdits 3).constraintLimits = [64, 24] ∧
    (infraInfoAt exCfg2 exNd exEdits 5).constraintMatrix = [[1, 1], [0, 2]] ∧
    (infraInfoAt exCfg2 exNd exEdits 6).constraintIds = ["_const_1", "agg"] ∧
    (infraInfoAt exCfg2 exNd exEdits 6).constraintLimits = [24, 50] ∧
    (infraInfoAt exCfg2 exNd exEdits 8).constraintMatrix = [[0, 2], [1, 1]] ∧
    (infraInfoAt exCfg2 exNd exEdits 9).constraintIds = ["agg"] ∧
    (infraInfoAt exCfg2 exNd exEdits 40).constraintMatrix = [[1, 1]] := by
  decide +kernel

/-- the hypotheses of `infra_at_static`, `infra_at_between` and `infra_at_relimit_last` (first entry of `exEdits`:
    `t = 2 < T = 3 ≤ t' = 5`, no earlier entry) hold here, and the conclusion of the latter reads: ids
    `["agg", "_const_1"]` in both periods, limits `[64, 40]` then `[64, 24]` -/
example :
    (exCfg2.stations.map (·.id)).Nodup ∧ (exEdits.Pairwise fun a b => a.since ≤ b.since) ∧
    (infraInfoAt exCfg2 exNd [] 2).constraintIds = ["agg"] ++ ["_const_1"] ∧ "_const_1" ∉ ["agg"] ∧
    (∀ k ∈ Current.keys ([("B", 2)] : Current ℚ), k ∈ (infraInfoAt exCfg2 exNd [] 2).stationIds) ∧
    (infraInfoAt exCfg2 exNd ([] ++ [⟨3, [ConOp.update "_const_1" [("B", 2)] 24 none]⟩]) 5).constraintLimits = [64, 24] := by
  decide +kernel

example : (infraInfoAt exCfg2 exNd ([] ++ [⟨3, [ConOp.update "_const_1" [("B", 2)] 24 none]⟩]) 5).constraintLimits =
    (infraInfoAt exCfg2 exNd ([] ++ [⟨3, [ConOp.update "_const_1" [("B", 2)] 24 none]⟩]) 2).constraintLimits.dropLast ++ [24] :=
  (infra_at_relimit_last exCfg2 exNd [] 2 5 3 "_const_1" [("B", 2)] 24 ["agg"] (by simp) (by decide) (by decide)
    (by decide +kernel) (by decide) (by decide +kernel)).2.2.2.1

end edits

/-! ### non-vacuity (full model over ℚ; the ideal battery never calls `exp`) -/

section simex
open Acn.Sim

local instance : HasExp ℚ := ⟨fun x => x⟩

/-- station A (0–32 A, 208 V), session x on [1,4) asking 10 kWh, ideal battery, 5-minute periods,
    `max_recompute = 2` -/
def exSim : Sim.Cfg ℚ :=
  { stations := [⟨"A", .cont 0 (some 32), 208⟩],
    evs := [{ session := "x", station := "A", arrival := 1, departure := 4, estDeparture := 4, requested := 10,
              delivered := 0, rate := 0,
              batt := { capacity := 40, charge := 5, init := 5, maxPower := 7, power := 0, twoStage := false,
                        noiseLevel := 0, ts := 0, cmode := .continuous } }],
    recomputes := [], maxRecompute := some 2, period := 5, atolCont := 1 / 1000, atolDeadband := 1 / 1000,
    atolFinite := 1 / 1000, fullEps := 1 / 1000, noise := [] }

def exSched : View ℚ → Except Err (Schedule ℚ) := fun _ => .ok [("A", [16, 16])]

/-- invoked in 0 (never run), 1 (plug-in), 3 (two periods), 4 (unplug); the session is visible in
    periods 1 and 3, the last pilot only in period 3 (empty in period 1 although … ≤ 1), the energy
    delivered in period 3 is what two periods at 16 A delivered -/
example :
    (Sim.run exSim exSched 8 (Sim.init exSim)).2 = none ∧
    (Sim.run exSim exSched 8 (Sim.init exSim)).1.core.invoked = [0, 1, 3, 4] ∧
    (runViews exSim exSched 8 (Sim.init exSim)).map (fun v => (v.iter, v.active.map (fun e => (e.session, e.delivered)), v.lastPilots))
      = [(0, [], []), (1, [("x", 0)], []), (3, [("x", 16 * 208 / 1000 * (5 / 60) * 2)], [("x", 16)]), (4, [], [])] := by
  decide +kernel

/-- a scheduler that differs from `exSched` only OFF the handed views yields the same run -/
example : Sim.run exSim (fun v => if v.iter = 2 then .error .schedulerFailed else exSched v) 8 (Sim.init exSim)
    = Sim.run exSim exSched 8 (Sim.init exSim) := by
  refine (isolation_run exSim exSched _ 8 (Sim.init exSim) ?_).1
  decide +kernel

/-- two stations, one aggregate constraint over both, one over the second only (coefficient 2):
    the full infrastructure view; and the constraint-free network is 0 x N -/
example :
    let cfg2 : Sim.Cfg ℚ := { exSim with stations := [⟨"A", .cont 0 (some 32), 208⟩, ⟨"B", .finite [0, 8, 16], 240⟩] }
    let nd : NetDesc ℚ := { phases := [30, -90], constraints := [([("A", 1), ("B", 1)], 64, some "agg"), ([("B", 2)], 40, none)] }
    (infraInfo cfg2 nd).constraintMatrix = [[1, 1], [0, 2]] ∧ (infraInfo cfg2 nd).constraintLimits = [64, 40] ∧
    (infraInfo cfg2 nd).constraintIds = ["agg", "_const_1"] ∧ (infraInfo cfg2 nd).stationIds = ["A", "B"] ∧
    (infraInfo cfg2 nd).voltages = [208, 240] ∧ (infraInfo cfg2 nd).phases = [30, -90] ∧
    (infraInfo cfg2 { nd with constraints := [] }).constraintMatrix = [] := by decide +kernel

end simex

/-! ## interrupted and resumed runs; `step()` prefixes -/

section resume
variable {cfg : EventCore.Cfg}

/-- **resume_invoked_record** — every valid scenario, every period `k`, every fuel: a `run()` whose scheduler raises when
    it is entered in period `k` (`failSchedAt k`), continued by a second `run()` on the state the abort left (the period's
    events applied, `_resolve` / `_last_schedule_update` as the events left them, the failed call recorded).  Either the
    failure never fires — the run is the uninterrupted run, which does not invoke the scheduler in period `k` — or the
    first `run()` aborts in period `k` and the second ends in EXACTLY the uninterrupted run's final state (iteration,
    queue, occupancy, `_resolve`, `_last_schedule_update`, both histories) with the invocation record
    `pre ++ [k] ++ [k] ++ post` instead of `pre ++ [k] ++ post`: period `k` is invoked again on resume, once, and every
    other period exactly as without the interruption. -/
theorem resume_invoked_record (hv : Valid cfg) (k n : Nat) :
    let r1 := run cfg (failSchedAt k) noFail n (init cfg)
    let r := run cfg noFail noFail n (init cfg)
    (r1 = r ∧ k ∉ r.1.invoked) ∨
    (r1.2 = some .schedulerFailed ∧ r1.1.iter = k ∧ Fresh r1.1 ∧
      ∃ pre post, r1.1.invoked = pre ++ [k] ∧ r.1.invoked = pre ++ [k] ++ post ∧ (∀ t ∈ post, k < t) ∧
        run cfg noFail noFail (n - k) r1.1 = (setInv (pre ++ [k] ++ [k] ++ post) r.1, r.2)) := by
  intro r1 r
  rcases resume_invoked cfg k n (init_noOverdue_valid hv) (Nat.zero_le k) with
    ⟨h1, δ, h2, h3⟩ | ⟨h1, h2, h3, pre, post, h4, h5, h6, h7⟩
  · left
    refine ⟨h1, ?_⟩
    have : r.1.invoked = δ := h2
    rw [this]; exact h3
  · right
    have h7' : run cfg noFail noFail (n - k) r1.1 = (setInv (pre ++ [k] ++ [k] ++ post) r.1, r.2) := h7
    exact ⟨h1, h2, h3, pre, post, h4, h5, h6, h7'⟩

/-- **resume_invoked_iff** — closed form: valid scenario, non-failing continuation, fuel ≥ horizon.  If the uninterrupted
    run does not invoke the scheduler in period `k` the failure never fires.  Otherwise `run()` aborts in period `k`, the
    second `run()` completes (no error, `horizon` periods), and in the completed simulation period `t` is an invocation
    period  ⇔  `t < horizon` and a session arrives or departs at `t` or a recompute event carries timestamp `t`, or
    `max_recompute = m` and the previous invocation period lies ≥ `m` periods back; period `k` is recorded exactly twice
    (the failed call and its repetition), every other period at most once. -/
theorem resume_invoked_iff (hv : Valid cfg) (k n : Nat) (hn : horizon cfg ≤ n) :
    let r1 := run cfg (failSchedAt k) noFail n (init cfg)
    let r := run cfg noFail noFail n (init cfg)
    let r2 := run cfg noFail noFail (n - k) r1.1
    (k ∉ r.1.invoked → r1 = r) ∧
    (k ∈ r.1.invoked → r1.2 = some .schedulerFailed ∧ r1.1.iter = k ∧ r2.2 = none ∧ r2.1.iter = horizon cfg ∧
      (∀ t, t ∈ r2.1.invoked ↔ t < horizon cfg ∧ (EventAt cfg t ∨ ∃ m, cfg.maxRecompute = some m ∧
        ∀ u, lastBefore r.1.invoked t = some u → m + u ≤ t)) ∧
      r2.1.invoked.count k = 2 ∧ ∀ t, t ≠ k → r2.1.invoked.count t ≤ 1) := by
  intro r1 r r2
  obtain ⟨c', hr, hI⟩ := run_spec hv (sched := noFail) (apply := noFail) (fun _ => rfl) (fun _ => rfl) n 0 (init cfg)
    (init_inv hv) (Nat.zero_le _)
  have hr' : r = (c', none) := hr
  have hiter : c'.iter = horizon cfg := by rw [hI.iter]; omega
  have hsorted : c'.invoked.Pairwise (· < ·) := by
    have := invoked_at_most_once (cfg := cfg) (sched := noFail) (apply := noFail) n c' none hr
    exact this
  rcases resume_invoked_record hv k n with ⟨h1, h2⟩ | ⟨h1, h2, _, pre, post, h4, h5, _, h7⟩
  · exact ⟨fun _ => h1, fun hk => absurd hk h2⟩
  · have h5' : c'.invoked = pre ++ [k] ++ post := by
      have : r.1.invoked = pre ++ [k] ++ post := h5
      rw [hr'] at this; exact this
    have hk : k ∈ r.1.invoked := by
      show k ∈ r.1.invoked
      rw [hr', h5']; simp
    refine ⟨fun hnk => absurd hk hnk, fun _ => ?_⟩
    have h7' : r2 = (setInv (pre ++ [k] ++ [k] ++ post) c', none) := by
      have : r2 = (setInv (pre ++ [k] ++ [k] ++ post) r.1, r.2) := h7
      rw [hr'] at this; exact this
    have hnd : c'.invoked.Nodup := hsorted.imp (fun hab => Nat.ne_of_lt hab)
    refine ⟨h1, h2, by rw [h7'], by rw [h7']; exact hiter, ?_, ?_, ?_⟩
    · intro t
      have hmem : t ∈ r2.1.invoked ↔ t ∈ r.1.invoked := by
        rw [h7', hr', h5']
        simp only [setInv, List.mem_append, List.mem_singleton]
        tauto
      rw [hmem]
      exact run_invoked_iff hv (fun _ => rfl) (fun _ => rfl) n hn t
    · rw [h7']
      have hc : c'.invoked.count k ≤ 1 := List.nodup_iff_count_le_one.1 hnd k
      rw [h5'] at hc
      simp only [setInv, List.count_append, List.count_singleton_self] at hc ⊢
      omega
    · intro t ht
      rw [h7']
      have hc : c'.invoked.count t ≤ 1 := List.nodup_iff_count_le_one.1 hnd t
      rw [h5'] at hc
      have h0 : List.count t [k] = 0 := by
        rw [List.count_eq_zero]; simp; exact ht
      simp only [setInv, List.count_append, h0] at hc ⊢
      omega

/-- the Lean example of the trigger section (session [1,6), recompute event at 9, `max_recompute = 2`; uninterrupted:
    `[0, 1, 3, 5, 6, 8, 9]`): raising in the event period 6, the timer period 3, the LAST period 9 (queue already empty:
    the loop guard is kept alive by `_resolve`), and in period 0 before anything was ever scheduled
    (`_last_schedule_update = None`) — each is invoked again on resume, once; raising in the quiet period 2 never fires -/
example :
    (run exCfg noFail noFail 12 (run exCfg (failSchedAt 6) noFail 12 (init exCfg)).1).1.invoked = [0, 1, 3, 5, 6, 6, 8, 9] ∧
    (run exCfg (failSchedAt 6) noFail 12 (init exCfg)).1.resolve = true ∧
    (run exCfg noFail noFail 12 (run exCfg (failSchedAt 3) noFail 12 (init exCfg)).1).1.invoked = [0, 1, 3, 3, 5, 6, 8, 9] ∧
    (run exCfg (failSchedAt 3) noFail 12 (init exCfg)).1.resolve = false ∧
    (run exCfg (failSchedAt 3) noFail 12 (init exCfg)).1.lastUpd = some 1 ∧
    (run exCfg noFail noFail 12 (run exCfg (failSchedAt 9) noFail 12 (init exCfg)).1).1.invoked = [0, 1, 3, 5, 6, 8, 9, 9] ∧
    (run exCfg (failSchedAt 9) noFail 12 (init exCfg)).1.pending = [] ∧
    (run exCfg noFail noFail 12 (run exCfg (failSchedAt 0) noFail 12 (init exCfg)).1).1.invoked = [0, 0, 1, 3, 5, 6, 8, 9] ∧
    (run exCfg (failSchedAt 0) noFail 12 (init exCfg)).1.lastUpd = none ∧
    (run exCfg (failSchedAt 2) noFail 12 (init exCfg)).2 = none ∧
    (run exCfg noFail noFail 12 (run exCfg (failSchedAt 9) noFail 12 (init exCfg)).1).1.iter = 10 := by decide +kernel

end resume

section stepc
open Acn.Sim
variable {K : Type} [Add K] [Sub K] [Mul K] [Div K] [Neg K] [LT K] [LE K]
  [DecidableLT K] [DecidableLE K] [OfNat K 0] [OfNat K 1] [NatCast K] [HasExp K]

/-- **step_pass_contract** — one pass of `Simulator.step(new_schedule)` that raises nothing: the schedule handed in is
    applied to the CURRENT period (the pilot of every station in period `t` is the schedule's entry, 0 if omitted), the
    simulation advances by exactly one period, and on the event core the pass is `supplyPass`: `_last_schedule_update := t`,
    `_resolve := False`, `t + 1`, then the events of period `t + 1` are applied (which set `_resolve` again). -/
theorem step_pass_contract (cfg : Sim.Cfg K) (sch : Schedule K) {s s' : State K}
    (hwf : s.pilots.WF (cfg.stations.map (·.id)).length) (h : stepPass cfg sch s = (s', none))
    (hcov : Pilots.covers (cfg.stations.map (·.id))
      ⟨s.core.iter, (lastTs s.core.pending).map Int.toNat, sch⟩ s.core.iter = true) :
    supplyPass cfg.core s.core = (s'.core, none) ∧ s'.core.iter = s.core.iter + 1 ∧
    (s'.core.resolve = !(popsAt (advance (markScheduled s.core))).isEmpty) ∧
    ∀ st, s'.pilots.get ((cfg.stations.map (·.id)).idxOf st) s.core.iter =
      Pilots.valueOf ⟨s.core.iter, (lastTs s.core.pending).map Int.toNat, sch⟩ st s.core.iter := by
  have hs := stepPass_supply cfg sch h
  have hf := eventsStage_ok_facts (cfg := cfg.core) (c := advance (markScheduled s.core)) hs
  refine ⟨hs, hf.1, hf.2.2.1, ?_⟩
  intro st
  have := (stepPass_applies_schedule cfg sch s hwf (by rw [h]) hcov st).1
  rw [h] at this
  exact this

/-- **step_loop_test** — after a pass the loop of `step()` goes on iff events are left, no event was applied in the new
    period, and `max_recompute` is `None` or ≥ 2: `step()` advances to the next period in which a recompute is due -/
theorem step_loop_test (cfg : Sim.Cfg K) (sch : Schedule K) {s s' : State K} (h : stepPass cfg sch s = (s', none)) :
    stepCond cfg.maxRecompute false s'.core =
      .ok (!s'.core.pending.isEmpty && !s'.core.resolve &&
        (match cfg.maxRecompute with | none => true | some m => decide (2 ≤ m))) :=
  stepCond_after_pass cfg sch h

/-- **step_exactly_one_period** — with `max_recompute ≤ 1`, or when the pass stops in an event period or empties the
    queue, the call is exactly one pass: it advances exactly one period and returns `event_queue.empty()` -/
theorem step_exactly_one_period (cfg : Sim.Cfg K) (sch : Schedule K) (n : Nat) {s s' : State K}
    (hp : s.core.pending ≠ []) (h : stepPass cfg sch s = (s', none))
    (hc : (∃ m, cfg.maxRecompute = some m ∧ m ≤ 1) ∨ s'.core.resolve = true ∨ s'.core.pending = []) :
    step cfg sch (n + 2) s = (s', .ok s'.core.pending.isEmpty) ∧ s'.core.iter = s.core.iter + 1 := by
  rcases hc with ⟨m, hm, hle⟩ | hc
  · exact step_one_period cfg sch n hm hle hp h
  · exact step_stops_at_event cfg sch n hp h hc

/-- **step_then_run_invoked** — the `run()` that follows a `step()` pass.  Let the pass be made in period `t` from a
    state with events left and nothing overdue in period `t + 1` (`NoOverdue`: true after an earlier pass, and initially
    when no event carries timestamp 0), let `sup` be the earlier periods in which a schedule was supplied (any increasing
    list of periods < `t`; a ghost).  If the continued run raises nothing, it invokes the scheduler in exactly the periods
    `δ` in which the loop of `run()` started at the loop head `H` = "period `t + 1`, schedule last supplied in `t`" does:
    `H` satisfies the loop-head invariant, there is a trace from `H` whose record is `sup ++ [t] ++ δ`, and for every
    period `h.iter ≥ t + 1` of it:  `h.iter ∈ δ`  ⇔  an event was popped in that period (for `t + 1`: applied by the pass)
    ∨ `max_recompute = m` and the last period in which a schedule was supplied or the scheduler invoked lies ≥ `m` back. -/
theorem step_then_run_invoked (cfg : Sim.Cfg K) (sch : Schedule K) (sched : View K → Except Err (Schedule K))
    {s s' : State K} (h : stepPass cfg sch s = (s', none)) (hp : s.core.pending ≠ [])
    (hI : NoOverdue cfg.core (advance (markScheduled s.core)))
    (sup : List Nat) (hsup : sup.Pairwise (· < ·)) (hlt : ∀ t ∈ sup, t < s.core.iter) (n : Nat)
    (hok : (Sim.run cfg sched (n + 1) s').2 = none) :
    let H := setInv (sup ++ [s.core.iter]) (advance (markScheduled s.core))
    Head H ∧ ∃ δ hs cH, Trace cfg.core noFail noFail H hs cH ∧ cH.invoked = sup ++ [s.core.iter] ++ δ ∧
      (Sim.run cfg sched (n + 1) s').1.core.invoked = s.core.invoked ++ δ ∧ (∀ t ∈ δ, s.core.iter + 1 ≤ t) ∧
      ∀ h ∈ hs, s.core.iter + 1 ≤ h.iter ∧ (h.iter ∈ δ ↔ popsAt h ≠ [] ∨ ∃ m, cfg.maxRecompute = some m ∧
        ∀ u, lastBefore (sup ++ [s.core.iter] ++ δ) h.iter = some u → m + u ≤ h.iter) := by
  intro H
  have hH : Head H := supply_head s.core sup hsup hlt
  have hs := stepPass_supply cfg sch h
  have hg : guard (advance (markScheduled s.core)) = true := by
    cases hpe : s.core.pending with
    | nil => exact absurd hpe hp
    | cons a l => simp [EventCore.guard, advance, markScheduled, hpe]
  obtain ⟨δ, d1, d2, d3⟩ := run_after_supply (cfg := cfg.core) blind_noFail blind_noFail hI hg hs sup n
  have hcore := run_core cfg sched (n + 1) s' hok
  rw [d3] at hcore
  simp only [Prod.mk.injEq] at hcore
  obtain ⟨hc1, hc2⟩ := hcore
  rcases hR : run cfg.core noFail noFail (n + 1) H with ⟨cH, o⟩
  rw [hR] at d1 hc1 hc2
  simp only [] at d1 hc1 hc2
  subst hc2
  obtain ⟨hs', ht, _, _⟩ := run_trace (n + 1) H cH none hR
  refine ⟨hH, δ, hs', cH, ht, d1, ?_, d2, ?_⟩
  · rw [← hc1]; rfl
  · intro hd hhd
    obtain ⟨_, hge, _, _, _⟩ := trace_at ht hH hhd
    have hge' : s.core.iter + 1 ≤ hd.iter := hge
    refine ⟨hge', ?_⟩
    have hiff : hd.iter ∈ cH.invoked ↔ popsAt hd ≠ [] ∨ ∃ m, cfg.maxRecompute = some m ∧
        ∀ u, lastBefore cH.invoked hd.iter = some u → m + u ≤ hd.iter := invoked_iff hH ht hhd
    rw [d1] at hiff
    refine Iff.trans ?_ hiff
    simp only [List.mem_append, List.mem_singleton]
    constructor
    · intro hm; exact Or.inr hm
    · rintro ((hm | hm) | hm)
      · have := hlt _ hm; omega
      · omega
      · exact hm

end stepc

/-! ### non-vacuity of the `step()` theorems (`exSim`: session x on [1,4), `max_recompute = 2`) -/
section stepex
open Acn.Sim

local instance : HasExp ℚ := ⟨fun x => x⟩

/-- one `step()` call on the fresh simulator: a single pass (it stops in the event period 1, whose plug-in it applies,
    leaving `_resolve` set), returns `False` (events are left); the `run()` that follows invokes the scheduler at once in
    period 1 (the pending request), then in 3 (two periods elapsed) and 4 (unplug) — not in period 0, for which `step()`
    supplied the schedule, and not in 2 -/
example :
    (stepPass exSim [("A", [16])] (Sim.init exSim)).2 = none ∧
    (stepPass exSim [("A", [16])] (Sim.init exSim)).1.core.iter = 1 ∧
    (stepPass exSim [("A", [16])] (Sim.init exSim)).1.core.resolve = true ∧
    (stepPass exSim [("A", [16])] (Sim.init exSim)).1.core.lastUpd = some 1 ∧
    (step exSim [("A", [16])] 8 (Sim.init exSim)).2 = .ok false ∧
    (Sim.run exSim exSched 8 (stepPass exSim [("A", [16])] (Sim.init exSim)).1).2 = none ∧
    (Sim.run exSim exSched 8 (stepPass exSim [("A", [16])] (Sim.init exSim)).1).1.core.invoked = [1, 3, 4] := by
  decide +kernel

/-- the hypotheses of `step_then_run_invoked` hold there: events are left and nothing is overdue in period 1 -/
example : (Sim.init exSim).core.pending ≠ [] ∧ NoOverdue exSim.core (advance (markScheduled (Sim.init exSim).core)) := by
  refine ⟨by decide, ?_⟩
  have hp : (advance (markScheduled (Sim.init exSim).core)).pending = [⟨1, .plugin, "x"⟩] := by decide +kernel
  have hf : findSession exSim.core "x" = some ⟨"x", "A", 1, 4⟩ := by decide +kernel
  intro e he _
  rw [hp, List.mem_singleton] at he
  subst he
  refine ⟨by decide, ?_⟩
  intro y hy
  rw [hf] at hy
  cases hy
  decide

/-- with `max_recompute = 1` every call is exactly one period (`step_exactly_one_period`): three calls, iterations 1, 2, 3 -/
example : ((steps { exSim with maxRecompute := some 1 } 8 [[("A", [16])], [], [("A", [8])]]
      (Sim.init { exSim with maxRecompute := some 1 })).2.map fun r => r.2) = [1, 2, 3] ∧
    -- with `max_recompute = None` the second call runs on from period 1 to the next event period, 4
    ((steps { exSim with maxRecompute := none } 8 [[("A", [16])], [("A", [8])]]
      (Sim.init { exSim with maxRecompute := none })).2.map fun r => r.2) = [1, 4] := by
  decide +kernel

end stepex

end Acn.C05
