/-
  C07 — sorting-based algorithms only emit safe schedules.

  Property theorems only (helpers: `Lemmas/SortedBasic|Greedy|RR|Pre.lean`).  Carrier: any linear
  ordered field `K`.  The feasibility check is an ARBITRARY predicate `feas : List K → Bool`
  (the drivers instantiate it with `Acn.Feas.algFeasible` at the default tolerances), so nothing
  below depends on monotonicity, convexity or the sign pattern of the constraint matrix.
  Every statement is for any infrastructure, any session list, any queue order (hence all five
  sort orders), any `eps ≥ 0`, any increment (any level lists), any fuel.

  What the code does when even the lower bounds are infeasible: it raises `ValueError`
  ("Charging all sessions at their lower bound is not feasible.") and emits NO schedule; the
  theorems are therefore of the form `… = .ok schedule → …`.
-/
import AcnProofs.Lemmas.SortedGreedy
import AcnProofs.Lemmas.SortedRR
import AcnProofs.Lemmas.SortedPre
import AcnProofs.Lemmas.SortedSim
import AcnProofs.Lemmas.SortedSimRun
import AcnProofs.Lemmas.SortedSimInd
import AcnProofs.Lemmas.SortedSchedSafe
import AcnProofs.Lemmas.SortedRdSafe
import AcnProofs.Lemmas.SortedRdNoEst
import AcnProofs.Lemmas.SortedEst

set_option linter.unusedSectionVars false

namespace Acn.C07
open Acn Acn.Sorted

variable {K : Type} [Field K] [LinearOrder K] [IsStrictOrderedRing K]

/-- the bisection returns its lower end: the incoming (feasible) value or a tested midpoint -/
theorem bisect_lower_end (feas : List K → Bool) (sched : List K) (i : Nat) (eps : K)
    (fuel : Nat) (lb ub : K) :
    bisect feas sched i eps fuel lb ub = lb ∨
      feas (sched.set i (bisect feas sched i eps fuel lb ub)) = true :=
  bisect_cases feas sched i eps fuel lb ub

/-- the discrete walk stops at a tested level; the fallback 0 only after every level failed -/
theorem walkDown_tested (feas : List K → Bool) (sched : List K) (i : Nat) (l : List K) :
    (walkDown feas sched i l ∈ l ∧ feas (sched.set i (walkDown feas sched i l)) = true) ∨
    (walkDown feas sched i l = 0 ∧ ∀ a ∈ l, feas (sched.set i a) = false) :=
  walkDown_cases feas sched i l

/-- `greedy_invariant`: "the current schedule satisfies `feas`" is preserved by every assignment
    of the greedy loop.  Hypotheses: the station still holds the session's lower bound, and `LbOk`
    (finite-rate station: `lb = 0` or `lb` is one of its levels within `[lb, ub]`) — without it the
    source's UNTESTED fallback `0` could lower a positive `lb` to 0, see `lbOk_needed` below. -/
theorem greedy_invariant (feas : List K → Bool) (fuel : Nat) (eps : K) (infra : Infra K) (period : K)
    (sched : List K) (s : Session K) (r : K)
    (hf : feas sched = true) (hlb : sched.set s.idx (lbOf s) = sched) (hok : LbOk infra period s)
    (h : greedyRate feas fuel eps infra period sched s = .ok r) :
    feas (sched.set s.idx r) = true :=
  greedyRate_safe feas fuel eps infra period sched s r hf hlb hok h

/-- `greedy_feasible`: whatever `sorting_algorithm` returns passes the feasibility check
    (distinct stations; `LbOk` for every queued session). -/
theorem greedy_feasible (feas : List K → Bool) (fuel : Nat) (eps : K) (infra : Infra K) (period : K)
    (queue : List (Session K)) (sch : List K)
    (hnd : (queue.map (·.idx)).Nodup) (hok : ∀ s ∈ queue, LbOk infra period s)
    (h : sortingAlgorithm feas fuel eps infra period queue = .ok sch) : feas sch = true := by
  unfold sortingAlgorithm at h
  simp only at h
  split at h
  · cases h
  · rename_i hfe
    have hfe' : feas (initSchedule infra.ids.length queue) = true := by
      cases hx : feas (initSchedule infra.ids.length queue)
      · rw [hx] at hfe; exact absurd rfl hfe
      · rfl
    exact greedyLoop_inv feas fuel eps infra period queue _ sch hfe' hnd
      (initSchedule_lb _ queue hnd) hok h

/-- the hypothesis `LbOk` cannot be dropped for an arbitrary predicate: a finite-rate station
    whose caller-supplied lower bound 3 is not a level, with a predicate that accepts 3 only -/
example :
    sortingAlgorithm (fun x => x == [3]) 50 (1/100)
      (⟨["a"], [32], [8], [208], [false], [[0, 8, 16]]⟩ : Infra ℚ) 5
      [⟨"a", "x", 0, 0, 9, 9, 10, 0, 3, 32⟩] = .ok [0] ∧
    (fun (x : List ℚ) => x == [3]) [0] = false := by
  decide +kernel

/-- `rr_invariant`: one trip round the round-robin loop preserves the invariant (feasible
    schedule; every station sits at `levels[rate_idx]`), because a failed increment is reverted. -/
theorem rr_invariant (feas : List K → Bool) (levels : List (List K)) (all : List (Session K))
    (sch0 : List K) (st : RRState K) (h : RRInv feas levels all sch0 st) :
    RRInv feas levels all sch0 (rrStep feas levels st) :=
  rrStep_inv feas levels all sch0 st h

/-- `rr_feasible`: whatever `round_robin` returns passes the feasibility check — for ANY
    per-session level lists (any increment) and without assuming distinct stations. -/
theorem rr_feasible (feas : List K → Bool) (levelsOf : Session K → List K) (infra : Infra K)
    (queue : List (Session K)) (st : RRState K)
    (hidx : ∀ s ∈ queue, s.idx < infra.ids.length) (hlen : infra.allow.length = infra.ids.length)
    (h : roundRobin feas levelsOf infra queue = .ok st) : feas st.sched = true :=
  (roundRobin_spec feas levelsOf infra queue st h hidx hlen).1

/-- `pilot_accepted`, greedy.  Continuous station: the pilot lies in `[0, max_pilot]`
    (given the preprocessed bounds `0 ≤ max_rate ≤ max_pilot`, `min_rate ≤ max_rate`, `0 ≤`
    remaining demand); finite-rate station: the pilot is 0 or one of the station's levels. -/
theorem pilot_accepted_greedy (feas : List K → Bool) (fuel : Nat) (eps : K) (heps : 0 ≤ eps)
    (infra : Infra K) (period : K) (queue : List (Session K)) (sch : List K)
    (hnd : (queue.map (·.idx)).Nodup) (hidx : ∀ s ∈ queue, s.idx < infra.ids.length)
    (h : sortingAlgorithm feas fuel eps infra period queue = .ok sch) :
    ∀ s ∈ queue, ∃ r, sch[s.idx]? = some r ∧
      (infra.cont.getD s.idx true = true → 0 ≤ s.maxRate → s.minRate ≤ s.maxRate →
        s.maxRate ≤ infra.maxPilot.getD s.idx 0 → 0 ≤ rap infra period s →
        0 ≤ r ∧ r ≤ infra.maxPilot.getD s.idx 0) ∧
      (infra.cont.getD s.idx true = false → r = 0 ∨ r ∈ infra.allow.getD s.idx []) := by
  intro s hs
  unfold sortingAlgorithm at h
  simp only at h
  split at h
  · cases h
  · obtain ⟨_, _, hin⟩ := greedyLoop_values feas fuel eps infra period queue _ sch hnd h
    obtain ⟨cur, r, hr, hget⟩ := hin s hs (by
      unfold initSchedule; rw [fold_lb_length]; simp; exact hidx s hs)
    obtain ⟨hc, hd⟩ := greedyRate_range feas fuel eps heps infra period cur s r hr
    refine ⟨r, hget, ?_, ?_⟩
    · intro hcont h0 hmm hmp hrap
      obtain ⟨h1, h2⟩ := hc hcont
      have hlb0 : 0 ≤ lbOf s := by unfold lbOf; simp
      have hub0 : 0 ≤ ubOf infra period s := by unfold ubOf; simp; exact ⟨h0, hrap⟩
      have hlbm : lbOf s ≤ s.maxRate := by unfold lbOf; simp; exact ⟨h0, hmm⟩
      have hubm : ubOf infra period s ≤ s.maxRate := by unfold ubOf; simp
      constructor
      · rcases h1 with rfl | h1
        · exact hub0
        · exact le_trans hlb0 h1
      · exact le_trans h2 (le_trans (max_le hlbm hubm) hmp)
    · intro hfin
      rcases hd hfin with h0 | hm
      · left; exact h0
      · right; unfold levelsIn at hm; exact (List.mem_filter.mp hm).1

/-- `pilot_accepted`, round robin (`levelsOf = rrLevels …`, any ceiling function, any increment):
    the pilot is 0 or one of the session's filtered levels, hence within `[lb, ub] ⊆ [0, max_pilot]`,
    and on a finite-rate station one of the station's levels. -/
theorem pilot_accepted_rr [HasCeilNat K] (feas : List K → Bool) (infra : Infra K) (period inc : K)
    (queue : List (Session K)) (st : RRState K)
    (hnd : (queue.map (·.idx)).Nodup) (hidx : ∀ s ∈ queue, s.idx < infra.ids.length)
    (hlen : infra.allow.length = infra.ids.length)
    (h : roundRobin feas (rrLevels infra period inc) infra queue = .ok st) :
    ∀ s ∈ queue, ∃ r, st.sched[s.idx]? = some r ∧
      (r = 0 ∨ (0 ≤ r ∧ r ≤ infra.maxPilot.getD s.idx 0 ∧
        (infra.cont.getD s.idx true = false → r ∈ infra.allow.getD s.idx []))) := by
  intro s hs
  obtain ⟨_, _, _, hv⟩ := roundRobin_spec feas _ infra queue st h hidx hlen
  obtain ⟨r, hget, hr⟩ := hv hnd s hs
  refine ⟨r, hget, ?_⟩
  rcases hr with h0 | hm
  · left; exact h0
  · right
    unfold rrLevels at hm
    simp only [List.mem_filter, decide_eq_true_eq] at hm
    obtain ⟨⟨hbase, hlb⟩, hub⟩ := hm
    have hlb0 : 0 ≤ lbOf s := by unfold lbOf; simp
    refine ⟨le_trans hlb0 hlb, le_trans hub ?_, ?_⟩
    · unfold rrUb; simp
    · intro hfin
      rw [hfin] at hbase
      simpa using hbase

/-- `le_remaining`, greedy: the pilot never exceeds `max(ub, lb)` with
    `ub = min(max_rate, remaining_amp_periods)` — so it is at most the remaining demand and the
    session's max rate unless the (uninterrupted-charging) lower bound is larger. -/
theorem le_remaining_greedy (feas : List K → Bool) (fuel : Nat) (eps : K) (heps : 0 ≤ eps)
    (infra : Infra K) (period : K) (queue : List (Session K)) (sch : List K)
    (hnd : (queue.map (·.idx)).Nodup) (hidx : ∀ s ∈ queue, s.idx < infra.ids.length)
    (h : sortingAlgorithm feas fuel eps infra period queue = .ok sch) :
    ∀ s ∈ queue, ∃ r, sch[s.idx]? = some r ∧
      r ≤ max (lbOf s) (min s.maxRate (rap infra period s)) := by
  intro s hs
  unfold sortingAlgorithm at h
  simp only at h
  split at h
  · cases h
  · obtain ⟨_, _, hin⟩ := greedyLoop_values feas fuel eps infra period queue _ sch hnd h
    obtain ⟨cur, r, hr, hget⟩ := hin s hs (by
      unfold initSchedule; rw [fold_lb_length]; simp; exact hidx s hs)
    obtain ⟨hc, hd⟩ := greedyRate_range feas fuel eps heps infra period cur s r hr
    refine ⟨r, hget, ?_⟩
    have hub : ubOf infra period s = min s.maxRate (rap infra period s) := by unfold ubOf; simp
    rw [← hub]
    cases hcont : infra.cont.getD s.idx true
    · rcases hd hcont with h0 | hm
      · rw [h0]; exact le_max_of_le_left (by unfold lbOf; simp)
      · unfold levelsIn at hm
        simp only [List.mem_filter, Bool.and_eq_true, decide_eq_true_eq] at hm
        exact le_max_of_le_right hm.2.2
    · exact (hc hcont).2

/-- `le_remaining`, round robin: the pilot is 0 or at most
    `min(max_rate, max_pilot, remaining_amp_periods)`. -/
theorem le_remaining_rr [HasCeilNat K] (feas : List K → Bool) (infra : Infra K) (period inc : K)
    (queue : List (Session K)) (st : RRState K)
    (hnd : (queue.map (·.idx)).Nodup) (hidx : ∀ s ∈ queue, s.idx < infra.ids.length)
    (hlen : infra.allow.length = infra.ids.length)
    (h : roundRobin feas (rrLevels infra period inc) infra queue = .ok st) :
    ∀ s ∈ queue, ∃ r, st.sched[s.idx]? = some r ∧
      (r = 0 ∨ r ≤ min (min s.maxRate (infra.maxPilot.getD s.idx 0)) (rap infra period s)) := by
  intro s hs
  obtain ⟨_, _, _, hv⟩ := roundRobin_spec feas _ infra queue st h hidx hlen
  obtain ⟨r, hget, hr⟩ := hv hnd s hs
  refine ⟨r, hget, ?_⟩
  rcases hr with h0 | hm
  · left; exact h0
  · right
    unfold rrLevels at hm
    simp only [List.mem_filter, decide_eq_true_eq] at hm
    have := hm.2
    unfold rrUb at this
    simpa using this

/-- `le_estimator_bound`: after `run_preprocessing` with the (rampdown) estimator, every session's max
    rate is at most the estimator's bound stored under THAT SESSION's id (the repaired lookup of finding
    F6), unless its lower bound (the uninterrupted-charging minimum pilot) is larger.  Together with
    `le_remaining_*` (`r ≤ max lb (min max_rate …)`) the pilot obeys `r ≤ max bound lb`.
    NO hypothesis on the bounds in the estimator's dict (an earlier version asked for `0 ≤` every
    bound): negative bounds, bounds above the EVSE maximum, anything.  The same for an ARBITRARY
    estimator is `le_estimator_bound_any_estimator` (`AcnProofs/C07Est.lean`). -/
theorem le_estimator_bound (feas : List K → Bool) (cfg : Config K) (infra : Infra K) (period : K)
    (prev : String → Option (K × K)) (rd : Rampdown K) (l : List (Session K))
    (hest : cfg.estimate = true) :
    ∀ s ∈ (preprocess feas cfg infra period prev rd l).1, ∀ b,
      (preprocess feas cfg infra period prev rd l).2.bounds.lookup s.session = some b →
      s.maxRate ≤ max b (lbOf s) := by
  unfold preprocess
  simp only [hest, if_true]
  intro s hs b hb
  have hlb : s.minRate ≤ lbOf s := by unfold lbOf; simp
  split at hs
  · -- uninterrupted charging on top
    obtain ⟨s1, hs1, hrel⟩ := forall₂_mem_right (applyMinimumRate_rel feas infra period _) s hs
    rw [mem_sortBy] at hs1
    have hsid := minRel_session infra period s1 s hrel
    have hle := minRel_le_any infra period s1 s b hrel
      (applyUpperBound_le _ _ s1 hs1 b (by rw [← hsid]; exact hb))
    exact le_trans hle (max_le_max (le_refl _) hlb)
  · exact le_trans (applyUpperBound_le _ _ s hs b hb) (max_le_max (le_refl _) hlb)

/-- `zero_for_inactive`, greedy: a station that hosts no queued session gets 0 -/
theorem zero_for_inactive_greedy (feas : List K → Bool) (fuel : Nat) (eps : K)
    (infra : Infra K) (period : K) (queue : List (Session K)) (sch : List K)
    (hnd : (queue.map (·.idx)).Nodup)
    (h : sortingAlgorithm feas fuel eps infra period queue = .ok sch) :
    sch.length = infra.ids.length ∧
    ∀ j, j < infra.ids.length → (∀ t ∈ queue, t.idx ≠ j) → sch[j]? = some 0 := by
  unfold sortingAlgorithm at h
  simp only at h
  split at h
  · cases h
  · obtain ⟨hl, hout, _⟩ := greedyLoop_values feas fuel eps infra period queue _ sch hnd h
    constructor
    · rw [hl]; unfold initSchedule; rw [fold_lb_length]; simp
    · intro j hj hne
      rw [hout j hne]
      unfold initSchedule
      rw [fold_lb_other queue _ j hne]
      simp [hj]

/-- `zero_for_inactive`, round robin -/
theorem zero_for_inactive_rr (feas : List K → Bool) (levelsOf : Session K → List K) (infra : Infra K)
    (queue : List (Session K)) (st : RRState K)
    (hidx : ∀ s ∈ queue, s.idx < infra.ids.length) (hlen : infra.allow.length = infra.ids.length)
    (h : roundRobin feas levelsOf infra queue = .ok st) :
    st.sched.length = infra.ids.length ∧
    ∀ j, j < infra.ids.length → (∀ t ∈ queue, t.idx ≠ j) → st.sched[j]? = some 0 := by
  obtain ⟨_, hl, ho, _⟩ := roundRobin_spec feas levelsOf infra queue st h hidx hlen
  refine ⟨hl, fun j hj hne => ?_⟩
  rw [ho j hne]; simp [hj]

/-- `lb_mem_allowable`: `run_preprocessing` establishes `LbOk` for every session that enters with
    `min_rates ≤ 0` (what `Interface.active_sessions` hands out), on an infrastructure whose
    finite-rate stations list their minimum pilot among their levels. -/
theorem preprocess_lbOk (feas : List K → Bool) (cfg : Config K) (infra : Infra K) (period : K)
    (prev : String → Option (K × K)) (rd : Rampdown K) (l : List (Session K))
    (hinf : InfraOk infra) (hmin : ∀ s ∈ l, s.minRate ≤ 0) :
    ∀ s ∈ (preprocess feas cfg infra period prev rd l).1, LbOk infra period s := by
  have h1 : ∀ s ∈ enforcePilotLimit infra (removeFinished infra period l), s.minRate ≤ 0 := by
    intro s hs
    unfold enforcePilotLimit at hs
    obtain ⟨s0, h0, rfl⟩ := List.mem_map.mp hs
    unfold removeFinished at h0
    exact hmin s0 (List.mem_filter.mp h0).1
  have hzero : ∀ s : Session K, s.minRate ≤ 0 → LbOk infra period s := by
    intro s hs; right; left; unfold lbOf; simp [hs]
  unfold preprocess
  simp only
  intro s hs
  by_cases hest : cfg.estimate = true <;> by_cases hun : cfg.uninterrupted = true <;>
    simp only [hest, hun, if_true, if_false, Bool.false_eq_true] at hs
  · obtain ⟨s1, hs1, hrel⟩ := forall₂_mem_right (applyMinimumRate_rel feas infra period _) s hs
    rw [mem_sortBy] at hs1
    obtain ⟨s0, h0, hm, _⟩ := applyUpperBound_min _ _ s1 hs1
    exact minRel_lbOk infra period hinf s1 s hrel (by rw [hm]; exact h1 s0 h0)
  · obtain ⟨s0, h0, hm, _⟩ := applyUpperBound_min _ _ s hs
    exact hzero s (by rw [hm]; exact h1 s0 h0)
  · obtain ⟨s1, hs1, hrel⟩ := forall₂_mem_right (applyMinimumRate_rel feas infra period _) s hs
    rw [mem_sortBy] at hs1
    exact minRel_lbOk infra period hinf s1 s hrel (h1 s1 hs1)
  · exact hzero s (h1 s hs)

/-- `schedule_feasible`: the whole `schedule()` call (preprocessing, sort, allocation) of either
    algorithm, any sort order, any option combination, on resolved sessions `l`
    (`resolve infra raw = .ok l`, i.e. `get_station_index` succeeded for every session): if it
    returns a schedule, that schedule passes the feasibility check.  Hypotheses: sessions enter
    with `min_rates ≤ 0`, the infrastructure is well formed, and the queue has distinct, valid
    station indices. -/
theorem schedule_feasible [HasCeilNat K] (feas : List K → Bool) (cfg : Config K) (infra : Infra K)
    (period : K) (time : Int) (prev : String → Option (K × K)) (rd : Rampdown K)
    (raw l : List (Session K)) (sch : List K)
    (hres : resolve infra raw = .ok l)
    (hinf : InfraOk infra) (hlen : infra.allow.length = infra.ids.length)
    (hmin : ∀ s ∈ l, s.minRate ≤ 0)
    (hnd : ((scheduleCall feas cfg infra period time prev rd raw).order.map (·.idx)).Nodup)
    (hidx : ∀ s ∈ (scheduleCall feas cfg infra period time prev rd raw).order, s.idx < infra.ids.length)
    (h : (scheduleCall feas cfg infra period time prev rd raw).result = .ok sch) :
    feas sch = true := by
  unfold scheduleCall at h hnd hidx
  simp only [hres] at h hnd hidx
  have hok : ∀ s ∈ sortSessions cfg.sort infra period time (preprocess feas cfg infra period prev rd l).1,
      LbOk infra period s := by
    intro s hs
    unfold sortSessions at hs
    rw [mem_sortBy] at hs
    exact preprocess_lbOk feas cfg infra period prev rd l hinf hmin s hs
  cases hal : cfg.algo with
  | greedy =>
    simp only [hal] at h hnd hidx
    exact greedy_feasible feas cfg.fuel cfg.eps infra period _ sch hnd hok h
  | roundRobin =>
    simp only [hal] at h hnd hidx
    cases hrr : roundRobin feas (rrLevels infra period cfg.inc) infra
        (sortSessions cfg.sort infra period time (preprocess feas cfg infra period prev rd l).1) with
    | error e => simp only [hrr] at h; cases h
    | ok st =>
      simp only [hrr] at h hidx
      cases h
      exact rr_feasible feas _ infra _ st hidx hlen hrr

/- FULL statement `sim_consequences`: in the shared simulator model (`Sim.run cfg sched`) with
   `sched` = one of these algorithms reading its sessions / infrastructure off the `View`, for every
   valid configuration and every period: `applyStage` raises no `InvalidRate`, the schedule written
   to the pilot matrix is feasible for the network, and every EV has `delivered ≤ requested`.
   Proved below (per period, on the shared `Sim` model, for ANY scheduler): the two steps that turn
   C07's per-call guarantees into these consequences —
     * pilots of the shape `pilot_accepted_*` / `zero_for_inactive_*` establish (`Accepts`) make the
       whole `applyStage` free of `InvalidRate` (all stations, in order, incl. widening / storing);
     * pilots within the occupants' remaining demand (`le_remaining_*`) keep `delivered ≤ requested`
       and the battery invariant for every EV record through the whole `update_pilots` of the period
       (via C03's `0 ≤ rate ≤ pilot`).
   Also proved (`sim_period_composition`, below): with the modelled algorithm as `Sim` scheduler
   (`AcnModel/SimSorted.lean`) the column applied in a period IS the algorithm's array, and that
   array is feasible; other columns and the matrix shape are untouched.
   Also proved at RUN level (`sim_consequences_of_schedSafe`, below): for ANY scheduler with the
   per-call guarantees `SchedSafe`, by induction over `Sim.run` on top of C02's ledger invariant
   (`Ledger.Inv`, `body_ledger`), C04's `submit_get` and sim-core's projection lemmas: no `InvalidRate`
   at any loop head, and `delivered ≤ requested` + battery invariant for every EV record at every
   loop head.  The link lemmas `resolve_spec`, `preprocess_derived` (identity fields and bounds
   through preprocessing), `scheduleCall_grants` (`GrantOk` for every queued session, 0 elsewhere, both
   algorithms), `occupant_station`, `active_is_occupant` are proved (`Lemmas/SortedLink.lean`,
   `SortedSimInd.lean`).
   The FULL run-level statement is `sim_consequences` (below): `SchedSafe` is proved for the modelled
   sorted algorithms (`Lemmas/SortedSchedSafe.lean`) and "column is feasible or zero" is part of the
   loop-head invariant.  `Sim`'s scheduler parameter is a pure function of the view, so that adapter
   covers `estimate_max_rate = False`.  The rampdown estimator (`SimpleRampdown`, stateful across
   calls) is covered by `sim_consequences_rampdown` (further below): the run loop `SimSortedRd.runSt`
   threads the estimator from call to call; it coincides with `Sim.run` when the state is ignored
   (`runSt_eq_run`, `runSt_noest_eq_run`).
   The composition is TIED TO THE CODE: the C07 check runs every generated whole simulation — with
   and without estimator — through `runSt` / `Sim.run` with the modelled algorithm as scheduler and
   compares pilots, rates, energies, iteration and error class with the real Simulator + real
   algorithm (C08: the simulations without estimator). -/
theorem sim_no_invalid_rate_partial [HasExp K] (cfg : Sim.Cfg K) (htol : TolOk cfg) (s : Sim.State K)
    (h : ∀ k st, cfg.stations[k]? = some st →
      Accepts st.kind ((Sim.widen s).pilots.get k (Sim.widen s).core.iter)) :
    (Sim.applyStage cfg s).2 ≠ some .invalidRate :=
  applyStage_not_invalidRate cfg htol s h

/-- the pilots C07 proves have the shape `Accepts` asks for -/
theorem accepts_of_pilot_accepted (r mx : K) (rates : List K) :
    (0 ≤ r → r ≤ mx → Accepts (.cont 0 (some mx)) r) ∧
    ((0 : K) ∈ rates → (r = 0 ∨ r ∈ rates) → Accepts (.finite rates) r) ∧
    (∀ (k : Evse.Kind K), (∀ db m, k ≠ .deadband db m) → (∀ l, k = .finite l → (0 : K) ∈ l) →
      (∀ mn m, k = .cont mn m → mn ≤ 0 ∧ ∀ x, m = some x → 0 ≤ x) → Accepts k 0) := by
  refine ⟨fun h0 h1 => ⟨le_refl _, h0, h1⟩, ?_, ?_⟩
  · intro h0 h
    rcases h with rfl | h
    · exact h0
    · exact h
  · intro k hd hf hc
    cases k with
    | cont mn m =>
      obtain ⟨h1, h2⟩ := hc mn m rfl
      refine ⟨h1, le_refl _, ?_⟩
      cases m with
      | none => trivial
      | some x => exact h2 x rfl
    | deadband db m => exact absurd rfl (hd db m)
    | finite l => exact hf l rfl

/-- one `EV.charge` with a non-negative pilot within the remaining demand (amp-periods) keeps
    `delivered ≤ requested` and the battery invariant (ℝ; uses C03 `0 ≤ rate ≤ pilot`) -/
theorem ev_charge_le_requested {e e' : Evse.Ev ℝ} (hb : BattAlg.Inv e.batt)
    {pilot V T ν : ℝ} (hp : 0 ≤ pilot) (hV : 0 < V) (hT : 0 < T)
    (hrem : pilot ≤ (e.requested - e.delivered) * 1000 / V * 60 / T)
    (h : e.charge pilot V T ν = .ok e') :
    e'.delivered ≤ e.requested ∧ e'.requested = e.requested ∧ e.delivered ≤ e'.delivered ∧
    BattAlg.Inv e'.batt :=
  charge_le_requested hb hp hV hT hrem h

/-- a whole `network.update_pilots` of one period in the shared simulator model (all stations in
    order, stopping at a raise as the code does) keeps, for EVERY EV record, `delivered ≤ requested`
    and the battery invariant — provided each occupied station's pilot of this period is
    non-negative and at most its occupant's remaining demand in amp-periods (what `le_remaining_*`
    and `pilot_accepted_*` give for a schedule computed in this period) and the occupants are
    distinct sessions (C01). -/
theorem sim_delivered_le_requested_partial (cfg : Sim.Cfg ℝ) (hT : 0 < cfg.period) (s : Sim.State ℝ)
    (hV : ∀ st ∈ cfg.stations, 0 < st.voltage)
    (hinv : ∀ e ∈ s.evs, LedgerOk e)
    (hdist : cfg.stations.Pairwise (fun a b => ∀ x y, s.core.occ a.id = some x →
      s.core.occ b.id = some y → x.id ≠ y.id))
    (hp : ∀ k st, cfg.stations[k]? = some st → ∀ e, Sim.occupantEv s st.id = some e →
      0 ≤ s.pilots.get k s.core.iter ∧ s.pilots.get k s.core.iter ≤ rapEv cfg st e) :
    ∀ e ∈ (Sim.updatePilots cfg s).1.evs, LedgerOk e :=
  updatePilotsFrom_ledger cfg hT cfg.stations 0 s hV hinv hdist
    (by intro k st hk e he; rw [Nat.zero_add]; exact hp k st hk e he)

/-- the array returned by a successful `schedule()` call has one entry per station -/
theorem schedule_length [HasCeilNat K] (feas : List K → Bool) (cfg : Config K) (infra : Infra K)
    (period : K) (time : Int) (prev : String → Option (K × K)) (rd : Rampdown K)
    (raw l : List (Session K)) (sch : List K)
    (hres : resolve infra raw = .ok l) (hlen : infra.allow.length = infra.ids.length)
    (hnd : ((scheduleCall feas cfg infra period time prev rd raw).order.map (·.idx)).Nodup)
    (hidx : ∀ s ∈ (scheduleCall feas cfg infra period time prev rd raw).order, s.idx < infra.ids.length)
    (h : (scheduleCall feas cfg infra period time prev rd raw).result = .ok sch) :
    sch.length = infra.ids.length := by
  unfold scheduleCall at h hnd hidx
  simp only [hres] at h hnd hidx
  cases hal : cfg.algo with
  | greedy =>
    simp only [hal] at h hnd hidx
    exact (zero_for_inactive_greedy feas cfg.fuel cfg.eps infra period _ sch hnd h).1
  | roundRobin =>
    simp only [hal] at h hnd hidx
    cases hrr : roundRobin feas (rrLevels infra period cfg.inc) infra
        (sortSessions cfg.sort infra period time (preprocess feas cfg infra period prev rd l).1) with
    | error e => simp only [hrr] at h; cases h
    | ok st =>
      simp only [hrr] at h hidx
      cases h
      exact (zero_for_inactive_rr feas _ infra _ st hidx hlen hrr).1

/-- `sim_period_composition`: ONE period of the shared simulator model with the MODELLED sorted
    algorithm as scheduler (`SimSorted.sortedSched`, the adapter from the `View`).  If `schedStage`
    returns the new pilot matrix `m`, then there is an array `sch` — the result of the modelled
    `schedule()` call on the sessions / infrastructure read off the view — such that
      * `sch` passes the feasibility predicate of the network (`schedule_feasible`),
      * column `iter` of `m` is `sch`, station by station (C04 `submit_get`): the column
        `update_pilots` applies in this period satisfies the feasibility predicate,
      * every other column and the shape invariant of the matrix are unchanged.
    Hypotheses: distinct station ids, at least one station, well-formed matrix, and — as in
    `schedule_feasible` — resolved sessions with `min_rates ≤ 0` (the adapter sets 0) and a queue
    with distinct valid station indices (C01: one session per EVSE). -/
theorem sim_period_composition [HasCeilNat K] [HasExp K] (net : SimSorted.NetInfo K) (inf : K)
    (cfg : Sim.Cfg K) (scfg : Config K) (s : Sim.State K) (m : Pilots.Mat K)
    (l : List (Session K))
    (hids : (SimSorted.infraOf inf cfg).ids.Nodup) (hne : (SimSorted.infraOf inf cfg).ids ≠ [])
    (hwf : s.pilots.WF (SimSorted.infraOf inf cfg).ids.length)
    (hinf : InfraOk (SimSorted.infraOf inf cfg))
    (hres : resolve (SimSorted.infraOf inf cfg)
      ((Sim.view cfg s).active.map (SimSorted.sessionOfEv inf (Sim.view cfg s).iter)) = .ok l)
    (hmin : ∀ x ∈ l, x.minRate ≤ 0)
    (hnd : ((scheduleCall (SimSorted.feasOf net) { scfg with estimate := false }
      (SimSorted.infraOf inf cfg) cfg.period ((Sim.view cfg s).iter : Int) (fun _ => none)
      { upTh := 0, downTh := 0, upInc := 0, bounds := [] }
      ((Sim.view cfg s).active.map (SimSorted.sessionOfEv inf (Sim.view cfg s).iter))).order.map (·.idx)).Nodup)
    (hidx : ∀ x ∈ (scheduleCall (SimSorted.feasOf net) { scfg with estimate := false }
      (SimSorted.infraOf inf cfg) cfg.period ((Sim.view cfg s).iter : Int) (fun _ => none)
      { upTh := 0, downTh := 0, upInc := 0, bounds := [] }
      ((Sim.view cfg s).active.map (SimSorted.sessionOfEv inf (Sim.view cfg s).iter))).order,
      x.idx < (SimSorted.infraOf inf cfg).ids.length)
    (h : Sim.schedStage cfg (SimSorted.sortedSched net inf cfg scfg) s = .ok m) :
    ∃ sch : List K,
      SimSorted.feasOf net sch = true ∧ sch.length = (SimSorted.infraOf inf cfg).ids.length ∧
      m.WF (SimSorted.infraOf inf cfg).ids.length ∧
      (∀ k, k < (SimSorted.infraOf inf cfg).ids.length → m.get k s.core.iter = sch.getD k 0) ∧
      (∀ k τ, k < (SimSorted.infraOf inf cfg).ids.length → τ ≠ s.core.iter →
        m.get k τ = s.pilots.get k τ) := by
  have hlen : (SimSorted.infraOf inf cfg).allow.length = (SimSorted.infraOf inf cfg).ids.length := by
    simp [SimSorted.infraOf]
  unfold Sim.schedStage at h
  split at h
  · cases h
  · unfold SimSorted.sortedSched at h
    simp only at h
    cases hr : (scheduleCall (SimSorted.feasOf net) { scfg with estimate := false }
        (SimSorted.infraOf inf cfg) cfg.period ((Sim.view cfg s).iter : Int) (fun _ => none)
        { upTh := 0, downTh := 0, upInc := 0, bounds := [] }
        ((Sim.view cfg s).active.map (SimSorted.sessionOfEv inf (Sim.view cfg s).iter))).result with
    | error e => rw [hr] at h; cases h
    | ok sch =>
      rw [hr] at h
      simp only at h
      have hfe := schedule_feasible _ _ _ _ _ _ _ _ l sch hres hinf hlen hmin hnd hidx hr
      have hl := schedule_length _ _ _ _ _ _ _ _ l sch hres hlen hnd hidx hr
      split at h
      · cases h
      · rename_i m' hup
        cases h
        have hids' : (SimSorted.infraOf inf cfg).ids = cfg.stations.map (·.id) := rfl
        rw [← hids'] at hup
        obtain ⟨h1, h2, h3⟩ := update_with_array (SimSorted.infraOf inf cfg) hids hne sch hl
          s.pilots m hwf s.core.iter _ hup
        exact ⟨sch, hfe, hl, h1, h2, h3⟩

/-- `sim_consequences`, run level, for ANY scheduler with the per-call guarantees `SchedSafe`
    (never raises `InvalidRate` itself; answers with the dict of an array whose entry for each
    station has the accepted shape and lies within `[0, remaining demand of the occupant]`):
    on a well-formed configuration (`CfgOk`: distinct stations, continuous-from-zero / finite-rate
    EVSEs, positive voltages and period, distinct session ids) and for EVERY fuel `n` — i.e. at
    every loop head of `Simulator.run` — the run has raised no `InvalidRate`, and if it has not
    aborted every EV record has `delivered ≤ requested` and the battery invariant.  (Both
    scheduling branches of the loop are covered: a period without scheduler call applies zeros.) -/
theorem sim_consequences_of_schedSafe (feasP : List ℝ → Bool) (cfg : Sim.Cfg ℝ) (inf : ℝ)
    (hc : CfgOk cfg inf)
    (sched : Sim.View ℝ → Except EventCore.Err (Sim.Schedule ℝ)) (hs : SchedSafe feasP cfg inf sched)
    (hb : ∀ e ∈ cfg.evs, BattAlg.Inv e.batt ∧ e.delivered ≤ e.requested) (n : Nat) :
    (Sim.run cfg sched n (Sim.init cfg)).2 ≠ some .invalidRate ∧
    ((Sim.run cfg sched n (Sim.init cfg)).2 = none →
      (∀ e ∈ (Sim.run cfg sched n (Sim.init cfg)).1.evs,
        e.delivered ≤ e.requested ∧ BattAlg.Inv e.batt) ∧
      (∀ τ, τ < (Sim.run cfg sched n (Sim.init cfg)).1.core.iter →
        ColOk feasP (Sim.run cfg sched n (Sim.init cfg)).1.pilots cfg.stations.length τ)) := by
  obtain ⟨h1, h2⟩ := run_safe feasP cfg inf hc sched hs n (Sim.init cfg) (init_sinv feasP cfg hb)
  exact ⟨h1, fun h => ⟨fun e he => ⟨((h2 h).evs e he).1.2, ((h2 h).evs e he).1.1⟩, (h2 h).cols⟩⟩

/-- the scheduler side of `SchedSafe` that IS proved for the modelled sorted algorithms: they never
    raise `InvalidRate` themselves (`KeyError` / `ValueError` only) -/
theorem sortedSched_no_invalidRate [HasCeilNat ℝ] (net : SimSorted.NetInfo ℝ) (inf : ℝ)
    (cfg : Sim.Cfg ℝ) (scfg : Config ℝ) (v : Sim.View ℝ) (e : EventCore.Err)
    (h : SimSorted.sortedSched net inf cfg scfg v = .error e) : e ≠ .invalidRate := by
  unfold SimSorted.sortedSched at h
  simp only at h
  split at h
  · rename_i e' _
    cases h
    cases e' <;> simp [SimSorted.errOf]
  · cases h

/-- `SchedSafe` is satisfiable: the scheduler that answers with the all-zero array (what
    `zero_for_inactive_*` gives every vacant station) has the per-call guarantees, so the run-level
    theorem applies to it -/
theorem zero_sched_safe (feasP : List ℝ → Bool) (cfg : Sim.Cfg ℝ) (inf : ℝ) (hc : CfgOk cfg inf)
    (hz : feasP (List.replicate cfg.stations.length 0) = true) :
    SchedSafe feasP cfg inf (fun _ => .ok (formatArraySchedule (SimSorted.infraOf inf cfg)
      (List.replicate cfg.stations.length 0))) := by
  constructor
  · intro v e h
    simp at h
  intro a _ hev sch hsch
  simp only [Except.ok.injEq] at hsch
  subst hsch
  refine ⟨List.replicate cfg.stations.length 0, rfl, by simp, hz, ?_, ?_⟩
  · intro k st hk
    have hk' : k < cfg.stations.length := (List.getElem?_eq_some_iff.mp hk).1
    have : (List.replicate cfg.stations.length (0 : ℝ)).getD k 0 = 0 := by
      rw [List.getD_eq_getElem?_getD, List.getElem?_replicate]
      split <;> rfl
    rw [this]
    exact accepts_zero inf st.kind (hc.kinds st (List.mem_of_getElem? hk))
  · intro k st e hk he
    have : (List.replicate cfg.stations.length (0 : ℝ)).getD k 0 = 0 := by
      rw [List.getD_eq_getElem?_getD, List.getElem?_replicate]
      split <;> rfl
    rw [this]
    have hmem : e ∈ a.evs := by
      unfold Sim.occupantEv at he
      split at he
      · exact List.mem_of_find?_eq_some he
      · cases he
    exact ⟨le_refl _, rapEv_nonneg cfg st e (hc.volt st (List.mem_of_getElem? hk)) hc.per
      (hev e hmem).1.2⟩

/-- `sim_consequences` — UNCONDITIONAL for the modelled sorted algorithms without estimator
    (greedy and round robin, every sort order, uninterrupted on/off, any increment, any `eps ≥ 0`,
    any constraint matrix incl. mixed signs / limits / phasors / tolerances): in the shared simulator
    model with `SimSorted.sortedSched` as scheduler, on every well-formed configuration (`CfgOk`:
    distinct station ids, continuous-from-zero or finite-rate EVSEs, positive voltages and period,
    distinct session ids; batteries start with their invariant and `delivered ≤ requested`) and for
    EVERY fuel `n` — i.e. at every loop head of `Simulator.run`:
      * the run has raised no `InvalidRate`,
      * if it has not aborted, every EV record has `delivered ≤ requested` and the battery invariant,
      * and every column of the pilot matrix applied so far passes the network's feasibility
        predicate or is all zero (a period without scheduler call applies zeros). -/
theorem sim_consequences [HasCeilNat ℝ] (net : SimSorted.NetInfo ℝ) (inf : ℝ) (cfg : Sim.Cfg ℝ)
    (scfg : Config ℝ) (hc : CfgOk cfg inf) (heps : 0 ≤ scfg.eps)
    (hb : ∀ e ∈ cfg.evs, BattAlg.Inv e.batt ∧ e.delivered ≤ e.requested) (n : Nat) :
    (Sim.run cfg (SimSorted.sortedSched net inf cfg scfg) n (Sim.init cfg)).2 ≠ some .invalidRate ∧
    ((Sim.run cfg (SimSorted.sortedSched net inf cfg scfg) n (Sim.init cfg)).2 = none →
      (∀ e ∈ (Sim.run cfg (SimSorted.sortedSched net inf cfg scfg) n (Sim.init cfg)).1.evs,
        e.delivered ≤ e.requested ∧ BattAlg.Inv e.batt) ∧
      (∀ τ, τ < (Sim.run cfg (SimSorted.sortedSched net inf cfg scfg) n (Sim.init cfg)).1.core.iter →
        ColOk (SimSorted.feasOf net)
          (Sim.run cfg (SimSorted.sortedSched net inf cfg scfg) n (Sim.init cfg)).1.pilots
          cfg.stations.length τ)) :=
  sim_consequences_of_schedSafe (SimSorted.feasOf net) cfg inf hc _
    (sortedSched_schedSafe net inf cfg scfg hc heps) hb n

/-! ### the rampdown estimator: a scheduler with state inside the simulator loop -/

/-- `runSt` (the simulator loop with the scheduler's state threaded from call to call,
    `AcnModel/SimSortedRd.lean`) coincides with `Sim.run` when the scheduler ignores the state:
    same final simulator state, same error, state untouched — for every carrier, scheduler, fuel
    and starting point. -/
theorem runSt_eq_run {K : Type} [Add K] [Sub K] [Mul K] [Div K] [Neg K] [LT K] [LE K]
    [DecidableLT K] [DecidableLE K] [OfNat K 0] [OfNat K 1] [NatCast K] [HasExp K] {σ : Type}
    (cfg : Sim.Cfg K) (sched : Sim.View K → Except EventCore.Err (Sim.Schedule K)) (n : Nat) (st : σ)
    (s : Sim.State K) :
    SimSortedRd.runSt cfg (SimSortedRd.lift sched) n st s = (Sim.run cfg sched n s, st) :=
  SimSortedRd.runSt_lift cfg sched n st s

/-- with `estimate_max_rate = False` the sorted algorithm as a stateful scheduler
    (`SimSortedRd.sortedSchedSt`) never reads or writes the estimator, and the stateful run IS the
    run of `sim_consequences` (`Sim.run` with `SimSorted.sortedSched`) -/
theorem runSt_noest_eq_run [HasCeilNat K] [HasExp K] (net : SimSorted.NetInfo K) (inf : K)
    (cfg : Sim.Cfg K) (scfg : Config K) (hest : scfg.estimate = false) (n : Nat) (rd : Rampdown K)
    (s : Sim.State K) :
    SimSortedRd.runSt cfg (SimSortedRd.sortedSchedSt net inf cfg scfg) n rd s =
      (Sim.run cfg (SimSorted.sortedSched net inf cfg scfg) n s, rd) := by
  rw [SimSortedRd.sortedSchedSt_noest net inf cfg scfg hest]
  exact SimSortedRd.runSt_lift cfg _ n rd s

/-- the rampdown estimator's lookup `prev_rate[session_id]` (upper_bound_estimator.py:129) cannot
    raise on a simulator view: every session with a previous pilot has a previous rate -/
theorem rampdown_prev_total [HasExp K] (cfg : Sim.Cfg K) (s : Sim.State K) (sid : String)
    (h : (SimSortedRd.dictGet (Sim.view cfg s).lastPilots sid).isSome = true) :
    (SimSortedRd.prevOf (Sim.view cfg s) sid).isSome = true := by
  have h2 := SimSortedRd.prevOf_total cfg s sid h
  unfold SimSortedRd.prevOf
  cases h1 : SimSortedRd.dictGet (Sim.view cfg s).lastPilots sid with
  | none => rw [h1] at h; cases h
  | some pp =>
    simp only
    cases h3 : SimSortedRd.dictGet ((Sim.view cfg s).active.map fun e => (e.session, e.rate)) sid with
    | none => rw [h3] at h2; cases h2
    | some pr => rfl

/-- run level, for ANY stateful scheduler: if every scheduler state satisfying an invariant `P`
    (preserved by the scheduler's own transitions) has the per-call guarantees `SchedSafe` when frozen,
    then at every loop head of the stateful run (every fuel `n`, started with `P st0`): no
    `InvalidRate`, and if the run has not aborted every EV record has `delivered ≤ requested` and the
    battery invariant, every applied column is feasible or zero, and `P` still holds. -/
theorem sim_consequences_of_schedSafe_st {σ : Type} (feasP : List ℝ → Bool) (cfg : Sim.Cfg ℝ) (inf : ℝ)
    (hc : CfgOk cfg inf)
    (sched : σ → Sim.View ℝ → Except EventCore.Err (Sim.Schedule ℝ × σ)) (P : σ → Prop)
    (hP : ∀ st v sch st', P st → sched st v = .ok (sch, st') → P st')
    (hs : ∀ st, P st → SchedSafe feasP cfg inf (SimSortedRd.frozen sched st))
    (hb : ∀ e ∈ cfg.evs, BattAlg.Inv e.batt ∧ e.delivered ≤ e.requested) (st0 : σ) (h0 : P st0)
    (n : Nat) :
    (SimSortedRd.runSt cfg sched n st0 (Sim.init cfg)).1.2 ≠ some .invalidRate ∧
    ((SimSortedRd.runSt cfg sched n st0 (Sim.init cfg)).1.2 = none →
      (∀ e ∈ (SimSortedRd.runSt cfg sched n st0 (Sim.init cfg)).1.1.evs,
        e.delivered ≤ e.requested ∧ BattAlg.Inv e.batt) ∧
      (∀ τ, τ < (SimSortedRd.runSt cfg sched n st0 (Sim.init cfg)).1.1.core.iter →
        ColOk feasP (SimSortedRd.runSt cfg sched n st0 (Sim.init cfg)).1.1.pilots cfg.stations.length τ)) ∧
    P (SimSortedRd.runSt cfg sched n st0 (Sim.init cfg)).2 := by
  obtain ⟨h1, h2, h3⟩ := SimSortedRd.runSt_safe feasP cfg inf hc sched P hP hs n st0 (Sim.init cfg) h0
    (init_sinv feasP cfg hb)
  exact ⟨h1, fun h => ⟨fun e he => ⟨((h2 h).evs e he).1.2, ((h2 h).evs e he).1.1⟩, (h2 h).cols⟩, h3⟩

/-- the per-call guarantees hold for EVERY estimator state: whatever thresholds, increment and dict
    of per-session bounds the `SimpleRampdown` object holds (the estimator only lowers `max_rates`,
    `reconcile_max_and_min` keeps them ≥ `min_rates` — the uninterrupted-charging minimum — and
    `enforce_pilot_limit` ≤ `max_pilot`), one `schedule()` call on a simulator view answers with an
    array that is feasible, has an accepted entry per station and stays within every occupant's
    remaining demand. -/
theorem rampdown_call_safe [HasCeilNat ℝ] (net : SimSorted.NetInfo ℝ) (inf : ℝ) (cfg : Sim.Cfg ℝ)
    (scfg : Config ℝ) (hc : CfgOk cfg inf) (heps : 0 ≤ scfg.eps) (rd : Rampdown ℝ) :
    SchedSafe (SimSorted.feasOf net) cfg inf
      (SimSortedRd.frozen (SimSortedRd.sortedSchedSt net inf cfg scfg) rd) :=
  sortedSchedSt_schedSafe net inf cfg scfg hc heps rd

/-- `sim_consequences_rampdown` — `sim_consequences` WITH the rampdown upper-bound estimator
    (`estimate_max_rate = True`, `SimpleRampdown`), UNCONDITIONAL in the estimator: for the modelled
    sorted algorithms (greedy and round robin, every sort order, uninterrupted on/off, estimator on/off,
    any increment, any `eps ≥ 0`, any constraint matrix) as a STATEFUL scheduler in the simulator loop
    (`SimSortedRd.runSt` with `SimSortedRd.sortedSchedSt`: the estimator object persists from call to
    call and reads last period's pilots / actual rates off the interface), started from ANY estimator
    state `rd0` (any thresholds and increment — also negative —, any dict of bounds; the code starts
    from the empty dict), on every well-formed configuration (same `CfgOk` and battery hypotheses as
    `sim_consequences`) and for EVERY fuel `n` — i.e. at every loop head of `Simulator.run`:
      * the run has raised no `InvalidRate`,
      * if it has not aborted, every EV record has `delivered ≤ requested` and the battery invariant,
      * and every column of the pilot matrix applied so far passes the network's feasibility
        predicate or is all zero.
    No hypothesis on the estimator's inputs is needed. -/
theorem sim_consequences_rampdown [HasCeilNat ℝ] (net : SimSorted.NetInfo ℝ) (inf : ℝ) (cfg : Sim.Cfg ℝ)
    (scfg : Config ℝ) (hc : CfgOk cfg inf) (heps : 0 ≤ scfg.eps)
    (hb : ∀ e ∈ cfg.evs, BattAlg.Inv e.batt ∧ e.delivered ≤ e.requested) (rd0 : Rampdown ℝ) (n : Nat) :
    (SimSortedRd.runSt cfg (SimSortedRd.sortedSchedSt net inf cfg scfg) n rd0 (Sim.init cfg)).1.2
      ≠ some .invalidRate ∧
    ((SimSortedRd.runSt cfg (SimSortedRd.sortedSchedSt net inf cfg scfg) n rd0 (Sim.init cfg)).1.2 = none →
      (∀ e ∈ (SimSortedRd.runSt cfg (SimSortedRd.sortedSchedSt net inf cfg scfg) n rd0 (Sim.init cfg)).1.1.evs,
        e.delivered ≤ e.requested ∧ BattAlg.Inv e.batt) ∧
      (∀ τ, τ < (SimSortedRd.runSt cfg (SimSortedRd.sortedSchedSt net inf cfg scfg) n rd0
            (Sim.init cfg)).1.1.core.iter →
        ColOk (SimSorted.feasOf net)
          (SimSortedRd.runSt cfg (SimSortedRd.sortedSchedSt net inf cfg scfg) n rd0 (Sim.init cfg)).1.1.pilots
          cfg.stations.length τ)) := by
  obtain ⟨h1, h2, _⟩ := sim_consequences_of_schedSafe_st (SimSorted.feasOf net) cfg inf hc
    (SimSortedRd.sortedSchedSt net inf cfg scfg) (fun _ => True) (fun _ _ _ _ _ _ => trivial)
    (fun rd _ => sortedSchedSt_schedSafe net inf cfg scfg hc heps rd) hb rd0 trivial n
  exact ⟨h1, h2⟩

/-! ### non-vacuity: concrete instances over ℚ on which the hypotheses hold and the algorithms run -/

/-- mixed-sign predicate `|x₀ − x₁| ≤ 10 ∧ x₀ + x₁ ≤ 30`, station 0 continuous, station 1 finite -/
def exFeas : List ℚ → Bool := fun x =>
  decide (x.getD 0 0 - x.getD 1 0 ≤ 10) && decide (x.getD 1 0 - x.getD 0 0 ≤ 10) &&
  decide (x.getD 0 0 + x.getD 1 0 ≤ 30)

def exInfra : Infra ℚ := ⟨["a", "b"], [32, 32], [0, 8], [208, 208], [true, false], [[0, 32], [0, 8, 16, 24, 32]]⟩

def exQueue : List (Session ℚ) :=
  [⟨"a", "x", 0, 0, 9, 9, 10, 0, 0, 32⟩, ⟨"b", "y", 1, 1, 8, 8, 10, 0, 8, 32⟩]

/-- greedy: the hypotheses of `greedy_feasible` hold (distinct stations; `LbOk`: station 1 is
    finite with `lb = 8`, one of its levels); the run succeeds, the first session is held just
    below 18 by the mixed-sign row, the second keeps level 8, and the result is feasible -/
example : (exQueue.map (·.idx)).Nodup ∧ (8 : ℚ) ∈ levelsIn exInfra 1 8 (ubOf exInfra 5 ⟨"b", "y", 1, 1, 8, 8, 10, 0, 8, 32⟩) := by
  decide +kernel

example :
    (match sortingAlgorithm exFeas 50 (1/100) exInfra 5 exQueue with
     | .ok sch => exFeas sch && decide (sch.getD 1 0 = 8) && decide (17 < sch.getD 0 0) &&
                  decide (sch.getD 0 0 ≤ 18)
     | .error _ => false) = true := by
  decide +kernel

/-- round robin with unit levels: station 1's step to 16 is blocked by the mixed-sign row while
    station 0 is still low (and is reverted to 8); station 0 then climbs to its top level -/
example :
    (match roundRobin exFeas (fun s => if s.idx = 0 then [0, 1, 2, 3, 4, 5, 6, 7, 8, 9, 10, 11, 12] else [8, 16, 24])
        exInfra exQueue with
     | .ok st => exFeas st.sched && decide (st.sched = [12, 8]) && st.queue.isEmpty
     | .error _ => false) = true := by
  decide +kernel

/-! ### non-vacuity of `sim_consequences_rampdown`: a run in which the estimator acts -/

section rdex
local instance : HasExp ℚ := ⟨fun x => x⟩
local instance : HasCeilNat ℚ := ⟨fun x => (Rat.ceil x).toNat⟩

/-- continuous station A and finite-rate station B (1000 V, 60-minute periods) behind one constraint
    `|x_A + x_B| ≤ 40`; `x` on A has a battery that takes at most 7 kW (7 A), `y` on B takes 40 kW -/
def rdCfg (K : Type) [Field K] : Sim.Cfg K :=
  { stations := [⟨"A", .cont 0 (some 32), 1000⟩, ⟨"B", .finite [0, 8, 16, 24, 32], 1000⟩],
    evs := [{ session := "x", station := "A", arrival := 0, departure := 5, estDeparture := 5,
              requested := 100, delivered := 0, rate := 0,
              batt := ⟨200, 0, 0, 7, 0, false, 0, 0, .continuous⟩ },
            { session := "y", station := "B", arrival := 0, departure := 5, estDeparture := 5,
              requested := 300, delivered := 0, rate := 0,
              batt := ⟨400, 0, 0, 40, 0, false, 0, 0, .continuous⟩ }],
    recomputes := [], maxRecompute := some 1, period := 60, atolCont := 1 / 1000,
    atolDeadband := 1 / 1000, atolFinite := 1 / 1000, fullEps := 1 / 1000, noise := [] }

def rdNet : SimSorted.NetInfo ℚ :=
  { M := [[1, 1]], lims := [40], cos := [1, 1], sin := [0, 0], vt := 1 / 100000, rt := 1 / 10000000 }

def rdAlgo (est unint : Bool) : Config ℚ :=
  { algo := .greedy, sort := .fcfs, uninterrupted := unint, estimate := est, inc := 1, eps := 1 / 100,
    fuel := 60 }

/-- the estimator as the code creates it: thresholds and increment 1, empty dict -/
def rdInit : Rampdown ℚ := { upTh := 1, downTh := 1, upInc := 1, bounds := [] }

/-- the hypotheses of `sim_consequences_rampdown` hold on this configuration (over ℝ, `inf = 1000`) -/
example : CfgOk (rdCfg ℝ) 1000 ∧
    ∀ e ∈ (rdCfg ℝ).evs, BattAlg.Inv e.batt ∧ e.delivered ≤ e.requested := by
  refine ⟨⟨?_, ?_, ?_, ?_, ?_, ?_, ?_⟩, ?_⟩
  · show ((rdCfg ℝ).stations.map (·.id)).Nodup
    simp [rdCfg]
  · simp [rdCfg]
  · intro st hst
    simp only [rdCfg, List.mem_cons, List.not_mem_nil, or_false] at hst
    rcases hst with rfl | rfl
    · refine ⟨rfl, ?_, ?_⟩ <;> norm_num
    · refine ⟨by simp, ?_⟩
      intro a ha
      simp only [List.mem_cons, List.not_mem_nil, or_false] at ha
      rcases ha with rfl | rfl | rfl | rfl | rfl <;> norm_num
  · intro st hst
    simp only [rdCfg, List.mem_cons, List.not_mem_nil, or_false] at hst
    rcases hst with rfl | rfl <;> norm_num
  · show (0 : ℝ) < 60
    norm_num
  · refine ⟨?_, ?_, ?_⟩ <;> simp [rdCfg]
  · simp [rdCfg]
  · intro e he
    simp only [rdCfg, List.mem_cons, List.not_mem_nil, or_false] at he
    rcases he with rfl | rfl
    · exact ⟨⟨by norm_num, by norm_num, by norm_num, by norm_num, by norm_num, by norm_num⟩, by norm_num⟩
    · exact ⟨⟨by norm_num, by norm_num, by norm_num, by norm_num, by norm_num, by norm_num⟩, by norm_num⟩

/-- WITH the estimator the run is not the run without it: from period 2 on (the first period with
    a previous pilot, interface.py:359-360) `x`'s bound drops to its observed 7 A + 1, the greedy
    loop hands the reclaimed capacity to `y` (8 → 32 A), every applied column respects the limit 40,
    nobody receives more than requested, the run ends without an error, and the estimator ends with
    the dict `{x: 8, y: 32}`.  Without the estimator `x` keeps 32 A throughout. -/
example :
    (SimSortedRd.runSt (rdCfg ℚ) (SimSortedRd.sortedSchedSt rdNet 1000 (rdCfg ℚ) (rdAlgo true false)) 10
        rdInit (Sim.init (rdCfg ℚ))).1.2 = none ∧
    (SimSortedRd.runSt (rdCfg ℚ) (SimSortedRd.sortedSchedSt rdNet 1000 (rdCfg ℚ) (rdAlgo true false)) 10
        rdInit (Sim.init (rdCfg ℚ))).1.1.pilots.rows = [[32, 32, 8, 8, 8, 0], [8, 8, 32, 32, 32, 0]] ∧
    (SimSortedRd.runSt (rdCfg ℚ) (SimSortedRd.sortedSchedSt rdNet 1000 (rdCfg ℚ) (rdAlgo true false)) 10
        rdInit (Sim.init (rdCfg ℚ))).1.1.evs.map (·.delivered) = [35, 112] ∧
    (SimSortedRd.runSt (rdCfg ℚ) (SimSortedRd.sortedSchedSt rdNet 1000 (rdCfg ℚ) (rdAlgo true false)) 10
        rdInit (Sim.init (rdCfg ℚ))).2.bounds = [("x", 8), ("y", 32)] ∧
    (SimSortedRd.runSt (rdCfg ℚ) (SimSortedRd.sortedSchedSt rdNet 1000 (rdCfg ℚ) (rdAlgo false false)) 10
        rdInit (Sim.init (rdCfg ℚ))).1.1.pilots.rows = [[32, 32, 32, 32, 32, 0], [8, 8, 8, 8, 8, 0]] := by
  decide +kernel

/-- the theorem needs NO hypothesis on the estimator's state: started from a hostile one (negative
    bound for `x`, bound 3 — below B's smallest level 8 — for `y`, negative increment) with
    uninterrupted charging, `x` is held at 0 (`reconcile_max_and_min` lifts the negative bound to
    `min_rates = 0`), `y` gets the uninterrupted-charging minimum 8 A ABOVE its estimator bound
    (the estimator never pushes a session below that minimum), and the run stays safe. -/
example :
    (SimSortedRd.runSt (rdCfg ℚ) (SimSortedRd.sortedSchedSt rdNet 1000 (rdCfg ℚ) (rdAlgo true true)) 2
        { upTh := 1, downTh := 1, upInc := -50, bounds := [("x", -5), ("y", 3)] }
        (Sim.init (rdCfg ℚ))).1.2 = none ∧
    (SimSortedRd.runSt (rdCfg ℚ) (SimSortedRd.sortedSchedSt rdNet 1000 (rdCfg ℚ) (rdAlgo true true)) 2
        { upTh := 1, downTh := 1, upInc := -50, bounds := [("x", -5), ("y", 3)] }
        (Sim.init (rdCfg ℚ))).1.1.pilots.rows = [[0, 0, 0, 0, 0, 0], [8, 8, 0, 0, 0, 0]] := by
  decide +kernel

end rdex

end Acn.C07
