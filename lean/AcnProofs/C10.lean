/-
  C10 — results are deterministic and independent of incidental ordering.

  DETERMINISM.  Every model (`Acn.Feas`, `Acn.Pilots`, `Acn.EventCore`, `Acn.Sim`) is a Lean
  FUNCTION of the scenario: running it twice gives the same answer by `rfl`.  There is nothing to
  prove and no theorem pretends otherwise; what the property claims about determinism is that the
  IMPLEMENTATION refines a function, which is checked by the harness (every scenario is run twice
  in-process and under three `PYTHONHASHSEED`s in subprocesses, `harness/props/C10.py`).

  INDEPENDENCE OF INCIDENTAL ORDER.  The theorems below are the index mechanics the property is
  about, each for all inputs (what exactly is proved for the FULL simulator model `Acn.Sim`, per
  relation / output / scheduler class / hypothesis, is tabulated at the top of `section simulator`):
    * constraints in any order            `feasible_perm_constraints` (the network-side check),
                                          `run_perm_constraints` (the WHOLE simulator with the modelled sorted
                                          algorithms: the rows reach `Sim` only through the scheduler)
    * stations in any order               `feasible_perm_stations`, `densify_equivariant`,
                                          `updateSchedules_equivariant`, `run_equivariant_stations` (the WHOLE
                                          simulator `Acn.Sim.run`), `run_equivariant_stations_dict` /
                                          `…_sorted` / `…_uncontrolled` (… with the modelled algorithms, tie-free
                                          keys), `run_equivariant_stations_partial` (core only, but from any
                                          state and with failing schedulers)
    * ties in a sort key                  `sort_perm_of_distinct_keys`
    * sessions / events in any order      `popCurrent_perm`, `plugins_commute`, `unplugs_commute`,
                                          `eventsStage_perm`, `run_perm_sessions` (the WHOLE simulator),
                                          `run_perm_sessions_sorted` (… with the sorted / uncontrolled algorithms),
                                          `run_perm_sessions_core`, `run_perm_sessions_partial` (event core)
    * time shift by `k` periods           `updateSchedules_shift`, `run_shift` (the WHOLE simulator, `max_recompute`
                                          = None), `run_shift_anchored` (any `max_recompute`, an event in period 0),
                                          `run_shift_aligned` (`max_recompute = m`, `m ∣ k`, no event needed),
                                          `run_shift_sorted` (… with the sorted / uncontrolled algorithms, None),
                                          `run_shift_from` (from any related states, errors included);
                                          event core only: `body_shift`, `run_shift_partial` (None),
                                          `run_shift_core` (every `max_recompute`, errors included)
  `σ` is a list of station numbers that is a permutation of `0..n-1`; `reidx σ l d` reads the
  per-station list `l` in that order.  Helper lemmas: `AcnProofs/Lemmas/Equiv*.lean`.

  CONTINUED in four more property files (what this file's audit lists as open is proved there):
    `AcnProofs/C10Stations.lean`  stations: RAISING runs (`run_equivariant_stations_raise`), `uninterrupted_charging`
                                  (`run_equivariant_stations_sorted_any`, `…_sorted_uninterrupted`), uncontrolled
    `AcnProofs/C10Rampdown.lean`  stations × the stateful rampdown estimator (`runSt_equivariant_stations_rampdown`)
    `AcnProofs/C10Sessions.lean`  session / event listing order: RAISING runs (`run_perm_sessions_raise`)
    `AcnProofs/C10Shift.lean`     shift: `uninterrupted_charging` (`run_shift_sorted_any`), the sorted algorithms with
                                  `max_recompute ≠ None` (`run_shift_sorted_recompute`, `run_shift_sorted_late`)
-/
import AcnProofs.Lemmas.EquivPilots
import AcnProofs.Lemmas.EquivShift
import AcnProofs.Lemmas.EquivSimRun
import AcnProofs.Lemmas.EquivSimShiftCap
import AcnProofs.Lemmas.EquivSimSessionsRun
import AcnProofs.Lemmas.EquivSimShiftAligned
import AcnProofs.Lemmas.EquivSimSorted
import AcnProofs.Lemmas.EquivSimSortedStations
import AcnProofs.Lemmas.EquivSortedShift
import AcnProofs.C08

set_option linter.unusedSectionVars false

namespace Acn.C10
open Acn Acn.EventCore

section feasibility
open Acn.Feas
variable {K : Type} [Field K] [LinearOrder K] [IsStrictOrderedRing K]

/-- Adding the constraints in another order (any permutation of the (row, limit) pairs) does not
    change the verdict of `ChargingNetwork.is_feasible`: all schedules, all phasors, all tolerances. -/
theorem feasible_perm_constraints (M M' : List (List K)) (lims lims' c s : List K) (vt rt : K)
    (S : List (List K)) (hM : M.length = lims.length) (hM' : M'.length = lims'.length)
    (h : (List.zip M' lims').Perm (List.zip M lims)) :
    netFeasible M' lims' c s vt rt S = netFeasible M lims c s vt rt S := by
  unfold netFeasible
  have hl : lims'.isEmpty = lims.isEmpty := by
    have := h.length_eq
    simp only [List.length_zip, hM, hM', Nat.min_self] at this
    cases lims <;> cases lims' <;> simp at this ⊢
  rw [hl]
  split
  · rfl
  · congr 1
    funext t
    exact all_perm h _

example (a b : List K) (l1 l2 : K) (c s : List K) (vt rt : K) (S : List (List K)) :
    netFeasible [b, a] [l2, l1] c s vt rt S = netFeasible [a, b] [l1, l2] c s vt rt S :=
  feasible_perm_constraints [a, b] [b, a] [l1, l2] [l2, l1] c s vt rt S rfl rfl (List.Perm.swap _ _ [])

/-- Registering the stations in another order — ONE permutation `σ` applied to the columns of the
    constraint matrix, to the phasors and to the rows of the (rectangular) schedule — does not
    change the verdict: the aggregate currents are sums over a permuted list. -/
theorem feasible_perm_stations (σ : List Nat) (n : Nat) (hσ : σ.Perm (List.range n))
    (M : List (List K)) (lims c s : List K) (vt rt : K) (S : List (List K)) (w : Nat)
    (hM : ∀ row ∈ M, row.length = n) (hc : c.length = n) (hs : s.length = n)
    (hS : S.length = n) (hw : ∀ r ∈ S, r.length = w) :
    netFeasible (M.map (fun row => reidx σ row 0)) lims (reidx σ c 0) (reidx σ s 0) vt rt (reidx σ S []) =
      netFeasible M lims c s vt rt S := by
  unfold netFeasible
  rw [periods_reidx σ n hσ S w hS hw]
  split
  · rfl
  · congr 1
    funext t
    have key : ∀ p ∈ List.zip M lims,
        rowOk (reidx σ p.1 0) p.2 vt rt (reidx σ c 0) (reidx σ s 0) (col (reidx σ S []) t)
          = rowOk p.1 p.2 vt rt c s (col S t) := by
      intro p hp
      have hr := hM p.1 (List.of_mem_zip (show (p.1, p.2) ∈ List.zip M lims from hp)).1
      rw [col_reidx]
      exact rowOk_reidx σ n hσ p.1 p.2 vt rt c s (col S t) hr hc hs (by rw [col_length, hS])
    rw [List.zip_map_left, List.all_map]
    rw [Bool.eq_iff_iff, List.all_eq_true, List.all_eq_true]
    constructor
    · intro H p hp
      have h1 := H p hp
      have k := key p hp
      obtain ⟨row, lim⟩ := p
      simp only [Function.comp, Prod.map, id] at h1 k ⊢
      rw [← k]
      exact h1
    · intro H p hp
      have h1 := H p hp
      have k := key p hp
      obtain ⟨row, lim⟩ := p
      simp only [Function.comp, Prod.map, id] at h1 k ⊢
      rw [k]
      exact h1

example : netFeasible ([[1, 1, 0], [0, 1, 2]].map (fun row => reidx [2, 0, 1] row 0)) [10, 20]
        (reidx [2, 0, 1] ([1, 0, 1] : List ℚ) 0) (reidx [2, 0, 1] [0, 1, 0] 0) 0 0
        (reidx [2, 0, 1] [[3, 4], [5, 6], [1, 1]] [])
    = netFeasible [[1, 1, 0], [0, 1, 2]] [10, 20] ([1, 0, 1] : List ℚ) [0, 1, 0] 0 0 [[3, 4], [5, 6], [1, 1]] :=
  feasible_perm_stations [2, 0, 1] 3 (by decide) _ _ _ _ _ _ _ 2 (by simp) rfl rfl rfl (by simp)

end feasibility

section pilots
variable {K : Type} [OfNat K 0]
open Acn.Pilots

/-- The dense schedule matrix follows the station order: station order permuted ⇒ rows permuted
    (simulator.py:256-263, interface.py:663-670). -/
theorem densify_equivariant (σ : List Nat) (stations : List String) (sched : Sched K) (len : Nat)
    (h : ∀ i ∈ σ, i < stations.length) :
    Pilots.densify (reidx σ stations "") sched len = reidx σ (Pilots.densify stations sched len) [] :=
  densify_reidx σ stations sched len h

example : Pilots.densify (reidx [1, 0] ["A", "B"] "") [("B", [(7 : ℤ)])] 1 = [[7], [0]]
    ∧ Pilots.densify ["A", "B"] [("B", [(7 : ℤ)])] 1 = [[0], [7]] := by decide

/-- `_update_schedules` is equivariant: with the stations registered in the order `σ` and the pilot
    matrix rows in that order, the same submission (a dict keyed by station id) yields the
    row-permuted matrix — same error class, same growth, same block.  All schedules (malformed
    ones included), all periods, all queue horizons. -/
theorem updateSchedules_equivariant (σ : List Nat) (stations : List String)
    (hσ : σ.Perm (List.range stations.length)) (m : Mat K) (hm : m.rows.length = stations.length)
    (t : Nat) (lastTs : Option Nat) (sched : Sched K) :
    updateSchedules (reidx σ stations "") (m.reidx σ) t lastTs sched
      = (updateSchedules stations m t lastTs sched).map (Mat.reidx σ) :=
  updateSchedules_reidx σ stations hσ m hm t lastTs sched

example : (updateSchedules (reidx [1, 0] ["A", "B"] "") ((Mat.zeros 2 2 : Mat ℤ).reidx [1, 0]) 1 (some 1)
      [("A", [5, 6])]).toOption.map (·.rows) = some [[0, 0, 0], [0, 5, 6]] := by decide

/-- `_update_schedules` commutes with a time shift: the same submission `k` periods later into the
    matrix with `k` zero columns in front gives the shifted matrix (first `k` columns stay 0). -/
theorem updateSchedules_shift (k : Nat) (stations : List String) (m : Mat K) (t : Nat) (lastTs : Option Nat)
    (sched : Sched K) :
    updateSchedules stations (shiftMat k m) (t + k) (lastTs.map (· + k)) sched
      = (updateSchedules stations m t lastTs sched).map (shiftMat k) :=
  updateSchedules_shift' k stations m t lastTs sched

example : (updateSchedules ["A", "B"] (shiftMat 2 (Mat.zeros 2 2 : Mat ℤ)) (1 + 2) (some (1 + 2))
      [("A", [5, 6])]).toOption.map (·.rows) = some [[0, 0, 0, 5, 6], [0, 0, 0, 0, 0]] := by decide

end pilots

section events

/-- `get_current_events`: the multiset popped, the multiset left, and the fact that the popped
    events come out key-sorted do not depend on the insertion order of the queue (ties between equal
    keys are the only freedom). -/
theorem popCurrent_perm {p p' : List Event} (h : p.Perm p') (t : Nat) :
    (popCurrent t p).1.Perm (popCurrent t p').1 ∧ (popCurrent t p).2.Perm (popCurrent t p').2 ∧
    (popCurrent t p).1.Pairwise (fun a b => a.keyLe b = true) ∧
    (popCurrent t p').1.Pairwise (fun a b => a.keyLe b = true) :=
  popCurrent_perm' h t

/-- Two plug-ins of the same period on DIFFERENT stations commute: if one order succeeds so does
    the other, and the states agree up to the order of the history / queue entries. -/
theorem plugins_commute (cfg : Cfg) {x y : Session} (hx : findSession cfg x.id = some x)
    (hy : findSession cfg y.id = some y) (hst : x.station ≠ y.station) (hts : x.arrival = y.arrival)
    (c c1 : Core) (h : processAll cfg [plugEv x, plugEv y] c = (c1, none)) :
    ∃ c2, processAll cfg [plugEv y, plugEv x] c = (c2, none) ∧ CoreEquiv c1 c2 :=
  plugins_commute' cfg hx hy hst hts c c1 h

/-- … and so do two unplugs. -/
theorem unplugs_commute (cfg : Cfg) {x y : Session} (hx : findSession cfg x.id = some x)
    (hy : findSession cfg y.id = some y) (hst : x.station ≠ y.station) (hts : x.departure = y.departure)
    (c c1 : Core) (h : processAll cfg [unplugEv x, unplugEv y] c = (c1, none)) :
    ∃ c2, processAll cfg [unplugEv y, unplugEv x] c = (c2, none) ∧ CoreEquiv c1 c2 :=
  unplugs_commute' cfg hx hy hst hts c c1 h

def exCfg : Cfg :=
  { stations := ["A", "B"], sessions := [⟨"x", "A", 0, 2⟩, ⟨"y", "B", 0, 2⟩, ⟨"z", "A", 2, 3⟩],
    recomputes := [(2, "r0")], maxRecompute := some 2 }

def exCfg' : Cfg :=
  { stations := ["B", "A"], sessions := [⟨"z", "A", 2, 3⟩, ⟨"y", "B", 0, 2⟩, ⟨"x", "A", 0, 2⟩],
    recomputes := [(2, "r0")], maxRecompute := some 2 }

example : (processAll exCfg [plugEv ⟨"x", "A", 0, 2⟩, plugEv ⟨"y", "B", 0, 2⟩] (init exCfg)).2 = none
    ∧ (processAll exCfg [plugEv ⟨"x", "A", 0, 2⟩, plugEv ⟨"y", "B", 0, 2⟩] (init exCfg)).1.evHist = ["x", "y"]
    ∧ (processAll exCfg [plugEv ⟨"y", "B", 0, 2⟩, plugEv ⟨"x", "A", 0, 2⟩] (init exCfg)).1.evHist = ["y", "x"] := by
  decide

theorem exCfg_valid : Valid exCfg := by
  refine ⟨by decide, by decide, ?_, ?_, ?_, ?_, ?_⟩ <;> simp [exCfg]

theorem exCfg_perm : CfgPerm exCfg exCfg' := by
  refine ⟨by decide, by decide, ?_, rfl⟩
  intro s; simp [exCfg, exCfg']; tauto

/-- The state after a period's events does not depend on the order in which the sessions (and the
    recompute events, and the stations) were listed: two runs over permuted tables that are in
    states satisfying the loop invariant of the same period (`Inv`, C01) and agree on
    `_last_schedule_update` reach states that agree exactly on occupancy (keyed by station),
    `_resolve`, `_last_schedule_update`, and up to order on queue and histories.  No error. -/
theorem eventsStage_perm {cfg cfg' : Cfg} (hv : Valid cfg) (hp : CfgPerm cfg cfg') {t : Nat} {c c' : Core}
    (hI : Inv cfg t c) (hI' : Inv cfg' t c') (hl : c.lastUpd = c'.lastUpd) (hi : c.invoked = c'.invoked) :
    ∃ c1 c1', eventsStage cfg c = (c1, none) ∧ eventsStage cfg' c' = (c1', none) ∧ CoreEquiv c1 c1' := by
  obtain ⟨c1, c1', h1, h1', he, _, _⟩ := eventsStage_equiv hv ⟨hI, hI'.of_perm hp, hl, hi⟩
  refine ⟨c1, c1', h1, ?_, he⟩
  rw [← h1']
  simp only [eventsStage, processAll_perm hv hp]

/- FULL STATEMENT: for `Sim.Cfg`s that differ by a permutation of `evs` / `recomputes` and a scheduler
     that maps `View`s equal up to `EVSE.current_pilot` to equal schedules,
     `Sim.run cfg' sched n (Sim.init cfg')` and `Sim.run cfg sched n (Sim.init cfg)` have the same
     `pilots`, `rates`, `peak`, per-session energies, and `CoreEquiv` cores.
   That statement IS proved below, for completing runs: `run_perm_sessions` (section `sessions_full`;
   scripted / empty schedulers) and `run_perm_sessions_sorted` (the modelled sorted and uncontrolled
   algorithms).  For runs that raise only the error-free core part is compared (`run_perm_sessions_core`).
   THIS theorem (kept under its historical name `…_partial`; it is the event-core layer of the
   capstone, not a weaker substitute for it): the event core of the run (everything except
   pilots/rates/energies), for every Valid scenario — INCLUDING a permuted station table, which the
   Sim-level theorem does not combine with the session permutation —, every fuel, every non-failing
   scheduler / pilot application. -/
/-- The whole run of the event core over permuted session / recompute / station tables ends in
    equivalent states: same iteration, occupancy, flags and scheduler invocation periods; queue
    and histories equal as multisets (their order is fixed up to ties by `history_sorted`, C01). -/
theorem run_perm_sessions_partial {cfg cfg' : Cfg} (hv : Valid cfg) (hp : CfgPerm cfg cfg')
    {sched apply : Core → Option Err} (hs : ∀ c, sched c = none) (ha : ∀ c, apply c = none) (n : Nat) :
    ∃ d d', run cfg sched apply n (init cfg) = (d, none) ∧ run cfg' sched apply n (init cfg') = (d', none) ∧
      CoreEquiv d d' := by
  have hR : Rel cfg 0 (init cfg) (init cfg') :=
    ⟨init_inv hv, (init_inv (hv.of_perm hp)).of_perm hp, rfl, rfl⟩
  obtain ⟨d, d', _, hr, hr', hRel⟩ := run_equiv hv hs ha n 0 _ _ hR
  exact ⟨d, d', hr, by rw [run_cfg_perm hv hp]; exact hr', hRel.equiv⟩

example : Valid exCfg ∧ CfgPerm exCfg exCfg'
    ∧ (run exCfg noFail noFail 10 (init exCfg)).1.eventHist.map (·.sess) = ["x", "y", "x", "y", "z", "r0", "z"]
    ∧ (run exCfg' noFail noFail 10 (init exCfg')).1.eventHist.map (·.sess) = ["y", "x", "y", "x", "z", "r0", "z"]
    ∧ (run exCfg noFail noFail 10 (init exCfg)).1.invoked = [0, 2, 3] := by
  refine ⟨exCfg_valid, exCfg_perm, by decide, by decide, by decide⟩

/- FULL STATEMENT: `Sim.run (σ·cfg) sched' = σ·(Sim.run cfg sched)` keyed by station id for an equivariant
   scheduler, i.e. pilots / rates rows permuted, `evsePilot` permuted, energies, peak (as a sum over a
   permuted list) and core equal.
   That statement IS proved below for completing runs and a constant noise stream:
   `run_equivariant_stations` (section `simulator`; the two hypotheses are necessary, see there).
   THIS theorem (historical name `…_partial`) is its event-core layer and is stronger on that layer:
   the event core does not see the station ORDER at all (literally the same function) — from any
   state, with failing schedulers / pilot applications, errors included. -/
/-- Registering the stations in another order does not change the event core of the run at all:
    any state, any fuel, any scheduler / pilot application (failing ones included). -/
theorem run_equivariant_stations_partial (cfg : Cfg) (st' : List String) (h : ∀ s, s ∈ st' ↔ s ∈ cfg.stations)
    (sched apply : Core → Option Err) (n : Nat) (c : Core) :
    run { cfg with stations := st' } sched apply n c = run cfg sched apply n c := by
  have hc : ∀ s, st'.contains s = cfg.stations.contains s := by
    intro s
    rw [Bool.eq_iff_iff]
    simp only [List.contains_iff_mem]
    exact h s
  have hp : ∀ e c, process { cfg with stations := st' } e c = process cfg e c := by
    intro e c
    unfold process findSession
    simp only [hc]
  have hpa : ∀ es c, processAll { cfg with stations := st' } es c = processAll cfg es c := by
    intro es
    induction es with
    | nil => intro c; rfl
    | cons e es ih => intro c; simp only [processAll, step, hp, ih]
  have hb : ∀ c, body { cfg with stations := st' } sched apply c = body cfg sched apply c := by
    intro c
    simp only [body, eventsStage, hpa]
  induction n generalizing c with
  | zero => rfl
  | succ n ih => simp only [run, hb, ih]

/-- One trip round the loop commutes with a time shift of `k` periods, from ANY state, errors
    included, for a scheduler / pilot application that cannot tell the shifted state from the
    original (i.e. depends on the view through relative time only). -/
theorem body_shift (k : Nat) (cfg : Cfg) {sched sched' apply apply' : Core → Option Err}
    (hs : ∀ c, sched' (shiftCore k c) = sched c) (ha : ∀ c, apply' (shiftCore k c) = apply c) (c : Core) :
    body (shiftCfg k cfg) sched' apply' (shiftCore k c) =
      (shiftCore k (body cfg sched apply c).1, (body cfg sched apply c).2) :=
  body_shift' k cfg hs ha c

theorem initPending_shift (k : Nat) (cfg : Cfg) :
    initPending (shiftCfg k cfg) = (initPending cfg).map (shiftEv k) := by
  simp only [initPending, shiftCfg, List.map_append, List.map_map]
  rfl

/- FULL STATEMENT: for every `maxRecompute` (with `some m` the periodic invocations before the first
   event are anchored at period 0, so the statement needs "an event at period 0" or `m ∣ k`), and for
   `Sim.run`: pilots / rates = `shiftMat k` of the original ones (`updateSchedules_shift` is the matrix
   step), energies and peak equal.
   PROVED ELSEWHERE IN THIS FILE: event core, every `maxRecompute`, errors included — `run_shift_core`
   (next theorem); `Sim.run`: `run_shift` (None, errors included), `run_shift_anchored` (event in period
   0), `run_shift_aligned` (`m ∣ k`) in section `shift`.  When neither an event in period 0 nor `m ∣ k`
   holds the statement is FALSE (example after `run_shift_core`).
   THIS theorem (historical name `…_partial`): the event core, `maxRecompute = none`, for a scheduler /
   pilot application that may read everything in the core (also `invoked`, `_last_schedule_update`). -/
/-- Shifting every session and recompute event by `k` periods shifts the run by `k`: after the `k`
    idle periods the shifted run is, step for step, the shift of the original run — event
    timestamps, invocation periods, `_last_schedule_update` and the iteration counter move by `k`,
    occupancy, flags and errors are the same. -/
theorem run_shift_partial (k : Nat) (cfg : Cfg) {sched sched' apply apply' : Core → Option Err}
    (hs : ∀ c, sched' (shiftCore k c) = sched c) (ha : ∀ c, apply' (shiftCore k c) = apply c)
    (hmr : cfg.maxRecompute = none)
    (hidle : ∀ c, c.resolve = false → (∀ e ∈ c.pending, (c.iter : Int) < e.ts) → apply' c = none)
    (hne : initPending cfg ≠ []) (hnn : ∀ e ∈ initPending cfg, 0 ≤ e.ts) (n : Nat) :
    run (shiftCfg k cfg) sched' apply' (k + n) (init (shiftCfg k cfg)) =
      (shiftCore k (run cfg sched apply n (init cfg)).1, (run cfg sched apply n (init cfg)).2) := by
  have hpend : (init (shiftCfg k cfg)).pending = (initPending cfg).map (shiftEv k) := initPending_shift k cfg
  rw [idle_run (shiftCfg k cfg) hmr hidle k n (init (shiftCfg k cfg)) rfl
    (by rw [hpend]; simpa using hne)
    (by
      intro e he
      rw [hpend] at he
      obtain ⟨d, hd, rfl⟩ := List.mem_map.1 he
      have := hnn d hd
      simp only [init, shiftEv]
      push_cast
      omega)]
  have hinit : ({ init (shiftCfg k cfg) with iter := (init (shiftCfg k cfg)).iter + k } : Core)
      = shiftCore k (init cfg) := by
    simp only [init, shiftCore, initPending_shift, List.map_nil, Option.map_none, Nat.zero_add]
  rw [hinit]
  exact run_shift_from k cfg hs ha n (init cfg)

example : exCfg.maxRecompute = some 2 ∧ initPending { exCfg with maxRecompute := none } ≠ []
    ∧ (run (shiftCfg 3 { exCfg with maxRecompute := none }) noFail noFail (3 + 10)
        (init (shiftCfg 3 { exCfg with maxRecompute := none }))).1.invoked = [3, 5, 6]
    ∧ (run { exCfg with maxRecompute := none } noFail noFail 10 (init { exCfg with maxRecompute := none })).1.invoked
        = [0, 2, 3] := by
  refine ⟨rfl, by decide, by decide, by decide⟩

open Acn.SimShift in
/-- EVENT CORE, EVERY `max_recompute`, ERRORS INCLUDED.  `Aligned k cfg`: `max_recompute = None`, or
    something is due in period 0 of the original scenario, or `max_recompute = m` with `m = 0 ∨ m ∣ k`.
    Then the shifted run (with `k` more units of fuel) stops with the same error as the original run
    and ends in `sh k V ·` of the original final state — every timestamp moved by `k`, the idle
    invocations `V` of the prefix in front of `invoked` — up to `_last_schedule_update`, and EXACTLY
    in that state unless period 0 of the original run raised (a raise in the very first period keeps
    the `_last_schedule_update` of the idle prefix).
    The scheduler / pilot application are arbitrary (failing ones included) functions of the core that
    cannot tell the shifted state from the original (`hs`, `ha`: for every record `V` of earlier
    invocations), do not read `_last_schedule_update` (`hsL`; the pilot application may) and do nothing
    while nothing has happened (`hidle`). -/
theorem run_shift_core (k : Nat) (cfg : Cfg) {sched sched' apply apply' : Core → Option Err}
    (hs : ∀ V c, sched' (sh k V c) = sched c) (ha : ∀ V c, apply' (sh k V c) = apply c)
    (hsL : ∀ L c, sched' (setLUc L c) = sched' c)
    (hidle : ∀ d : Core, d.resolve = false → d.iter < k → (∀ e ∈ d.pending, (d.iter : Int) < e.ts) →
      sched' d = none ∧ apply' d = none)
    (hne : initPending cfg ≠ []) (hnn : ∀ e ∈ initPending cfg, 0 ≤ e.ts) (hal : Aligned k cfg) (n : Nat) :
    ∃ V,
      (∃ L, run (shiftCfg k cfg) sched' apply' (k + (n + 1)) (init (shiftCfg k cfg)) =
        (setLUc L (sh k V (run cfg sched apply (n + 1) (init cfg)).1), (run cfg sched apply (n + 1) (init cfg)).2)) ∧
      ((body cfg sched apply (init cfg)).2 = none →
        run (shiftCfg k cfg) sched' apply' (k + (n + 1)) (init (shiftCfg k cfg)) =
          (sh k V (run cfg sched apply (n + 1) (init cfg)).1, (run cfg sched apply (n + 1) (init cfg)).2)) :=
  run_shift_core' k cfg hs ha hsL hidle hne hnn hal n

/-- nothing is due in period 0, `max_recompute = 2` -/
def exCfgLate : Cfg :=
  { stations := ["A", "B"], sessions := [⟨"x", "A", 1, 3⟩, ⟨"y", "B", 2, 6⟩], recomputes := [(3, "r0")],
    maxRecompute := some 2 }

open Acn.SimShift in
/-- the hypotheses of `run_shift_core` are satisfiable WITHOUT an event in period 0 (`k = 4`, `2 ∣ 4`):
    the idle prefix records `V = [0, 2]`; and they are needed: for `k = 3` the shifted run is NOT
    `V ++` the shifted original for the idle invocations `V = [0, 2]` (nor for any other `V`: it is
    consulted in 5 but not in 3, the original in 0 and 1) -/
example : Aligned 4 exCfgLate ∧ (∀ e ∈ initPending exCfgLate, 0 < e.ts) ∧ initPending exCfgLate ≠ []
    ∧ (run exCfgLate noFail noFail 11 (init exCfgLate)).1.invoked = [0, 1, 2, 3, 5, 6]
    ∧ (run (shiftCfg 4 exCfgLate) noFail noFail (4 + 11) (init (shiftCfg 4 exCfgLate))).1.invoked
        = [0, 2] ++ [0, 1, 2, 3, 5, 6].map (· + 4)
    ∧ (run (shiftCfg 3 exCfgLate) noFail noFail (3 + 11) (init (shiftCfg 3 exCfgLate))).1.invoked
        = [0, 2, 4, 5, 6, 8, 9] := by
  refine ⟨Or.inr (Or.inr ⟨2, rfl, Or.inr ⟨2, rfl⟩⟩), by decide, by decide, by decide, by decide, by decide⟩

end events

section simulator
open Acn.Sim Acn.SimEquiv
variable {K : Type} [Field K] [LinearOrder K] [IsStrictOrderedRing K] [HasExp K]

/- AUDIT — what is proved for the FULL simulator model `Acn.Sim.run` (events + scheduling +
   `_update_schedules` + `update_pilots` with the battery models + `_store_actual_charging_rates` + peak
   + occupancy log), relation by relation.  "Outputs" are the fields of `Sim.State`:
   pilots (`pilot_signals`), rates (`charging_rates`), evs (per-EV energy delivered / last rate /
   battery), peak, core (iteration, queue, occupancy, `_resolve`, `_last_schedule_update`, event
   history, `ev_history`, invocation periods), evsePilot (`EVSE.current_pilot`), noiseIdx, occLog.

   (1) STATION REGISTRATION ORDER — `run_equivariant_stations`, `run_equivariant_stations_dict`,
       `run_equivariant_stations_sorted`, `run_equivariant_stations_uncontrolled`
       outputs     pilots, rates, evsePilot, rows of occLog: σ-permuted (= equal keyed by station id);
                   evs (energies, rates, batteries), peak, core, noiseIdx: EQUAL.
       schedulers  any pair with `SchedEquivariant σ sched sched'` (equal association lists) or, weaker,
                   `SchedEquivariantD σ sched sched'` (the same DICT in any listing order, and only where
                   the original scheduler answers).  INSTANCES PROVED:
                     scripted by station name, `{}`                     `scripted_schedEquivariant`
                     `SortedSchedulingAlgo` and `RoundRobin` (all five sorts, continuous / finite EVSEs,
                       any constraint rows; interruptible, no estimator), for runs in which no view
                       handed out has a tie in the sort key       `run_equivariant_stations_sorted`
                     `UncontrolledCharging`                       `run_equivariant_stations_uncontrolled`
                   (for these the permuted scheduler is the adapter built from the permuted configuration
                   and the network description with permuted columns, `SimSorted.reNet`).
       hypotheses  `PermOK`: σ a permutation of the station numbers, station ids pairwise different,
                   constant noise stream; the original run completes (no raise).  Both are necessary:
                   draws are consumed in station order, and a raise of `update_pilots` leaves the
                   stations BEFORE the offender charged.  Sorted algorithms: `TieFree` on every view of
                   the run — necessary too (stable sort of a station-ordered list).
       PROVED IN   `AcnProofs/C10Stations.lean`: `uninterrupted_charging = True` (tie-freeness in
       OTHER FILES `remaining_time`, the key of the sort inside `apply_minimum_charging_rate`, INSTEAD of the main
                   key); runs that RAISE (same error, `StEquiv` states — except that an abort inside
                   `update_pilots` relates only what `update_pilots` does not write, `AbortEquiv`);
                   `AcnProofs/C10Rampdown.lean`: the rampdown estimator (stateful: `SimSortedRd.runSt`).
       NOT PROVED  non-constant noise (genuinely order-dependent).
   (2) CONSTRAINT ORDER
       `Acn.Sim` has no constraint table.  The rows are read in two places of the real simulator:
       (a) `network.is_feasible` inside `_update_schedules` — warning only, no state; its verdict is
           order-free for every schedule: `feasible_perm_constraints` (section `feasibility`);
       (b) the scheduler (`infrastructure_constraints_feasible`).  For the modelled sorted algorithms:
           `run_perm_constraints` (section `constraints_sim`) — the two runs are LITERALLY EQUAL (every
           output, every fuel, from every state, errors included).  Scripted / `{}` / uncontrolled
           schedulers do not take the rows at all.
       NOT PROVED  that `add_constraint` calls in another order yield a row permutation of
                   (`constraint_matrix`, `magnitudes`) — that is C12 (`addConstraint_reindex`).
   (3) SESSION / RECOMPUTE LISTING ORDER — `run_perm_sessions`, `run_perm_sessions_sorted`
       outputs     pilots, rates, peak, evsePilot, noiseIdx, occLog: EQUAL; evs: equal per session id
                   (`EvsPerm`: a permutation with pairwise different ids); core: `CoreEquiv` (iteration,
                   occupancy, flags, invocation periods equal; queue and histories equal as multisets).
       schedulers  any `SchedIgnoresEvsePilot`; INSTANCES PROVED: scripted, `{}`
                   (`scripted_ignoresEvsePilot`), the sorted algorithms (greedy and round robin, all five
                   sorts, `estimate_max_rate = False`) and uncontrolled charging
                   (`run_perm_sessions_sorted`).  No distinct-keys hypothesis: `network.active_evs` is in
                   STATION order whatever the listing order, so the view is the same.
       hypotheses  `Valid` scenario (C01); the original run completes.
       PROVED IN   `AcnProofs/C10Sessions.lean`: runs that raise (`run_perm_sessions_raise`: the same error in
       OTHER FILES the same period, `CoreEquiv` cores, `Mid` non-core parts).
       NOT PROVED  a station permutation combined with the session permutation in ONE Sim-level statement
                   (compose (1) and (3)).
   (4) TIME SHIFT BY `k` — `run_shift`, `run_shift_anchored`, `run_shift_aligned`, `run_shift_from`,
       `run_shift_sorted`
       outputs     pilots, rates: `shiftMat k` (k zero columns in front); core: every timestamp + k, the
                   idle invocations `V` in front of `invoked`; evs: equal up to the shifted arrival /
                   departure fields; occLog: k all-vacant rows in front; peak, evsePilot, noiseIdx: EQUAL.
       schedulers  any pair `SchedShiftInvariant k` (relative time only; `last_applied_pilot_signals` is
                   not related, DESIGN §8), for `max_recompute ≠ None` also `SchedIdle k` (answers `{}`
                   while nothing is plugged in); INSTANCES PROVED: scripted in relative time, `{}`
                   (`scripted_schedShiftInvariant`).
       hypotheses  `ShiftOK` (an event exists, no negative timestamp, every EVSE accepts pilot 0), and
                     `max_recompute = None`                       `run_shift`     errors INCLUDED
                     any `max_recompute`, event in period 0       `run_shift_anchored`  completing runs
                     `max_recompute = m`, `m = 0 ∨ m ∣ k`          `run_shift_aligned`   completing runs
                   In the remaining case (`max_recompute = m`, nothing due in period 0, `m ∤ k`) the
                   statement is false (example after `run_shift_core`).
                   For the sorted algorithms (greedy / RR, all sorts, interruptible, no estimator) and
                   uncontrolled charging: `SchedShiftInvariant` is proved (`run_shift_sorted`, for
                   `max_recompute = None`, errors included).
       PROVED IN   `AcnProofs/C10Shift.lean`: `uninterrupted_charging` (`run_shift_sorted_any`); the sorted
       OTHER FILES algorithms with `max_recompute ≠ None` — they answer all-zero rows, not `{}`, while idle, which
                   leaves the zero pilot matrix unchanged (`SchedIdleZ`): `run_shift_anchored_zero`,
                   `run_shift_aligned_zero`, `run_shift_sorted_recompute`, and for the remaining case (no event in
                   period 0, `m ∤ k`) `run_shift_sorted_late`: both runs are shifts of the run of the anchored
                   scenario, so they coincide from the first event on.
       NOT PROVED  raising runs for `max_recompute ≠ None` at Sim level (the event core has them:
                   `run_shift_core`). -/

/-- CAPSTONE (stations).  Register the stations in the order `σ` (any permutation of the station
    numbers) and hand the simulator a scheduler pair that is `SchedEquivariant` (answers views that
    differ only by the station order with the same `{station id ↦ pilots}` dict).  Then every run of
    the FULL simulator model `Acn.Sim.run` (events, scheduling, `_update_schedules`, `update_pilots`
    with the battery models, `_store_actual_charging_rates`, peak, occupancy snapshots) that completes
    without raising on the original scenario completes on the permuted one, and the final states are
    `StEquiv σ`: pilot and rate matrices and `EVSE.current_pilot` are the σ-row-permuted ones
    (i.e. equal keyed by station id), and the event core (iteration, queue, occupancy, event / EV
    histories, invocation periods), every per-EV record (energy, rate, battery), the peak and the
    number of random draws are EQUAL.  Any fuel `n`, any scenario with pairwise different station
    ids, any EVSE / battery kinds, any schedules.
    Hypotheses that are genuinely needed: `ConstNoise` — the random stream is consumed in station
    order, so only a constant stream is order-independent; no raise — when `update_pilots` raises,
    the stations before the offender have already charged, and "before" is the registration order. -/
theorem run_equivariant_stations (σ : List Nat) (d : Station K) (cfg : Cfg K) (h : PermOK σ cfg)
    {sched sched' : View K → Except EventCore.Err (Schedule K)} (hs : SchedEquivariant σ sched sched')
    (n : Nat) (r : State K) (hr : Sim.run cfg sched n (Sim.init cfg) = (r, none)) :
    ∃ r', Sim.run (permCfg σ d cfg) sched' n (Sim.init (permCfg σ d cfg)) = (r', none) ∧ StEquiv σ r r' := by
  obtain ⟨he, hsh, ho⟩ := init_equiv (d := d) h
  exact run_equiv_st h hs n he hsh ho hr

/-- the scripted-by-station-name scheduler and the empty scheduler are equivariant (for every σ) -/
theorem scripted_schedEquivariant (σ : List Nat) (script : List (Nat × Option (Schedule K))) (dflt : Schedule K) :
    SchedEquivariant σ (scripted script dflt) (scripted script dflt) ∧
    SchedEquivariant σ (emptySched (K := K)) emptySched :=
  ⟨scripted_equivariant σ script dflt, emptySched_equivariant σ⟩

theorem constNoise_of_short {cfg : Cfg K} (h : cfg.noise.length ≤ 1) : ConstNoise cfg := by
  intro i j
  unfold noiseAt
  match hn : cfg.noise with
  | [] => rfl
  | [v] => simp [Nat.mod_one]
  | _ :: _ :: _ => rw [hn] at h; simp at h

/-- the hypotheses of `run_equivariant_stations` are satisfiable: two stations swapped -/
example (cfg : Cfg K) (a b : Station K) (hab : a.id ≠ b.id) (hst : cfg.stations = [a, b]) (v : K)
    (hno : cfg.noise = [v]) : PermOK [1, 0] cfg :=
  ⟨by rw [hst]; exact List.Perm.swap 0 1 [], by simp [Ledger.StationsNodup, hst, hab], constNoise_of_short (by simp [hno])⟩

end simulator

section shift
open Acn.Sim Acn.SimShift
variable {K : Type} [Field K] [LinearOrder K] [IsStrictOrderedRing K] [HasExp K]

/-- The whole simulator commutes with a time shift FROM ANY PAIR OF RELATED STATES: every
    `max_recompute`, every fuel, errors included (same error class in the same relative period).
    `ShEquiv k V pre s s'`: core of `s'` = core of `s` with every timestamp (iteration, queue, event
    history, `_last_schedule_update`, invocation periods) moved by `k`; pilot and rate matrices =
    `shiftMat k` (k zero columns in front); EV records equal up to their shifted arrival / departure
    fields; peak, `EVSE.current_pilot`, number of random draws equal. -/
theorem run_shift_from (k : Nat) (cfg : Cfg K) (hd : DepNonneg cfg.core)
    {sched sched' : View K → Except EventCore.Err (Schedule K)} (hs : SchedShiftInvariant k sched sched')
    (V : List Nat) (pre : List (List (Option String))) (n : Nat) {s s' : State K}
    (he : ShEquiv k V pre s s') (hp : PendNonneg s.core) :
    (Sim.run (shiftCfgS k cfg) sched' n s').2 = (Sim.run cfg sched n s).2 ∧
    ShEquiv k V pre (Sim.run cfg sched n s).1 (Sim.run (shiftCfgS k cfg) sched' n s').1 :=
  run_shift_sim hd hs n he hp

/-- CAPSTONE (shift, `max_recompute = None`).  Shift every session (arrival, departure, estimated
    departure) and every recompute event by `k` periods and hand the simulator a scheduler that
    depends on its view through relative time only (`SchedShiftInvariant`).  Then the run of the FULL
    simulator model on the shifted scenario, with `k` more units of fuel, raises iff the original
    does (same error), and its final state is the shift of the original final state: pilot / rate
    matrices with `k` ZERO columns in front, event timestamps / iteration / invocation periods moved
    by `k`, `k` all-vacant rows in front of the occupancy log, energies, peak, draws equal.
    `ShiftOK`: the scenario has an event, no negative timestamps, every EVSE accepts the idle pilot 0
    (an EVSE with `min_rate > 0` aborts ANY run in period 0, DESIGN §8). -/
theorem run_shift (k : Nat) (cfg : Cfg K) (h : ShiftOK cfg)
    {sched sched' : View K → Except EventCore.Err (Schedule K)} (hs : SchedShiftInvariant k sched sched')
    (hmr : cfg.maxRecompute = none) (n : Nat) :
    (Sim.run (shiftCfgS k cfg) sched' (k + n) (Sim.init (shiftCfgS k cfg))).2 = (Sim.run cfg sched n (Sim.init cfg)).2 ∧
    ShEquiv k [] (List.replicate k (noneRow cfg)) (Sim.run cfg sched n (Sim.init cfg)).1
      (Sim.run (shiftCfgS k cfg) sched' (k + n) (Sim.init (shiftCfgS k cfg))).1 := by
  obtain ⟨sk, hrun, he, hnone⟩ := idle_prefix (k := k) (sched' := sched') h (fun hne => absurd hmr hne)
  obtain ⟨h1, h2⟩ := hnone hmr
  rw [h1, h2] at he
  rw [hrun n]
  exact run_shift_sim h.dep hs n he (fun e he' => h.nonneg e he')

/-- CAPSTONE (shift, ANY `max_recompute`, anchored).  With `max_recompute = m` the periodic
    invocations before the first event are anchored at period 0, so the shifted run consults the
    scheduler during its idle prefix (`SchedIdle`: it answers `{}` there) and reaches the first event
    with a different `_last_schedule_update`.  If something happens in period 0 of the original
    scenario (`hanchor`: the events of period 0 set `_resolve`), that difference is erased in that very
    period: every run that completes on the original scenario completes on the shifted one, and the
    final states are `ShEquiv k V pre` where `V` are the idle invocations of the prefix. -/
theorem run_shift_anchored (k : Nat) (cfg : Cfg K) (h : ShiftOK cfg)
    {sched sched' : View K → Except EventCore.Err (Schedule K)} (hs : SchedShiftInvariant k sched sched')
    (hsi : SchedIdle k sched')
    (hanchor : (Sim.eventsStage cfg (Sim.init cfg)).1.core.resolve = true)
    (n : Nat) (r : State K) (hr : Sim.run cfg sched (n + 1) (Sim.init cfg) = (r, none)) :
    ∃ r' V, Sim.run (shiftCfgS k cfg) sched' (k + (n + 1)) (Sim.init (shiftCfgS k cfg)) = (r', none) ∧
      ShEquiv k V (List.replicate k (noneRow cfg)) r r' := by
  obtain ⟨sk, hrun, he, _⟩ := idle_prefix (k := k) (sched' := sched') h (fun _ => hsi)
  have hp0 : PendNonneg (Sim.init cfg).core := fun e he' => h.nonneg e he'
  -- the shifted run from the state with `_last_schedule_update` erased
  obtain ⟨h1, h2⟩ := run_shift_sim (cfg := cfg) h.dep hs (n + 1) he hp0
  rw [hr] at h1 h2
  -- the first period does not see the difference
  have hsk : setLU sk.core.lastUpd (setLU none sk) = sk := rfl
  have hg0 : guard (Sim.init cfg).core = true := by
    unfold EventCore.guard
    have : (Sim.init cfg).core.pending = EventCore.initPending cfg.core := rfl
    rw [this]
    cases hP : EventCore.initPending cfg.core with
    | nil => exact absurd hP h.nonempty
    | cons a l => simp
  have hgk : guard (setLU none sk).core = true := by rw [he.core, guard_sh]; exact hg0
  have hgk' : guard sk.core = true := hgk
  obtain ⟨b1, b2⟩ := body_shift_sim (cfg := cfg) h.dep hs he hp0
  obtain ⟨e1, e2⟩ := eventsStage_shift_sim (cfg := cfg) he
  have hres : (Sim.eventsStage (shiftCfgS k cfg) (setLU none sk)).1.core.resolve = true := by
    rw [e2.core]; exact hanchor
  have hbody0 : (Sim.body cfg sched (Sim.init cfg)).2 = none := by
    have := hr
    simp only [Sim.run, hg0, if_true] at this
    obtain ⟨s1, e1', hb⟩ : ∃ s1 e1', Sim.body cfg sched (Sim.init cfg) = (s1, e1') := ⟨_, _, rfl⟩
    rw [hb] at this ⊢
    cases e1' with
    | none => rfl
    | some x => simp at this
  rw [hbody0] at b1
  obtain ⟨r1', eb, hb'⟩ : ∃ r1' eb, Sim.body (shiftCfgS k cfg) sched' (setLU none sk) = (r1', eb) := ⟨_, _, rfl⟩
  rw [hb'] at b1
  simp only at b1
  subst b1
  have hbk : Sim.body (shiftCfgS k cfg) sched' sk = (r1', none) := by
    have := body_setLU (shiftCfgS k cfg) sched' sk.core.lastUpd hb' hres
    rw [hsk] at this
    exact this
  have hruneq : Sim.run (shiftCfgS k cfg) sched' (n + 1) sk =
      Sim.run (shiftCfgS k cfg) sched' (n + 1) (setLU none sk) := by
    simp only [Sim.run, hgk, hgk', if_true, hbk, hb']
  refine ⟨(Sim.run (shiftCfgS k cfg) sched' (n + 1) (setLU none sk)).1, sk.core.invoked, ?_, h2⟩
  rw [hrun (n + 1), hruneq]
  exact Prod.ext rfl h1

theorem processAll_sets_resolve (cfg : EventCore.Cfg) : ∀ (es : List Event) (c c1 : Core),
    EventCore.processAll cfg es c = (c1, none) → es ≠ [] → c1.resolve = true := by
  intro es
  induction es with
  | nil => intro c c1 _ h; exact absurd rfl h
  | cons e es ih =>
    intro c c1 h _
    simp only [EventCore.processAll] at h
    obtain ⟨c2, r, hs⟩ : ∃ c2 r, EventCore.step cfg e c = (c2, r) := ⟨_, _, rfl⟩
    rw [hs] at h
    cases r with
    | some err => simp at h
    | none =>
      simp only at h
      have h2 := (step_flags hs).1
      cases es with
      | nil => simp only [EventCore.processAll, Prod.mk.injEq, and_true] at h; rw [← h]; exact h2
      | cons d ds => exact ih c2 c1 h (by simp)

/-- the anchor of `run_shift_anchored` from the data: an event with timestamp 0 and a period 0 whose
    events raise nothing -/
theorem anchor_of_event (cfg : Cfg K) {e : Event} (he : e ∈ EventCore.initPending cfg.core) (h0 : e.ts = 0)
    (hok : (Sim.eventsStage cfg (Sim.init cfg)).2 = none) :
    (Sim.eventsStage cfg (Sim.init cfg)).1.core.resolve = true := by
  have hc := Sim.eventsStage_core cfg (Sim.init cfg)
  have h1 : (Sim.eventsStage cfg (Sim.init cfg)).1.core = (EventCore.eventsStage cfg.core (Sim.init cfg).core).1 := by
    rw [← hc]
  have h2 : (EventCore.eventsStage cfg.core (Sim.init cfg).core).2 = none := by rw [← hc]; exact hok
  rw [h1]
  unfold EventCore.eventsStage at h2 ⊢
  obtain ⟨c1, r, hp⟩ : ∃ c1 r, EventCore.processAll cfg.core
      (popCurrent (Sim.init cfg).core.iter (Sim.init cfg).core.pending).1
      { (Sim.init cfg).core with pending := (popCurrent (Sim.init cfg).core.iter (Sim.init cfg).core.pending).2 } = (c1, r) :=
    ⟨_, _, rfl⟩
  rw [hp] at h2 ⊢
  simp only at h2
  subst h2
  refine processAll_sets_resolve cfg.core _ _ c1 hp ?_
  intro hnil
  have hm : e ∈ (popCurrent (Sim.init cfg).core.iter (Sim.init cfg).core.pending).1 := by
    simp only [popCurrent, mem_sortByKey, List.mem_filter, decide_eq_true_eq]
    exact ⟨he, by rw [h0]; exact le_refl _⟩
  rw [hnil] at hm
  simp at hm

/-- CAPSTONE (shift, `max_recompute = m`, ALIGNED, no event needed in period 0).  The original run
    consults the scheduler in period 0 whatever happens (`_last_schedule_update is None`); when
    `m ∣ k` (or `m = 0`: every period) the idle invocations of the shifted run fall on 0, m, 2m, …, so it
    consults the scheduler in period `k` too, and that invocation erases the only difference the idle
    prefix left behind.  Every run that completes on the original scenario completes on the shifted
    one, and the final states are `ShEquiv k V pre` where `V` are the idle invocations. -/
theorem run_shift_aligned (k : Nat) (cfg : Cfg K) (h : ShiftOK cfg)
    {sched sched' : View K → Except EventCore.Err (Schedule K)} (hs : SchedShiftInvariant k sched sched')
    (hsi : SchedIdle k sched') {m : Nat} (hm : cfg.maxRecompute = some m) (hdiv : m = 0 ∨ m ∣ k)
    (n : Nat) (r : State K) (hr : Sim.run cfg sched (n + 1) (Sim.init cfg) = (r, none)) :
    ∃ r' V, Sim.run (shiftCfgS k cfg) sched' (k + (n + 1)) (Sim.init (shiftCfgS k cfg)) = (r', none) ∧
      ShEquiv k V (List.replicate k (noneRow cfg)) r r' :=
  run_shift_aligned' h hs hsi hm hdiv n r hr

/-- a scheduler that follows a script in RELATIVE time (and answers `{}` before the origin `k`) -/
def scriptedRel (k : Nat) (script : List (Nat × Option (Schedule K))) (dflt : Schedule K) :
    View K → Except EventCore.Err (Schedule K) := fun v =>
  if v.iter < k then .ok [] else scripted script dflt { v with iter := v.iter - k }

/-- the scripted (relative-time) scheduler and the empty scheduler are shift-invariant and idle -/
theorem scripted_schedShiftInvariant (k : Nat) (script : List (Nat × Option (Schedule K))) (dflt : Schedule K) :
    SchedShiftInvariant k (scripted script dflt) (scriptedRel k script dflt) ∧
    SchedIdle k (scriptedRel k script dflt) ∧
    SchedShiftInvariant k (emptySched (K := K)) emptySched ∧ SchedIdle k (emptySched (K := K)) := by
  refine ⟨?_, ?_, fun _ _ _ => rfl, fun _ _ _ => rfl⟩
  · intro v v' hv
    have h1 : ¬ v.iter + k < k := by omega
    simp only [scriptedRel, scripted, hv.iter, Nat.add_sub_cancel, h1, if_false]
  · intro v _ hk
    simp only [scriptedRel, hk, if_true]

/-- the hypotheses of the two capstones are satisfiable -/
example (cfg : Cfg K) (x : Evse.Ev K) (hx : cfg.evs = [x]) (hr : cfg.recomputes = []) (ha : 0 ≤ x.arrival)
    (hdp : 0 ≤ x.departure) (hst : cfg.stations = []) : ShiftOK cfg :=
  ⟨by simp [EventCore.initPending, Cfg.core, hx],
   by
    intro e he
    simp only [EventCore.initPending, Cfg.core, hx, hr, List.map_cons, List.map_nil, List.append_nil,
      List.mem_singleton] at he
    subst he
    exact ha,
   by
    intro y hy
    simp only [Cfg.core, hx, List.map_cons, List.map_nil, List.mem_singleton] at hy
    subst hy
    exact hdp,
   by intro st hs'; rw [hst] at hs'; simp at hs'⟩

end shift

section shift_example
open Acn.Sim Acn.SimShift

local instance : HasExp ℚ := ⟨fun x => x⟩

/-- stations A (0–32 A, 208 V) and B (levels 0/8/16 A, 240 V); session x on A in [1,4), y on B in [2,6),
    both asking for more than they can get, ideal batteries, 5-minute periods; NOTHING due in period 0;
    `max_recompute = 2` -/
def exSimLate : Sim.Cfg ℚ :=
  { stations := [⟨"A", .cont 0 (some 32), 208⟩, ⟨"B", .finite [0, 8, 16], 240⟩],
    evs := [{ session := "x", station := "A", arrival := 1, departure := 4, estDeparture := 4, requested := 10,
              delivered := 0, rate := 0,
              batt := { capacity := 40, charge := 5, init := 5, maxPower := 7, power := 0, twoStage := false,
                        noiseLevel := 0, ts := 0, cmode := .continuous } },
            { session := "y", station := "B", arrival := 2, departure := 6, estDeparture := 5, requested := 10,
              delivered := 0, rate := 0,
              batt := { capacity := 40, charge := 5, init := 5, maxPower := 7, power := 0, twoStage := false,
                        noiseLevel := 0, ts := 0, cmode := .continuous } }],
    recomputes := [], maxRecompute := some 2, period := 5, atolCont := 1 / 1000, atolDeadband := 1 / 1000,
    atolFinite := 1 / 1000, fullEps := 1 / 1000, noise := [] }

/-- a schedule that depends on (relative) time -/
def exScript : List (Nat × Option (Schedule ℚ)) :=
  [(1, some [("A", [16, 12])]), (2, some [("A", [10, 6]), ("B", [8, 16])]), (4, some [("B", [16, 8])])]

theorem exSimLate_ok : ShiftOK exSimLate :=
  ⟨by decide, by decide,
   by show ∀ x ∈ exSimLate.core.sessions, 0 ≤ x.departure; decide,
   by show ∀ st ∈ exSimLate.stations, Evse.validRate (atolOf exSimLate st.kind) exSimLate.atolFinite st.kind 0 = true
      decide +kernel⟩

/-- the hypotheses of `run_shift_aligned` are satisfiable with nothing due in period 0 (so that
    `run_shift_anchored` does not apply) and a time-dependent schedule: `k = 4`, `m = 2` -/
example : (∀ e ∈ initPending exSimLate.core, 0 < e.ts) ∧
    (Sim.run exSimLate (scripted exScript []) 9 (Sim.init exSimLate)).2 = none ∧
    ∃ r' V, Sim.run (shiftCfgS 4 exSimLate) (scriptedRel 4 exScript []) (4 + 9) (Sim.init (shiftCfgS 4 exSimLate))
        = (r', none) ∧
      ShEquiv 4 V (List.replicate 4 (noneRow exSimLate)) (Sim.run exSimLate (scripted exScript []) 9 (Sim.init exSimLate)).1 r' := by
  have hrun : (Sim.run exSimLate (scripted exScript []) 9 (Sim.init exSimLate)).2 = none := by decide +kernel
  refine ⟨by decide, hrun, ?_⟩
  exact run_shift_aligned 4 exSimLate exSimLate_ok (scripted_schedShiftInvariant 4 exScript []).1
    (scripted_schedShiftInvariant 4 exScript []).2.1 rfl (Or.inr ⟨2, rfl⟩) 8 _ (Prod.ext rfl hrun)

/-- … and what the two runs look like: invocations `[0, 2]` of the idle prefix in front, four zero
    columns in front of the pilots, same energies -/
example :
    (Sim.run exSimLate (scripted exScript []) 9 (Sim.init exSimLate)).1.core.invoked = [0, 1, 2, 4, 6] ∧
    (Sim.run (shiftCfgS 4 exSimLate) (scriptedRel 4 exScript []) 13 (Sim.init (shiftCfgS 4 exSimLate))).1.core.invoked
      = [0, 2] ++ [0, 1, 2, 4, 6].map (· + 4) ∧
    (Sim.run (shiftCfgS 4 exSimLate) (scriptedRel 4 exScript []) 13 (Sim.init (shiftCfgS 4 exSimLate))).1.pilots.rows
      = (Sim.run exSimLate (scripted exScript []) 9 (Sim.init exSimLate)).1.pilots.rows.map ([0, 0, 0, 0] ++ ·) ∧
    (Sim.run exSimLate (scripted exScript []) 9 (Sim.init exSimLate)).1.pilots.rows
      = [[0, 16, 10, 6, 0, 0, 0], [0, 0, 8, 16, 16, 8, 0]] ∧
    (Sim.run (shiftCfgS 4 exSimLate) (scriptedRel 4 exScript []) 13 (Sim.init (shiftCfgS 4 exSimLate))).1.evs.map (·.delivered)
      = (Sim.run exSimLate (scripted exScript []) 9 (Sim.init exSimLate)).1.evs.map (·.delivered) := by
  decide +kernel

end shift_example

section constraints_sim
open Acn.Sim Acn.SimSorted Acn.Sorted
variable {K : Type} [Field K] [LinearOrder K] [IsStrictOrderedRing K] [HasExp K] [HasCeilNat K]

/-- CAPSTONE (constraint order).  `Acn.Sim` itself holds no constraint table: the rows of
    `constraint_matrix` / `magnitudes` reach a run only through the scheduler's feasibility check
    (`infrastructure_constraints_feasible`, `SimSorted.feasOf`).  Two network descriptions whose
    (row, limit) pairs are a permutation of each other (`RowsPerm`: same phasors and tolerances) give
    the SAME scheduler, hence runs of the full simulator with the modelled sorted algorithms (greedy /
    round robin, every sort, every option) that are literally equal: every output, every fuel, from
    every state, errors included. -/
theorem run_perm_constraints {net net' : NetInfo K} (hp : RowsPerm net net') (inf : K) (cfg : Cfg K)
    (scfg : Config K) (n : Nat) (s : State K) :
    Sim.run cfg (sortedSched net' inf cfg scfg) n s = Sim.run cfg (sortedSched net inf cfg scfg) n s := by
  rw [sortedSched_rowsPerm hp]

/-- two constraints added in the other order: `RowsPerm` holds, every sort / algorithm / scenario -/
example (a b c s : List K) (l1 l2 vt rt inf : K) (cfg : Cfg K) (scfg : Config K) (n : Nat) :
    Sim.run cfg (sortedSched ⟨[b, a], [l2, l1], c, s, vt, rt⟩ inf cfg scfg) n (Sim.init cfg) =
      Sim.run cfg (sortedSched ⟨[a, b], [l1, l2], c, s, vt, rt⟩ inf cfg scfg) n (Sim.init cfg) :=
  run_perm_constraints (net := ⟨[a, b], [l1, l2], c, s, vt, rt⟩) (net' := ⟨[b, a], [l2, l1], c, s, vt, rt⟩)
    ⟨List.Perm.swap _ _ [], rfl, rfl, rfl, rfl⟩ inf cfg scfg n _

end constraints_sim

section sessions_sim
open Acn.Sim
variable {K : Type} [Field K] [LinearOrder K] [IsStrictOrderedRing K] [HasExp K]

/-- Sim-level statement for permuted session / recompute / station listings, CORE PART of the
    observable: whenever the two runs of the full simulator complete (ANY two scheduler parameters —
    not even the same one), their cores are `CoreEquiv`: same iteration, occupancy keyed by station,
    `_resolve`, `_last_schedule_update`, invocation periods; queue, event history and `ev_history`
    equal as multisets.
    (For a single scheduler that does not read `EVSE.current_pilot` the full statement —
    matrices, peak, EV records — is `run_perm_sessions` below.) -/
theorem run_perm_sessions_core {cfg cfg' : Cfg K} (hv : Valid cfg.core) (hp : CfgPerm cfg.core cfg'.core)
    (sched sched' : View K → Except EventCore.Err (Schedule K)) (n : Nat)
    (h : (Sim.run cfg sched n (Sim.init cfg)).2 = none)
    (h' : (Sim.run cfg' sched' n (Sim.init cfg')).2 = none) :
    CoreEquiv (Sim.run cfg sched n (Sim.init cfg)).1.core (Sim.run cfg' sched' n (Sim.init cfg')).1.core := by
  obtain ⟨d, d', hr, hr', he⟩ := run_perm_sessions_partial hv hp (sched := noFail) (apply := noFail)
    (fun _ => rfl) (fun _ => rfl) n
  have e1 := Sim.run_core cfg sched n (Sim.init cfg) h
  have e2 := Sim.run_core cfg' sched' n (Sim.init cfg') h'
  rw [Sim.init_core] at e1 e2
  rw [hr] at e1
  rw [hr'] at e2
  have a1 : d = (Sim.run cfg sched n (Sim.init cfg)).1.core := congrArg Prod.fst e1
  have a2 : d' = (Sim.run cfg' sched' n (Sim.init cfg')).1.core := congrArg Prod.fst e2
  rw [← a1, ← a2]
  exact he

end sessions_sim

section sessions_full
open Acn.Sim Acn.SimPerm
variable {K : Type} [Field K] [LinearOrder K] [IsStrictOrderedRing K] [HasExp K]

/-- the static tables enter the simulator only through membership: with the EV list / recompute list
    permuted, `Sim.run` is literally the same function of the state -/
theorem run_cfg_perm_sim (cfg : Cfg K) (evs' : List (Evse.Ev K)) (recs' : List (Int × String))
    (hv : Valid cfg.core) (hp : CfgPerm cfg.core ({ cfg with evs := evs', recomputes := recs' } : Cfg K).core)
    (sched : View K → Except EventCore.Err (Schedule K)) (n : Nat) (s : State K) :
    Sim.run { cfg with evs := evs', recomputes := recs' } sched n s = Sim.run cfg sched n s := by
  have hstep : ∀ e s, stepEv ({ cfg with evs := evs', recomputes := recs' } : Cfg K) e s = stepEv cfg e s := by
    intro e s
    unfold stepEv
    have h1 : EventCore.step ({ cfg with evs := evs', recomputes := recs' } : Cfg K).core e s.core =
        EventCore.step cfg.core e s.core := by
      simp only [EventCore.step, process_perm hv hp]
    rw [h1, findSession_perm hv hp]
    rfl
  have hpa : ∀ es s, Sim.processAll ({ cfg with evs := evs', recomputes := recs' } : Cfg K) es s = Sim.processAll cfg es s := by
    intro es
    induction es with
    | nil => intro s; rfl
    | cons e es ih => intro s; simp only [Sim.processAll, hstep, ih]
  have hb : ∀ s, Sim.body ({ cfg with evs := evs', recomputes := recs' } : Cfg K) sched s = Sim.body cfg sched s := by
    intro s
    have hev : Sim.eventsStage ({ cfg with evs := evs', recomputes := recs' } : Cfg K) s = Sim.eventsStage cfg s := by
      simp only [Sim.eventsStage, hpa]
    have hss : ∀ x, schedStage ({ cfg with evs := evs', recomputes := recs' } : Cfg K) sched x = schedStage cfg sched x :=
      fun _ => rfl
    have hsp : ∀ x i st, setPilotAt ({ cfg with evs := evs', recomputes := recs' } : Cfg K) x i st = setPilotAt cfg x i st :=
      fun _ _ _ => rfl
    have hup : ∀ sts i x, updatePilotsFrom ({ cfg with evs := evs', recomputes := recs' } : Cfg K) i sts x =
        updatePilotsFrom cfg i sts x := by
      intro sts
      induction sts with
      | nil => intro i x; rfl
      | cons st rest ih => intro i x; simp only [updatePilotsFrom, hsp, ih]
    have hsr : ∀ w x, storeRates ({ cfg with evs := evs', recomputes := recs' } : Cfg K) w x = storeRates cfg w x :=
      fun _ _ => rfl
    have has : ∀ x, applyStage ({ cfg with evs := evs', recomputes := recs' } : Cfg K) x = applyStage cfg x := by
      intro x
      have hst : ({ cfg with evs := evs', recomputes := recs' } : Cfg K).stations = cfg.stations := rfl
      simp only [applyStage, updatePilots, hup, hsr, hst]
    unfold Sim.body
    rw [hev]
    simp only [hss, has]
  induction n generalizing s with
  | zero => rfl
  | succ n ih => simp only [Sim.run, hb, ih]

/-- CAPSTONE (sessions).  List the sessions (the EVs of the plug-in events) and the recompute events
    in ANY other order.  For every Valid scenario, every fuel and every scheduler that does not read
    `EVSE.current_pilot` through its view (`SchedIgnoresEvsePilot`: scripted, empty, uncontrolled,
    the sorted algorithms), every run of the FULL simulator that completes on the original listing
    completes on the permuted one, and the final states agree: pilot matrix, rate matrix, peak,
    `EVSE.current_pilot`, number of random draws, occupancy log EQUAL; the EV records equal up to the
    listing permutation (`EvsPerm`: energies, rates, batteries per session id); the cores `CoreEquiv`
    (iteration, occupancy, flags, invocation periods equal; queue and histories equal as multisets).
    How `EVSE.current_pilot` is handled: mid-period it may differ between the two runs only in the
    order in which unplugs zero it (same set of stations — but that is not needed), it is visible to a
    scheduler only through `View.evsePilot`, and `update_pilots` overwrites every entry with the
    pilot column (`updatePilots_evse`), so it is equal again at every loop head. -/
theorem run_perm_sessions (cfg : Cfg K) (evs' : List (Evse.Ev K)) (recs' : List (Int × String))
    (hv : Valid cfg.core) (he : evs'.Perm cfg.evs) (hrc : recs'.Perm cfg.recomputes)
    {sched : View K → Except EventCore.Err (Schedule K)} (hsch : SchedIgnoresEvsePilot sched)
    (n : Nat) (r : State K) (hrun : Sim.run cfg sched n (Sim.init cfg) = (r, none)) :
    ∃ r', Sim.run { cfg with evs := evs', recomputes := recs' } sched n
        (Sim.init { cfg with evs := evs', recomputes := recs' }) = (r', none) ∧
      CoreEquiv r.core r'.core ∧ NC r r' := by
  have hp : CfgPerm cfg.core ({ cfg with evs := evs', recomputes := recs' } : Cfg K).core :=
    ⟨he.map _, hrc, fun _ => Iff.rfl, rfl⟩
  have hrel : Rel cfg.core 0 (Sim.init cfg).core (Sim.init ({ cfg with evs := evs', recomputes := recs' } : Cfg K)).core :=
    ⟨init_inv hv, (init_inv (hv.of_perm hp)).of_perm hp, rfl, rfl⟩
  have hpend := hrel.equiv.pending
  have hlt : lastTs (Sim.init ({ cfg with evs := evs', recomputes := recs' } : Cfg K)).core.pending =
      lastTs (Sim.init cfg).core.pending := lastTs_perm hpend.symm
  have hlt' : lastTs (EventCore.init ({ cfg with evs := evs', recomputes := recs' } : Cfg K).core).pending =
      lastTs (EventCore.init cfg.core).pending := hlt
  have hnc : NC (Sim.init cfg) (Sim.init ({ cfg with evs := evs', recomputes := recs' } : Cfg K)) := by
    refine ⟨?_, ?_, rfl, ⟨he, ?_⟩, rfl, rfl, rfl⟩
    · simp only [Sim.init, hlt']
    · simp only [Sim.init, hlt']
    · have h1 : (cfg.evs.map (·.session)) = cfg.core.sessions.map (·.id) := by
        simp only [Cfg.core, List.map_map]
        rfl
      show (cfg.evs.map (·.session)).Nodup
      rw [h1]
      exact hv.ids_nodup
  obtain ⟨r', hr', hce, hncr⟩ := run_perm_sim hv hsch n 0 hrel hnc (by simp [Sim.init]) hrun
  exact ⟨r', by rw [run_cfg_perm_sim cfg evs' recs' hv hp]; exact hr', hce, hncr⟩

/-- the scripted and the empty scheduler do not read `EVSE.current_pilot` -/
theorem scripted_ignoresEvsePilot (script : List (Nat × Option (Schedule K))) (dflt : Schedule K) :
    SchedIgnoresEvsePilot (scripted script dflt) ∧ SchedIgnoresEvsePilot (emptySched (K := K)) :=
  ⟨fun _ _ => rfl, fun _ _ => rfl⟩

example : Valid exCfg ∧ ([⟨"z", "A", 2, 3⟩, ⟨"y", "B", 0, 2⟩, ⟨"x", "A", 0, 2⟩] : List Session).Perm exCfg.sessions :=
  ⟨exCfg_valid, by decide⟩

open Acn.SimSorted Acn.Sorted in
/-- CAPSTONE (sessions, the modelled algorithms).  `run_perm_sessions` with the sorting-based algorithms
    (`SimSorted.sortedSched`: greedy and round robin, all five sort keys, uninterrupted on/off,
    `estimate_max_rate = False`) or uncontrolled charging as the scheduler — the scheduler of the
    permuted listing is the adapter built from the PERMUTED configuration.  No hypothesis on ties: the
    listing order of the sessions never reaches these algorithms (`network.active_evs` is in station
    order; `Sorted.sortBy` is stable), so ties are broken the same way in both runs. -/
theorem run_perm_sessions_sorted [HasCeilNat K] (cfg : Cfg K) (evs' : List (Evse.Ev K)) (recs' : List (Int × String))
    (hv : Valid cfg.core) (he : evs'.Perm cfg.evs) (hrc : recs'.Perm cfg.recomputes)
    (mk : Cfg K → View K → Except EventCore.Err (Schedule K))
    (hmk : (∃ net inf scfg, mk = fun c => sortedSched net inf c scfg) ∨ (∃ inf, mk = fun c => uncontrolledSched inf c))
    (n : Nat) (r : State K) (hrun : Sim.run cfg (mk cfg) n (Sim.init cfg) = (r, none)) :
    ∃ r', Sim.run { cfg with evs := evs', recomputes := recs' } (mk { cfg with evs := evs', recomputes := recs' }) n
        (Sim.init { cfg with evs := evs', recomputes := recs' }) = (r', none) ∧
      CoreEquiv r.core r'.core ∧ NC r r' := by
  rcases hmk with ⟨net, inf, scfg, rfl⟩ | ⟨inf, rfl⟩
  · exact run_perm_sessions cfg evs' recs' hv he hrc (sortedSched_ignoresEvsePilot net inf cfg scfg) n r hrun
  · exact run_perm_sessions cfg evs' recs' hv he hrc (uncontrolledSched_ignoresEvsePilot inf cfg) n r hrun

end sessions_full

section sessions_sorted_example
open Acn.Sim Acn.SimPerm Acn.SimSorted Acn.Sorted

local instance : HasExp ℚ := ⟨fun x => x⟩
local instance : HasCeilNat ℚ := ⟨fun x => (Rat.ceil x).toNat⟩

/-- A + B ≤ 30 A, B ≤ 16 A, one phase -/
def exNet : NetInfo ℚ := ⟨[[1, 1], [0, 1]], [30, 16], [1, 1], [0, 0], 1 / 10000, 1 / 10000000⟩

def exGreedy : Config ℚ :=
  { algo := .greedy, sort := .edf, uninterrupted := false, estimate := false, inc := 1, eps := 1 / 100, fuel := 12 }

def exRR : Config ℚ := { exGreedy with algo := .roundRobin, sort := .fcfs }

theorem exSimLate_valid : Valid exSimLate.core := by
  refine ⟨by decide, by decide, ?_, ?_, ?_, ?_, ?_⟩ <;> simp [exSimLate, Cfg.core, sessionOf]

/-- the hypotheses of `run_perm_sessions_sorted` are satisfiable: the two sessions listed the other
    way round, earliest-deadline-first greedy and first-come-first-served round robin under two
    constraints that bind (x is throttled to 30 − 16 = 14 A by round robin in period 2, y gets nothing
    from greedy EDF in periods 2–3), and the runs complete -/
example :
    (Sim.run exSimLate (sortedSched exNet 1000000 exSimLate exGreedy) 9 (Sim.init exSimLate)).1.pilots.rows
      = [[0, 30, 30, 0, 0, 0, 0], [0, 0, 0, 0, 16, 0, 0]] ∧
    (Sim.run exSimLate (sortedSched exNet 1000000 exSimLate exRR) 9 (Sim.init exSimLate)).1.pilots.rows
      = [[0, 30, 14, 0, 0, 0, 0], [0, 0, 16, 0, 16, 0, 0]] ∧
    (∀ scfg ∈ [exGreedy, exRR], ∃ r', Sim.run { exSimLate with evs := exSimLate.evs.reverse, recomputes := [] }
        (sortedSched exNet 1000000 { exSimLate with evs := exSimLate.evs.reverse, recomputes := [] } scfg) 9
        (Sim.init { exSimLate with evs := exSimLate.evs.reverse, recomputes := [] }) = (r', none) ∧
      CoreEquiv (Sim.run exSimLate (sortedSched exNet 1000000 exSimLate scfg) 9 (Sim.init exSimLate)).1.core r'.core ∧
      NC (Sim.run exSimLate (sortedSched exNet 1000000 exSimLate scfg) 9 (Sim.init exSimLate)).1 r') := by
  refine ⟨by decide +kernel, by decide +kernel, ?_⟩
  intro scfg hs
  have hrun : (Sim.run exSimLate (sortedSched exNet 1000000 exSimLate scfg) 9 (Sim.init exSimLate)).2 = none := by
    simp only [List.mem_cons, List.mem_nil_iff, or_false] at hs
    rcases hs with rfl | rfl <;> decide +kernel
  exact run_perm_sessions_sorted exSimLate exSimLate.evs.reverse [] exSimLate_valid (List.reverse_perm _) (List.Perm.refl _)
    (fun c => sortedSched exNet 1000000 c scfg) (Or.inl ⟨exNet, 1000000, scfg, rfl⟩) 9 _ (Prod.ext rfl hrun)

end sessions_sorted_example

section stations_sorted
open Acn.Sim Acn.SimEquiv Acn.SimSorted Acn.Sorted
variable {K : Type} [Field K] [LinearOrder K] [IsStrictOrderedRing K] [HasExp K]

/-- CAPSTONE (stations, schedulers that answer with a dict).  `run_equivariant_stations` for the
    weaker, one-sided requirement `SchedEquivariantD σ sched sched'`: whenever `sched` answers a view,
    `sched'` answers every station-permuted view with the SAME DICT — the same `{station id ↦ pilots}`
    entries, listed in any order (`_update_schedules` reads a schedule through membership, lookup and
    the set of row lengths only: `updateSchedules_dictEq`).  Same conclusion: the permuted run
    completes and the final states are `StEquiv σ`. -/
theorem run_equivariant_stations_dict (σ : List Nat) (d : Station K) (cfg : Cfg K) (h : PermOK σ cfg)
    {sched sched' : View K → Except EventCore.Err (Schedule K)} (hs : SchedEquivariantD σ sched sched')
    (n : Nat) (r : State K) (hr : Sim.run cfg sched n (Sim.init cfg) = (r, none)) :
    ∃ r', Sim.run (permCfg σ d cfg) sched' n (Sim.init (permCfg σ d cfg)) = (r', none) ∧ StEquiv σ r r' := by
  obtain ⟨he, hsh, ho⟩ := init_equiv (d := d) h
  exact run_equiv_stD h hs n he hsh ho hr

/-- CAPSTONE (stations × the sorting-based algorithms).  Register the stations in the order `σ` and
    build the algorithm from the permuted configuration and the network description with permuted
    columns (`reNet`).  If no view handed out during the original run contains two sessions with the
    same sort key (`TieFree`, on the sessions left by `remove_finished_sessions`; decidable form:
    `tieFree_of_pairwise`), every run of the FULL simulator with `SortedSchedulingAlgo` or `RoundRobin`
    (all five sort keys, continuous and finite-rate EVSEs, bisection / level scan / round-robin
    increments, any network constraints with one coefficient / phasor per station; interruptible,
    `estimate_max_rate = False`) that completes on the
    original registration order completes on the permuted one, with `StEquiv σ` final states: pilots,
    rates, `EVSE.current_pilot` equal keyed by station id; energies, peak, event core equal.
    The tie hypothesis is necessary: `sorted` is stable and `network.active_evs` is in station order,
    so with a tie the registration order decides who is served first (`ties` section below). -/
theorem run_equivariant_stations_sorted [HasCeilNat K] (σ : List Nat) (d : Station K) (cfg : Cfg K)
    (h : PermOK σ cfg) {net : NetInfo K} (hnet : NetOK cfg.stations.length net) (inf : K) (scfg : Config K)
    (hu : scfg.uninterrupted = false) (n : Nat) (r : State K)
    (hties : ∀ v ∈ runViews cfg (sortedSched net inf cfg scfg) n (Sim.init cfg), TieFree inf cfg scfg.sort v)
    (hr : Sim.run cfg (sortedSched net inf cfg scfg) n (Sim.init cfg) = (r, none)) :
    ∃ r', Sim.run (permCfg σ d cfg) (sortedSched (reNet σ net) inf (permCfg σ d cfg) scfg) n
        (Sim.init (permCfg σ d cfg)) = (r', none) ∧ StEquiv σ r r' := by
  have hg := run_guardView cfg (TieFree inf cfg scfg.sort) (sortedSched net inf cfg scfg) n (Sim.init cfg) hties
  rw [← hg] at hr
  exact run_equivariant_stations_dict σ d cfg h (sortedSched_equivariantD h hnet inf scfg hu) n r hr

/-- CAPSTONE (stations × uncontrolled charging).  `OnePerStation`: the view lists at most one active
    session per station (the simulator never hands out anything else; it is what makes
    `{station: …}` independent of the order in which the dict is filled). -/
theorem run_equivariant_stations_uncontrolled (σ : List Nat) (d : Station K) (cfg : Cfg K) (h : PermOK σ cfg)
    (inf : K) (n : Nat) (r : State K)
    (hone : ∀ v ∈ runViews cfg (uncontrolledSched inf cfg) n (Sim.init cfg), OnePerStation v)
    (hr : Sim.run cfg (uncontrolledSched inf cfg) n (Sim.init cfg) = (r, none)) :
    ∃ r', Sim.run (permCfg σ d cfg) (uncontrolledSched inf (permCfg σ d cfg)) n
        (Sim.init (permCfg σ d cfg)) = (r', none) ∧ StEquiv σ r r' := by
  have hg := run_guardView cfg OnePerStation (uncontrolledSched inf cfg) n (Sim.init cfg) hone
  rw [← hg] at hr
  exact run_equivariant_stations_dict σ d cfg h (uncontrolledSched_equivariantD h inf) n r hr

end stations_sorted

section stations_sorted_example
open Acn.Sim Acn.SimEquiv Acn.SimSorted Acn.Sorted

local instance : HasExp ℚ := ⟨fun x => x⟩
local instance : HasCeilNat ℚ := ⟨fun x => (Rat.ceil x).toNat⟩

theorem exSimLate_permOK : PermOK [1, 0] exSimLate :=
  ⟨by decide, by show (exSimLate.stations.map (·.id)).Nodup; decide, constNoise_of_short (by simp [exSimLate])⟩

theorem exNet_ok : NetOK exSimLate.stations.length exNet :=
  ⟨by intro row hr; simp only [exNet, List.mem_cons, List.mem_nil_iff, or_false] at hr; rcases hr with rfl | rfl <;> rfl,
   rfl, rfl⟩

/-- the hypotheses of `run_equivariant_stations_sorted` are satisfiable: stations B, A instead of A, B,
    earliest-deadline-first greedy and first-come-first-served round robin under two binding
    constraints; every view of the run is tie-free (estimated departures 4 and 5, arrivals 1 and 2);
    the runs complete; and the permuted runs have the rows swapped -/
example :
    (∀ scfg ∈ [exGreedy, exRR], ∃ r', Sim.run (permCfg [1, 0] ⟨"", .cont 0 none, 0⟩ exSimLate)
        (sortedSched (reNet [1, 0] exNet) 1000000 (permCfg [1, 0] ⟨"", .cont 0 none, 0⟩ exSimLate) scfg) 9
        (Sim.init (permCfg [1, 0] ⟨"", .cont 0 none, 0⟩ exSimLate)) = (r', none) ∧
      StEquiv [1, 0] (Sim.run exSimLate (sortedSched exNet 1000000 exSimLate scfg) 9 (Sim.init exSimLate)).1 r') ∧
    (Sim.run (permCfg [1, 0] ⟨"", .cont 0 none, 0⟩ exSimLate)
        (sortedSched (reNet [1, 0] exNet) 1000000 (permCfg [1, 0] ⟨"", .cont 0 none, 0⟩ exSimLate) exGreedy) 9
        (Sim.init (permCfg [1, 0] ⟨"", .cont 0 none, 0⟩ exSimLate))).1.pilots.rows
      = [[0, 0, 0, 0, 16, 0, 0], [0, 30, 30, 0, 0, 0, 0]] ∧
    (Sim.run (permCfg [1, 0] ⟨"", .cont 0 none, 0⟩ exSimLate)
        (sortedSched (reNet [1, 0] exNet) 1000000 (permCfg [1, 0] ⟨"", .cont 0 none, 0⟩ exSimLate) exRR) 9
        (Sim.init (permCfg [1, 0] ⟨"", .cont 0 none, 0⟩ exSimLate))).1.pilots.rows
      = [[0, 0, 16, 0, 16, 0, 0], [0, 30, 14, 0, 0, 0, 0]] := by
  refine ⟨?_, by decide +kernel, by decide +kernel⟩
  intro scfg hs
  simp only [List.mem_cons, List.mem_nil_iff, or_false] at hs
  have hrun : (Sim.run exSimLate (sortedSched exNet 1000000 exSimLate scfg) 9 (Sim.init exSimLate)).2 = none := by
    rcases hs with rfl | rfl <;> decide +kernel
  have hties : ∀ v ∈ runViews exSimLate (sortedSched exNet 1000000 exSimLate scfg) 9 (Sim.init exSimLate),
      (preOf (infraOf 1000000 exSimLate) exSimLate.period (v.active.map (sessionOfEv 1000000 v.iter))).Pairwise
        (fun a b => Acn.C08.sameKey scfg.sort (infraOf 1000000 exSimLate) exSimLate.period (v.iter : Int) a b = false) := by
    rcases hs with rfl | rfl <;> decide +kernel
  exact run_equivariant_stations_sorted [1, 0] _ exSimLate exSimLate_permOK exNet_ok 1000000 scfg
    (by rcases hs with rfl | rfl <;> rfl) 9 _
    (fun v hv => tieFree_of_pairwise _ _ _ v (hties v hv)) (Prod.ext rfl hrun)

/-- … and for uncontrolled charging (every view of a run lists at most one session per station) -/
example : ∃ r', Sim.run (permCfg [1, 0] ⟨"", .cont 0 none, 0⟩ exSimLate)
      (uncontrolledSched 1000000 (permCfg [1, 0] ⟨"", .cont 0 none, 0⟩ exSimLate)) 9
      (Sim.init (permCfg [1, 0] ⟨"", .cont 0 none, 0⟩ exSimLate)) = (r', none) ∧
    StEquiv [1, 0] (Sim.run exSimLate (uncontrolledSched 1000000 exSimLate) 9 (Sim.init exSimLate)).1 r' := by
  have hrun : (Sim.run exSimLate (uncontrolledSched 1000000 exSimLate) 9 (Sim.init exSimLate)).2 = none := by
    decide +kernel
  have hone : ∀ v ∈ runViews exSimLate (uncontrolledSched 1000000 exSimLate) 9 (Sim.init exSimLate),
      (v.active.map (·.station)).Nodup := by decide +kernel
  exact run_equivariant_stations_uncontrolled [1, 0] _ exSimLate exSimLate_permOK 1000000 9 _ hone (Prod.ext rfl hrun)

end stations_sorted_example

section shift_sorted
open Acn.Sim Acn.SimShift Acn.SimSorted Acn.Sorted
variable {K : Type} [Field K] [LinearOrder K] [IsStrictOrderedRing K] [HasExp K]

/-- CAPSTONE (shift × the modelled algorithms, `max_recompute = None`).  The sorting-based algorithms
    (greedy and round robin, all five sorts — LLF reads `estimated_departure − now` —, interruptible, no
    estimator) and uncontrolled charging see time only through arrival / estimated departure of the
    sessions and the current period (`sortedSched_shiftInvariant`, `uncontrolledSched_shiftInvariant`):
    `run_shift` applies to them as they are, the shifted scheduler being the adapter built from the
    SHIFTED configuration.  Errors included, every fuel.  (With `max_recompute = m` these algorithms are
    consulted in the idle prefix and answer all-zero rows instead of `{}`: `SchedIdle` fails for them
    as stated and `run_shift_anchored` / `run_shift_aligned` do not apply — `AcnProofs/C10Shift.lean` has the
    versions for `SchedIdleZ` that do, and `uninterrupted_charging`.) -/
theorem run_shift_sorted [HasCeilNat K] (k : Nat) (cfg : Cfg K) (h : ShiftOK cfg)
    (mk : Cfg K → View K → Except EventCore.Err (Schedule K))
    (hmk : (∃ net inf scfg, scfg.uninterrupted = false ∧ mk = fun c => sortedSched net inf c scfg) ∨
      (∃ inf, mk = fun c => uncontrolledSched inf c))
    (hmr : cfg.maxRecompute = none) (n : Nat) :
    (Sim.run (shiftCfgS k cfg) (mk (shiftCfgS k cfg)) (k + n) (Sim.init (shiftCfgS k cfg))).2 =
      (Sim.run cfg (mk cfg) n (Sim.init cfg)).2 ∧
    ShEquiv k [] (List.replicate k (noneRow cfg)) (Sim.run cfg (mk cfg) n (Sim.init cfg)).1
      (Sim.run (shiftCfgS k cfg) (mk (shiftCfgS k cfg)) (k + n) (Sim.init (shiftCfgS k cfg))).1 := by
  rcases hmk with ⟨net, inf, scfg, hu, rfl⟩ | ⟨inf, rfl⟩
  · exact run_shift k cfg h (sortedSched_shiftInvariant k net inf cfg scfg hu) hmr n
  · exact run_shift k cfg h (uncontrolledSched_shiftInvariant k inf cfg) hmr n

end shift_sorted

section shift_sorted_example
open Acn.Sim Acn.SimShift Acn.SimSorted Acn.Sorted

local instance : HasExp ℚ := ⟨fun x => x⟩
local instance : HasCeilNat ℚ := ⟨fun x => (Rat.ceil x).toNat⟩

/-- `exSimLate` with `max_recompute = None` -/
def exSimNone : Sim.Cfg ℚ := { exSimLate with maxRecompute := none }

theorem exSimNone_ok : ShiftOK exSimNone :=
  ⟨by decide, by decide,
   by show ∀ x ∈ exSimNone.core.sessions, 0 ≤ x.departure; decide,
   by show ∀ st ∈ exSimNone.stations, Evse.validRate (atolOf exSimNone st.kind) exSimNone.atolFinite st.kind 0 = true
      decide +kernel⟩

/-- the hypotheses of `run_shift_sorted` are satisfiable (least-laxity-first round robin under two
    binding constraints, shift by 3), and what the two runs look like -/
example :
    ShEquiv 3 [] (List.replicate 3 (noneRow exSimNone))
      (Sim.run exSimNone (sortedSched exNet 1000000 exSimNone { exRR with sort := .llf }) 9 (Sim.init exSimNone)).1
      (Sim.run (shiftCfgS 3 exSimNone) (sortedSched exNet 1000000 (shiftCfgS 3 exSimNone) { exRR with sort := .llf })
        (3 + 9) (Sim.init (shiftCfgS 3 exSimNone))).1 ∧
    (Sim.run exSimNone (sortedSched exNet 1000000 exSimNone { exRR with sort := .llf }) 9 (Sim.init exSimNone)).2 = none ∧
    (Sim.run (shiftCfgS 3 exSimNone) (sortedSched exNet 1000000 (shiftCfgS 3 exSimNone) { exRR with sort := .llf })
        12 (Sim.init (shiftCfgS 3 exSimNone))).1.pilots.rows
      = (Sim.run exSimNone (sortedSched exNet 1000000 exSimNone { exRR with sort := .llf }) 9
          (Sim.init exSimNone)).1.pilots.rows.map ([0, 0, 0] ++ ·) ∧
    (Sim.run exSimNone (sortedSched exNet 1000000 exSimNone { exRR with sort := .llf }) 9
          (Sim.init exSimNone)).1.pilots.rows ≠ [[0, 0, 0, 0, 0, 0, 0], [0, 0, 0, 0, 0, 0, 0]] := by
  refine ⟨?_, by decide +kernel, by decide +kernel, by decide +kernel⟩
  exact (run_shift_sorted 3 exSimNone exSimNone_ok (fun c => sortedSched exNet 1000000 c { exRR with sort := .llf })
    (Or.inl ⟨exNet, 1000000, { exRR with sort := .llf }, rfl, rfl⟩) rfl 9).2

end shift_sorted_example

section ties
open Acn.Sorted
variable {K : Type} [Field K] [LinearOrder K] [IsStrictOrderedRing K]

/-- What happens with ties, precisely: the sorted queue of the sorting-based algorithms depends on
    the listing order of the sessions ONLY through ties.  If no two different sessions of the input
    share a sort key, every permutation of the input gives the same queue (all five keys).
    (With ties the order among equal keys is the input order, `Acn.C08.sorted_by_key` (iii) — and the
    input order is the station order, which is why C10's station-permutation relation is claimed
    for distinct keys: `run_equivariant_stations_sorted` composes this theorem with the equivariance
    of the greedy / round-robin allocation.  The session-LISTING order never reaches the algorithms,
    so `run_perm_sessions_sorted` needs no such hypothesis.) -/
theorem sort_perm_of_distinct_keys (kind : SortKind) (infra : Infra K) (period : K) (time : Int)
    (l l' : List (Session K)) (hp : l'.Perm l)
    (hd : ∀ a ∈ l, ∀ b ∈ l, Acn.C08.sameKey kind infra period time a b = true → a = b) :
    sortSessions kind infra period time l' = sortSessions kind infra period time l := by
  obtain ⟨p1, s1, _⟩ := Acn.C08.sorted_by_key kind infra period time l
  obtain ⟨p2, s2, _⟩ := Acn.C08.sorted_by_key kind infra period time l'
  refine List.Perm.eq_of_pairwise ?_ s2 s1 (p2.trans (hp.trans p1.symm))
  intro a b ha hb h1 h2
  have ha' : a ∈ l := hp.mem_iff.1 (p2.mem_iff.1 ha)
  have hb' : b ∈ l := p1.mem_iff.1 hb
  exact hd a ha' b hb' (by simp [Acn.C08.sameKey, h1, h2])

example (kind : SortKind) (infra : Infra K) (period : K) (time : Int) (a : Session K) :
    sortSessions kind infra period time [a] = [a] := rfl

end ties
end Acn.C10
