/-
  C10 — results are deterministic and independent of incidental ordering.

  DETERMINISM.  Every model (`Acn.Feas`, `Acn.Pilots`, `Acn.EventCore`, `Acn.Sim`) is a Lean
  FUNCTION of the scenario: running it twice gives the same answer by `rfl`.  There is nothing to
  prove and no theorem pretends otherwise; what the property claims about determinism is that the
  IMPLEMENTATION refines a function, which is checked by the harness (every scenario is run twice
  in-process and under three `PYTHONHASHSEED`s in subprocesses, `harness/props/C10.py`).

  INDEPENDENCE OF INCIDENTAL ORDER.  The theorems below are the index mechanics the property is
  about, each for all inputs:
    * constraints in any order            `feasible_perm_constraints`
    * stations in any order               `feasible_perm_stations`, `densify_equivariant`,
                                          `updateSchedules_equivariant`, `run_equivariant_stations` (the WHOLE
                                          simulator `Acn.Sim.run`), `run_equivariant_stations_partial` (core only,
                                          but from any state and with failing schedulers)
    * ties in a sort key                  `sort_perm_of_distinct_keys`
    * sessions / events in any order      `popCurrent_perm`, `plugins_commute`, `unplugs_commute`,
                                          `eventsStage_perm`, `run_perm_sessions` (the WHOLE simulator),
                                          `run_perm_sessions_core`, `run_perm_sessions_partial` (event core)
    * time shift by `k` periods           `updateSchedules_shift`, `run_shift` (the WHOLE simulator, `max_recompute`
                                          = None), `run_shift_anchored` (any `max_recompute`, an event in period 0),
                                          `run_shift_from` (from any related states, errors included);
                                          event core only: `body_shift`, `run_shift_partial`
  `σ` is a list of station numbers that is a permutation of `0..n-1`; `reidx σ l d` reads the
  per-station list `l` in that order.  Helper lemmas: `AcnProofs/Lemmas/Equiv*.lean`.
-/
import AcnProofs.Lemmas.EquivPilots
import AcnProofs.Lemmas.EquivShift
import AcnProofs.Lemmas.EquivSimRun
import AcnProofs.Lemmas.EquivSimShiftCap
import AcnProofs.Lemmas.EquivSimSessionsRun
import AcnProofs.C08

set_option linter.unusedSectionVars false

namespace Acn.C10
open Acn Acn.EventCore

section feasibility
open Acn.Feas
variable {K : Type} [Field K] [LinearOrder K] [IsStrictOrderedRing K]

/-- Adding the constraints in another order (any permutation of the (row, limit) pairs) does not
    change the verdict of `ChargingNetwork.is_feasible`: all schedules, all phasors, all tolerances. -/
theorem feasible_perm_constraints (M M' : List (List K)) (lims lims' c s : List K) (vt rt : K)
    (S : List (List K)) (hM : M.length = lims.length) (hM' : M'.length = lims'.length)
    (h : (List.zip M' lims').Perm (List.zip M lims)) :
    netFeasible M' lims' c s vt rt S = netFeasible M lims c s vt rt S := by
  unfold netFeasible
  have hl : lims'.isEmpty = lims.isEmpty := by
    have := h.length_eq
    simp only [List.length_zip, hM, hM', Nat.min_self] at this
    cases lims <;> cases lims' <;> simp at this ⊢
  rw [hl]
  split
  · rfl
  · congr 1
    funext t
    exact all_perm h _

example (a b : List K) (l1 l2 : K) (c s : List K) (vt rt : K) (S : List (List K)) :
    netFeasible [b, a] [l2, l1] c s vt rt S = netFeasible [a, b] [l1, l2] c s vt rt S :=
  feasible_perm_constraints [a, b] [b, a] [l1, l2] [l2, l1] c s vt rt S rfl rfl (List.Perm.swap _ _ [])

/-- Registering the stations in another order — ONE permutation `σ` applied to the columns of the
    constraint matrix, to the phasors and to the rows of the (rectangular) schedule — does not
    change the verdict: the aggregate currents are sums over a permuted list. -/
theorem feasible_perm_stations (σ : List Nat) (n : Nat) (hσ : σ.Perm (List.range n))
    (M : List (List K)) (lims c s : List K) (vt rt : K) (S : List (List K)) (w : Nat)
    (hM : ∀ row ∈ M, row.length = n) (hc : c.length = n) (hs : s.length = n)
    (hS : S.length = n) (hw : ∀ r ∈ S, r.length = w) :
    netFeasible (M.map (fun row => reidx σ row 0)) lims (reidx σ c 0) (reidx σ s 0) vt rt (reidx σ S []) =
      netFeasible M lims c s vt rt S := by
  unfold netFeasible
  rw [periods_reidx σ n hσ S w hS hw]
  split
  · rfl
  · congr 1
    funext t
    have key : ∀ p ∈ List.zip M lims,
        rowOk (reidx σ p.1 0) p.2 vt rt (reidx σ c 0) (reidx σ s 0) (col (reidx σ S []) t)
          = rowOk p.1 p.2 vt rt c s (col S t) := by
      intro p hp
      have hr := hM p.1 (List.of_mem_zip (show (p.1, p.2) ∈ List.zip M lims from hp)).1
      rw [col_reidx]
      exact rowOk_reidx σ n hσ p.1 p.2 vt rt c s (col S t) hr hc hs (by rw [col_length, hS])
    rw [List.zip_map_left, List.all_map]
    rw [Bool.eq_iff_iff, List.all_eq_true, List.all_eq_true]
    constructor
    · intro H p hp
      have h1 := H p hp
      have k := key p hp
      obtain ⟨row, lim⟩ := p
      simp only [Function.comp, Prod.map, id] at h1 k ⊢
      rw [← k]
      exact h1
    · intro H p hp
      have h1 := H p hp
      have k := key p hp
      obtain ⟨row, lim⟩ := p
      simp only [Function.comp, Prod.map, id] at h1 k ⊢
      rw [k]
      exact h1

example : netFeasible ([[1, 1, 0], [0, 1, 2]].map (fun row => reidx [2, 0, 1] row 0)) [10, 20]
        (reidx [2, 0, 1] ([1, 0, 1] : List ℚ) 0) (reidx [2, 0, 1] [0, 1, 0] 0) 0 0
        (reidx [2, 0, 1] [[3, 4], [5, 6], [1, 1]] [])
    = netFeasible [[1, 1, 0], [0, 1, 2]] [10, 20] ([1, 0, 1] : List ℚ) [0, 1, 0] 0 0 [[3, 4], [5, 6], [1, 1]] :=
  feasible_perm_stations [2, 0, 1] 3 (by decide) _ _ _ _ _ _ _ 2 (by simp) rfl rfl rfl (by simp)

end feasibility

section pilots
variable {K : Type} [OfNat K 0]
open Acn.Pilots

/-- The dense schedule matrix follows the station order: station order permuted ⇒ rows permuted
    (simulator.py:256-263, interface.py:663-670). -/
theorem densify_equivariant (σ : List Nat) (stations : List String) (sched : Sched K) (len : Nat)
    (h : ∀ i ∈ σ, i < stations.length) :
    Pilots.densify (reidx σ stations "") sched len = reidx σ (Pilots.densify stations sched len) [] :=
  densify_reidx σ stations sched len h

example : Pilots.densify (reidx [1, 0] ["A", "B"] "") [("B", [(7 : ℤ)])] 1 = [[7], [0]]
    ∧ Pilots.densify ["A", "B"] [("B", [(7 : ℤ)])] 1 = [[0], [7]] := by decide

/-- `_update_schedules` is equivariant: with the stations registered in the order `σ` and the pilot
    matrix rows in that order, the same submission (a dict keyed by station id) yields the
    row-permuted matrix — same error class, same growth, same block.  All schedules (malformed
    ones included), all periods, all queue horizons. -/
theorem updateSchedules_equivariant (σ : List Nat) (stations : List String)
    (hσ : σ.Perm (List.range stations.length)) (m : Mat K) (hm : m.rows.length = stations.length)
    (t : Nat) (lastTs : Option Nat) (sched : Sched K) :
    updateSchedules (reidx σ stations "") (m.reidx σ) t lastTs sched
      = (updateSchedules stations m t lastTs sched).map (Mat.reidx σ) :=
  updateSchedules_reidx σ stations hσ m hm t lastTs sched

example : (updateSchedules (reidx [1, 0] ["A", "B"] "") ((Mat.zeros 2 2 : Mat ℤ).reidx [1, 0]) 1 (some 1)
      [("A", [5, 6])]).toOption.map (·.rows) = some [[0, 0, 0], [0, 5, 6]] := by decide

/-- `_update_schedules` commutes with a time shift: the same submission `k` periods later into the
    matrix with `k` zero columns in front gives the shifted matrix (first `k` columns stay 0). -/
theorem updateSchedules_shift (k : Nat) (stations : List String) (m : Mat K) (t : Nat) (lastTs : Option Nat)
    (sched : Sched K) :
    updateSchedules stations (shiftMat k m) (t + k) (lastTs.map (· + k)) sched
      = (updateSchedules stations m t lastTs sched).map (shiftMat k) :=
  updateSchedules_shift' k stations m t lastTs sched

example : (updateSchedules ["A", "B"] (shiftMat 2 (Mat.zeros 2 2 : Mat ℤ)) (1 + 2) (some (1 + 2))
      [("A", [5, 6])]).toOption.map (·.rows) = some [[0, 0, 0, 5, 6], [0, 0, 0, 0, 0]] := by decide

end pilots

section events

/-- `get_current_events`: the multiset popped, the multiset left, and the fact that the popped
    events come out key-sorted do not depend on the insertion order of the queue (ties between equal
    keys are the only freedom). -/
theorem popCurrent_perm {p p' : List Event} (h : p.Perm p') (t : Nat) :
    (popCurrent t p).1.Perm (popCurrent t p').1 ∧ (popCurrent t p).2.Perm (popCurrent t p').2 ∧
    (popCurrent t p).1.Pairwise (fun a b => a.keyLe b = true) ∧
    (popCurrent t p').1.Pairwise (fun a b => a.keyLe b = true) :=
  popCurrent_perm' h t

/-- Two plug-ins of the same period on DIFFERENT stations commute: if one order succeeds so does
    the other, and the states agree up to the order of the history / queue entries. -/
theorem plugins_commute (cfg : Cfg) {x y : Session} (hx : findSession cfg x.id = some x)
    (hy : findSession cfg y.id = some y) (hst : x.station ≠ y.station) (hts : x.arrival = y.arrival)
    (c c1 : Core) (h : processAll cfg [plugEv x, plugEv y] c = (c1, none)) :
    ∃ c2, processAll cfg [plugEv y, plugEv x] c = (c2, none) ∧ CoreEquiv c1 c2 :=
  plugins_commute' cfg hx hy hst hts c c1 h

/-- … and so do two unplugs. -/
theorem unplugs_commute (cfg : Cfg) {x y : Session} (hx : findSession cfg x.id = some x)
    (hy : findSession cfg y.id = some y) (hst : x.station ≠ y.station) (hts : x.departure = y.departure)
    (c c1 : Core) (h : processAll cfg [unplugEv x, unplugEv y] c = (c1, none)) :
    ∃ c2, processAll cfg [unplugEv y, unplugEv x] c = (c2, none) ∧ CoreEquiv c1 c2 :=
  unplugs_commute' cfg hx hy hst hts c c1 h

def exCfg : Cfg :=
  { stations := ["A", "B"], sessions := [⟨"x", "A", 0, 2⟩, ⟨"y", "B", 0, 2⟩, ⟨"z", "A", 2, 3⟩],
    recomputes := [(2, "r0")], maxRecompute := some 2 }

def exCfg' : Cfg :=
  { stations := ["B", "A"], sessions := [⟨"z", "A", 2, 3⟩, ⟨"y", "B", 0, 2⟩, ⟨"x", "A", 0, 2⟩],
    recomputes := [(2, "r0")], maxRecompute := some 2 }

example : (processAll exCfg [plugEv ⟨"x", "A", 0, 2⟩, plugEv ⟨"y", "B", 0, 2⟩] (init exCfg)).2 = none
    ∧ (processAll exCfg [plugEv ⟨"x", "A", 0, 2⟩, plugEv ⟨"y", "B", 0, 2⟩] (init exCfg)).1.evHist = ["x", "y"]
    ∧ (processAll exCfg [plugEv ⟨"y", "B", 0, 2⟩, plugEv ⟨"x", "A", 0, 2⟩] (init exCfg)).1.evHist = ["y", "x"] := by
  decide

theorem exCfg_valid : Valid exCfg := by
  refine ⟨by decide, by decide, ?_, ?_, ?_, ?_, ?_⟩ <;> simp [exCfg]

theorem exCfg_perm : CfgPerm exCfg exCfg' := by
  refine ⟨by decide, by decide, ?_, rfl⟩
  intro s; simp [exCfg, exCfg']; tauto

/-- The state after a period's events does not depend on the order in which the sessions (and the
    recompute events, and the stations) were listed: two runs over permuted tables that are in
    states satisfying the loop invariant of the same period (`Inv`, C01) and agree on
    `_last_schedule_update` reach states that agree exactly on occupancy (keyed by station),
    `_resolve`, `_last_schedule_update`, and up to order on queue and histories.  No error. -/
theorem eventsStage_perm {cfg cfg' : Cfg} (hv : Valid cfg) (hp : CfgPerm cfg cfg') {t : Nat} {c c' : Core}
    (hI : Inv cfg t c) (hI' : Inv cfg' t c') (hl : c.lastUpd = c'.lastUpd) (hi : c.invoked = c'.invoked) :
    ∃ c1 c1', eventsStage cfg c = (c1, none) ∧ eventsStage cfg' c' = (c1', none) ∧ CoreEquiv c1 c1' := by
  obtain ⟨c1, c1', h1, h1', he, _, _⟩ := eventsStage_equiv hv ⟨hI, hI'.of_perm hp, hl, hi⟩
  refine ⟨c1, c1', h1, ?_, he⟩
  rw [← h1']
  simp only [eventsStage, processAll_perm hv hp]

/- FULL STATEMENT (not proved; the numeric layer `Acn.Sim` is not covered):
     for `Sim.Cfg`s that differ by a permutation of `evs` / `recomputes` and a scheduler that maps
     `View`s equal up to the order of … to equal schedules,
     `Sim.run cfg' sched n (Sim.init cfg')` and `Sim.run cfg sched n (Sim.init cfg)` have the same
     `pilots`, `rates`, `peak`, per-session energies, and `CoreEquiv` cores.
   PROVED: the event core of the run (everything except pilots/rates/energies), for every Valid
   scenario, every fuel, every non-failing scheduler / pilot application. -/
/-- The whole run of the event core over permuted session / recompute / station tables ends in
    equivalent states: same iteration, occupancy, flags and scheduler invocation periods; queue
    and histories equal as multisets (their order is fixed up to ties by `history_sorted`, C01). -/
theorem run_perm_sessions_partial {cfg cfg' : Cfg} (hv : Valid cfg) (hp : CfgPerm cfg cfg')
    {sched apply : Core → Option Err} (hs : ∀ c, sched c = none) (ha : ∀ c, apply c = none) (n : Nat) :
    ∃ d d', run cfg sched apply n (init cfg) = (d, none) ∧ run cfg' sched apply n (init cfg') = (d', none) ∧
      CoreEquiv d d' := by
  have hR : Rel cfg 0 (init cfg) (init cfg') :=
    ⟨init_inv hv, (init_inv (hv.of_perm hp)).of_perm hp, rfl, rfl⟩
  obtain ⟨d, d', _, hr, hr', hRel⟩ := run_equiv hv hs ha n 0 _ _ hR
  exact ⟨d, d', hr, by rw [run_cfg_perm hv hp]; exact hr', hRel.equiv⟩

example : Valid exCfg ∧ CfgPerm exCfg exCfg'
    ∧ (run exCfg noFail noFail 10 (init exCfg)).1.eventHist.map (·.sess) = ["x", "y", "x", "y", "z", "r0", "z"]
    ∧ (run exCfg' noFail noFail 10 (init exCfg')).1.eventHist.map (·.sess) = ["y", "x", "y", "x", "z", "r0", "z"]
    ∧ (run exCfg noFail noFail 10 (init exCfg)).1.invoked = [0, 2, 3] := by
  refine ⟨exCfg_valid, exCfg_perm, by decide, by decide, by decide⟩

/- FULL STATEMENT (not proved): `Sim.run (σ·cfg) sched' = σ·(Sim.run cfg sched)` keyed by station id
   for an equivariant scheduler, i.e. pilots / rates rows permuted, `evsePilot` permuted, energies,
   peak (as a sum over a permuted list) and core equal.
   PROVED: the event core does not see the station ORDER at all (literally the same function), and
   the matrix side is `updateSchedules_equivariant` / `densify_equivariant` /
   `feasible_perm_stations` above. -/
/-- Registering the stations in another order does not change the event core of the run at all:
    any state, any fuel, any scheduler / pilot application (failing ones included). -/
theorem run_equivariant_stations_partial (cfg : Cfg) (st' : List String) (h : ∀ s, s ∈ st' ↔ s ∈ cfg.stations)
    (sched apply : Core → Option Err) (n : Nat) (c : Core) :
    run { cfg with stations := st' } sched apply n c = run cfg sched apply n c := by
  have hc : ∀ s, st'.contains s = cfg.stations.contains s := by
    intro s
    rw [Bool.eq_iff_iff]
    simp only [List.contains_iff_mem]
    exact h s
  have hp : ∀ e c, process { cfg with stations := st' } e c = process cfg e c := by
    intro e c
    unfold process findSession
    simp only [hc]
  have hpa : ∀ es c, processAll { cfg with stations := st' } es c = processAll cfg es c := by
    intro es
    induction es with
    | nil => intro c; rfl
    | cons e es ih => intro c; simp only [processAll, step, hp, ih]
  have hb : ∀ c, body { cfg with stations := st' } sched apply c = body cfg sched apply c := by
    intro c
    simp only [body, eventsStage, hpa]
  induction n generalizing c with
  | zero => rfl
  | succ n ih => simp only [run, hb, ih]

/-- One trip round the loop commutes with a time shift of `k` periods, from ANY state, errors
    included, for a scheduler / pilot application that cannot tell the shifted state from the
    original (i.e. depends on the view through relative time only). -/
theorem body_shift (k : Nat) (cfg : Cfg) {sched sched' apply apply' : Core → Option Err}
    (hs : ∀ c, sched' (shiftCore k c) = sched c) (ha : ∀ c, apply' (shiftCore k c) = apply c) (c : Core) :
    body (shiftCfg k cfg) sched' apply' (shiftCore k c) =
      (shiftCore k (body cfg sched apply c).1, (body cfg sched apply c).2) :=
  body_shift' k cfg hs ha c

theorem initPending_shift (k : Nat) (cfg : Cfg) :
    initPending (shiftCfg k cfg) = (initPending cfg).map (shiftEv k) := by
  simp only [initPending, shiftCfg, List.map_append, List.map_map]
  rfl

/- FULL STATEMENT (not proved): for every `maxRecompute` (with `some m` the periodic invocations
   before the first event are anchored at period 0, so the statement needs "an event at period 0" or
   `k ≡ 0 mod m`), and for `Sim.run`: pilots / rates = `shiftMat k` of the original ones
   (`updateSchedules_shift` is the matrix step), energies and peak equal.
   PROVED: the event core, `maxRecompute = none`. -/
/-- Shifting every session and recompute event by `k` periods shifts the run by `k`: after the `k`
    idle periods the shifted run is, step for step, the shift of the original run — event
    timestamps, invocation periods, `_last_schedule_update` and the iteration counter move by `k`,
    occupancy, flags and errors are the same. -/
theorem run_shift_partial (k : Nat) (cfg : Cfg) {sched sched' apply apply' : Core → Option Err}
    (hs : ∀ c, sched' (shiftCore k c) = sched c) (ha : ∀ c, apply' (shiftCore k c) = apply c)
    (hmr : cfg.maxRecompute = none)
    (hidle : ∀ c, c.resolve = false → (∀ e ∈ c.pending, (c.iter : Int) < e.ts) → apply' c = none)
    (hne : initPending cfg ≠ []) (hnn : ∀ e ∈ initPending cfg, 0 ≤ e.ts) (n : Nat) :
    run (shiftCfg k cfg) sched' apply' (k + n) (init (shiftCfg k cfg)) =
      (shiftCore k (run cfg sched apply n (init cfg)).1, (run cfg sched apply n (init cfg)).2) := by
  have hpend : (init (shiftCfg k cfg)).pending = (initPending cfg).map (shiftEv k) := initPending_shift k cfg
  rw [idle_run (shiftCfg k cfg) hmr hidle k n (init (shiftCfg k cfg)) rfl
    (by rw [hpend]; simpa using hne)
    (by
      intro e he
      rw [hpend] at he
      obtain ⟨d, hd, rfl⟩ := List.mem_map.1 he
      have := hnn d hd
      simp only [init, shiftEv]
      push_cast
      omega)]
  have hinit : ({ init (shiftCfg k cfg) with iter := (init (shiftCfg k cfg)).iter + k } : Core)
      = shiftCore k (init cfg) := by
    simp only [init, shiftCore, initPending_shift, List.map_nil, Option.map_none, Nat.zero_add]
  rw [hinit]
  exact run_shift_from k cfg hs ha n (init cfg)

example : exCfg.maxRecompute = some 2 ∧ initPending { exCfg with maxRecompute := none } ≠ []
    ∧ (run (shiftCfg 3 { exCfg with maxRecompute := none }) noFail noFail (3 + 10)
        (init (shiftCfg 3 { exCfg with maxRecompute := none }))).1.invoked = [3, 5, 6]
    ∧ (run { exCfg with maxRecompute := none } noFail noFail 10 (init { exCfg with maxRecompute := none })).1.invoked
        = [0, 2, 3] := by
  refine ⟨rfl, by decide, by decide, by decide⟩

end events

section simulator
open Acn.Sim Acn.SimEquiv
variable {K : Type} [Field K] [LinearOrder K] [IsStrictOrderedRing K] [HasExp K]

/-- CAPSTONE (stations).  Register the stations in the order `σ` (any permutation of the station
    numbers) and hand the simulator a scheduler pair that is `SchedEquivariant` (answers views that
    differ only by the station order with the same `{station id ↦ pilots}` dict).  Then every run of
    the FULL simulator model `Acn.Sim.run` (events, scheduling, `_update_schedules`, `update_pilots`
    with the battery models, `_store_actual_charging_rates`, peak, occupancy snapshots) that completes
    without raising on the original scenario completes on the permuted one, and the final states are
    `StEquiv σ`: pilot and rate matrices and `EVSE.current_pilot` are the σ-row-permuted ones
    (i.e. equal keyed by station id), and the event core (iteration, queue, occupancy, event / EV
    histories, invocation periods), every per-EV record (energy, rate, battery), the peak and the
    number of random draws are EQUAL.  Any fuel `n`, any scenario with pairwise different station
    ids, any EVSE / battery kinds, any schedules.
    Hypotheses that are genuinely needed: `ConstNoise` — the random stream is consumed in station
    order, so only a constant stream is order-independent; no raise — when `update_pilots` raises,
    the stations before the offender have already charged, and "before" is the registration order. -/
theorem run_equivariant_stations (σ : List Nat) (d : Station K) (cfg : Cfg K) (h : PermOK σ cfg)
    {sched sched' : View K → Except EventCore.Err (Schedule K)} (hs : SchedEquivariant σ sched sched')
    (n : Nat) (r : State K) (hr : Sim.run cfg sched n (Sim.init cfg) = (r, none)) :
    ∃ r', Sim.run (permCfg σ d cfg) sched' n (Sim.init (permCfg σ d cfg)) = (r', none) ∧ StEquiv σ r r' := by
  obtain ⟨he, hsh, ho⟩ := init_equiv (d := d) h
  exact run_equiv_st h hs n he hsh ho hr

/-- the scripted-by-station-name scheduler and the empty scheduler are equivariant (for every σ) -/
theorem scripted_schedEquivariant (σ : List Nat) (script : List (Nat × Option (Schedule K))) (dflt : Schedule K) :
    SchedEquivariant σ (scripted script dflt) (scripted script dflt) ∧
    SchedEquivariant σ (emptySched (K := K)) emptySched :=
  ⟨scripted_equivariant σ script dflt, emptySched_equivariant σ⟩

theorem constNoise_of_short {cfg : Cfg K} (h : cfg.noise.length ≤ 1) : ConstNoise cfg := by
  intro i j
  unfold noiseAt
  match hn : cfg.noise with
  | [] => rfl
  | [v] => simp [Nat.mod_one]
  | _ :: _ :: _ => rw [hn] at h; simp at h

/-- the hypotheses of `run_equivariant_stations` are satisfiable: two stations swapped -/
example (cfg : Cfg K) (a b : Station K) (hab : a.id ≠ b.id) (hst : cfg.stations = [a, b]) (v : K)
    (hno : cfg.noise = [v]) : PermOK [1, 0] cfg :=
  ⟨by rw [hst]; exact List.Perm.swap 0 1 [], by simp [Ledger.StationsNodup, hst, hab], constNoise_of_short (by simp [hno])⟩

end simulator

section shift
open Acn.Sim Acn.SimShift
variable {K : Type} [Field K] [LinearOrder K] [IsStrictOrderedRing K] [HasExp K]

/-- The whole simulator commutes with a time shift FROM ANY PAIR OF RELATED STATES: every
    `max_recompute`, every fuel, errors included (same error class in the same relative period).
    `ShEquiv k V pre s s'`: core of `s'` = core of `s` with every timestamp (iteration, queue, event
    history, `_last_schedule_update`, invocation periods) moved by `k`; pilot and rate matrices =
    `shiftMat k` (k zero columns in front); EV records equal up to their shifted arrival / departure
    fields; peak, `EVSE.current_pilot`, number of random draws equal. -/
theorem run_shift_from (k : Nat) (cfg : Cfg K) (hd : DepNonneg cfg.core)
    {sched sched' : View K → Except EventCore.Err (Schedule K)} (hs : SchedShiftInvariant k sched sched')
    (V : List Nat) (pre : List (List (Option String))) (n : Nat) {s s' : State K}
    (he : ShEquiv k V pre s s') (hp : PendNonneg s.core) :
    (Sim.run (shiftCfgS k cfg) sched' n s').2 = (Sim.run cfg sched n s).2 ∧
    ShEquiv k V pre (Sim.run cfg sched n s).1 (Sim.run (shiftCfgS k cfg) sched' n s').1 :=
  run_shift_sim hd hs n he hp

/-- CAPSTONE (shift, `max_recompute = None`).  Shift every session (arrival, departure, estimated
    departure) and every recompute event by `k` periods and hand the simulator a scheduler that
    depends on its view through relative time only (`SchedShiftInvariant`).  Then the run of the FULL
    simulator model on the shifted scenario, with `k` more units of fuel, raises iff the original
    does (same error), and its final state is the shift of the original final state: pilot / rate
    matrices with `k` ZERO columns in front, event timestamps / iteration / invocation periods moved
    by `k`, `k` all-vacant rows in front of the occupancy log, energies, peak, draws equal.
    `ShiftOK`: the scenario has an event, no negative timestamps, every EVSE accepts the idle pilot 0
    (an EVSE with `min_rate > 0` aborts ANY run in period 0, DESIGN §8). -/
theorem run_shift (k : Nat) (cfg : Cfg K) (h : ShiftOK cfg)
    {sched sched' : View K → Except EventCore.Err (Schedule K)} (hs : SchedShiftInvariant k sched sched')
    (hmr : cfg.maxRecompute = none) (n : Nat) :
    (Sim.run (shiftCfgS k cfg) sched' (k + n) (Sim.init (shiftCfgS k cfg))).2 = (Sim.run cfg sched n (Sim.init cfg)).2 ∧
    ShEquiv k [] (List.replicate k (noneRow cfg)) (Sim.run cfg sched n (Sim.init cfg)).1
      (Sim.run (shiftCfgS k cfg) sched' (k + n) (Sim.init (shiftCfgS k cfg))).1 := by
  obtain ⟨sk, hrun, he, hnone⟩ := idle_prefix (k := k) (sched' := sched') h (fun hne => absurd hmr hne)
  obtain ⟨h1, h2⟩ := hnone hmr
  rw [h1, h2] at he
  rw [hrun n]
  exact run_shift_sim h.dep hs n he (fun e he' => h.nonneg e he')

/-- CAPSTONE (shift, ANY `max_recompute`, anchored).  With `max_recompute = m` the periodic
    invocations before the first event are anchored at period 0, so the shifted run consults the
    scheduler during its idle prefix (`SchedIdle`: it answers `{}` there) and reaches the first event
    with a different `_last_schedule_update`.  If something happens in period 0 of the original
    scenario (`hanchor`: the events of period 0 set `_resolve`), that difference is erased in that very
    period: every run that completes on the original scenario completes on the shifted one, and the
    final states are `ShEquiv k V pre` where `V` are the idle invocations of the prefix. -/
theorem run_shift_anchored (k : Nat) (cfg : Cfg K) (h : ShiftOK cfg)
    {sched sched' : View K → Except EventCore.Err (Schedule K)} (hs : SchedShiftInvariant k sched sched')
    (hsi : SchedIdle k sched')
    (hanchor : (Sim.eventsStage cfg (Sim.init cfg)).1.core.resolve = true)
    (n : Nat) (r : State K) (hr : Sim.run cfg sched (n + 1) (Sim.init cfg) = (r, none)) :
    ∃ r' V, Sim.run (shiftCfgS k cfg) sched' (k + (n + 1)) (Sim.init (shiftCfgS k cfg)) = (r', none) ∧
      ShEquiv k V (List.replicate k (noneRow cfg)) r r' := by
  obtain ⟨sk, hrun, he, _⟩ := idle_prefix (k := k) (sched' := sched') h (fun _ => hsi)
  have hp0 : PendNonneg (Sim.init cfg).core := fun e he' => h.nonneg e he'
  -- the shifted run from the state with `_last_schedule_update` erased
  obtain ⟨h1, h2⟩ := run_shift_sim (cfg := cfg) h.dep hs (n + 1) he hp0
  rw [hr] at h1 h2
  -- the first period does not see the difference
  have hsk : setLU sk.core.lastUpd (setLU none sk) = sk := rfl
  have hg0 : guard (Sim.init cfg).core = true := by
    unfold EventCore.guard
    have : (Sim.init cfg).core.pending = EventCore.initPending cfg.core := rfl
    rw [this]
    cases hP : EventCore.initPending cfg.core with
    | nil => exact absurd hP h.nonempty
    | cons a l => simp
  have hgk : guard (setLU none sk).core = true := by rw [he.core, guard_sh]; exact hg0
  have hgk' : guard sk.core = true := hgk
  obtain ⟨b1, b2⟩ := body_shift_sim (cfg := cfg) h.dep hs he hp0
  obtain ⟨e1, e2⟩ := eventsStage_shift_sim (cfg := cfg) he
  have hres : (Sim.eventsStage (shiftCfgS k cfg) (setLU none sk)).1.core.resolve = true := by
    rw [e2.core]; exact hanchor
  have hbody0 : (Sim.body cfg sched (Sim.init cfg)).2 = none := by
    have := hr
    simp only [Sim.run, hg0, if_true] at this
    obtain ⟨s1, e1', hb⟩ : ∃ s1 e1', Sim.body cfg sched (Sim.init cfg) = (s1, e1') := ⟨_, _, rfl⟩
    rw [hb] at this ⊢
    cases e1' with
    | none => rfl
    | some x => simp at this
  rw [hbody0] at b1
  obtain ⟨r1', eb, hb'⟩ : ∃ r1' eb, Sim.body (shiftCfgS k cfg) sched' (setLU none sk) = (r1', eb) := ⟨_, _, rfl⟩
  rw [hb'] at b1
  simp only at b1
  subst b1
  have hbk : Sim.body (shiftCfgS k cfg) sched' sk = (r1', none) := by
    have := body_setLU (shiftCfgS k cfg) sched' sk.core.lastUpd hb' hres
    rw [hsk] at this
    exact this
  have hruneq : Sim.run (shiftCfgS k cfg) sched' (n + 1) sk =
      Sim.run (shiftCfgS k cfg) sched' (n + 1) (setLU none sk) := by
    simp only [Sim.run, hgk, hgk', if_true, hbk, hb']
  refine ⟨(Sim.run (shiftCfgS k cfg) sched' (n + 1) (setLU none sk)).1, sk.core.invoked, ?_, h2⟩
  rw [hrun (n + 1), hruneq]
  exact Prod.ext rfl h1

theorem processAll_sets_resolve (cfg : EventCore.Cfg) : ∀ (es : List Event) (c c1 : Core),
    EventCore.processAll cfg es c = (c1, none) → es ≠ [] → c1.resolve = true := by
  intro es
  induction es with
  | nil => intro c c1 _ h; exact absurd rfl h
  | cons e es ih =>
    intro c c1 h _
    simp only [EventCore.processAll] at h
    obtain ⟨c2, r, hs⟩ : ∃ c2 r, EventCore.step cfg e c = (c2, r) := ⟨_, _, rfl⟩
    rw [hs] at h
    cases r with
    | some err => simp at h
    | none =>
      simp only at h
      have h2 := (step_flags hs).1
      cases es with
      | nil => simp only [EventCore.processAll, Prod.mk.injEq, and_true] at h; rw [← h]; exact h2
      | cons d ds => exact ih c2 c1 h (by simp)

/-- the anchor of `run_shift_anchored` from the data: an event with timestamp 0 and a period 0 whose
    events raise nothing -/
theorem anchor_of_event (cfg : Cfg K) {e : Event} (he : e ∈ EventCore.initPending cfg.core) (h0 : e.ts = 0)
    (hok : (Sim.eventsStage cfg (Sim.init cfg)).2 = none) :
    (Sim.eventsStage cfg (Sim.init cfg)).1.core.resolve = true := by
  have hc := Sim.eventsStage_core cfg (Sim.init cfg)
  have h1 : (Sim.eventsStage cfg (Sim.init cfg)).1.core = (EventCore.eventsStage cfg.core (Sim.init cfg).core).1 := by
    rw [← hc]
  have h2 : (EventCore.eventsStage cfg.core (Sim.init cfg).core).2 = none := by rw [← hc]; exact hok
  rw [h1]
  unfold EventCore.eventsStage at h2 ⊢
  obtain ⟨c1, r, hp⟩ : ∃ c1 r, EventCore.processAll cfg.core
      (popCurrent (Sim.init cfg).core.iter (Sim.init cfg).core.pending).1
      { (Sim.init cfg).core with pending := (popCurrent (Sim.init cfg).core.iter (Sim.init cfg).core.pending).2 } = (c1, r) :=
    ⟨_, _, rfl⟩
  rw [hp] at h2 ⊢
  simp only at h2
  subst h2
  refine processAll_sets_resolve cfg.core _ _ c1 hp ?_
  intro hnil
  have hm : e ∈ (popCurrent (Sim.init cfg).core.iter (Sim.init cfg).core.pending).1 := by
    simp only [popCurrent, mem_sortByKey, List.mem_filter, decide_eq_true_eq]
    exact ⟨he, by rw [h0]; exact le_refl _⟩
  rw [hnil] at hm
  simp at hm

/-- a scheduler that follows a script in RELATIVE time (and answers `{}` before the origin `k`) -/
def scriptedRel (k : Nat) (script : List (Nat × Option (Schedule K))) (dflt : Schedule K) :
    View K → Except EventCore.Err (Schedule K) := fun v =>
  if v.iter < k then .ok [] else scripted script dflt { v with iter := v.iter - k }

/-- the scripted (relative-time) scheduler and the empty scheduler are shift-invariant and idle -/
theorem scripted_schedShiftInvariant (k : Nat) (script : List (Nat × Option (Schedule K))) (dflt : Schedule K) :
    SchedShiftInvariant k (scripted script dflt) (scriptedRel k script dflt) ∧
    SchedIdle k (scriptedRel k script dflt) ∧
    SchedShiftInvariant k (emptySched (K := K)) emptySched ∧ SchedIdle k (emptySched (K := K)) := by
  refine ⟨?_, ?_, fun _ _ _ => rfl, fun _ _ _ => rfl⟩
  · intro v v' hv
    have h1 : ¬ v.iter + k < k := by omega
    simp only [scriptedRel, scripted, hv.iter, Nat.add_sub_cancel, h1, if_false]
  · intro v _ hk
    simp only [scriptedRel, hk, if_true]

/-- the hypotheses of the two capstones are satisfiable -/
example (cfg : Cfg K) (x : Evse.Ev K) (hx : cfg.evs = [x]) (hr : cfg.recomputes = []) (ha : 0 ≤ x.arrival)
    (hdp : 0 ≤ x.departure) (hst : cfg.stations = []) : ShiftOK cfg :=
  ⟨by simp [EventCore.initPending, Cfg.core, hx],
   by
    intro e he
    simp only [EventCore.initPending, Cfg.core, hx, hr, List.map_cons, List.map_nil, List.append_nil,
      List.mem_singleton] at he
    subst he
    exact ha,
   by
    intro y hy
    simp only [Cfg.core, hx, List.map_cons, List.map_nil, List.mem_singleton] at hy
    subst hy
    exact hdp,
   by intro st hs'; rw [hst] at hs'; simp at hs'⟩

end shift

section sessions_sim
open Acn.Sim
variable {K : Type} [Field K] [LinearOrder K] [IsStrictOrderedRing K] [HasExp K]

/-- Sim-level statement for permuted session / recompute / station listings, CORE PART of the
    observable: whenever the two runs of the full simulator complete (ANY two scheduler parameters —
    not even the same one), their cores are `CoreEquiv`: same iteration, occupancy keyed by station,
    `_resolve`, `_last_schedule_update`, invocation periods; queue, event history and `ev_history`
    equal as multisets.
    (For a single scheduler that does not read `EVSE.current_pilot` the full statement —
    matrices, peak, EV records — is `run_perm_sessions` below.) -/
theorem run_perm_sessions_core {cfg cfg' : Cfg K} (hv : Valid cfg.core) (hp : CfgPerm cfg.core cfg'.core)
    (sched sched' : View K → Except EventCore.Err (Schedule K)) (n : Nat)
    (h : (Sim.run cfg sched n (Sim.init cfg)).2 = none)
    (h' : (Sim.run cfg' sched' n (Sim.init cfg')).2 = none) :
    CoreEquiv (Sim.run cfg sched n (Sim.init cfg)).1.core (Sim.run cfg' sched' n (Sim.init cfg')).1.core := by
  obtain ⟨d, d', hr, hr', he⟩ := run_perm_sessions_partial hv hp (sched := noFail) (apply := noFail)
    (fun _ => rfl) (fun _ => rfl) n
  have e1 := Sim.run_core cfg sched n (Sim.init cfg) h
  have e2 := Sim.run_core cfg' sched' n (Sim.init cfg') h'
  rw [Sim.init_core] at e1 e2
  rw [hr] at e1
  rw [hr'] at e2
  have a1 : d = (Sim.run cfg sched n (Sim.init cfg)).1.core := congrArg Prod.fst e1
  have a2 : d' = (Sim.run cfg' sched' n (Sim.init cfg')).1.core := congrArg Prod.fst e2
  rw [← a1, ← a2]
  exact he

end sessions_sim

section sessions_full
open Acn.Sim Acn.SimPerm
variable {K : Type} [Field K] [LinearOrder K] [IsStrictOrderedRing K] [HasExp K]

/-- the static tables enter the simulator only through membership: with the EV list / recompute list
    permuted, `Sim.run` is literally the same function of the state -/
theorem run_cfg_perm_sim (cfg : Cfg K) (evs' : List (Evse.Ev K)) (recs' : List (Int × String))
    (hv : Valid cfg.core) (hp : CfgPerm cfg.core ({ cfg with evs := evs', recomputes := recs' } : Cfg K).core)
    (sched : View K → Except EventCore.Err (Schedule K)) (n : Nat) (s : State K) :
    Sim.run { cfg with evs := evs', recomputes := recs' } sched n s = Sim.run cfg sched n s := by
  have hstep : ∀ e s, stepEv ({ cfg with evs := evs', recomputes := recs' } : Cfg K) e s = stepEv cfg e s := by
    intro e s
    unfold stepEv
    have h1 : EventCore.step ({ cfg with evs := evs', recomputes := recs' } : Cfg K).core e s.core =
        EventCore.step cfg.core e s.core := by
      simp only [EventCore.step, process_perm hv hp]
    rw [h1, findSession_perm hv hp]
    rfl
  have hpa : ∀ es s, Sim.processAll ({ cfg with evs := evs', recomputes := recs' } : Cfg K) es s = Sim.processAll cfg es s := by
    intro es
    induction es with
    | nil => intro s; rfl
    | cons e es ih => intro s; simp only [Sim.processAll, hstep, ih]
  have hb : ∀ s, Sim.body ({ cfg with evs := evs', recomputes := recs' } : Cfg K) sched s = Sim.body cfg sched s := by
    intro s
    have hev : Sim.eventsStage ({ cfg with evs := evs', recomputes := recs' } : Cfg K) s = Sim.eventsStage cfg s := by
      simp only [Sim.eventsStage, hpa]
    have hss : ∀ x, schedStage ({ cfg with evs := evs', recomputes := recs' } : Cfg K) sched x = schedStage cfg sched x :=
      fun _ => rfl
    have hsp : ∀ x i st, setPilotAt ({ cfg with evs := evs', recomputes := recs' } : Cfg K) x i st = setPilotAt cfg x i st :=
      fun _ _ _ => rfl
    have hup : ∀ sts i x, updatePilotsFrom ({ cfg with evs := evs', recomputes := recs' } : Cfg K) i sts x =
        updatePilotsFrom cfg i sts x := by
      intro sts
      induction sts with
      | nil => intro i x; rfl
      | cons st rest ih => intro i x; simp only [updatePilotsFrom, hsp, ih]
    have hsr : ∀ w x, storeRates ({ cfg with evs := evs', recomputes := recs' } : Cfg K) w x = storeRates cfg w x :=
      fun _ _ => rfl
    have has : ∀ x, applyStage ({ cfg with evs := evs', recomputes := recs' } : Cfg K) x = applyStage cfg x := by
      intro x
      have hst : ({ cfg with evs := evs', recomputes := recs' } : Cfg K).stations = cfg.stations := rfl
      simp only [applyStage, updatePilots, hup, hsr, hst]
    unfold Sim.body
    rw [hev]
    simp only [hss, has]
  induction n generalizing s with
  | zero => rfl
  | succ n ih => simp only [Sim.run, hb, ih]

/-- CAPSTONE (sessions).  List the sessions (the EVs of the plug-in events) and the recompute events
    in ANY other order.  For every Valid scenario, every fuel and every scheduler that does not read
    `EVSE.current_pilot` through its view (`SchedIgnoresEvsePilot`: scripted, empty, uncontrolled,
    the sorted algorithms), every run of the FULL simulator that completes on the original listing
    completes on the permuted one, and the final states agree: pilot matrix, rate matrix, peak,
    `EVSE.current_pilot`, number of random draws, occupancy log EQUAL; the EV records equal up to the
    listing permutation (`EvsPerm`: energies, rates, batteries per session id); the cores `CoreEquiv`
    (iteration, occupancy, flags, invocation periods equal; queue and histories equal as multisets).
    How `EVSE.current_pilot` is handled: mid-period it may differ between the two runs only in the
    order in which unplugs zero it (same set of stations — but that is not needed), it is visible to a
    scheduler only through `View.evsePilot`, and `update_pilots` overwrites every entry with the
    pilot column (`updatePilots_evse`), so it is equal again at every loop head. -/
theorem run_perm_sessions (cfg : Cfg K) (evs' : List (Evse.Ev K)) (recs' : List (Int × String))
    (hv : Valid cfg.core) (he : evs'.Perm cfg.evs) (hrc : recs'.Perm cfg.recomputes)
    {sched : View K → Except EventCore.Err (Schedule K)} (hsch : SchedIgnoresEvsePilot sched)
    (n : Nat) (r : State K) (hrun : Sim.run cfg sched n (Sim.init cfg) = (r, none)) :
    ∃ r', Sim.run { cfg with evs := evs', recomputes := recs' } sched n
        (Sim.init { cfg with evs := evs', recomputes := recs' }) = (r', none) ∧
      CoreEquiv r.core r'.core ∧ NC r r' := by
  have hp : CfgPerm cfg.core ({ cfg with evs := evs', recomputes := recs' } : Cfg K).core :=
    ⟨he.map _, hrc, fun _ => Iff.rfl, rfl⟩
  have hrel : Rel cfg.core 0 (Sim.init cfg).core (Sim.init ({ cfg with evs := evs', recomputes := recs' } : Cfg K)).core :=
    ⟨init_inv hv, (init_inv (hv.of_perm hp)).of_perm hp, rfl, rfl⟩
  have hpend := hrel.equiv.pending
  have hlt : lastTs (Sim.init ({ cfg with evs := evs', recomputes := recs' } : Cfg K)).core.pending =
      lastTs (Sim.init cfg).core.pending := lastTs_perm hpend.symm
  have hlt' : lastTs (EventCore.init ({ cfg with evs := evs', recomputes := recs' } : Cfg K).core).pending =
      lastTs (EventCore.init cfg.core).pending := hlt
  have hnc : NC (Sim.init cfg) (Sim.init ({ cfg with evs := evs', recomputes := recs' } : Cfg K)) := by
    refine ⟨?_, ?_, rfl, ⟨he, ?_⟩, rfl, rfl, rfl⟩
    · simp only [Sim.init, hlt']
    · simp only [Sim.init, hlt']
    · have h1 : (cfg.evs.map (·.session)) = cfg.core.sessions.map (·.id) := by
        simp only [Cfg.core, List.map_map]
        rfl
      show (cfg.evs.map (·.session)).Nodup
      rw [h1]
      exact hv.ids_nodup
  obtain ⟨r', hr', hce, hncr⟩ := run_perm_sim hv hsch n 0 hrel hnc (by simp [Sim.init]) hrun
  exact ⟨r', by rw [run_cfg_perm_sim cfg evs' recs' hv hp]; exact hr', hce, hncr⟩

/-- the scripted and the empty scheduler do not read `EVSE.current_pilot` -/
theorem scripted_ignoresEvsePilot (script : List (Nat × Option (Schedule K))) (dflt : Schedule K) :
    SchedIgnoresEvsePilot (scripted script dflt) ∧ SchedIgnoresEvsePilot (emptySched (K := K)) :=
  ⟨fun _ _ => rfl, fun _ _ => rfl⟩

example : Valid exCfg ∧ ([⟨"z", "A", 2, 3⟩, ⟨"y", "B", 0, 2⟩, ⟨"x", "A", 0, 2⟩] : List Session).Perm exCfg.sessions :=
  ⟨exCfg_valid, by decide⟩

end sessions_full

section ties
open Acn.Sorted
variable {K : Type} [Field K] [LinearOrder K] [IsStrictOrderedRing K]

/-- What happens with ties, precisely: the sorted queue of the sorting-based algorithms depends on
    the listing order of the sessions ONLY through ties.  If no two different sessions of the input
    share a sort key, every permutation of the input gives the same queue (all five keys).
    (With ties the order among equal keys is the input order, `Acn.C08.sorted_by_key` (iii) — and the
    input order is the station order, which is why C10's station-permutation relation is claimed
    for distinct keys.) -/
theorem sort_perm_of_distinct_keys (kind : SortKind) (infra : Infra K) (period : K) (time : Int)
    (l l' : List (Session K)) (hp : l'.Perm l)
    (hd : ∀ a ∈ l, ∀ b ∈ l, Acn.C08.sameKey kind infra period time a b = true → a = b) :
    sortSessions kind infra period time l' = sortSessions kind infra period time l := by
  obtain ⟨p1, s1, _⟩ := Acn.C08.sorted_by_key kind infra period time l
  obtain ⟨p2, s2, _⟩ := Acn.C08.sorted_by_key kind infra period time l'
  refine List.Perm.eq_of_pairwise ?_ s2 s1 (p2.trans (hp.trans p1.symm))
  intro a b ha hb h1 h2
  have ha' : a ∈ l := hp.mem_iff.1 (p2.mem_iff.1 ha)
  have hb' : b ∈ l := p1.mem_iff.1 hb
  exact hd a ha' b hb' (by simp [Acn.C08.sameKey, h1, h2])

example (kind : SortKind) (infra : Infra K) (period : K) (time : Int) (a : Session K) :
    sortSessions kind infra period time [a] = [a] := rfl

end ties
end Acn.C10
