/-
  C15 — generated sessions are well-formed and their batteries can hold the request.

  Property theorems only (helpers: `Lemmas/Sessions.lean`, `Lemmas/SessionsFit.lean`).
  Carriers: documents / samples — any linear ordered field with a floor (`ℚ`, `ℝ`), Python's
  `int()` being truncation toward zero (`SessionsL.pyTrunc`); the capacity fit — `ℝ` with
  `HasExp ℝ := ⟨Real.exp⟩`.  Times are epoch seconds (`datetime.timestamp()`).
-/
import AcnModel.Sessions
import AcnProofs.Lemmas.Sessions
import AcnProofs.Lemmas.SessionsFit
import Mathlib.Tactic

namespace Acn.C15
open Acn Acn.Sessions Acn.SessionsL Acn.Battery Acn.Evse

section docs
variable {K : Type} [Field K] [LinearOrder K] [IsStrictOrderedRing K] [FloorRing K]

/-! ### period index -/

/-- `int(ts / (60·period))` is the floor for instants at or after the epoch … -/
theorem trunc_eq_floor (secs period : K) (hs : 0 ≤ secs) (hp : 0 < period) :
    periodIndex secs period = .ok ⌊secs / (60 * period)⌋ := by
  rw [periodIndex_pos hp, pyTrunc_nonneg (div_nonneg hs (by positivity))]

/-- … and the ceiling before it (DESIGN §8: the stated domain of "floor" is `secs ≥ 0`). -/
theorem trunc_eq_ceil_before_epoch (secs period : K) (hs : secs < 0) (hp : 0 < period) :
    periodIndex secs period = .ok ⌈secs / (60 * period)⌉ := by
  rw [periodIndex_pos hp, pyTrunc_neg (div_neg_of_neg_of_pos hs (by positivity))]

/-- `period = 0` raises (Python: ZeroDivisionError) instead of producing an index -/
theorem zero_period_rejected (secs : K) : periodIndex secs (0 : K) = .error .zeroDivision :=
  periodIndex_zero secs

example : periodIndex (1552212299 : ℚ) 5 = .ok 5174040 := by
  rw [trunc_eq_floor _ _ (by norm_num) (by norm_num)]; congr 1
  rw [Int.floor_eq_iff]; norm_num
example : periodIndex (-90 : ℚ) (1 : ℚ) = .ok (-1) := by
  rw [trunc_eq_ceil_before_epoch _ _ (by norm_num) (by norm_num)]; congr 1
  rw [Int.ceil_eq_iff]; norm_num

/-! ### documents -/

/-- Every EV returned by `get_evs` belongs to exactly one document, in order; its arrival and
    departure are the floor period index of the connection / disconnection instant minus the
    floor period index of `start` (departure after the `max_len` cap); ids are preserved;
    `generate_events` emits exactly one plug-in event per document, at the arrival. -/
theorem arrival_departure_spec (start : K) (docs : List (Doc K)) (period V mp : K)
    (maxLen : Option Int) (bp : BattParams K) (ff : Bool) (evs : List (Ev K))
    (hp : 0 < period) (hs : 0 ≤ start)
    (h : getEvs start docs period V mp maxLen bp ff = .ok evs) :
    List.Forall₂ (fun d e =>
      e.session = d.session ∧ e.station = d.space ∧ e.estDeparture = e.departure ∧
      (0 ≤ d.connect → e.arrival = ⌊d.connect / (60 * period)⌋ - ⌊start / (60 * period)⌋) ∧
      (0 ≤ d.disconnect → e.departure =
        capDeparture e.arrival (⌊d.disconnect / (60 * period)⌋ - ⌊start / (60 * period)⌋) maxLen))
      docs evs ∧
    pluginEvents evs = evs.map (fun e => (e.arrival, e.session)) ∧
    (pluginEvents evs).length = docs.length := by
  have hf := getEvs_ok hp h
  have h60 : (0 : K) < 60 * period := by positivity
  refine ⟨?_, rfl, ?_⟩
  · refine hf.imp ?_
    intro d e hde
    obtain ⟨ha, hd, he, hs1, hs2, -⟩ := convertDoc_ok hp hde
    refine ⟨hs1, hs2, he, ?_, ?_⟩
    · intro hc
      rw [ha, pyTrunc_nonneg (div_nonneg hc h60.le), pyTrunc_nonneg (div_nonneg hs h60.le)]
    · intro hc
      rw [hd, pyTrunc_nonneg (div_nonneg hc h60.le), pyTrunc_nonneg (div_nonneg hs h60.le)]
  · simp [pluginEvents, hf.length_eq]

/-- Order preservation: `connect ≤ disconnect` gives `arrival ≤ departure` (for every sign of the
    instants, truncation being monotone), provided `max_len`, when given, is not negative.
    Equality is possible and NOT filtered by the code (`same_period_session_kept` below). -/
theorem order_preserving (d : Doc K) (offset : Int) (period V mp : K) (maxLen : Option Int)
    (bp : BattParams K) (ff : Bool) (e : Ev K) (hp : 0 < period)
    (hL : ∀ L, maxLen = some L → 0 ≤ L) (hcd : d.connect ≤ d.disconnect)
    (h : convertDoc d offset period V mp maxLen bp ff = .ok e) : e.arrival ≤ e.departure := by
  obtain ⟨ha, hd, -⟩ := convertDoc_ok hp h
  rw [hd]
  apply capDeparture_ge _ _ _ hL
  rw [ha]
  have h60 : (0 : K) < 60 * period := by positivity
  have := pyTrunc_mono (div_le_div_of_nonneg_right hcd h60.le)
  omega

/-- The strict guarantee: a session that lasts at least one whole period after the epoch, with no
    cap below one period, departs strictly after it arrives. -/
theorem order_strict_of_period_apart (d : Doc K) (offset : Int) (period V mp : K)
    (maxLen : Option Int) (bp : BattParams K) (ff : Bool) (e : Ev K) (hp : 0 < period)
    (hL : ∀ L, maxLen = some L → 1 ≤ L) (hc : 0 ≤ d.connect)
    (hcd : d.connect + 60 * period ≤ d.disconnect)
    (h : convertDoc d offset period V mp maxLen bp ff = .ok e) : e.arrival < e.departure := by
  obtain ⟨ha, hd, -⟩ := convertDoc_ok hp h
  have h60 : (0 : K) < 60 * period := by positivity
  have h1 : d.connect / (60 * period) + 1 ≤ d.disconnect / (60 * period) := by
    rw [div_add_one (ne_of_gt h60)]
    exact div_le_div_of_nonneg_right hcd h60.le
  have h2 := pyTrunc_mono h1
  rw [pyTrunc_add_one (div_nonneg hc h60.le)] at h2
  rw [hd]
  cases maxLen with
  | none => simp only [capDeparture]; rw [ha]; omega
  | some L =>
    have := hL L rfl
    simp only [capDeparture]
    split <;> (rw [ha] at *; omega)

/-- `departure − arrival ≤ max_len` whenever `max_len` is given -/
theorem stay_capped (d : Doc K) (offset : Int) (period V mp : K) (L : Int)
    (bp : BattParams K) (ff : Bool) (e : Ev K) (hp : 0 < period)
    (h : convertDoc d offset period V mp (some L) bp ff = .ok e) : e.departure - e.arrival ≤ L := by
  obtain ⟨-, hd, -⟩ := convertDoc_ok hp h
  rw [hd]
  exact capDeparture_le _ _ _

/-- requested energy = the document's delivered energy, or with `force_feasible` its minimum with
    what the maximum battery power delivers during the stay -/
theorem requested_spec (d : Doc K) (offset : Int) (period V mp : K) (maxLen : Option Int)
    (bp : BattParams K) (ff : Bool) (e : Ev K) (hp : 0 < period)
    (h : convertDoc d offset period V mp maxLen bp ff = .ok e) :
    e.requested = if ff then min d.kWh (mp * ((e.departure - e.arrival : Int) : K) * (period / 60))
                  else d.kWh := by
  obtain ⟨-, -, -, -, -, hr, -⟩ := convertDoc_ok hp h
  rw [hr]
  unfold docEnergy
  split <;> simp

theorem requested_nonneg (d : Doc K) (offset : Int) (period V mp : K) (maxLen : Option Int)
    (bp : BattParams K) (ff : Bool) (e : Ev K) (hp : 0 < period) (hk : 0 ≤ d.kWh) (hm : 0 ≤ mp)
    (hL : ∀ L, maxLen = some L → 0 ≤ L) (hcd : d.connect ≤ d.disconnect)
    (h : convertDoc d offset period V mp maxLen bp ff = .ok e) : 0 ≤ e.requested := by
  have hord := order_preserving d offset period V mp maxLen bp ff e hp hL hcd h
  rw [requested_spec d offset period V mp maxLen bp ff e hp h]
  split
  · apply le_min hk
    have : (0 : K) ≤ ((e.departure - e.arrival : Int) : K) := by exact_mod_cast (by omega : (0:Int) ≤ e.departure - e.arrival)
    positivity
  · exact hk

/-- Default battery (`battery_params` without `capacity_fn`): capacity = request, initially empty,
    so the free capacity is exactly the request. -/
theorem free_capacity_covers_default (d : Doc K) (offset : Int) (period V mp : K)
    (maxLen : Option Int) (bp : BattParams K) (ff : Bool) (e : Ev K) (hp : 0 < period)
    (hb : bp.capFn = none) (h : convertDoc d offset period V mp maxLen bp ff = .ok e) :
    e.batt.capacity - e.batt.init = e.requested ∧ e.batt.charge = e.batt.init ∧
      e.batt.maxPower = mp := by
  obtain ⟨-, -, -, -, -, -, -, -, hbat⟩ := convertDoc_ok hp h
  obtain ⟨h1, h2, h3, h4⟩ := mkBattery_default hb hbat
  rw [h1, h2, h3, h4]; simp

/-- With the default `battery_params` the conversion of a well-formed document cannot raise:
    `Battery(requested, 0, …)` is always constructible. -/
theorem default_conversion_total (d : Doc K) (offset : Int) (period V mp : K)
    (maxLen : Option Int) (ff : Bool) (hp : 0 < period) (hk : 0 ≤ d.kWh) (hm : 0 ≤ mp)
    (hL : ∀ L, maxLen = some L → 0 ≤ L) (hcd : d.connect ≤ d.disconnect) :
    ∃ e, convertDoc d offset period V mp maxLen defaultParams ff = .ok e := by
  unfold convertDoc
  rw [periodIndex_pos hp, periodIndex_pos hp]
  simp only
  have h60 : (0 : K) < 60 * period := by positivity
  have hmono := pyTrunc_mono (div_le_div_of_nonneg_right hcd h60.le)
  have hst : (0 : Int) ≤ capDeparture (pyTrunc (d.connect / (60 * period)) - offset)
        (pyTrunc (d.disconnect / (60 * period)) - offset) maxLen
        - (pyTrunc (d.connect / (60 * period)) - offset) := by
    have := capDeparture_ge (pyTrunc (d.connect / (60 * period)) - offset)
      (pyTrunc (d.disconnect / (60 * period)) - offset) maxLen hL (by omega)
    omega
  have hen : (0 : K) ≤ docEnergy ff d.kWh mp period
      (capDeparture (pyTrunc (d.connect / (60 * period)) - offset)
        (pyTrunc (d.disconnect / (60 * period)) - offset) maxLen
        - (pyTrunc (d.connect / (60 * period)) - offset)) := by
    unfold docEnergy
    split
    · rw [pyMin_eq_min]
      apply le_min hk
      have : (0 : K) ≤ ((capDeparture (pyTrunc (d.connect / (60 * period)) - offset)
        (pyTrunc (d.disconnect / (60 * period)) - offset) maxLen
        - (pyTrunc (d.connect / (60 * period)) - offset) : Int) : K) := by exact_mod_cast hst
      positivity
    · exact hk
  obtain ⟨b, hb⟩ := mkBattery_default_ok _ _ V period mp hen
  rw [hb]
  exact ⟨_, rfl⟩

/-! non-vacuity: a concrete document over ℚ (start 2019-03-10 08:00 UTC, 5-minute periods) -/

def exDoc : Doc ℚ := { connect := 1552212299, disconnect := 1552212301, kWh := 3, session := "a", space := "CA-1" }
def exDoc2 : Doc ℚ := { connect := 1552212000, disconnect := 1552212299, kWh := 3, session := "b", space := "CA-1" }

/-- a session that crosses a period boundary within two seconds: arrival 24, departure 25 -/
example : ∃ e, convertDoc exDoc 5174016 5 208 (6656/1000) (some 12) defaultParams true = .ok e ∧
    e.arrival = 24 ∧ e.departure = 25 := by
  obtain ⟨e, he⟩ := default_conversion_total exDoc 5174016 5 208 (6656/1000) (some 12) true
    (by norm_num) (by norm_num [exDoc]) (by norm_num) (by intro L h; injection h with h; omega)
    (by norm_num [exDoc])
  refine ⟨e, he, ?_⟩
  obtain ⟨ha, hd, -⟩ := convertDoc_ok (by norm_num) he
  have h1 : pyTrunc (exDoc.connect / (60 * 5)) = 5174040 := by
    rw [pyTrunc_nonneg (by norm_num [exDoc])]; norm_num [exDoc, Int.floor_eq_iff]
  have h2 : pyTrunc (exDoc.disconnect / (60 * 5)) = 5174041 := by
    rw [pyTrunc_nonneg (by norm_num [exDoc])]; norm_num [exDoc, Int.floor_eq_iff]
  rw [h1] at ha; rw [h2] at hd
  have ha' : e.arrival = 24 := by rw [ha]; norm_num
  refine ⟨ha', ?_⟩
  rw [hd, ha']; simp [capDeparture]

/-- Equal indices ARE produced and kept: a 299-second session inside one period has
    `arrival = departure` (the converter has no filter; the stay is then 0 periods). -/
theorem same_period_session_kept :
    ∃ e, convertDoc exDoc2 5174016 5 208 (6656/1000) none defaultParams false = .ok e ∧
      e.arrival = e.departure := by
  obtain ⟨e, he⟩ := default_conversion_total exDoc2 5174016 5 208 (6656/1000) none false
    (by norm_num) (by norm_num [exDoc2]) (by norm_num) (by intro L h; cases h)
    (by norm_num [exDoc2])
  refine ⟨e, he, ?_⟩
  obtain ⟨ha, hd, -⟩ := convertDoc_ok (by norm_num) he
  have h1 : pyTrunc (exDoc2.connect / (60 * 5)) = 5174040 := by
    rw [pyTrunc_nonneg (by norm_num [exDoc2])]; norm_num [exDoc2, Int.floor_eq_iff]
  have h2 : pyTrunc (exDoc2.disconnect / (60 * 5)) = 5174040 := by
    rw [pyTrunc_nonneg (by norm_num [exDoc2])]; norm_num [exDoc2, Int.floor_eq_iff]
  rw [hd, capDeparture_none, ha, h1, h2]

end docs

end Acn.C15
