/-
  C15 — generated sessions are well-formed and their batteries can hold the request.

  Property theorems only (helpers: `Lemmas/Sessions.lean`, `Lemmas/SessionsFit.lean`).
  Carriers: documents / samples — any linear ordered field with a floor (`ℚ`, `ℝ`), Python's
  `int()` being truncation toward zero (`SessionsL.pyTrunc`); the capacity fit — `ℝ` with
  `HasExp ℝ := ⟨Real.exp⟩`.  Times are epoch seconds (`datetime.timestamp()`).
-/
import AcnModel.Sessions
import AcnProofs.Lemmas.Sessions
import AcnProofs.Lemmas.SessionsFit
import AcnProofs.Lemmas.SessionsCharge
import AcnProofs.Lemmas.SessionsBisect
import AcnProofs.Lemmas.SessionsMinimal
import AcnProofs.Lemmas.SessionsMaximal
import Mathlib.Tactic

namespace Acn.C15
open Acn Acn.Sessions Acn.SessionsL Acn.Battery Acn.Evse

section docs
variable {K : Type} [Field K] [LinearOrder K] [IsStrictOrderedRing K] [FloorRing K]

/-! ### period index -/

/-- `int(ts / (60·period))` is the floor for instants at or after the epoch … -/
theorem trunc_eq_floor (secs period : K) (hs : 0 ≤ secs) (hp : 0 < period) :
    periodIndex secs period = .ok ⌊secs / (60 * period)⌋ := by
  rw [periodIndex_pos hp, pyTrunc_nonneg (div_nonneg hs (by positivity))]

/-- … and the ceiling before it (DESIGN §8: the stated domain of "floor" is `secs ≥ 0`). -/
theorem trunc_eq_ceil_before_epoch (secs period : K) (hs : secs < 0) (hp : 0 < period) :
    periodIndex secs period = .ok ⌈secs / (60 * period)⌉ := by
  rw [periodIndex_pos hp, pyTrunc_neg (div_neg_of_neg_of_pos hs (by positivity))]

/-- `period = 0` raises (Python: ZeroDivisionError) instead of producing an index -/
theorem zero_period_rejected (secs : K) : periodIndex secs (0 : K) = .error .zeroDivision :=
  periodIndex_zero secs

example : periodIndex (1552212299 : ℚ) 5 = .ok 5174040 := by
  rw [trunc_eq_floor _ _ (by norm_num) (by norm_num)]; congr 1
  rw [Int.floor_eq_iff]; norm_num
example : periodIndex (-90 : ℚ) (1 : ℚ) = .ok (-1) := by
  rw [trunc_eq_ceil_before_epoch _ _ (by norm_num) (by norm_num)]; congr 1
  rw [Int.ceil_eq_iff]; norm_num

/-- Int form: whole seconds, period `pn/pd` minutes (e.g. 1/2, 7/1): the index is the integer
    quotient `secs·pd / (60·pn)` — for instants at or after the epoch. -/
theorem trunc_eq_int_div (secs : Int) (pn pd : Nat) (hs : 0 ≤ secs) (hpn : 0 < pn) (hpd : 0 < pd) :
    periodIndex (secs : ℚ) ((pn : ℚ) / (pd : ℚ)) = .ok (secs * pd / (60 * pn)) := by
  have hpnq : (0 : ℚ) < pn := by exact_mod_cast hpn
  have hpdq : (0 : ℚ) < pd := by exact_mod_cast hpd
  rw [trunc_eq_floor _ _ (by exact_mod_cast hs) (by positivity)]
  congr 1
  have e : (secs : ℚ) / (60 * ((pn : ℚ) / (pd : ℚ))) = ((secs * pd : Int) : ℚ) / ((60 * pn : Nat) : ℚ) := by
    push_cast; field_simp
  rw [e, Rat.floor_intCast_div_natCast]
  push_cast; rfl

example : periodIndex ((1552212299 : Int) : ℚ) (((1 : Nat) : ℚ) / ((2 : Nat) : ℚ)) = .ok 51740409 := by
  rw [trunc_eq_int_div _ _ _ (by norm_num) (by norm_num) (by norm_num)]; rfl

/-! ### documents -/

/-- Every EV returned by `get_evs` belongs to exactly one document, in order; its arrival and
    departure are the floor period index of the connection / disconnection instant minus the
    floor period index of `start` (departure after the `max_len` cap); ids are preserved;
    `generate_events` emits exactly one plug-in event per document, at the arrival. -/
theorem arrival_departure_spec (start : K) (docs : List (Doc K)) (period V mp : K)
    (maxLen : Option Int) (bp : BattParams K) (ff : Bool) (evs : List (Ev K))
    (hp : 0 < period) (hs : 0 ≤ start)
    (h : getEvs start docs period V mp maxLen bp ff = .ok evs) :
    List.Forall₂ (fun d e =>
      e.session = d.session ∧ e.station = d.space ∧ e.estDeparture = e.departure ∧
      (0 ≤ d.connect → e.arrival = ⌊d.connect / (60 * period)⌋ - ⌊start / (60 * period)⌋) ∧
      (0 ≤ d.disconnect → e.departure =
        capDeparture e.arrival (⌊d.disconnect / (60 * period)⌋ - ⌊start / (60 * period)⌋) maxLen))
      docs evs ∧
    pluginEvents evs = evs.map (fun e => (e.arrival, e.session)) ∧
    (pluginEvents evs).length = docs.length := by
  have hf := getEvs_ok hp h
  have h60 : (0 : K) < 60 * period := by positivity
  refine ⟨?_, rfl, ?_⟩
  · refine hf.imp ?_
    intro d e hde
    obtain ⟨ha, hd, he, hs1, hs2, -⟩ := convertDoc_ok hp hde
    refine ⟨hs1, hs2, he, ?_, ?_⟩
    · intro hc
      rw [ha, pyTrunc_nonneg (div_nonneg hc h60.le), pyTrunc_nonneg (div_nonneg hs h60.le)]
    · intro hc
      rw [hd, pyTrunc_nonneg (div_nonneg hc h60.le), pyTrunc_nonneg (div_nonneg hs h60.le)]
  · simp [pluginEvents, hf.length_eq]

/-- Order preservation: `connect ≤ disconnect` gives `arrival ≤ departure` (for every sign of the
    instants, truncation being monotone), provided `max_len`, when given, is not negative.
    Equality is possible and NOT filtered by the code (`same_period_session_kept` below). -/
theorem order_preserving (d : Doc K) (offset : Int) (period V mp : K) (maxLen : Option Int)
    (bp : BattParams K) (ff : Bool) (e : Ev K) (hp : 0 < period)
    (hL : ∀ L, maxLen = some L → 0 ≤ L) (hcd : d.connect ≤ d.disconnect)
    (h : convertDoc d offset period V mp maxLen bp ff = .ok e) : e.arrival ≤ e.departure := by
  obtain ⟨ha, hd, -⟩ := convertDoc_ok hp h
  rw [hd]
  apply capDeparture_ge _ _ _ hL
  rw [ha]
  have h60 : (0 : K) < 60 * period := by positivity
  have := pyTrunc_mono (div_le_div_of_nonneg_right hcd h60.le)
  omega

/-- The strict guarantee: a session that lasts at least one whole period after the epoch, with no
    cap below one period, departs strictly after it arrives. -/
theorem order_strict_of_period_apart (d : Doc K) (offset : Int) (period V mp : K)
    (maxLen : Option Int) (bp : BattParams K) (ff : Bool) (e : Ev K) (hp : 0 < period)
    (hL : ∀ L, maxLen = some L → 1 ≤ L) (hc : 0 ≤ d.connect)
    (hcd : d.connect + 60 * period ≤ d.disconnect)
    (h : convertDoc d offset period V mp maxLen bp ff = .ok e) : e.arrival < e.departure := by
  obtain ⟨ha, hd, -⟩ := convertDoc_ok hp h
  have h60 : (0 : K) < 60 * period := by positivity
  have h1 : d.connect / (60 * period) + 1 ≤ d.disconnect / (60 * period) := by
    rw [div_add_one (ne_of_gt h60)]
    exact div_le_div_of_nonneg_right hcd h60.le
  have h2 := pyTrunc_mono h1
  rw [pyTrunc_add_one (div_nonneg hc h60.le)] at h2
  rw [hd]
  cases maxLen with
  | none => simp only [capDeparture]; rw [ha]; omega
  | some L =>
    have := hL L rfl
    simp only [capDeparture]
    split <;> (rw [ha] at *; omega)

/-- `departure − arrival ≤ max_len` whenever `max_len` is given -/
theorem stay_capped (d : Doc K) (offset : Int) (period V mp : K) (L : Int)
    (bp : BattParams K) (ff : Bool) (e : Ev K) (hp : 0 < period)
    (h : convertDoc d offset period V mp (some L) bp ff = .ok e) : e.departure - e.arrival ≤ L := by
  obtain ⟨-, hd, -⟩ := convertDoc_ok hp h
  rw [hd]
  exact capDeparture_le _ _ _

/-- requested energy = the document's delivered energy, or with `force_feasible` its minimum with
    what the maximum battery power delivers during the stay -/
theorem requested_spec (d : Doc K) (offset : Int) (period V mp : K) (maxLen : Option Int)
    (bp : BattParams K) (ff : Bool) (e : Ev K) (hp : 0 < period)
    (h : convertDoc d offset period V mp maxLen bp ff = .ok e) :
    e.requested = if ff then min d.kWh (mp * ((e.departure - e.arrival : Int) : K) * (period / 60))
                  else d.kWh := by
  obtain ⟨-, -, -, -, -, hr, -⟩ := convertDoc_ok hp h
  rw [hr]
  unfold docEnergy
  split <;> simp

theorem requested_nonneg (d : Doc K) (offset : Int) (period V mp : K) (maxLen : Option Int)
    (bp : BattParams K) (ff : Bool) (e : Ev K) (hp : 0 < period) (hk : 0 ≤ d.kWh) (hm : 0 ≤ mp)
    (hL : ∀ L, maxLen = some L → 0 ≤ L) (hcd : d.connect ≤ d.disconnect)
    (h : convertDoc d offset period V mp maxLen bp ff = .ok e) : 0 ≤ e.requested := by
  have hord := order_preserving d offset period V mp maxLen bp ff e hp hL hcd h
  rw [requested_spec d offset period V mp maxLen bp ff e hp h]
  split
  · apply le_min hk
    have : (0 : K) ≤ ((e.departure - e.arrival : Int) : K) := by exact_mod_cast (by omega : (0:Int) ≤ e.departure - e.arrival)
    positivity
  · exact hk

/-- Default battery (`battery_params` without `capacity_fn`): capacity = request, initially empty,
    so the free capacity is exactly the request. -/
theorem free_capacity_covers_default (d : Doc K) (offset : Int) (period V mp : K)
    (maxLen : Option Int) (bp : BattParams K) (ff : Bool) (e : Ev K) (hp : 0 < period)
    (hb : bp.capFn = none) (h : convertDoc d offset period V mp maxLen bp ff = .ok e) :
    e.batt.capacity - e.batt.init = e.requested ∧ e.batt.charge = e.batt.init ∧
      e.batt.maxPower = mp := by
  obtain ⟨-, -, -, -, -, -, -, -, hbat⟩ := convertDoc_ok hp h
  obtain ⟨h1, h2, h3, h4⟩ := mkBattery_default hb hbat
  rw [h1, h2, h3, h4]; simp

/-- With the default `battery_params` the conversion of a well-formed document cannot raise:
    `Battery(requested, 0, …)` is always constructible. -/
theorem default_conversion_total (d : Doc K) (offset : Int) (period V mp : K)
    (maxLen : Option Int) (ff : Bool) (hp : 0 < period) (hk : 0 ≤ d.kWh) (hm : 0 ≤ mp)
    (hL : ∀ L, maxLen = some L → 0 ≤ L) (hcd : d.connect ≤ d.disconnect) :
    ∃ e, convertDoc d offset period V mp maxLen defaultParams ff = .ok e := by
  unfold convertDoc
  rw [periodIndex_pos hp, periodIndex_pos hp]
  simp only
  have h60 : (0 : K) < 60 * period := by positivity
  have hmono := pyTrunc_mono (div_le_div_of_nonneg_right hcd h60.le)
  have hst : (0 : Int) ≤ capDeparture (pyTrunc (d.connect / (60 * period)) - offset)
        (pyTrunc (d.disconnect / (60 * period)) - offset) maxLen
        - (pyTrunc (d.connect / (60 * period)) - offset) := by
    have := capDeparture_ge (pyTrunc (d.connect / (60 * period)) - offset)
      (pyTrunc (d.disconnect / (60 * period)) - offset) maxLen hL (by omega)
    omega
  have hen : (0 : K) ≤ docEnergy ff d.kWh mp period
      (capDeparture (pyTrunc (d.connect / (60 * period)) - offset)
        (pyTrunc (d.disconnect / (60 * period)) - offset) maxLen
        - (pyTrunc (d.connect / (60 * period)) - offset)) := by
    unfold docEnergy
    split
    · rw [pyMin_eq_min]
      apply le_min hk
      have : (0 : K) ≤ ((capDeparture (pyTrunc (d.connect / (60 * period)) - offset)
        (pyTrunc (d.disconnect / (60 * period)) - offset) maxLen
        - (pyTrunc (d.connect / (60 * period)) - offset) : Int) : K) := by exact_mod_cast hst
      positivity
    · exact hk
  obtain ⟨b, hb⟩ := mkBattery_default_ok _ _ V period mp hen
  rw [hb]
  exact ⟨_, rfl⟩

/-- List level, default batteries: for EVERY list of well-formed documents (`connect ≤ disconnect`,
    `kWhDelivered ≥ 0`) `get_evs` succeeds, and every session it returns is ordered
    (`arrival ≤ departure`), respects `max_len`, requests a non-negative energy and owns a battery
    whose free capacity equals the request. -/
theorem all_sessions_wellformed_default (start : K) (docs : List (Doc K)) (period V mp : K)
    (maxLen : Option Int) (ff : Bool) (hp : 0 < period) (hm : 0 ≤ mp)
    (hL : ∀ L, maxLen = some L → 0 ≤ L)
    (hdocs : ∀ d ∈ docs, d.connect ≤ d.disconnect ∧ 0 ≤ d.kWh) :
    ∃ evs, getEvs start docs period V mp maxLen defaultParams ff = .ok evs ∧
      evs.length = docs.length ∧
      ∀ e ∈ evs, e.arrival ≤ e.departure ∧ (∀ L, maxLen = some L → e.departure - e.arrival ≤ L) ∧
        0 ≤ e.requested ∧ e.batt.capacity - e.batt.init = e.requested ∧
        e.batt.init ≤ e.batt.capacity := by
  unfold getEvs
  rw [periodIndex_pos hp]
  simp only
  generalize pyTrunc (start / (60 * period)) = offset
  induction docs with
  | nil => exact ⟨[], rfl, rfl, by simp⟩
  | cons d ds ih =>
    obtain ⟨hd1, hd2⟩ := hdocs d List.mem_cons_self
    obtain ⟨evs, hevs, hlen, hall⟩ := ih (fun d' hd' => hdocs d' (List.mem_cons_of_mem _ hd'))
    obtain ⟨e, he⟩ := default_conversion_total d offset period V mp maxLen ff hp hd2 hm hL hd1
    refine ⟨e :: evs, ?_, by simp [hlen], ?_⟩
    · rw [convertDocs, he, hevs]
    · intro e' he'
      rcases List.mem_cons.mp he' with h | h
      · subst h
        have hord := order_preserving d offset period V mp maxLen defaultParams ff e' hp hL hd1 he
        have hreq := requested_nonneg d offset period V mp maxLen defaultParams ff e' hp hd2 hm hL hd1 he
        obtain ⟨hfree, -, -⟩ := free_capacity_covers_default d offset period V mp maxLen defaultParams ff e' hp rfl he
        refine ⟨hord, ?_, hreq, hfree, by linarith⟩
        intro L hLm
        subst hLm
        exact stay_capped d offset period V mp L defaultParams ff e' hp he
      · exact hall e' h

/-! non-vacuity: a concrete document over ℚ (start 2019-03-10 08:00 UTC, 5-minute periods) -/

def exDoc : Doc ℚ := { connect := 1552212299, disconnect := 1552212301, kWh := 3, session := "a", space := "CA-1" }
def exDoc2 : Doc ℚ := { connect := 1552212000, disconnect := 1552212299, kWh := 3, session := "b", space := "CA-1" }

/-- a session that crosses a period boundary within two seconds: arrival 24, departure 25 -/
example : ∃ e, convertDoc exDoc 5174016 5 208 (6656/1000) (some 12) defaultParams true = .ok e ∧
    e.arrival = 24 ∧ e.departure = 25 := by
  obtain ⟨e, he⟩ := default_conversion_total exDoc 5174016 5 208 (6656/1000) (some 12) true
    (by norm_num) (by norm_num [exDoc]) (by norm_num) (by intro L h; injection h with h; omega)
    (by norm_num [exDoc])
  refine ⟨e, he, ?_⟩
  obtain ⟨ha, hd, -⟩ := convertDoc_ok (by norm_num) he
  have h1 : pyTrunc (exDoc.connect / (60 * 5)) = 5174040 := by
    rw [pyTrunc_nonneg (by norm_num [exDoc])]; norm_num [exDoc, Int.floor_eq_iff]
  have h2 : pyTrunc (exDoc.disconnect / (60 * 5)) = 5174041 := by
    rw [pyTrunc_nonneg (by norm_num [exDoc])]; norm_num [exDoc, Int.floor_eq_iff]
  rw [h1] at ha; rw [h2] at hd
  have ha' : e.arrival = 24 := by rw [ha]; norm_num
  refine ⟨ha', ?_⟩
  rw [hd, ha']; simp [capDeparture]

/-- Equal indices ARE produced and kept: a 299-second session inside one period has
    `arrival = departure` (the converter has no filter; the stay is then 0 periods). -/
theorem same_period_session_kept :
    ∃ e, convertDoc exDoc2 5174016 5 208 (6656/1000) none defaultParams false = .ok e ∧
      e.arrival = e.departure := by
  obtain ⟨e, he⟩ := default_conversion_total exDoc2 5174016 5 208 (6656/1000) none false
    (by norm_num) (by norm_num [exDoc2]) (by norm_num) (by intro L h; cases h)
    (by norm_num [exDoc2])
  refine ⟨e, he, ?_⟩
  obtain ⟨ha, hd, -⟩ := convertDoc_ok (by norm_num) he
  have h1 : pyTrunc (exDoc2.connect / (60 * 5)) = 5174040 := by
    rw [pyTrunc_nonneg (by norm_num [exDoc2])]; norm_num [exDoc2, Int.floor_eq_iff]
  have h2 : pyTrunc (exDoc2.disconnect / (60 * 5)) = 5174040 := by
    rw [pyTrunc_nonneg (by norm_num [exDoc2])]; norm_num [exDoc2, Int.floor_eq_iff]
  rw [hd, capDeparture_none, ha, h1, h2]

/-- Exactly when a converted session is non-degenerate: `arrival < departure` iff the connection and
    disconnection instants fall in different periods and `max_len`, if given, is at least 1. -/
theorem arrival_lt_departure_iff (d : Doc K) (offset : Int) (period V mp : K) (maxLen : Option Int)
    (bp : BattParams K) (ff : Bool) (e : Ev K) (hp : 0 < period)
    (h : convertDoc d offset period V mp maxLen bp ff = .ok e) :
    e.arrival < e.departure ↔
      pyTrunc (d.connect / (60 * period)) < pyTrunc (d.disconnect / (60 * period)) ∧
      ∀ L, maxLen = some L → 0 < L := by
  obtain ⟨ha, hd, -⟩ := convertDoc_ok hp h
  rw [hd, ha]
  cases maxLen with
  | none => simp only [capDeparture]; constructor
            · intro h'; exact ⟨by omega, by intro L hL; cases hL⟩
            · intro h'; omega
  | some L =>
    simp only [capDeparture]
    split
    · constructor
      · intro h'; refine ⟨by omega, ?_⟩; intro L' hL'; injection hL' with hL'; omega
      · intro h'; have := h'.2 L rfl; omega
    · constructor
      · intro h'; refine ⟨by omega, ?_⟩; intro L' hL'; injection hL' with hL'; omega
      · intro h'; omega

/-- What `generate_events` hands to the simulator, against the hypotheses `Valid` of C01
    (`Lemmas/EventCoreInv.lean`): for documents with `start ≤ connect ≤ disconnect` it GUARANTEES
    `arr_nonneg` (`0 ≤ arrival`), `arrival ≤ departure`, and that session ids are the documents'
    ids in order (so `ids_nodup` holds iff the documents' ids are distinct).  It does NOT guarantee
    `arr_lt_dep`: a session inside one period is kept with `arrival = departure`
    (`same_period_session_kept`); after filtering on `arrival < departure` — which by
    `arrival_lt_departure_iff` drops exactly the same-period sessions (and everything when
    `max_len = 0`) — `arr_lt_dep` holds.  Station non-overlap (`disjoint`) is a property of the data. -/
theorem generate_events_vs_simulator_valid (start : K) (docs : List (Doc K)) (period V mp : K)
    (maxLen : Option Int) (bp : BattParams K) (ff : Bool) (evs : List (Ev K)) (hp : 0 < period)
    (hL : ∀ L, maxLen = some L → 0 ≤ L)
    (hdocs : ∀ d ∈ docs, start ≤ d.connect ∧ d.connect ≤ d.disconnect)
    (h : getEvs start docs period V mp maxLen bp ff = .ok evs) :
    (∀ e ∈ evs, 0 ≤ e.arrival ∧ e.arrival ≤ e.departure) ∧
    evs.map (·.session) = docs.map (·.session) ∧
    evs.map (·.station) = docs.map (·.space) ∧
    (∀ e ∈ evs.filter (fun e => decide (e.arrival < e.departure)), e.arrival < e.departure) := by
  have hf := getEvs_ok hp h
  have h60 : (0 : K) < 60 * period := by positivity
  refine ⟨?_, ?_, ?_, ?_⟩
  · intro e he
    obtain ⟨d, hd, hde⟩ : ∃ d ∈ docs, convertDoc d (pyTrunc (start / (60 * period))) period V mp maxLen bp ff = .ok e := by
      clear hdocs h
      induction hf with
      | nil => cases he
      | cons hab _ ih =>
        rcases List.mem_cons.mp he with h' | h'
        · subst h'; exact ⟨_, List.mem_cons_self, hab⟩
        · obtain ⟨d, hd, hde⟩ := ih h'; exact ⟨d, List.mem_cons_of_mem _ hd, hde⟩
    obtain ⟨h1, h2⟩ := hdocs d hd
    refine ⟨?_, order_preserving d _ period V mp maxLen bp ff e hp hL h2 hde⟩
    obtain ⟨ha, -⟩ := convertDoc_ok hp hde
    have := pyTrunc_mono (div_le_div_of_nonneg_right h1 h60.le)
    rw [ha]; omega
  · clear hdocs h
    induction hf with
    | nil => rfl
    | cons hab _ ih =>
      obtain ⟨-, -, -, hs, -⟩ := convertDoc_ok hp hab
      simp only [List.map_cons, ih, hs]
  · clear hdocs h
    induction hf with
    | nil => rfl
    | cons hab _ ih =>
      obtain ⟨-, -, -, -, hs, -⟩ := convertDoc_ok hp hab
      simp only [List.map_cons, ih, hs]
  · intro e he
    have := (List.mem_filter.mp he).2
    simpa using this

/-! ### stochastic samples (`_convert_ev_matrix`) -/

/-- A kept sample row (arrival `a` h, duration `d` h, energy) becomes a session with
    `arrival = ⌊a·60/period⌋`, `departure = ⌊(a + d')·60/period⌋` where `d' = min(d, max_len)` —
    the cap is applied to the duration in HOURS (DESIGN §8, pinned by the repo's own test) —
    ids `session_i` / `station_i` of the row index, requested energy = the sample's energy, or
    with `force_feasible` its minimum with `max_power·d'`; rows with a negative arrival or a
    non-positive duration / energy are exactly the ones skipped. -/
theorem sample_spec (idx : Nat) (s : Sample K) (period V mp : K) (maxLen : Option K)
    (bp : BattParams K) (ff : Bool) (hp : 0 < period) (hL : ∀ L, maxLen = some L → 0 ≤ L) :
    (∀ e, convertSample idx s period V mp maxLen bp ff = .ok (some e) →
      e.arrival = ⌊s.arrival * (60 / period)⌋ ∧
      e.departure = ⌊(s.arrival + sampleDur s.duration maxLen) * (60 / period)⌋ ∧
      e.arrival ≤ e.departure ∧ 0 ≤ e.arrival ∧
      (∀ L, maxLen = some L → sampleDur s.duration maxLen ≤ L ∧
          e.departure - e.arrival ≤ ⌊L * (60 / period)⌋ + 1) ∧
      e.session = s!"session_{idx}" ∧ e.station = s!"station_{idx}" ∧
      e.requested = (if ff then min s.energy (mp * sampleDur s.duration maxLen) else s.energy) ∧
      (0 ≤ mp → 0 ≤ e.requested)) ∧
    (convertSample idx s period V mp maxLen bp ff = .ok none →
      s.arrival < 0 ∨ s.duration ≤ 0 ∨ s.energy ≤ 0) := by
  refine ⟨?_, convertSample_none hp⟩
  intro e h
  obtain ⟨ha0, hd0, he0, ha, hd, -, hs1, hs2, hr, -⟩ := convertSample_some hp h
  have hpph : (0 : K) < 60 / period := by positivity
  have hdur := sampleDur_nonneg s.duration maxLen hd0.le hL
  have hA : (0 : K) ≤ s.arrival * (60 / period) := mul_nonneg ha0 hpph.le
  have hD : (0 : K) ≤ (s.arrival + sampleDur s.duration maxLen) * (60 / period) :=
    mul_nonneg (by linarith) hpph.le
  rw [pyTrunc_nonneg hA] at ha
  rw [pyTrunc_nonneg hD] at hd
  have hmono : ⌊s.arrival * (60 / period)⌋ ≤ ⌊(s.arrival + sampleDur s.duration maxLen) * (60 / period)⌋ :=
    Int.floor_le_floor (mul_le_mul_of_nonneg_right (by linarith) hpph.le)
  refine ⟨ha, hd, by rw [ha, hd]; exact hmono, by rw [ha]; exact Int.floor_nonneg.mpr hA, ?_, hs1, hs2, ?_, ?_⟩
  · intro L hLm
    subst hLm
    refine ⟨sampleDur_le _ _, ?_⟩
    rw [ha, hd, add_mul]
    have h1 : sampleDur s.duration (some L) * (60 / period) ≤ L * (60 / period) :=
      mul_le_mul_of_nonneg_right (sampleDur_le _ _) hpph.le
    have h2 := Int.floor_le_floor h1
    have h3 := Int.le_floor_add_floor (s.arrival * (60 / period))
      (sampleDur s.duration (some L) * (60 / period))
    omega
  · rw [hr]; split <;> simp
  · intro hm
    rw [hr]; split
    · rw [pyMin_eq_min]; exact le_min he0.le (mul_nonneg hm hdur)
    · exact he0.le

/-- the rows `_convert_ev_matrix` keeps -/
def validRow (s : Sample K) : Bool :=
  !(decide (s.arrival < 0) || decide (s.duration ≤ 0) || decide (s.energy ≤ 0))

/-- `_convert_ev_matrix` yields exactly one session per valid row, in row order, converted with
    that row's index in the full matrix (so `session_i` / `station_i` are pairwise distinct), and
    nothing for the invalid rows. -/
theorem matrix_spec (period V mp : K) (maxLen : Option K) (bp : BattParams K) (ff : Bool)
    (hp : 0 < period) :
    ∀ (rows : List (Sample K)) (i : Nat) (evs : List (Ev K)),
      convertMatrixFrom i rows period V mp maxLen bp ff = .ok evs →
      List.Forall₂ (fun p e => convertSample p.2 p.1 period V mp maxLen bp ff = .ok (some e))
        ((rows.zipIdx i).filter (fun p => validRow p.1)) evs := by
  intro rows
  induction rows with
  | nil =>
    intro i evs h
    rw [convertMatrixFrom] at h
    injection h with h; subst h
    exact .nil
  | cons r rs ih =>
    intro i evs h
    rw [convertMatrixFrom] at h
    split at h
    · exact absurd h (by simp)
    · rename_i o ho
      split at h
      · exact absurd h (by simp)
      · rename_i l hl
        injection h with h
        have ihl := ih (i + 1) l hl
        rw [List.zipIdx_cons]
        cases o with
        | some e =>
          obtain ⟨h1, h2, h3, -⟩ := convertSample_some hp ho
          have hv : validRow r = true := by
            simp [validRow, not_lt.mpr h1, not_le.mpr h2, not_le.mpr h3]
          rw [List.filter_cons_of_pos (by simpa using hv)]
          subst h
          exact .cons ho ihl
        | none =>
          have hinv := convertSample_none hp ho
          have hv : validRow r = false := by
            simp only [validRow, Bool.not_eq_false', Bool.or_eq_true, decide_eq_true_eq]
            rcases hinv with h' | h' | h'
            · exact Or.inl (Or.inl h')
            · exact Or.inl (Or.inr h')
            · exact Or.inr h'
          rw [List.filter_cons_of_neg (by simp [hv])]
          subst h
          exact ihl

example : (⌊(9.5 : ℚ) * (60 / 5)⌋ = 114) ∧ ⌊((9.5 : ℚ) + 0.01) * (60 / 5)⌋ = 114 := by
  constructor <;> (rw [Int.floor_eq_iff]; norm_num)

end docs

/-! ### the two-stage capacity fit (`batt_cap_fn`), over ℝ -/
section fit
open Acn.SessionsFit Acn.BattFlow

variable {caps : List ℝ} {mr ts tol E T V P cap init : ℝ} {fuel : Nat}

/-- The regenerated constants of the fit lie in the ranges the theorems assume. -/
theorem gen_fit_consts :
    (∀ c ∈ Gen.fitCaps, 0 < c) ∧ 0 < Gen.fitMaxRate ∧ 0 ≤ Gen.fitTransitionSoc ∧
      Gen.fitTransitionSoc < 1 ∧ 0 < Gen.fitTol ∧ Gen.fitCaps ≠ [] := by decide +kernel

/-- `batt_cap_fn` never hands the Battery constructor an initial charge above the capacity (nor a
    negative one): for every request and stay in its domain the answer satisfies
    `0 ≤ init ≤ cap`, `cap` is a ladder capacity that can hold the request, and the two-stage
    battery is constructible. -/
theorem init_le_capacity (hd : FitDomain caps mr ts tol E T V P)
    (h : battCapFn caps mr ts tol fuel E T V P = .ok (cap, init)) (mp noise : ℝ) (cm : Calc) :
    cap ∈ caps ∧ E ≤ cap ∧ 0 ≤ init ∧ init ≤ cap ∧
      ∃ b, mkTwoStage cap init mp noise ts cm = .ok b ∧ b.capacity = cap ∧ b.charge = init := by
  obtain ⟨hmem, hc, hle, h0, s, hi, hs1, -⟩ := fit_main hd h
  have hic : init ≤ cap := by rw [hi]; nlinarith
  refine ⟨hmem, hle, h0, hic, ?_⟩
  unfold mkTwoStage
  rw [if_neg (not_lt.mpr hic), if_neg (not_lt.mpr hd.ts_nonneg), if_neg (not_le.mpr hd.ts_lt)]
  exact ⟨_, rfl, rfl, rfl⟩

/-- Free capacity of a fitted battery: it covers the request exactly in the closed-form branch and
    up to the bisection tolerance (`tol` in SoC units = `tol·cap` kWh) otherwise. -/
theorem fit_free_capacity (hd : FitDomain caps mr ts tol E T V P)
    (h : battCapFn caps mr ts tol fuel E T V P = .ok (cap, init)) :
    E - tol * cap < cap - init ∧
      (ts ≤ (closedInitSoc mr ts E T V P cap).2.2 → E ≤ cap - init) := by
  obtain ⟨-, hc, -, -, s, hi, -, -, hfree, hcl⟩ := fit_main hd h
  have e : E = E / cap * cap := by field_simp
  constructor
  · rw [hi]; nlinarith
  · intro hclosed
    have := (hcl hclosed).2
    rw [hi]; nlinarith

/-- `fit_exact`: build `Linear2StageBattery(cap, init, 32·V/1000)` from the fit's answer and charge
    it at the fit's full rate for the `n = stay` periods: the energy taken equals the request —
    exactly in the closed-form branch, within the bisection tolerance `tol·cap` otherwise. -/
theorem fit_exact (n : Nat) (hd : FitDomain caps mr ts tol E (n : ℝ) V P)
    (h : battCapFn caps mr ts tol fuel E (n : ℝ) V P = .ok (cap, init)) :
    ∃ b b', mkTwoStage cap init (mr * V / 1000) 0 ts .continuous = .ok b ∧
      chargeN b mr V P n = .ok b' ∧
      |b'.charge - init - E| < tol * cap ∧
      (ts ≤ (closedInitSoc mr ts E (n : ℝ) V P cap).2.2 → b'.charge - init = E) := by
  obtain ⟨-, hc, -, -, s, hi, hs1, hflow, -, hcl⟩ := fit_main hd h
  obtain ⟨-, -, -, hic, b, hb, hbc, hbch⟩ := init_le_capacity hd h (mr * V / 1000) 0 .continuous
  have hfb : FitBatt cap (mr * V / 1000) ts b := by
    unfold mkTwoStage at hb
    split at hb
    · exact absurd hb (by simp)
    · split at hb
      · exact absurd hb (by simp)
      · split at hb
        · exact absurd hb (by simp)
        · injection hb with hb; subst hb; exact ⟨rfl, rfl, rfl, rfl, rfl, rfl⟩
  obtain ⟨b', hch, -, -, hsoc⟩ := chargeN_flow hd.mr_pos hd.V_pos hd.P_pos hc hd.ts_lt n b hfb (by rw [hbch]; exact hic)
  refine ⟨b, b', hb, hch, ?_, ?_⟩
  · have hs : b.charge / cap = s := by rw [hbch, hi]; field_simp
    rw [hs] at hsoc
    have e1 : b'.charge = b'.charge / cap * cap := by field_simp
    have e2 : E = E / cap * cap := by field_simp
    have : b'.charge - init - E =
        (flowSoc (fitM mr V P cap) (fitM mr V P cap / (1 - ts)) s n - s - E / cap) * cap := by
      rw [← hsoc, hi]; field_simp
    rw [this, abs_mul, abs_of_pos hc]
    exact mul_lt_mul_of_pos_right hflow hc
  · intro hclosed
    have hs : b.charge / cap = s := by rw [hbch, hi]; field_simp
    rw [hs] at hsoc
    have := (hcl hclosed).1
    have e2 : E = E / cap * cap := by field_simp
    have e3 : b'.charge = b'.charge / cap * cap := by field_simp
    rw [e3, hsoc, hi, e2]
    nlinarith

/-- Bisection terminates (fuel adequacy): `delta_soc_from_init_soc` is decreasing and 1-Lipschitz
    in the initial SoC, so with the bracket `[ts − m·T, 1]` that `_get_init_cap` uses, `batt_cap_fn`
    never exhausts `n+1` levels of recursion once `1 − ts + m·T < tol·2^(n+1)` for every ladder
    capacity (`m` = SoC per period at full rate).  With `tol = 1e-9` that is `31 + log₂(0.2 + m·T)`
    levels — far below CPython's limit, which the model's fuel (900) stands for. -/
theorem bisection_terminates (hd : FitDomain caps mr ts tol E T V P) (n : Nat)
    (hfuel : ∀ c ∈ caps, 1 - ts + fitM mr V P c * T < tol * 2 ^ (n + 1)) :
    battCapFn caps mr ts tol (n + 1) E T V P ≠ .error .recursion :=
  battCapFn_no_recursion hd.mr_pos hd.V_pos hd.P_pos hd.ts_lt hd.T_pos hd.E_nonneg n caps
    (fun c hc => ⟨hd.caps_pos c hc, hfuel c hc⟩)

/-- an answer of the bisection, whatever the fuel, lies in the bracket and meets the tolerance -/
theorem bisection_answer (f : ℝ → ℝ) (target tol : ℝ) (k : Nat) (lb ub s : ℝ) (hlu : lb ≤ ub)
    (h : binsearch f target tol k lb ub = .ok s) : lb ≤ s ∧ s ≤ ub ∧ |f s - target| < tol :=
  binsearch_spec f target tol k lb ub s hlu h

/-- `free_capacity_covers`: a document converted with `capacity_fn = batt_cap_fn` (any positive
    ladder, constants in range) and a positive stay gets a battery on the ladder with
    `0 ≤ init ≤ capacity` whose free capacity covers the requested energy — exactly in the fit's
    closed-form branch, up to `tol·capacity` (1e-9 of the capacity) in its bisection branch.  For
    batteries without `capacity_fn` see `free_capacity_covers_default` (free capacity = request). -/
theorem free_capacity_covers (d : Doc ℝ) (offset : Int) (period V mp : ℝ) (maxLen : Option Int)
    (bp : BattParams ℝ) (ff : Bool) (e : Ev ℝ) (hp : 0 < period) (hV : 0 < V)
    (hcaps : ∀ c ∈ caps, 0 < c) (hmr : 0 < mr) (hts0 : 0 ≤ ts) (hts1 : ts < 1) (htol : 0 < tol)
    (hb : bp.capFn = some (battCapFn caps mr ts tol fuel))
    (hreq : 0 ≤ e.requested) (hstay : e.arrival < e.departure)
    (h : convertDoc d offset period V mp maxLen bp ff = .ok e) :
    e.batt.capacity ∈ caps ∧ 0 ≤ e.batt.init ∧ e.batt.init ≤ e.batt.capacity ∧
      e.requested - tol * e.batt.capacity < e.batt.capacity - e.batt.init ∧
      (ts ≤ (closedInitSoc mr ts e.requested ((e.departure - e.arrival : Int) : ℝ) V period
                e.batt.capacity).2.2 → e.requested ≤ e.batt.capacity - e.batt.init) := by
  obtain ⟨-, -, -, -, -, -, -, -, hbat⟩ := convertDoc_ok hp h
  obtain ⟨c, i, hf, hc, hi, -, -, -⟩ := mkBattery_capFn hb hbat
  have hT : (0 : ℝ) < ((e.departure - e.arrival : Int) : ℝ) := by
    exact_mod_cast (by omega : (0 : Int) < e.departure - e.arrival)
  have hd : FitDomain caps mr ts tol e.requested ((e.departure - e.arrival : Int) : ℝ) V period :=
    ⟨hcaps, hmr, hts0, hts1, htol, hreq, hT, hV, hp⟩
  obtain ⟨h1, -, h3, h4, -⟩ := init_le_capacity hd hf 0 0 .continuous
  obtain ⟨h5, h6⟩ := fit_free_capacity hd hf
  rw [hc, hi]
  exact ⟨h1, h3, h4, h5, h6⟩

/-- Minimal capacity: the ladder stops at the first capacity that works — every capacity tried
    before the returned one is too small to hold the request or, charged from EMPTY at full rate
    for the whole stay, takes less than the request (plus the bisection tolerance `tol·c`). -/
theorem fit_capacity_minimal (hd : FitDomain caps mr ts tol E T V P) (hts0 : 0 < ts)
    (h : battCapFn caps mr ts tol fuel E T V P = .ok (cap, init)) :
    ∃ pre post, caps = pre ++ cap :: post ∧ ∀ c ∈ pre, c < E ∨
      flowSoc (fitM mr V P c) (fitM mr V P c / (1 - ts)) 0 T * c < E + tol * c := by
  obtain ⟨pre, post, he, hall⟩ := battCapFn_prefix caps h
  refine ⟨pre, post, he, ?_⟩
  intro c hc
  have hcpos : 0 < c := hd.caps_pos c (by rw [he]; exact List.mem_append_left _ hc)
  rcases hall c hc with h1 | ⟨i, hi, hneg⟩
  · exact Or.inl h1
  · right
    have := getInitCap_neg hd.mr_pos hd.V_pos hd.P_pos hcpos hts0 hd.ts_lt hd.T_pos hd.tol_pos hi hneg
    have e : E = E / c * c := by field_simp
    rw [sub_zero] at this
    rw [e]
    nlinarith

/-- Maximal initial charge (what the comment in `_get_init_cap` promises: "the largest init_soc that
    still allows for delta_soc to be delivered").  Write `taken i` for the SoC the battery
    `(cap, i)` takes when charged at full rate for the stay.  For every answer `(cap, init)`:
    (a) `init` itself takes the request up to `tol`;
    (b) NO larger initial charge `i' ≤ cap` takes the request plus `tol`: every initial charge
        that is feasible with margin `tol` is strictly below `init` — so `init` lies between the
        largest `tol`-robustly feasible and the largest `tol`-nearly feasible initial charge;
    (c) in the closed-form branch `init` is EXACTLY the largest feasible initial charge: it takes
        exactly the request and every larger one takes strictly less;
    (d) in the bisection branch `init` lies in the code's bracket, at or above
        `(ts − m·T)·cap`, i.e. never inside the flat region below it where all initial charges take
        the same energy.
    (In SoC distance the bisection answer can be up to `√(2(1−ts)·tol)` above the exact maximiser
    when the request equals the flat-region value — the curve has slope 0 there — which is why
    (b) is stated in delivered energy, the quantity `binsearch` controls.) -/
theorem fit_init_maximal (hd : FitDomain caps mr ts tol E T V P)
    (h : battCapFn caps mr ts tol fuel E T V P = .ok (cap, init)) :
    let taken := fun i : ℝ =>
      flowSoc (fitM mr V P cap) (fitM mr V P cap / (1 - ts)) (i / cap) T - i / cap
    E / cap - tol < taken init ∧
    (∀ i', i' ≤ cap → E / cap + tol ≤ taken i' → i' < init) ∧
    (ts ≤ (closedInitSoc mr ts E T V P cap).2.2 →
      taken init = E / cap ∧ ∀ i', init < i' → i' ≤ cap → taken i' < E / cap) ∧
    (¬ ts ≤ (closedInitSoc mr ts E T V P cap).2.2 → (ts - fitM mr V P cap * T) * cap ≤ init) := by
  intro taken
  obtain ⟨-, hc, -, -, s, hi, hs1, hflow, -, hcl⟩ := fit_main hd h
  obtain ⟨s2, hi2, hb1, hb2⟩ := fit_bracket hd h
  have hss : s2 = s := by
    have : s2 * cap = s * cap := by rw [← hi, ← hi2]
    exact mul_right_cancel₀ hc.ne' this
  subst hss
  have hm := fitM_pos hd.mr_pos hd.V_pos hd.P_pos hc
  have hsi : init / cap = s2 := by rw [hi]; field_simp
  have hT := hd.T_pos
  have hts := hd.ts_lt
  rw [abs_lt] at hflow
  refine ⟨?_, ?_, ?_, ?_⟩
  · show _ < flowSoc _ _ (init / cap) T - init / cap
    rw [hsi]; linarith
  · intro i' hi' hfeas
    by_contra hnot
    have hle : init ≤ i' := not_lt.mp hnot
    have h1 : s2 ≤ i' / cap := by rw [← hsi]; exact div_le_div_of_nonneg_right hle hc.le
    have h2 : i' / cap ≤ 1 := by rw [div_le_one hc]; exact hi'
    have := taken_antitone hm hT hts h1 h2
    have hf : E / cap + tol ≤ flowSoc (fitM mr V P cap) (fitM mr V P cap / (1 - ts)) (i' / cap) T - i' / cap := hfeas
    linarith
  · intro hclosed
    have heq := (hcl hclosed).1
    refine ⟨by show flowSoc _ _ (init / cap) T - init / cap = _; rw [hsi]; exact heq, ?_⟩
    intro i' hlt hle
    have h1 : s2 < i' / cap := by rw [← hsi]; exact div_lt_div_of_pos_right hlt hc
    have h2 : i' / cap ≤ 1 := by rw [div_le_one hc]; exact hle
    have := taken_strict_above_ts hm hT hts (hb1 hclosed) h1 h2
    show flowSoc _ _ (i' / cap) T - i' / cap < _
    linarith
  · intro hn
    have := hb2 hn
    rw [hi]; nlinarith

/-- the constants of the working tree (regenerated `Gen.Consts`) put every non-negative request
    with a positive stay, voltage and period into the fit's domain -/
theorem fitDomain_gen {E T V P : ℝ} (hE : 0 ≤ E) (hT : 0 < T) (hV : 0 < V) (hP : 0 < P) :
    FitDomain (Gen.fitCaps.map ratK) (ratK Gen.fitMaxRate) (ratK Gen.fitTransitionSoc)
      (ratK Gen.fitTol) E T V P := by
  obtain ⟨h1, h2, h3, h4, h5, -⟩ := gen_fit_consts
  refine ⟨?_, ?_, ?_, ?_, ?_, hE, hT, hV, hP⟩
  · intro c hc
    rw [List.mem_map] at hc
    obtain ⟨q, hq, rfl⟩ := hc
    rw [ratK_cast]; exact_mod_cast h1 q hq
  · rw [ratK_cast]; exact_mod_cast h2
  · rw [ratK_cast]; exact_mod_cast h3
  · rw [ratK_cast]; exact_mod_cast h4
  · rw [ratK_cast]; exact_mod_cast h5

/-- `fit_exact` for `batt_cap_fn` AS IT IS in the working tree (ladder, 32 A, transition SoC and
    tolerance regenerated from battery.py): for every request `E ≥ 0`, stay of `n ≥ 1` periods,
    voltage and period, an answer `(cap, init)` satisfies `0 ≤ init ≤ cap`, its free capacity
    covers `E` up to `tol·cap`, and `Linear2StageBattery(cap, init, 32·V/1000)` charged at 32 A for
    the `n` periods takes `E` up to `tol·cap` (exactly `E` in the closed-form branch). -/
theorem fit_exact_gen {E V P cap init : ℝ} (n : Nat) (hn : 0 < n) (hE : 0 ≤ E) (hV : 0 < V)
    (hP : 0 < P) (h : battCapFnGen E (n : ℝ) V P = .ok (cap, init)) :
    0 ≤ init ∧ init ≤ cap ∧ E - ratK Gen.fitTol * cap < cap - init ∧
    ∃ b b', mkTwoStage cap init (ratK Gen.fitMaxRate * V / 1000) 0 (ratK Gen.fitTransitionSoc)
        .continuous = .ok b ∧
      chargeN b (ratK Gen.fitMaxRate) V P n = .ok b' ∧
      |b'.charge - init - E| < ratK Gen.fitTol * cap ∧
      (ratK Gen.fitTransitionSoc ≤ (closedInitSoc (ratK Gen.fitMaxRate) (ratK Gen.fitTransitionSoc)
          E (n : ℝ) V P cap).2.2 → b'.charge - init = E ∧ E ≤ cap - init) := by
  have hd := fitDomain_gen (E := E) (T := (n : ℝ)) (V := V) (P := P) hE (by exact_mod_cast hn) hV hP
  unfold battCapFnGen at h
  obtain ⟨-, -, h0, h1, -⟩ := init_le_capacity hd h 0 0 .continuous
  obtain ⟨h2, h3⟩ := fit_free_capacity hd h
  obtain ⟨b, b', hb, hch, habs, hex⟩ := fit_exact n hd h
  exact ⟨h0, h1, h2, b, b', hb, hch, habs, fun hc => ⟨hex hc, h3 hc⟩⟩

/-! non-vacuity: the corpus case of finding F9, `batt_cap_fn(1.0, 100, 208, 5)` (closed-form branch),
    over ℝ with the ladder and constants of the source -/

theorem fitDomain_F9 : FitDomain [8, 24, 40, 60, 85, 100] 32 (4/5) (1/1000000000) 1 ((100 : ℕ) : ℝ) 208 5 :=
  ⟨by intro c hc; simp at hc; rcases hc with h | h | h | h | h | h <;> rw [h] <;> norm_num,
   by norm_num, by norm_num, by norm_num, by norm_num, by norm_num, by norm_num, by norm_num, by norm_num⟩

/-- the repaired code answers the 1 kWh / 100-period request with the 8 kWh battery from the
    closed-form branch (`init = init_soc·8` kWh) … -/
theorem fit_F9_closed (fuel : Nat) :
    ∃ init, battCapFn [8, 24, 40, 60, 85, 100] 32 (4/5) (1/1000000000) fuel 1 ((100 : ℕ) : ℝ) 208 5
        = .ok (8, init) ∧
      (4/5 : ℝ) ≤ (closedInitSoc 32 (4/5) 1 ((100 : ℕ) : ℝ) 208 5 8).2.2 := by
  have hcl : (4/5 : ℝ) ≤ (closedInitSoc 32 (4/5) 1 ((100 : ℕ) : ℝ) 208 5 8).2.2 := by
    rw [closed_eq]
    simp only [fitM]
    have hx : Real.exp (32 * 208 / 1000 / 8 / (60 / 5) * ((100 : ℕ) : ℝ) / (4 / 5 - 1)) ≤ 1 / 4 := by
      have e : (32 * 208 / 1000 / 8 / (60 / 5) * ((100 : ℕ) : ℝ) / (4 / 5 - 1) : ℝ) = -(104/3) := by
        norm_num
      rw [e, Real.exp_neg]
      have := Real.add_one_le_exp (104/3 : ℝ)
      rw [inv_le_comm₀ (Real.exp_pos _) (by norm_num)]
      linarith
    have hpos := Real.exp_pos (32 * 208 / 1000 / 8 / (60 / 5) * ((100 : ℕ) : ℝ) / (4 / 5 - 1))
    have hneg : Real.exp (32 * 208 / 1000 / 8 / (60 / 5) * ((100 : ℕ) : ℝ) / (4 / 5 - 1)) - 1 < 0 := by
      linarith
    have : (-(1/5) : ℝ) ≤ 1 / 8 / (Real.exp (32 * 208 / 1000 / 8 / (60 / 5) * ((100 : ℕ) : ℝ) / (4 / 5 - 1)) - 1) := by
      rw [le_div_iff_of_neg hneg]; nlinarith
    linarith
  refine ⟨(closedInitSoc 32 (4/5) 1 ((100 : ℕ) : ℝ) 208 5 8).2.2 * 8, ?_, hcl⟩
  rw [battCapFn, if_neg (by norm_num)]
  have hg : getInitCap 32 (4/5) (1/1000000000) fuel 1 ((100 : ℕ) : ℝ) 208 5 8 =
      .ok ((closedInitSoc 32 (4/5) 1 ((100 : ℕ) : ℝ) 208 5 8).2.2 * 8) := by
    unfold getInitCap
    simp only
    rw [if_pos hcl]
  rw [hg]
  simp only
  rw [if_pos (by linarith)]

/-- … whose free capacity covers the request and which takes exactly 1 kWh in the 100 periods
    (before the repair it took 7.1 kWh: `init` was an SoC, not kWh). -/
example : ∃ init b b', battCapFn [8, 24, 40, 60, 85, 100] 32 (4/5) (1/1000000000) 7 1 ((100 : ℕ) : ℝ) 208 5
      = .ok (8, init) ∧ 1 ≤ 8 - init ∧
    mkTwoStage 8 init (32 * 208 / 1000) 0 (4/5) .continuous = .ok b ∧
    chargeN b 32 208 5 100 = .ok b' ∧ b'.charge - init = 1 := by
  obtain ⟨init, h, hcl⟩ := fit_F9_closed 7
  obtain ⟨b, b', hb, hch, -, hex⟩ := fit_exact 100 fitDomain_F9 h
  exact ⟨init, b, b', h, (fit_free_capacity fitDomain_F9 h).2 hcl, hb, hch, hex hcl⟩

/-- the same request answered by `battCapFnGen`, i.e. with the regenerated constants -/
example : ∃ init, battCapFnGen (1 : ℝ) ((100 : ℕ) : ℝ) 208 5 = .ok (8, init) := by
  obtain ⟨init, h, -⟩ := fit_F9_closed pyFuel
  refine ⟨init, ?_⟩
  unfold battCapFnGen
  have hc : Gen.fitCaps.map (ratK (K := ℝ)) = [8, 24, 40, 60, 85, 100] := by
    simp only [Gen.fitCaps, List.map_cons, List.map_nil, ratK_cast]; norm_num
  rw [hc, ratK_cast, ratK_cast, ratK_cast]
  have e1 : ((Gen.fitMaxRate : ℚ) : ℝ) = 32 := by norm_num [Gen.fitMaxRate]
  have e2 : ((Gen.fitTransitionSoc : ℚ) : ℝ) = 4 / 5 := by norm_num [Gen.fitTransitionSoc]
  have e3 : ((Gen.fitTol : ℚ) : ℝ) = 1 / 1000000000 := by norm_num [Gen.fitTol]
  rw [e1, e2, e3]
  exact h

/-- 34 levels suffice for the F9 request on the whole ladder (Python's limit is 1000) -/
example : battCapFn [8, 24, 40, 60, 85, 100] 32 (4/5) (1/1000000000) (33 + 1) 1 ((100 : ℕ) : ℝ) 208 5
    ≠ .error .recursion := by
  apply bisection_terminates fitDomain_F9 33
  intro c hc
  simp only [List.mem_cons, List.not_mem_nil, or_false] at hc
  rcases hc with h | h | h | h | h | h <;> rw [h] <;> norm_num [fitM]

end fit

end Acn.C15
