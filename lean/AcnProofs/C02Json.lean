/-
  C02 — the energy ledger for a simulation that is INTERRUPTED, WRITTEN TO JSON, LOADED AND RESUMED
  (`to_json()` → `Simulator.from_json()` → `update_scheduler()` → `run()`).

  The in-place half (`run()` called again on the same object) is in `AcnProofs/C02.lean`
  (`ledger_invariant_aborted`, `ledger_invariant_resume`, `…_resumed`).  This module adds the JSON half on top of
  C09's machinery: `Registry.dump` / `load` (the memoised walks of base.py), the concrete per-class codec
  `RegistrySim.encode` / `decode`, well-formedness of every state a run can leave behind (`RegistrySim.run_sinv`),
  the inversion lemma `RegistrySim.decode_of` — the lemmas behind `C09.decode_encode` / `C09.crash_json_resume_eq`.
  It is a module of its own because those lemmas (`Lemmas/ResumeRun`, `RegistryWF2`) and `Lemmas/EventCoreSim`
  (which `C02.lean` imports through `LedgerInterval`) declare the same projection-lemma names and cannot be
  imported together; both modules speak about the SAME predicates `Ledger.Inv`, `Ledger.Resumed`, `Ledger.ApplyErr`
  of `Lemmas/LedgerResume.lean`.  The statements do not go through `C09.lean` itself, so that C02 does not
  depend on C09's regenerated attribute tables (`Gen/Serial.lean`).

  Main statements: `crash_state_json_roundtrip` / `calls_json_roundtrip` (the round trip is the identity on every state
  any number of `run()` calls can leave behind — `Lemmas/RegistryCalls.lean` extends C09's `run_sinv` from loop heads to
  the mid-period states aborted periods leave), `resumedJ_resumed` (a life with JSON steps at any point visits only
  `Resumed` states), `ledger_invariant_resume_json` / `ledger_invariant_resumed_json` (the ledger and its clauses).

  Carrier: any linear ordered field; `Lawful sh rd`: the scalar parsers invert the scalar renderings (C09).
-/
import AcnProofs.Lemmas.LedgerResume
import AcnProofs.Lemmas.RegistryRoundtrip
import AcnProofs.Lemmas.RegistryDecode7
import AcnProofs.Lemmas.RegistryWF2
import AcnProofs.Lemmas.RegistryCalls
import AcnProofs.Lemmas.RegistryLawful

set_option linter.unusedSectionVars false
set_option linter.unusedVariables false

namespace Acn.C02Json
open Acn Acn.EventCore Acn.Sim Acn.Ledger Acn.Registry Finset

variable {K : Type} [Field K] [LinearOrder K] [IsStrictOrderedRing K] [HasExp K]

/-- THE ROUND TRIP IS THE IDENTITY ON WHAT A RUN LEAVES BEHIND.  `Valid` scenario (C01's hypothesis), any scheduler,
    any fuel, any outcome of `run()` (completed, out of fuel, aborted in any period by an event, the scheduler,
    `_update_schedules` or `update_pilots`): the simulator can be written (`to_json` = `dump ∘ encode`), loaded
    (`from_json` = `load`, which rebuilds exactly the dumped context) and decoded, and the decoded simulator state IS
    the state that was written — station order and registered voltages (static data `cfg`), every EV ONCE with its
    energy counter and battery, the rate and pilot matrices, `peak`, the queue, the occupancy. -/
theorem crash_state_json_roundtrip {sh : RegistrySim.Show K} {rd : RegistrySim.Read K}
    (hl : RegistrySim.Lawful sh rd) (cfg : Sim.Cfg K) (hv : Valid cfg.core)
    (sched : View K → Except EventCore.Err (Schedule K)) (n : Nat) :
    let s1 := (Sim.run cfg sched n (Sim.init cfg)).1
    ∃ ctx, dump (RegistrySim.encode sh cfg s1) RegistrySim.root = .ok ctx ∧ load ctx RegistrySim.root = .ok ctx ∧
      RegistrySim.decode rd cfg (RegistrySim.ambOf s1) ctx.get = some s1 := by
  intro s1
  have hS := RegistrySim.run_sinv cfg sched hv n 0 (Sim.init cfg) (init_inv hv) (RegistrySim.init_sinv cfg)
  have hwf : RegistrySim.WF cfg s1 := hS.wf hv.ids_nodup
  have href : RegistrySim.AllRef cfg s1 := hS.allRef hv.ids_nodup
  have hac := RegistrySim.encode_acyclic sh cfg s1
  have hcl := RegistrySim.encode_closed sh cfg s1
  obtain ⟨ctx, h, hs⟩ := dump_spec hac hcl
  refine ⟨ctx, h, load_dump hac h hs, ?_⟩
  apply RegistrySim.decode_of hl hwf ctx.get
  intro i hi
  have hr := RegistrySim.reach_all sh cfg s1 href i hi
  rw [hs.same i hr, RegistrySim.get_encode, if_pos (RegistrySim.reach_lt sh cfg s1 (RegistrySim.root_lt cfg s1) hr)]

/-- INTERRUPTED, SERIALISED, LOADED: the first `run()` (any scheduler) is aborted in ANY period — by anything but the
    pilots/rates half of a period (`ApplyErr`, see `Lemmas/LedgerResume.lean`) —, the simulator is written to JSON,
    loaded and decoded: the loaded simulator `s'` exists, and it is a `Resumed` state of the scenario.  So everything
    `C02.lean` proves of `Resumed` states (`ledger_invariant_resumed`, `session_energy_eq_sum_resumed`,
    `peak_eq_max_resumed`, `total_energy_eq_integral_resumed`, `rate_zero_when_vacant_resumed`,
    `sim_energy_eq_battery_gain_resumed`) holds of it and of every state reached from it by further `run()` calls
    (`Resumed.call`), completed or aborted again. -/
theorem loaded_is_resumed {sh : RegistrySim.Show K} {rd : RegistrySim.Read K}
    (hl : RegistrySim.Lawful sh rd) (cfg : Sim.Cfg K) (hv : Valid cfg.core)
    (sched1 : View K → Except EventCore.Err (Schedule K)) (n1 : Nat)
    (he : ∀ e, (Sim.run cfg sched1 n1 (Sim.init cfg)).2 = some e → ¬ ApplyErr e) :
    let s1 := (Sim.run cfg sched1 n1 (Sim.init cfg)).1
    ∃ ctx s', dump (RegistrySim.encode sh cfg s1) RegistrySim.root = .ok ctx ∧ load ctx RegistrySim.root = .ok ctx ∧
      RegistrySim.decode rd cfg (RegistrySim.ambOf s1) ctx.get = some s' ∧ Resumed cfg s' := by
  intro s1
  obtain ⟨ctx, h1, h2, h3⟩ := crash_state_json_roundtrip hl cfg hv sched1 n1
  exact ⟨ctx, s1, h1, h2, h3, Resumed.call sched1 n1 Resumed.init rfl he⟩

/-- THE LEDGER OF THE JSON-RESUMED RUN.  `Valid` scenario with distinct station ids; the first `run()` is aborted in
    any period (not by the pilots/rates half); `to_json`, `from_json`, decode give a simulator `s'`; `run()` on it
    with ANY scheduler `sched2` (the same object handed back through `update_scheduler`, or another) reaches a loop
    head `s2` without raising — in particular: completes.  Then the ledger invariant holds of `s2`, and with it every
    clause of C02, for every EV `id` (initial object `e0` of the scenario, final object `e`):
      * energy delivered = battery gain;
      * energy delivered = Σ over the periods so far in which the snapshot shows the session at ITS station of
        `rates[st][τ] · V_st / 1000 · (period / 60)`, `V_st` the REGISTERED voltage of that station id;
      * the recorded rate is 0 where the snapshot shows a station vacant and in periods not yet simulated;
      * `peak` = max(0, max over ALL periods — before and after the interruption — of the aggregate current);
      * (session ids distinct) Σ energies = Σ_τ aggregate_power(τ) · period/60. -/
theorem ledger_invariant_resume_json {sh : RegistrySim.Show K} {rd : RegistrySim.Read K}
    (hl : RegistrySim.Lawful sh rd) (cfg : Sim.Cfg K) (hn : StationsNodup cfg) (hv : Valid cfg.core)
    (sched1 : View K → Except EventCore.Err (Schedule K)) (n1 : Nat)
    (he : ∀ e, (Sim.run cfg sched1 n1 (Sim.init cfg)).2 = some e → ¬ ApplyErr e) :
    let s1 := (Sim.run cfg sched1 n1 (Sim.init cfg)).1
    ∃ ctx s', dump (RegistrySim.encode sh cfg s1) RegistrySim.root = .ok ctx ∧ load ctx RegistrySim.root = .ok ctx ∧
      RegistrySim.decode rd cfg (RegistrySim.ambOf s1) ctx.get = some s' ∧
      ∀ (sched2 : View K → Except EventCore.Err (Schedule K)) (n2 : Nat) (s2 : State K),
        Sim.run cfg sched2 n2 s' = (s2, none) →
        Ledger.Inv cfg s2 ∧
        (∀ id e0 e, evIn cfg.evs id = some e0 → evIn s2.evs id = some e →
          e.delivered - e0.delivered = e.batt.charge - e0.batt.charge ∧
          e.delivered - e0.delivered =
            ∑ τ ∈ range s2.core.iter,
              if occAt s2.occLog τ (stationIndex cfg e0.station) = some id
              then s2.rates.get (stationIndex cfg e0.station) τ * volt cfg (stationIndex cfg e0.station) / 1000
                    * (cfg.period / 60)
              else 0) ∧
        (∀ τ i, (τ < s2.core.iter → i < cfg.stations.length → occAt s2.occLog τ i = none → s2.rates.get i τ = 0) ∧
                (s2.core.iter ≤ τ → s2.rates.get i τ = 0)) ∧
        (0 ≤ s2.peak ∧
         (∀ τ < s2.core.iter, ∑ i ∈ range cfg.stations.length, s2.rates.get i τ ≤ s2.peak) ∧
         (s2.peak = 0 ∨ ∃ τ < s2.core.iter, s2.peak = ∑ i ∈ range cfg.stations.length, s2.rates.get i τ)) ∧
        ((cfg.evs.map (·.session)).Nodup →
          (s2.evs.map (·.delivered)).sum - (cfg.evs.map (·.delivered)).sum =
            ∑ τ ∈ range s2.core.iter,
              (∑ i ∈ range cfg.stations.length, volt cfg i * s2.rates.get i τ / 1000) * (cfg.period / 60)) := by
  intro s1
  obtain ⟨ctx, s', h1, h2, h3, hR⟩ := loaded_is_resumed hl cfg hv sched1 n1 he
  refine ⟨ctx, s', h1, h2, h3, ?_⟩
  intro sched2 n2 s2 hrun
  have hL : Ledger.Inv cfg s2 := run_ledger hn sched2 n2 s' s2 (resumed_ledger hn hR) hrun
  exact ⟨hL, fun id e0 e h0 h => ⟨hL.gain id e0 e h0 h, hL.session_single hn h0 h⟩,
    fun τ i => ⟨hL.vacant τ i, hL.future τ i⟩, hL.peak_spec, fun hid => hL.total hn hid⟩

/-- the instance the property names: the scheduler raises in period `k` (and is `sched` otherwise), the loaded
    simulator is given `sched` again -/
theorem ledger_invariant_resume_json_crash {sh : RegistrySim.Show K} {rd : RegistrySim.Read K}
    (hl : RegistrySim.Lawful sh rd) (cfg : Sim.Cfg K) (hn : StationsNodup cfg) (hv : Valid cfg.core)
    (sched : View K → Except EventCore.Err (Schedule K)) (k n1 n2 : Nat)
    (hfail : (Sim.run cfg (failAt k sched) n1 (Sim.init cfg)).2 = some .schedulerFailed) :
    let s1 := (Sim.run cfg (failAt k sched) n1 (Sim.init cfg)).1
    ∃ ctx s', dump (RegistrySim.encode sh cfg s1) RegistrySim.root = .ok ctx ∧ load ctx RegistrySim.root = .ok ctx ∧
      RegistrySim.decode rd cfg (RegistrySim.ambOf s1) ctx.get = some s' ∧
      ∀ s2, Sim.run cfg sched n2 s' = (s2, none) → Ledger.Inv cfg s2 := by
  intro s1
  obtain ⟨ctx, s', h1, h2, h3, h4⟩ := ledger_invariant_resume_json hl cfg hn hv (failAt k sched) n1
    (fun e he => by rw [hfail] at he; cases he; exact schedulerFailed_not_applyErr)
  exact ⟨ctx, s', h1, h2, h3, fun s2 hrun => (h4 sched n2 s2 hrun).1⟩

/-! ### `to_json` / `from_json` at ANY point of the life of a resumed simulation -/

theorem resumed_calls {cfg : Sim.Cfg K} {s : State K} (h : Resumed cfg s) : RegistrySim.Calls cfg s := by
  induction h with
  | init => exact RegistrySim.Calls.init
  | call sched n _ hrun _ ih =>
    have := RegistrySim.Calls.call sched n ih
    rw [hrun] at this
    exact this

/-- the round trip is the identity on EVERY state a simulator object can be in after any number of `run()` calls
    (each completed, out of fuel or aborted — by anything, `update_pilots` included) in a `Valid` scenario -/
theorem calls_json_roundtrip {sh : RegistrySim.Show K} {rd : RegistrySim.Read K}
    (hl : RegistrySim.Lawful sh rd) (cfg : Sim.Cfg K) (hv : Valid cfg.core) (s : State K)
    (h : RegistrySim.Calls cfg s) :
    ∃ ctx, dump (RegistrySim.encode sh cfg s) RegistrySim.root = .ok ctx ∧ load ctx RegistrySim.root = .ok ctx ∧
      RegistrySim.decode rd cfg (RegistrySim.ambOf s) ctx.get = some s := by
  obtain ⟨hwf, href⟩ := RegistrySim.calls_wf hv h
  have hac := RegistrySim.encode_acyclic sh cfg s
  have hcl := RegistrySim.encode_closed sh cfg s
  obtain ⟨ctx, hd, hs⟩ := dump_spec hac hcl
  refine ⟨ctx, hd, load_dump hac hd hs, ?_⟩
  apply RegistrySim.decode_of hl hwf ctx.get
  intro i hi
  have hr := RegistrySim.reach_all sh cfg s href i hi
  rw [hs.same i hr, RegistrySim.get_encode, if_pos (RegistrySim.reach_lt sh cfg s (RegistrySim.root_lt cfg s) hr)]

/-- the life of a simulator object that is run, aborted (not by the pilots/rates half), run again, AND written to JSON
    and loaded back at any point, any number of times: `json` is one `to_json` / `from_json` / decode step -/
inductive ResumedJ (sh : RegistrySim.Show K) (rd : RegistrySim.Read K) (cfg : Sim.Cfg K) : State K → Prop
  | init : ResumedJ sh rd cfg (Sim.init cfg)
  | call (sched : View K → Except EventCore.Err (Schedule K)) (n : Nat) {s s' : State K} {err : Option EventCore.Err} :
      ResumedJ sh rd cfg s → Sim.run cfg sched n s = (s', err) → (∀ e, err = some e → ¬ ApplyErr e) →
      ResumedJ sh rd cfg s'
  | json {s s' : State K} {ctx ctx' : Store} :
      ResumedJ sh rd cfg s → dump (RegistrySim.encode sh cfg s) RegistrySim.root = .ok ctx →
      load ctx RegistrySim.root = .ok ctx' →
      RegistrySim.decode rd cfg (RegistrySim.ambOf s) ctx'.get = some s' → ResumedJ sh rd cfg s'

/-- JSON STEPS ADD NO NEW STATES: every state of such a life is a `Resumed` state (a life without JSON steps) — each
    loaded simulator IS the simulator that was written.  Hence every theorem about `Resumed` states
    (`C02.ledger_invariant_resumed`, `session_energy_eq_sum_resumed`, `session_energy_interval_resumed`, `peak_eq_max_resumed`,
    `total_energy_eq_integral_resumed`, …) is a theorem about simulations resumed through JSON. -/
theorem resumedJ_resumed {sh : RegistrySim.Show K} {rd : RegistrySim.Read K} (hl : RegistrySim.Lawful sh rd)
    {cfg : Sim.Cfg K} (hv : Valid cfg.core) {s : State K} (h : ResumedJ sh rd cfg s) : Resumed cfg s := by
  induction h with
  | init => exact Resumed.init
  | call sched n _ hrun he ih => exact Resumed.call sched n ih hrun he
  | json _ hd hld hdec ih =>
    obtain ⟨ctx0, h1, h2, h3⟩ := calls_json_roundtrip hl cfg hv _ (resumed_calls ih)
    rw [h1] at hd
    cases hd
    rw [h2] at hld
    cases hld
    rw [h3] at hdec
    cases hdec
    exact ih

/-- … and the JSON step can always be taken: the simulator can be written, loaded and decoded at every point -/
theorem resumedJ_json_exists {sh : RegistrySim.Show K} {rd : RegistrySim.Read K} (hl : RegistrySim.Lawful sh rd)
    {cfg : Sim.Cfg K} (hv : Valid cfg.core) {s : State K} (h : ResumedJ sh rd cfg s) :
    ∃ ctx s', dump (RegistrySim.encode sh cfg s) RegistrySim.root = .ok ctx ∧ load ctx RegistrySim.root = .ok ctx ∧
      RegistrySim.decode rd cfg (RegistrySim.ambOf s) ctx.get = some s' ∧ ResumedJ sh rd cfg s' := by
  obtain ⟨ctx, h1, h2, h3⟩ := calls_json_roundtrip hl cfg hv s (resumed_calls (resumedJ_resumed hl hv h))
  exact ⟨ctx, s, h1, h2, h3, ResumedJ.json h h1 h2 h3⟩

/-- THE LEDGER OF A SIMULATION WITH ANY NUMBER OF INTERRUPTIONS, EACH RESUMED IN PLACE OR THROUGH JSON: the invariant
    and every clause of C02 (as in `ledger_invariant_resume_json`) at every state of its life -/
theorem ledger_invariant_resumed_json {sh : RegistrySim.Show K} {rd : RegistrySim.Read K}
    (hl : RegistrySim.Lawful sh rd) (cfg : Sim.Cfg K) (hn : StationsNodup cfg) (hv : Valid cfg.core)
    (s : State K) (h : ResumedJ sh rd cfg s) :
    Ledger.Inv cfg s ∧
    (∀ id e0 e, evIn cfg.evs id = some e0 → evIn s.evs id = some e →
      e.delivered - e0.delivered = e.batt.charge - e0.batt.charge ∧
      e.delivered - e0.delivered =
        ∑ τ ∈ range s.core.iter,
          if occAt s.occLog τ (stationIndex cfg e0.station) = some id
          then s.rates.get (stationIndex cfg e0.station) τ * volt cfg (stationIndex cfg e0.station) / 1000
                * (cfg.period / 60)
          else 0) ∧
    (∀ τ i, (τ < s.core.iter → i < cfg.stations.length → occAt s.occLog τ i = none → s.rates.get i τ = 0) ∧
            (s.core.iter ≤ τ → s.rates.get i τ = 0)) ∧
    (0 ≤ s.peak ∧
     (∀ τ < s.core.iter, ∑ i ∈ range cfg.stations.length, s.rates.get i τ ≤ s.peak) ∧
     (s.peak = 0 ∨ ∃ τ < s.core.iter, s.peak = ∑ i ∈ range cfg.stations.length, s.rates.get i τ)) ∧
    ((cfg.evs.map (·.session)).Nodup →
      (s.evs.map (·.delivered)).sum - (cfg.evs.map (·.delivered)).sum =
        ∑ τ ∈ range s.core.iter,
          (∑ i ∈ range cfg.stations.length, volt cfg i * s.rates.get i τ / 1000) * (cfg.period / 60)) := by
  have hL : Ledger.Inv cfg s := resumed_ledger hn (resumedJ_resumed hl hv h)
  exact ⟨hL, fun id e0 e h0 h => ⟨hL.gain id e0 e h0 h, hL.session_single hn h0 h⟩,
    fun τ i => ⟨hL.vacant τ i, hL.future τ i⟩, hL.peak_spec, fun hid => hL.total hn hid⟩

/-! ### non-vacuity: stations registered as "WEST-2" (240 V) before "EAST-1" (120 V) — not their sorted order —,
    back-to-back reuse of WEST-2, a crash in the event period 2 -/
section Examples
local instance : HasExp ℚ := ⟨fun x => x⟩

def exCfg : Sim.Cfg ℚ :=
  { stations := [⟨"WEST-2", .cont 0 (some 32), 240⟩, ⟨"EAST-1", .cont 0 (some 32), 120⟩],
    evs := [{ session := "x", station := "WEST-2", arrival := 0, departure := 2, estDeparture := 2, requested := 3,
              delivered := 0, rate := 0, batt := ⟨40, 5, 5, 6, 0, false, 0, 0, .continuous⟩ },
            { session := "y", station := "WEST-2", arrival := 2, departure := 3, estDeparture := 3, requested := 9,
              delivered := 0, rate := 0, batt := ⟨10, 8, 8, 6, 0, false, 0, 0, .continuous⟩ },
            { session := "z", station := "EAST-1", arrival := 1, departure := 3, estDeparture := 3, requested := 5,
              delivered := 0, rate := 0, batt := ⟨20, 2, 2, 6, 0, false, 0, 0, .continuous⟩ }],
    recomputes := [], maxRecompute := some 1, period := 60, atolCont := 1 / 1000, atolDeadband := 1 / 1000,
    atolFinite := 1 / 1000, fullEps := 1 / 1000, noise := [] }

def exSched : View ℚ → Except EventCore.Err (Schedule ℚ) := fun _ => .ok [("WEST-2", [25]), ("EAST-1", [10])]

theorem exCfg_valid : Valid exCfg.core := by
  constructor <;> simp [exCfg, Sim.Cfg.core, sessionOf]

example : StationsNodup exCfg := by
  show (exCfg.stations.map (·.id)).Nodup
  decide +kernel

/-- the crash fires in period 2 with y already plugged in; 25 A at 240 V offers 6 kW = the batteries' maximum, 10 A at
    120 V is 1.2 kW: the rows are in REGISTRATION order (WEST-2 first), and the energies 12, 2, 2.4 kWh are the row
    sums weighted with 240 V resp. 120 V — with the voltages swapped they would be 6, 1, 4.8 -/
example :
    (Sim.run exCfg (failAt 2 exSched) 8 (Sim.init exCfg)).2 = some .schedulerFailed ∧
    (Sim.run exCfg (failAt 2 exSched) 8 (Sim.init exCfg)).1.core.iter = 2 ∧
    (Sim.run exCfg exSched 8 (Sim.run exCfg (failAt 2 exSched) 8 (Sim.init exCfg)).1).2 = none ∧
    (Sim.run exCfg exSched 8 (Sim.run exCfg (failAt 2 exSched) 8 (Sim.init exCfg)).1).1.rates.rows
      = [[25, 25, 25 / 3, 0], [0, 10, 10, 0]] ∧
    (Sim.run exCfg exSched 8 (Sim.run exCfg (failAt 2 exSched) 8 (Sim.init exCfg)).1).1.evs.map (·.delivered)
      = [12, 2, 12 / 5] ∧
    (Sim.run exCfg exSched 8 (Sim.run exCfg (failAt 2 exSched) 8 (Sim.init exCfg)).1).1.peak = 35 := by
  decide +kernel

/-- a lawful scalar codec exists over ℚ, so the whole chain applies to that crash state: written, loaded, decoded,
    resumed, ledger invariant at the end -/
example : ∃ ctx s', dump (RegistrySim.encode RegistrySim.exShow exCfg (Sim.run exCfg (failAt 2 exSched) 8 (Sim.init exCfg)).1)
      RegistrySim.root = .ok ctx ∧ load ctx RegistrySim.root = .ok ctx ∧
    RegistrySim.decode RegistrySim.exRead exCfg (RegistrySim.ambOf (Sim.run exCfg (failAt 2 exSched) 8 (Sim.init exCfg)).1)
      ctx.get = some s' ∧
    ∀ s2, Sim.run exCfg exSched 8 s' = (s2, none) → Ledger.Inv exCfg s2 :=
  ledger_invariant_resume_json_crash RegistrySim.exLawful exCfg (by show (exCfg.stations.map (·.id)).Nodup; decide +kernel)
    exCfg_valid exSched 2 8 8 (by decide +kernel)

/-- a life with two interruptions — period 1, resumed through JSON; period 2, resumed in place — as a `ResumedJ` state:
    the JSON step exists (`resumedJ_json_exists`) -/
example : ∃ s', ResumedJ RegistrySim.exShow RegistrySim.exRead exCfg s' ∧
    ∀ s2 err, Sim.run exCfg (failAt 2 exSched) 8 s' = (s2, err) → (∀ e, err = some e → ¬ ApplyErr e) →
      ∀ s3, Sim.run exCfg exSched 8 s2 = (s3, none) → Ledger.Inv exCfg s3 := by
  have h1 : ResumedJ RegistrySim.exShow RegistrySim.exRead exCfg (Sim.run exCfg (failAt 1 exSched) 8 (Sim.init exCfg)).1 :=
    ResumedJ.call (failAt 1 exSched) 8 (err := (Sim.run exCfg (failAt 1 exSched) 8 (Sim.init exCfg)).2) ResumedJ.init rfl
      (fun e he => by
        have : (Sim.run exCfg (failAt 1 exSched) 8 (Sim.init exCfg)).2 = some .schedulerFailed := by decide +kernel
        rw [this] at he; cases he; exact schedulerFailed_not_applyErr)
  obtain ⟨ctx, s', _, _, _, hJ⟩ := resumedJ_json_exists RegistrySim.exLawful exCfg_valid h1
  refine ⟨s', hJ, fun s2 err h2 he2 s3 h3 => ?_⟩
  exact (ledger_invariant_resumed_json RegistrySim.exLawful exCfg (by show (exCfg.stations.map (·.id)).Nodup; decide +kernel)
    exCfg_valid s3 (ResumedJ.call exSched 8 (ResumedJ.call (failAt 2 exSched) 8 hJ h2 he2) h3 (fun e he => by cases he))).1

end Examples

end Acn.C02Json
