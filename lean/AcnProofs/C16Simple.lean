/-
  C16, part 2 — `simple_acn` (acnsim/network/sites/auto_acn.py): n single-phase stations of one EVSE type
  behind ONE aggregate constraint never admit more power than `aggregate_cap`.

  Property theorems only (namespace `Acn.C16`, continuing `AcnProofs/C16.lean`; a file of its own so that a
  change of auto_acn.py rebuilds this file and not the three-site proofs).  Carrier: any linear ordered field.
  The dependence of the limit on (`aggregate_cap`, `voltage`) is fitted on every run to the networks the factory
  of the working tree BUILDS (`Gen/SimpleAcn.lean`: a canonical monomial, the same for every spelling of the
  formula); `simple_formula` is the obligation on it, `simple_instances` the obligation on the executed calls.
  Exact arithmetic; the doubles are tied by the correspondence (partial).
-/
import AcnProofs.Lemmas.SimpleAcn

namespace Acn.C16
open Acn Acn.Feas Acn.SimpleAcn Acn.Gen.SimpleAcn Acn.SimpleAcnLemmas

/-! ## T1 obligations on the regenerated data -/

section
variable {K : Type} [Field K] [LinearOrder K] [IsStrictOrderedRing K]

/-- **The regenerated limit of `simple_acn`.**  The monomial fitted to the built networks is
    `1000 · aggregate_cap / voltage`, so the limit of the aggregate constraint is `(aggregate_cap / voltage) · 1000`
    [A] for EVERY capacity and voltage; with `voltage = 0` Python's division raises. -/
theorem simple_formula (cap voltage : K) :
    limitMono = some { n := 1000, d := 1, cap := .times, voltage := .over } ∧
    limitOf cap voltage = if voltage = 0 then .error .zeroDivision else .ok (cap / voltage * 1000) := by
  have h : limitMono = some { n := 1000, d := 1, cap := .times, voltage := .over } := by decide
  refine ⟨h, ?_⟩
  by_cases hv : voltage = 0
  · simp [limitOf, h, evalMono, applyDep, bind, Except.bind, isZero_iff, hv, pure, Except.pure]
  · simp [limitOf, h, evalMono, applyDep, bind, Except.bind, isZero_iff, litK_eq, hv, pure, Except.pure]

end

/-- the documented defaults: 208 V, 150 kW, BASIC EVSEs -/
theorem simple_defaults_documented :
    defaultVoltage = some (208, 1) ∧ defaultCap = some (150, 1) ∧ defaultEvseType = "BASIC" := by
  decide +kernel

/-- every executed call (1 / 2 / 3 / 4 / 5 / 54 stations; the three EVSE types; 120 / 208 / 240 / 277 / 480 V;
    integer and fractional capacities; each argument also omitted): distinct stations in the order asked for,
    all at 0° and the requested voltage, one constraint with coefficient 1 on every station whose limit is the
    exact value of the fitted monomial (2⁻⁴⁰ relative for the double rounding), EVSEs of the requested type
    (`SimpleAcn.instOk`). -/
theorem simple_instances : insts.length = 8 ∧ insts.all instOk = true := by
  decide +kernel

/-! ## the model network -/

section
variable {K : Type} [Field K] [LinearOrder K] [IsStrictOrderedRing K]

/-- `simple_acn(ids, voltage, cap)` for any ids and any `voltage ≠ 0`: the stations are `ids`, every one at
    the requested voltage and angle 0, and there is exactly one constraint: coefficient 1 on every station,
    limit `cap / voltage · 1000` [A]. -/
theorem simple_acn_structure (ids : List String) (voltage cap : K) (hv : voltage ≠ 0) :
    simpleAcn ids voltage cap = .ok
      { stations := ids, voltages := List.replicate ids.length voltage, angles := List.replicate ids.length 0,
        M := [List.replicate ids.length 1], lims := [cap / voltage * 1000], names := [constraintName] } := by
  obtain ⟨_, h⟩ := simple_formula cap voltage
  simp only [simpleAcn, h, hv, if_false, bind, Except.bind, pure, Except.pure, map_const_eq]

/-- with `voltage = 0` the factory raises `ZeroDivisionError` (after the registrations) -/
theorem simple_acn_zero_voltage (ids : List String) (cap : K) :
    simpleAcn ids 0 cap = .error .zeroDivision := by
  obtain ⟨_, h⟩ := simple_formula cap (0 : K)
  simp only [simpleAcn, h, if_true, bind, Except.bind]

example : simpleAcn ["a", "b", "c"] (208 : ℚ) 150 = .ok
    { stations := ["a", "b", "c"], voltages := [208, 208, 208], angles := [0, 0, 0], M := [[1, 1, 1]],
      lims := [9375 / 13], names := ["Aggregate Current"] } := by
  rw [simple_acn_structure _ _ _ (by norm_num)]; norm_num [constraintName, List.replicate]

/-- **Feasibility of a `simple_acn` network, exactly.**  For any station list, voltage ≠ 0, capacity,
    tolerances and schedule with one row per station: `is_feasible` answers, and it accepts **iff** in every
    period `0 ≤ b` and `|Σ_j S_j(t)| ≤ b`, `b = L + max(vt, rt·L)`, `L = cap / voltage · 1000`. -/
theorem simple_acn_feasible_iff (ids : List String) (voltage cap vt rt : K) (hv : voltage ≠ 0)
    (S : List (List K)) (hS : S.length = ids.length) :
    ∃ b, simpleFeasible ids voltage cap vt rt S = .ok b ∧
      (b = true ↔ ∀ t, t < periods S →
        0 ≤ cap / voltage * 1000 + max vt (rt * (cap / voltage * 1000)) ∧
        |total S t| ≤ cap / voltage * 1000 + max vt (rt * (cap / voltage * 1000))) := by
  refine ⟨netFeasible [List.replicate ids.length 1] [cap / voltage * 1000] (List.replicate ids.length 1)
    (List.replicate ids.length 0) vt rt S, ?_, ?_⟩
  · simp only [simpleFeasible, simple_acn_structure ids voltage cap hv, bind, Except.bind, netFeasible0]
    rw [if_pos (by simp [isZero_zero])]
    simp only [map_const_eq, List.length_replicate]
  · simp only [total_eq]
    exact netFeasible_ones_iff ids.length _ vt rt S hS

/-- **C16 for `simple_acn`.**  Any number of stations, any voltage > 0, any capacity and tolerances: a
    schedule that `is_feasible` accepts draws, in every period, at the EVSE voltage at most
        voltage · Σ_j S_j(t) / 1000  ≤  aggregate_cap + voltage · max(vt, rt·L) / 1000      [kW]
    (`L = cap / voltage · 1000`; the second term is the network's declared tolerance `max(1e-5, 1e-7·L)` A
    expressed in kW — 2.1e-6 kW at 208 V for the defaults).  No sign condition on the schedule. -/
theorem simple_acn_power_le_cap (ids : List String) (voltage cap vt rt : K) (hv : 0 < voltage)
    (S : List (List K)) (hS : S.length = ids.length)
    (hfeas : simpleFeasible ids voltage cap vt rt S = .ok true) (t : Nat) (ht : t < periods S) :
    powerKW voltage S t ≤ cap + voltage * max vt (rt * (cap / voltage * 1000)) / 1000 := by
  obtain ⟨b, hb, hiff⟩ := simple_acn_feasible_iff ids voltage cap vt rt hv.ne' S hS
  rw [hb] at hfeas
  have hb' : b = true := by simpa using hfeas
  obtain ⟨_, h⟩ := hiff.mp hb' t ht
  have h1 : total S t ≤ cap / voltage * 1000 + max vt (rt * (cap / voltage * 1000)) := le_trans (le_abs_self _) h
  have h2 := mul_le_mul_of_nonneg_left h1 hv.le
  have e : voltage * (cap / voltage * 1000 + max vt (rt * (cap / voltage * 1000)))
      = cap * 1000 + voltage * max vt (rt * (cap / voltage * 1000)) := by
    field_simp
  unfold powerKW
  rw [e] at h2
  have : ((1000 : Nat) : K) = 1000 := by norm_num
  rw [this, div_le_iff₀ (by norm_num : (0 : K) < 1000)]
  calc voltage * total S t ≤ cap * 1000 + voltage * max vt (rt * (cap / voltage * 1000)) := h2
    _ = (cap + voltage * max vt (rt * (cap / voltage * 1000)) / 1000) * 1000 := by ring

/-- the same with the tolerance spelled out, for non-negative capacity and tolerances:
    `≤ cap · (1 + rt) + voltage · vt / 1000` -/
theorem simple_acn_power_le_cap_explicit (ids : List String) (voltage cap vt rt : K) (hv : 0 < voltage)
    (hc : 0 ≤ cap) (hvt : 0 ≤ vt) (hrt : 0 ≤ rt)
    (S : List (List K)) (hS : S.length = ids.length)
    (hfeas : simpleFeasible ids voltage cap vt rt S = .ok true) (t : Nat) (ht : t < periods S) :
    powerKW voltage S t ≤ cap * (1 + rt) + voltage * vt / 1000 := by
  refine le_trans (simple_acn_power_le_cap ids voltage cap vt rt hv S hS hfeas t ht) ?_
  have hL : 0 ≤ rt * (cap / voltage * 1000) := by positivity
  have hmax : max vt (rt * (cap / voltage * 1000)) ≤ vt + rt * (cap / voltage * 1000) :=
    max_le (by linarith) (by linarith)
  have h2 := mul_le_mul_of_nonneg_left hmax hv.le
  have e : voltage * (vt + rt * (cap / voltage * 1000)) = voltage * vt + rt * cap * 1000 := by field_simp
  rw [e] at h2
  have : voltage * max vt (rt * (cap / voltage * 1000)) / 1000 ≤ (voltage * vt + rt * cap * 1000) / 1000 :=
    div_le_div_of_nonneg_right h2 (by norm_num)
  calc cap + voltage * max vt (rt * (cap / voltage * 1000)) / 1000
      ≤ cap + (voltage * vt + rt * cap * 1000) / 1000 := by linarith
    _ = cap * (1 + rt) + voltage * vt / 1000 := by ring

/-- **Converse (tightness).**  For voltage > 0, capacity ≥ 0 and a non-negative tolerance term, EVERY schedule
    whose periods each total exactly `L = cap / voltage · 1000` A is accepted, and it draws exactly
    `aggregate_cap` kW — the network does not stop short of the rating, and the bound of
    `simple_acn_power_le_cap` cannot be lowered below `cap`. -/
theorem simple_acn_tight (ids : List String) (voltage cap vt rt : K) (hv : 0 < voltage) (hc : 0 ≤ cap)
    (htol : 0 ≤ max vt (rt * (cap / voltage * 1000)))
    (S : List (List K)) (hS : S.length = ids.length)
    (hsum : ∀ t, t < periods S → total S t = cap / voltage * 1000) :
    simpleFeasible ids voltage cap vt rt S = .ok true ∧
    ∀ t, t < periods S → powerKW voltage S t = cap := by
  obtain ⟨b, hb, hiff⟩ := simple_acn_feasible_iff ids voltage cap vt rt hv.ne' S hS
  have hL : 0 ≤ cap / voltage * 1000 := by positivity
  constructor
  · rw [hb]
    congr 1
    rw [hiff]
    intro t ht
    rw [hsum t ht, abs_of_nonneg hL]
    exact ⟨by linarith, by linarith⟩
  · intro t ht
    unfold powerKW
    rw [hsum t ht]
    have : ((1000 : Nat) : K) = 1000 := by norm_num
    rw [this]
    field_simp

/-- non-vacuity of `simple_acn_tight` and of `simple_acn_power_le_cap`: three stations at 208 V behind 150 kW,
    two periods, each totalling 9375/13 A (= 150 kW): accepted with the default tolerances -/
example : simpleFeasible ["a", "b", "c"] (208 : ℚ) 150 (1 / 100000) (1 / 10000000)
    [[9375 / 13, 0], [0, 9000 / 13], [0, 375 / 13]] = .ok true ∧
    total ([[9375 / 13, 0], [0, 9000 / 13], [0, 375 / 13]] : List (List ℚ)) 1 = 150 / 208 * 1000 := by
  decide +kernel

/-- **Above the bound is rejected.**  A schedule one of whose periods totals more than
    `L + max(vt, rt·L)` is refused (so is one whose total is below `−(L + max …)`). -/
theorem simple_acn_above_rejected (ids : List String) (voltage cap vt rt : K) (hv : voltage ≠ 0)
    (S : List (List K)) (hS : S.length = ids.length) (t : Nat) (ht : t < periods S)
    (habove : cap / voltage * 1000 + max vt (rt * (cap / voltage * 1000)) < |total S t|) :
    simpleFeasible ids voltage cap vt rt S = .ok false := by
  obtain ⟨b, hb, hiff⟩ := simple_acn_feasible_iff ids voltage cap vt rt hv S hS
  rw [hb]
  congr 1
  rw [Bool.eq_false_iff]
  intro h
  exact absurd (hiff.mp h t ht).2 (not_le.mpr habove)

example : simpleFeasible ["a", "b", "c"] (208 : ℚ) 150 (1 / 100000) (1 / 10000000)
    [[9375 / 13], [1 / 1000], [0]] = .ok false := by decide +kernel

end
end Acn.C16
