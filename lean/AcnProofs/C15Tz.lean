/-
  C15 for zone-aware datetimes of ANY tzinfo implementation (PEP 495 zones with `fold`,
  fixed offsets, pytz, mixtures) and for several conversion batches in one process.
  Property theorems only; helpers in `Lemmas/SessionsTz.lean`.  Model: `AcnModel/SessionsTz.lean`
  — a datetime is a `Reading` (wall-clock seconds, UTC offset reported by its tzinfo for this
  reading); the offset function of the zone is a PARAMETER, so every theorem holds for every
  zone rule.  Carrier: any ordered field with a floor (`ℚ`, `ℝ`).
-/
import AcnModel.SessionsTz
import AcnProofs.Lemmas.SessionsTz
import AcnProofs.C15

set_option linter.unusedSectionVars false

namespace Acn.C15
open Acn Acn.Sessions Acn.SessionsL Acn.SessionsTz Acn.SessionsTzL Acn.Evse

section tz
variable {K : Type} [Field K] [LinearOrder K] [IsStrictOrderedRing K] [FloorRing K]

/-! ### the index is a function of the instant -/

/-- Two wall-clock readings of the same instant — in any two zones, under any two tzinfo
    implementations, with any `fold` — get the same period index (or the same error). -/
theorem index_depends_only_on_instant (r₁ r₂ : Reading K) (period : K)
    (h : r₁.instant = r₂.instant) : readingIndex r₁ period = readingIndex r₂ period := by
  unfold readingIndex; rw [h]

/-- `int(dt.timestamp() / (60·period))` on a reading at or after the epoch: the floor of
    `(wall − utcoffset) / (60·period)`. -/
theorem reading_index_spec (r : Reading K) (period : K) (hp : 0 < period) (h0 : 0 ≤ r.instant) :
    readingIndex r period = .ok ⌊(r.wall - r.off) / (60 * period)⌋ := by
  rw [readingIndex_pos hp, pyTrunc_nonneg]
  exact div_nonneg h0 (by positivity)

/-- Whole batch: `get_evs` called with readings of the same instants (start, connection and
    disconnection times re-expressed in other zones / by other tzinfo classes / with the other
    `fold`) and the same energies and ids returns the same sessions, or fails the same way. -/
theorem sessions_depend_only_on_instants (start start' : Reading K) (docs docs' : List (WDoc K))
    (period V mp : K) (maxLen : Option Int) (bp : BattParams K) (ff : Bool)
    (hs : start.instant = start'.instant)
    (hd : List.Forall₂ (fun d d' => d.connect.instant = d'.connect.instant ∧
      d.disconnect.instant = d'.disconnect.instant ∧ d.kWh = d'.kWh ∧ d.session = d'.session ∧
      d.space = d'.space) docs docs') :
    getEvsW start docs period V mp maxLen bp ff = getEvsW start' docs' period V mp maxLen bp ff := by
  unfold getEvsW
  rw [hs, map_toDoc_congr hd]

/-- `arrival_departure_spec` in terms of readings: every session's arrival / departure is the floor
    period index of `wall − utcoffset` of its connection / disconnection reading minus that of the
    start reading (departure after the `max_len` cap), one session per document, in order. -/
theorem arrival_departure_spec_tz (start : Reading K) (docs : List (WDoc K)) (period V mp : K)
    (maxLen : Option Int) (bp : BattParams K) (ff : Bool) (evs : List (Ev K))
    (hp : 0 < period) (hs : 0 ≤ start.instant)
    (h : getEvsW start docs period V mp maxLen bp ff = .ok evs) :
    List.Forall₂ (fun d e =>
      e.session = d.session ∧ e.station = d.space ∧
      (0 ≤ d.connect.instant → e.arrival =
        ⌊(d.connect.wall - d.connect.off) / (60 * period)⌋ - ⌊(start.wall - start.off) / (60 * period)⌋) ∧
      (0 ≤ d.disconnect.instant → e.departure = capDeparture e.arrival
        (⌊(d.disconnect.wall - d.disconnect.off) / (60 * period)⌋ - ⌊(start.wall - start.off) / (60 * period)⌋)
        maxLen))
      docs evs := by
  unfold getEvsW at h
  obtain ⟨hf, -, -⟩ := arrival_departure_spec start.instant (docs.map WDoc.toDoc) period V mp maxLen bp ff evs hp hs h
  rw [List.forall₂_map_left_iff] at hf
  refine hf.imp ?_
  rintro d e ⟨h1, h2, -, h4, h5⟩
  exact ⟨h1, h2, h4, h5⟩

/-! ### readings that are whole periods apart; the repeated and the skipped hour -/

/-- Two readings whose instants are `k` whole periods apart (both at or after the epoch) get
    indices exactly `k` apart — whatever their wall-clock fields say. -/
theorem index_shift_whole_periods (r₁ r₂ : Reading K) (period : K) (k : Int) (hp : 0 < period)
    (h1 : 0 ≤ r₁.instant) (h2 : 0 ≤ r₂.instant)
    (h : r₂.instant = r₁.instant + (k : K) * (60 * period)) :
    ∃ i, readingIndex r₁ period = .ok i ∧ readingIndex r₂ period = .ok (i + k) := by
  have h60 : (0 : K) < 60 * period := by positivity
  refine ⟨pyTrunc (r₁.instant / (60 * period)), ?_, ?_⟩
  · unfold readingIndex; exact periodIndex_pos hp
  · unfold readingIndex
    rw [periodIndex_pos hp, h]
    have e : (r₁.instant + (k : K) * (60 * period)) / (60 * period) = r₁.instant / (60 * period) + (k : K) := by
      field_simp
    rw [e, pyTrunc_add_int k (div_nonneg h1 h60.le)]
    rw [← e, ← h]; exact div_nonneg h2 h60.le

/-- **The repeated hour** (and, with the roles of the two offsets exchanged, the skipped hour).
    Two readings with the SAME wall-clock fields whose offsets differ by `Δ = off₁ − off₂ ≥ 0`
    (`fold=0` reads the offset before the transition, `fold=1` the one after; at the end of DST
    `Δ` is the DST saving) denote instants `Δ` apart, and their indices differ by
    `⌊Δ/(60·period)⌋` or one more; by exactly `Δ/(60·period)` when that is a whole number. -/
theorem repeated_hour_index (r₁ r₂ : Reading K) (period : K) (hp : 0 < period)
    (hw : r₁.wall = r₂.wall) (hΔ : r₂.off ≤ r₁.off) (h1 : 0 ≤ r₁.instant) :
    ∃ i₁ i₂, readingIndex r₁ period = .ok i₁ ∧ readingIndex r₂ period = .ok i₂ ∧
      r₂.instant = r₁.instant + (r₁.off - r₂.off) ∧
      i₁ + ⌊(r₁.off - r₂.off) / (60 * period)⌋ ≤ i₂ ∧
      i₂ ≤ i₁ + ⌊(r₁.off - r₂.off) / (60 * period)⌋ + 1 ∧
      (∀ k : Int, r₁.off - r₂.off = (k : K) * (60 * period) → i₂ = i₁ + k) := by
  have h60 : (0 : K) < 60 * period := by positivity
  have hinst : r₂.instant = r₁.instant + (r₁.off - r₂.off) := by
    unfold Reading.instant; rw [hw]; ring
  have hd0 : (0 : K) ≤ (r₁.off - r₂.off) / (60 * period) := div_nonneg (by linarith) h60.le
  have hx0 : (0 : K) ≤ r₁.instant / (60 * period) := div_nonneg h1 h60.le
  refine ⟨pyTrunc (r₁.instant / (60 * period)), pyTrunc (r₂.instant / (60 * period)), ?_, ?_, hinst, ?_, ?_, ?_⟩
  · unfold readingIndex; exact periodIndex_pos hp
  · unfold readingIndex; exact periodIndex_pos hp
  · have := (pyTrunc_add_bounds hx0 hd0).1
    rw [pyTrunc_nonneg hd0] at this
    rw [hinst, add_div]; exact this
  · have := (pyTrunc_add_bounds hx0 hd0).2
    rw [pyTrunc_nonneg hd0] at this
    rw [hinst, add_div]; exact this
  · intro k hk
    rw [hinst, hk]
    have e : (r₁.instant + (k : K) * (60 * period)) / (60 * period) = r₁.instant / (60 * period) + (k : K) := by
      field_simp
    rw [e]
    apply pyTrunc_add_int k hx0
    have : (0 : K) ≤ (k : K) * (60 * period) := by rw [← hk]; linarith
    have hk0 : (0 : K) ≤ (k : K) := by
      by_contra hneg
      have := mul_neg_of_neg_of_pos (not_le.mp hneg) h60
      linarith
    linarith

/-- Readings of the repeated hour that are at least one period apart are told apart: equal wall
    fields (so equal as dict keys when they share the tzinfo object) but different indices. -/
theorem repeated_hour_readings_differ (r₁ r₂ : Reading K) (period : K) (i₁ i₂ : Int) (hp : 0 < period)
    (hw : r₁.wall = r₂.wall) (hΔ : r₂.off + 60 * period ≤ r₁.off) (h1 : 0 ≤ r₁.instant)
    (e1 : readingIndex r₁ period = .ok i₁) (e2 : readingIndex r₂ period = .ok i₂) : i₁ < i₂ := by
  have h60 : (0 : K) < 60 * period := by positivity
  obtain ⟨j₁, j₂, f1, f2, -, hlo, -, -⟩ := repeated_hour_index r₁ r₂ period hp hw (by linarith) h1
  rw [e1] at f1; rw [e2] at f2
  injection f1 with f1; injection f2 with f2
  subst f1; subst f2
  have : (1 : Int) ≤ ⌊(r₁.off - r₂.off) / (60 * period)⌋ := by
    rw [Int.le_floor, le_div_iff₀ h60]; push_cast; linarith
  omega

/-- A session that connects and disconnects at the same wall-clock reading, once before and once
    after the end of DST (connect 01:30 `fold=0`, disconnect 01:30 `fold=1`): when the saving is
    `k` whole periods its stay is `k` periods, or `max_len` if that is smaller — never 0 unless
    `max_len = 0`. -/
theorem fold_session_stay (d : WDoc K) (offset : Int) (period V mp : K) (maxLen : Option Int)
    (bp : BattParams K) (ff : Bool) (e : Ev K) (k : Int) (hp : 0 < period)
    (hw : d.connect.wall = d.disconnect.wall) (h1 : 0 ≤ d.connect.instant) (hk0 : 0 ≤ k)
    (hk : d.connect.off - d.disconnect.off = (k : K) * (60 * period))
    (h : convertDoc d.toDoc offset period V mp maxLen bp ff = .ok e) :
    e.departure - e.arrival = (match maxLen with | some L => if L < k then L else k | none => k) := by
  have h60 : (0 : K) < 60 * period := by positivity
  obtain ⟨ha, hd, -⟩ := convertDoc_ok hp h
  have hΔ : d.disconnect.off ≤ d.connect.off := by
    have : (0 : K) ≤ (k : K) * (60 * period) := mul_nonneg (by exact_mod_cast hk0) h60.le
    linarith
  obtain ⟨i₁, i₂, f1, f2, -, -, -, hex⟩ := repeated_hour_index d.connect d.disconnect period hp hw hΔ h1
  have g1 : pyTrunc (d.toDoc.connect / (60 * period)) = i₁ := by
    have := f1; unfold readingIndex at this; rw [periodIndex_pos hp] at this
    injection this
  have g2 : pyTrunc (d.toDoc.disconnect / (60 * period)) = i₂ := by
    have := f2; unfold readingIndex at this; rw [periodIndex_pos hp] at this
    injection this
  rw [g1] at ha; rw [g2] at hd
  have hi := hex k hk
  rw [hd, ha, hi]
  cases maxLen with
  | none => simp only [capDeparture]; omega
  | some L => simp only [capDeparture]; split <;> split <;> omega

/-- Order is preserved with respect to INSTANTS: a document that disconnects at or after the
    instant it connects gets `arrival ≤ departure`, even when its wall-clock fields run backwards
    (connect 01:50 PDT, disconnect 01:10 PST) — `order_preserving` through `toDoc`. -/
theorem order_preserving_instants (d : WDoc K) (offset : Int) (period V mp : K) (maxLen : Option Int)
    (bp : BattParams K) (ff : Bool) (e : Ev K) (hp : 0 < period)
    (hL : ∀ L, maxLen = some L → 0 ≤ L) (hcd : d.connect.instant ≤ d.disconnect.instant)
    (h : convertDoc d.toDoc offset period V mp maxLen bp ff = .ok e) : e.arrival ≤ e.departure :=
  order_preserving d.toDoc offset period V mp maxLen bp ff e hp hL hcd h

/-! non-vacuity: America/Los_Angeles, 2019-11-03 (DST ends 09:00 UTC), 5-minute periods.
    Wall 01:30 = 1572744600 s on the calendar; offsets −7 h (PDT, `fold=0`) and −8 h (PST, `fold=1`). -/

def rPDT : Reading ℚ := { wall := 1572744600, off := -25200 }
def rPST : Reading ℚ := { wall := 1572744600, off := -28800 }
/-- the same instant as `rPDT`, read in UTC by a fixed-offset zone -/
def rUTC : Reading ℚ := { wall := 1572769800, off := 0 }
/-- 01:50 PDT and 01:10 PST: the wall clock runs backwards, the instants forwards -/
def rLate : Reading ℚ := { wall := 1572745800, off := -25200 }
def rEarly : Reading ℚ := { wall := 1572743400, off := -28800 }

example : readingIndex rPDT 5 = readingIndex rUTC 5 :=
  index_depends_only_on_instant _ _ _ (by norm_num [Reading.instant, rPDT, rUTC])

example : ∃ i, readingIndex rPDT 5 = .ok i ∧ readingIndex rPST 5 = .ok (i + 12) :=
  index_shift_whole_periods rPDT rPST 5 12 (by norm_num) (by norm_num [Reading.instant, rPDT])
    (by norm_num [Reading.instant, rPST]) (by norm_num [Reading.instant, rPDT, rPST])

example : readingIndex rPDT 5 = .ok 5242566 := by
  rw [reading_index_spec _ _ (by norm_num) (by norm_num [Reading.instant, rPDT])]
  congr 1; rw [Int.floor_eq_iff]; norm_num [rPDT]

/-- 7-minute periods do not divide the hour: the two readings are 8 or 9 periods apart -/
example : ∃ i₁ i₂, readingIndex rPDT 7 = .ok i₁ ∧ readingIndex rPST 7 = .ok i₂ ∧ i₁ + 8 ≤ i₂ ∧ i₂ ≤ i₁ + 9 := by
  obtain ⟨i₁, i₂, h1, h2, -, h3, h4, -⟩ := repeated_hour_index rPDT rPST 7 (by norm_num) rfl
    (by norm_num [rPDT, rPST]) (by norm_num [Reading.instant, rPDT])
  have : ⌊(rPDT.off - rPST.off) / (60 * 7)⌋ = 8 := by rw [Int.floor_eq_iff]; norm_num [rPDT, rPST]
  rw [this] at h3 h4
  exact ⟨i₁, i₂, h1, h2, h3, by omega⟩

def foldDoc : WDoc ℚ := { connect := rPDT, disconnect := rPST, kWh := 3, session := "s", space := "CA-1" }
def backDoc : WDoc ℚ := { connect := rLate, disconnect := rEarly, kWh := 3, session := "t", space := "CA-2" }

/-- connect 01:30 `fold=0`, disconnect 01:30 `fold=1`: twelve 5-minute periods -/
example : ∃ e, convertDoc foldDoc.toDoc 5242300 5 208 (6656/1000) none defaultParams false = .ok e ∧
    e.departure - e.arrival = 12 := by
  obtain ⟨e, he⟩ := default_conversion_total foldDoc.toDoc 5242300 5 208 (6656/1000) none false
    (by norm_num) (by norm_num [foldDoc, WDoc.toDoc]) (by norm_num) (by intro L h; cases h)
    (by norm_num [foldDoc, WDoc.toDoc, Reading.instant, rPDT, rPST])
  refine ⟨e, he, ?_⟩
  have := fold_session_stay foldDoc 5242300 5 208 (6656/1000) none defaultParams false e 12 (by norm_num)
    rfl (by norm_num [foldDoc, Reading.instant, rPDT]) (by norm_num)
    (by norm_num [foldDoc, rPDT, rPST]) he
  simpa using this

example : backDoc.disconnect.wall < backDoc.connect.wall ∧
    ∀ e, convertDoc backDoc.toDoc 5242300 5 208 (6656/1000) none defaultParams false = .ok e →
      e.arrival ≤ e.departure := by
  refine ⟨by norm_num [backDoc, rLate, rEarly], ?_⟩
  intro e he
  exact order_preserving_instants backDoc 5242300 5 208 (6656/1000) none defaultParams false e (by norm_num)
    (by intro L h; cases h) (by norm_num [backDoc, Reading.instant, rLate, rEarly]) he

/-! ### several batches in one process -/

/-- Conversions do not influence each other: in any sequence of `get_evs` calls (any periods,
    voltages, powers, battery parameters, any documents — the same datetimes or the same
    (energy, stay) pairs may recur under other parameters) the answer of each call is the answer
    the call gives on its own. -/
theorem batches_independent (pre post : List (Batch K)) (b : Batch K) :
    runBatches (pre ++ b :: post) = runBatches pre ++ runBatch b :: runBatches post ∧
    (runBatches (pre ++ b :: post))[pre.length]? = some (runBatch b) := by
  constructor
  · simp [runBatches]
  · simp [runBatches]

end tz

/-! ### which per-process caches would be invisible -/

section memo
variable {α β κ : Type} [DecidableEq κ]

/-- A memo table in front of ANY pure function (`_datetime_to_timestamp`, `batt_cap_fn`, …) is
    invisible for EVERY sequence of calls — across documents, batches and parameter changes —
    provided equal keys imply equal values of the function. -/
theorem memo_transparent (f : α → β) (key : α → κ) (hkey : ∀ a b, key a = key b → f a = f b)
    (calls : List α) : memoRun f key [] calls = calls.map f :=
  memoRun_eq_map hkey calls [] (cacheOk_nil f key)

end memo

section memoIdx
variable {K : Type} [Field K] [LinearOrder K] [IsStrictOrderedRing K] [FloorRing K]

/-- … in particular a cache of the period index keyed on (instant, period) is invisible … -/
theorem index_cache_by_instant_sound (calls : List (Reading K × K)) :
    memoRun (fun c : Reading K × K => readingIndex c.1 c.2) (fun c => (c.1.instant, c.2)) [] calls
      = calls.map (fun c => readingIndex c.1 c.2) := by
  apply memo_transparent
  intro a b h
  simp only [Prod.mk.injEq] at h
  show readingIndex a.1 a.2 = readingIndex b.1 b.2
  rw [← h.2]
  exact index_depends_only_on_instant _ _ _ h.1

end memoIdx

/-- … whereas a cache keyed on what Python's `==`/`hash` see of two datetimes that share a
    PEP 495 tzinfo object (the wall-clock fields, not `fold`), together with the period, is NOT:
    connect 01:30 `fold=0` then disconnect 01:30 `fold=1` gets the first index twice. -/
theorem index_cache_by_wall_unsound :
    memoRun (fun c : Reading ℚ × ℚ => readingIndex c.1 c.2) (fun c => (c.1.wall, c.2)) []
        [(rPDT, 5), (rPST, 5)]
      ≠ [(rPDT, 5), (rPST, 5)].map (fun c => readingIndex c.1 c.2) := by
  have h1 : readingIndex rPDT 5 = .ok 5242566 := by
    rw [reading_index_spec _ _ (by norm_num) (by norm_num [Reading.instant, rPDT])]
    congr 1; rw [Int.floor_eq_iff]; norm_num [rPDT]
  have h2 : readingIndex rPST 5 = .ok 5242578 := by
    rw [reading_index_spec _ _ (by norm_num) (by norm_num [Reading.instant, rPST])]
    congr 1; rw [Int.floor_eq_iff]; norm_num [rPST]
  have hk : (rPST.wall, (5 : ℚ)) = (rPDT.wall, (5 : ℚ)) := rfl
  simp only [memoRun, memoCall, List.lookup_nil, List.lookup_cons, hk, beq_self_eq_true, List.map_cons,
    List.map_nil, h1, h2]
  intro h
  injection h with _ h
  injection h with h _
  injection h with h
  omega

/-- … and so is a cache keyed on the datetime alone: the same datetime under another period. -/
theorem index_cache_without_period_unsound :
    memoRun (fun c : Reading ℚ × ℚ => readingIndex c.1 c.2) (fun c => c.1.instant) []
        [(rPDT, 5), (rPDT, 15)]
      ≠ [(rPDT, 5), (rPDT, 15)].map (fun c => readingIndex c.1 c.2) := by
  have h1 : readingIndex rPDT 5 = .ok 5242566 := by
    rw [reading_index_spec _ _ (by norm_num) (by norm_num [Reading.instant, rPDT])]
    congr 1; rw [Int.floor_eq_iff]; norm_num [rPDT]
  have h2 : readingIndex rPDT 15 = .ok 1747522 := by
    rw [reading_index_spec _ _ (by norm_num) (by norm_num [Reading.instant, rPDT])]
    congr 1; rw [Int.floor_eq_iff]; norm_num [rPDT]
  simp only [memoRun, memoCall, List.lookup_nil, List.lookup_cons, beq_self_eq_true, List.map_cons,
    List.map_nil, h1, h2]
  intro h
  injection h with _ h
  injection h with h _
  injection h with h
  omega

end Acn.C15
