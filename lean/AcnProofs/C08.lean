/-
  C08 — priority allocation: greedy grants each session, in priority order, the maximum feasible
  rate given earlier grants; round robin stops incrementing a session only when blocked; the sort
  orders are what they claim.

  Property theorems only (helpers: `Lemmas/SortedBasic|Greedy|RR|Opt.lean`).  Carrier: any linear
  ordered field; `feas` is an arbitrary predicate except where `IntervalFeasible` is assumed.
-/
import AcnProofs.Lemmas.SortedGreedy
import AcnProofs.Lemmas.SortedRR
import AcnProofs.Lemmas.SortedRRTerm
import AcnProofs.Lemmas.SortedOpt
import AcnProofs.Lemmas.FeasConvex
import AcnModel.Gen.Consts

set_option linter.unusedSectionVars false

namespace Acn.C08
open Acn Acn.Sorted

variable {K : Type} [Field K] [LinearOrder K] [IsStrictOrderedRing K]

/-- obligations on the regenerated constants: the bisection tolerance passed by
    `sorting_algorithm` and the default round-robin increment are positive -/
theorem gen_eps : (0 : Rat) < Acn.Gen.greedyEps ∧ (0 : Rat) < Acn.Gen.rrIncDefault := by
  decide +kernel

/-- two sessions have the same sort key (neither is strictly before the other) -/
def sameKey (kind : SortKind) (infra : Infra K) (period : K) (time : Int) (a b : Session K) : Bool :=
  !sortLt kind infra period time a b && !sortLt kind infra period time b a

/-- `sorted_by_key` (full): for each of the five keys the queue is (i) a permutation of the input,
    (ii) ordered by the key — ascending for fcfs / edf / llf, descending for lcfs / lrpt, see the
    `example` below — and (iii) STABLE: the sessions sharing the key of any session `a` appear in
    their input order, also for the two reverse orders (Python's `reverse=True` keeps stability,
    and that is what the model implements).  (i)–(iii) determine the output uniquely. -/
theorem sorted_by_key (kind : SortKind) (infra : Infra K) (period : K) (time : Int)
    (l : List (Session K)) :
    (sortSessions kind infra period time l).Perm l ∧
    (sortSessions kind infra period time l).Pairwise
      (fun a b => sortLt kind infra period time b a = false) ∧
    ∀ a, (sortSessions kind infra period time l).filter (sameKey kind infra period time a) =
      l.filter (sameKey kind infra period time a) := by
  refine ⟨sortBy_perm _ l, sortBy_pairwise _ ?_ ?_ l, fun a => sortBy_filter _ _ ?_ l⟩
  · intro a b c h1 h2
    cases kind <;> simp only [sortLt, decide_eq_false_iff_not, not_lt] at h1 h2 ⊢ <;>
      exact le_trans (by assumption) (by assumption)
  · intro a b h
    cases kind <;> simp only [sortLt, decide_eq_true_eq, decide_eq_false_iff_not, not_lt] at h ⊢ <;>
      exact le_of_lt h
  · intro x y hx hy
    cases kind <;>
      simp only [sameKey, sortLt, Bool.and_eq_true, Bool.not_eq_true', decide_eq_false_iff_not,
        not_lt] at hx hy ⊢ <;>
      first
        | omega
        | exact le_trans hx.1 hy.2
        | exact le_trans hy.1 hx.2
        | exact le_trans hx.2 hy.1
        | exact le_trans hy.2 hx.1

/-- a concrete instance with a tied key: last-come-first-served on arrivals 1, 2, 1 (stations 0, 1, 2)
    puts the late arrival first and keeps the two tied sessions in their input order -/
example :
    ((sortSessions .lcfs (⟨[], [], [], [], [], []⟩ : Infra ℚ) 5 3
      [⟨"a", "x", 0, 1, 9, 9, 10, 0, 0, 32⟩, ⟨"b", "y", 1, 2, 9, 9, 10, 0, 0, 32⟩,
       ⟨"c", "z", 2, 1, 9, 9, 10, 0, 0, 32⟩]).map (·.idx)) = [1, 0, 2] := by
  decide +kernel

/-- what `sortLt … b a = false` means for each key: the claimed order -/
example (infra : Infra K) (period : K) (time : Int) (a b : Session K) :
    (sortLt .fcfs infra period time b a = false ↔ a.arrival ≤ b.arrival) ∧
    (sortLt .lcfs infra period time b a = false ↔ b.arrival ≤ a.arrival) ∧
    (sortLt .edf infra period time b a = false ↔ a.estDeparture ≤ b.estDeparture) ∧
    (sortLt .llf infra period time b a = false ↔
        laxity infra period time a ≤ laxity infra period time b) ∧
    (sortLt .lrpt infra period time b a = false ↔
        processingTime infra period b ≤ processingTime infra period a) := by
  simp [sortLt]

/-- `discrete_is_max`: for an ascending level list the value returned by
    `discrete_max_feasible_rate` is the LARGEST level that passes the check — every larger level
    fails — or the fallback 0 when no level passes. -/
theorem discrete_is_max (feas : List K → Bool) (sched : List K) (i : Nat) (allowable : List K) (r : K)
    (hsorted : allowable.Pairwise (· < ·))
    (h : discreteMax feas sched i allowable = .ok r) :
    (r ∈ allowable ∧ feas (sched.set i r) = true ∧
        ∀ a ∈ allowable, r < a → feas (sched.set i a) = false) ∨
    (r = 0 ∧ ∀ a ∈ allowable, feas (sched.set i a) = false) := by
  unfold discreteMax at h
  split at h
  · cases h
  · cases h
    have key := walkDown_split feas sched i allowable.reverse
    generalize walkDown feas sched i allowable.reverse = w at key ⊢
    rcases key with ⟨pre, post, h1, h2, h3⟩ | ⟨h1, h2⟩
    · left
      have hmem : w ∈ allowable := by
        have : w ∈ allowable.reverse := by
          rw [h1]; simp
        exact List.mem_reverse.mp this
      refine ⟨hmem, h3, ?_⟩
      intro a ha hlt
      have hrev : allowable.reverse.Pairwise (· > ·) := by
        rw [List.pairwise_reverse]; exact hsorted
      rw [h1, List.pairwise_append] at hrev
      have ha' : a ∈ pre ++ w :: post := by
        rw [← h1]; exact List.mem_reverse.mpr ha
      rcases List.mem_append.mp ha' with hp | hp
      · exact h2 a hp
      · rcases List.mem_cons.mp hp with rfl | hp
        · exact absurd hlt (lt_irrefl _)
        · have := (List.pairwise_cons.mp hrev.2.1).1 a hp
          exact absurd hlt (not_lt.mpr (le_of_lt this))
    · right
      exact ⟨h1, fun a ha => h2 a (List.mem_reverse.mpr ha)⟩

/-- `short_circuit`: if the upper bound itself is feasible, it is granted -/
theorem short_circuit (feas : List K → Bool) (fuel : Nat) (i : Nat) (ub : K) (sched : List K) (eps lb : K)
    (h0 : feas sched = true) (hub : feas (sched.set i ub) = true) :
    maxFeasibleRate feas fuel i ub sched eps lb = .ok ub := by
  unfold maxFeasibleRate
  simp [h0, hub]

/-- `bisection_within_eps`: under interval feasibility, with the incoming value `lb` feasible
    (`sched.set i lb = sched` in the loop), `ub` infeasible (else `short_circuit`), `eps > 0` and
    enough fuel (`ub − lb ≤ eps·2^fuel`, i.e. `fuel ≥ log₂((ub−lb)/eps)`), the grant `r` is feasible
    and every feasible value `x ≥ lb` of that coordinate satisfies `x < r + eps`: `r ≤ sup < r + eps`. -/
theorem bisection_within_eps (feas : List K → Bool) (fuel : Nat) (i : Nat) (ub : K) (sched : List K)
    (eps lb : K) (heps : 0 < eps) (hint : IntervalFeasible feas sched i)
    (h0 : feas sched = true) (hlb : sched.set i lb = sched) (hle : lb ≤ ub)
    (hub : feas (sched.set i ub) = false) (hfuel : ub - lb ≤ eps * 2 ^ fuel) :
    ∃ r, maxFeasibleRate feas fuel i ub sched eps lb = .ok r ∧ feas (sched.set i r) = true ∧
      lb ≤ r ∧ r ≤ ub ∧ ∀ x, lb ≤ x → feas (sched.set i x) = true → x < r + eps := by
  refine ⟨bisect feas sched i eps fuel lb ub, ?_, ?_⟩
  · unfold maxFeasibleRate; simp [h0, hub]
  · have hl : feas (sched.set i lb) = true := by rw [hlb]; exact h0
    obtain ⟨h1, h2⟩ := bisect_bracket feas sched i eps heps hint fuel lb ub hle hfuel hl hub
    have hr := bisect_range feas sched i eps (le_of_lt heps) fuel lb ub
    exact ⟨h1, hr.1, by simpa [max_eq_right hle] using hr.2, h2⟩

/-- `feasible_set_is_interval`: the hypothesis `IntervalFeasible` holds for the phasor check the
    algorithms actually use (`algFeasible`, any matrix incl. mixed signs, any limits, unit phasors
    or not, any tolerances): each constraint is a convex quadratic in one coordinate
    (`Acn.Feas.algFeasible_interval`, owned by C06). -/
theorem feasible_set_is_interval (M : List (List K)) (lims c s : List K) (vt rt : K)
    (sched : List K) (i : Nat) :
    IntervalFeasible (Acn.Feas.algFeasible M lims c s vt rt) sched i := by
  intro x y z hxy hyz hx hz
  exact Acn.Feas.algFeasible_interval M lims c s vt rt sched i x z y hxy hyz hx hz

/-- `bisection_within_eps` for the REAL feasibility predicate (`algFeasible`: any constraint
    matrix incl. mixed signs, any limits / phasors / tolerances), with no convexity hypothesis left:
    if the current schedule is feasible and holds `lb` at station `i`, `ub ≥ lb` is infeasible,
    `eps > 0` and `ub − lb ≤ eps·2^fuel`, then `max_feasible_rate` returns a feasible `r ∈ [lb, ub]`
    and every feasible value `x ≥ lb` of that coordinate is `< r + eps`.  (What is true of the
    feasible set: it is an interval; being down-closed from `lb` needs feasibility AT `lb`, which the
    loop invariant of C07 supplies.) -/
theorem bisection_within_eps_alg (M : List (List K)) (lims c s : List K) (vt rt : K)
    (fuel : Nat) (i : Nat) (ub : K) (sched : List K) (eps lb : K) (heps : 0 < eps)
    (h0 : Acn.Feas.algFeasible M lims c s vt rt sched = true) (hlb : sched.set i lb = sched)
    (hle : lb ≤ ub) (hub : Acn.Feas.algFeasible M lims c s vt rt (sched.set i ub) = false)
    (hfuel : ub - lb ≤ eps * 2 ^ fuel) :
    ∃ r, maxFeasibleRate (Acn.Feas.algFeasible M lims c s vt rt) fuel i ub sched eps lb = .ok r ∧
      Acn.Feas.algFeasible M lims c s vt rt (sched.set i r) = true ∧ lb ≤ r ∧ r ≤ ub ∧
      ∀ x, lb ≤ x → Acn.Feas.algFeasible M lims c s vt rt (sched.set i x) = true → x < r + eps :=
  bisection_within_eps _ fuel i ub sched eps lb heps
    (feasible_set_is_interval M lims c s vt rt sched i) h0 hlb hle hub hfuel

/-- the hypotheses of `bisection_within_eps_alg` are satisfiable on a mixed-sign row
    `|x₀ − x₁| ≤ 10` (zero tolerances, phase 0): `[0, 5]` is feasible, raising station 0 to 32 is not,
    and the run returns a value within `eps` below the true maximum 15 -/
example :
    Acn.Feas.algFeasible [[1, -1]] [10] [1, 1] [0, 0] 0 0 ([0, 5] : List ℚ) = true ∧
    Acn.Feas.algFeasible [[1, -1]] [10] [1, 1] [0, 0] 0 0 (([0, 5] : List ℚ).set 0 32) = false ∧
    (match maxFeasibleRate (Acn.Feas.algFeasible [[1, -1]] [10] [1, 1] [0, 0] 0 0) 12 0 32 ([0, 5] : List ℚ)
        (1 / 100) 0 with
     | .ok r => decide (r ≤ 15) && decide (15 < r + 1 / 100)
     | .error _ => false) = true := by
  decide +kernel

/-- the hypotheses of `bisection_within_eps` are satisfiable: one coordinate, limit 7 -/
example :
    let feas : List ℚ → Bool := fun x => decide (x.getD 0 0 ≤ 7)
    IntervalFeasible feas [0] 0 ∧ feas [0] = true ∧ feas (([0] : List ℚ).set 0 32) = false ∧
      (32 : ℚ) - 0 ≤ (1 / 100) * 2 ^ 12 ∧
      (match maxFeasibleRate feas 12 0 32 [0] (1 / 100) 0 with
       | .ok r => decide (r ≤ 7) && decide (7 < r + 1 / 100)
       | .error _ => false) = true := by
  refine ⟨?_, by decide +kernel, by decide +kernel, by norm_num, by decide +kernel⟩
  intro x y z hxy hyz hx hz
  simp only [List.set_cons_zero, List.getD_cons_zero, decide_eq_true_eq] at hx hz ⊢
  exact le_trans hyz hz

/-- `greedy_sequential` (full): for `queue = pre ++ s :: post` the grant of `s` — the entry of the
    result at its station — is `greedyRate` evaluated on the schedule `cur` in which every session
    of `pre` already holds its FINAL grant, `s` and every session of `post` hold their lower
    bounds, and every other station holds 0.  (These clauses fix `cur` pointwise.) -/
theorem greedy_sequential (feas : List K → Bool) (fuel : Nat) (eps : K) (infra : Infra K)
    (period : K) (pre : List (Session K)) (s : Session K) (post : List (Session K)) (sch : List K)
    (hnd : ((pre ++ s :: post).map (·.idx)).Nodup)
    (hidx : ∀ t ∈ pre ++ s :: post, t.idx < infra.ids.length)
    (h : sortingAlgorithm feas fuel eps infra period (pre ++ s :: post) = .ok sch) :
    ∃ cur r, greedyRate feas fuel eps infra period cur s = .ok r ∧ sch[s.idx]? = some r ∧
      cur.length = infra.ids.length ∧
      (∀ t ∈ pre, cur[t.idx]? = sch[t.idx]?) ∧
      (∀ t ∈ s :: post, cur[t.idx]? = some (lbOf t)) ∧
      (∀ j, j < infra.ids.length → (∀ t ∈ pre ++ s :: post, t.idx ≠ j) → cur[j]? = some 0) := by
  unfold sortingAlgorithm at h
  simp only at h
  split at h
  · cases h
  · have hlen : (initSchedule infra.ids.length (pre ++ s :: post)).length = infra.ids.length := by
      unfold initSchedule; rw [fold_lb_length]; simp
    obtain ⟨cur, r, h1, h2, h3, h4, h5⟩ := greedyLoop_sequential feas fuel eps infra period s post pre
      _ sch hnd (by intro t ht; rw [hlen]; exact hidx t ht) h
    refine ⟨cur, r, h1, h2, by rw [h3, hlen], h4, ?_, ?_⟩
    · intro t ht
      have htq : t ∈ pre ++ s :: post := List.mem_append_right _ ht
      have hnot : ∀ u ∈ pre, u.idx ≠ t.idx := by
        intro u hu heq
        rw [List.map_append, List.nodup_append] at hnd
        exact hnd.2.2 u.idx (List.mem_map.mpr ⟨u, hu, rfl⟩) t.idx (List.mem_map.mpr ⟨t, ht, rfl⟩) heq
      rw [h5 t.idx hnot]
      exact getElem?_of_set_noop _ _ _ (initSchedule_lb _ _ hnd t htq) (by rw [hlen]; exact hidx t htq)
    · intro j hj hne
      rw [h5 j (fun t ht => hne t (List.mem_append_left _ ht))]
      unfold initSchedule
      rw [fold_lb_other _ _ j hne]
      simp [hj]

/-- `rr_stop_reason`: a session leaves the deque only when it sits at its last level or its next
    level failed the feasibility check for the schedule at that moment -/
theorem rr_stop_reason (feas : List K → Bool) (levels : List (List K)) (st : RRState K)
    (s : Session K) (rest : List (Session K)) (hq : st.queue = s :: rest)
    (hleft : (rrStep feas levels st).queue = rest) :
    ¬ (st.rateIdx.getD s.idx 0 + 1 < (levels.getD s.idx []).length) ∨
    feas (st.sched.set s.idx ((levels.getD s.idx []).getD (st.rateIdx.getD s.idx 0 + 1) 0)) = false := by
  by_cases hk : st.rateIdx.getD s.idx 0 + 1 < (levels.getD s.idx []).length
  · right
    cases hf : feas (st.sched.set s.idx ((levels.getD s.idx []).getD (st.rateIdx.getD s.idx 0 + 1) 0))
    · rfl
    · unfold rrStep at hleft
      rw [hq] at hleft
      simp only [hk, hf, if_true] at hleft
      have := congrArg List.length hleft
      simp at this
  · left; exact hk

/-- … and conversely a session whose next level passes is incremented and re-queued at the back -/
theorem rr_continues (feas : List K → Bool) (levels : List (List K)) (st : RRState K)
    (s : Session K) (rest : List (Session K)) (hq : st.queue = s :: rest)
    (hk : st.rateIdx.getD s.idx 0 + 1 < (levels.getD s.idx []).length)
    (hf : feas (st.sched.set s.idx ((levels.getD s.idx []).getD (st.rateIdx.getD s.idx 0 + 1) 0)) = true) :
    (rrStep feas levels st).queue = rest ++ [s] ∧
    (rrStep feas levels st).rateIdx = st.rateIdx.set s.idx (st.rateIdx.getD s.idx 0 + 1) := by
  unfold rrStep
  rw [hq]
  simp only [hk, hf, if_true, and_self]

/-- the termination measure `Σ_i (len levels_i − rate_idx_i) + |queue|` drops by exactly one on
    every trip round the loop (queued stations address `rate_idx`) -/
theorem rr_measure_decreases (feas : List K → Bool) (levels : List (List K)) (st : RRState K)
    (hne : st.queue ≠ []) (h : QueueIdxOk st) :
    rrMeasure levels (rrStep feas levels st) + 1 = rrMeasure levels st :=
  rrStep_measure feas levels st hne h

/-- `rr_terminates`: `round_robin` (the loop run with `rrMeasure` fuel) ends with an EMPTY deque,
    for any feasibility predicate and any level lists: the `while len(queue) > 0` loop terminates
    after at most Σ levels + |queue| trips. -/
theorem rr_terminates (feas : List K → Bool) (levelsOf : Session K → List K) (infra : Infra K)
    (queue : List (Session K)) (st : RRState K)
    (hidx : ∀ s ∈ queue, s.idx < infra.ids.length)
    (h : roundRobin feas levelsOf infra queue = .ok st) : st.queue = [] := by
  unfold roundRobin at h
  simp only at h
  split at h
  · cases h
  · injection h with h
    rw [← h]
    apply rrLoop_terminates feas _ _ _ _ (le_refl _)
    intro s hs
    show s.idx < (List.replicate infra.ids.length 0).length
    rw [List.length_replicate]; exact hidx s hs

/-- `uncontrolled_spec`: the uncontrolled baseline only ever writes `[max_pilot(station)]` under
    the station id of an active session -/
theorem dictSet_mem {V : Type} (d : List (String × V)) (k : String) (v : V) (p : String × V)
    (h : p ∈ dictSet d k v) : p = (k, v) ∨ p ∈ d := by
  induction d with
  | nil => simp [dictSet] at h; left; exact h
  | cons q t ih =>
    obtain ⟨k', v'⟩ := q
    unfold dictSet at h
    split at h
    · rename_i heq
      have hk : k' = k := by simpa using heq
      rcases List.mem_cons.mp h with rfl | h
      · left; rw [hk]
      · right; exact List.mem_cons_of_mem _ h
    · rcases List.mem_cons.mp h with rfl | h
      · right; exact List.mem_cons_self
      · rcases ih h with h | h
        · left; exact h
        · right; exact List.mem_cons_of_mem _ h

theorem dictSet_lookup {V : Type} (d : List (String × V)) (k k' : String) (v : V) :
    (dictSet d k v).lookup k' = if k' = k then some v else d.lookup k' := by
  induction d with
  | nil =>
    by_cases h : k' = k
    · simp [dictSet, List.lookup, h]
    · have hb : (k' == k) = false := by simpa using h
      simp [dictSet, List.lookup, h, hb]
  | cons q t ih =>
    obtain ⟨k0, v0⟩ := q
    unfold dictSet
    by_cases h0 : k0 = k
    · subst h0
      by_cases h : k' = k0
      · simp [List.lookup, h]
      · have hb : (k' == k0) = false := by simpa using h
        simp [List.lookup, h, hb]
    · have hb : (k0 == k) = false := by simpa using h0
      simp only [hb, Bool.false_eq_true, if_false, List.lookup]
      by_cases h1 : k' = k0
      · have : k' ≠ k := by rw [h1]; exact h0
        simp [h1, h0]
      · have hb1 : (k' == k0) = false := by simpa using h1
        simp only [hb1]
        exact ih

/-- the dict built by the uncontrolled baseline, read by station id: the entry of the LAST active
    session at that station (a Python dict assignment overwrites), `none` if there is none -/
theorem uncontrolled_lookup (infra : Infra K) (l : List (Session K)) (st : String) :
    (uncontrolled infra l).lookup st =
      (l.reverse.find? (fun s => s.station == st)).map (fun s => [infra.maxPilot.getD s.idx 0]) := by
  unfold uncontrolled
  have : ∀ (l : List (Session K)) (acc : List (String × List K)),
      (l.foldl (fun d s => dictSet d s.station [infra.maxPilot.getD s.idx 0]) acc).lookup st =
        match l.reverse.find? (fun s => s.station == st) with
        | some s => some [infra.maxPilot.getD s.idx 0]
        | none => acc.lookup st := by
    intro l
    induction l with
    | nil => intro acc; simp
    | cons h t ih =>
      intro acc
      simp only [List.foldl_cons, List.reverse_cons, List.find?_append]
      rw [ih]
      cases hf : t.reverse.find? (fun s => s.station == st) with
      | some s => simp
      | none =>
        simp only [Option.none_or, List.find?_cons, List.find?_nil]
        rw [dictSet_lookup]
        by_cases hh : h.station = st
        · simp [hh]
        · have hne : ¬ st = h.station := fun e => hh e.symm
          have hb : (h.station == st) = false := by simpa using hh
          simp [hne, hb]
  rw [this l []]
  cases l.reverse.find? (fun s => s.station == st) <;> simp [List.lookup]

/-- `uncontrolled_spec` (full, as a lookup equality): with distinct stations, every active session's
    station maps to exactly `[max_pilot(station)]`, and a station without active session is absent
    from the dict (the simulator then applies 0). -/
theorem uncontrolled_spec (infra : Infra K) (l : List (Session K))
    (hnd : (l.map (·.station)).Nodup) :
    (∀ s ∈ l, (uncontrolled infra l).lookup s.station = some [infra.maxPilot.getD s.idx 0]) ∧
    (∀ st, (∀ s ∈ l, s.station ≠ st) → (uncontrolled infra l).lookup st = none) := by
  constructor
  · intro s hs
    rw [uncontrolled_lookup]
    cases hf : l.reverse.find? (fun u => u.station == s.station) with
    | none =>
      have := List.find?_eq_none.mp hf s (List.mem_reverse.mpr hs)
      simp at this
    | some u =>
      have hu : u ∈ l := List.mem_reverse.mp (List.mem_of_find?_eq_some hf)
      have hst : u.station = s.station := by simpa using List.find?_some hf
      have : u = s := by
        by_contra hne
        have := List.inj_on_of_nodup_map hnd hu hs hst
        exact hne this
      rw [this]; rfl
  · intro st hst
    rw [uncontrolled_lookup]
    have : l.reverse.find? (fun s => s.station == st) = none := by
      rw [List.find?_eq_none]
      intro s hs
      have := hst s (List.mem_reverse.mp hs)
      simpa using this
    rw [this]; rfl

/-- membership form -/
theorem uncontrolled_mem (infra : Infra K) (l : List (Session K)) :
    ∀ p ∈ uncontrolled infra l, ∃ s ∈ l, p = (s.station, [infra.maxPilot.getD s.idx 0]) := by
  unfold uncontrolled
  have : ∀ (l : List (Session K)) (acc : List (String × List K)),
      ∀ p ∈ l.foldl (fun d s => dictSet d s.station [infra.maxPilot.getD s.idx 0]) acc,
        p ∈ acc ∨ ∃ s ∈ l, p = (s.station, [infra.maxPilot.getD s.idx 0]) := by
    intro l
    induction l with
    | nil => intro acc p hp; left; exact hp
    | cons s t ih =>
      intro acc p hp
      simp only [List.foldl_cons] at hp
      rcases ih _ p hp with h | ⟨u, hu, h⟩
      · rcases dictSet_mem _ _ _ _ h with h | h
        · right; exact ⟨s, List.mem_cons_self, h⟩
        · left; exact h
      · right; exact ⟨u, List.mem_cons_of_mem _ hu, h⟩
  intro p hp
  rcases this l [] p hp with h | h
  · exact absurd h (by simp)
  · exact h

end Acn.C08
