/-
  C10 — results are independent of a shift of the time axis: the cases the main file (`AcnProofs/C10.lean`,
  section `simulator`, "NOT PROVED" of relation (4)) left open, at the level of the FULL simulator model:

    * `uninterrupted_charging = True`: `run_shift_sorted_any` — `run_shift_sorted` for BOTH preprocessing
      modes (`max_recompute = None`, errors included).  `apply_minimum_charging_rate` reads `remaining_time`,
      minimum pilots and the feasibility oracle: nothing that moves with the time axis.
    * the sorting-based algorithms with `max_recompute ≠ None`.  While nothing is plugged in they answer
      ALL-ZERO ROWS (`{station: [0.0]}`), not `{}`, so `SchedIdle` fails for them.  The idle prefix only needs
      the answer to leave the all-zero pilot matrix as it is (`SchedIdleZ`; `{}` and the zero rows are
      instances): `run_shift_anchored_zero`, `run_shift_aligned_zero` generalise the two capstones, and
      `run_shift_sorted_recompute` instantiates them (any `max_recompute`; an event in period 0, or `m ∣ k`).
    * THE RIGHT STATEMENT WHEN NEITHER HOLDS (`run_shift_sorted_late`).  With `max_recompute = m`, no event in
      period 0 and `m ∤ k` the shifted run is NOT the shift of the original run as a whole (the periodic
      invocations of the idle prefix are anchored at period 0: `invoked` and, before the first event,
      `_last_schedule_update` differ — counter-example after `run_shift_core`).  But every scenario with an
      event is the shift `a` of an ANCHORED scenario `cfg0` (first event in period 0), and BOTH runs are
      shifts of the run of `cfg0`: from the first event on they coincide.  Precisely: the runs of
      `shiftCfgS a cfg0` and of `shiftCfgS k (shiftCfgS a cfg0)` complete when the run of `cfg0` does, each is
      `ShEquiv` to it (everything from the first event on, invocation periods included, is the shifted
      copy; only the idle invocations `Va` / `Vb` in front differ), and the OUTPUTS of the two runs are
      related exactly as in the shift relation (`ShOut k`): pilots / rates with `k` zero columns in front,
      energies, peak, `EVSE.current_pilot`, draw count equal, `k` vacant rows in front of the occupancy
      log, the clock `k` later.
-/
import AcnProofs.C10
import AcnProofs.Lemmas.EquivSimIdleZ

set_option linter.unusedSectionVars false

namespace Acn.C10
open Acn Acn.EventCore Acn.Sim Acn.SimShift Acn.SimSorted Acn.Sorted Acn.Pilots

section shift_open
variable {K : Type} [Field K] [LinearOrder K] [IsStrictOrderedRing K] [HasExp K]

/-- CAPSTONE (shift × the sorting-based algorithms, BOTH preprocessing modes, `max_recompute = None`,
    errors included): `run_shift_sorted` without the restriction to `uninterrupted_charging = False`. -/
theorem run_shift_sorted_any [HasCeilNat K] (k : Nat) (cfg : Cfg K) (h : ShiftOK cfg) (net : NetInfo K) (inf : K)
    (scfg : Config K) (hmr : cfg.maxRecompute = none) (n : Nat) :
    (Sim.run (shiftCfgS k cfg) (sortedSched net inf (shiftCfgS k cfg) scfg) (k + n) (Sim.init (shiftCfgS k cfg))).2 =
      (Sim.run cfg (sortedSched net inf cfg scfg) n (Sim.init cfg)).2 ∧
    ShEquiv k [] (List.replicate k (noneRow cfg)) (Sim.run cfg (sortedSched net inf cfg scfg) n (Sim.init cfg)).1
      (Sim.run (shiftCfgS k cfg) (sortedSched net inf (shiftCfgS k cfg) scfg) (k + n) (Sim.init (shiftCfgS k cfg))).1 :=
  run_shift k cfg h (sortedSched_shiftInvariant_any k net inf cfg scfg) hmr n

/-- CAPSTONE (shift, ANY `max_recompute`, anchored) for schedulers that answer an idle network with a
    schedule that leaves the all-zero pilot matrix unchanged (`SchedIdleZ`: `{}`, all-zero rows):
    `run_shift_anchored` with the weaker idleness hypothesis. -/
theorem run_shift_anchored_zero (k : Nat) (cfg : Cfg K) (h : ShiftOK cfg)
    {sched sched' : View K → Except EventCore.Err (Schedule K)} (hs : SchedShiftInvariant k sched sched')
    (hsi : SchedIdleZ cfg k sched')
    (hanchor : (Sim.eventsStage cfg (Sim.init cfg)).1.core.resolve = true)
    (n : Nat) (r : State K) (hr : Sim.run cfg sched (n + 1) (Sim.init cfg) = (r, none)) :
    ∃ r' V, Sim.run (shiftCfgS k cfg) sched' (k + (n + 1)) (Sim.init (shiftCfgS k cfg)) = (r', none) ∧
      ShEquiv k V (List.replicate k (noneRow cfg)) r r' :=
  run_shift_anchored_of_prefix h hs (idle_prefixZ h (fun _ => hsi)) hanchor n r hr

/-- CAPSTONE (shift, `max_recompute = m`, `m = 0 ∨ m ∣ k`, no event needed in period 0) for `SchedIdleZ`
    schedulers: `run_shift_aligned` with the weaker idleness hypothesis. -/
theorem run_shift_aligned_zero (k : Nat) (cfg : Cfg K) (h : ShiftOK cfg)
    {sched sched' : View K → Except EventCore.Err (Schedule K)} (hs : SchedShiftInvariant k sched sched')
    (hsi : SchedIdleZ cfg k sched') {m : Nat} (hm : cfg.maxRecompute = some m) (hdiv : m = 0 ∨ m ∣ k)
    (n : Nat) (r : State K) (hr : Sim.run cfg sched (n + 1) (Sim.init cfg) = (r, none)) :
    ∃ r' V, Sim.run (shiftCfgS k cfg) sched' (k + (n + 1)) (Sim.init (shiftCfgS k cfg)) = (r', none) ∧
      ShEquiv k V (List.replicate k (noneRow cfg)) r r' :=
  run_shift_aligned_of_prefix h hs (idle_prefixZ h (fun _ => hsi)) hm hdiv n r hr

/-- `{}` while idle is an instance of `SchedIdleZ`, so the two theorems above contain `run_shift_anchored`
    and `run_shift_aligned` -/
theorem schedIdleZ_of_schedIdle {k : Nat} {sched : View K → Except EventCore.Err (Schedule K)} (h : SchedIdle k sched)
    (cfg : Cfg K) : SchedIdleZ cfg k sched := h.toZ cfg

/-- CAPSTONE (shift × the sorting-based algorithms, ANY `max_recompute`).  Greedy and round robin, all five
    sorts, both preprocessing modes, no estimator.  If the all-zero schedule is feasible (otherwise the
    algorithms raise on an idle network) and either something is due in period 0 of the original scenario
    or `max_recompute = m` with `m = 0 ∨ m ∣ k`, every run that completes on the original scenario completes
    on the shifted one with `ShEquiv k V pre` final states (`V`: the idle invocations of the prefix). -/
theorem run_shift_sorted_recompute [HasCeilNat K] (k : Nat) (cfg : Cfg K) (h : ShiftOK cfg) (net : NetInfo K) (inf : K)
    (scfg : Config K) (hz : feasOf net (List.replicate cfg.stations.length 0) = true)
    (hal : (Sim.eventsStage cfg (Sim.init cfg)).1.core.resolve = true ∨
      ∃ m, cfg.maxRecompute = some m ∧ (m = 0 ∨ m ∣ k))
    (n : Nat) (r : State K) (hr : Sim.run cfg (sortedSched net inf cfg scfg) (n + 1) (Sim.init cfg) = (r, none)) :
    ∃ r' V, Sim.run (shiftCfgS k cfg) (sortedSched net inf (shiftCfgS k cfg) scfg) (k + (n + 1))
        (Sim.init (shiftCfgS k cfg)) = (r', none) ∧
      ShEquiv k V (List.replicate k (noneRow cfg)) r r' := by
  have hs := sortedSched_shiftInvariant_any k net inf cfg scfg
  have hsi := sortedSched_idleZ net inf cfg scfg k hz
  rcases hal with hanchor | ⟨m, hm, hdiv⟩
  · exact run_shift_anchored_zero k cfg h hs hsi hanchor n r hr
  · exact run_shift_aligned_zero k cfg h hs hsi hm hdiv n r hr

/-! ### two shifts of an anchored scenario -/

/-- what two runs, one `k` periods after the other, put out -/
structure ShOut (k : Nat) (pre : List (List (Option String))) (s s' : State K) : Prop where
  iter : s'.core.iter = s.core.iter + k
  pilots : s'.pilots = shiftMat k s.pilots
  rates : s'.rates = shiftMat k s.rates
  peak : s'.peak = s.peak
  evs : s'.evs = s.evs.map (shiftEvK k)
  evsePilot : s'.evsePilot = s.evsePilot
  noiseIdx : s'.noiseIdx = s.noiseIdx
  occLog : s'.occLog = pre ++ s.occLog

theorem shiftMat_add (k a : Nat) (m : Pilots.Mat K) : shiftMat (k + a) m = shiftMat k (shiftMat a m) := by
  unfold shiftMat
  simp only [List.map_map, Pilots.Mat.mk.injEq]
  refine ⟨?_, by omega⟩
  apply List.map_congr_left
  intro r _
  simp only [Function.comp, List.replicate_add, List.append_assoc]

theorem shiftEvK_add (k a : Nat) (e : Evse.Ev K) : shiftEvK (k + a) e = shiftEvK k (shiftEvK a e) := by
  unfold shiftEvK
  simp only
  congr 1 <;> (push_cast; omega)

theorem shiftCfgS_add (k a : Nat) (cfg : Cfg K) : shiftCfgS k (shiftCfgS a cfg) = shiftCfgS (k + a) cfg := by
  unfold shiftCfgS
  simp only [List.map_map]
  congr 1
  · apply List.map_congr_left
    intro e _
    exact (shiftEvK_add k a e).symm
  · apply List.map_congr_left
    intro r _
    simp only [Function.comp, Prod.mk.injEq, and_true]
    push_cast
    omega

/-- both are shifts of the same state ⇒ the outputs of the later one are the `k`-shift of the earlier one's -/
theorem shOut_of_shEquiv {k a : Nat} {Va Vb : List Nat} {row : List (Option String)} {s0 sa sb : State K}
    (ha : ShEquiv a Va (List.replicate a row) s0 sa) (hb : ShEquiv (k + a) Vb (List.replicate (k + a) row) s0 sb) :
    ShOut k (List.replicate k row) sa sb := by
  refine ⟨?_, ?_, ?_, ?_, ?_, ?_, ?_, ?_⟩
  · rw [hb.core, ha.core, sh_iter, sh_iter]; omega
  · rw [hb.pilots, ha.pilots, shiftMat_add]
  · rw [hb.rates, ha.rates, shiftMat_add]
  · rw [hb.peak, ha.peak]
  · rw [hb.evs, ha.evs, List.map_map]
    apply List.map_congr_left
    intro e _
    exact shiftEvK_add k a e
  · rw [hb.evsePilot, ha.evsePilot]
  · rw [hb.noiseIdx, ha.noiseIdx]
  · rw [hb.occLog, ha.occLog, List.replicate_add, List.append_assoc]

/-- CAPSTONE (shift × the sorting-based algorithms, ANY `max_recompute`, ANY shift, NO alignment).
    `cfg0` is anchored (its first event is due in period 0: `hanchor`).  `shiftCfgS a cfg0` is the general
    scenario with its first event in period `a`; `shiftCfgS k (shiftCfgS a cfg0)` the same `k` periods later.
    If the run of `cfg0` completes, both complete; each is `ShEquiv` to the run of `cfg0` — so from the
    first event on (periods `a` resp. `k + a`) the two runs are shifted copies of the SAME run, invocation
    periods and `_last_schedule_update` included, and only the idle invocations `Va`, `Vb` in front are
    their own —, and the outputs of the later run are the `k`-shift of the outputs of the earlier one
    (`ShOut k`).  Greedy and round robin, all sorts, both preprocessing modes, every `max_recompute`,
    every `a`, `k`, every fuel. -/
theorem run_shift_sorted_late [HasCeilNat K] (a k : Nat) (cfg0 : Cfg K) (h : ShiftOK cfg0) (net : NetInfo K) (inf : K)
    (scfg : Config K) (hz : feasOf net (List.replicate cfg0.stations.length 0) = true)
    (hanchor : (Sim.eventsStage cfg0 (Sim.init cfg0)).1.core.resolve = true)
    (n : Nat) (r0 : State K) (hr : Sim.run cfg0 (sortedSched net inf cfg0 scfg) (n + 1) (Sim.init cfg0) = (r0, none)) :
    ∃ ra rb Va Vb,
      Sim.run (shiftCfgS a cfg0) (sortedSched net inf (shiftCfgS a cfg0) scfg) (a + (n + 1))
        (Sim.init (shiftCfgS a cfg0)) = (ra, none) ∧
      Sim.run (shiftCfgS k (shiftCfgS a cfg0)) (sortedSched net inf (shiftCfgS k (shiftCfgS a cfg0)) scfg)
        (k + a + (n + 1)) (Sim.init (shiftCfgS k (shiftCfgS a cfg0))) = (rb, none) ∧
      ShEquiv a Va (List.replicate a (noneRow cfg0)) r0 ra ∧
      ShEquiv (k + a) Vb (List.replicate (k + a) (noneRow cfg0)) r0 rb ∧
      ShOut k (List.replicate k (noneRow cfg0)) ra rb := by
  obtain ⟨ra, Va, hra, hea⟩ := run_shift_sorted_recompute a cfg0 h net inf scfg hz (Or.inl hanchor) n r0 hr
  obtain ⟨rb, Vb, hrb, heb⟩ := run_shift_sorted_recompute (k + a) cfg0 h net inf scfg hz (Or.inl hanchor) n r0 hr
  refine ⟨ra, rb, Va, Vb, hra, ?_, hea, heb, shOut_of_shEquiv hea heb⟩
  rw [shiftCfgS_add]
  exact hrb

end shift_open

section shift_open_examples

local instance : HasExp ℚ := ⟨fun x => x⟩
local instance : HasCeilNat ℚ := ⟨fun x => (Rat.ceil x).toNat⟩

/-- `exSimLate` moved one period back: ANCHORED (session x arrives in period 0), `max_recompute = 2` -/
def exSim0 : Sim.Cfg ℚ :=
  { exSimLate with
    evs := [{ session := "x", station := "A", arrival := 0, departure := 3, estDeparture := 3, requested := 10,
              delivered := 0, rate := 0,
              batt := { capacity := 40, charge := 5, init := 5, maxPower := 7, power := 0, twoStage := false,
                        noiseLevel := 0, ts := 0, cmode := .continuous } },
            { session := "y", station := "B", arrival := 1, departure := 5, estDeparture := 4, requested := 10,
              delivered := 0, rate := 0,
              batt := { capacity := 40, charge := 5, init := 5, maxPower := 7, power := 0, twoStage := false,
                        noiseLevel := 0, ts := 0, cmode := .continuous } }] }

theorem exSim0_ok : ShiftOK exSim0 :=
  ⟨by decide, by decide,
   by show ∀ x ∈ exSim0.core.sessions, 0 ≤ x.departure; decide,
   by show ∀ st ∈ exSim0.stations, Evse.validRate (atolOf exSim0 st.kind) exSim0.atolFinite st.kind 0 = true
      decide +kernel⟩

/-- `uninterrupted_charging` -/
def exGreedyUn : Config ℚ := { exGreedy with uninterrupted := true }

/-- the hypotheses of `run_shift_sorted_late` are satisfiable, in the case the earlier theorems exclude:
    `max_recompute = 2`, first event of the earlier scenario in period `a = 1` (not 0), shift `k = 3`
    (`2 ∤ 3`), greedy EDF with `uninterrupted_charging`; and what the three runs look like: the idle
    invocations differ (`[0]` resp. `[0, 2]`), from the first event on the invocation periods are shifted
    copies (`[0, 1, 3, 5]` of the anchored run), the pilots are the shifted pilots -/
example :
    exSim0.maxRecompute = some 2 ∧
    (∃ ra rb Va Vb,
      Sim.run (shiftCfgS 1 exSim0) (sortedSched exNet 1000000 (shiftCfgS 1 exSim0) exGreedyUn) (1 + 9)
        (Sim.init (shiftCfgS 1 exSim0)) = (ra, none) ∧
      Sim.run (shiftCfgS 3 (shiftCfgS 1 exSim0)) (sortedSched exNet 1000000 (shiftCfgS 3 (shiftCfgS 1 exSim0)) exGreedyUn)
        (3 + 1 + 9) (Sim.init (shiftCfgS 3 (shiftCfgS 1 exSim0))) = (rb, none) ∧
      ShEquiv 1 Va (List.replicate 1 (noneRow exSim0))
        (Sim.run exSim0 (sortedSched exNet 1000000 exSim0 exGreedyUn) 9 (Sim.init exSim0)).1 ra ∧
      ShEquiv (3 + 1) Vb (List.replicate (3 + 1) (noneRow exSim0))
        (Sim.run exSim0 (sortedSched exNet 1000000 exSim0 exGreedyUn) 9 (Sim.init exSim0)).1 rb ∧
      ShOut 3 (List.replicate 3 (noneRow exSim0)) ra rb) ∧
    (Sim.run exSim0 (sortedSched exNet 1000000 exSim0 exGreedyUn) 9 (Sim.init exSim0)).1.core.invoked = [0, 1, 3, 5] ∧
    (Sim.run (shiftCfgS 1 exSim0) (sortedSched exNet 1000000 (shiftCfgS 1 exSim0) exGreedyUn) 10
        (Sim.init (shiftCfgS 1 exSim0))).1.core.invoked = [0] ++ [0, 1, 3, 5].map (· + 1) ∧
    (Sim.run (shiftCfgS 3 (shiftCfgS 1 exSim0)) (sortedSched exNet 1000000 (shiftCfgS 3 (shiftCfgS 1 exSim0)) exGreedyUn) 13
        (Sim.init (shiftCfgS 3 (shiftCfgS 1 exSim0)))).1.core.invoked = [0, 2] ++ [0, 1, 3, 5].map (· + 4) ∧
    (Sim.run (shiftCfgS 1 exSim0) (sortedSched exNet 1000000 (shiftCfgS 1 exSim0) exGreedyUn) 10
        (Sim.init (shiftCfgS 1 exSim0))).1.pilots.rows = [[0, 30, 22, 0, 0, 0, 0], [0, 0, 8, 0, 16, 0, 0]] := by
  have hrun : (Sim.run exSim0 (sortedSched exNet 1000000 exSim0 exGreedyUn) 9 (Sim.init exSim0)).2 = none := by
    decide +kernel
  refine ⟨rfl, ?_, by decide +kernel, by decide +kernel, by decide +kernel, by decide +kernel⟩
  exact run_shift_sorted_late 1 3 exSim0 exSim0_ok exNet 1000000 exGreedyUn (by decide +kernel) (by decide +kernel)
    8 _ (Prod.ext rfl hrun)

/-- the hypotheses of `run_shift_sorted_recompute` are satisfiable in its ALIGNED branch: `exSimLate` (first
    event in period 1, `max_recompute = 2`), shift 4, `uninterrupted_charging`, round robin -/
example : ∃ r' V, Sim.run (shiftCfgS 4 exSimLate) (sortedSched exNet 1000000 (shiftCfgS 4 exSimLate) { exGreedyUn with algo := .roundRobin })
      (4 + 9) (Sim.init (shiftCfgS 4 exSimLate)) = (r', none) ∧
    ShEquiv 4 V (List.replicate 4 (noneRow exSimLate))
      (Sim.run exSimLate (sortedSched exNet 1000000 exSimLate { exGreedyUn with algo := .roundRobin }) 9 (Sim.init exSimLate)).1 r' := by
  have hrun : (Sim.run exSimLate (sortedSched exNet 1000000 exSimLate { exGreedyUn with algo := .roundRobin }) 9
      (Sim.init exSimLate)).2 = none := by decide +kernel
  exact run_shift_sorted_recompute 4 exSimLate exSimLate_ok exNet 1000000 _ (by decide +kernel)
    (Or.inr ⟨2, rfl, Or.inr ⟨2, rfl⟩⟩) 8 _ (Prod.ext rfl hrun)

/-- the hypotheses of `run_shift_sorted_any` are satisfiable: `uninterrupted_charging`, `max_recompute =
    None`, shift 3 -/
example : ShiftOK exSimNone ∧
    ShEquiv 3 [] (List.replicate 3 (noneRow exSimNone))
      (Sim.run exSimNone (sortedSched exNet 1000000 exSimNone exGreedyUn) 9 (Sim.init exSimNone)).1
      (Sim.run (shiftCfgS 3 exSimNone) (sortedSched exNet 1000000 (shiftCfgS 3 exSimNone) exGreedyUn) (3 + 9)
        (Sim.init (shiftCfgS 3 exSimNone))).1 ∧
    (Sim.run (shiftCfgS 3 exSimNone) (sortedSched exNet 1000000 (shiftCfgS 3 exSimNone) exGreedyUn) (3 + 9)
        (Sim.init (shiftCfgS 3 exSimNone))).1.pilots.rows
      = (Sim.run exSimNone (sortedSched exNet 1000000 exSimNone exGreedyUn) 9
          (Sim.init exSimNone)).1.pilots.rows.map ([0, 0, 0] ++ ·) ∧
    (Sim.run exSimNone (sortedSched exNet 1000000 exSimNone exGreedyUn) 9 (Sim.init exSimNone)).1.pilots.rows
      ≠ [[0, 0, 0, 0, 0, 0, 0], [0, 0, 0, 0, 0, 0, 0]] :=
  ⟨exSimNone_ok, (run_shift_sorted_any 3 exSimNone exSimNone_ok exNet 1000000 exGreedyUn rfl 9).2,
    by decide +kernel, by decide +kernel⟩

end shift_open_examples
end Acn.C10
