/-
  C18 — analysis functions equal their first-principles definitions.

  Property theorems only.  Carrier: any linear ordered field `K` (ℚ, ℝ); `sqrt : K → K` is an
  arbitrary function (no property of it is used).  A simulation result is ANY
    `R` (charging_rates: any number of stations, each row of width `T`), `V`, `c`/`s` (cos/sin of
    the phase angles), `M`/`names` (constraint matrix and index, one row per pairwise distinct
    name), `evs`.
  Left-hand sides are the transcriptions of the code (`AcnModel/Analysis.lean`, numpy reductions,
  position filters, dict comprehension); right-hand sides are indexed sums `∑ i ∈ range n, …`,
  ratios and maxima.  `phasorSum row c R t = Σ_j row_j · (R_j(t) · c_j)`.
-/
import AcnModel.Analysis
import AcnProofs.Lemmas.AnalysisCurrent
import Mathlib.Tactic

namespace Acn.C18
open Acn Acn.Analysis Finset

set_option linter.unusedSectionVars false
variable {K : Type} [Field K] [LinearOrder K] [IsStrictOrderedRing K]

/-- `aggregate_current(sim)[t] = Σ_i charging_rates[i][t]` (one entry per recorded period). -/
theorem aggregate_current_def (T : Nat) (R : Matrix K) (hR : ∀ row ∈ R, row.length = T) :
    aggregateCurrent T R = (List.range T).map (fun t => ∑ i ∈ range R.length, ent R i t) :=
  colSums_eq T R hR

example : aggregateCurrent 2 ([[1, 2], [3, 4], [5, 6]] : Matrix ℚ) = [9, 12] := by decide +kernel

/-- `aggregate_power(sim)[t] = (Σ_i V_i · charging_rates[i][t]) / 1000`. -/
theorem aggregate_power_def (T : Nat) (V : List K) (R : Matrix K) (hR : ∀ row ∈ R, row.length = T) :
    aggregatePower T V R =
      (List.range T).map (fun t => (∑ i ∈ range R.length, V.getD i 0 * ent R i t) / 1000) := by
  rw [aggregatePower, vecMat_eq T V R hR, List.map_map]
  simp [Function.comp_def]

example : aggregatePower 2 ([208, 240, 120] : List ℚ) [[1, 2], [3, 4], [5, 6]] = [191 / 125, 262 / 125] := by
  decide +kernel

/-- `network.constraint_current(schedule, constraints=req, time_indices=ti)`: one row per position
    of `constraint_index` whose name is requested (index order, each once — whatever the order and
    multiplicity of `req`), one column per selected time index (numpy wrap-around, any order and
    multiplicity), each entry the aggregate phasor current of THAT matrix row at THAT period. -/
theorem constraint_current_rows (names : List String) (M : Matrix K) (c s : List K) (R : Matrix K)
    (T : Nat) (req : Option (List String)) (ti : Option (List Int)) (cols : List Nat)
    (hM : M.length = names.length) (hR : ∀ row ∈ R, row.length = T)
    (hc : c.length = R.length) (hs : s.length = R.length) (hti : colsOf T ti = some cols) :
    constraintCurrent names M c s R T req ti =
      .ok ((constraintIndices names req).map fun k => cols.map fun t =>
        (phasorSum (M.getD k []) c R t, phasorSum (M.getD k []) s R t)) :=
  constraintCurrent_eq names M c s R T req ti cols hM hR hc hs hti

example : constraintCurrent ["x", "y", "z"] ([[1, -1], [0, 2], [1, 1]] : Matrix ℚ) [1, 0] [0, -1]
    [[3, 4, 5], [6, 7, 8]] 3 (some ["z", "x", "z"]) (some [-1, 0]) =
    .ok [[(5, 8), (3, 6)], [(5, -8), (3, -6)]] := by decide +kernel

/-- `analysis.constraint_currents(sim, constraint_ids=req)` (complex values), for ANY request list
    (any order, any multiplicity, unknown ids allowed) and any valid time-index selection:
    `result[name]` is bound iff `name` is requested and is a constraint name, and then it is the
    aggregate phasor current of THE ROW WITH THAT NAME in every selected period. -/
theorem constraint_currents_named (names : List String) (M : Matrix K) (c s : List K) (R : Matrix K)
    (T : Nat) (req : List String) (ti : Option (List Int)) (cols : List Nat)
    (hn : names.Nodup) (hM : M.length = names.length) (hR : ∀ row ∈ R, row.length = T)
    (hc : c.length = R.length) (hs : s.length = R.length) (hti : colsOf T ti = some cols) :
    ∃ d, constraintCurrentsComplex names M c s R T (some req) ti = .ok d ∧
      ∀ name, dictGet d name =
        if name ∈ req then
          (rowNamed names M name).map fun row => cols.map fun t =>
            (phasorSum row c R t, phasorSum row s R t)
        else none := by
  obtain ⟨d, hd, hget⟩ := dict_named names hn req
    (fun k => cols.map fun t => (phasorSum (M.getD k []) c R t, phasorSum (M.getD k []) s R t))
  refine ⟨d, ?_, ?_⟩
  · simp only [constraintCurrentsComplex, Option.getD_some,
      constraintCurrent_eq names M c s R T (some req) ti cols hM hR hc hs hti]
    exact hd
  · intro name
    rw [hget name, rowNamed_eq names M hM name, Option.map_map]
    rfl

/-- with `constraint_ids=None` every constraint name is bound -/
theorem constraint_currents_keys (names : List String) (M : Matrix K) (c s : List K) (R : Matrix K)
    (T : Nat) (hn : names.Nodup) (hM : M.length = names.length) (hR : ∀ row ∈ R, row.length = T)
    (hc : c.length = R.length) (hs : s.length = R.length) :
    ∃ d, constraintCurrentsComplex names M c s R T none none = .ok d ∧
      ∀ name, dictGet d name =
        (rowNamed names M name).map fun row => (List.range T).map fun t =>
          (phasorSum row c R t, phasorSum row s R t) := by
  obtain ⟨d, hd, hget⟩ := constraint_currents_named names M c s R T names none (List.range T)
    hn hM hR hc hs rfl
  refine ⟨d, by simpa [constraintCurrentsComplex] using hd, fun name => ?_⟩
  rw [hget name]
  by_cases h : name ∈ names
  · rw [if_pos h]
  · rw [if_neg h, rowNamed_eq names M hM name, posOf_none names name h]; rfl

/-- the magnitudes variant (the code's default): `result[name][u] = |I_name(cols[u])|` -/
theorem constraint_currents_mag_named (sqrt : K → K) (names : List String) (M : Matrix K)
    (c s : List K) (R : Matrix K) (T : Nat) (req : List String) (ti : Option (List Int))
    (cols : List Nat) (hn : names.Nodup) (hM : M.length = names.length)
    (hR : ∀ row ∈ R, row.length = T) (hc : c.length = R.length) (hs : s.length = R.length)
    (hti : colsOf T ti = some cols) :
    ∃ d, constraintCurrentsMag sqrt names M c s R T (some req) ti = .ok d ∧
      ∀ name, dictGet d name =
        if name ∈ req then
          (rowNamed names M name).map fun row => cols.map fun t =>
            sqrt (phasorSum row c R t * phasorSum row c R t + phasorSum row s R t * phasorSum row s R t)
        else none := by
  obtain ⟨d, hd, hget⟩ := dict_named names hn req
    (fun k => cols.map fun t => sqrt (phasorSum (M.getD k []) c R t * phasorSum (M.getD k []) c R t
      + phasorSum (M.getD k []) s R t * phasorSum (M.getD k []) s R t))
  refine ⟨d, ?_, ?_⟩
  · simp only [constraintCurrentsMag, Option.getD_some,
      constraintCurrent_eq names M c s R T (some req) ti cols hM hR hc hs hti, List.map_map]
    simpa [Function.comp_def, cabs] using hd
  · intro name
    rw [hget name, rowNamed_eq names M hM name, Option.map_map]
    rfl

example : (constraintCurrentsMag (fun x => x) ["x", "y", "z"] ([[1, -1], [0, 2], [1, 1]] : Matrix ℚ)
    [1, 0] [0, -1] [[3, 4, 5], [6, 7, 8]] 3 (some ["z", "q", "x", "z"]) none).toOption.map
      (fun d => (dictGet d "z", dictGet d "x", dictGet d "y", dictGet d "q")) =
    some (some [45, 65, 89], some [45, 65, 89], none, none) := by decide +kernel

example : (constraintCurrentsComplex ["x", "y", "z"] ([[1, -1], [0, 2], [1, 1]] : Matrix ℚ)
    [1, 0] [0, -1] [[3, 4, 5], [6, 7, 8]] 3 (some ["z", "y"]) none).toOption.map
      (fun d => (dictGet d "y", dictGet d "z")) =
    some (some [(0, -12), (0, -14), (0, -16)], some [(3, -6), (4, -7), (5, -8)]) := by decide +kernel

/-- energy totals and proportions: totals are the sums over the sessions; the proportion delivered
    is Σ delivered / Σ requested (the code divides by a zero total: ZeroDivisionError class);
    demands met is the fraction of sessions whose remaining demand `requested − delivered` is
    below the threshold (strict, as in the source). -/
theorem energy_metrics_def (evs : List (Ev K)) (thr : K) :
    totalRequested evs = (evs.map (·.requested)).sum ∧
    totalDelivered evs = (evs.map (·.delivered)).sum ∧
    ((evs.map (·.requested)).sum ≠ 0 →
      proportionDelivered evs = .ok ((evs.map (·.delivered)).sum / (evs.map (·.requested)).sum)) ∧
    ((evs.map (·.requested)).sum = 0 → proportionDelivered evs = .error .zeroDivision) ∧
    (evs ≠ [] → demandsMet evs thr =
      .ok ((evs.countP (fun e => decide (e.requested - e.delivered < thr)) : K) / (evs.length : K))) ∧
    (evs = [] → demandsMet evs thr = .error .zeroDivision) := by
  have h1 : totalRequested evs = (evs.map (·.requested)).sum := sumK_eq_sum _
  have h2 : totalDelivered evs = (evs.map (·.delivered)).sum := sumK_eq_sum _
  refine ⟨h1, h2, ?_, ?_, ?_, ?_⟩
  · intro h
    have : isZero (evs.map (·.requested)).sum = false := by
      rw [Bool.eq_false_iff, Ne, isZero_iff]; exact h
    simp [proportionDelivered, this, h1, h2]
  · intro h
    have : isZero (evs.map (·.requested)).sum = true := by rw [isZero_iff]; exact h
    simp [proportionDelivered, this, h1]
  · intro h
    have : evs.isEmpty = false := by cases evs <;> simp_all
    simp only [demandsMet, this, remaining, List.countP_eq_length_filter]
    rfl
  · rintro rfl
    simp [demandsMet]

example : proportionDelivered ([⟨5, 3⟩, ⟨2, 2⟩, ⟨30, 7⟩] : List (Ev ℚ)) = .ok (12 / 37) ∧
    demandsMet ([⟨5, 3⟩, ⟨2, 2⟩, ⟨30, 7⟩] : List (Ev ℚ)) (1 / 10) = .ok (1 / 3) ∧
    demandsMet ([⟨5, 3⟩, ⟨2, 2⟩, ⟨30, 7⟩] : List (Ev ℚ)) 2 = .ok (1 / 3) ∧
    demandsMet ([⟨5, 3⟩, ⟨2, 2⟩, ⟨30, 7⟩] : List (Ev ℚ)) (201 / 100) = .ok (2 / 3) := by decide +kernel

/-- the NEMA formula on three magnitudes; `none` is the NaN numpy returns for 0/0 -/
def nemaFormula (x y z : K) : Option K :=
  if (x + y + z) / 3 = 0 then none
  else some ((max (max x y) z - (x + y + z) / 3) / ((x + y + z) / 3))

/-- `current_unbalance(sim, [a, b, cc])` for three (not necessarily different) constraint names:
    per recorded period, (max |I| − mean |I|) / mean |I| over the magnitudes of the aggregate
    phasor currents of the rows WITH THOSE NAMES; NaN exactly when the mean is zero. -/
theorem nema_def (sqrt : K → K) (names : List String) (M : Matrix K) (c s : List K) (R : Matrix K)
    (T : Nat) (a b cc : String) (ra rb rc : List K)
    (hn : names.Nodup) (hM : M.length = names.length) (hR : ∀ row ∈ R, row.length = T)
    (hc : c.length = R.length) (hs : s.length = R.length)
    (ha : rowNamed names M a = some ra) (hb : rowNamed names M b = some rb)
    (hcc : rowNamed names M cc = some rc) :
    nemaUnbalance sqrt names M c s R T [a, b, cc] =
      .ok ((List.range T).map fun t =>
        nemaFormula
          (sqrt (phasorSum ra c R t * phasorSum ra c R t + phasorSum ra s R t * phasorSum ra s R t))
          (sqrt (phasorSum rb c R t * phasorSum rb c R t + phasorSum rb s R t * phasorSum rb s R t))
          (sqrt (phasorSum rc c R t * phasorSum rc c R t + phasorSum rc s R t * phasorSum rc s R t))) := by
  obtain ⟨d, hd, hget⟩ := constraint_currents_mag_named sqrt names M c s R T [a, b, cc] none
    (List.range T) hn hM hR hc hs rfl
  have hga := hget a
  have hgb := hget b
  have hgc := hget cc
  simp only [List.mem_cons, true_or, or_true, if_true, ha, hb, hcc, Option.map_some] at hga hgb hgc
  unfold nemaUnbalance
  simp only [hd, lookupAll, hga, hgb, hgc, List.isEmpty_cons, Bool.false_eq_true, if_false,
    colSums, colMax, List.foldl_cons, List.foldl_nil, addV, replicate_eq_map_range,
    zipWith_map_same, List.map_map, List.length_cons, List.length_nil]
  congr 1
  apply List.map_congr_left
  intro t _
  simp only [Function.comp, unbalance, nemaFormula, pyMax_eq_max]
  have h3 : (((0 + 1 + 1 + 1 : Nat) : K)) = 3 := by norm_num
  rw [h3, zero_add]
  by_cases hz : (sqrt (phasorSum ra c R t * phasorSum ra c R t + phasorSum ra s R t * phasorSum ra s R t)
      + sqrt (phasorSum rb c R t * phasorSum rb c R t + phasorSum rb s R t * phasorSum rb s R t)
      + sqrt (phasorSum rc c R t * phasorSum rc c R t + phasorSum rc s R t * phasorSum rc s R t)) / 3 = 0
  · rw [if_pos ((isZero_iff _).mpr hz), if_pos hz]
  · rw [if_neg (fun h => hz ((isZero_iff _).mp h)), if_neg hz]

example : nemaUnbalance (fun x => x) ["x", "y", "z"] ([[1, -1], [0, 2], [1, 1]] : Matrix ℚ) [1, 0] [0, -1]
    [[3, 0, 5], [6, 0, 8]] 3 ["z", "y", "z"] = .ok [some (11 / 13), none, some (167 / 217)] := by decide +kernel

/-- `energy_cost(sim, tariff)` = Σ_t price_t · (P_t · period/60), `P_t` the aggregate power [kW]
    and `prices = tariff.get_tariffs(start, T, period)`. -/
theorem energy_cost_def (prices : List K) (T : Nat) (V : List K) (R : Matrix K) (period : K)
    (hR : ∀ row ∈ R, row.length = T) (hp : prices.length = T) :
    energyCost prices T V R period =
      .ok (∑ t ∈ range T, prices.getD t 0 *
        ((∑ i ∈ range R.length, V.getD i 0 * ent R i t) / 1000 * (period / 60))) := by
  have hagg := aggregate_power_def T V R hR
  have hlen : (aggregatePower T V R).length = T := by rw [hagg]; simp
  unfold energyCost
  simp only [hp, hlen, if_true]
  rw [dotK_eq T prices _ hp hlen, Finset.sum_mul]
  congr 1
  apply Finset.sum_congr rfl
  intro t ht
  rw [hagg, getD_map_range 0 T _ t (Finset.mem_range.mp ht)]
  push_cast
  ring

example : energyCost ([1 / 10, 3 / 10] : List ℚ) 2 [200, 100] [[10, 20], [30, 0]] 15 = .ok (17 / 40) := by
  decide +kernel

/-- `demand_charge(sim, tariff)` = dc · max_t P_t  (ValueError on an empty trajectory). -/
theorem demand_charge_def (dc : K) (T : Nat) (V : List K) (R : Matrix K)
    (hR : ∀ row ∈ R, row.length = T) (hT : 0 < T) :
    ∃ m, demandCharge dc T V R = .ok (dc * m) ∧
      (∃ t < T, m = (∑ i ∈ range R.length, V.getD i 0 * ent R i t) / 1000) ∧
      ∀ t < T, (∑ i ∈ range R.length, V.getD i 0 * ent R i t) / 1000 ≤ m := by
  have hagg := aggregate_power_def T V R hR
  obtain ⟨T', rfl⟩ : ∃ T', T = T' + 1 := ⟨T - 1, by omega⟩
  set P := fun t => (∑ i ∈ range R.length, V.getD i 0 * ent R i t) / 1000 with hP
  have hmem : ∀ x, x ∈ (List.range (T' + 1)).map P ↔ ∃ t < T' + 1, x = P t := by
    intro x; simp only [List.mem_map, List.mem_range]
    constructor
    · rintro ⟨t, ht, rfl⟩; exact ⟨t, ht, rfl⟩
    · rintro ⟨t, ht, rfl⟩; exact ⟨t, ht, rfl⟩
  unfold demandCharge
  rw [hagg]
  cases hl : (List.range (T' + 1)).map P with
  | nil => simp at hl
  | cons x xs =>
    obtain ⟨h1, h2, h3⟩ := foldl_pyMax_spec xs x
    refine ⟨xs.foldl pyMax x, by simp [listMax], ?_, ?_⟩
    · apply (hmem _).mp
      rw [hl]
      rcases h1 with h | h
      · rw [h]; simp
      · exact List.mem_cons_of_mem _ h
    · intro t ht
      have : P t ∈ x :: xs := by rw [← hl]; exact (hmem _).mpr ⟨t, ht, rfl⟩
      show P t ≤ _
      rcases List.mem_cons.mp this with h | h
      · rw [h]; exact h2
      · exact h3 _ h

example : demandCharge (15 : ℚ) 2 [200, 100] [[10, 20], [30, 0]] = .ok 75 := by decide +kernel

/-- `datetimes_array(sim)`: one entry per simulated period, entry `t` = start + t·period. -/
theorem datetimes_def (start period : K) (iters : Nat) :
    (datetimes start period iters).length = iters ∧
      ∀ t (h : t < (datetimes start period iters).length),
        (datetimes start period iters)[t] = start + period * (t : K) := by
  simp [datetimes]

example : datetimes (100 : ℚ) 5 4 = [100, 105, 110, 115] := by decide +kernel

/-- the executable statement-level definitions the driver evaluates are these indexed sums -/
theorem spec_defs_are_sums (names : List String) (M : Matrix K) (V c s : List K) (R : Matrix K)
    (prices : List K) (period : K) (T : Nat) (name : String) (t : Nat) (x y z : K) :
    specAggCurrent R t = ∑ i ∈ range R.length, ent R i t ∧
    specAggPower V R t = (∑ i ∈ range R.length, V.getD i 0 * ent R i t) / 1000 ∧
    specConstraintCurrent names M c s R name t =
      (rowNamed names M name).map (fun row => (phasorSum row c R t, phasorSum row s R t)) ∧
    specNema x y z = nemaFormula x y z ∧
    specEnergyCost prices T V R period = ∑ t ∈ range T, prices.getD t 0 *
        ((∑ i ∈ range R.length, V.getD i 0 * ent R i t) / 1000 * (period / 60)) := by
  have hp : ∀ t, specAggPower V R t = (∑ i ∈ range R.length, V.getD i 0 * ent R i t) / 1000 := by
    intro t; simp [specAggPower, sumK_map_range]
  refine ⟨sumK_map_range _ _, hp t, ?_, ?_, ?_⟩
  · simp [specConstraintCurrent, specPhasorPart, sumK_map_range, phasorSum]
  · simp only [specNema, nemaFormula, pyMax_eq_max]
    have h3 : (((3 : Nat) : K)) = 3 := by norm_num
    rw [h3]
    by_cases hz : (x + y + z) / 3 = 0
    · rw [if_pos ((isZero_iff _).mpr hz), if_pos hz]
    · rw [if_neg (fun h => hz ((isZero_iff _).mp h)), if_neg hz]
  · simp only [specEnergyCost, sumK_map_range, hp]
    push_cast
    rfl

end Acn.C18
